/-
Model of the structural network measures of `pyunicorn.core.network.Network`
(src/pyunicorn/core/network.py) and of the Cython kernels
`_local_cliquishness_4thorder/_5thorder`, `_nsi_betweenness`
(src/pyunicorn/core/_ext/numerics.pyx:316-494).
Core Lean only (no Mathlib) so that the driver links as an executable.

A simple graph on nodes `0..n-1` is `n : Nat` and `a : Nat → Nat → Bool`
(`a i j` = entry `[i,j]` of `sp_A`).  Two layers live side by side:

* **implementation formulas** — the matrix expressions / loops the code
  evaluates (`mmul`-products and their diagonals, the kernels' nested loops
  over the neighbour buffer, the frontier BFS, the Python loops of
  `assortativity` and `link_betweenness`), and
* **definitions** — counts of the named sub-structures (`countPairs`,
  `subsets3`, `subsets4`, …) the published definitions speak about.
`Properties/C03.lean` proves the first equal to the second.
-/
namespace Pyunicorn.Net

abbrev Adj := Nat → Nat → Bool

def b2n (b : Bool) : Nat := if b then 1 else 0

/-- `Σ_{j<n} f j` (a fold over `range n`, executable) -/
def sumTo (n : Nat) (f : Nat → Nat) : Nat := ((List.range n).map f).sum
def sumToI (n : Nat) (f : Nat → Int) : Int := ((List.range n).map f).sum
def sumToQ (n : Nat) (f : Nat → Rat) : Rat := ((List.range n).map f).sum

/-- sum of a function over a list -/
def sumL (l : List Nat) (f : Nat → Nat) : Nat := (l.map f).sum

/-! ### degrees (`network.py:1304-1388`) -/

/-- `sp_A.toarray().sum(axis=1)` -/
def outdeg (n : Nat) (a : Adj) (i : Nat) : Nat := sumTo n fun j => b2n (a i j)
/-- `sp_A.toarray().sum(axis=0)` -/
def indeg (n : Nat) (a : Adj) (i : Nat) : Nat := sumTo n fun j => b2n (a j i)
/-- `degree()`: `indegree + outdegree` if directed else `outdegree` -/
def degree (directed : Bool) (n : Nat) (a : Adj) (i : Nat) : Nat :=
  if directed then indeg n a i + outdeg n a i else outdeg n a i

/-- entries of `sp_A` as numbers -/
def toN (a : Adj) : Nat → Nat → Nat := fun i j => b2n (a i j)
def tr (x : Nat → Nat → Nat) : Nat → Nat → Nat := fun i j => x j i
/-- matrix product of `n×n` matrices (`x * y` on scipy sparse matrices) -/
def mmul (n : Nat) (x y : Nat → Nat → Nat) : Nat → Nat → Nat :=
  fun i j => sumTo n fun k => x i k * y k j

/-- `(sp_A * sp_A).diagonal()` -/
def bildeg (n : Nat) (a : Adj) (i : Nat) : Nat := mmul n (toN a) (toN a) i i

/-- strengths with a link attribute `w` (`link_attribute(key).sum(axis=…)`) -/
def outstrength (n : Nat) (w : Nat → Nat → Rat) (i : Nat) : Rat := sumToQ n fun j => w i j
def instrength (n : Nat) (w : Nat → Nat → Rat) (i : Nat) : Rat := sumToQ n fun j => w j i
/-- `(w @ w).diagonal()` -/
def bilstrength (n : Nat) (w : Nat → Nat → Rat) (i : Nat) : Rat := sumToQ n fun j => w i j * w j i

/-! ### definitions: neighbour sets and counts of ordered pairs -/

def nbrs (n : Nat) (a : Adj) (i : Nat) : List Nat := (List.range n).filter fun j => a i j
def innbrs (n : Nat) (a : Adj) (i : Nat) : List Nat := (List.range n).filter fun j => a j i

/-- number of ordered pairs `(j,k)`, `j,k < n`, with `p j k` -/
def countPairs (n : Nat) (p : Nat → Nat → Bool) : Nat :=
  sumTo n fun j => sumTo n fun k => b2n (p j k)

/-! ### motif clustering (`network.py:1865-1997`): numerators as matrix products -/

/-- `(x * x * x).diagonal()` -/
def tCycle (n : Nat) (a : Adj) (i : Nat) : Nat := mmul n (mmul n (toN a) (toN a)) (toN a) i i
/-- `(x * xT * x).diagonal()` -/
def tMid (n : Nat) (a : Adj) (i : Nat) : Nat := mmul n (mmul n (toN a) (tr (toN a))) (toN a) i i
/-- `(xT * x * x).diagonal()` -/
def tIn (n : Nat) (a : Adj) (i : Nat) : Nat := mmul n (mmul n (tr (toN a)) (toN a)) (toN a) i i
/-- `(x * x * xT).diagonal()` -/
def tOut (n : Nat) (a : Adj) (i : Nat) : Nat := mmul n (mmul n (toN a) (toN a)) (tr (toN a)) i i

/-- `T = indegree*outdegree - bildegree` -/
def TCycle (n : Nat) (a : Adj) (i : Nat) : Int :=
  (indeg n a i : Int) * (outdeg n a i : Int) - (bildeg n a i : Int)
/-- `T = indegree*(indegree-1)` -/
def TIn (n : Nat) (a : Adj) (i : Nat) : Int := (indeg n a i : Int) * ((indeg n a i : Int) - 1)
/-- `T = outdegree*(outdegree-1)` -/
def TOut (n : Nat) (a : Adj) (i : Nat) : Int := (outdeg n a i : Int) * ((outdeg n a i : Int) - 1)

/-- `T[T==0] = nan; C = t/T; C[isnan(C)] = 0` -/
def ratio0 (t : Nat) (T : Int) : Rat := if T = 0 then 0 else (t : Rat) / (T : Rat)

def cycleC (n : Nat) (a : Adj) (i : Nat) : Rat := ratio0 (tCycle n a i) (TCycle n a i)
def midC (n : Nat) (a : Adj) (i : Nat) : Rat := ratio0 (tMid n a i) (TCycle n a i)
def inC (n : Nat) (a : Adj) (i : Nat) : Rat := ratio0 (tIn n a i) (TIn n a i)
def outC (n : Nat) (a : Adj) (i : Nat) : Rat := ratio0 (tOut n a i) (TOut n a i)

/-- Watts–Strogatz clustering as the matrix formula `(A³)_ii / (k_i (k_i-1))`, 0 if `k_i < 2` -/
def localClustering (n : Nat) (a : Adj) (i : Nat) : Rat :=
  ratio0 (tCycle n a i) (TOut n a i)

/-- transitivity `Σ_i (A³)_ii / Σ_i k_i(k_i-1)`; `none` (nan) without connected triples -/
def transitivity (n : Nat) (a : Adj) : Option Rat :=
  let den := sumToI n fun i => TOut n a i
  if den = 0 then none else some ((sumTo n fun i => tCycle n a i : Nat) / (den : Rat))

/-! ### matching index and Laplacian (`network.py:2731-2754`, `1042-1078`) -/

/-- `commons / (kk + kk.T - commons)`; `none` where numpy yields `nan` (0/0) -/
def matching (n : Nat) (a : Adj) (i j : Nat) : Option Rat :=
  let c := mmul n (toN a) (toN a) i j
  let den : Int := (outdeg n a i : Int) + (outdeg n a j : Int) - (c : Int)
  if den = 0 then none else some ((c : Rat) / (den : Rat))

/-- `np.diag(diagonal) - adjacency`, `diagonal` = out-, in- or total degree -/
def laplacian (a : Adj) (diag : Nat → Nat) (i j : Nat) : Int :=
  (if i = j then (diag i : Int) else 0) - (b2n (a i j) : Int)

/-! ### cliquishness kernels (`numerics.pyx:316-395`) -/

/-- the three inner loops of `_local_cliquishness_4thorder` over the neighbour buffer -/
def counter4 (a : Adj) (nb : List Nat) : Nat :=
  sumL nb fun n1 => sumL nb fun n2 =>
    if a n1 n2 then sumL nb fun n3 => b2n (a n2 n3 && a n3 n1) else 0

/-- the four inner loops of `_local_cliquishness_5thorder` -/
def counter5 (a : Adj) (nb : List Nat) : Nat :=
  sumL nb fun n1 => sumL nb fun n2 =>
    if a n1 n2 then sumL nb fun n3 =>
      if a n1 n3 && a n2 n3 then sumL nb fun n4 => b2n (a n1 n4 && a n2 n4 && a n3 n4) else 0
    else 0

/-- the `neighbors` buffer after the fill loop for node `i`: the first
`index` slots are overwritten, the rest keeps what earlier nodes left there -/
def fillBuf (buf : List Nat) (nb : List Nat) : List Nat := nb ++ buf.drop nb.length

/-- one iteration of the outer loop: returns the new buffer and the value for node `i`.
`order = 4` or `5`; `deg` is the `degree` argument of the kernel. -/
def cliqNode (order : Nat) (n : Nat) (a : Adj) (deg : Nat) (buf : List Nat) (i : Nat) :
    List Nat × Rat :=
  if deg ≥ order - 1 then
    let buf' := fillBuf buf (nbrs n a i)
    let nb := buf'.take deg
    if order = 4 then
      (buf', (counter4 a nb : Rat) / ((deg * (deg - 1) * (deg - 2) : Nat) : Rat))
    else
      (buf', (counter5 a nb : Rat) / ((deg * (deg - 1) * (deg - 2) * (deg - 3) : Nat) : Rat))
  else (buf, 0)

def cliqLoop (order : Nat) (n : Nat) (a : Adj) (deg : Nat → Nat) :
    List Nat → List Nat → List Rat
  | _, [] => []
  | buf, i :: rest =>
    let r := cliqNode order n a (deg i) buf i
    r.2 :: cliqLoop order n a deg r.1 rest

/-- `_local_cliquishness_4thorder(N, A, degree)` / `_5thorder` -/
def cliquishness (order : Nat) (n : Nat) (a : Adj) (deg : Nat → Nat) : List Rat :=
  cliqLoop order n a deg (List.replicate n 0) (List.range n)

/-- the kernels' clique tests -/
def clique3 (a : Adj) (x y z : Nat) : Bool := a x y && a y z && a z x
def clique4 (a : Adj) (x y z u : Nat) : Bool :=
  a x y && (a x z && a y z) && (a x u && a y u && a z u)

/-- definition: number of position pairs `y` before `z` in a list with `p y z` -/
def pairsP (p : Nat → Nat → Bool) : List Nat → Nat
  | [] => 0
  | y :: u => pairsP p u + sumL u fun z => b2n (p y z)
/-- number of position triples `x` before `y` before `z` with `t x y z` (3-subsets of a duplicate-free list) -/
def triplesP (t : Nat → Nat → Nat → Bool) : List Nat → Nat
  | [] => 0
  | x :: l => triplesP t l + pairsP (t x) l
/-- number of position quadruples (4-subsets of a duplicate-free list) -/
def quadsP (q : Nat → Nat → Nat → Nat → Bool) : List Nat → Nat
  | [] => 0
  | x :: l => quadsP q l + triplesP (q x) l

/-- triangles through `i` in an undirected graph: pairs `j<k` of neighbours of `i` that are linked -/
def triangles (n : Nat) (a : Adj) (i : Nat) : Nat :=
  pairsP (fun j k => a i j && a j k && a k i) (List.range n)

/-- number of triangles (`K₃`) inside the neighbourhood of `i` -/
def k3InNbhd (n : Nat) (a : Adj) (i : Nat) : Nat := triplesP (clique3 a) (nbrs n a i)
/-- number of `K₄` inside the neighbourhood of `i` -/
def k4InNbhd (n : Nat) (a : Adj) (i : Nat) : Nat := quadsP (clique4 a) (nbrs n a i)

/-! ### shortest paths: frontier BFS (what `graph.distances()` is specified to return) -/

def setAll (ds : List (Option Nat)) (vs : List Nat) (d : Nat) : List (Option Nat) :=
  vs.foldl (fun ds v => ds.set v (some d)) ds

def bfsAux (n : Nat) (a : Adj) : Nat → Nat → List Nat → List (Option Nat) → List (Option Nat)
  | 0, _, _, ds => ds
  | fuel + 1, d, front, ds =>
    let next := (List.range n).filter fun v =>
      (ds.getD v none).isNone && front.any fun u => a u v
    if next.isEmpty then ds else bfsAux n a fuel (d + 1) next (setAll ds next (d + 1))

/-- distances from `src` to every node (`none` = unreachable = `inf`) -/
def bfs (n : Nat) (a : Adj) (src : Nat) : List (Option Nat) :=
  bfsAux n a n 0 [src] ((List.replicate n none).set src (some 0))

def dist (n : Nat) (a : Adj) (i j : Nat) : Option Nat := (bfs n a i).getD j none

/-- definition layer: level sets of the shortest-path metric.  `lev n a src d v = some k` iff `v` is
first reached from `src` after `k ≤ d` steps along links between nodes `< n`
(`Lemmas/NetPaths.lean` proves this is the length of a shortest walk). -/
def lev (n : Nat) (a : Adj) (src : Nat) : Nat → Nat → Option Nat
  | 0, v => if v = src then some 0 else none
  | d + 1, v =>
    match lev n a src d v with
    | some k => some k
    | none =>
      if (List.range n).any (fun u => lev n a src d u == some d && a u v) then some (d + 1) else none

/-- `1/d` with `1/inf = 0` -/
def invDist : Option Nat → Rat
  | none => 0
  | some d => 1 / (d : Rat)

/-- `global_efficiency()`: diagonal set to `inf`, `1/(N(N-1)) · Σ 1/d` -/
def globalEfficiency (n : Nat) (d : Nat → Nat → Option Nat) : Rat :=
  (1 / ((n * (n - 1) : Nat) : Rat)) *
    sumToQ n fun i => sumToQ n fun j => invDist (if i = j then none else d i j)

/-- definition: mean of `1/d_ij` over ordered pairs `i ≠ j` -/
def efficiencyDef (n : Nat) (d : Nat → Nat → Option Nat) : Rat :=
  (sumToQ n fun i => sumToQ n fun j => if i = j then 0 else invDist (d i j))
    / ((n * (n - 1) : Nat) : Rat)

/-- `average_path_length(link_attribute)` branch: mean over connected ordered
pairs `i≠j` — `sum / (N(N-1) - #inf)`; `none` if that count is 0 -/
def avgPathLength (n : Nat) (d : Nat → Nat → Option Rat) : Option Rat :=
  let tot := sumToQ n fun i => sumToQ n fun j => (d i j).getD 0
  let ninf := sumTo n fun i => sumTo n fun j => b2n (d i j).isNone
  let den : Int := (n * (n - 1) : Nat) - (ninf : Int)
  if den = 0 then none else some (tot / (den : Rat))

/-- weighted `closeness(link_attribute)`: `inf → N`, `(N-1)/rowsum`, 0 if rowsum = 0 -/
def closenessW (n : Nat) (d : Nat → Nat → Option Rat) (i : Nat) : Rat :=
  let s := sumToQ n fun j => (d i j).getD (n : Rat)
  if s = 0 then 0 else ((n - 1 : Nat) : Rat) / s

/-- closeness on a connected graph: `(N-1) / Σ_j d_ij` -/
def closeness (n : Nat) (d : Nat → Nat → Option Nat) (i : Nat) : Option Rat :=
  if (List.range n).all fun j => (d i j).isSome then
    let s := sumTo n fun j => (d i j).getD 0
    if s = 0 then none else some (((n - 1 : Nat) : Rat) / (s : Rat))
  else none

/-- n.s.i. closeness with node weights `w`: `W / Σ_j w_j (d_ij + δ_ij)`, 0 if some `d_ij = inf` -/
def nsiCloseness (n : Nat) (d : Nat → Nat → Option Nat) (w : Nat → Rat) (i : Nat) : Rat :=
  if (List.range n).all fun j => (d i j).isSome then
    (sumToQ n w) / sumToQ n fun j => w j * (((d i j).getD 0 + (if i = j then 1 else 0) : Nat) : Rat)
  else 0

/-! ### `local_vulnerability` (`network.py:4020-4068`): node removal and two efficiencies -/

/-- adjacency of `self.graph - i` (igraph deletes vertex `i` and renumbers the later ones) -/
def removeNode (a : Adj) (i : Nat) : Adj :=
  fun x y => a (if x < i then x else x + 1) (if y < i then y else y + 1)

/-- `(E − E_i)/E` with `E = global_efficiency()` and `E_i` the efficiency of the network without
node `i`; `none` = `nan`/`inf` of the float division when `E = 0`.  (Guard of the real code:
`N ≥ 3`, otherwise the reduced network cannot be built / `1/(N(N−1))` divides by zero.) -/
def localVulnerability (n : Nat) (a : Adj) (i : Nat) : Option Rat :=
  let E := globalEfficiency n (dist n a)
  let Ei := globalEfficiency (n - 1) (dist (n - 1) (removeNode a i))
  if E = 0 then none else some ((E - Ei) / E)

/-- `graph.average_path_length()` (igraph, `unconn=True`): mean distance over the ordered pairs
`i ≠ j` joined by a path; `none` = `nan` when there is no such pair -/
def avgPathLengthU (n : Nat) (d : Nat → Nat → Option Nat) : Option Rat :=
  let tot := sumTo n fun i => sumTo n fun j => if i = j then 0 else (d i j).getD 0
  let cnt := sumTo n fun i => sumTo n fun j => b2n (i != j && (d i j).isSome)
  if cnt = 0 then none else some ((tot : Rat) / (cnt : Rat))

/-- `graph.diameter(unconn=True)`: the largest finite distance -/
def diameter (n : Nat) (d : Nat → Nat → Option Nat) : Nat :=
  (List.range n).foldl (fun m i => (List.range n).foldl (fun m j => max m ((d i j).getD 0)) m) 0

/-! ### n.s.i. degree family (`sp_Aplus() * node_weights`) -/

def aplus (a : Adj) : Adj := fun i j => a i j || i == j
def nsiOutdeg (n : Nat) (a : Adj) (w : Nat → Rat) (i : Nat) : Rat :=
  sumToQ n fun j => if aplus a i j then w j else 0
def nsiIndeg (n : Nat) (a : Adj) (w : Nat → Rat) (i : Nat) : Rat :=
  sumToQ n fun j => if aplus a j i then w j else 0
def nsiDegree (directed : Bool) (n : Nat) (a : Adj) (w : Nat → Rat) (i : Nat) : Rat :=
  if directed then nsiIndeg n a w i + nsiOutdeg n a w i else nsiOutdeg n a w i

/-- uncorrected `nsi_local_clustering`: `((A Dw A⁺ Dw Aᵀ)_ii + 2 k w - w²)/k²` -/
def nsiLocalClustering (n : Nat) (a : Adj) (w : Nat → Rat) (i : Nat) : Rat :=
  let k := nsiOutdeg n a w i
  let num := sumToQ n fun j => sumToQ n fun l =>
    if a i j && aplus a j l && a i l then w j * w l else 0
  (num + 2 * k * w i - w i * w i) / (k * k)


/-! ### `weighted_local_clustering` (`network.py`, static method; [Holme2007]) -/

/-- `np.linalg.matrix_power(wA, 3).diagonal() / (wA.dot(max_w).dot(wA)).diagonal()` with
`max_w = ones * wA.max()`: the numerator is `Σ_jk w_ij w_jk w_ki`, the denominator
`Σ_jk w_ij · max(w) · w_ki`; `none` = `nan` of the float division `0/0` -/
def weightedLocalClustering (n : Nat) (w : Nat → Nat → Rat) (i : Nat) : Option Rat :=
  let mx := (List.range n).foldl (fun m r => (List.range n).foldl (fun m c => max m (w r c)) m) (w 0 0)
  let num := sumToQ n fun j => sumToQ n fun k => w i j * w j k * w k i
  let den := sumToQ n fun j => sumToQ n fun k => w i j * mx * w k i
  if den = 0 then none else some (num / den)

/-! ### coreness by peeling (specification of `graph.coreness()`, mode = all) -/

/-- degree of `v` inside the alive set, counting in- and out-links (multi-edges as igraph) -/
def aliveDeg (n : Nat) (a : Adj) (directed : Bool) (alive : List Bool) (v : Nat) : Nat :=
  sumTo n fun u => if alive.getD u false && u != v then
    b2n (a v u) + (if directed then b2n (a u v) else 0) else 0

/-- remove nodes of alive-degree `< k` until none is left to remove -/
def peel (n : Nat) (a : Adj) (directed : Bool) (k : Nat) : Nat → List Bool → List Bool
  | 0, alive => alive
  | fuel + 1, alive =>
    let alive' := (List.range n).map fun v =>
      alive.getD v false && decide (aliveDeg n a directed alive v ≥ k)
    if alive' == alive then alive else peel n a directed k fuel alive'

def coreLoop (n : Nat) (a : Adj) (directed : Bool) :
    Nat → Nat → List Bool → List Nat → List Nat
  | 0, _, _, core => core
  | fuel + 1, k, alive, core =>
    let alive' := peel n a directed k n alive
    if alive'.all (· == false) then core
    else coreLoop n a directed fuel (k + 1) alive'
      ((List.range n).map fun v => if alive'.getD v false then k else core.getD v 0)

def coreness (n : Nat) (a : Adj) (directed : Bool) : List Nat :=
  coreLoop n a directed (2 * n + 1) 1 (List.replicate n true) (List.replicate n 0)

/-! ### assortativity (`network.py:2385-2412`): the Python loop over the edge list -/

structure AssAcc where
  num1 : Int
  num2 : Int
  den1 : Int

def assStep (deg : Nat → Nat) (s : AssAcc) (e : Nat × Nat) : AssAcc :=
  { num1 := s.num1 + (deg e.1 : Int) * (deg e.2 : Int)
    num2 := s.num2 + (deg e.1 : Int) + (deg e.2 : Int)
    den1 := s.den1 + (deg e.1 : Int) * (deg e.1 : Int) + (deg e.2 : Int) * (deg e.2 : Int) }

/-- `graph.get_edgelist()`: `i<j` pairs for undirected, all ordered pairs for directed -/
def edgeList (directed : Bool) (n : Nat) (a : Adj) : List (Nat × Nat) :=
  (List.range n).flatMap fun i => ((List.range n).filter fun j =>
    a i j && (directed || decide (i < j))).map fun j => (i, j)

/-- `none` = `ZeroDivisionError` (no edges, or all end-point degrees equal) -/
def assortativity (directed : Bool) (n : Nat) (a : Adj) : Option Rat :=
  let deg := degree directed n a
  let es := edgeList directed n a
  let s := es.foldl (assStep deg) ⟨0, 0, 0⟩
  let m : Rat := (es.length : Rat)
  if es.length = 0 then none else
  let num1 := (s.num1 : Rat) / m
  let den1 := (s.den1 : Rat) / (2 * m)
  let num2 := ((s.num2 : Rat) / (2 * m)) * ((s.num2 : Rat) / (2 * m))
  if den1 - num2 = 0 then none else some ((num1 - num2) / (den1 - num2))

/-- definition layer: every pair together with its mirror image -/
def symPairs (qs : List (Rat × Rat)) : List (Rat × Rat) := qs.flatMap fun p => [p, (p.2, p.1)]

/-- definition: Pearson correlation coefficient `cov(X,Y)/var(X)` of a list of pairs that is closed
under mirroring (so both marginals have the same mean and variance); `none` if undefined -/
def pearsonSym (ps : List (Rat × Rat)) : Option Rat :=
  let mu := (ps.map fun p => p.1).sum / (ps.length : Rat)
  let cov := (ps.map fun p => (p.1 - mu) * (p.2 - mu)).sum
  let var := (ps.map fun p => (p.1 - mu) * (p.1 - mu)).sum
  if ps.length = 0 then none else if var = 0 then none else some (cov / var)

/-- the degrees found at the two ends of every link, every link in both orientations -/
def endDegrees (directed : Bool) (n : Nat) (a : Adj) : List (Rat × Rat) :=
  symPairs ((edgeList directed n a).map fun e =>
    ((degree directed n a e.1 : Rat), (degree directed n a e.2 : Rat)))

/-! ### `link_betweenness` bookkeeping (`network.py:2778-2794`) -/

/-- the loop that writes `link_betweenness[ecount]` into `result[i,j] = result[j,i]`
for the adjacency-list entries with `i < j`, in order; returns the triples written -/
def linkWrites (adjlist : List (List Nat)) (vals : List Rat) : List (Nat × Nat × Rat) :=
  let pairs := (adjlist.zipIdx).flatMap fun (ai, i) => (ai.filter fun j => i < j).map fun j => (i, j)
  (pairs.zip vals).map fun ((i, j), v) => (i, j, v)

end Pyunicorn.Net
