/-
Model of the windowing and climatology code of pyunicorn:

* `Data.set_window` / `Data.set_global_window` / `Data.window`
  (src/pyunicorn/core/data.py:406-524) together with the part of
  `Grid.__init__` (src/pyunicorn/core/grid.py:42-66) that they run,
* `ClimateData.phase_indices`, `indices_selected_phases`,
  `indices_selected_months`, `phase_mean`, `anomaly`,
  `anomaly_selected_months`, `set_window`, `set_global_window`
  (src/pyunicorn/climate/climate_data.py:199-468) and the `_mut_window`-keyed
  `Cached.method` memoisation of `phase_mean` / `anomaly`.

Core Lean only (no Mathlib) so that the driver links as an executable.
All numbers are exact rationals: every IEEE value the harness sends is a
dyadic rational, and the code only uses comparison, `+`, `-` and `/ count`.
-/
namespace Pyunicorn.Window

abbrev Vec := List Rat
abbrev Mat := List (List Rat)

/-! ### boolean-mask indexing and window masks (`Data.set_window`) -/

/-- NumPy boolean-mask indexing `xs[mask]`. -/
def select {α : Type} : List Bool → List α → List α
  | [], _ => []
  | _ :: _, [] => []
  | b :: m, x :: xs => if b then x :: select m xs else select m xs

/-- the window dictionary -/
structure Win where
  tmin : Rat
  tmax : Rat
  latmin : Rat
  latmax : Rat
  lonmin : Rat
  lonmax : Rat
deriving Repr

/-- `set_global_window`: all six entries `0.` -/
def globalWin : Win := ⟨0, 0, 0, 0, 0, 0⟩

/-- `(x >= lo) & (x <= hi)` -/
def inRange (lo hi x : Rat) : Bool := decide (lo ≤ x) && decide (x ≤ hi)

/-- `time_indices` (data.py:465-472) -/
def timeMask (w : Win) (time : Vec) : List Bool :=
  if w.tmin = w.tmax then List.replicate time.length true
  else time.map (inRange w.tmin w.tmax)

/-- the predicate of the spatial window on one node -/
def inBox (w : Win) (la lo : Rat) : Bool :=
  inRange w.latmin w.latmax la && inRange w.lonmin w.lonmax lo

/-- `space_indices` (data.py:476-490): the whole grid if the latitude *or* the
longitude bounds coincide -/
def spaceMask (w : Win) (lat lon : Vec) : List Bool :=
  if w.latmin = w.latmax ∨ w.lonmin = w.lonmax then List.replicate lat.length true
  else List.zipWith (inBox w) lat lon

/-- what an object exposes: `grid.grid()["time"|"lat"|"lon"]` and `observable()`
(rows = time, columns = nodes) -/
structure View where
  time : Vec
  lat : Vec
  lon : Vec
  obs : Mat
deriving Repr, DecidableEq

/-- `Data.set_window` as a function of the full data set.  `none` is the
`ValueError` raised by `GeoGrid(time, lat_seq, lon_seq)` (`time_seq.min()`,
`np.amin(space_seq, axis=1)` of an empty selection); in that case nothing is
assigned (the grid is constructed before `_observable` is replaced). -/
def applyWindow (full : View) (w : Win) : Option View :=
  let tm := timeMask w full.time
  let sm := spaceMask w full.lat full.lon
  let time := select tm full.time
  let lat := select sm full.lat
  let lon := select sm full.lon
  let obs := (select tm full.obs).map (select sm)
  if time.isEmpty || lat.isEmpty then none else some ⟨time, lat, lon, obs⟩

/-- minimum / maximum of a non-empty list (`ndarray.min()`), `none` = `ValueError` -/
def vmin : Vec → Option Rat
  | [] => none
  | x :: xs => some (xs.foldl (fun a b => if b < a then b else a) x)
def vmax : Vec → Option Rat
  | [] => none
  | x :: xs => some (xs.foldl (fun a b => if a < b then b else a) x)

/-- `Data.window()` = `grid.boundaries()`:
`[time_min, time_max, lat_min, lat_max, lon_min, lon_max]` -/
def boundaries (v : View) : Option (List Rat) := do
  let a ← vmin v.time; let b ← vmax v.time
  let c ← vmin v.lat; let d ← vmax v.lat
  let e ← vmin v.lon; let f ← vmax v.lon
  pure [a, b, c, d, e, f]

/-! ### strided slices `x[i::c]` -/

/-- `xs[k::c]` as the walk NumPy performs: skip `k` entries, take one, then
skip `c-1`, … -/
def everyNth {α : Type} (c : Nat) : Nat → List α → List α
  | _, [] => []
  | 0, x :: t => x :: everyNth c (c - 1) t
  | k + 1, _ :: t => everyNth c k t

/-- `xs[k::c] = vs` (strided assignment; NumPy requires `len(vs) = len(xs[k::c])`,
a shorter `vs` leaves the remaining entries untouched in the model) -/
def setEveryNth {α : Type} (c : Nat) : Nat → List α → List α → List α
  | _, [], _ => []
  | 0, x :: t, [] => x :: t
  | 0, _ :: t, v :: vs => v :: setEveryNth c (c - 1) t vs
  | k + 1, x :: t, vs => x :: setEveryNth c k t vs

/-! ### climatology (`phase_indices`, `phase_mean`, `anomaly`) -/

def vadd (a b : Vec) : Vec := List.zipWith (· + ·) a b
def vsub (a b : Vec) : Vec := List.zipWith (· - ·) a b
def zeros (n : Nat) : Vec := List.replicate n 0

/-- `rows.sum(axis=0)` for rows of length `n` -/
def colSum (n : Nat) : Mat → Vec
  | [] => zeros n
  | r :: rs => vadd r (colSum n rs)

/-- `rows.mean(axis=0)`; `none` = the row of NaNs NumPy returns for an empty slice -/
def colMean (n : Nat) (rows : Mat) : Option Vec :=
  if rows.isEmpty then none else some ((colSum n rows).map (· / (rows.length : Rat)))

/-- `phase_indices()`: `range_years = int(T / c)`, row `i` = `arange(i, range_years*c, c)`.
`none` = `ZeroDivisionError` (`time_cycle = 0`). -/
def phaseIndices (c T : Nat) : Option (List (List Nat)) :=
  if c = 0 then none
  else some ((List.range c).map fun i => (List.range (T / c)).map fun y => i + y * c)

/-- `phase_mean()`: row `i` = `observable[i::c, :].mean(axis=0)` -/
def phaseMean (c n : Nat) (obs : Mat) : List (Option Vec) :=
  (List.range c).map fun i => colMean n (everyNth c i obs)

/-- body of the loop of `anomaly()` for phase `i`:
`sample = observable[i::c, :]; anomaly[i::c, :] = sample - sample.mean(axis=0)` -/
def anomalyStep (c n : Nat) (obs : Mat) (A : Mat) (i : Nat) : Mat :=
  let sample := everyNth c i obs
  match colMean n sample with
  | none => A            -- empty sample: a 0×n block is assigned, nothing changes
  | some m => setEveryNth c i A (sample.map (vsub · m))

/-- `anomaly()` without the `anomalies` shortcut: `np.zeros(observable.shape)`
then the loop over the phases -/
def anomalyOf (c n : Nat) (obs : Mat) : Mat :=
  (List.range c).foldl (anomalyStep c n obs) (List.replicate obs.length (zeros n))

/-- insertion sort (`ndarray.sort()` of the flattened index array) -/
def insertSorted (x : Nat) : List Nat → List Nat
  | [] => [x]
  | y :: ys => if x ≤ y then x :: y :: ys else y :: insertSorted x ys
def sortNat (xs : List Nat) : List Nat := xs.foldr insertSorted []

/-- result of an indexing operation that may raise -/
inductive Res (α : Type) where
  | ok : α → Res α
  | valueError | zeroDivision | indexError | notImplemented
deriving Repr, DecidableEq

/-- `indices_selected_phases(sel)`: `phase_indices()[sel, :]` flattened and sorted
(only non-negative phase numbers are modelled) -/
def indicesSelectedPhases (c T : Nat) (sel : List Nat) : Res (List Nat) :=
  match phaseIndices c T with
  | none => .zeroDivision
  | some pi =>
    if sel.all (· < c) then .ok (sortNat ((sel.map fun p => pi.getD p []).flatten))
    else .indexError

/-- `indices_selected_months(months)` -/
def indicesSelectedMonths (c T : Nat) (months : List Nat) : Res (List Nat) :=
  if c = 12 then indicesSelectedPhases c T months
  else if c = 360 then
    indicesSelectedPhases c T (months.flatMap fun m => (List.range 30).map fun d => m * 30 + d)
  else .notImplemented

/-! ### the loops as written (`np.zeros` + one row assignment per phase) -/

def Res.bind {α β : Type} : Res α → (α → Res β) → Res β
  | .ok a, f => f a
  | .valueError, _ => .valueError
  | .zeroDivision, _ => .zeroDivision
  | .indexError, _ => .indexError
  | .notImplemented, _ => .notImplemented

/-- `np.arange(start, stop, step)` on integers (`step > 0`): NumPy computes the
length `⌈(stop - start) / step⌉` (0 if negative) and fills `start + k * step` -/
def arange (start stop step : Nat) : List Nat :=
  (List.range ((stop - start + step - 1) / step)).map fun k => start + k * step

/-- `M[i, :] = row` for a matrix with rows of length `w`: NumPy broadcasting accepts
a row of length `w` or of length 1, anything else is a `ValueError` -/
def rowAssign (w : Nat) (M : List (List Nat)) (i : Nat) (row : List Nat) : Res (List (List Nat)) :=
  if row.length = w then .ok (M.set i row)
  else match row with
    | [x] => .ok (M.set i (List.replicate w x))
    | _ => .valueError

/-- `phase_indices()` as written: `range_years = int(T / c)` (`ZeroDivisionError` for
`c = 0`), `phase_indices = np.zeros((c, range_years), dtype=int)`, then
`for i in range(c): phase_indices[i, :] = np.arange(i, range_years * c, c)` -/
def phaseIndicesLoop (c T : Nat) : Res (List (List Nat)) :=
  if c = 0 then .zeroDivision
  else
    let ry := T / c
    (List.range c).foldl
      (fun acc i => acc.bind fun M => rowAssign ry M i (arange i (ry * c) c))
      (.ok (List.replicate c (List.replicate ry 0)))

/-- `phase_mean()` as written: `phase_mean = np.zeros((c, N))`, then
`for i in range(c): phase_mean[i, :] = observable[i::c, :].mean(axis=0)` -/
def phaseMeanLoop (c n : Nat) (obs : Mat) : List (Option Vec) :=
  (List.range c).foldl (fun M i => M.set i (colMean n (everyNth c i obs)))
    (List.replicate c (some (zeros n)))

/-- NumPy normalisation of one (possibly negative) index along an axis of length `n`:
valid iff `-n ≤ p < n`; negative indices count from the end -/
def normIndex (n : Nat) (p : Int) : Option Nat :=
  if 0 ≤ p then (if p < (n : Int) then some p.toNat else none)
  else if -(n : Int) ≤ p then some (p + (n : Int)).toNat else none

/-- normalisation of a whole index list (`none` = `IndexError`) -/
def normAll (n : Nat) : List Int → Option (List Nat)
  | [] => some []
  | p :: ps =>
    match normIndex n p, normAll n ps with
    | some q, some qs => some (q :: qs)
    | _, _ => none

/-- `indices_selected_phases(sel)` for arbitrary integer phase numbers:
`phase_indices()[sel, :]` (fancy index with wrap-around of negative numbers,
`IndexError` outside `[-c, c)`), flattened and sorted -/
def indicesSelectedPhasesI (c T : Nat) (sel : List Int) : Res (List Nat) :=
  (phaseIndicesLoop c T).bind fun pi =>
    match normAll c sel with
    | none => .indexError
    | some ps => .ok (sortNat ((ps.map fun p => pi.getD p []).flatten))

/-- the loop of `indices_selected_months` for `time_cycle = 360`:
`for month in selected_months: for day in range(30): selected_days.append(month * 30 + day)` -/
def monthDays (months : List Int) : List Int :=
  months.foldl (fun acc m => (List.range 30).foldl (fun acc d => acc ++ [m * 30 + Int.ofNat d]) acc) []

/-- `indices_selected_months(months)` for arbitrary integer month numbers -/
def indicesSelectedMonthsI (c T : Nat) (months : List Int) : Res (List Nat) :=
  if c = 12 then indicesSelectedPhasesI c T months
  else if c = 360 then indicesSelectedPhasesI c T (monthDays months)
  else .notImplemented

/-- `shuffled_anomaly()`: column `j` of `anomaly()` rearranged by the permutation
`random.shuffle` applied to it (`perms[j][k]` = old position of the entry now at `k`);
the result array is `np.empty(anomaly().shape)` filled column by column -/
def shuffledAnomaly (A : Mat) (n : Nat) (perms : List (List Nat)) : Mat :=
  (List.range A.length).map fun k =>
    (List.range n).map fun j => (A.getD ((perms.getD j []).getD k 0) []).getD j 0

/-! ### the object: window state machine and `_mut_window`-keyed memoisation -/

structure Obj where
  full : View
  cur : View
  cycle : Nat
  /-- the `anomalies` constructor flag -/
  anom : Bool
  /-- `_mut_window` -/
  ver : Nat
  /-- `lru_cache` entries of `phase_mean`, keyed by `__cache_state__() = (_mut_window,)` -/
  pmCache : List (Nat × List (Option Vec))
  /-- `lru_cache` entries of `anomaly` -/
  anCache : List (Nat × Mat)
  /-- ghost field (not in the code): the last window that was accepted -/
  win : Win
deriving Repr

/-- number of columns `observable.shape[1]` of the current view -/
def Obj.ncols (o : Obj) : Nat := o.cur.lat.length

/-- `ClimateData.set_window`: `Data.set_window(self, window)` then
`self._mut_window += 1`; an exception leaves the object untouched.
Returns `(raised?, new object)`. -/
def Obj.setWindow (o : Obj) (w : Win) : Bool × Obj :=
  match applyWindow o.full w with
  | none => (true, o)
  | some v => (false, { o with cur := v, ver := o.ver + 1, win := w })

/-- `ClimateData.set_global_window`: `Data.set_global_window(self)` dispatches to
`self.set_window(global_window)` (first bump), then bumps again -/
def Obj.setGlobal (o : Obj) : Bool × Obj :=
  match o.setWindow globalWin with
  | (true, o') => (true, o')
  | (false, o') => (false, { o' with ver := o'.ver + 1 })

/-- uncached bodies -/
def Obj.phaseMeanFresh (o : Obj) : List (Option Vec) := phaseMeanLoop o.cycle o.ncols o.cur.obs
def Obj.anomalyFresh (o : Obj) : Mat :=
  if o.anom then o.cur.obs else anomalyOf o.cycle o.ncols o.cur.obs

/-- `phase_mean()` through the cache -/
def Obj.phaseMeanQ (o : Obj) : List (Option Vec) × Obj :=
  match o.pmCache.lookup o.ver with
  | some v => (v, o)
  | none => let v := o.phaseMeanFresh; (v, { o with pmCache := (o.ver, v) :: o.pmCache })

/-- `anomaly()` through the cache -/
def Obj.anomalyQ (o : Obj) : Mat × Obj :=
  match o.anCache.lookup o.ver with
  | some v => (v, o)
  | none => let v := o.anomalyFresh; (v, { o with anCache := (o.ver, v) :: o.anCache })

/-- `lru_cache` may drop any entry at any time (bounded size, shared between
instances): eviction of the entries selected by `keep` -/
def Obj.evict (o : Obj) (keep : Nat → Bool) : Obj :=
  { o with pmCache := o.pmCache.filter (fun e => keep e.1),
           anCache := o.anCache.filter (fun e => keep e.1) }

/-- constructor: `ClimateData(observable, grid, time_cycle, anomalies, window)`.
`window = none`: `Data.set_global_window(self)` → `self.set_window` (one bump);
`window = some w`: `Data.set_window(self, w)` directly (no bump).
`none` = the constructor raises `ValueError`. -/
def Obj.init (full : View) (c : Nat) (anom : Bool) (w : Option Win) : Option Obj :=
  match applyWindow full (w.getD globalWin) with
  | none => none
  | some v => some ⟨full, v, c, anom, if w.isNone then 1 else 0, [], [], w.getD globalWin⟩

/-- `anomaly_selected_months(months)` = `anomaly()[indices, :]` -/
def selectRows (A : Mat) (idx : List Nat) : Res Mat :=
  if idx.all (· < A.length) then .ok (idx.map fun t => A.getD t []) else .indexError

/-- `obj.set_window(obj.window())`: the dictionary returned by the library is fed back -/
def Obj.setWindowCurrent (o : Obj) : Bool × Obj :=
  match boundaries o.cur with
  | some [a, b, c, d, e, f] => o.setWindow ⟨a, b, c, d, e, f⟩
  | _ => (true, o)

/-- `anomaly_selected_months(months)` = `anomaly()[indices_selected_months(months), :]`
(the index computation comes first; `anomaly()` goes through the cache) -/
def Obj.anomalySelectedMonths (o : Obj) (months : List Int) : Res Mat × Obj :=
  match indicesSelectedMonthsI o.cycle o.cur.time.length months with
  | .ok idx => let (A, o') := o.anomalyQ; (selectRows A idx, o')
  | .valueError => (.valueError, o)
  | .zeroDivision => (.zeroDivision, o)
  | .indexError => (.indexError, o)
  | .notImplemented => (.notImplemented, o)

/-- operations of a history -/
inductive Op where
  | setWindow (w : Win)
  | setGlobal
  | qPhaseMean
  | qAnomaly
  | evict (keep : Nat → Bool)
  | setWindowCurrent
  | qSelectedMonths (months : List Int)

def Obj.step (o : Obj) : Op → Obj
  | .setWindow w => (o.setWindow w).2
  | .setGlobal => o.setGlobal.2
  | .qPhaseMean => o.phaseMeanQ.2
  | .qAnomaly => o.anomalyQ.2
  | .evict keep => o.evict keep
  | .setWindowCurrent => o.setWindowCurrent.2
  | .qSelectedMonths months => (o.anomalySelectedMonths months).2

def Obj.run (o : Obj) (ops : List Op) : Obj := ops.foldl Obj.step o

/-- `ClimateData(obj.observable(), obj.grid, c, anomalies)`: a new object on the
arrays the library holds for the current window -/
def Obj.nest (o : Obj) : Option Obj := Obj.init o.cur o.cycle o.anom none

end Pyunicorn.Window
