/-
Model of the windowing and climatology code of pyunicorn:

* `Data.set_window` / `Data.set_global_window` / `Data.window`
  (src/pyunicorn/core/data.py:406-524) together with the part of
  `Grid.__init__` (src/pyunicorn/core/grid.py:42-66) that they run,
* `ClimateData.phase_indices`, `indices_selected_phases`,
  `indices_selected_months`, `phase_mean`, `anomaly`,
  `anomaly_selected_months`, `set_window`, `set_global_window`
  (src/pyunicorn/climate/climate_data.py:199-468) and the `_mut_window`-keyed
  `Cached.method` memoisation of `phase_mean` / `anomaly`.

Core Lean only (no Mathlib) so that the driver links as an executable.
All numbers are exact rationals: every IEEE value the harness sends is a
dyadic rational, and the code only uses comparison, `+`, `-` and `/ count`.
-/
namespace Pyunicorn.Window

abbrev Vec := List Rat
abbrev Mat := List (List Rat)

/-! ### boolean-mask indexing and window masks (`Data.set_window`) -/

/-- NumPy boolean-mask indexing `xs[mask]`. -/
def select {α : Type} : List Bool → List α → List α
  | [], _ => []
  | _ :: _, [] => []
  | b :: m, x :: xs => if b then x :: select m xs else select m xs

/-- the window dictionary -/
structure Win where
  tmin : Rat
  tmax : Rat
  latmin : Rat
  latmax : Rat
  lonmin : Rat
  lonmax : Rat
deriving Repr

/-- `set_global_window`: all six entries `0.` -/
def globalWin : Win := ⟨0, 0, 0, 0, 0, 0⟩

/-- `(x >= lo) & (x <= hi)` -/
def inRange (lo hi x : Rat) : Bool := decide (lo ≤ x) && decide (x ≤ hi)

/-- `time_indices` (data.py:465-472) -/
def timeMask (w : Win) (time : Vec) : List Bool :=
  if w.tmin = w.tmax then List.replicate time.length true
  else time.map (inRange w.tmin w.tmax)

/-- the predicate of the spatial window on one node -/
def inBox (w : Win) (la lo : Rat) : Bool :=
  inRange w.latmin w.latmax la && inRange w.lonmin w.lonmax lo

/-- `space_indices` (data.py:476-490): the whole grid if the latitude *or* the
longitude bounds coincide -/
def spaceMask (w : Win) (lat lon : Vec) : List Bool :=
  if w.latmin = w.latmax ∨ w.lonmin = w.lonmax then List.replicate lat.length true
  else List.zipWith (inBox w) lat lon

/-- what an object exposes: `grid.grid()["time"|"lat"|"lon"]` and `observable()`
(rows = time, columns = nodes) -/
structure View where
  time : Vec
  lat : Vec
  lon : Vec
  obs : Mat
deriving Repr, DecidableEq

/-- `Data.set_window` as a function of the full data set.  `none` is the
`ValueError` raised by `GeoGrid(time, lat_seq, lon_seq)` (`time_seq.min()`,
`np.amin(space_seq, axis=1)` of an empty selection); in that case nothing is
assigned (the grid is constructed before `_observable` is replaced). -/
def applyWindow (full : View) (w : Win) : Option View :=
  let tm := timeMask w full.time
  let sm := spaceMask w full.lat full.lon
  let time := select tm full.time
  let lat := select sm full.lat
  let lon := select sm full.lon
  let obs := (select tm full.obs).map (select sm)
  if time.isEmpty || lat.isEmpty then none else some ⟨time, lat, lon, obs⟩

/-- minimum / maximum of a non-empty list (`ndarray.min()`), `none` = `ValueError` -/
def vmin : Vec → Option Rat
  | [] => none
  | x :: xs => some (xs.foldl (fun a b => if b < a then b else a) x)
def vmax : Vec → Option Rat
  | [] => none
  | x :: xs => some (xs.foldl (fun a b => if a < b then b else a) x)

/-- `Data.window()` = `grid.boundaries()`:
`[time_min, time_max, lat_min, lat_max, lon_min, lon_max]` -/
def boundaries (v : View) : Option (List Rat) := do
  let a ← vmin v.time; let b ← vmax v.time
  let c ← vmin v.lat; let d ← vmax v.lat
  let e ← vmin v.lon; let f ← vmax v.lon
  pure [a, b, c, d, e, f]

/-! ### strided slices `x[i::c]` -/

/-- `xs[k::c]` as the walk NumPy performs: skip `k` entries, take one, then
skip `c-1`, … -/
def everyNth {α : Type} (c : Nat) : Nat → List α → List α
  | _, [] => []
  | 0, x :: t => x :: everyNth c (c - 1) t
  | k + 1, _ :: t => everyNth c k t

/-- `xs[k::c] = vs` (strided assignment; NumPy requires `len(vs) = len(xs[k::c])`,
a shorter `vs` leaves the remaining entries untouched in the model) -/
def setEveryNth {α : Type} (c : Nat) : Nat → List α → List α → List α
  | _, [], _ => []
  | 0, x :: t, [] => x :: t
  | 0, _ :: t, v :: vs => v :: setEveryNth c (c - 1) t vs
  | k + 1, x :: t, vs => x :: setEveryNth c k t vs

/-! ### climatology (`phase_indices`, `phase_mean`, `anomaly`) -/

def vadd (a b : Vec) : Vec := List.zipWith (· + ·) a b
def vsub (a b : Vec) : Vec := List.zipWith (· - ·) a b
def zeros (n : Nat) : Vec := List.replicate n 0

/-- `rows.sum(axis=0)` for rows of length `n` -/
def colSum (n : Nat) : Mat → Vec
  | [] => zeros n
  | r :: rs => vadd r (colSum n rs)

/-- `rows.mean(axis=0)`; `none` = the row of NaNs NumPy returns for an empty slice -/
def colMean (n : Nat) (rows : Mat) : Option Vec :=
  if rows.isEmpty then none else some ((colSum n rows).map (· / (rows.length : Rat)))

/-- `phase_indices()`: `range_years = int(T / c)`, row `i` = `arange(i, range_years*c, c)`.
`none` = `ZeroDivisionError` (`time_cycle = 0`). -/
def phaseIndices (c T : Nat) : Option (List (List Nat)) :=
  if c = 0 then none
  else some ((List.range c).map fun i => (List.range (T / c)).map fun y => i + y * c)

/-- `phase_mean()`: row `i` = `observable[i::c, :].mean(axis=0)` -/
def phaseMean (c n : Nat) (obs : Mat) : List (Option Vec) :=
  (List.range c).map fun i => colMean n (everyNth c i obs)

/-- body of the loop of `anomaly()` for phase `i`:
`sample = observable[i::c, :]; anomaly[i::c, :] = sample - sample.mean(axis=0)` -/
def anomalyStep (c n : Nat) (obs : Mat) (A : Mat) (i : Nat) : Mat :=
  let sample := everyNth c i obs
  match colMean n sample with
  | none => A            -- empty sample: a 0×n block is assigned, nothing changes
  | some m => setEveryNth c i A (sample.map (vsub · m))

/-- `anomaly()` without the `anomalies` shortcut: `np.zeros(observable.shape)`
then the loop over the phases -/
def anomalyOf (c n : Nat) (obs : Mat) : Mat :=
  (List.range c).foldl (anomalyStep c n obs) (List.replicate obs.length (zeros n))

/-- insertion sort (`ndarray.sort()` of the flattened index array) -/
def insertSorted (x : Nat) : List Nat → List Nat
  | [] => [x]
  | y :: ys => if x ≤ y then x :: y :: ys else y :: insertSorted x ys
def sortNat (xs : List Nat) : List Nat := xs.foldr insertSorted []

/-- result of an indexing operation that may raise -/
inductive Res (α : Type) where
  | ok : α → Res α
  | valueError | zeroDivision | indexError | notImplemented
deriving Repr, DecidableEq

/-- `indices_selected_phases(sel)`: `phase_indices()[sel, :]` flattened and sorted
(only non-negative phase numbers are modelled) -/
def indicesSelectedPhases (c T : Nat) (sel : List Nat) : Res (List Nat) :=
  match phaseIndices c T with
  | none => .zeroDivision
  | some pi =>
    if sel.all (· < c) then .ok (sortNat ((sel.map fun p => pi.getD p []).flatten))
    else .indexError

/-- `indices_selected_months(months)` -/
def indicesSelectedMonths (c T : Nat) (months : List Nat) : Res (List Nat) :=
  if c = 12 then indicesSelectedPhases c T months
  else if c = 360 then
    indicesSelectedPhases c T (months.flatMap fun m => (List.range 30).map fun d => m * 30 + d)
  else .notImplemented

/-! ### the object: window state machine and `_mut_window`-keyed memoisation -/

structure Obj where
  full : View
  cur : View
  cycle : Nat
  /-- the `anomalies` constructor flag -/
  anom : Bool
  /-- `_mut_window` -/
  ver : Nat
  /-- `lru_cache` entries of `phase_mean`, keyed by `__cache_state__() = (_mut_window,)` -/
  pmCache : List (Nat × List (Option Vec))
  /-- `lru_cache` entries of `anomaly` -/
  anCache : List (Nat × Mat)
deriving Repr

/-- number of columns `observable.shape[1]` of the current view -/
def Obj.ncols (o : Obj) : Nat := o.cur.lat.length

/-- `ClimateData.set_window`: `Data.set_window(self, window)` then
`self._mut_window += 1`; an exception leaves the object untouched.
Returns `(raised?, new object)`. -/
def Obj.setWindow (o : Obj) (w : Win) : Bool × Obj :=
  match applyWindow o.full w with
  | none => (true, o)
  | some v => (false, { o with cur := v, ver := o.ver + 1 })

/-- `ClimateData.set_global_window`: `Data.set_global_window(self)` dispatches to
`self.set_window(global_window)` (first bump), then bumps again -/
def Obj.setGlobal (o : Obj) : Bool × Obj :=
  match o.setWindow globalWin with
  | (true, o') => (true, o')
  | (false, o') => (false, { o' with ver := o'.ver + 1 })

/-- uncached bodies -/
def Obj.phaseMeanFresh (o : Obj) : List (Option Vec) := phaseMean o.cycle o.ncols o.cur.obs
def Obj.anomalyFresh (o : Obj) : Mat :=
  if o.anom then o.cur.obs else anomalyOf o.cycle o.ncols o.cur.obs

/-- `phase_mean()` through the cache -/
def Obj.phaseMeanQ (o : Obj) : List (Option Vec) × Obj :=
  match o.pmCache.lookup o.ver with
  | some v => (v, o)
  | none => let v := o.phaseMeanFresh; (v, { o with pmCache := (o.ver, v) :: o.pmCache })

/-- `anomaly()` through the cache -/
def Obj.anomalyQ (o : Obj) : Mat × Obj :=
  match o.anCache.lookup o.ver with
  | some v => (v, o)
  | none => let v := o.anomalyFresh; (v, { o with anCache := (o.ver, v) :: o.anCache })

/-- `lru_cache` may drop any entry at any time (bounded size, shared between
instances): eviction of the entries selected by `keep` -/
def Obj.evict (o : Obj) (keep : Nat → Bool) : Obj :=
  { o with pmCache := o.pmCache.filter (fun e => keep e.1),
           anCache := o.anCache.filter (fun e => keep e.1) }

/-- operations of a history -/
inductive Op where
  | setWindow (w : Win)
  | setGlobal
  | qPhaseMean
  | qAnomaly
  | evict (keep : Nat → Bool)

def Obj.step (o : Obj) : Op → Obj
  | .setWindow w => (o.setWindow w).2
  | .setGlobal => o.setGlobal.2
  | .qPhaseMean => o.phaseMeanQ.2
  | .qAnomaly => o.anomalyQ.2
  | .evict keep => o.evict keep

def Obj.run (o : Obj) (ops : List Op) : Obj := ops.foldl Obj.step o

/-- constructor: `ClimateData(observable, grid, time_cycle, anomalies, window)`.
`window = none`: `Data.set_global_window(self)` → `self.set_window` (one bump);
`window = some w`: `Data.set_window(self, w)` directly (no bump).
`none` = the constructor raises `ValueError`. -/
def Obj.init (full : View) (c : Nat) (anom : Bool) (w : Option Win) : Option Obj :=
  match applyWindow full (w.getD globalWin) with
  | none => none
  | some v => some ⟨full, v, c, anom, if w.isNone then 1 else 0, [], []⟩

/-- `anomaly_selected_months(months)` = `anomaly()[indices, :]` -/
def selectRows (A : Mat) (idx : List Nat) : Res Mat :=
  if idx.all (· < A.length) then .ok (idx.map fun t => A.getD t []) else .indexError

end Pyunicorn.Window
