import Pyunicorn.Model.LineDist
import Pyunicorn.Generated.StructC08
/-!
C08, round 3.  Glue between the kernels regenerated from `numerics.pyx`
(`Generated/StructC08.lean`) and list-shaped data, and the Python layer of the bootstrap
(`RecurrencePlot.rejection_sampling`, `resample_diagline_dist`, `resample_vertline_dist`,
recurrence_plot.py:927-985, 1146-1176).  Core Lean only.
-/
namespace Pyunicorn.LineDist
open Pyunicorn.Generated
open Pyunicorn.Recurrence (V)

/-! ### accessors handed to the generated kernels (C arrays indexed by C ints) -/

def accR (R : Mat) : Int → Int → Bool := fun I j => R.at I.toNat j.toNat
def accM (M : List Bool) : Int → Bool := fun I => M.getD I.toNat false
def accE (E : List (List V)) : Int → Int → V := fun I l => (E.getD I.toNat []).getD l.toNat none

/-! ### round 4: the two storage modes in double arithmetic (infinities, NaN, rounding) -/

def accX (E : List (List X)) : Int → Int → X := fun I l => (E.getD I.toNat []).getD l.toNat .nan

/-- `np.isnan(self.embedding).sum(axis=1) != 0` (an infinite sample is *not* missing) -/
def missingMaskX (emb : List (List X)) : List Bool := emb.map fun r => r.any X.isNan

/-- `RecurrencePlot.set_fixed_threshold` with `metric="supremum"` as executed on doubles:
`distance = _supremum_distance_matrix_rp(n_time, dim, embedding)` (regenerated from the source),
`recurrence[distance < threshold] = 1`, and with `missing_values` the rows and columns of the
samples holding a NaN are cleared. -/
def fixedThresholdX (rnd : Rat → Rat) (emb : List (List X)) (eps : X) (dim : Nat) (mv : Bool) :
    Mat :=
  let n := emb.length
  let D := StructC08._supremum_distance_matrix_rp (xOps rnd) n dim (accX emb)
  Recurrence.tab n n fun a b =>
    (xOps rnd).lt (D a b) eps &&
      !(mv && ((missingMaskX emb).getD a false || (missingMaskX emb).getD b false))

/-- round 5: the same with an arbitrary structure of double operations (`xOpsO rnd`: with overflow
of a finite difference to `inf`); `fixedThresholdX rnd = fixedThresholdOps (xOps rnd)` by `rfl` -/
def fixedThresholdOps (O : FOps X) (emb : List (List X)) (eps : X) (dim : Nat) (mv : Bool) : Mat :=
  let n := emb.length
  let D := StructC08._supremum_distance_matrix_rp O n dim (accX emb)
  Recurrence.tab n n fun a b =>
    O.lt (D a b) eps &&
      !(mv && ((missingMaskX emb).getD a false || (missingMaskX emb).getD b false))

/-! ### bootstrap of a line histogram -/

/-- `dist /= dist.sum()` read at C index `x` -/
def normDist (dist : List Nat) : Int → Rat :=
  fun x => ((dist.getD x.toNat 0 : Nat) : Rat) / ((dist.sum : Nat) : Rat)

/-- `RecurrencePlot.rejection_sampling(dist, M)`: `N = len(dist)`, `resampled_dist = zeros(N)`,
`dist /= dist.sum()`, then the compiled loop on the draw stream.  Returns the loop state
(number of accepted draws, histogram). -/
def rejectionSampling (dist : List Nat) (M : Nat) (draws : List (Rat × Rat)) : StructC08.RS :=
  StructC08.rejLoop (normDist dist) dist.length M draws ⟨0, List.replicate dist.length 0⟩

/-- `resample_diagline_dist(M)` / `resample_vertline_dist(M)` on the histogram `hist`:
`L_max == 0` returns the histogram itself, otherwise zeros with the first `L_max` entries
resampled from `hist[:L_max]`. -/
def resample (hist : List Nat) (M : Nat) (draws : List (Rat × Rat)) : List Nat :=
  let L := maxLen hist
  if L == 0 then hist
  else (rejectionSampling (hist.take L) M draws).res ++ List.replicate (hist.length - L) 0

/-- how many draw pairs the loop consumed (to compare with the implementation's consumption) -/
def rejConsumed (dist : Int → Rat) (N M : Int) : List (Rat × Rat) → StructC08.RS → Nat
  | [], _ => 0
  | (u1, u2) :: t, s =>
    if (s.i : Int) < M then 1 + rejConsumed dist N M t (StructC08.rejIter dist N u1 u2 s) else 0

end Pyunicorn.LineDist
