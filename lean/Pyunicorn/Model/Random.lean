/-
Models of pyunicorn's randomisation kernels (property C17).  Core Lean only.

* `_randomly_rewire_geomodel` (+ wrappers I / II / III)   core/_ext/numerics.pyx:39-116
* `overwriteAdjacency`, `_randomlySetCrossLinks`,
  `_randomlyRewireCrossLinks`                               core/_ext/numerics.pyx:122-197
* `Network.BarabasiAlbert` (own growth loop)                 core/network.py:828-867

Every kernel draws from numpy's RNG.  A model is a function of the state and of
the *stream of draws* (the indices the kernel derived from the RNG values); the
theorems quantify over every stream, the correspondence replays the stream the
real kernel consumed.

Matrices are functions `Nat → Nat → Bool` with point updates (`Adj.set` is the
array write `A[i,j] = v`); all indices the kernels use are bounds-checked by
Cython (`boundscheck=True`), out-of-range reads are modelled as `none`
(IndexError).

Distances are integers: the harness sends distance matrices and tolerances
whose entries are multiples of a power of two (exact in float32), scaled to
integers; the conditions only use `|x - y| < eps`, which is scale invariant.
-/
namespace Pyunicorn.Random

abbrev Adj := Nat → Nat → Bool

/-- the array write `A[i,j] = v` -/
def Adj.set (A : Adj) (i j : Nat) (v : Bool) : Adj :=
  fun a b => if a = i ∧ b = j then v else A a b

def b2i (b : Bool) : Int := if b then 1 else 0

/-- `Σ_{j<n} f j` -/
def rsum (f : Nat → Int) : Nat → Int
  | 0 => 0
  | n + 1 => rsum f n + f n

/-- row sum `Σ_{j<n} A[v,j]` (degree of `v` / cross degree of a node of group 1) -/
def deg (A : Adj) (n v : Nat) : Int := rsum (fun j => b2i (A v j)) n
/-- column sum `Σ_{i<m} A[i,j]` (cross degree of a node of group 2) -/
def colDeg (A : Adj) (m j : Nat) : Int := rsum (fun i => b2i (A i j)) m
/-- number of ones of the `m × n` block -/
def total (A : Adj) (m n : Nat) : Int := rsum (fun i => deg A n i) m

def ofMat (M : List (List Bool)) : Adj := fun i j => (M.getD i []).getD j false
def toMat (A : Adj) (m n : Nat) : List (List Bool) :=
  (List.range m).map fun i => (List.range n).map fun j => A i j

/-! ## geographical rewiring -/

inductive GeoMode | I | II | III
deriving DecidableEq, Repr

structure GeoCfg where
  mode : GeoMode
  D : Nat → Nat → Int
  eps : Int
  /-- the `degree` array handed to model III -/
  degree : Nat → Int

/-- `abs(D[a,b] - D[c,d]) < eps` -/
def near (D : Nat → Nat → Int) (eps : Int) (a b c d : Nat) : Bool :=
  decide (D a b - D c d < eps) && decide (D c d - D a b < eps)

/-- condition C1 (`cond_len_c1`) -/
def condC1 (D : Nat → Nat → Int) (eps : Int) (s t k l : Nat) : Bool :=
  (near D eps s t k t && near D eps k l s l) || (near D eps s t s l && near D eps k l k t)

/-- condition C2 (`cond_len_c2`) -/
def condC2 (D : Nat → Nat → Int) (eps : Int) (s t k l : Nat) : Bool :=
  near D eps s t s l && near D eps t s t k && near D eps k l k t && near D eps l k l s

def condLen (c : GeoCfg) (s t k l : Nat) : Bool :=
  match c.mode with
  | .I => condC1 c.D c.eps s t k l
  | _ => condC2 c.D c.eps s t k l

/-- `cond_deg is NULL or cond_deg(degree, s, t, k, l)` -/
def condDeg (c : GeoCfg) (s t k l : Nat) : Bool :=
  match c.mode with
  | .III => c.degree s == c.degree k && c.degree t == c.degree l
  | _ => true

/-- the `if` of the loop body -/
def geoAccept (c : GeoCfg) (A : Adj) (s t k l : Nat) : Bool :=
  (s != k && s != l && t != k && t != l) && (!A s l && !A t k) &&
    condDeg c s t k l && condLen c s t k l

/-- the eight array writes, in program order -/
def rewire (A : Adj) (s t k l : Nat) : Adj :=
  (((((((A.set s t false).set t s false).set k l false).set l k false).set s l true).set
    l s true).set t k true).set k t true

structure GeoSt where
  A : Adj
  edges : List (Nat × Nat)
  /-- the loop counter `i` (number of rewirings done) -/
  i : Nat

/-- one pass through the `while` body with drawn edge indices `d = (edge1, edge2)`;
`none` = IndexError from `edges[edge]` -/
def geoStep (c : GeoCfg) (st : GeoSt) (d : Nat × Nat) : Option GeoSt :=
  match st.edges[d.1]?, st.edges[d.2]? with
  | some (s, t), some (k, l) =>
    if geoAccept c st.A s t k l then
      some { A := rewire st.A s t k l
             edges := (st.edges.set d.1 (s, l)).set d.2 (k, t)
             i := st.i + 1 }
    else some st
  | _, _ => none

/-- `while i < iterations` over a finite stream of draws -/
def geoRun (c : GeoCfg) (iterations : Nat) : List (Nat × Nat) → GeoSt → Option GeoSt
  | [], st => some st
  | d :: ds, st =>
    if st.i < iterations then (geoStep c st d).bind (geoRun c iterations ds) else some st

/-! ## cross links -/

/-- the list of array writes of `overwriteAdjacency`, in program order -/
def overwriteWrites (C : Adj) (nodes1 nodes2 : List Nat) : List (Nat × Nat × Bool) :=
  nodes1.zipIdx.flatMap fun (n1, i) =>
    nodes2.zipIdx.flatMap fun (n2, j) => [(n1, n2, C i j), (n2, n1, C i j)]

def applyWrites (A : Adj) (ws : List (Nat × Nat × Bool)) : Adj :=
  ws.foldl (fun A w => A.set w.1 w.2.1 w.2.2) A

/-- `overwriteAdjacency(A, cross_A, nodes1, nodes2, len nodes1, len nodes2)` -/
def overwrite (A C : Adj) (nodes1 nodes2 : List Nat) : Adj :=
  applyWrites A (overwriteWrites C nodes1 nodes2)

/-- the two nested loops of `_randomlySetCrossLinks` over a stream of `(i, j)` draws;
returns the cross adjacency and the number of links set -/
def crossSetRun (k : Nat) : List (Nat × Nat) → Adj → Nat → Adj × Nat
  | [], C, done => (C, done)
  | (i, j) :: ds, C, done =>
    if done < k then
      if C i j then crossSetRun k ds C done
      else crossSetRun k ds (C.set i j true) (done + 1)
    else (C, done)

structure CrossSt where
  C : Adj
  links : List (Nat × Nat)
  /-- number of swaps done -/
  done : Nat

/-- one pass through the `while True` body of `_randomlyRewireCrossLinks` -/
def crossStep (st : CrossSt) (d : Nat × Nat) : Option CrossSt :=
  match st.links[d.1]?, st.links[d.2]? with
  | some (a, b), some (c, e) =>
    if st.C a e || st.C c b then some st
    else
      some { C := (((st.C.set a b false).set c e false).set a e true).set c b true
             links := (st.links.set d.1 (a, e)).set d.2 (c, b)
             done := st.done + 1 }
  | _, _ => none

def crossRun (swaps : Nat) : List (Nat × Nat) → CrossSt → Option CrossSt
  | [], st => some st
  | d :: ds, st =>
    if st.done < swaps then (crossStep st d).bind (crossRun swaps ds) else some st

/-! ## Barabasi-Albert growth (network.py) -/

structure BASt where
  A : Adj
  targets : List Nat
  lastChild : Nat → Nat
  nTargets : Nat
  /-- current new node `j` and inner counter `it` -/
  j : Nat
  it : Nat

/-- state before the `for j` loop: star `0 — 1..m`, `targets = [0]*m ++ [1..m] ++ zeros` -/
def baInit (N m : Nat) : BASt :=
  { A := fun a b => (a == 0 && decide (1 ≤ b ∧ b < 1 + m ∧ b < N)) ||
                    (b == 0 && decide (1 ≤ a ∧ a < 1 + m ∧ a < N))
    targets := List.replicate m 0 ++ (List.range m).map (· + 1) ++
                 List.replicate (2 * m * (N - m) - 2 * m) 0
    lastChild := fun _ => 0
    nTargets := 2 * m
    j := 1 + m
    it := 0 }

/-- one pass through the `while True` body with drawn index `idx = int(uniform(0, n_targets))`;
`none` = IndexError -/
def baStep (N m : Nat) (st : BASt) (idx : Nat) : Option BASt :=
  if st.j < N ∧ st.it < m then
    match st.targets[idx]? with
    | none => none
    | some i =>
      if st.lastChild i != st.j then
        if st.nTargets + st.it < st.targets.length then
          let st1 : BASt :=
            { st with A := (st.A.set i st.j true).set st.j i true
                      targets := st.targets.set (st.nTargets + st.it) i
                      lastChild := fun x => if x = i then st.j else st.lastChild x
                      it := st.it + 1 }
          -- end of the `for it` loop: `targets[n_targets+m : n_targets+2m] = j`
          if st1.it = m then
            some { st1 with
                   targets := (List.range m).foldl
                     (fun ts q => ts.set (st.nTargets + m + q) st.j) st1.targets
                   nTargets := st.nTargets + 2 * m
                   j := st.j + 1
                   it := 0 }
          else some st1
        else none
      else some st
  else some st

def baRun (N m : Nat) : List Nat → BASt → Option BASt
  | [], st => some st
  | d :: ds, st => (baStep N m st d).bind (baRun N m ds)

end Pyunicorn.Random
