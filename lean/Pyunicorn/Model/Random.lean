import Pyunicorn.Generated.ArithC17
import Pyunicorn.Generated.StructC17
/-
Models of pyunicorn's randomisation kernels (property C17).  Core Lean only.

* `_randomly_rewire_geomodel` (+ wrappers I / II / III)   core/_ext/numerics.pyx:39-116
* `overwriteAdjacency`, `_randomlySetCrossLinks`,
  `_randomlyRewireCrossLinks`                               core/_ext/numerics.pyx:122-197
* `Network.BarabasiAlbert` (own growth loop)                 core/network.py:828-867

Every kernel draws from numpy's RNG.  A model is a function of the state and of
the *stream of draws* (the indices the kernel derived from the RNG values); the
theorems quantify over every stream, the correspondence replays the stream the
real kernel consumed.

Matrices are functions `Nat → Nat → Bool` with point updates (`Adj.set` is the
array write `A[i,j] = v`); all indices the kernels use are bounds-checked by
Cython (`boundscheck=True`), out-of-range reads are modelled as `none`
(IndexError).

Distances are integers: the harness sends distance matrices and tolerances
whose entries are multiples of a power of two (exact in float32), scaled to
integers; the conditions only use `|x - y| < eps`, which is scale invariant.

The conditions (`cond_len_c1`, `cond_len_c2`, `cond_deg_corr`), the `if` / `while` tests, the
array writes (which cell, which value, in which order), the rows written back to `edges`, the
exchange of the link ends in `cross_links`, the subscripts of `overwriteAdjacency` and the
conditions each wrapper hands over are *not written here* either: they are the definitions
`translate/gen_C17.py` regenerates from `numerics.pyx` / `interacting_networks.py` on every run
(`Generated/StructC17.lean`); the closed forms the proofs work with are in
`Lemmas/RandomSrc.lean`, each proved equal to what is executed here.

Index and size expressions of the Python-level code (`Network.BarabasiAlbert`,
`InteractingNetworks.RandomlySetCrossLinks(_sparse)`) are *not written here*: they are
the definitions `translate/gen_arith.py` regenerates from the current source on every
run (`Generated/ArithC17.lean`).
-/
namespace Pyunicorn.Random
open Pyunicorn.Generated.ArithC17
open Pyunicorn.Generated.StructC17

abbrev Adj := Nat → Nat → Bool

/-- the array write `A[i,j] = v` -/
def Adj.set (A : Adj) (i j : Nat) (v : Bool) : Adj :=
  fun a b => if a = i ∧ b = j then v else A a b

def b2i (b : Bool) : Int := if b then 1 else 0

/-- `Σ_{j<n} f j` -/
def rsum (f : Nat → Int) : Nat → Int
  | 0 => 0
  | n + 1 => rsum f n + f n

/-- row sum `Σ_{j<n} A[v,j]` (degree of `v` / cross degree of a node of group 1) -/
def deg (A : Adj) (n v : Nat) : Int := rsum (fun j => b2i (A v j)) n
/-- column sum `Σ_{i<m} A[i,j]` (cross degree of a node of group 2) -/
def colDeg (A : Adj) (m j : Nat) : Int := rsum (fun i => b2i (A i j)) m
/-- number of ones of the `m × n` block -/
def total (A : Adj) (m n : Nat) : Int := rsum (fun i => deg A n i) m

def ofMat (M : List (List Bool)) : Adj := fun i j => (M.getD i []).getD j false
def toMat (A : Adj) (m n : Nat) : List (List Bool) :=
  (List.range m).map fun i => (List.range n).map fun j => A i j

/-! ## geographical rewiring -/

inductive GeoMode | I | II | III
deriving DecidableEq, Repr

structure GeoCfg where
  mode : GeoMode
  D : Nat → Nat → Int
  eps : Int
  /-- the `degree` array handed to model III -/
  degree : Nat → Int

/-- a list of array writes `A[i,j] = v`, executed in order -/
def applyWrites (A : Adj) (ws : List (Nat × Nat × Bool)) : Adj :=
  ws.foldl (fun A w => A.set w.1 w.2.1 w.2.2) A

/-- the conditions `_randomly_rewire_geomodel_I/II/III` hand to the kernel (generated) -/
def wrapperOf : GeoMode → LenCond × DegCond
  | .I => wrapperI
  | .II => wrapperII
  | .III => wrapperIII

/-- the function the pointer `cond_len` refers to -/
def condLenM (c : GeoCfg) (s t k l : Nat) : Bool :=
  match (wrapperOf c.mode).1 with
  | .cond_len_c1 => condLenC1 c.D c.eps s t k l
  | .cond_len_c2 => condLenC2 c.D c.eps s t k l

/-- `cond_deg is NULL` (`cond_deg_true = NULL`) -/
def degNullM (c : GeoCfg) : Bool :=
  match (wrapperOf c.mode).2 with
  | .null => true
  | .cond_deg_corr => false

/-- the `if` of the loop body: the generated test, applied to the conditions of the mode -/
def geoAcceptM (c : GeoCfg) (A : Adj) (s t k l : Nat) : Bool :=
  geoIf A (degNullM c) (condDegCorr c.degree) (condLenM c) s t k l

/-- the eight array writes (generated list), in program order -/
def rewireM (A : Adj) (s t k l : Nat) : Adj := applyWrites A (geoWrites s t k l)

structure GeoSt where
  A : Adj
  edges : List (Nat × Nat)
  /-- the loop counter `i` (number of rewirings done) -/
  i : Nat

/-- one pass through the `while` body with drawn edge indices `d = (edge1, edge2)`;
`none` = IndexError from `edges[edge]` -/
def geoStep (c : GeoCfg) (st : GeoSt) (d : Nat × Nat) : Option GeoSt :=
  match st.edges[d.1]?, st.edges[d.2]? with
  | some (s, t), some (k, l) =>
    if geoAcceptM c st.A s t k l then
      some { A := rewireM st.A s t k l
             edges := (st.edges.set d.1 (geoEdge1 s t k l)).set d.2 (geoEdge2 s t k l)
             i := st.i + 1 }
    else some st
  | _, _ => none

/-- `while i < iterations` over a finite stream of draws -/
def geoRun (c : GeoCfg) (iterations : Nat) : List (Nat × Nat) → GeoSt → Option GeoSt
  | [], st => some st
  | d :: ds, st =>
    if geoWhile st.i iterations then (geoStep c st d).bind (geoRun c iterations ds) else some st

/-! ## cross links -/

/-- the list of array writes of `overwriteAdjacency`, in program order: both loops, the
positions read in `nodes1` / `nodes2` (`owRead`), the cell of `cross_A` (`owCell`) and the two
writes (`owWrites`) are generated; `m = len(nodes1)`, `n = len(nodes2)` at every call site -/
def overwriteWrites (C : Adj) (nodes1 nodes2 : List Nat) : List (Nat × Nat × Bool) :=
  (List.range nodes1.length).flatMap fun i =>
    (List.range nodes2.length).flatMap fun j =>
      match nodes1[(owRead i j).1]?, nodes2[(owRead i j).2]? with
      | some n1, some n2 => owWrites n1 n2 (C (owCell i j).1 (owCell i j).2)
      | _, _ => []

/-- `overwriteAdjacency(A, cross_A, nodes1, nodes2, len nodes1, len nodes2)` -/
def overwrite (A C : Adj) (nodes1 nodes2 : List Nat) : Adj :=
  applyWrites A (overwriteWrites C nodes1 nodes2)

/-- the two nested loops of `_randomlySetCrossLinks` over a stream of `(i, j)` draws;
returns the cross adjacency and the number of links set -/
def crossSetRun (k : Nat) : List (Nat × Nat) → Adj → Nat → Adj × Nat
  | [], C, done => (C, done)
  | (i, j) :: ds, C, done =>
    if done < k then
      if setBreak C i j then crossSetRun k ds (applyWrites C (setWrites i j)) (done + 1)
      else crossSetRun k ds C done
    else (C, done)

structure CrossSt where
  C : Adj
  links : List (Nat × Nat)
  /-- number of swaps done -/
  done : Nat

/-- the value at a location of the exchange `b = cross_links[e1,1]; cross_links[e1,1] =
cross_links[e2,1]; cross_links[e2,1] = b` -/
def locGet (st : Nat × List (Nat × Nat)) (e1 e2 : Nat) : Loc → Nat
  | .tmp => st.1
  | .l1 => (st.2.getD e1 (0, 0)).2
  | .l2 => (st.2.getD e2 (0, 0)).2

def locSet (st : Nat × List (Nat × Nat)) (e1 e2 : Nat) (l : Loc) (v : Nat) : Nat × List (Nat × Nat) :=
  match l with
  | .tmp => (v, st.2)
  | .l1 => (st.1, st.2.set e1 ((st.2.getD e1 (0, 0)).1, v))
  | .l2 => (st.1, st.2.set e2 ((st.2.getD e2 (0, 0)).1, v))

/-- the generated list of moves, executed in order on (local `b`, `cross_links`) -/
def runMoves (e1 e2 : Nat) (ms : List (Loc × Loc)) (st : Nat × List (Nat × Nat)) :
    Nat × List (Nat × Nat) :=
  ms.foldl (fun st m => locSet st e1 e2 m.1 (locGet st e1 e2 m.2)) st

/-- one pass through the `while True` body of `_randomlyRewireCrossLinks` (test, writes and the
exchange of the link ends are the generated definitions) -/
def crossStep (st : CrossSt) (d : Nat × Nat) : Option CrossSt :=
  match st.links[d.1]?, st.links[d.2]? with
  | some (a, b), some (c, e) =>
    if rewBreak st.C a b c e then
      some { C := applyWrites st.C (rewWrites a b c e)
             links := (runMoves d.1 d.2 rewMoves (b, st.links)).2
             done := st.done + 1 }
    else some st
  | _, _ => none

def crossRun (swaps : Nat) : List (Nat × Nat) → CrossSt → Option CrossSt
  | [], st => some st
  | d :: ds, st =>
    if st.done < swaps then (crossStep st d).bind (crossRun swaps ds) else some st

/-! ## Barabasi-Albert growth (network.py) -/

structure BASt where
  A : Adj
  targets : List Nat
  lastChild : Nat → Nat
  nTargets : Nat
  /-- current new node `j` and inner counter `it` -/
  j : Nat
  it : Nat

/-- state before the `for j` loop.  `A[0, lo:hi] = A[lo:hi, 0] = 1` (slices clip at `N`),
`targets = zeros(len)`, `targets[lo':hi'] = range(1, 1+m)`, `n_targets`, first new node —
all bounds are the generated expressions. -/
def baInit (N m : Nat) : BASt :=
  { A := fun a b =>
      (a == 0 && decide (baStarLo m ≤ (b : Int) ∧ (b : Int) < baStarHi m ∧ b < N)) ||
      (b == 0 && decide (baStarLo m ≤ (a : Int) ∧ (a : Int) < baStarHi m ∧ a < N))
    targets := (List.range (baTargetsLen N m).toNat).map fun (p : Nat) =>
      if baInitLo m ≤ (p : Int) ∧ (p : Int) < baInitHi m then p - (baInitLo m).toNat + 1 else 0
    lastChild := fun _ => 0
    nTargets := (baNTargets0 m).toNat
    j := (baFirstNew m).toNat
    it := 0 }

/-- one pass through the `while True` body with drawn index `idx = int(uniform(0, n_targets))`;
`none` = IndexError (`targets[idx]`, `targets[n_targets + it] = i`) -/
def baStep (N m : Nat) (st : BASt) (idx : Nat) : Option BASt :=
  if st.j < N ∧ st.it < m then
    match st.targets[idx]? with
    | none => none
    | some i =>
      if st.lastChild i != st.j then
        if (baStoreIdx st.nTargets st.it).toNat < st.targets.length then
          let st1 : BASt :=
            { st with A := (st.A.set i st.j true).set st.j i true
                      targets := st.targets.set (baStoreIdx st.nTargets st.it).toNat i
                      lastChild := fun x => if x = i then st.j else st.lastChild x
                      it := st.it + 1 }
          -- end of the `for it` loop: `targets[n_targets+m : n_targets+2m] = j` (a slice: clips)
          if st1.it = m then
            some { st1 with
                   targets := (List.range (baFillHi st.nTargets m - baFillLo st.nTargets m).toNat).foldl
                     (fun ts q => ts.set ((baFillLo st.nTargets m).toNat + q) st.j) st1.targets
                   nTargets := (baNTargetsNext st.nTargets m).toNat
                   j := st.j + 1
                   it := 0 }
          else some st1
        else none
      else some st
  else some st

def baRun (N m : Nat) : List Nat → BASt → Option BASt
  | [], st => some st
  | d :: ds, st => (baStep N m st d).bind (baRun N m ds)

/-! ## the public methods around the kernels

What the Python wrappers compute before / after they call a kernel: the edge list,
`E`, the `degree` array (geo models), the cross adjacency, the list of cross links, the
number of links to set, the number of swaps (cross links), the rebuilt adjacency
(`set_edge_list`, used by `Network.randomly_rewire`) and the whole of
`set_random_links_by_distance`. -/

/-- row-major list of the cells `(i, j)`, `i < m`, `j < n`, with `P i j` — the order of
`numpy.nonzero` and of `igraph.Graph.get_edgelist()` of a graph built from an adjacency matrix -/
def enumOnes (m n : Nat) (P : Nat → Nat → Bool) : List (Nat × Nat) :=
  (List.range m).flatMap fun i => ((List.range n).filter fun j => P i j).map fun j => (i, j)

/-- `np.array(self.graph.get_edgelist())`: every link once, smaller index first -/
def edgeList (n : Nat) (A : Adj) : List (Nat × Nat) :=
  enumOnes n n fun i j => decide (i < j) && A i j

/-- `np.array(cross_A.nonzero()).transpose()` -/
def onesList (m n : Nat) (C : Adj) : List (Nat × Nat) := enumOnes m n C

/-- `network.cross_adjacency(nodes1, nodes2)` = `A[nodes1, :][:, nodes2]` -/
def crossBlock (A : Adj) (nodes1 nodes2 : List Nat) : Adj := fun i j =>
  match nodes1[i]?, nodes2[j]? with
  | some x, some y => A x y
  | _, _ => false

/-- `SpatialNetwork.randomly_rewire_geomodel_I/II/III`: `E = n_links` is the length of the
edge list, `edges = graph.get_edgelist()`, `degree = self.degree()` (row sums);
the new adjacency is what the kernel left in `A`. -/
def geoMethod (mode : GeoMode) (D : Nat → Nat → Int) (eps : Int) (n : Nat) (A : Adj)
    (iterations : Nat) (draws : List (Nat × Nat)) : Option GeoSt :=
  geoRun { mode := mode, D := D, eps := eps, degree := fun v => deg A n v } iterations draws
    ⟨A, edgeList n A, 0⟩

/-- the number of cross links `RandomlySetCrossLinks` asks the kernel for:
`cross_link_density` has priority, then the explicit number, else (null model) the current
number; a number above `N1·N2` falls back to the current number (`density`/`tooMany` are
the generated expressions of the respective method). -/
def setCountWith (density : Rat → Int → Int → Int) (tooMany : Int → Int → Int → Bool)
    (dens : Option Rat) (number : Option Int) (N1 N2 : Nat) (current : Int) : Int :=
  let k := match dens, number with
    | some d, _ => density d N1 N2
    | none, some k => k
    | none, none => current
  if tooMany k N1 N2 then current else k

def setCount := setCountWith setDensityCount setTooMany
def setCountSparse := setCountWith sparseDensityCount sparseTooMany

/-- `RandomlySetCrossLinks` / `RandomlySetCrossLinks_sparse` (the same loops, the second one
written in Python): new empty cross matrix, `k` random links (`range(k)` is empty for
`k ≤ 0`), written back by `overwriteAdjacency`.  Returns the adjacency, the cross matrix and
the number of links set. -/
def randomlySetCrossLinks (A : Adj) (nodes1 nodes2 : List Nat) (k : Int)
    (draws : List (Nat × Nat)) : Adj × Adj × Nat :=
  let R := crossSetRun k.toNat draws (fun _ _ => false) 0
  (overwrite A R.1 nodes1 nodes2, R.1, R.2)

/-- `number_swaps = NODE(swaps * number_cross_links)` (truncation of a non-negative product) -/
def swapCount (swaps : Rat) (links : Nat) : Nat := (swapCountSrc swaps (links : Int)).toNat

/-- `RandomlyRewireCrossLinks`: cross block, its list of ones, the kernel, write back. -/
def randomlyRewireCrossLinks (A : Adj) (nodes1 nodes2 : List Nat) (swaps : Nat)
    (draws : List (Nat × Nat)) : Option (Adj × CrossSt) :=
  let C := crossBlock A nodes1 nodes2
  (crossRun swaps draws ⟨C, onesList nodes1.length nodes2.length C, 0⟩).map fun st =>
    (overwrite A st.C nodes1 nodes2, st)

/-- `Network.set_edge_list(edge_list, n_nodes=N)` of an undirected network (the second half of
`Network.randomly_rewire`): symmetrised COO matrix of shape `(N, N)`, repeated entries
collapsed to 1; `none` = ValueError of `coo_matrix` for an index `≥ N`. -/
def fromEdges (N : Nat) (edges : List (Nat × Nat)) : Option Adj :=
  if edges.all fun e => decide (e.1 < N) && decide (e.2 < N) then
    some fun a b => edges.any fun e => (e.1 == a && e.2 == b) || (e.2 == a && e.1 == b)
  else none

/-- `Network.Configuration(degree)` / `Network.BarabasiAlbert_igraph` after igraph has produced a
(multi)graph with edge list `es`: `graph.simplify()` (drops self-loops, collapses multiple links)
followed by `np.array(graph.get_adjacency(type=2).data)` -/
def simplified (es : List (Nat × Nat)) : Adj := fun a b =>
  a != b && es.any fun e => (e.1 == a && e.2 == b) || (e.2 == a && e.1 == b)

/-- the argument dispatch of `Network.ErdosRenyi` (`network.py`), executed from the *generated*
tests and branches (`erTest1/2`, `erBranch1/2`: `translate/gen_C17.py` regenerates them from the source on
every run): `if link_probability is not None and n_links is None` → `Erdos_Renyi(n, p=…)`; `elif
link_probability is None and n_links is not None` → `Erdos_Renyi(n, m=n_links)`; `else` `ValueError`
(`none`).  The returned matrix is `np.array(graph.get_adjacency(type=2).data)` (`erReturn`) =
`fromEdges n_nodes (graph.get_edgelist())` for the simple graph igraph returns; `Network.WattsStrogatz`
is the same read-out of `Watts_Strogatz(dim=1, size=N, nei=k, p=p)` (`wsCall`, `wsReturn`). -/
def erdosRenyiCall (hasProbability hasLinkCount : Bool) : Option ERCall :=
  if erTest1 hasProbability hasLinkCount then some erBranch1
  else if erTest2 hasProbability hasLinkCount then some erBranch2
  else none

/-- is there a pair of listed cross links the `while True` of `_randomlyRewireCrossLinks` accepts?
(`false` = the kernel would draw forever: the call is outside "defined") -/
def crossAdmissible (C : Adj) (links : List (Nat × Nat)) : Bool :=
  links.any fun ab => links.any fun ce => !(C ab.1 ce.2 || C ce.1 ab.2)

/-- is there a pair of rows of `edges` the `if` of `_randomly_rewire_geomodel` accepts? -/
def geoAdmissible (c : GeoCfg) (A : Adj) (edges : List (Nat × Nat)) : Bool :=
  edges.any fun st => edges.any fun kl => geoAcceptM c A st.1 st.2 kl.1 kl.2

/-- `set_random_links_by_distance`: `A = (p >= 0.5 * (P + P.T))`, `fill_diagonal(A, 0)`;
generic in the number type (`ge`, `half`, `add` are float64 operations in the code). -/
def distKernelG {α : Type} (ge : α → α → Bool) (half : α → α) (add : α → α → α)
    (p P : Nat → Nat → α) : Adj :=
  fun i j => if i = j then false else ge (p i j) (half (add (P i j) (P j i)))

/-- the same on exact rationals (what the driver evaluates; the harness sends dyadic `P`
and the exact value of the float `p`, for which the float operations are exact) -/
def distKernel (p P : Nat → Nat → Rat) : Adj :=
  distKernelG (fun a b => decide (b ≤ a)) (fun x => (1 / 2 : Rat) * x) (· + ·) p P

/-! ## round 4: the conditions as the C compiler evaluates them, the draw as numpy evaluates it

`cond_len_c1/2` compute `abs(D[..] - D[..]) < eps` with `FIELD_t` (binary32) operands and a C `float`
`eps`: the subtraction is rounded to binary32, `fabsf` and `<` are exact.  Every finite binary32 number
is an integer multiple of `2^-149`, so distances and tolerance are *integers* in that unit (or in any
coarser power-of-two unit that makes the data integral) and the rounding is a function `Int → Int`.
`np.floor(rd.random() * E)` multiplies in binary64. -/

/-- IEEE-754 round to nearest, ties to even, to `p` significant bits, on integers (magnitudes below
`2^p` are exact — this covers the subnormal range when the unit is `2^-149` resp. `2^-1074`;
overflow is not modelled: a magnitude beyond the largest finite number stays beyond every finite
`eps`, so `< eps` is false either way) -/
def rndP (p : Nat) (n : Int) : Int :=
  let a := n.natAbs
  if a < 2 ^ p then n else
    let s := Nat.log2 a + 1 - p
    let q := a / 2 ^ s
    let r := a % 2 ^ s
    let h := 2 ^ (s - 1)
    let q' := if r < h then q else if h < r then q + 1 else if q % 2 = 0 then q else q + 1
    if n < 0 then -((q' * 2 ^ s : Nat) : Int) else ((q' * 2 ^ s : Nat) : Int)

/-- binary32 (`FIELD_t`, C `float`) -/
def rnd32 : Int → Int := rndP 24

/-- the exponent of the grid around a magnitude with integer part `f` (unit = smallest subnormal):
`0` in the subnormal / exact range, otherwise `⌊log2 f⌋ + 1 - p` -/
def gridShift (p f : Nat) : Nat := if f < 2 ^ p then 0 else Nat.log2 f + 1 - p

/-- IEEE-754 round to nearest, ties to even, of **any** non-negative rational `a` (in units of the
smallest subnormal) to `p` significant bits: `lo ≤ a < hi` are the two neighbouring grid points
(round 5; `rndP` is its restriction to integers: `rndP_eq_rndQ`) -/
def rndQ (p : Nat) (a : Rat) : Nat :=
  let f := a.floor.toNat
  let s := gridShift p f
  let q := f / 2 ^ s
  let lo := q * 2 ^ s
  let hi := (q + 1) * 2 ^ s
  if a - (lo : Rat) < (hi : Rat) - a then lo
  else if (hi : Rat) - a < a - (lo : Rat) then hi
  else if q % 2 = 0 then lo else hi

/-- binary64 rounding (nearest, ties to even) of an arbitrary rational — the multiplication
`rd.random() * E` as numpy evaluates it.  Round 5: total and *proved* to be a `B64.Nearest`
rounding (`rnd64_nearest`, Lemmas/RandomJ), so the range theorem holds for what the driver executes
without any hypothesis on the rounding.  Overflow is not modelled (the products are below `2^31`). -/
def rnd64 (x : Rat) : Rat :=
  if x < 0 then -((rndQ 53 (-x * ((2 ^ 1074 : Nat) : Rat)) : Nat) : Rat) / ((2 ^ 1074 : Nat) : Rat)
  else ((rndQ 53 (x * ((2 ^ 1074 : Nat) : Rat)) : Nat) : Rat) / ((2 ^ 1074 : Nat) : Rat)

/-- the function the pointer `cond_len` refers to, evaluated with rounding `rnd` -/
def condLenFl (rnd : Int → Int) (c : GeoCfg) (s t k l : Nat) : Bool :=
  match (wrapperOf c.mode).1 with
  | .cond_len_c1 => condLenC1R rnd c.D c.eps s t k l
  | .cond_len_c2 => condLenC2R rnd c.D c.eps s t k l

/-- the `if` of the loop body with the length condition in floating point -/
def geoAcceptFl (rnd : Int → Int) (c : GeoCfg) (A : Adj) (s t k l : Nat) : Bool :=
  geoIf A (degNullM c) (condDegCorr c.degree) (condLenFl rnd c) s t k l

/-- `geoStep` with the floating-point `if` -/
def geoStepFl (rnd : Int → Int) (c : GeoCfg) (st : GeoSt) (d : Nat × Nat) : Option GeoSt :=
  match st.edges[d.1]?, st.edges[d.2]? with
  | some (s, t), some (k, l) =>
    if geoAcceptFl rnd c st.A s t k l then
      some { A := rewireM st.A s t k l
             edges := (st.edges.set d.1 (geoEdge1 s t k l)).set d.2 (geoEdge2 s t k l)
             i := st.i + 1 }
    else some st
  | _, _ => none

def geoRunFl (rnd : Int → Int) (c : GeoCfg) (iterations : Nat) : List (Nat × Nat) → GeoSt → Option GeoSt
  | [], st => some st
  | d :: ds, st =>
    if geoWhile st.i iterations then (geoStepFl rnd c st d).bind (geoRunFl rnd c iterations ds)
    else some st

/-- the public method with the kernel in floating point (`D`, `eps` = the binary32 arrays
`to_cy(distance_matrix, FIELD)` / the C `float` the wrapper hands over) -/
def geoMethodFl (rnd : Int → Int) (mode : GeoMode) (D : Nat → Nat → Int) (eps : Int) (n : Nat) (A : Adj)
    (iterations : Nat) (draws : List (Nat × Nat)) : Option GeoSt :=
  geoRunFl rnd { mode := mode, D := D, eps := eps, degree := fun v => deg A n v } iterations draws
    ⟨A, edgeList n A, 0⟩

end Pyunicorn.Random
