/-
Model of `_line_dist` (src/pyunicorn/timeseries/_ext/numerics.pyx:624-717), the
generic recurrence line-distribution kernel, and of its ten wrappers.
Core Lean only (no Mathlib) so that the driver links as an executable.

The kernel walks "subspaces" (rows for vertical lines, sub-diagonals for
diagonal lines); in each it runs a little state machine `(k, missing_flag)`
over the cells and increments `hist[k-1]` at the end of every line.
-/
namespace Pyunicorn.LineDist

/-- `hist[k-1] += 1`. -/
def bump (hist : List Nat) (k : Nat) : List Nat := hist.modify (k - 1) (· + 1)

structure St where
  k : Nat
  mf : Bool
  hist : List Nat
deriving Repr

/-- the `if line: k += 1 / elif k != 0: hist[k-1] += 1; k = 0` tail of the loop body -/
def stepLine (line : Bool) (s : St) : St :=
  if line then { s with k := s.k + 1 }
  else if s.k != 0 then { s with hist := bump s.hist s.k, k := 0 }
  else s

/-- one iteration of the inner loop; `mv` = `missing_values`, `miss` = `M[I] or M[j]` -/
def cell (mv : Bool) (line miss : Bool) (s : St) : St :=
  if mv then
    let s1 := if miss then { s with mf := true, k := 0 }
              else if s.mf && !line then { s with mf := false } else s
    if s1.mf then s1 else stepLine line s1
  else stepLine line s

/-- code after the inner loop -/
def endSub (s : St) : St :=
  let s1 := if s.k != 0 && !s.mf then { s with hist := bump s.hist s.k, k := 0 } else s
  { s1 with mf := false }

def subspace (mv : Bool) (cells : List (Bool × Bool)) (s : St) : St :=
  endSub (cells.foldl (fun s c => cell mv c.1 c.2 s) s)

/-- the whole kernel on an explicit list of subspaces of `(line, miss)` cells -/
def kernel (mv : Bool) (subs : List (List (Bool × Bool))) (n : Nat) : List Nat :=
  (subs.foldl (fun s cs => subspace mv cs s) ⟨0, false, List.replicate n 0⟩).hist

/-- coordinates `(I, j)` visited with `i2J_vertline / ij2I_vertline`, `skip_main = False` -/
def vertCoords (n : Nat) : List (List (Nat × Nat)) :=
  (List.range n).map fun i => (List.range n).map fun j => (i, j)

/-- coordinates visited with `i2J_diagline / ij2I_diagline`, `skip_main = True`
    (`N -= 1` first, then `I = N - i + j`, `j < i+1`) -/
def diagCoords (n : Nat) : List (List (Nat × Nat)) :=
  (List.range (n - 1)).map fun i => (List.range (i + 1)).map fun j => ((n - 1) - i + j, j)

abbrev Mat := List (List Bool)
def Mat.at (R : Mat) (i j : Nat) : Bool := (R.getD i []).getD j false

def cellsOf (R : Mat) (M : List Bool) (black : Bool) (cs : List (Nat × Nat)) :
    List (Bool × Bool) :=
  cs.map fun (I, j) => ((R.at I j) == black, M.getD I false || M.getD j false)

def vertline (R : Mat) (n : Nat) : List Nat :=
  kernel false ((vertCoords n).map (cellsOf R [] true)) n
def whiteVertline (R : Mat) (n : Nat) : List Nat :=
  kernel false ((vertCoords n).map (cellsOf R [] false)) n
def diagline (R : Mat) (n : Nat) : List Nat :=
  kernel false ((diagCoords n).map (cellsOf R [] true)) n
def vertlineMV (R : Mat) (M : List Bool) (n : Nat) : List Nat :=
  kernel true ((vertCoords n).map (cellsOf R M true)) n
def diaglineMV (R : Mat) (M : List Bool) (n : Nat) : List Nat :=
  kernel true ((diagCoords n).map (cellsOf R M true)) n

/-! ### round 4: the Python layer of `RecurrencePlot.diagline_dist()` (matrix mode, no missing
values): the kernel scans one triangle; the result is doubled when `np.array_equal(R, R.T)`,
otherwise the second triangle is counted on the transposed matrix (repair a888ef2). -/

def Mat.tr (R : Mat) (n : Nat) : Mat :=
  (List.range n).map fun i => (List.range n).map fun j => R.at j i

/-- `np.array_equal(recmat, recmat.T)` -/
def symmetricB (R : Mat) (n : Nat) : Bool :=
  (List.range n).all fun i => (List.range n).all fun j => R.at i j == R.at j i

def addHist (a b : List Nat) : List Nat := List.zipWith (· + ·) a b

def diaglineDist (R : Mat) (n : Nat) : List Nat :=
  let d := diagline R n
  if symmetricB R n then d.map (2 * ·) else addHist d (diagline (R.tr n) n)

/-! ### Specification: lengths of the maximal runs of `true` -/

def runsAux : Nat → List Bool → List Nat
  | k, [] => if k = 0 then [] else [k]
  | k, true :: t => runsAux (k + 1) t
  | k, false :: t => if k = 0 then runsAux 0 t else k :: runsAux 0 t

/-- lengths of the maximal runs of `true` in a list, in order -/
def runs (l : List Bool) : List Nat := runsAux 0 l

/-- Specification with missing values: cells are `(line, miss)`.  A miss cell
    ends the current run without counting it and poisons everything up to and
    including the next non-line, non-miss cell. -/
def runsMVAux : Nat → Bool → List (Bool × Bool) → List Nat
  | k, mf, [] => if k = 0 || mf then [] else [k]
  | _, _, (_, true) :: t => runsMVAux 0 true t
  | k, true, (line, false) :: t =>
      if line then runsMVAux k true t else runsMVAux k false t
  | k, false, (true, false) :: t => runsMVAux (k + 1) false t
  | k, false, (false, false) :: t =>
      if k = 0 then runsMVAux 0 false t else k :: runsMVAux 0 false t

def runsMV (l : List (Bool × Bool)) : List Nat := runsMVAux 0 false l

/-- weighted total `Σ (i+1)·hist[i]` (= number of cells lying on counted lines) -/
def wsumFrom : Nat → List Nat → Nat
  | _, [] => 0
  | i, h :: t => (i + 1) * h + wsumFrom (i + 1) t
def wsum (hist : List Nat) : Nat := wsumFrom 0 hist

/-! ### Scalar RQA measures as functions of a histogram (rational arithmetic).
`recurrence_plot.py:786-1361`: each takes the *full-length* histogram and `l_min`. -/

/-- `Σ_{l ≥ lmin} l·P(l)` -/
def partialWsumFrom : Nat → Nat → List Nat → Nat
  | _, _, [] => 0
  | i, lmin, h :: t =>
      (if i + 1 ≥ lmin then (i + 1) * h else 0) + partialWsumFrom (i + 1) lmin t
def partialWsum (lmin : Nat) (hist : List Nat) : Nat := partialWsumFrom 0 lmin hist

/-- `Σ_{l ≥ lmin} P(l)` -/
def partialCountFrom : Nat → Nat → List Nat → Nat
  | _, _, [] => 0
  | i, lmin, h :: t => (if i + 1 ≥ lmin then h else 0) + partialCountFrom (i + 1) lmin t
def partialCount (lmin : Nat) (hist : List Nat) : Nat := partialCountFrom 0 lmin hist

/-- largest `l` with `P(l) > 0` (0 if none) -/
def maxLenFrom : Nat → List Nat → Nat
  | _, [] => 0
  | i, h :: t => let m := maxLenFrom (i + 1) t; if m != 0 then m else if h != 0 then i + 1 else 0
def maxLen (hist : List Nat) : Nat := maxLenFrom 0 hist

/-- `diag_entropy` &c.: the non-zero entries of `hist[lmin-1:]`; the probabilities are these
over their sum (`+ _epsilon` in the code), the entropy is `-Σ p log p` (`log` is numpy's: not
modelled; the harness evaluates it on the model's probabilities). -/
def entropyWeightsFrom : Nat → Nat → List Nat → List Nat
  | _, _, [] => []
  | i, lmin, h :: t =>
      if i + 1 ≥ lmin ∧ h ≠ 0 then h :: entropyWeightsFrom (i + 1) lmin t
      else entropyWeightsFrom (i + 1) lmin t
def entropyWeights (lmin : Nat) (hist : List Nat) : List Nat := entropyWeightsFrom 0 lmin hist

/-- numerator / denominator (before the code's `+ _epsilon`) of each scalar measure -/
structure Scalars where
  ratioNum : Nat      -- DET, LAM numerator; also numerator of the averages
  ratioDen : Nat      -- DET, LAM denominator: all points on lines
  avgDen : Nat        -- number of lines of length ≥ lmin
  maxLen : Nat
  weights : List Nat
def scalars (lmin : Nat) (hist : List Nat) : Scalars :=
  { ratioNum := partialWsum lmin hist, ratioDen := partialWsum 1 hist,
    avgDen := partialCount lmin hist, maxLen := maxLen hist,
    weights := entropyWeights lmin hist }

end Pyunicorn.LineDist
