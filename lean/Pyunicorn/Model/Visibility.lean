/-
Model of the visibility-graph kernels
(`src/pyunicorn/timeseries/_ext/numerics.pyx:799-922`:
`_visibility_relations_missingvalues`, `_visibility_relations_no_missingvalues`,
`_visibility_relations_horizontal`, `_retarded_local_clustering`,
`_advanced_local_clustering`) and of the class `VisibilityGraph`
(`src/pyunicorn/timeseries/visibility_graph.py`) that drives them.
Core Lean only (no Mathlib) so that the driver links as an executable.

Numbers: a sample is `Option Rat`, `none` = NaN (a missing sample).  NaN
propagates through `-` and `/`, every comparison with NaN is false (IEEE).
Timings are rationals.  The float32 rounding of the quotients is *not* modelled
(see design/C14.md: exact on the small dyadic data of the correspondence).

Errors: the extension is compiled with `boundscheck=True, cdivision=False`, so
an index outside an array raises `IndexError` and a zero divisor raises
`ZeroDivisionError`.  Both are results of the model (`Except Err`).  `Err.fuel`
is the model's own "the while loop ran longer than j - i iterations"; theorem
`kernelN_total` / `kernelH_total` show it never occurs.

The adjacency matrix is zero-initialised by the caller and the kernels only ever
write `A[i, j] = A[j, i] = 1`; the model therefore returns the *write log*, the
list of pairs `(i, j)` in the order of the writes, and `adjMat` turns a log into
the matrix.
-/
namespace Pyunicorn.Visibility

inductive Err where
  | zeroDiv | index | fuel
deriving DecidableEq, Repr

/-- a float sample: `none` = NaN -/
abbrev Val := Option Rat

/-- bounds-checked array read -/
def rd {α : Type} (l : List α) (k : Nat) : Except Err α :=
  match l[k]? with
  | some v => .ok v
  | none => .error .index

def vsub (a b : Val) : Val :=
  match a, b with
  | some a, some b => some (a - b)
  | _, _ => none

/-- division by a non-NaN, non-zero divisor -/
def vdivR (a : Val) (d : Rat) : Val := a.map (· / d)

/-- IEEE `<`: false as soon as one side is NaN -/
def vlt (a b : Val) : Bool :=
  match a, b with
  | some a, some b => decide (a < b)
  | _, _ => false

/-- `(x[k] - x[i]) / (t[k] - t[i])`; the reads come first, then Cython's zero test -/
def slope (x : List Val) (t : List Rat) (i k : Nat) : Except Err Val := do
  let xk ← rd x k
  let xi ← rd x i
  let tk ← rd t k
  let ti ← rd t i
  if tk - ti = 0 then .error .zeroDiv else .ok (vdivR (vsub xk xi) (tk - ti))

/-- `while cond(k) and k < j: k += 1` started at `k`; returns the final `k`.
`cond` is evaluated *before* the bound test (so also once at `k = j`). -/
def scan (cond : Nat → Except Err Bool) (j : Nat) : Nat → Nat → Except Err Nat
  | 0, _ => .error .fuel
  | f + 1, k => do
      let c ← cond k
      if c && decide (k < j) then scan cond j f (k + 1) else .ok k

/-- loop condition of the natural kernels; `mv = none` is the `_no_missingvalues`
variant, `mv = some m` evaluates `not mv_indices[k] and …` (short circuit) -/
def condN (x : List Val) (t : List Rat) (mv : Option (List Bool)) (i : Nat) (test : Val)
    (k : Nat) : Except Err Bool := do
  let m ← match mv with
    | none => pure false
    | some mv => rd mv k
  if m then .ok false
  else do
    let s ← slope x t i k
    .ok (vlt s test)

/-- body of the double loop for one pair `i + 2 ≤ j`: is `A[i, j]` written? -/
def farN (x : List Val) (t : List Rat) (mv : Option (List Bool)) (i j : Nat) :
    Except Err Bool := do
  let test ← slope x t i j
  let k ← scan (condN x t mv i test) j (j - i) (i + 1)
  .ok (k == j)

/-- Cython's `min(a, b)` on C floats: `b if b < a else a` -/
def cmin (a b : Val) : Val := if vlt b a then b else a

def condH (x : List Val) (minimum : Val) (k : Nat) : Except Err Bool := do
  let xk ← rd x k
  .ok (vlt xk minimum)

def farH (x : List Val) (i j : Nat) : Except Err Bool := do
  let xi ← rd x i
  let xj ← rd x j
  let k ← scan (condH x (cmin xi xj)) j (j - i) (i + 1)
  .ok (k == j)

/-- `for i in range(N-2): for j in range(i+2, N)` -/
def farPairs (N : Nat) : List (Nat × Nat) :=
  (List.range (N - 2)).flatMap fun i =>
    (List.range' (i + 2) (N - (i + 2))).map fun j => (i, j)

/-- `for i in range(N-1)`: the pairs `(i, i+1)` -/
def adjPairs (N : Nat) : List (Nat × Nat) := (List.range (N - 1)).map fun i => (i, i + 1)

/-- keep the elements on which `f` answers `true`; the first error aborts -/
def filterE {α : Type} (f : α → Except Err Bool) : List α → Except Err (List α)
  | [] => .ok []
  | a :: l => do
      let b ← f a
      let r ← filterE f l
      .ok (if b then a :: r else r)

/-- `if not mv_indices[i] and not mv_indices[i+1]` (always true without a mask) -/
def adjCond (mv : Option (List Bool)) (p : Nat × Nat) : Except Err Bool :=
  match mv with
  | none => .ok true
  | some mv => do
      let a ← rd mv p.1
      if a then .ok false
      else do
        let b ← rd mv p.2
        .ok (!b)

/-- `_visibility_relations_missingvalues` (`mv = some m`) and
`_visibility_relations_no_missingvalues` (`mv = none`): the write log -/
def kernelN (x : List Val) (t : List Rat) (mv : Option (List Bool)) (N : Nat) :
    Except Err (List (Nat × Nat)) := do
  let far ← filterE (fun p => farN x t mv p.1 p.2) (farPairs N)
  let adj ← filterE (adjCond mv) (adjPairs N)
  .ok (far ++ adj)

/-- `_visibility_relations_horizontal` -/
def kernelH (x : List Val) (N : Nat) : Except Err (List (Nat × Nat)) := do
  let far ← filterE (fun p => farH x p.1 p.2) (farPairs N)
  .ok (far ++ adjPairs N)

/-- entry `A[a, b]` after the writes `A[i, j] = A[j, i] = 1` of the log -/
def entry (log : List (Nat × Nat)) (a b : Nat) : Bool :=
  log.contains (a, b) || log.contains (b, a)

def adjMat (N : Nat) (log : List (Nat × Nat)) : List (List Bool) :=
  (List.range N).map fun a => (List.range N).map fun b => entry log a b

/-! ### the class `VisibilityGraph` -/

/-- sample `k` of a series, NaN outside (used in specifications with `k < N`) -/
def valAt (x : List Val) (k : Nat) : Val := (x[k]?).join

def isMissing (x : List Val) (k : Nat) : Bool := (valAt x k).isNone

/-- `np.isnan(self.time_series)` -/
def nanMask (x : List Val) : List Bool := x.map Option.isNone

/-- `np.arange(len(time_series))` -/
def defaultTimings (N : Nat) : List Rat := (List.range N).map fun (i : Nat) => ((i : Int) : Rat)

/-- `VisibilityGraph.__init__` up to the adjacency matrix: the write log.
`horizontal` with `missing_values`: the kernel's log with every pair touching a
missing sample removed (`A[mv, :] = 0; A[:, mv] = 0`). -/
def classLog (x : List Val) (timings : Option (List Rat)) (missing horizontal : Bool) :
    Except Err (List (Nat × Nat)) :=
  let N := x.length
  let t := match timings with
    | some t => t
    | none => defaultTimings N
  if !horizontal then
    kernelN x t (if missing then some (nanMask x) else none) N
  else do
    let log ← kernelH x N
    .ok (if missing then log.filter (fun p => !isMissing x p.1 && !isMissing x p.2) else log)

/-- `A[i, :i].sum()` -/
def retDeg (A : List (List Bool)) (i : Nat) : Nat := ((A.getD i []).take i).count true
/-- `A[i, i:].sum()` -/
def advDeg (A : List (List Bool)) (i : Nat) : Nat := ((A.getD i []).drop i).count true
/-- `Network.degree()[i]`: row sum -/
def deg (A : List (List Bool)) (i : Nat) : Nat := (A.getD i []).count true

def Mat.at (A : List (List Bool)) (i j : Nat) : Bool := (A.getD i []).getD j false

/-- pairs `(j, k)` of `for j in range(i): for k in range(j)` -/
def retPairs (i : Nat) : List (Nat × Nat) :=
  (List.range i).flatMap fun j => (List.range j).map fun k => (j, k)

/-- pairs `(j, k)` of `for j in range(i+1, N): for k in range(i+1, j)` -/
def advPairs (N i : Nat) : List (Nat × Nat) :=
  (List.range' (i + 1) (N - (i + 1))).flatMap fun j =>
    (List.range' (i + 1) (j - (i + 1))).map fun k => (j, k)

def tri (A : List (List Bool)) (i : Nat) (p : Nat × Nat) : Bool :=
  Mat.at A i p.1 && Mat.at A p.1 p.2 && Mat.at A p.2 i

/-- `counter` of `_retarded_local_clustering` for node `i` -/
def retCount (A : List (List Bool)) (i : Nat) : Nat := (retPairs i).countP (tri A i)
/-- `counter` of `_advanced_local_clustering` for node `i` -/
def advCount (A : List (List Bool)) (N i : Nat) : Nat := (advPairs N i).countP (tri A i)

/-- `_retarded_local_clustering`: the output array (zero-initialised by the caller) -/
def retClustKernel (N : Nat) (A : List (List Bool)) (norm : List Rat) : List Rat :=
  (List.range N).map fun i =>
    let n := norm.getD i 0
    if n ≠ 0 then (retCount A i : Rat) / n else 0

/-- `_advanced_local_clustering`: only `i < N - 2` is visited -/
def advClustKernel (N : Nat) (A : List (List Bool)) (norm : List Rat) : List Rat :=
  (List.range N).map fun i =>
    let n := norm.getD i 0
    if i < N - 2 ∧ n ≠ 0 then (advCount A N i : Rat) / n else 0

/-- `degree * (degree - 1) / 2.` -/
def pairNorm (d : Nat) : Rat := (d : Rat) * ((d : Rat) - 1) / 2

def retClust (A : List (List Bool)) : List Rat :=
  retClustKernel A.length A ((List.range A.length).map fun i => pairNorm (retDeg A i))

def advClust (A : List (List Bool)) : List Rat :=
  advClustKernel A.length A ((List.range A.length).map fun i => pairNorm (advDeg A i))

end Pyunicorn.Visibility
