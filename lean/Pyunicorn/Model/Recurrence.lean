/-
Model of the recurrence-matrix constructions of pyunicorn (property C07).
Core Lean only (no Mathlib) so that the driver links as an executable.

  timeseries/_ext/numerics.pyx : `_embed_time_series`, `_*_distance_matrix_rp`,
        `_*_distance_matrix_crp`, `_set_adaptive_neighborhood_size`
  timeseries/recurrence_plot.py : `set_fixed_threshold`, `set_fixed_recurrence_rate`,
        `set_fixed_local_recurrence_rate`, `threshold_from_recurrence_rate`
  timeseries/cross_recurrence_plot.py, joint_recurrence_plot.py,
  inter_system_recurrence_network.py, recurrence_network.py, joint_recurrence_network.py

Numbers.  A sample is `V = Option Rat`, `none` standing for NaN (a missing
value).  Arithmetic follows IEEE on NaN: sums and differences propagate it,
every comparison with it is false.  The Euclidean kernel is modelled in *squared*
units (`sqrt` is monotone; `Properties/C07.lean` proves that thresholding the
squares with `sqThr` is thresholding the root).
-/
namespace Pyunicorn.Recurrence

abbrev V := Option Rat

inductive Metric | manhattan | euclidean | supremum
deriving DecidableEq, Repr

/-- `abs(a - b)` in IEEE arithmetic -/
def absdiff (a b : V) : V :=
  match a, b with
  | some x, some y => some (if x ≤ y then y - x else x - y)
  | _, _ => none

def addV (a b : V) : V :=
  match a, b with
  | some x, some y => some (x + y)
  | _, _ => none

def mulV (a b : V) : V :=
  match a, b with
  | some x, some y => some (x * y)
  | _, _ => none

/-- `t > d` (false as soon as one side is NaN) -/
def gtV (t d : V) : Bool :=
  match t, d with
  | some x, some y => decide (y < x)
  | _, _ => false

/-- `d < t` (false as soon as one side is NaN) -/
def ltV (d t : V) : Bool :=
  match d, t with
  | some x, some y => decide (x < y)
  | _, _ => false

/-- inner loop over `l in range(dim)` of the three kernels: the accumulator
starts at `0`; Manhattan adds `|a-b|`, Euclidean adds `|a-b|²` (the final `sqrt`
is *not* applied here), supremum keeps the larger value (`if temp_diff > diff`). -/
def dist (m : Metric) (a b : List V) : V :=
  (List.zipWith absdiff a b).foldl
    (fun acc t =>
      match m with
      | .manhattan => addV acc t
      | .euclidean => addV acc (mulV t t)
      | .supremum => if gtV t acc then t else acc)
    (some 0)

/-- threshold in the units of `dist`: `eps` itself, resp. `eps²` (and `0` when
`eps ≤ 0`: nothing is closer than a non-positive threshold) for the Euclidean kernel -/
def unitThr (m : Metric) (eps : Rat) : Rat :=
  match m with
  | .euclidean => if eps ≤ 0 then 0 else eps * eps
  | _ => eps

/-! ### matrices -/

def tab {α : Type} (n m : Nat) (f : Nat → Nat → α) : List (List α) :=
  (List.range n).map fun i => (List.range m).map fun j => f i j

def entry {α : Type} (M : List (List α)) (i j : Nat) : Option α :=
  (M[i]?).bind (·[j]?)

/-! ### embedding (`_embed_time_series`): `embedding[k, j] = time_series[j*tau + k]`,
`k < len`, where `len = n_time - (dim-1)*tau` is computed by the caller (and by
the kernel again). -/

def embed (ts : List V) (dim tau len : Nat) : List (List V) :=
  tab len dim fun k j => ts.getD (j * tau + k) none

/-- scalar series → (n, 1) array, the un-embedded case -/
def column (ts : List V) : List (List V) := ts.map fun v => [v]

/-! ### distance matrices -/

def rowOf (emb : List (List V)) (j : Nat) : List V := emb.getD j []

/-- `_*_distance_matrix_rp`: `np.zeros`, then for `k < j`:
`distance[j,k] = distance[k,j] = d(embedding[j], embedding[k])`. -/
def rpEntry (m : Metric) (emb : List (List V)) (j k : Nat) : V :=
  if k < j then dist m (rowOf emb j) (rowOf emb k)
  else if j < k then dist m (rowOf emb k) (rowOf emb j)
  else some 0

def distRP (m : Metric) (emb : List (List V)) : List (List V) :=
  tab emb.length emb.length (rpEntry m emb)

/-- `_*_distance_matrix_crp`: full double loop -/
def distCRP (m : Metric) (ex ey : List (List V)) : List (List V) :=
  tab ex.length ey.length fun j k => dist m (rowOf ex j) (rowOf ey k)

/-! ### thresholding -/

/-- `recurrence[distance < threshold] = 1` -/
def threshold (D : List (List V)) (t : V) : List (List Bool) :=
  D.map fun row => row.map fun d => ltV d t

/-- `np.isnan(embedding).sum(axis=1) != 0` -/
def missingMask (emb : List (List V)) : List Bool := emb.map fun r => r.any Option.isNone

/-- `recurrence[mv, :] = 0; recurrence[:, mv] = 0` -/
def applyMask (R : List (List Bool)) (M : List Bool) : List (List Bool) :=
  (R.zipIdx).map fun (row, i) =>
    (row.zipIdx).map fun (b, j) => b && !(M.getD i false) && !(M.getD j false)

/-- `RecurrencePlot.set_fixed_threshold` -/
def fixedThreshold (m : Metric) (emb : List (List V)) (eps : Rat) (mv : Bool) :
    List (List Bool) :=
  let R := threshold (distRP m emb) (some (unitThr m eps))
  if mv then applyMask R (missingMask emb) else R

/-! ### rate → threshold (`threshold_from_recurrence_rate`) -/

/-- order of `ndarray.sort`: ascending, NaN last -/
def leV (a b : V) : Bool :=
  match a, b with
  | some x, some y => decide (x ≤ y)
  | _, none => true
  | none, some _ => false

def sortV (l : List V) : List V := l.mergeSort leV

/-- `flat_distance[k]` after sorting; `none` = IndexError (empty array).
The index `k = int(recurrence_rate * (N - 1))` is computed by the caller
(`Generated.ArithC07.rateIndex`). -/
def quantileAt (flat : List V) (k : Nat) : Option V := (sortV flat)[k]?

/-- `set_fixed_recurrence_rate` (global): one threshold for the whole matrix -/
def fixedRate (D : List (List V)) (k : Nat) : Option (List (List Bool)) :=
  (quantileAt D.flatten k).map fun t => threshold D t

/-- `set_fixed_local_recurrence_rate`: one threshold per row -/
def fixedLocalRate (D : List (List V)) (k : Nat) : Option (List (List Bool)) :=
  D.mapM fun row => (quantileAt row k).map fun t => row.map fun d => ltV d t

/-- the `if self.missing_values:` block shared by the three constructions -/
def maskIf (mv : Bool) (emb : List (List V)) (R : List (List Bool)) : List (List Bool) :=
  if mv then applyMask R (missingMask emb) else R

/-! ### `threshold_std` and `normalize`: mean and variance of the stored series

`self.time_series.std()` is the standard deviation of *all* entries of the `(n, d)`
array (`ddof = 0`); `normalize_time_series` works column by column.  The model keeps
the variance (a rational) and never takes a root: `d < s·σ` is decided in squared
units (`Properties/C07.lean` proves over ℝ that this is the comparison with
`s·√var`), and the normalisation is modelled where `√var` is rational
(`ratSqrt?`; otherwise the outcome is `none`, "outside the exact model"). -/

def sumV (l : List V) : V := l.foldl addV (some 0)

/-- `ndarray.mean()`; NaN for an empty array or as soon as one entry is NaN -/
def meanV (l : List V) : V :=
  if l.isEmpty then none else (sumV l).map fun s => s / (l.length : Rat)

def subV (a b : V) : V :=
  match a, b with
  | some x, some y => some (x - y)
  | _, _ => none

/-- `ndarray.var()` (`ddof = 0`): the mean of the squared deviations from the mean -/
def varV (l : List V) : V :=
  let mu := meanV l
  meanV (l.map fun x => let d := subV x mu; mulV d d)

/-- the square of `threshold_std * std` (`0` for `threshold_std ≤ 0`: the product is
then `≤ 0` and no distance is below it); NaN when the variance is -/
def stdThrSq (s : Rat) (var : V) : V :=
  var.map fun v => if s ≤ 0 then 0 else s * s * v

/-- `recurrence[distance < threshold] = 1` with the threshold given by its square:
the Euclidean kernel is already in squared units, the other two distances (≥ 0) are
squared for the comparison -/
def thresholdSq (m : Metric) (D : List (List V)) (tsq : V) : List (List Bool) :=
  D.map fun row => row.map fun d =>
    match m with
    | .euclidean => ltV d tsq
    | _ => ltV (mulV d d) tsq

/-- `RecurrencePlot.set_fixed_threshold_std`: `series` is the stored `(n, d)` array
(before embedding), `emb` its state vectors -/
def fixedThresholdStd (m : Metric) (series emb : List (List V)) (s : Rat) (mv : Bool) :
    List (List Bool) :=
  maskIf mv emb (thresholdSq m (distRP m emb) (stdThrSq s (varV series.flatten)))

/-- exact square root of a natural number, if it is a perfect square -/
def natSqrt? (n : Nat) : Option Nat :=
  let r := n.sqrt
  if r * r = n then some r else none

/-- exact square root of a rational, if it has one -/
def ratSqrt? (q : Rat) : Option Rat :=
  if q < 0 then none else
  match natSqrt? q.num.toNat, natSqrt? q.den with
  | some a, some b => some ((a : Rat) / (b : Rat))
  | _, _ => none

/-- `x ↦ (x - mu) / sd` on samples (NaN stays NaN) -/
def affV (mu sd : Rat) (x : V) : V := x.map fun x => (x - mu) / sd

/-- one column of `normalize_time_series`: `col -= mean; if std != 0: col /= std`.
`none`: the standard deviation is irrational (outside the exact model). -/
def normalizeCol (col : List V) : Option (List V) :=
  match meanV col, varV col with
  | some mu, some v =>
    if v = 0 then some (col.map (affV mu 1))
    else (ratSqrt? v).map fun sd => col.map (affV mu sd)
  | _, _ => some (col.map fun _ => none)      -- NaN mean / std: the whole column is NaN

/-- column `j` of an `(n, d)` array -/
def colOf (series : List (List V)) (j : Nat) : List V := series.map fun r => r.getD j none

/-- `normalize_time_series` on an `(n, d)` array (all columns) -/
def normalizeSeries (series : List (List V)) : Option (List (List V)) :=
  let d := (series.headD []).length
  ((List.range d).mapM fun j => normalizeCol (colOf series j)).map fun cols =>
    tab series.length d fun i j => (cols.getD j []).getD i none

/-! ### sequential RQA (`sparse_rqa=True`): no matrix is stored; the line kernels decide
`metric_supremum(I, j, dim, E) < eps` cell by cell (`numerics.pyx: _line_dist`, `dim > 0`).
`metric_supremum` is the same fold as the supremum distance kernel (also on the diagonal,
where the matrix kernels leave the `np.zeros` entry). -/

def seqRec (emb : List (List V)) (eps : Rat) (I j : Nat) : Bool :=
  ltV (dist .supremum (rowOf emb I) (rowOf emb j)) (some eps)

/-- the matrix the sequential kernels see -/
def sparseMatrix (emb : List (List V)) (eps : Rat) : List (List Bool) :=
  tab emb.length emb.length (seqRec emb eps)

/-! ### `normalize=True` on a multi-column series: every column has its own `(μ_j, σ_j)`;
the distance of two normalised states is a *weighted* distance of the raw states -/

/-- `|a_l − b_l| / w_l` component by component -/
def wdiffs (w : List Rat) (a b : List V) : List V :=
  List.zipWith (fun t s => t.map (· / s)) (List.zipWith absdiff a b) w

/-- the three kernels on weighted differences (the inner loop of `dist`) -/
def distW (m : Metric) (w : List Rat) (a b : List V) : V :=
  (wdiffs w a b).foldl
    (fun acc t =>
      match m with
      | .manhattan => addV acc t
      | .euclidean => addV acc (mulV t t)
      | .supremum => if gtV t acc then t else acc)
    (some 0)

/-- a state after `normalize_time_series`: component `l` mapped by `x ↦ (x − μ_l)/σ_l` -/
def affRow (mu sd : List Rat) (a : List V) : List V :=
  List.zipWith (fun x (p : Rat × Rat) => affV p.1 p.2 x) a (List.zip mu sd)

/-! ### adaptive neighbourhood size (`_set_adaptive_neighborhood_size`)

The matrix under construction is a function (entries are only ever set to 1);
`sn` is `sorted_neighbors`, `order` the processing order.  Out-of-range reads
(`boundscheck=True`) are the explicit outcome `none`. -/

abbrev BM := Nat → Nat → Bool

/-- the `while k < n_time and recurrence[l, sn[l,k]] == 1: k += 1` loop with fuel:
`some (some k)`: stopped at the first `k ≥ k0`, `k < n`, whose neighbour is not yet
linked; `some none`: ran to `k = n`; `none`: `sn[l]` is too short (IndexError). -/
def findFree (R : BM) (snl : List Nat) (l n : Nat) : Nat → Nat → Option (Option Nat)
  | _, 0 => some none
  | k, fuel + 1 =>
    if k < n then
      match snl[k]? with
      | none => none
      | some c => if R l c then findFree R snl l n (k + 1) fuel else some (some k)
    else some none

def setSym (R : BM) (l c : Nat) : BM :=
  fun a b => R a b || (a == l && b == c) || (a == c && b == l)

/-- one `(i, j)` iteration; `none` = IndexError -/
def adaptStep (n : Nat) (sn : List (List Nat)) (i : Nat) (R : BM) (l : Nat) : Option BM :=
  match sn[l]? with
  | none => none
  | some snl =>
    match findFree R snl l n (i + 1) n with
    | none => none
    | some none => some R            -- `if k < n_time` fails: nothing is added
    | some (some k) =>
      match snl[k]? with
      | none => none
      | some c => if l < n ∧ c < n then some (setSym R l c) else none

def adaptRound (n : Nat) (sn : List (List Nat)) (order : List Nat) (R : BM) (i : Nat) :
    Option BM :=
  order.foldlM (adaptStep n sn i) R

def adaptive (n kA : Nat) (sn : List (List Nat)) (order : List Nat) : Option BM :=
  (List.range kA).foldlM (adaptRound n sn order) (fun _ _ => false)

def bmTab (n : Nat) (R : BM) : List (List Bool) := tab n n R

/-! ### Python slicing `a[lo:hi]` on an axis of length `n` -/

def pyBound (x : Int) (n : Nat) : Nat :=
  if x < 0 then (x + n).toNat else min x.toNat n

def pySlice {α : Type} (l : List α) (lo hi : Int) : List α :=
  let a := pyBound lo l.length
  let b := pyBound hi l.length
  (l.drop a).take (b - a)

def slice2 {α : Type} (M : List (List α)) (rlo rhi clo chi : Int) : List (List α) :=
  (pySlice M rlo rhi).map fun r => pySlice r clo chi

/-- elementwise product of two equally shaped 0/1 matrices; `none` = ValueError
(shapes cannot be broadcast; 1×1 broadcasting is not modelled) -/
def hadamard (A B : List (List Bool)) : Option (List (List Bool)) :=
  if A.length = B.length ∧ (A.map List.length) = (B.map List.length) then
    some (List.zipWith (fun ra rb => List.zipWith (· && ·) ra rb) A B)
  else none

/-- the slice bounds of `JointRecurrencePlot.set_fixed_threshold` (generated from the source):
`lag ≥ 0`: `rx[:xa, :xa'] * ry[yb:yc, yb':yc']`; `lag < 0`: `ry[:ya, :ya'] * rx[xb:xc, xb':xc']` -/
structure JBounds where
  posXRowHi : Int
  posXColHi : Int
  posYRowLo : Int
  posYRowHi : Int
  posYColLo : Int
  posYColHi : Int
  negYRowHi : Int
  negYColHi : Int
  negXRowLo : Int
  negXRowHi : Int
  negXColLo : Int
  negXColHi : Int

def jointSlices (Rx Ry : List (List Bool)) (lag : Int) (b : JBounds) :
    Option (List (List Bool)) :=
  if lag ≥ 0 then
    hadamard (slice2 Rx 0 b.posXRowHi 0 b.posXColHi)
      (slice2 Ry b.posYRowLo b.posYRowHi b.posYColLo b.posYColHi)
  else
    hadamard (slice2 Ry 0 b.negYRowHi 0 b.negYColHi)
      (slice2 Rx b.negXRowLo b.negXRowHi b.negXColLo b.negXColHi)

/-! ### inter-system recurrence matrix -/

def transpose (M : List (List Bool)) (rows cols : Nat) : List (List Bool) :=
  tab cols rows fun i j => ((M.getD j []).getD i false)

/-- `ISRM[:Nx,:Nx] = Rx; ISRM[:Nx,Nx:] = CR; ISRM[Nx:,:Nx] = CRᵀ; ISRM[Nx:,Nx:] = Ry`
for blocks of the sizes `Nx×Nx`, `Nx×Ny`, `Ny×Ny`; `none` = ValueError (a block
does not fit the slot it is assigned to). -/
def isrm (Nx Ny : Nat) (Rx Ry CR : List (List Bool)) : Option (List (List Bool)) :=
  let fits (M : List (List Bool)) (r c : Nat) : Bool :=
    M.length == r && M.all (·.length == c)
  if fits Rx Nx Nx && fits Ry Ny Ny && fits CR Nx Ny then
    some (tab (Nx + Ny) (Nx + Ny) fun i j =>
      if i < Nx then
        if j < Nx then (Rx.getD i []).getD j false else (CR.getD i []).getD (j - Nx) false
      else
        if j < Nx then (CR.getD j []).getD (i - Nx) false
        else (Ry.getD (i - Nx) []).getD (j - Nx) false)
  else none

/-! ### slice assignment `M[rlo:rhi, clo:chi] = B` (the assembly as the code writes it; the
slice bounds are generated from the source, `RecurrenceObjects.isrmParts`) -/

/-- a slot `M[rlo:rhi, clo:chi]` of a 2-D slice assignment -/
structure Slot where
  rlo : Int
  rhi : Int
  clo : Int
  chi : Int

def Slot.r0 (s : Slot) (n : Nat) : Nat := pyBound s.rlo n
def Slot.r1 (s : Slot) (n : Nat) : Nat := pyBound s.rhi n
def Slot.c0 (s : Slot) (n : Nat) : Nat := pyBound s.clo n
def Slot.c1 (s : Slot) (n : Nat) : Nat := pyBound s.chi n

def Slot.has (s : Slot) (n i j : Nat) : Bool :=
  decide (s.r0 n ≤ i ∧ i < s.r1 n ∧ s.c0 n ≤ j ∧ j < s.c1 n)

/-- the block has exactly the shape of the slot (NumPy would otherwise broadcast or raise) -/
def Slot.fits (s : Slot) (n : Nat) (B : List (List Bool)) : Bool :=
  B.length == s.r1 n - s.r0 n && B.all (·.length == s.c1 n - s.c0 n)

/-- `M = np.zeros((n, n)); M[slot₀] = B₀; M[slot₁] = B₁; …` — later assignments win;
`none` = a block does not have the shape of its slot -/
def assemble (n : Nat) (parts : List (Slot × List (List Bool))) : Option (List (List Bool)) :=
  if parts.all (fun p => p.1.fits n p.2) then
    some (tab n n fun i j =>
      match parts.reverse.find? (fun p => p.1.has n i j) with
      | some p => (p.2.getD (i - p.1.r0 n) []).getD (j - p.1.c0 n) false
      | none => false)
  else none

/-! ### network adjacency: `A = R.copy(); A.flat[::stride] = 0` -/

/-- zero every `stride`-th element of the row-major flattening of an `s×s` matrix -/
def zeroStride (R : List (List Bool)) (stride : Nat) : List (List Bool) :=
  let s := R.length
  (R.zipIdx).map fun (row, i) =>
    (row.zipIdx).map fun (b, j) => b && !((i * s + j) % stride == 0)

/-- `np.delete(A, where(M), axis=0/1)` -/
def deleteMasked (A : List (List Bool)) (M : List Bool) : List (List Bool) :=
  let keep {α : Type} (l : List α) : List α :=
    (l.zipIdx).filterMap fun (x, i) => if M.getD i false then none else some x
  (keep A).map fun r => keep r

def countTrue (l : List Bool) : Nat := l.countP id

end Pyunicorn.Recurrence
