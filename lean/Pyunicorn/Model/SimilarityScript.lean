import Pyunicorn.Model.SimilarityHilbert
import Pyunicorn.Model.SimilarityNumeric
import Pyunicorn.Generated.StructC09
/-!
# Interpreter for the method scripts regenerated from the source (C09, round 3) — core Lean only

`translate/gen_C09.py` turns the bodies of `ClimateNetwork.set_threshold / set_link_density /
set_non_local / __init__ / _regenerate_network / threshold_from_link_density` and of
`HilbertClimateNetwork.set_threshold / set_directed / _set_directed / __init__` into lists of
`Stmt` (`Pyunicorn.Generated.StructC09`).  This file gives each statement its meaning on the state
of the model; `Properties/C09.lean` proves that running the *generated* scripts is running the
hand-written model (`Net.setThreshold`, `Net.setLinkDensity`, …, `HNet.setDirected`).

Method calls are resolved as Python does: `self.set_threshold` is the override when the object
is a `HilbertClimateNetwork` (`hil = true`); a call runs the callee's script with fresh
parameters and hands the object back to the caller.  `none` = the call raises.
-/
namespace Pyunicorn.Similarity.Script
open Pyunicorn.Generated.StructC09

structure Frame where
  /-- the object -/
  h : HNet
  /-- an adjacency matrix has been assigned (`self.adjacency` can be read) -/
  hasAdj : Bool
  /-- parameter `threshold` of `set_threshold` -/
  argθ : Rat
  /-- parameter `link_density` of `set_link_density`, as its raw quantile index -/
  argK : Nat
  /-- parameter `non_local` -/
  argNl : Bool
  /-- parameter `directed` -/
  argDir : Bool
  /-- parameters `threshold`, `link_density` (raw index), `similarity_measure` of `__init__` -/
  initθ : Option Rat
  initK : Option Nat
  initS : Sim
  /-- what `_calculate_hilbert_correlation(self.data.anomaly())` returns -/
  envS : Sim
  envP : Sim
  /-- locals `threshold`, `similarity`, `A`, `results` -/
  locθ : Rat
  locS : Sim
  locA : List Bool
  resS : Sim
  resP : Sim

def val (fr : Frame) : Val → Rat
  | .arg => fr.argθ
  | .selfThreshold => fr.h.net.θ
  | .localThreshold => fr.locθ

def setNet (fr : Frame) (f : Net → Net) : Frame :=
  { fr with h := { fr.h with net := f fr.h.net } }

/-- which entries enter the quantile -/
def selectEntries : Sel → Sim → Nat → List Rat
  | .offDiagonal, S, N => offDiag S N
  | .upperTriangle, S, N =>
    ((List.range (N * N)).filter fun p => p / N < p % N).map fun p => S (p / N) (p % N)
  | .all, S, N => (List.range (N * N)).map fun p => S (p / N) (p % N)

/-- `threshold_from_link_density` as the generated steps describe it: selection, sort, index -/
def quantile (steps : List Stmt) (S : Sim) (N k : Nat) : Option Rat :=
  match steps with
  | [.loadSimilarity, .select s, .sortAscending, .indexQuantile, .returnThreshold] =>
    let l := sortAsc (selectEntries s S N)
    l[min k (l.length - 1)]?
  | _ => none

/-- `link_density_function(n_bins)` as the generated steps describe it: histogram of **all** stored
similarities, conversion, normalisation, allocation, `out[i] = hist[:i].sum()`, return;
`edges` = the bin edges `np.histogram` returns -/
def ldfRun (steps : List Stmt) (S : Sim) (N : Nat) (edges : List Rat) (n : Nat) : Option (List Rat) :=
  match steps with
  | [.histogramAll, .histToFloat, .histNormalise, .allocResult, .cumulativeLoop, .returnLdf] =>
    some (linkDensityFunction S N edges n)
  | _ => none

def setThresholdOf (hil : Bool) : List Stmt := if hil then hilbertSetThreshold else setThreshold

def mask (fr : Frame) : Frame :=
  { setNet fr fun n => n.assignAdjacency (phaseMask fr.h.phase n.N n.A) with hasAdj := true }

/-- the caller continues with the object the callee left -/
def back (fr : Frame) (r : Option Frame) : Option Frame :=
  r.map fun r => { fr with h := r.h, hasAdj := r.hasAdj }

/-- one statement; the Boolean says "return from the method now" -/
def execStmt (call : List Stmt → Frame → Option Frame) (hil : Bool) (fr : Frame) :
    Stmt → Option (Frame × Bool)
  | .storeThreshold v => some (setNet fr fun n => { n with θ := val fr v }, false)
  | .loadSimilarity => some ({ fr with locS := fr.h.net.S }, false)
  | .computeAdjacency =>
    some ({ fr with locA := thresholdAdjacency (weighted fr.h.net.nonLocal fr.locS fr.h.net.damp)
                      fr.argθ fr.h.net.N }, false)
  | .geoInitLocal => some ({ setNet fr fun n => n.assignAdjacency fr.locA with hasAdj := true }, false)
  | .geoInitSelf =>
    -- `adjacency=self.adjacency` raises AttributeError when no network was generated
    if fr.hasAdj then some (setNet fr fun n => n.assignAdjacency n.A, false) else none
  | .thresholdFromDensity =>
    (quantile thresholdFromLinkDensity fr.h.net.S fr.h.net.N fr.argK).map fun θ =>
      ({ fr with locθ := θ }, false)
  | .callSetThreshold v =>
    (back fr (call (setThresholdOf hil) { fr with argθ := val fr v })).map (·, false)
  | .returnUnlessNonLocalChanged => some (fr, !(fr.h.net.nonLocal != fr.argNl))
  | .storeNonLocal => some (setNet fr fun n => { n with nonLocal := fr.argNl }, false)
  | .storeDirectedArg => some (setNet fr fun n => { n with directed := fr.argDir }, false)
  | .storeSimilarityAbs => some (setNet fr fun n => { n with S := absSim fr.initS }, false)
  | .dispatchInit =>
    match fr.initθ, fr.initK with
    | some θ, _ => (back fr (call (setThresholdOf hil) { fr with argθ := θ })).map (·, false)
    | none, some k => (back fr (call setLinkDensity { fr with argK := k })).map (·, false)
    | none, none => some (fr, false)
  | .callInitWithStored =>
    (back fr (call init { fr with initS := fr.h.net.S, initθ := some fr.h.net.θ, initK := none,
                                   argNl := fr.h.net.nonLocal, argDir := fr.h.net.directed })).map
      (·, false)
  | .parentSetThreshold => (back fr (call setThreshold fr)).map (·, false)
  | .maskIfSelfDirected => some (if fr.h.net.directed then mask fr else fr, false)
  | .maskIfArgDirected => some (if fr.argDir then mask fr else fr, false)
  | .callSetDirectedInternal calculate =>
    (back fr (call (if calculate then setDirectedCalc else setDirectedNoCalc) fr)).map (·, false)
  | .callRegenerate => (back fr (call regenerate fr)).map (·, false)
  | .computeCoherence => some ({ fr with resS := fr.envS, resP := fr.envP }, false)
  | .storeCoherenceSim => some (setNet fr fun n => { n with S := fr.resS }, false)
  | .storePhase => some ({ fr with h := { fr.h with phase := fr.resP } }, false)
  | .callClimateInit => (back fr (call init { fr with initS := fr.h.net.S })).map (·, false)
  -- steps of `threshold_from_link_density` are interpreted by `quantile`; anything the
  -- translator did not recognise cannot be executed
  | .select _ | .sortAscending | .indexQuantile | .returnThreshold | .other _ => none
  -- steps of `link_density_function` are interpreted by `ldfRun`
  | .histogramAll | .histToFloat | .histNormalise | .allocResult | .cumulativeLoop | .returnLdf => none

def execList (call : List Stmt → Frame → Option Frame) (hil : Bool) :
    List Stmt → Frame → Option Frame
  | [], fr => some fr
  | s :: rest, fr =>
    match execStmt call hil fr s with
    | none => none
    | some (fr', true) => some fr'
    | some (fr', false) => execList call hil rest fr'

/-- run a method body; `fuel` bounds the depth of nested method calls -/
def run : Nat → Bool → List Stmt → Frame → Option Frame
  | 0, _, _, _ => none
  | fuel + 1, hil, body, fr => execList (run fuel hil) hil body fr

end Pyunicorn.Similarity.Script
