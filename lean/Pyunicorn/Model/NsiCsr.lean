/-
C20 round 5e — how `Network.nsi_betweenness` / `Network._nsi_betweenness` (core/network.py) build
the arguments of the kernel `_nsi_betweenness` from the adjacency matrix the `Network` holds.

The statements are *parameters* (`Src`): the translator `translate/c20_py.py: nsi_betw_terms` reads
them out of the current source (`Generated.StructC20Py.nsib_*`); `nsiArgs` evaluates exactly the
texts it knows (`knownSrc`) and answers `none` ("cannot evaluate") for any other text.

What the known texts do (`build`):
  * `is_source = np.zeros(self.N, dtype=MASK)` (+ in-place marks)            → length `N`
  * `targets = np.array(list(map(int, targets)))` | `np.arange(0, self.N)`     → given | `0..N-1`
  * `k = to_cy(self.outdegree(), DEGREE)`, `outdegree` = `sp_A.toarray().sum(axis=1)` → row sums
  * `w = to_cy(self.node_weights, DWEIGHT)` (`np.ones_like(w)` if not `nsi`)  → length `N`
    (the setter of `node_weights` rejects any other length: modelled, not re-derived)
  * `links = nz_coords(self.sp_A)` = `np.array(matrix.nonzero()).T`: coordinates of the non-zero
    entries **row by row, columns ascending** (SciPy's `nonzero` of the CSC matrix sorts them; pinned
    by the deterministic tie on captured calls), `flat_neighbors = links[:, 1]` → the column indices
  * `partial(_nsi_betweenness, self.N, w, k, flat_neighbors, is_source)` then `worker(targets)`
The `assert k.sum() == len(flat_neighbors) == 2 * self.n_links` only *rejects* calls (it is gone
under `python -O`); the theorem does not use it.

Core Lean only (the driver links this file).
-/
import Pyunicorn.Model.NsiIdx
namespace Pyunicorn.NsiCsr

/-- the source texts the construction is read from -/
structure Src where
  pub : List String
  worker : List String
  outdegree : String
  nzCoords : String
deriving DecidableEq, Repr

/-- the texts this model knows how to evaluate -/
def knownSrc : Src where
  pub :=
    ["is_source = np.zeros(self.N, dtype=MASK)",
     "if sources is not None:\n    is_source[sources] = 1\nelse:\n    is_source[range(0, self.N)] = 1",
     "if targets is not None:\n    targets = np.array(list(map(int, targets)))\nelse:\n    targets = np.arange(0, self.N)",
     "return self._nsi_betweenness(tuple(is_source), tuple(targets), nsi, parallelize)"]
  worker :=
    ["assert all((isinstance(arg, tuple) for arg in [is_source, targets]))",
     "is_source = np.array(is_source, dtype=MASK)",
     "targets = np.array(targets, dtype=NODE)",
     "k = to_cy(self.outdegree(), DEGREE)",
     "w = to_cy(self.node_weights, DWEIGHT)",
     "w = w if nsi else np.ones_like(w)",
     "links = nz_coords(self.sp_A)",
     "flat_neighbors = to_cy(np.array(links)[:, 1], NODE)",
     "assert k.sum() == len(flat_neighbors) == 2 * self.n_links",
     "worker = partial(_nsi_betweenness, self.N, w, k, flat_neighbors, is_source)"]
  outdegree := "self.sp_A.toarray().sum(axis=1).T.astype(int)"
  nzCoords := "np.array(matrix.nonzero()).T"

/-- `sp_A.toarray().sum(axis=1)` -/
def rowSums (A : List (List Nat)) : List Nat := A.map List.sum

/-- column indices (counted from `c`) of the non-zero entries of one row, ascending -/
def nzFrom : Nat → List Nat → List Nat
  | _, [] => []
  | c, x :: r => if x ≠ 0 then c :: nzFrom (c + 1) r else nzFrom (c + 1) r

/-- `np.array(nz_coords(sp_A))[:, 1]`: column index of every non-zero entry, row by row -/
def nzCols (A : List (List Nat)) : List Nat := (A.map (nzFrom 0)).flatten

/-- what the kernel is handed: `N`, `k`, `flat_neighbors`, `len(w)`, `len(is_source)`, `targets` -/
structure Args where
  N : Nat
  k : List Nat
  nbr : List Nat
  wlen : Nat
  slen : Nat
  targets : List Nat
deriving DecidableEq, Repr

/-- the construction of the known texts (`tg = none`: the default `targets=None`) -/
def build (A : List (List Nat)) (tg : Option (List Nat)) : Args :=
  let N := A.length
  ⟨N, rowSums A, nzCols A, N, N, match tg with | some t => t | none => List.range N⟩

/-- the arguments `Network.nsi_betweenness(targets=tg)` hands to `_nsi_betweenness` on a network
with adjacency `A`, read off the texts `src`; `none` = a text this model cannot evaluate -/
def nsiArgs (src : Src) (A : List (List Nat)) (tg : Option (List Nat)) : Option Args :=
  if src = knownSrc then some (build A tg) else none

/-- a legal adjacency of an undirected `Network`: square, entries 0 / 1, symmetric -/
def adjOK (A : List (List Nat)) : Bool :=
  A.all (fun r => decide (r.length = A.length) && r.all (fun x => decide (x ≤ 1)))
  && (List.range A.length).all (fun i => (List.range A.length).all (fun j =>
        decide ((A.getD i []).getD j 0 = (A.getD j []).getD i 0)))

end Pyunicorn.NsiCsr
