/-
Model of the grid geometry code (property C12).  Core Lean only (no Mathlib) so
that the driver links as an executable.

Anchors (pyunicorn working tree):
* `core/_ext/numerics.pyx:569-590`  `_calculate_angular_distance`
* `core/_ext/numerics.pyx:593-607`  `_calculate_euclidean_distance`
* `core/geo_grid.py:387-421`        `GeoGrid.angular_distance` (+ `cos_lat` … `sin_lon`)
* `core/grid.py:286-315`            `Grid.euclidean_distance`
* `core/grid.py:180-245`            `coord_sequence_from_rect_grid`, `Grid.node_number`
* `core/geo_grid.py:280-320`        `GeoGrid.node_number`
* `core/geo_network.py:90-116`      `set_node_weight_type`
* `core/geo_network.py:381-465`     `(in|out)area_weighted_connectivity`

Everything is polymorphic in the number type: the same definitions are executed
over `Rat` (exact correspondence at the kernel boundary on dyadic inputs), over
`Float` (end-to-end comparison under the property's tolerances) and are the
subject of the theorems over `ℝ` (`Properties/C12.lean`).
-/
namespace Pyunicorn.Geo

/-! ### matrices as total functions; the symmetric triangular fill -/

/-- the assignment `M[i, j] = v` -/
def upd {α : Type} (M : Nat → Nat → α) (i j : Nat) (v : α) : Nat → Nat → α :=
  fun a b => if a = i ∧ b = j then v else M a b

/-- the index pairs visited by `for i in range(N): for j in range(i+1):`, in order -/
def pairs (N : Nat) : List (Nat × Nat) :=
  (List.range N).flatMap fun i => (List.range (i + 1)).map fun j => (i, j)

/-- loop body `expr = f i j; M[i, j] = M[j, i] = expr` over all visited pairs -/
def fillSym {α : Type} (N : Nat) (f : Nat → Nat → α) (M : Nat → Nat → α) : Nat → Nat → α :=
  (pairs N).foldl (fun M p => let e := f p.1 p.2; upd (upd M p.1 p.2 e) p.2 p.1 e) M

/-- read out the `N × N` block row-major -/
def toLists {α : Type} (N : Nat) (M : Nat → Nat → α) : List (List α) :=
  (List.range N).map fun i => (List.range N).map fun j => M i j

section Kernels
variable {α : Type} [Add α] [Mul α] [Sub α] [Neg α] [OfNat α 0] [OfNat α 1]
  [LT α] [DecidableLT α]

/-- round 5 — the `N × N` block a symmetric fill with body `f` leaves behind, computed cell by
cell (`fillSym_block`: it *is* `toLists N (fillSym N f M)`).  Reading the block out of the
closure `fillSym N f M` costs `O(N⁴)`; this costs `O(N²)` and lets the driver answer for grids
beyond the range of 8-bit counters. -/
def symBlock {β : Type} (N : Nat) (f : Nat → Nat → β) : List (List β) :=
  (List.range N).map fun a => (List.range N).map fun b => f (max a b) (min a b)

/-- `sin_lat[i]*sin_lat[j] + cos_lat[i]*cos_lat[j] * (sin_lon[i]*sin_lon[j] + cos_lon[i]*cos_lon[j])` -/
def cosExpr (sl cl sn cn : Nat → α) (i j : Nat) : α :=
  sl i * sl j + cl i * cl j * (sn i * sn j + cn i * cn j)

/-- `if expr > 1: expr = 1 elif expr < -1: expr = -1` -/
def clamp (e : α) : α := if 1 < e then 1 else if e < -1 then -1 else e

/-- `_calculate_angular_distance` applied to a zero-initialised matrix:
the matrix of clamped cosines -/
def cosAngKernel (sl cl sn cn : Nat → α) (N : Nat) : Nat → Nat → α :=
  fillSym N (fun i j => clamp (cosExpr sl cl sn cn i j)) (fun _ _ => 0)

/-- `expr = 0; for k in range(N_dim): expr += (x[k,i]-x[k,j])**2` -/
def sumsq (x : Nat → Nat → α) (d i j : Nat) : α :=
  (List.range d).foldl (fun acc k => acc + (x k i - x k j) * (x k i - x k j)) 0

/-- `_calculate_euclidean_distance` on a zero-initialised matrix; `sqrt` is the
operation `expr ** 0.5` -/
def euclKernel (sqrt : α → α) (x : Nat → Nat → α) (d N : Nat) : Nat → Nat → α :=
  fillSym N (fun i j => sqrt (sumsq x d i j)) (fun _ _ => 0)

/-! ### nearest-node lookup -/

/-- `ndarray.argmin` on non-NaN data: scan keeping the first strict minimum -/
def argminAux (best : α) (bi k : Nat) : List α → Nat
  | [] => bi
  | x :: xs => if x < best then argminAux x k (k + 1) xs else argminAux best bi (k + 1) xs

/-- `none` models numpy's `ValueError` on an empty sequence -/
def argminFirst : List α → Option Nat
  | [] => none
  | x :: xs => some (argminAux x 0 1 xs)

/-- squared distance of node `i` to the query point `q` (`diff = space.T - x; sum(diff**2, axis=1)`) -/
def qsumsq (x : Nat → Nat → α) (q : Nat → α) (d i : Nat) : α :=
  (List.range d).foldl (fun acc k => acc + (x k i - q k) * (x k i - q k)) 0

/-- `Grid.node_number` -/
def gridNodeNumber (sqrt : α → α) (x : Nat → Nat → α) (q : Nat → α) (d N : Nat) : Option Nat :=
  argminFirst ((List.range N).map fun i => sqrt (qsumsq x q d i))

/-- the two masked assignments of `GeoGrid.node_number`, in the order of the source:
`expr[expr < -1.] = -1.` and then `expr[expr > 1.] = 1.` (the second mask is
evaluated on the array the first one has already modified) -/
def clampMask (e : α) : α :=
  let e1 := if e < -1 then -1 else e
  if 1 < e1 then 1 else e1

/-- `GeoGrid.node_number` from the node's and the query point's sines / cosines -/
def geoNodeNumber (arccos : α → α) (sl cl sn cn : Nat → α) (slv clv snv cnv : α) (N : Nat) :
    Option Nat :=
  argminFirst ((List.range N).map fun i =>
    arccos (clampMask (sl i * slv + cl i * clv * (sn i * snv + cn i * cnv))))

end Kernels

/-! ### transcendental operations -/

structure Trig (α : Type) where
  sin : α → α
  cos : α → α
  arccos : α → α
  sqrt : α → α
  /-- degrees to radians, `x * np.pi / 180` -/
  rad : α → α

section Geo
variable {α : Type} [Add α] [Mul α] [Sub α] [Neg α] [Div α] [OfNat α 0] [OfNat α 1]
  [LT α] [DecidableLT α] [DecidableEq α]

/-- `GeoGrid.angular_distance`: `arccos` of the kernel's cosine matrix built from
`cos_lat() … sin_lon()` -/
def angularDistance (T : Trig α) (lat lon : Nat → α) (N : Nat) : Nat → Nat → α :=
  let M := cosAngKernel (fun i => T.sin (T.rad (lat i))) (fun i => T.cos (T.rad (lat i)))
    (fun i => T.sin (T.rad (lon i))) (fun i => T.cos (T.rad (lon i))) N
  fun a b => T.arccos (M a b)

/-- `Grid.euclidean_distance` -/
def euclideanDistance (T : Trig α) (x : Nat → Nat → α) (d N : Nat) : Nat → Nat → α :=
  euclKernel T.sqrt x d N

/-- `GeoGrid.node_number(lat_node, lon_node)` -/
def geoGridNodeNumber (T : Trig α) (lat lon : Nat → α) (latq lonq : α) (N : Nat) : Option Nat :=
  geoNodeNumber T.arccos (fun i => T.sin (T.rad (lat i))) (fun i => T.cos (T.rad (lat i)))
    (fun i => T.sin (T.rad (lon i))) (fun i => T.cos (T.rad (lon i)))
    (T.sin (T.rad latq)) (T.cos (T.rad latq)) (T.sin (T.rad lonq)) (T.cos (T.rad lonq)) N

/-- `node_weight_type` of `GeoNetwork.set_node_weight_type` -/
inductive WType | none | surface | irrigation
deriving DecidableEq, Repr

/-- `GeoNetwork.set_node_weight_type` followed by the `node_weights` setter
(`None` → unit weights) -/
def nodeWeights (T : Trig α) (t : WType) (lat : Nat → α) (i : Nat) : α :=
  match t with
  | .surface => T.cos (T.rad (lat i))
  | .irrigation => T.cos (T.rad (lat i)) * T.cos (T.rad (lat i))
  | .none => 1

/-- `Σ_{i<N} f i` as the left fold numpy's `sum`/`dot` denote -/
def sumTo (N : Nat) (f : Nat → α) : α := (List.range N).foldl (fun acc i => acc + f i) 0

/-- `inarea_weighted_connectivity`: `cos_lat.dot(adjacency) / cos_lat.sum()` -/
def inAWC (T : Trig α) (lat : Nat → α) (A : Nat → Nat → α) (N j : Nat) : α :=
  sumTo N (fun i => T.cos (T.rad (lat i)) * A i j) / sumTo N (fun i => T.cos (T.rad (lat i)))

/-- `outarea_weighted_connectivity`: `adjacency.dot(cos_lat) / cos_lat.sum()` -/
def outAWC (T : Trig α) (lat : Nat → α) (A : Nat → Nat → α) (N i : Nat) : α :=
  sumTo N (fun j => A i j * T.cos (T.rad (lat j))) / sumTo N (fun i => T.cos (T.rad (lat i)))

/-- `area_weighted_connectivity` -/
def AWC (T : Trig α) (directed : Bool) (lat : Nat → α) (A : Nat → Nat → α) (N i : Nat) : α :=
  if directed then inAWC T lat A N i + outAWC T lat A N i else inAWC T lat A N i

/-! ### `GeoGrid.convert_lon_coordinates` -/

/-- one step of the loop: `lon - 360.` if `lon > 180.` else `lon` -/
def convertLon1 [OfNat α 180] [OfNat α 360] (l : α) : α := if 180 < l then l - 360 else l

/-- `GeoGrid.convert_lon_coordinates(lon_seq)`: `new = np.empty(self.N)`, then
`for i in range(self.N)` the element `lon_seq[i]` is read — an `IndexError` (`none`)
if the sequence is shorter than the grid; surplus elements are ignored -/
def convertLon [OfNat α 180] [OfNat α 360] (N : Nat) (lon : List α) : Option (List α) :=
  if lon.length < N then none else some ((lon.take N).map convertLon1)

/-! ### link distance measures (`SpatialNetwork`) -/

/-- `ndarray.max()` of a row: `none` models numpy's `ValueError` on a zero-size array -/
def maxRow : List α → Option α
  | [] => none
  | x :: xs => some (xs.foldl (fun m y => if m < y then y else m) x)

/-- `max_link_distance`: `(D * A).max(axis=1)` -/
def maxLinkDist (D A : Nat → Nat → α) (N i : Nat) : Option α :=
  maxRow ((List.range N).map fun j => D i j * A i j)

/-- `_calculate_general_average_link_distance(adjacency, degree, geometry_corrected)`, entry
`i`: `(D * adjacency).sum(axis=1) / degree` where `degree != 0`, else `0`; with
`geometry_corrected` divided by `D.mean(axis=1)` (`nN` is `N` as a number).  `none`
stands for a division by a zero mean (numpy: `nan` / `inf` and a RuntimeWarning). -/
def genALD (D A : Nat → Nat → α) (deg : Nat → α) (N : Nat) (nN : α) (corrected : Bool) (i : Nat) :
    Option α :=
  let ald := if deg i = 0 then 0 else sumTo N (fun j => D i j * A i j) / deg i
  if corrected then
    let mean := sumTo N (fun j => D i j) / nN
    if mean = 0 then none else some (ald / mean)
  else some ald

/-- `outaverage_link_distance`: `A = adjacency`, `degree = outdegree()` -/
def outALD (D A : Nat → Nat → α) (N : Nat) (nN : α) (corrected : Bool) (i : Nat) : Option α :=
  genALD D A (fun i => sumTo N (fun j => A i j)) N nN corrected i

/-- `inaverage_link_distance`: `A = adjacency.T`, `degree = indegree()` -/
def inALD (D A : Nat → Nat → α) (N : Nat) (nN : α) (corrected : Bool) (i : Nat) : Option α :=
  genALD D (fun a b => A b a) (fun i => sumTo N (fun j => A j i)) N nN corrected i

/-- `Network.undirected_adjacency`: `sp_A.maximum(sp_A.T)` -/
def undirAdj (A : Nat → Nat → α) (i j : Nat) : α := if A i j < A j i then A j i else A i j

/-- `max_link_distance` of a network with adjacency `A`: `A = undirected_adjacency()` -/
def maxLinkDistNet (D A : Nat → Nat → α) (N i : Nat) : Option α := maxLinkDist D (undirAdj A) N i

/-- `average_link_distance`: `A = undirected_adjacency()`, `degree = degree()` which is
`indegree() + outdegree()` for a directed network and `outdegree()` otherwise -/
def avgALD (directed : Bool) (D A : Nat → Nat → α) (N : Nat) (nN : α) (corrected : Bool) (i : Nat) :
    Option α :=
  genALD D (undirAdj A)
    (fun i => if directed then sumTo N (fun j => A j i) + sumTo N (fun j => A i j)
              else sumTo N (fun j => A i j)) N nN corrected i

end Geo

/-! ### rectangular grids: `np.meshgrid(*axes)` (default `indexing='xy'`) and `flatten('F')` -/

/-- `meshgrid(indexing='xy')` swaps the first two axes of the output shape -/
def swap01 {γ : Type} : List γ → List γ
  | a :: b :: r => b :: a :: r
  | l => l

/-- Fortran-order unravelling: first axis fastest -/
def decodeF : List Nat → Nat → List Nat
  | [], _ => []
  | s :: ss, n => (n % s) :: decodeF ss (n / s)

/-- inverse of `decodeF` -/
def encodeF : List Nat → List Nat → Nat
  | s :: ss, i :: is => i + s * encodeF ss is
  | _, _ => 0

def prod : List Nat → Nat
  | [] => 1
  | s :: ss => s * prod ss

/-- the multi-index (one index per input axis) of node `n` -/
def nodeIdx (sizes : List Nat) (n : Nat) : List Nat := swap01 (decodeF (swap01 sizes) n)

/-- number of nodes of the rectangular grid (`np.meshgrid()` of no axes is `[]`,
and `np.array([])` then has shape `(0,)`; we model that as zero rows) -/
def nNodes (sizes : List Nat) : Nat := prod sizes

/-- `Grid.coord_sequence_from_rect_grid`: row `k` is the coordinate sequence of
dimension `k`; `none` models an index error that cannot occur (see theorem) -/
def rectGrid {β : Type} (axes : List (List β)) : List (List (Option β)) :=
  let sizes := axes.map List.length
  (List.range axes.length).map fun k =>
    (List.range (nNodes sizes)).map fun n =>
      match axes[k]?, (nodeIdx sizes n)[k]? with
      | some ax, some i => ax[i]?
      | _, _ => none

end Pyunicorn.Geo
