import Pyunicorn.Model.Mpi
/-
Round 4 — how the three master loops of `core/network.py` hand their arrays to the chunk
kernels (`Network._mpi_nsi_arenas_betweenness`, `_mpi_newman_betweenness`,
`_mpi_nsi_newman_betweenness`) and how the kernels subscript them.

A kernel is a loop over the nodes `i` of `[start_i, end_i)`.  Some of its parameters are
subscripted (first axis) ONLY by the chunk-relative index `i - start_i` (`this_Aplus`,
`this_w`, `this_twinness`, `this_A`, `this_not_adj_or_equal`) — these must be handed over
as the rows `[start_i:end_i]` of the component's array; the others (`V`, `w`, `sp_P`, `N`)
are used whole.  `translate/gen_C19.py` regenerates both tables (subscripts of every
parameter in the kernel; slice / whole of every element of the argument tuple of
`mpi.submit_call` and of the serial call) from the current source.

The body of one iteration is an arbitrary function: nothing below depends on the
numerical content of the kernels.  Core Lean only.
-/
namespace Pyunicorn.MpiChunk
open Pyunicorn.Mpi

/-- how the kernel subscripts the first axis of a parameter -/
inductive Idx | rel | whole
deriving DecidableEq, Repr

/-- how the caller hands the array over -/
inductive Pass | sliced | whole
deriving DecidableEq, Repr

/-- an array, seen as its rows -/
abbrev Arr (ρ : Type) := Nat → ρ

/-- `X[start_i:end_i, :]` (only the offset matters for reads below `end_i - start_i`) -/
def sliceRows (a : Arr ρ) (s : Nat) : Arr ρ := fun k => a (s + k)

/-- what the kernel's iteration for node `i` sees of argument `p`: the single row
`arg[i - start_i]` if the kernel subscripts `p` chunk-relatively, the whole array otherwise -/
def relView [Inhabited ρ] (idx : Nat → Idx) (args : Nat → Arr ρ) (k : Nat) : Nat → ρ :=
  fun p => if idx p = .rel then args p k else default

def wholeView [Inhabited ρ] (idx : Nat → Idx) (args : Nat → Arr ρ) : Nat → Arr ρ :=
  fun p => if idx p = .rel then (fun _ => default) else args p

/-- one iteration of the outer loop, for node `i` of a chunk starting at `start` -/
def kernelRow [Inhabited ρ] (idx : Nat → Idx) (body : (Nat → ρ) → (Nat → Arr ρ) → Nat → β)
    (args : Nat → Arr ρ) (start i : Nat) : β :=
  body (relView idx args (i - start)) (wholeView idx args) i

/-- shape of the Python kernel: `for i in range(start_i, end_i): … X[i - start_i] …` -/
def chunkKernelAbs [Inhabited ρ] (idx : Nat → Idx) (body : (Nat → ρ) → (Nat → Arr ρ) → Nat → β)
    (args : Nat → Arr ρ) (start stop : Nat) : List β :=
  (List.range' start (stop - start)).map fun i => kernelRow idx body args start i

/-- shape of the Cython kernels: `this_N = end_i - start_i; for i_rel in range(this_N):
i_abs = i_rel + start_i; … X[i_rel] … V[i_abs] …` -/
def chunkKernelRel [Inhabited ρ] (idx : Nat → Idx) (body : (Nat → ρ) → (Nat → Arr ρ) → Nat → β)
    (args : Nat → Arr ρ) (start stop : Nat) : List β :=
  (List.range (stop - start)).map fun iRel =>
    body (relView idx args iRel) (wholeView idx args) (iRel + start)

/-- the argument the master puts into the tuple of `mpi.submit_call` -/
def passArg (m : Pass) (a : Arr ρ) (s : Nat) : Arr ρ :=
  match m with
  | .sliced => sliceRows a s
  | .whole => a

def distArgs (pass : Nat → Pass) (full : Nat → Arr ρ) (s : Nat) : Nat → Arr ρ :=
  fun p => passArg (pass p) (full p) s

/-- the row of the serial call `kernel(…whole arrays…, 0, N)` -/
def serialRow [Inhabited ρ] (idx : Nat → Idx) (body : (Nat → ρ) → (Nat → Arr ρ) → Nat → β)
    (full : Nat → Arr ρ) (i : Nat) : β := kernelRow idx body full 0 i

/-! ### tables regenerated from the source -/

/-- parameter `p` is chunk-relative iff the only first-axis subscript the kernel applies
to it is the relative index (`i - start_i` resp. `i_rel`) -/
def idxOf (params : List String) (subs : List (String × List String)) (rel : String)
    (p : Nat) : Idx :=
  match params[p]? with
  | none => .whole
  | some name => if ((subs.find? (·.1 == name)).map (·.2)).getD [] == [rel] then .rel else .whole

/-- argument `p` is handed over sliced iff every alternative that is not `None` is
`X[start_i:end_i]` (and there is one) -/
def passOf (args : List (List (String × String × String))) (p : Nat) : Pass :=
  match args[p]? with
  | none => .whole
  | some alts =>
    let real := alts.filter (fun a => a.2.2 != "none")
    if !real.isEmpty && real.all (fun a => a.2.2 == "sliced") then .sliced else .whole

/-- the static discipline of one master loop / kernel pair:
* a parameter that is subscripted chunk-relatively anywhere is subscripted *only* so;
* it is handed over sliced `[start_i:end_i]` by the distributed branch exactly when it is
  chunk-relative, never as an unrecognised expression;
* the serial branch hands the same arrays over whole, under the same conditions, with
  `start_i = 0`, `end_i = N`;
* an argument that may be `None` is read by the kernel only under the complementary
  condition. -/
def tablesOk (params : List String) (subs guards : List (String × List String)) (rel : String)
    (dist serial : List (List (String × String × String))) : Bool :=
  dist.length == params.length && serial.length == params.length &&
  (List.range params.length).all fun p =>
    let name := params.getD p ""
    let s := ((subs.find? (·.1 == name)).map (·.2)).getD []
    let g := ((guards.find? (·.1 == name)).map (·.2)).getD []
    let d := dist.getD p []
    let e := serial.getD p []
    (!(s.contains rel) || s == [rel]) &&
    d.all (fun a => a.2.2 != "expr") && e.all (fun a => a.2.2 != "expr") &&
    (if name == "start_i" then d == [("", "start_i", "start")] && e == [("", "0", "whole")]
     else if name == "end_i" then d == [("", "end_i", "end")] && e == [("", "N", "whole")]
     else
       (decide (idxOf params subs rel p = .rel) == decide (passOf dist p = .sliced)) &&
       d.all (fun a => a.2.2 == "sliced" || a.2.2 == "whole" || a.2.2 == "none") &&
       e.all (fun a => a.2.2 == "whole" || a.2.2 == "none") &&
       d.map (fun a => (a.1, a.2.1)) == e.map (fun a => (a.1, a.2.1)) &&
       d.all (fun a => a.2.2 != "none" || g.map (fun c => "not (" ++ c ++ ")") == [a.1]))

/-! ### executable end-to-end models of the two kinds of master loop -/

/-- slice assignment of retrieved chunk results `(start_i, this_betweenness)` -/
def assembleR (zero : α) (N : Nat) (rs : List (Nat × List α)) : List α :=
  rs.foldl (fun acc r => assignSlice acc r.1 r.2) (List.replicate N zero)

/-- `component_betweenness += this_betweenness` over the retrieved partial results -/
def assembleAdd (N : Nat) (rs : List (List Int)) : List Int :=
  rs.foldl addVec (List.replicate N 0)

/-- the additive kernel (`_mpi_nsi_arenas_betweenness`): every iteration adds a length-`N`
vector to `component_betweenness = np.zeros(N)` -/
def addKernel [Inhabited ρ] (idx : Nat → Idx) (body : (Nat → ρ) → (Nat → Arr ρ) → Nat → Nat → Int)
    (N : Nat) (args : Nat → Arr ρ) (start stop : Nat) : List Int :=
  (List.range N).map fun j =>
    ((List.range (stop - start)).map fun k => kernelRow idx body args start (start + k) j).sum

end Pyunicorn.MpiChunk
