import Pyunicorn.Model.NsiRw
import Pyunicorn.Model.NsiBetw
/-
Round 5: `Network.nsi_eigenvector_centrality` (core/network.py), the part of it that is rational
arithmetic, written as the code computes it.

    DwR = self.sp_diag_sqrt_w()
    sp_Astar = DwR * self.sp_Aplus() * DwR
    _, evecs = eigsh(sp_Astar, k=1, sigma=2.0*self.total_node_weight, ...)
    ec = evecs.T[0] / np.sqrt(self.node_weights)
    ec *= np.sign(ec[0])
    return ec / ec.max()

`u` is an eigenvector of `sp_Astar = Dw^½ A⁺ Dw^½` for the eigenvalue `λ` iff `ec = Dw^-½ u` is an
eigenvector of the n.s.i. adjacency matrix `A⁺ Dw` for `λ` (`Lemmas/NsiEig.lean`,
`astar_eig_iff`), so the model speaks about `A⁺ Dw` and `ec` and needs no square roots:

* `nsiAdjApply G x` — `(sp_Aplus * sp_diag_w) x`
* `sgnQ`, `ecNorm`  — the last two lines: multiply by the sign of entry 0, divide by the maximum
* `eigResid`        — `(A⁺ Dw x)_i · x_s − (A⁺ Dw x)_s · x_i` for all `i` (`s` = the first index of
                       a maximal entry): zero iff `x` is an eigenvector with `x_s ≠ 0`; the driver
                       returns it exactly for the vector the implementation returned.
* `isConnected`     — every ordered pair of nodes has a breadth-first distance (`bfsDist`); decides the
                       hypothesis `Connected` of the theorems (`connected_iff_bfs`)
Core Lean only.
-/
namespace Pyunicorn.Nsi

/-- `(sp_Aplus() * sp_diag_w()) x`: row `i` of the n.s.i. adjacency matrix applied to `x` -/
def nsiAdjApply (G : Gr) (x : Nat → Rat) (i : Nat) : Rat :=
  sumR G.n fun j => aplus G i j * G.w j * x j

/-- `np.sign` -/
def sgnQ (a : Rat) : Rat := if 0 < a then 1 else if a < 0 then -1 else 0

/-- `ec *= np.sign(ec[0]); return ec / ec.max()` -/
def ecNorm (n : Nat) (y : Nat → Rat) (i : Nat) : Rat :=
  sgnQ (y 0) * y i / maxList ((List.range n).map fun k => sgnQ (y 0) * y k)

/-- index of the first maximal entry among `0 … n-1` (0 on the empty range) -/
def argmaxQ (n : Nat) (x : Nat → Rat) : Nat :=
  (List.range n).foldl (fun s k => if x s < x k then k else s) 0

/-- cross-multiplied eigen-residual (no division): `(Mx)_i x_s − (Mx)_s x_i` -/
def eigResid (G : Gr) (x : Nat → Rat) : List Rat :=
  let s := argmaxQ G.n x
  (List.range G.n).map fun i => nsiAdjApply G x i * x s - nsiAdjApply G x s * x i

/-- every ordered pair of nodes is joined by a walk, decided by the model's breadth-first search -/
def isConnected (G : Gr) : Bool :=
  (List.range G.n).all fun a => (List.range G.n).all fun b => (bfsDist G a b).isSome

end Pyunicorn.Nsi
