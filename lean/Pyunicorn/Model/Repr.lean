/-!
# Model of the representations of a `Network` (property C05)

Core Lean only.  Models, statement by statement, the code anchored in
`core/network.py` (`adjacency.setter`, `set_edge_list`, `node_weights.setter`,
`copy`, `undirected_copy`, `save`/`Load`, `FromIGraph`, `link_attribute`,
`set_link_attribute`), `core/spatial_network.py` / `core/geo_network.py`
(`Load`, `set_node_weight_type`).

scipy / igraph are modelled as their documented operations:

* a sparse matrix is its shape and the list of *stored* entries
  (`Sparse`); a COO matrix may store a coordinate repeatedly, `tocsc()` sums
  repeated coordinates (`canon`), `nonzero()` lists the coordinates of the
  stored entries with non-zero value — with multiplicity (`nzCoords`);
* `igraph.Graph(n, edges, directed).simplify()` is the set of non-loop edges,
  undirected edges normalised to `(smaller, larger)` (`graphEdges`), listed in
  row-major order (the harness sorts what igraph returns; the order of the edge ids of an
  adopted graph object, the per-edge loops over it and `igraph.Graph(n, edges)` itself are
  modelled in `Model/ReprEdges.lean`);
* a file format is a function `IGraph → IGraph` (`saveLoad`).
-/
namespace Pyunicorn.Repr

inductive Err where
  | networkError | zeroDivision | valueError | indexError
  deriving DecidableEq, Repr

abbrev Entry := Nat × Nat × Int

/-- a scipy sparse matrix as stored -/
structure Sparse where
  rows : Nat
  cols : Nat
  ents : List Entry
  deriving DecidableEq, Repr

/-- all index pairs of an `m × n` matrix, row-major -/
def pairs (m n : Nat) : List (Nat × Nat) :=
  (List.range m).flatMap fun i => (List.range n).map fun j => (i, j)

def swap (p : Nat × Nat) : Nat × Nat := (p.2, p.1)

/-- value of a sparse matrix at `(i, j)`: the sum of the entries stored there -/
def valAt (es : List Entry) (i j : Nat) : Int :=
  ((es.filter fun e => e.1 == i && e.2.1 == j).map fun e => e.2.2).sum

/-- is anything stored at `(i, j)`? -/
def hasAt (es : List Entry) (i j : Nat) : Bool :=
  es.any fun e => e.1 == i && e.2.1 == j

/-- `tocsc()`: one stored entry per stored coordinate, duplicates summed -/
def canon (s : Sparse) : Sparse :=
  { s with ents := (pairs s.rows s.cols).filterMap fun p =>
      if hasAt s.ents p.1 p.2 then some (p.1, p.2, valAt s.ents p.1 p.2) else none }

/-- `sp_A.data[:] = 1` -/
def setOnes (s : Sparse) : Sparse :=
  { s with ents := s.ents.map fun e => (e.1, e.2.1, 1) }

/-- `np.array(matrix.nonzero()).T` -/
def nzCoords (s : Sparse) : List (Nat × Nat) :=
  (s.ents.filter fun e => e.2.2 != 0).map fun e => (e.1, e.2.1)

/-- `sp.csc_matrix(np.array(dense))`: the non-zero cells -/
def ofDenseMat (m n : Nat) (a : Nat → Nat → Int) : Sparse :=
  ⟨m, n, (pairs m n).filterMap fun p =>
    if a p.1 p.2 != 0 then some (p.1, p.2, a p.1 p.2) else none⟩

/-- COO matrix with a one per listed coordinate -/
def cooOnes (n : Nat) (edges : List (Nat × Nat)) : Sparse :=
  ⟨n, n, edges.map fun p => (p.1, p.2, 1)⟩

/-- `igraph.Graph(n, edges, directed)` followed by `simplify()` -/
def graphEdges (directed : Bool) (n : Nat) (coords : List (Nat × Nat)) : List (Nat × Nat) :=
  (pairs n n).filter fun p =>
    if directed then p.1 != p.2 && coords.contains p
    else decide (p.1 < p.2) && (coords.contains p || coords.contains (swap p))

/-- `1.0 * n_links / N / (N - 1)` (a hand-written copy of what `gen_arith`
generates from the source; `Properties/C05` proves the two equal) -/
def linkDensity (nLinks N : Int) : Rat :=
  ((nLinks : Rat) / (N : Rat)) / ((N - 1 : Int) : Rat)

/-- the observable state of a `Network` object -/
structure Net where
  directed : Bool
  N : Nat
  nLinks : Nat
  density : Rat
  /-- dense view of `sp_A` -/
  spA : List (List Int)
  /-- edge list of the embedded igraph object -/
  graph : List (Nat × Nat)
  /-- values of the (one modelled) link attribute, aligned with `graph` -/
  eattr : Option (List Rat)
  w : List Rat
  total : Rat
  mean : Rat
  /-- vertex attribute `node_weight_nsi` of the embedded igraph object: absent on a
  graph the adjacency setter has just created; written by `save`; whatever the
  object handed to `FromIGraph` / read by `Load` carried -/
  gvw : Option (List Rat) := none
  deriving DecidableEq, Repr

def Net.blank (directed : Bool) (n : Nat) : Net :=
  ⟨directed, n, 0, 0, [], [], none, [], 0, 0, none⟩

def Net.at (net : Net) (i j : Nat) : Int :=
  match net.spA[i]? with
  | some row => match row[j]? with
    | some v => v
    | none => 0
  | none => 0

/-- `adjacency.setter` (network.py:380-425) applied to a sparse matrix -/
def setAdjacency (net : Net) (s : Sparse) : Except Err Net :=
  if s.rows != s.cols then .error .networkError          -- "Adjacency must be square!"
  else
    let n := s.cols
    let edges := nzCoords s                                -- nz_coords(adjacency)
    let nl := edges.length                                 -- edges.shape[0]
    if n == 0 || n == 1 then .error .zeroDivision          -- / N / (N - 1)
    else
      .ok { net with
        N := n
        spA := (List.range n).map fun i => (List.range n).map fun j => valAt s.ents i j
        density := linkDensity nl n
        nLinks := if net.directed then nl else nl / 2      -- n_links //= 2
        graph := graphEdges net.directed n edges   -- a new igraph object:
        eattr := none                              -- no edge attributes,
        gvw := none }                              -- no vertex attributes

/-- `node_weights.setter` (network.py:464-494) -/
def setWeights (net : Net) (w : Option (List Rat)) : Except Err Net :=
  match w with
  | none =>
    let w := List.replicate net.N (1 : Rat)
    .ok { net with w := w, mean := w.sum / (net.N : Rat), total := w.sum }
  | some w =>
    if w.length != net.N then .error .networkError         -- "Incorrect number of node weights!"
    else .ok { net with w := w, mean := w.sum / (net.N : Rat), total := w.sum }

/-- `N = edges.max() + 1` -/
def maxNode (edges : List (Nat × Nat)) : Nat :=
  edges.foldl (fun m p => max m (max p.1 p.2)) 0

/-- `set_edge_list` (network.py:427-457) -/
def setEdgeList (net : Net) (edges : List (Nat × Nat)) (nNodes : Option Nat) : Except Err Net :=
  let n? : Option Nat := match nNodes with
    | some n => some n
    | none => if edges.isEmpty then none else some (maxNode edges + 1)
  match n? with
  | none => .error .valueError                             -- max of an empty array
  | some n =>
    let edges' := if net.directed then edges else edges ++ edges.map swap
    if edges'.any fun p => decide (n ≤ p.1) || decide (n ≤ p.2) then
      .error .valueError                                   -- coo_matrix: index exceeds dimensions
    else setAdjacency net (setOnes (canon (cooOnes n edges')))

/-- what a constructor can be given -/
inductive Input where
  | sparse (s : Sparse)
  | edges (es : List (Nat × Nat)) (nNodes : Option Nat)

/-- the `if adjacency is not None … elif edge_list is not None …` of `__init__` -/
def construct (net0 : Net) (inp : Input) : Except Err Net :=
  match inp with
  | .sparse s => setAdjacency net0 s
  | .edges es n => setEdgeList net0 es n

/-- `self.N = n_nodes` if given, else 0 -/
def Input.n0 : Input → Nat
  | .edges _ (some n) => n
  | _ => 0

/-- `Network.__init__` -/
def init (directed : Bool) (inp : Input) (w : Option (List Rat)) : Except Err Net := do
  let net1 ← construct (Net.blank directed inp.n0) inp
  setWeights net1 w

/-- the sparse matrix `self.sp_A` (canonical, no explicit zeros) -/
def Net.sparse (net : Net) : Sparse := ofDenseMat net.N net.N net.at

/-! ### link attributes -/

/-- value of the last edge of the graph object that satisfies `pred` -/
def lastVal (es : List (Nat × Nat)) (vs : List Rat) (pred : Nat × Nat → Bool) : Option Rat :=
  ((es.zip vs).reverse.find? fun q => pred q.1).map fun q => q.2

/-- `link_attribute(name)` (network.py:1247-1267): zeros, then for every edge
`e` of the graph object in order `W[e.tuple] = e[name]` (and the transposed
cell when undirected); `none` = `KeyError` (the attribute does not exist — which
only an existing edge can notice) -/
def linkAttr (net : Net) : Option (Nat → Nat → Rat) :=
  if net.graph.isEmpty then some fun _ _ => 0
  else net.eattr.map fun vs i j =>
    match lastVal net.graph vs (fun e => e == (i, j) || (!net.directed && e == (j, i))) with
    | some x => x
    | none => 0

/-- `set_link_attribute(name, values)` (network.py:1280-1298) -/
def setLinkAttr (net : Net) (v : Nat → Nat → Rat) : Net :=
  { net with eattr := some (net.graph.map fun e => v e.1 e.2) }

/-! ### copies -/

/-- `copy()` (network.py:250-262, with the link attributes) -/
def copy (net : Net) : Except Err Net := do
  let c ← init net.directed (.sparse net.sparse) (some net.w)
  match net.eattr, linkAttr net with          -- for a in self.graph.es.attributes()
  | some _, some f => pure (setLinkAttr c f)
  | _, _ => pure c

/-- `undirected_copy()`: adjacency `sp_A.maximum(sp_A.T)`, `directed=False` -/
def undirectedCopy (net : Net) : Except Err Net :=
  init false (.sparse (ofDenseMat net.N net.N fun i j => max (net.at i j) (net.at j i)))
    (some net.w)

/-! ### igraph objects, `FromIGraph`, `save` / `Load` -/

structure IGraph where
  n : Nat
  directed : Bool
  edges : List (Nat × Nat)
  /-- vertex attribute `node_weight_nsi` -/
  vw : Option (List Rat)
  /-- the modelled edge attribute -/
  ea : Option (List Rat)
  deriving DecidableEq, Repr

/-- `Network.FromIGraph` (network.py:602-648) -/
def fromIGraph (g : IGraph) : Except Err Net := do
  let edges' := if g.directed then g.edges else g.edges ++ g.edges.map swap
  let net ← init g.directed (.sparse (cooOnes g.n edges')) g.vw
  pure { net with graph := g.edges, eattr := g.ea, gvw := g.vw }      -- net.graph = graph

/-- what `save` hands to `igraph.Graph.write`: the embedded graph with the node
weights stored as vertex attribute `node_weight_nsi` -/
def toIGraph (net : Net) : IGraph :=
  ⟨net.N, net.directed, net.graph, some net.w, net.eattr⟩

/-- `Network.Load(save(...))` through a file format `store` -/
def saveLoad (store : IGraph → IGraph) (net : Net) : Except Err Net :=
  fromIGraph (store (toIGraph net))

/-- what comes back from a GML file: igraph's GML writer removes the
underscores from attribute names, so neither `node_weight_nsi` nor the link
attribute is found under its name after reading -/
def gmlStore (g : IGraph) : IGraph := { g with vw := none, ea := none }

/-! ### operations on a live object; histories -/

/-- the embedded igraph object `net.graph` with everything it carries -/
def graphOf (net : Net) : IGraph :=
  ⟨net.N, net.directed, net.graph, net.gvw, net.eattr⟩

/-- `save(filename, format)` (network.py:520-567): the node weights are stored on
the embedded graph object — a side effect that stays on the live object — and
that graph is written.  Returns the object afterwards and what was written. -/
def save (net : Net) : Net × IGraph :=
  let net' := { net with gvw := some net.w }
  (net', graphOf net')

/-- `del_link_attribute(name)` -/
def delLinkAttr (net : Net) : Net := { net with eattr := none }

/-- one statement of a history on a live object -/
inductive Op where
  /-- `net.node_weights = w` -/
  | setW (w : Option (List Rat))
  /-- `net.set_link_attribute(name, V)` -/
  | setAttr (v : Nat → Nat → Rat)
  /-- `net.del_link_attribute(name)` -/
  | delAttr
  /-- `net.adjacency = A` -/
  | setAdj (s : Sparse)
  /-- `net.save(f, fmt)` (the file is not used) -/
  | save
  /-- `net.save(f, fmt); net = Network.Load(f, fmt)` -/
  | reload
  /-- `net = net.copy()` -/
  | copy
  /-- `net = Network.FromIGraph(net.graph)` -/
  | regraph

def step (store : IGraph → IGraph) (net : Net) : Op → Except Err Net
  | .setW w => setWeights net w
  | .setAttr v => .ok (setLinkAttr net v)
  | .delAttr => .ok (delLinkAttr net)
  | .setAdj s => setAdjacency net s
  | .save => .ok (save net).1
  | .reload => fromIGraph (store (save net).2)
  | .copy => copy net
  | .regraph => fromIGraph (graphOf net)

/-- a history: the statements executed in order, each on the object the previous one left -/
def run (store : IGraph → IGraph) (net : Net) : List Op → Except Err Net
  | [] => .ok net
  | op :: ops => match step store net op with
    | .ok net' => run store net' ops
    | .error e => .error e

/-- `graph.get_adjacency()` -/
def igAdj (g : IGraph) (i j : Nat) : Int :=
  if g.directed then (g.edges.count (i, j) : Int)
  else (g.edges.count (i, j) : Int) + (if i == j then 0 else (g.edges.count (j, i) : Int))

/-- `net.node_weights = …` guarded by a condition (`none` = the assignment is skipped) -/
def assignWeights (net : Net) (w : Option (Option (List Rat))) : Except Err Net :=
  match w with
  | some w => setWeights net w
  | none => .ok net

/-- `SpatialNetwork.Load` / `GeoNetwork.Load` after reading the graph
(spatial_network.py:177-200, geo_network.py:167-190): rebuilt from the dense
adjacency matrix; `geoW` are the weights `GeoNetwork.__init__` sets before the
stored ones are assigned (`none` for `SpatialNetwork`) -/
def loadViaAdjacency (g : IGraph) (geoW : Option (Option (List Rat))) : Except Err Net := do
  let net ← init g.directed (.sparse (ofDenseMat g.n g.n (igAdj g))) none
  let net ← assignWeights net geoW
  let net ← assignWeights net (g.vw.map some)       -- if "node_weight_nsi" in attribute names
  pure { net with graph := g.edges, eattr := g.ea, gvw := g.vw }  -- net.graph = graph

def pow2 (k : Int) : Rat :=
  if k ≥ 0 then ((2 ^ k.toNat : Nat) : Rat) else 1 / ((2 ^ (-k).toNat : Nat) : Rat)

/-- IEEE-754 single precision (normal range): the `float32` nearest to a rational,
ties to even.  `grid.cos_lat()` is a `float32` array and `np.square` of it is the
correctly rounded product in `float32`. -/
def roundF32 (q : Rat) : Rat :=
  if q == 0 then 0 else
    let a : Rat := if q < 0 then -q else q
    let e0 : Int := (Nat.log2 a.num.natAbs : Int) - (Nat.log2 a.den : Int)
    let e : Int := if a < pow2 e0 then e0 - 1 else e0        -- 2^e ≤ a < 2^(e+1)
    let s : Int := 23 - e
    let x : Rat := a * pow2 s                                -- 2^23 ≤ x < 2^24
    let f : Int := x.floor
    let r : Rat := x - (f : Rat)
    let m : Int := if r < 1 / 2 then f else if r > 1 / 2 then f + 1
                   else if f % 2 == 0 then f else f + 1
    let v : Rat := (m : Rat) / pow2 s
    if q < 0 then -v else v

/-- `GeoNetwork.set_node_weight_type` (geo_network.py:90-118): 1 = "surface"
(`cos_lat`, a `float32` array handed over as exact rationals), 2 = "irrigation"
(`np.square(cos_lat)`, rounded to `float32`), anything else = unit weights -/
def geoWeights (cosLat : List Rat) (wtype : Nat) : Option (List Rat) :=
  if wtype == 1 then some cosLat
  else if wtype == 2 then some (cosLat.map fun c => roundF32 (c * c))
  else none

/-- `GeoNetwork.__init__` -/
def geoInit (directed : Bool) (inp : Input) (cosLat : List Rat) (wtype : Nat) : Except Err Net := do
  let net ← init directed inp none
  setWeights net (geoWeights cosLat wtype)

end Pyunicorn.Repr
