import Pyunicorn.Model.Nsi
/-
n.s.i. shortest-path betweenness (`Network.nsi_betweenness`, `nsi_interregional_betweenness`,
`InteractingNetworks.nsi_cross_betweenness`; kernel `_nsi_betweenness`, numerics.pyx:398-494)
at the level of its DEFINITION: weighted counts of shortest walks.

  BC*_i = Σ_{s ∈ S, t ∈ T, s ≠ i ≠ t}  w_s w_t · n*_st(i) / (w_i · n*_st)

where `n*_st` is the sum over all shortest walks `s = x_0, x_1, …, x_d = t` of the product of
the node weights along the walk and `n*_st(i)` the same sum restricted to the walks through
`i` (the weights of the end points cancel in the quotient; `n*_st(i) / w_i` carries the
product of the weights of the nodes other than `i`).  A walk of length `dist s t` *is* a
shortest path, so the weighted count is the transfer-matrix recursion `wcount`.
Core Lean only.
-/
namespace Pyunicorn.Nsi

/-- weighted number of walks of length `k` from `a` to `b`: the sum over all walks
`a = x_0, x_1, …, x_k = b` along links of `Π_{m ≥ 1} w_{x_m}` (start excluded, end included) -/
def wcount (G : Gr) : Nat → Nat → Nat → Rat
  | 0, a, b => if a = b then 1 else 0
  | k + 1, a, b =>
      ((List.range G.n).map fun c => G.w c * (if G.adj a c = true then wcount G k c b else 0)).sum

/-- contribution of the pair `(s, t)` to the betweenness of `i` (without the factor
`w_s w_t`): `n*_st(i) / (w_i n*_st)` if `i` lies on a shortest path from `s` to `t`
(`d(s,i) + d(i,t) = d(s,t)`), else 0 -/
def bcTerm (G : Gr) (i s t : Nat) : Rat :=
  match G.dist s i, G.dist i t, G.dist s t with
  | some d1, some d2, some d =>
      if d1 + d2 = d then wcount G d1 s i * wcount G d2 i t / (G.w i * wcount G d s t) else 0
  | _, _, _ => 0

/-- n.s.i. betweenness of node `i` for source set `S` and target set `T` -/
def nsiBetw (G : Gr) (S T : Nat → Bool) (i : Nat) : Rat :=
  ((List.range G.n).map fun s => G.w s * ((List.range G.n).map fun t => G.w t *
    (if s ≠ i ∧ t ≠ i ∧ S s = true ∧ T t = true then bcTerm G i s t else 0)).sum).sum

/-- breadth-first layers computed inside the model (so the driver does not depend on the
distances the harness sends): entry `a` of `toSet G b k` = there is a walk of length `k` from
`a` to `b` -/
def toSet (G : Gr) (b : Nat) : Nat → List Bool
  | 0 => (List.range G.n).map fun a => decide (a = b)
  | k + 1 =>
      let prev := toSet G b k
      (List.range G.n).map fun a => (List.range G.n).any fun c => G.adj a c && prev.getD c false

/-- the least `k ≤ n` with a walk of length `k` from `a` to `b` -/
def bfsDist (G : Gr) (a b : Nat) : Option Nat :=
  (List.range (G.n + 1)).find? fun k => (toSet G b k).getD a false

/-- all breadth-first distances, materialised once -/
def bfsTable (G : Gr) : List (List (Option Nat)) :=
  (List.range G.n).map fun a => (List.range G.n).map fun b => bfsDist G a b

/-- the graph with its own breadth-first distances installed as `dist` (round 4: this is what
the driver evaluates the definition on, and `bfs_distances_are_shortest_paths` proves that it
is the shortest-path length, so `nsi_betweenness_split_bfs` needs no distance hypothesis) -/
def withBfs (G : Gr) : Gr :=
  let tab := bfsTable G
  { G with dist := fun a b => (tab.getD a []).getD b none }

end Pyunicorn.Nsi
