import Pyunicorn.Model.LineDistSeq
/-!
C08, round 5.  **The public RQA methods as wholes, in every storage / missing-value mode**, for a
`RecurrencePlot(..., metric="supremum", threshold=eps)` (recurrence_plot.py:824-954, 1118-1172,
1314-1342): the Python layer around the kernels regenerated from `numerics.pyx` —

* the dispatch on `sparse_rqa` / `missing_values`,
* `diagline_dist()`: one triangle scanned; doubled (`2 * diagline`) unless
  `np.array_equal(recmat, recmat.T)` fails, in which case the second triangle is counted on the
  transposed matrix; in sequential mode always doubled,
* `vertline_dist()`, `white_vertline_dist()` (raises in sequential mode),
* `recurrence_rate()`: `R.sum()` in matrix mode; in sequential mode `Σ l·P_v(l)`, and with
  `missing_values` the plain sequential kernel on the rows of the embedding without NaN
  (`self.embedding[~self.missing_value_indices]`, repair f8b6262).

The arithmetic is the double arithmetic `xOps rnd` of round 4.  Core Lean only.
-/
namespace Pyunicorn.LineDist
open Pyunicorn.Generated

/-- what the RQA methods read from the object -/
structure RP where
  emb : List (List X)     -- self.embedding (n_time × dim doubles)
  eps : X                 -- float(self.threshold)
  dim : Nat               -- embedding.shape[1]
  mv : Bool               -- self.missing_values
  sparse : Bool           -- self.sparse_rqa
deriving Repr

def zeroHist (n : Nat) : List Nat := List.replicate n 0

/-- `self.recurrence_matrix()` of the matrix mode -/
def RP.R (rnd : Rat → Rat) (o : RP) : Mat := fixedThresholdX rnd o.emb o.eps o.dim o.mv

/-- `self.missing_value_indices` -/
def RP.M (o : RP) : Int → Bool := accM (missingMaskX o.emb)

/-- the diagonal kernel of the matrix mode on a stored matrix -/
def diagKernelOn (o : RP) (R : Mat) : List Nat :=
  let n := o.emb.length
  if o.mv then StructC08._diagline_dist_missingvalues n (zeroHist n) (accR R) o.M
  else StructC08._diagline_dist n (zeroHist n) (accR R)

/-- `RecurrencePlot.diagline_dist()` -/
def diaglineMethod (rnd : Rat → Rat) (o : RP) : List Nat :=
  let n := o.emb.length
  if !o.sparse then
    let recmat := o.R rnd
    let diagline := diagKernelOn o recmat
    if !symmetricB recmat n then addHist diagline (diagKernelOn o (recmat.tr n))
    else diagline.map (2 * ·)
  else
    let diagline :=
      if o.mv then
        StructC08._diagline_dist_sequential_missingvalues (xOps rnd) n (zeroHist n) (accX o.emb)
          o.eps o.dim o.M
      else StructC08._diagline_dist_sequential (xOps rnd) n (zeroHist n) (accX o.emb) o.eps o.dim
    diagline.map (2 * ·)

/-- `RecurrencePlot.vertline_dist()` -/
def vertlineMethod (rnd : Rat → Rat) (o : RP) : List Nat :=
  let n := o.emb.length
  if !o.sparse then
    if o.mv then StructC08._vertline_dist_missingvalues n (zeroHist n) (accR (o.R rnd)) o.M
    else StructC08._vertline_dist n (zeroHist n) (accR (o.R rnd))
  else if o.mv then
    StructC08._vertline_dist_sequential_missingvalues (xOps rnd) n (zeroHist n) (accX o.emb)
      o.eps o.dim o.M
  else StructC08._vertline_dist_sequential (xOps rnd) n (zeroHist n) (accX o.emb) o.eps o.dim

/-- `RecurrencePlot.white_vertline_dist()`; `none` = `NotImplementedError` (sequential mode) -/
def whiteVertlineMethod (rnd : Rat → Rat) (o : RP) : Option (List Nat) :=
  let n := o.emb.length
  if o.sparse then none
  else some (StructC08._white_vertline_dist n (zeroHist n) (accR (o.R rnd)))

/-- `R.sum()` over the stored `n × n` matrix -/
def matSum (R : Mat) (n : Nat) : Nat :=
  ((List.range n).map fun i => ((List.range n).map fun j => R.at i j).count true).sum

/-- `self.embedding[~self.missing_value_indices]` -/
def completeRows (emb : List (List X)) : List (List X) := emb.filter fun r => !(r.any X.isNan)

/-- the numerator of `RecurrencePlot.recurrence_rate()` (the value is this over `N ** 2`) -/
def recurrenceRateNum (rnd : Rat → Rat) (o : RP) : Nat :=
  if !o.sparse then matSum (o.R rnd) o.emb.length
  else if o.mv then
    let embedding := completeRows o.emb
    let n := embedding.length
    wsum (StructC08._vertline_dist_sequential (xOps rnd) n (zeroHist n) (accX embedding) o.eps
      o.dim)
  else wsum (vertlineMethod rnd o)

end Pyunicorn.LineDist
