import Pyunicorn.Model.Surrogates
import Pyunicorn.Model.SurrogatesKernelW
import Pyunicorn.Model.SurrogatesObject
import Pyunicorn.Generated.ArithC15
/-!
Round 5 (property C15): loop-level model of the walk kernels `_twin_surrogates_s` and
`_twin_surrogates_r` (timeseries/_ext/numerics.pyx) — statement by statement, in the kernel's own
`int` variables, with **every** expression of the two loops taken from `Generated/ArithC15.lean`
(regenerated from the source on every run): the three arguments of `floor`, the loop test
`j < N`, the subscripts `twins_i[k]`, `twins_ik[rand]`, `original_data[i,k]` / `embedding[k,:]`,
`surrogates[i,j]`, the tests `n_twins == 0`, `rand == n_twins`, `k >= N`, `new_k != k`, the three
`k += 1`, `k = new_k`, `j += 1`.  Core Lean only.  `Lemmas/SurrogatesWalkK.lean` proves this model
equal to the abstract walk `walkRows` / `walkRep` the C15 theorems are about.
-/
namespace Pyunicorn.Surrogates
open Pyunicorn.Generated

/-- the expressions of one walk kernel -/
structure WalkArith where
  start : Rat → Int → Rat
  draw : Rat → Int → Rat
  restart : Rat → Int → Rat
  loop : Int → Int → Bool
  twIdx : Int → Int
  noTwins : Int → Bool
  stepA : Int → Int
  own : Int → Int → Bool
  stepB : Int → Int
  jumpIdx : Int → Int
  stepC : Int → Int
  atEnd : Int → Int → Bool
  accept : Int → Int → Bool
  newK : Int → Int
  jStep : Int → Int
  /-- index along the time axis of the load `original_data[i, ·]` / `embedding[·, :]` -/
  loadIdx : Int → Int → Int
  /-- index along the time axis of the store `surrogates[i, ·]` / `surrogates[i, ·, :]` -/
  storeIdx : Int → Int → Int

/-- `_twin_surrogates_s` as it stands in the source -/
def walkArithS : WalkArith :=
  { start := ArithC15.wStartS, draw := ArithC15.wDrawS, restart := ArithC15.wRestartS,
    loop := ArithC15.wLoopS, twIdx := ArithC15.wTwIdxS, noTwins := ArithC15.wNoTwinsS,
    stepA := ArithC15.wStepAS, own := ArithC15.wOwnS, stepB := ArithC15.wStepBS,
    jumpIdx := ArithC15.wJumpIdxS, stepC := ArithC15.wStepCS, atEnd := ArithC15.wEndS,
    accept := ArithC15.wAcceptS, newK := ArithC15.wNewKS, jStep := ArithC15.wJStepS,
    loadIdx := ArithC15.wLoadColS, storeIdx := ArithC15.wStoreColS }

/-- `_twin_surrogates_r` as it stands in the source -/
def walkArithR : WalkArith :=
  { start := ArithC15.wStartR, draw := ArithC15.wDrawR, restart := ArithC15.wRestartR,
    loop := ArithC15.wLoopR, twIdx := ArithC15.wTwIdxR, noTwins := ArithC15.wNoTwinsR,
    stepA := ArithC15.wStepAR, own := ArithC15.wOwnR, stepB := ArithC15.wStepBR,
    jumpIdx := ArithC15.wJumpIdxR, stepC := ArithC15.wStepCR, atEnd := ArithC15.wEndR,
    accept := ArithC15.wAcceptR, newK := ArithC15.wNewKR, jStep := ArithC15.wJStepR,
    loadIdx := fun _ k => ArithC15.wLoadRowR k, storeIdx := ArithC15.wStoreRowR }

/-- `int(floor(x))` -/
def intFloor (x : Rat) : Int := x.floor

/-- a subscript with a C `int`: negative values (which Python / Cython would wrap around) are not
modelled and are an error here, as is a value beyond the end (IndexError) -/
def idxInt (xs : List β) (i : Int) : Option β := if i < 0 then none else xs[i.toNat]?

/-- the restart loop `while True: new_k = int(floor(random.random() * N)); if new_k != k: break`
followed by `k = new_k`, with `fuel` rounds at most (`none` = the fuel ran out: an endless loop) -/
def restartK (A : WalkArith) (N : Int) (u : Nat → Rat) (k : Int) : Nat → Nat → Option (Int × Nat)
  | 0, _ => none
  | f + 1, c =>
    let nk := intFloor (A.restart (u c) N)
    if A.accept nk k then some (A.newK nk, c + 1) else restartK A N u k f (c + 1)

/-- rounds of the restart loop the model is prepared to run (one suffices for draws in [0,1):
`walk_kernel_step_is_next`) -/
def restartFuel : Nat := 64

/-- the body of `while j < N` after the assignment, in the kernel's `int k`: the next `k` and the
advanced stream cursor (`u` = the `random.random()` stream).  `none` = IndexError, or the restart
loop did not end within `restartFuel` rounds. -/
def nextK (A : WalkArith) (N : Int) (tw : List (List Nat)) (u : Nat → Rat) (k : Int) (c : Nat) :
    Option (Int × Nat) :=
  match idxInt tw (A.twIdx k) with
  | none => none
  | some twk =>
    let nt : Int := twk.length
    let kc : Option (Int × Nat) :=
      if A.noTwins nt then some (A.stepA k, c)
      else
        let r := intFloor (A.draw (u c) nt)
        if A.own r nt then some (A.stepB k, c + 1)
        else match idxInt twk (A.jumpIdx r) with
          | some t => some (A.stepC (t : Int), c + 1)
          | none => none
    match kc with
    | none => none
    | some (k', c') =>
      if A.atEnd k' N then restartK A N u k' restartFuel c'
      else some (k', c')

/-- `while j < N` with `fuel` passes at most (`none` when the fuel runs out with the test still
true, when the load leaves the first `N` samples, or when the store does not go to position `j`,
which would leave position `j` of the `np.empty` output uninitialised).  Returns the loaded
indices in the order of the output positions and the final cursor. -/
def walkFromK (A : WalkArith) (i N : Int) (tw : List (List Nat)) (u : Nat → Rat) :
    Nat → Int → Int → Nat → Option (List Int × Nat)
  | 0, j, _, c => if A.loop j N then none else some ([], c)
  | f + 1, j, k, c =>
    if A.loop j N then
      let col := A.loadIdx i k
      if col < 0 ∨ N ≤ col ∨ A.storeIdx i j ≠ j then none
      else
        match nextK A N tw u k c with
        | none => none
        | some (k', c') =>
          match walkFromK A i N tw u f (A.jStep j) k' c' with
          | none => none
          | some (l, c'') => some (col :: l, c'')
    else some ([], c)

/-- one trajectory: `k = int(floor(random.random() * N)); j = 0; while j < N: …` -/
def walkRowK (A : WalkArith) (i N : Int) (tw : List (List Nat)) (u : Nat → Rat) (c : Nat) :
    Option (List Int × Nat) :=
  walkFromK A i N tw u N.toNat 0 (intFloor (A.start (u c) N)) (c + 1)

/-- `for i in range(n_surrogates)` of `_twin_surrogates_s` (`twins_i = twins[i]`) -/
def walkRowsK (A : WalkArith) (N : Int) (u : Nat → Rat) :
    List (List (List Nat)) → Int → Nat → Option (List (List Int) × Nat)
  | [], _, c => some ([], c)
  | tw :: rest, i, c =>
    match walkRowK A i N tw u c with
    | none => none
    | some (l, c') =>
      match walkRowsK A N u rest (i + 1) c' with
      | none => none
      | some (ls, c'') => some (l :: ls, c'')

/-- `_twin_surrogates_s` on the source's expressions -/
def walkKernelS (N : Nat) (u : Nat → Rat) (tws : List (List (List Nat))) (c : Nat) :=
  walkRowsK walkArithS N u tws 0 c

/-- `_twin_surrogates_r` on the source's expressions: `n_surrogates` trajectories on one table -/
def walkKernelR (N : Nat) (tw : List (List Nat)) (u : Nat → Rat) (ns c : Nat) :=
  walkRowsK walkArithR N u (List.replicate ns tw) 0 c

/-- the read-out `surrogates[i, j] = original_data[i, k]` / `surrogates[i, j, :] = embedding[k, :]`
with the kernel's `int k` -/
def gatherInt (xs : List α) : List Int → Option (List α)
  | [] => some []
  | i :: is =>
    match idxInt xs i, gatherInt xs is with
    | some x, some r => some (x :: r)
    | _, _ => none

/-- **`Surrogates.twin_surrogates` on the source's expressions throughout**: embedding kernel,
`twins()` on `np.empty` work arrays with the `bits`-bit counter and the source's subscripts
(`twinsMethodW`), the walk kernel `_twin_surrogates_s` statement by statement (`walkKernelS`), and
the read-out in the kernel's `int k` -/
def twinSurrogatesSrc (bits : Nat) (data : List (List Rat)) (dim delay : Nat) (thr : Rat) (md : Nat)
    (u : Nat → Rat) (g : Nat → Nat → Bool) (gn : Nat → Int) : Option (List (List Rat)) :=
  match data.mapM (embedK · dim delay) with
  | none => none
  | some embs =>
    let nT := (ArithC15.twinLen ((data.headD []).length : Int) dim delay).toNat
    match walkKernelS nT u (twinsMethodW bits thr md embs g gn) 0 with
    | none => none
    | some (idx, _) => rowsM gatherInt data idx

/-- **`RecurrencePlot.twin_surrogates` on the source's expressions**: `twins()` with the subscripts
of `_twins_r` (`rpTwinsKW`), the walk kernel `_twin_surrogates_r` statement by statement -/
def rpTwinSurrogatesSrc (md ns : Nat) (R : List (List Bool)) (emb : List (List Rat))
    (u : Nat → Rat) : Option (List (List (List Rat))) :=
  match walkKernelR emb.length (rpTwinsKW md R) u ns 0 with
  | none => none
  | some (idx, _) => idx.mapM (gatherInt emb)

end Pyunicorn.Surrogates
