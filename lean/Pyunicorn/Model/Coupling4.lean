import Pyunicorn.Model.Coupling2
/-!
# Model of the similarity / coupling code, part 4 (C10, round 4) — core Lean only

* the conditioning set of `PartialCorrelationClimateNetwork`: "all other series"
* `information_transfer` / `mutual_information(estimator='gauss')` entry read from the Gram
  *function* instead of the table (the specification the table lookup `itSq` is proved equal to)
* the store into a `LAG` cell with the bit width as a parameter (the width is read from the
  declared dtype by `translate/gen_C10.py`)
* occupancy of the quantile bins (`_quantile_bin_array`): number of samples with a given symbol
-/
namespace Pyunicorn.Coupling

/-- all series except `i` and `j`: the conditioning set of entry `(i, j)` of
`- C_inv / sqrt(|outer(diag, diag)|)` -/
def othersOf (N i j : Nat) : List Nat := (List.range N).filter fun k => k != i && k != j

/-- the Gram matrix of the centred rows of `array` as a function (what `itGramTab` tabulates) -/
def itGramFn (x : Nat → Nat → Rat) (T tauMax past : Nat) (nodes : List (Nat × Nat)) : Nat → Nat → Rat :=
  fun a b => covTo (T - (tauMax + past)) (itRow x (tauMax + past) (nodes.getD a (0, 0)))
    (itRow x (tauMax + past) (nodes.getD b (0, 0)))

/-- the confound positions `2 … dim-1` of `XYZ` -/
def itConf (m : Nat) : List Nat := (List.range (m - 2)).map (· + 2)

/-- `itSq` without the table -/
def itSqFn (x : Nat → Nat → Rat) (T tauMax past : Nat) (mit : Bool) (i j tau : Nat) : Rat :=
  let nodes := itNodes mit i j tau past
  parCorrSqG (itGramFn x T tauMax past nodes) (itConf nodes.length) 0 1

/-- a value stored into a signed two's-complement cell of `bits` bits (`bits ≥ 1`) -/
def wrapBits (bits : Nat) (z : Int) : Int :=
  (z + 2 ^ (bits - 1)) % 2 ^ bits - 2 ^ (bits - 1)

/-- number of samples of `row` whose quantile symbol is `a` (the marginal histogram cell that
`bincount_hist` / the entropy of one series sees) -/
def qbinOccupancy (row : List Rat) (bins : Nat) (a : Int) : Nat :=
  ((quantileBinRow row bins).filter (fun s => decide (s = a))).length

end Pyunicorn.Coupling
