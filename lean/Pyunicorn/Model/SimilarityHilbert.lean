import Pyunicorn.Model.Similarity
/-!
# Model of `HilbertClimateNetwork` (C09, round 3) — core Lean only

Mirrors `src/pyunicorn/climate/hilbert.py` on top of the `ClimateNetwork` model:

* `self.adjacency = self.adjacency * (self.phase_shift() > 0)`     `phaseMask`, `Net.assignAdjacency`
  (the `Network.adjacency` setter recomputes `n_links` and `link_density`)
* `set_threshold` (override: `ClimateNetwork.set_threshold`, then the phase mask when
  `self.directed`)                                                  `HNet.setThreshold`
* `set_link_density` / `set_non_local` (inherited; they dispatch to the override)
                                                                    `HNet.setLinkDensity`, `HNet.setNonLocal`
* `_set_directed(d, calculate_coherence=True)`                      `HNet.storeCoherence`
* `_regenerate_network` → `ClimateNetwork.__init__` (abs, `self.set_threshold(self._threshold)`,
  `GeoNetwork.__init__(adjacency=self.adjacency, directed=self.directed)`)   `HNet.regenerate`
* `_set_directed(d, calculate_coherence=False)`                     `HNet.maskIf`
* `set_directed`, `__init__`                                        `HNet.setDirected`, `mkHilbert`

The coherence (similarity) and the phase matrix are inputs (what
`_calculate_hilbert_correlation` returns is C10's business).
-/
namespace Pyunicorn.Similarity

/-- `A * (phase > 0)` on the flattened `N × N` matrices -/
def phaseMask (P : Sim) (N : Nat) (A : List Bool) : List Bool :=
  A.mapIdx fun p b => b && decide (0 < P (p / N) (p % N))

/-- the `Network.adjacency` setter: the matrix is stored, link count and density recomputed with
the *current* `directed` flag -/
def Net.assignAdjacency (s : Net) (A : List Bool) : Net :=
  { s with A := A, nLinks := countLinks s.directed A, density := linkDensity A s.N }

structure HNet where
  net : Net
  /-- `_coherence_phase` -/
  phase : Sim

/-- `if directed: self.adjacency = self.adjacency * (self.phase_shift() > 0)` -/
def HNet.maskIf (h : HNet) (d : Bool) : HNet :=
  if d then { h with net := h.net.assignAdjacency (phaseMask h.phase h.net.N h.net.A) } else h

/-- `HilbertClimateNetwork.set_threshold`: the parent's method, then the mask iff `self.directed` -/
def HNet.setThreshold (h : HNet) (θ : Rat) : HNet :=
  let h1 : HNet := { h with net := h.net.setThreshold θ }
  h1.maskIf h1.net.directed

/-- inherited `set_link_density` (calls the overridden `set_threshold`) -/
def HNet.setLinkDensity (h : HNet) (k : Nat) : Option HNet :=
  (thresholdFromIndex h.net.S h.net.N k).map h.setThreshold

/-- inherited `set_non_local` (calls the overridden `set_threshold`) -/
def HNet.setNonLocal (h : HNet) (b : Bool) : HNet :=
  if h.net.nonLocal != b then
    ({ h with net := { h.net with nonLocal := b } } : HNet).setThreshold h.net.θ
  else h

/-- `_set_directed(d, calculate_coherence=True)`: coherence, phase and the flag are stored; the
network itself is untouched -/
def HNet.storeCoherence (h : HNet) (d : Bool) (S1 P1 : Sim) : HNet :=
  { net := { h.net with S := S1, directed := d }, phase := P1 }

/-- `_regenerate_network()`: `ClimateNetwork.__init__(self, similarity_measure=self._similarity_measure,
threshold=self._threshold, non_local=self._non_local, directed=self.directed, …)` —
absolute value, `self.set_threshold(threshold)` (the override), then
`GeoNetwork.__init__(adjacency=self.adjacency, directed=self.directed)` re-assigns the matrix -/
def HNet.regenerate (h : HNet) : HNet :=
  let h1 : HNet := { h with net := { h.net with S := absSim h.net.S } }
  let h2 := h1.setThreshold h1.net.θ
  { h2 with net := h2.net.assignAdjacency h2.net.A }

/-- `HilbertClimateNetwork.set_directed(d)`; `S1`, `P1` = what `_calculate_hilbert_correlation`
returns for the object's data -/
def HNet.setDirected (h : HNet) (d : Bool) (S1 P1 : Sim) : HNet :=
  ((h.storeCoherence d S1 P1).regenerate).maskIf d

inductive HOp where
  | thr (θ : Rat)
  | dens (k : Nat)
  | nl (b : Bool)
  | dir (d : Bool) (S1 P1 : Sim)

def HNet.step (h : HNet) : HOp → Option HNet
  | .thr θ => some (h.setThreshold θ)
  | .dens k => h.setLinkDensity k
  | .nl b => some (h.setNonLocal b)
  | .dir d S1 P1 => some (h.setDirected d S1 P1)

def HNet.run (h : HNet) : List HOp → Option HNet
  | [] => some h
  | o :: os => (h.step o).bind fun h' => h'.run os

/-- the object while `HilbertClimateNetwork.__init__` runs, before the first network exists:
`_set_directed(directed, True)` has stored coherence, phase and flag -/
def hblank (N : Nat) (directed : Bool) (S0 P damp : Sim) (nl : Bool) : HNet :=
  { net := { blank N directed S0 damp nl with S := S0 }, phase := P }

/-- `HilbertClimateNetwork(data, threshold=θ, non_local=nl, directed=d)`:
`_set_directed(d, True)`; `ClimateNetwork.__init__` (abs, overridden `set_threshold`,
`GeoNetwork.__init__`); `_set_directed(d, False)` -/
def mkHilbert (N : Nat) (d : Bool) (S0 P damp : Sim) (nl : Bool) (θ : Rat) : HNet :=
  let h0 := hblank N d S0 P damp nl
  let h1 : HNet := { h0 with net := { h0.net with S := absSim h0.net.S } }
  let h2 := h1.setThreshold θ
  ({ h2 with net := h2.net.assignAdjacency h2.net.A } : HNet).maskIf d

/-- `HilbertClimateNetwork(data, link_density=ρ, …)` with raw quantile index `k` -/
def mkHilbertDensity (N : Nat) (d : Bool) (S0 P damp : Sim) (nl : Bool) (k : Nat) : Option HNet :=
  let h0 := hblank N d S0 P damp nl
  let h1 : HNet := { h0 with net := { h0.net with S := absSim h0.net.S } }
  (h1.setLinkDensity k).map fun h2 =>
    ({ h2 with net := h2.net.assignAdjacency h2.net.A } : HNet).maskIf d

end Pyunicorn.Similarity
