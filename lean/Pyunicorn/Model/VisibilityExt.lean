import Pyunicorn.Model.Visibility
/-
Model of the visibility-graph code, part 2 (round 2).  Core Lean only.

1. **The adjacency matrix as state.**  `Model/Visibility.lean` returns the write
   log of a kernel; here the kernels are the loops that exist in
   `numerics.pyx:799-872`: they receive the caller's matrix `A` and execute
   `A[i, j] = A[j, i] = 1` (two bounds-checked stores, left target first) inside
   the loop, interleaved with the evaluation of the loop conditions
   (`kernelNM`, `kernelHM`).  `classMat` is `VisibilityGraph.__init__` up to the
   adjacency matrix: `np.zeros((N, N))`, the kernel, and for
   `horizontal, missing_values` the two masked stores `A[mv, :] = 0; A[:, mv] = 0`.
   `Lemmas/VisibilityExt.lean` proves that these are the matrices of the logs.

2. **float32.**  `kernelNR rnd` is the natural kernel with every arithmetic
   operation rounded by `rnd` (`FIELD_t` = C `float`: the two differences and the
   quotient are each rounded to float32; comparisons are exact).  `rndF32` is
   round-to-nearest-even to 24 significant bits (binary32 without overflow, with
   gradual underflow).  `faithful` is the *decidable* condition under which the
   rounded kernel provably equals the exact one.

3. **Path-based time-directed measures.**  `pathLen` is the specification of
   `Network.path_lengths()` (igraph `distances()`): the least number of links of
   a walk, `none` = `inf`; computed by level sets.  `retClose` / `advClose` are
   `VisibilityGraph.retarded_closeness` / `advanced_closeness`
   (`path_lengths[i, :i].mean() ** (-1)`, `path_lengths[i, i+1:]…`), with `none` =
   NaN (mean of an empty slice).  `bcDegree`, `bcCloseness` are the two
   boundary-corrected measures.
-/
namespace Pyunicorn.Visibility

/-! ### 1. the matrix as state -/

/-- `np.zeros((N, N), dtype=MASK)` -/
def zeros (N : Nat) : List (List Bool) := List.replicate N (List.replicate N false)

/-- `A[i, j] = 1` with `boundscheck=True` -/
def setM (A : List (List Bool)) (i j : Nat) : Except Err (List (List Bool)) :=
  match A[i]? with
  | none => .error .index
  | some row => if j < row.length then .ok (A.set i (row.set j true)) else .error .index

/-- `A[i, j] = A[j, i] = 1` (chained assignment: left target first) -/
def writePair (A : List (List Bool)) (p : Nat × Nat) : Except Err (List (List Bool)) := do
  let A ← setM A p.1 p.2
  setM A p.2 p.1

/-- `for p in pairs: if cond(p): A[p] = A[pᵀ] = 1` — condition and stores interleaved,
the first error aborts -/
def writeLoop (f : Nat × Nat → Except Err Bool) :
    List (Nat × Nat) → List (List Bool) → Except Err (List (List Bool))
  | [], A => .ok A
  | p :: l, A => do
      let b ← f p
      let A ← if b then writePair A p else .ok A
      writeLoop f l A

/-- the natural kernels acting on the caller's matrix -/
def kernelNM (x : List Val) (t : List Rat) (mv : Option (List Bool)) (N : Nat)
    (A : List (List Bool)) : Except Err (List (List Bool)) := do
  let A ← writeLoop (fun p => farN x t mv p.1 p.2) (farPairs N) A
  writeLoop (adjCond mv) (adjPairs N) A

/-- the horizontal kernel acting on the caller's matrix -/
def kernelHM (x : List Val) (N : Nat) (A : List (List Bool)) :
    Except Err (List (List Bool)) := do
  let A ← writeLoop (fun p => farH x p.1 p.2) (farPairs N) A
  writeLoop (fun _ => .ok true) (adjPairs N) A

/-- `A[mv, :] = 0; A[:, mv] = 0` (boolean-mask stores of numpy) -/
def zeroRC (m : List Bool) (A : List (List Bool)) : List (List Bool) :=
  A.mapIdx fun a row => row.mapIdx fun b v => v && !(m.getD a false) && !(m.getD b false)

/-- `VisibilityGraph.__init__` up to the adjacency matrix -/
def classMat (x : List Val) (timings : Option (List Rat)) (missing horizontal : Bool) :
    Except Err (List (List Bool)) :=
  let N := x.length
  let t := match timings with
    | some t => t
    | none => defaultTimings N
  if !horizontal then
    kernelNM x t (if missing then some (nanMask x) else none) N (zeros N)
  else do
    let A ← kernelHM x N (zeros N)
    .ok (if missing then zeroRC (nanMask x) A else A)

/-! ### 2. float32 arithmetic -/

/-- `2 ^ e` for an integer exponent -/
def pow2 (e : Int) : Rat :=
  if 0 ≤ e then ((2 ^ e.toNat : Nat) : Rat) else 1 / ((2 ^ (-e).toNat : Nat) : Rat)

/-- `⌊log₂ (p / q)⌋` for positive `p`, `q` -/
def floorLog2 (p q : Nat) : Int :=
  let e : Int := (Nat.log2 p : Int) - (Nat.log2 q : Int)
  -- 2^(e-1) < p/q < 2^(e+1)
  if pow2 e ≤ (p : Rat) / (q : Rat) then e else e - 1

/-- round half to even to an integer -/
def roundEven (m : Rat) : Int :=
  let f := m.floor
  let r := m - (f : Rat)
  if r < 1 / 2 then f else if 1 / 2 < r then f + 1 else if f % 2 = 0 then f else f + 1

/-- IEEE binary32 rounding (round to nearest, ties to even) of a rational; gradual
underflow (exponent clamped at -149); overflow is not modelled (the generators keep
magnitudes below 2^100) -/
def rndF32 (q : Rat) : Rat :=
  if q = 0 then 0 else
    let a : Rat := if q < 0 then -q else q
    let e0 := floorLog2 a.num.natAbs a.den - 23
    let e := if e0 < -149 then -149 else e0
    let n := roundEven (a / pow2 e)
    let r := (n : Rat) * pow2 e
    if q < 0 then -r else r

/-- `(x[k] - x[i]) / (t[k] - t[i])` in `FIELD_t` arithmetic: both differences and the
quotient are rounded; Cython's zero test is on the rounded divisor -/
def slopeR (rnd : Rat → Rat) (x : List Val) (t : List Rat) (i k : Nat) : Except Err Val := do
  let xk ← rd x k
  let xi ← rd x i
  let tk ← rd t k
  let ti ← rd t i
  if rnd (tk - ti) = 0 then .error .zeroDiv
  else .ok ((vsub xk xi).map fun dx => rnd (rnd dx / rnd (tk - ti)))

def condNR (rnd : Rat → Rat) (x : List Val) (t : List Rat) (mv : Option (List Bool)) (i : Nat)
    (test : Val) (k : Nat) : Except Err Bool := do
  let m ← match mv with
    | none => pure false
    | some mv => rd mv k
  if m then .ok false
  else do
    let s ← slopeR rnd x t i k
    .ok (vlt s test)

def farNR (rnd : Rat → Rat) (x : List Val) (t : List Rat) (mv : Option (List Bool)) (i j : Nat) :
    Except Err Bool := do
  let test ← slopeR rnd x t i j
  let k ← scan (condNR rnd x t mv i test) j (j - i) (i + 1)
  .ok (k == j)

/-- the natural kernels as compiled: float32 slopes -/
def kernelNR (rnd : Rat → Rat) (x : List Val) (t : List Rat) (mv : Option (List Bool)) (N : Nat) :
    Except Err (List (Nat × Nat)) := do
  let far ← filterE (fun p => farNR rnd x t mv p.1 p.2) (farPairs N)
  let adj ← filterE (adjCond mv) (adjPairs N)
  .ok (far ++ adj)

/-- the rounded slope seen from `i` (value level; NaN if a sample is NaN) -/
def slopeValR (rnd : Rat → Rat) (x : List Val) (t : List Rat) (i k : Nat) : Val :=
  (vsub (valAt x k) (valAt x i)).map fun dx =>
    rnd (rnd dx / rnd (t.getD k 0 - t.getD i 0))

/-- the exact slope seen from `i` -/
def slopeValE (x : List Val) (t : List Rat) (i k : Nat) : Val :=
  (vsub (valAt x k) (valAt x i)).map fun dx => dx / (t.getD k 0 - t.getD i 0)

/-- order faithfulness for one left end `i` and two other samples `k`, `j`: the rounded
divisors vanish only where the exact ones do, and the two rounded slopes compare like the
exact ones -/
def faithfulAt (rnd : Rat → Rat) (x : List Val) (t : List Rat) (i k j : Nat) : Bool :=
  (decide (rnd (t.getD k 0 - t.getD i 0) = 0) == decide (t.getD k 0 - t.getD i 0 = 0)) &&
  (vlt (slopeValR rnd x t i k) (slopeValR rnd x t i j)
    == vlt (slopeValE x t i k) (slopeValE x t i j))

/-- **order faithfulness of the rounding on a series**: what `harness/c14.py:f32_exact`
checks for every series of the exact correspondence; decidable, evaluated by the driver -/
def Faithful (rnd : Rat → Rat) (x : List Val) (t : List Rat) (N : Nat) : Prop :=
  ∀ i, i < N → ∀ k, k < N → ∀ j, j < N → i < k → i < j → faithfulAt rnd x t i k j = true

instance (rnd : Rat → Rat) (x : List Val) (t : List Rat) (N : Nat) :
    Decidable (Faithful rnd x t N) := by
  unfold Faithful; infer_instance

/-! ### 3. path lengths and the path-based time-directed measures -/

/-- the source alone -/
def lvl0 (N i : Nat) : List Bool := (List.range N).map fun v => v == i

/-- one more link: nodes of `S` and their neighbours -/
def grow (N : Nat) (A : List (List Bool)) (S : List Bool) : List Bool :=
  (List.range N).map fun v =>
    S.getD v false || (List.range N).any fun u => S.getD u false && Mat.at A u v

/-- nodes reachable from `i` by a walk of at most `k` links -/
def lvl (N : Nat) (A : List (List Bool)) (i : Nat) : Nat → List Bool
  | 0 => lvl0 N i
  | k + 1 => grow N A (lvl N A i k)

/-- `path_lengths()[i, j]`: the least number of links of a walk from `i` to `j`
(`none` = `inf`; a shortest walk has fewer than `N` links) -/
def pathLen (N : Nat) (A : List (List Bool)) (i j : Nat) : Option Nat :=
  (List.range N).find? fun k => (lvl N A i k).getD j false

/-- `row.mean() ** (-1)` of a slice of path lengths: NaN for an empty slice, `inf ** -1 = 0`
as soon as one node is unreachable, otherwise `len / sum` -/
def closeOf (ds : List (Option Nat)) : Option Rat :=
  if ds.isEmpty then none
  else if ds.any Option.isNone then some 0
  else some ((ds.length : Rat) / (((ds.map fun d => d.getD 0).sum : Nat) : Rat))

/-- `retarded_closeness()[i]` -/
def retClose (N : Nat) (A : List (List Bool)) (i : Nat) : Option Rat :=
  closeOf ((List.range i).map (pathLen N A i))

/-- `advanced_closeness()[i]` -/
def advClose (N : Nat) (A : List (List Bool)) (i : Nat) : Option Rat :=
  closeOf ((List.range' (i + 1) (N - (i + 1))).map (pathLen N A i))

/-- `boundary_corrected_degree()`:
`(retarded_degree * N_past + advanced_degree * N_future) / float(N - 1)` -/
def bcDegree (A : List (List Bool)) : List Rat :=
  let N := A.length
  (List.range N).map fun i =>
    ((retDeg A i : Rat) * (i : Rat) + (advDeg A i : Rat) * ((N - 1 - i : Nat) : Rat))
      / ((N - 1 : Nat) : Rat)

/-- `a / d` on float arrays where the numerator is NaN whenever `d = 0`
(`retClose_zero`, `advClose_last`): `NaN / 0 = NaN` -/
def ndiv (a : Option Rat) (d : Nat) : Option Rat :=
  if d = 0 then none else a.map fun r => r / (d : Rat)

def vadd (a b : Option Rat) : Option Rat :=
  match a, b with
  | some a, some b => some (a + b)
  | _, _ => none

/-- `boundary_corrected_closeness()`:
`(N - 1) * (retarded_closeness / N_past + advanced_closeness / N_future)` -/
def bcCloseness (A : List (List Bool)) : List (Option Rat) :=
  let N := A.length
  (List.range N).map fun i =>
    (vadd (ndiv (retClose N A i) i) (ndiv (advClose N A i) (N - 1 - i))).map fun r =>
      ((N - 1 : Nat) : Rat) * r

end Pyunicorn.Visibility
