import Pyunicorn.Model.SimilarityNumeric
import Pyunicorn.Model.SimilarityHilbert
/-!
# `HilbertClimateNetwork` *as executed*: NaN coherence / phase and float32 rounding (C09, round 5)
— core Lean only

`Model/SimilarityHilbert.lean` (round 3) puts the Hilbert network on top of the exact
`ClimateNetwork` model; this file puts it on top of the NaN / float32 model `XNet` of
`Model/SimilarityNumeric.lean`, statement by statement the same methods of `climate/hilbert.py`:

* `self.adjacency * (self.phase_shift() > 0)`: the phase matrix is float64 and may hold NaN
  (`none`); `NaN > 0` is false                                              `phaseMaskX`
* `set_threshold` (override), inherited `set_link_density` / `set_non_local`  `XHNet.setThreshold` …
* `_set_directed(d, True)`, `_regenerate_network` (→ `ClimateNetwork.__init__`:
  `np.abs(similarity.astype("float32"))` *again*, overridden `set_threshold`,
  `GeoNetwork.__init__(adjacency=self.adjacency)`), `_set_directed(d, False)`
                                        `XHNet.storeCoherence`, `XHNet.regenerate`, `XHNet.maskIf`
* `set_directed`, `__init__`                                   `XHNet.setDirected`, `mkHilbertX`

The rounding `fl` of the arrays (float32) is a parameter as in `XNet`; the driver uses `rn24`.
-/
namespace Pyunicorn.Similarity

/-- `A * (phase > 0)` on the flattened matrices; a NaN phase never passes -/
def phaseMaskX (P : XSim) (N : Nat) (A : List Bool) : List Bool :=
  A.mapIdx fun p b => b && gtX (P (p / N) (p % N)) (some 0)

/-- the `Network.adjacency` setter on the float32 object -/
def XNet.assignAdjacency (s : XNet) (A : List Bool) : XNet :=
  { s with A := A, nLinks := countLinks s.directed A, density := linkDensity A s.N }

structure XHNet where
  net : XNet
  /-- `_coherence_phase` (float64, may hold NaN) -/
  phase : XSim

def XHNet.maskIf (h : XHNet) (d : Bool) : XHNet :=
  if d then { h with net := h.net.assignAdjacency (phaseMaskX h.phase h.net.N h.net.A) } else h

/-- `HilbertClimateNetwork.set_threshold` -/
def XHNet.setThreshold (fl : Rat → Rat) (h : XHNet) (θ : Option Rat) : XHNet :=
  let h1 : XHNet := { h with net := h.net.setThreshold fl θ }
  h1.maskIf h1.net.directed

def XHNet.setLinkDensity (fl : Rat → Rat) (h : XHNet) (k : Nat) : Option XHNet :=
  (thresholdFromIndexX h.net.S h.net.N k).map (h.setThreshold fl)

def XHNet.setNonLocal (fl : Rat → Rat) (h : XHNet) (b : Bool) : XHNet :=
  if h.net.nonLocal != b then
    ({ h with net := { h.net with nonLocal := b } } : XHNet).setThreshold fl h.net.θ
  else h

def XHNet.storeCoherence (h : XHNet) (d : Bool) (S1 P1 : XSim) : XHNet :=
  { net := { h.net with S := S1, directed := d }, phase := P1 }

def XHNet.regenerate (fl : Rat → Rat) (h : XHNet) : XHNet :=
  let h1 : XHNet := { h with net := { h.net with S := absX fl h.net.S } }
  let h2 := h1.setThreshold fl h1.net.θ
  { h2 with net := h2.net.assignAdjacency h2.net.A }

def XHNet.setDirected (fl : Rat → Rat) (h : XHNet) (d : Bool) (S1 P1 : XSim) : XHNet :=
  (((h.storeCoherence d S1 P1).regenerate fl).maskIf d)

inductive XHOp where
  | thr (θ : Option Rat)
  | dens (k : Nat)
  | nl (b : Bool)
  | dir (d : Bool) (S1 P1 : XSim)

def XHNet.step (fl : Rat → Rat) (h : XHNet) : XHOp → Option XHNet
  | .thr θ => some (h.setThreshold fl θ)
  | .dens k => h.setLinkDensity fl k
  | .nl b => some (h.setNonLocal fl b)
  | .dir d S1 P1 => some (h.setDirected fl d S1 P1)

def XHNet.run (fl : Rat → Rat) (h : XHNet) : List XHOp → Option XHNet
  | [] => some h
  | o :: os => (h.step fl o).bind fun h' => h'.run fl os

/-- the object while `__init__` runs, after `_set_directed(directed, True)` -/
def xhblank (N : Nat) (directed : Bool) (S0 P : XSim) (damp : Sim) (nl : Bool) : XHNet :=
  { net := { N := N, directed := directed, S := S0, damp := damp, nonLocal := nl, θ := some 0,
             A := [], nLinks := 0, density := none },
    phase := P }

def mkHilbertX (fl : Rat → Rat) (N : Nat) (d : Bool) (S0 P : XSim) (damp : Sim) (nl : Bool)
    (θ : Option Rat) : XHNet :=
  let h0 := xhblank N d S0 P damp nl
  let h1 : XHNet := { h0 with net := { h0.net with S := absX fl h0.net.S } }
  let h2 := h1.setThreshold fl θ
  ({ h2 with net := h2.net.assignAdjacency h2.net.A } : XHNet).maskIf d

def mkHilbertDensityX (fl : Rat → Rat) (N : Nat) (d : Bool) (S0 P : XSim) (damp : Sim) (nl : Bool)
    (k : Nat) : Option XHNet :=
  let h0 := xhblank N d S0 P damp nl
  let h1 : XHNet := { h0 with net := { h0.net with S := absX fl h0.net.S } }
  (h1.setLinkDensity fl k).map fun h2 =>
    ({ h2 with net := h2.net.assignAdjacency h2.net.A } : XHNet).maskIf d

/-- the exact Hilbert model as the special case "no NaN" -/
def hembed (h : HNet) : XHNet := { net := embed h.net, phase := embedSim h.phase }

def hembedOp : HOp → XHOp
  | .thr θ => .thr (some θ)
  | .dens k => .dens k
  | .nl b => .nl b
  | .dir d S1 P1 => .dir d (embedSim S1) (embedSim P1)

end Pyunicorn.Similarity
