/-! Model of `pyunicorn.core.resistive_network.ResNetwork` (C18), core Lean only.

Matrices are functions `Nat → Nat → Rat` restricted to indices `< n`; loops of the Python /
C code are `List.foldl` over `List.range` with the accumulator of the original code.

* `admittance`, `colSum`, `laplacian`            — `update_admittance`, `admittance_lapacian`
* `effRes`, `allPairs`, `average`, `diameter`    — `effective_resistance`, the hand-rolled store
* `State`, `Op`, `step`, `run`                   — the update/query state machine
* `vcfbKernel`, `ecfbKernel`                     — `src_numerics.c` current-flow sums
* `admDegree`, `anad`, `localClustering`         — admittive degree / clustering
* `inverse`, `pinvCert`, `potentialCert`         — exact Gauss–Jordan; results are *certified*
  (returned only if the defining equations hold exactly), so the executable linear algebra is
  not part of the trusted base of the theorems.
-/
namespace Pyunicorn.Circuit

abbrev Mat := Nat → Nat → Rat
abbrev Vec := Nat → Rat
abbrev Adj := Nat → Nat → Bool

/-- `acc = 0; for k in range(n): acc += f k` -/
def sumTo (n : Nat) (f : Nat → Rat) : Rat :=
  (List.range n).foldl (fun acc k => acc + f k) 0

def absR (x : Rat) : Rat := if x < 0 then -x else x

/-! ### update_admittance / admittance_lapacian -/

/-- `sparse_Adm[e0, e1] = 1./resistances[e0, e1]` for every stored entry of the adjacency
matrix (`edge_list()` = coordinates of the non-zeros, both orientations), 0 elsewhere. -/
def admittance (adj : Adj) (res : Mat) : Mat :=
  fun i j => if adj i j then 1 / res i j else 0

/-- `__init__` without `adjacency=`: `adjacency = np.zeros(...); adjacency[resistances != 0] = 1`
— the links are the non-zero pattern of the resistance matrix -/
def defaultAdj (res : Mat) : Adj := fun i j => res i j != 0

/-- the resistance matrix restricted to the links (what `update_admittance` reads of it) -/
def maskRes (adj : Adj) (res : Mat) : Mat := fun i j => if adj i j then res i j else 0

/-- every linked pair has a non-zero resistance (otherwise NumPy produces `inf`) -/
def resistancesOk (n : Nat) (adj : Adj) (res : Mat) : Bool :=
  (List.range n).all fun i => (List.range n).all fun j => !adj i j || res i j != 0

/-- Python's `sum(A)` over the rows of a 2-D array: column sums -/
def colSum (n : Nat) (A : Mat) (j : Nat) : Rat := sumTo n fun k => A k j
def rowSum (n : Nat) (A : Mat) (i : Nat) : Rat := sumTo n fun k => A i k

/-- `np.diag(sum(adm)) - adm` -/
def laplacian (n : Nat) (adm : Mat) : Mat :=
  fun i j => (if i = j then colSum n adm j else 0) - adm i j

/-! ### effective resistance and the store of all pairs -/

/-- `effective_resistance(a, b)`: `0` for `a == b`, else `R[a,a] - R[a,b] - R[b,a] + R[b,b]` -/
def effRes (R : Mat) (a b : Nat) : Rat :=
  if a = b then 0 else R a a - R a b - R b a + R b b

/-- `for i in range(N): for j in range(i): append(effective_resistance(i, j))` -/
def allPairs (n : Nat) (R : Mat) : List Rat :=
  (List.range n).foldl (fun acc i =>
    (List.range i).foldl (fun acc j => acc ++ [effRes R i j]) acc) []

/-- `2*np.sum(store) / (N*(N-1))` -/
def averageOf (n : Nat) (store : List Rat) : Rat :=
  2 * store.sum / ((n * (n - 1) : Nat) : Rat)

/-- `np.max(store)`; `none` = ValueError on an empty store (N ≤ 1) -/
def maxOf : List Rat → Option Rat
  | [] => none
  | x :: xs => some (xs.foldl max x)

/-- `effective_resistance_closeness_centrality(a)`: `(N-1) / Σ_i ER(a,i)` -/
def ercc (n : Nat) (R : Mat) (a : Nat) : Rat :=
  ((n - 1 : Nat) : Rat) / sumTo n fun i => effRes R a i

/-! ### list matrices (materialised values) -/

abbrev LMat := List (List Rat)

def LMat.at (M : LMat) (i j : Nat) : Rat := (M.getD i []).getD j 0
def toFun (M : LMat) : Mat := fun i j => M.at i j
def ofFun (n : Nat) (f : Mat) : LMat :=
  (List.range n).map fun i => (List.range n).map fun j => f i j

/-! ### current-flow betweenness kernels (src_numerics.c) -/

/-- `_vertex_current_flow_betweenness_fast(N, Is, It, admittance, R, i)` -/
def vcfbKernel (n : Nat) (Is It : Rat) (adm R : Mat) (i : Nat) : Rat :=
  (List.range n).foldl (fun vcfb t =>
    (List.range t).foldl (fun vcfb s =>
      if i = t ∨ i = s then vcfb            -- `continue`
      else
        let J := (List.range n).foldl (fun J j =>
          J + adm i j * absR (Is * (R i s - R j s) + It * (R j t - R i t)) / 2) 0
        vcfb + 2 * J / ((n * (n - 1) : Nat) : Rat)) vcfb) 0

/-- entry `[i, j]` of `_edge_current_flow_betweenness_fast(N, Is, It, admittance, R, ECFB)` -/
def ecfbKernel (n : Nat) (Is It : Rat) (adm R : Mat) (i j : Nat) : Rat :=
  let J := (List.range n).foldl (fun J t =>
    (List.range t).foldl (fun J s =>
      J + adm i j * absR (Is * (R i s - R j s) + It * (R j t - R i t))) J) 0
  2 * J / ((n * (n - 1) : Nat) : Rat)

/-! ### admittive degree / clustering -/

/-- `np.sum(get_admittance(), axis=0)` -/
def admDegree (n : Nat) (adm : Mat) (i : Nat) : Rat := colSum n adm i

def b2r (b : Bool) : Rat := if b then 1 else 0

/-- `np.dot(adj, ad) / ad` -/
def anad (n : Nat) (adj : Adj) (adm : Mat) (i : Nat) : Rat :=
  (sumTo n fun j => b2r (adj i j) * admDegree n adm j) / admDegree n adm i

/-- `Network.degree()` of an undirected network: row sum of the adjacency matrix -/
def degree (n : Nat) (adj : Adj) (i : Nat) : Nat :=
  (List.range n).foldl (fun d j => if adj i j then d + 1 else d) 0

/-- `local_admittive_clustering()[i]` -/
def localClustering (n : Nat) (adj : Adj) (adm : Mat) (i : Nat) : Rat :=
  let dummy := (List.range n).foldl (fun dummy j =>
    (List.range n).foldl (fun dummy k => dummy + adm i j * adm i k * adm j k) dummy) 0
  if degree n adj i = 1 then 0
  else dummy / (admDegree n adm i * (((degree n adj i : Nat) : Rat) - 1))

/-- `local_admittive_clustering().mean()` -/
def globalClustering (n : Nat) (adj : Adj) (adm : Mat) : Rat :=
  (sumTo n fun i => localClustering n adj adm i) / (n : Rat)

/-! ### the update / query state machine

`pinv` is a parameter: the theorems about histories hold for every function used in its place
(the executable instance is `pinvList` below); it returns a
materialised list matrix, as `np.linalg.pinv` returns an array. -/

structure State where
  n : Nat
  adj : Adj
  res : Mat
  adm : Mat
  R : Mat
  /-- `_effective_resistances` (`none` = Python `None`) -/
  store : Option (List Rat)

inductive Op where
  | update (res : Mat)          -- update_resistances(res)
  | average                      -- average_effective_resistance()
  | diameter                     -- diameter_effective_resistance()
  | effRes (a b : Nat)           -- effective_resistance(a, b)
  | ercc (a : Nat)               -- effective_resistance_closeness_centrality(a)
  | vcfb (i : Nat)               -- vertex_current_flow_betweenness(i)
  | ecfb (i j : Nat)             -- edge_current_flow_betweenness()[i, j]
  | admDeg (i : Nat)             -- admittive_degree()[i]
  | anad (i : Nat)               -- average_neighbors_admittive_degree()[i]
  | lclust (i : Nat)             -- local_admittive_clustering()[i]
  | gclust                       -- global_admittive_clustering()
  | getR (i j : Nat)             -- get_R()[i, j]
  | getAdm (i j : Nat)           -- get_admittance()[i, j]
  | lap (i j : Nat)              -- admittance_lapacian()[i, j]
  | meanRes                      -- `resistances.mean()` as printed by `__str__`
  | updAdm                       -- update_admittance()  (no argument: recompute from the property)
  | updR                         -- update_R()

/-- `update_resistances`: set the property, `update_admittance()`, `update_R()`;
`update_R` also drops the store of all pairs (the `fix:` commit of C18). -/
def State.update (pinv : Nat → Mat → LMat) (s : State) (res : Mat) : State :=
  let adm := admittance s.adj res
  { s with res := res, adm := adm, R := toFun (pinv s.n (laplacian s.n adm)), store := none }

/-- `net.adjacency = A'` — the setter inherited from `Network`: the number of nodes and the links
change; nothing of `ResNetwork` (resistances, admittance, `R`, the store) is recomputed -/
def State.reassign (s : State) (n' : Nat) (adj' : Adj) : State := { s with n := n', adj := adj' }

/-- `__init__`: `update_resistances(resistances)`, then `_effective_resistances = None` -/
def State.init (pinv : Nat → Mat → LMat) (n : Nat) (adj : Adj) (res : Mat) : State :=
  State.update pinv { n := n, adj := adj, res := res, adm := fun _ _ => 0,
                      R := fun _ _ => 0, store := none } res

/-- `ResNetwork(resistances)`: the links are derived from the resistances -/
def State.initDefault (pinv : Nat → Mat → LMat) (n : Nat) (res : Mat) : State :=
  State.init pinv n (defaultAdj res) res

/-- one call; the second component is the returned value (`none`: no value / exception) -/
def step (pinv : Nat → Mat → LMat) (s : State) : Op → State × Option Rat
  | .update res => (s.update pinv res, none)
  | .average =>
      let st := allPairs s.n s.R
      ({ s with store := some st }, some (averageOf s.n st))
  | .diameter =>
      match s.store with
      | some st => (s, maxOf st)
      | none =>
          let st := allPairs s.n s.R
          ({ s with store := some st }, maxOf st)
  | .effRes a b => (s, some (effRes s.R a b))
  | .ercc a => (s, some (ercc s.n s.R a))
  | .vcfb i =>      -- `if not 0 <= i < self.N: raise IndexError`
      (s, if i < s.n then some (vcfbKernel s.n 1 1 s.adm s.R i) else none)
  | .ecfb i j => (s, some (ecfbKernel s.n 1 1 s.adm s.R i j))
  | .admDeg i => (s, some (admDegree s.n s.adm i))
  | .anad i => (s, some (anad s.n s.adj s.adm i))
  | .lclust i => (s, some (localClustering s.n s.adj s.adm i))
  | .gclust => (s, some (globalClustering s.n s.adj s.adm))
  | .getR i j => (s, some (s.R i j))
  | .getAdm i j => (s, some (s.adm i j))
  | .lap i j => (s, some (laplacian s.n s.adm i j))
  | .meanRes =>
      (s, some ((sumTo s.n fun i => sumTo s.n fun j => s.res i j) / ((s.n * s.n : Nat) : Rat)))
  | .updAdm => ({ s with adm := admittance s.adj s.res }, none)
  | .updR => ({ s with R := toFun (pinv s.n (laplacian s.n s.adm)), store := none }, none)

/-- a history of calls: final state and the list of returned values -/
def run (pinv : Nat → Mat → LMat) (s : State) : List Op → State × List (Option Rat)
  | [] => (s, [])
  | op :: ops =>
      let (s', out) := step pinv s op
      let (s'', outs) := run pinv s' ops
      (s'', out :: outs)

/-! ### executable exact linear algebra (list matrices) with certificates -/

/-- materialised product of two function matrices (a list: a definition of type `Mat` would be
compiled as a function of the indices and recompute the product on every access) -/
def mmul (n : Nat) (A B : Mat) : LMat :=
  ofFun n fun i j => sumTo n fun k => A i k * B k j

def matEq (n : Nat) (A B : Mat) : Bool :=
  (List.range n).all fun i => (List.range n).all fun j => A i j == B i j

def subRow (r p : List Rat) (c : Rat) : List Rat := List.zipWith (fun x y => x - c * y) r p

/-- one Gauss–Jordan column step on the augmented rows (first non-zero pivot at or below `k`) -/
def gjStep (rows : LMat) (k : Nat) : Option LMat :=
  match (List.range rows.length).find? (fun i => k ≤ i && rows.at i k != 0) with
  | none => none
  | some p =>
    let prow := rows.getD p []
    let piv := prow.getD k 0
    let prow' := prow.map (· / piv)
    let rows1 := (rows.set p (rows.getD k [])).set k prow'
    some (rows1.mapIdx fun i r => if i == k then r else subRow r prow' (r.getD k 0))

/-- inverse of the leading `n × n` block by Gauss–Jordan; `none` if singular -/
def inverse (n : Nat) (A : Mat) : Option Mat :=
  let rows : LMat := (List.range n).map fun i =>
    ((List.range n).map fun j => A i j) ++ ((List.range n).map fun j => if i = j then 1 else 0)
  match (List.range n).foldlM gjStep rows with
  | none => none
  | some rows' => some (toFun (rows'.map fun r => r.drop n))

def isSymm (n : Nat) (A : Mat) : Bool := matEq n A fun i j => A j i

/-- the four Moore–Penrose equations, exactly -/
def isPinv (n : Nat) (L R : Mat) : Bool :=
  let LR := toFun (mmul n L R)
  let RL := toFun (mmul n R L)
  matEq n (toFun (mmul n LR L)) L && matEq n (toFun (mmul n RL R)) R && isSymm n LR && isSymm n RL

/-- `(L R) L = L`, exactly, in the summation order of `IsGinv` -/
def isGinv (n : Nat) (L R : Mat) : Bool :=
  (List.range n).all fun i => (List.range n).all fun j =>
    (sumTo n fun l => (sumTo n fun k => L i k * R k l) * L l j) == L i j

/-- `L R = I − J/n`, exactly -/
def isProj (n : Nat) (L R : Mat) : Bool :=
  (List.range n).all fun i => (List.range n).all fun j =>
    (sumTo n fun k => L i k * R k j) == (if i = j then 1 else 0) - 1 / (n : Rat)

/-- Moore–Penrose pseudo-inverse of a symmetric matrix with kernel spanned by the constant
vector (connected-network Laplacian): `(L + J/n)⁻¹ − J/n`, returned only if it satisfies the
four Moore–Penrose equations exactly. -/
def pinvCert (n : Nat) (L : Mat) : Option Mat :=
  match inverse n (fun i j => L i j + 1 / (n : Rat)) with
  | none => none
  | some M =>
    let R := toFun (ofFun n fun i j => M i j - 1 / (n : Rat))
    if isPinv n L R && isGinv n L R && isProj n L R then some R else none

/-- total, materialised version used as the `pinv` parameter of the state machine by the
driver (`[]` reads as the zero matrix when no certified pseudo-inverse exists) -/
def pinvList (n : Nat) (L : Mat) : LMat :=
  match pinvCert n L with
  | some R => ofFun n R
  | none => []

/-- `(L v)_i = δ_ia − δ_ib` for all `i < n`, exactly -/
def isPotential (n : Nat) (L : Mat) (v : Vec) (a b : Nat) : Bool :=
  (List.range n).all fun i =>
    (sumTo n fun j => L i j * v j) == (if i = a then 1 else 0) - (if i = b then 1 else 0)

/-- node potentials of a unit current `a → b`: ground node `n-1`, invert the grounded
Laplacian, and return the potentials only if `L v = e_a − e_b` holds exactly. -/
def potentialCert (n : Nat) (L : Mat) (a b : Nat) : Option Vec :=
  match inverse (n - 1) L with
  | none => none
  | some G =>
    let u : Vec := fun i => (if i = a then 1 else 0) - (if i = b then 1 else 0)
    let vl := (List.range (n - 1)).map fun i => sumTo (n - 1) fun j => G i j * u j
    let v : Vec := fun i => if i < n - 1 then vl.getD i 0 else 0
    if isPotential n L v a b then some v else none

/-- effective resistance by its definition: potential difference of a unit current -/
def effResPotential (n : Nat) (L : Mat) (a b : Nat) : Option Rat :=
  if a = b then some 0 else (potentialCert n L a b).map fun v => v a - v b

/-- cut-connectivity test used by the driver (BFS with fuel `n`) -/
def connected (n : Nat) (adj : Adj) : Bool :=
  let grow (seen : List Nat) : List Nat :=
    (List.range n).filter fun j => seen.contains j || seen.any fun i => adj i j || adj j i
  let final := (List.range n).foldl (fun seen _ => grow seen) [0]
  n == 0 || final.length == n

end Pyunicorn.Circuit

namespace Pyunicorn.Circuit
/-! ### specification vocabulary (propositions used by the theorems) -/

def SymmOn (n : Nat) (A : Mat) : Prop := ∀ i j, i < n → j < n → A i j = A j i

/-- `R` is a generalised inverse of `L`: `(L R) L = L` on the leading `n × n` block
(first Moore–Penrose equation; `np.linalg.pinv` satisfies all four) -/
def IsGinv (n : Nat) (L R : Mat) : Prop :=
  ∀ i j, i < n → j < n → sumTo n (fun l => (sumTo n fun k => L i k * R k l) * L l j) = L i j

/-- `v` are node potentials of a unit current entering at `a` and leaving at `b`:
`(L v)_i = δ_ia − δ_ib` (Kirchhoff's current law with Ohm's law) -/
def IsPot (n : Nat) (L : Mat) (v : Vec) (a b : Nat) : Prop :=
  ∀ i, i < n → sumTo n (fun j => L i j * v j) = (if i = a then 1 else 0) - (if i = b then 1 else 0)

/-- `L R = I − J/n`: `R` inverts `L` on the complement of the constant vectors (what the
pseudo-inverse of a connected network's Laplacian does) -/
def IsProj (n : Nat) (L R : Mat) : Prop :=
  ∀ i j, i < n → j < n → sumTo n (fun k => L i k * R k j) = (if i = j then 1 else 0) - 1 / (n : Rat)

/-- `L R` is symmetric on the leading block (third Moore–Penrose equation) -/
def IsSymProd (n : Nat) (L R : Mat) : Prop :=
  ∀ i j, i < n → j < n →
    sumTo n (fun k => L i k * R k j) = sumTo n (fun k => L j k * R k i)

/-- what the theorems use of `np.linalg.pinv`: the first and the third Moore–Penrose equation
(`L R L = L`, `(L R)ᵀ = L R`) -/
structure IsPinv13 (n : Nat) (L R : Mat) : Prop where
  ginv : IsGinv n L R
  symProd : IsSymProd n L R

/-- cut-connectivity: every proper non-empty node set `S` has a link leaving it -/
def CutConnected (n : Nat) (c : Mat) : Prop :=
  ∀ S : Nat → Bool, (∃ i, i < n ∧ S i = true) → (∃ j, j < n ∧ S j = false) →
    ∃ i j, i < n ∧ j < n ∧ S i = true ∧ S j = false ∧ c i j ≠ 0

end Pyunicorn.Circuit
