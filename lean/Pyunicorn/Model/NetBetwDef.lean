import Pyunicorn.Model.NetBetw
/-
Definition layer for the (n.s.i.) shortest-path / interregional betweenness computed by the Cython
kernel `_nsi_betweenness` (round 3).  Core Lean only, executable (driver request `betwdef`).

* `pathsLev` — ALL shortest paths from `j`, enumerated level by level as lists of nodes;
  `pathWt` — the n.s.i. weight of a path = product of the weights of all its nodes;
* `sigLev` / `sigma` — weighted number of shortest paths (recursion over the last link);
  `sigThruLev` / `sigmaThru` — weighted number of shortest `j → s` paths that pass through `v`;
* `pairDep` — the pair dependency `σ_js(v) / σ_js`;
* `contribDef`, `betwTimesWDef`, `nsiBetweennessDef` — the published double sum
  `b_v = (1/w_v) Σ_{t ∈ targets} Σ_{s ∈ sources, s ≠ v ≠ t} w_t w_s σ_ts(v)/σ_ts`
  (with unit weights: interregional betweenness; with all nodes as sources and targets: twice the
  shortest-path betweenness of an undirected network).
`d` is the matrix of shortest-path lengths (`Net.dist n a` in the theorems, a table in the driver).
-/
namespace Pyunicorn.NetBetw
open Pyunicorn.Net

abbrev DistFn := Nat → Nat → Option Nat

/-- `i` is a predecessor of `l` on the shortest paths from `j`: linked and one level closer to `j` -/
def isPred (a : Adj) (d : DistFn) (j i l : Nat) : Bool :=
  a i l && (match d j i, d j l with
    | some x, some y => x + 1 == y
    | _, _ => false)

/-- the predecessors of `l` among the nodes `< n`, in increasing order -/
def predsDef (n : Nat) (a : Adj) (d : DistFn) (j l : Nat) : List Nat :=
  (List.range n).filter fun i => isPred a d j i l

/-- definition: every shortest path from `j` to `l`, for `l` at distance exactly `lvl` from `j`
(each path is the list of its nodes, `j` first, `l` last) -/
def pathsLev (n : Nat) (a : Adj) (d : DistFn) (j : Nat) : Nat → Nat → List (List Nat)
  | 0, l => if l = j then [[j]] else []
  | lvl + 1, l =>
    if d j l = some (lvl + 1) then
      (predsDef n a d j l).flatMap fun i => (pathsLev n a d j lvl i).map fun p => p ++ [l]
    else []

/-- all shortest paths from `j` to `l` (empty if `l` cannot be reached) -/
def shortestPaths (n : Nat) (a : Adj) (d : DistFn) (j l : Nat) : List (List Nat) :=
  match d j l with
  | some k => pathsLev n a d j k l
  | none => []

/-- n.s.i. weight of a path: product of the weights of all its nodes (both ends included) -/
def pathWt (w : Nat → Rat) (p : List Nat) : Rat := (p.map w).prod

/-- definition: weighted number of shortest paths from `j` to `l` -/
def sigmaPaths (n : Nat) (a : Adj) (w : Nat → Rat) (d : DistFn) (j l : Nat) : Rat :=
  ((shortestPaths n a d j l).map (pathWt w)).sum

/-- definition: weighted number of shortest paths from `j` to `s` that visit `v` -/
def sigmaThruPaths (n : Nat) (a : Adj) (w : Nat → Rat) (d : DistFn) (j v s : Nat) : Rat :=
  (((shortestPaths n a d j s).filter fun p => p.contains v).map (pathWt w)).sum

/-- weighted number of shortest paths `j → l` for `l` at level `lvl`, by recursion over the last link
(what `multiplicity_to_j[l]` accumulates) -/
def sigLev (n : Nat) (a : Adj) (w : Nat → Rat) (d : DistFn) (j : Nat) : Nat → Nat → Rat
  | 0, l => if l = j then w j else 0
  | lvl + 1, l =>
    if d j l = some (lvl + 1) then
      w l * sumToQ n fun i => if isPred a d j i l then sigLev n a w d j lvl i else 0
    else 0

def sigma (n : Nat) (a : Adj) (w : Nat → Rat) (d : DistFn) (j l : Nat) : Rat :=
  match d j l with
  | some k => sigLev n a w d j k l
  | none => 0

/-- weighted number of shortest paths `j → s` through `v`, `s` at level `lvl` (recursion over the last link) -/
def sigThruLev (n : Nat) (a : Adj) (w : Nat → Rat) (d : DistFn) (j v : Nat) : Nat → Nat → Rat
  | 0, s => if s = v then sigLev n a w d j 0 s else 0
  | lvl + 1, s =>
    if s = v then sigLev n a w d j (lvl + 1) s
    else if d j s = some (lvl + 1) then
      w s * sumToQ n fun i => if isPred a d j i s then sigThruLev n a w d j v lvl i else 0
    else 0

def sigmaThru (n : Nat) (a : Adj) (w : Nat → Rat) (d : DistFn) (j v s : Nat) : Rat :=
  match d j s with
  | some k => sigThruLev n a w d j v k s
  | none => 0

/-- `excess_to_j[l]` = the initial value `is_source[l] * w[l]` -/
def excess (w : Nat → Rat) (isSrc : List Bool) (l : Nat) : Rat := if isSrc.getD l false then w l else 0

/-- pair dependency of the pair (`j`, `s`) on `v`: fraction of the (weighted) shortest paths through `v` -/
def pairDep (n : Nat) (a : Adj) (w : Nat → Rat) (d : DistFn) (j v s : Nat) : Rat :=
  sigmaThru n a w d j v s / sigma n a w d j s

/-- contribution of the paths ending in target `j` to node `v`:
`Σ_{s source, s ≠ v, s reachable} w_s · σ_js(v)/σ_js`, nothing for `v = j` -/
def contribDef (n : Nat) (a : Adj) (w : Nat → Rat) (d : DistFn) (isSrc : List Bool) (j v : Nat) : Rat :=
  if v = j then 0 else
    sumToQ n fun s =>
      if s != v && (d j s).isSome then excess w isSrc s * pairDep n a w d j v s else 0

/-- definition of `betweenness_times_w[v]` -/
def betwTimesWDef (n : Nat) (a : Adj) (w : Nat → Rat) (d : DistFn) (isSrc : List Bool)
    (targets : List Nat) (v : Nat) : Rat :=
  (targets.map fun j => w j * contribDef n a w d isSrc j v).sum

/-- the published definition of (n.s.i.) interregional betweenness -/
def nsiBetweennessDef (n : Nat) (a : Adj) (w : Nat → Rat) (d : DistFn) (isSrc : List Bool)
    (targets : List Nat) : List Rat :=
  (List.range n).map fun v => betwTimesWDef n a w d isSrc targets v / w v

/-- the published double sum written with path enumerations only (round 5):
`b_v = (1/w_v) Σ_{t ∈ targets, t ≠ v} w_t Σ_{s source, s ≠ v, reachable from t}
   w_s · (Σ_{shortest t–s paths through v} Π w) / (Σ_{shortest t–s paths} Π w)` -/
def nsiBetweennessEnum (n : Nat) (a : Adj) (w : Nat → Rat) (d : DistFn) (isSrc : List Bool)
    (targets : List Nat) (v : Nat) : Rat :=
  ((targets.map fun t => if v = t then 0 else
      w t * sumToQ n fun s => if s != v && (d t s).isSome then
        excess w isSrc s * (sigmaThruPaths n a w d t v s / sigmaPaths n a w d t s) else 0).sum) / w v

/-- the published definition of interregional betweenness by counting:
`Σ_{t ∈ T, t ≠ v} Σ_{s ∈ S, s ≠ v} #(shortest t–s paths through v) / #(shortest t–s paths)`
(pairs without a connecting path contribute nothing; a target listed twice counts twice) -/
def interregionalCount (n : Nat) (a : Adj) (d : DistFn) (S T : List Nat) (v : Nat) : Rat :=
  (T.map fun t => if v = t then 0 else
    sumToQ n fun s => if s != v && S.contains s && (d t s).isSome then
      ((((shortestPaths n a d t s).filter fun p => p.contains v).length : Nat) : Rat)
        / (((shortestPaths n a d t s).length : Nat) : Rat) else 0).sum

end Pyunicorn.NetBetw
