import Pyunicorn.Model.MpiProto
import Pyunicorn.Generated.StructC19
/-
Round 5 — the kernel behind the multiprocessing split of `Network._nsi_betweenness`
(`core/_ext/numerics.pyx: _nsi_betweenness(N, w, k, flat_neighbors, is_source, targets)`):
work arrays are allocated ONCE before `for j in targets:` and mutated inside it, so that the
result of a batch is a sum of per-target contributions only if every iteration re-initialises
what it reads.  `translate/gen_C19.py` regenerates the classification of every array local
(`readonly` / `reset` / `acc` / `carried`); the model below is the loop with an arbitrary
iteration body over these arrays.  Core Lean only.
-/
namespace Pyunicorn.MpiPool
open Pyunicorn.Mpi Pyunicorn.MpiProto Pyunicorn.Generated

inductive Cls | readonly | reset | acc | carried
deriving DecidableEq, Repr

def clsOfString (s : String) : Cls :=
  if s = "readonly" then .readonly else if s = "reset" then .reset
  else if s = "acc" then .acc else .carried

/-- class of the `a`-th array local of the kernel (regenerated table); beyond the table
there is no array -/
def clsOf (tbl : List (String × String)) (a : Nat) : Cls :=
  match tbl[a]? with
  | some x => clsOfString x.2
  | none => .readonly

def poolCls : Nat → Cls := clsOf StructC19.pool_kernel_arrays

/-- contents of the array locals -/
abbrev Work := Nat → List Int

/-- the top of an iteration as classified: `reset` arrays hold their fresh contents
(`X.fill(c)` / `for l in range(N): X[l] = ...`), every other array what it held -/
def resetBy (cls : Nat → Cls) (fresh : Work) (s : Work) : Work :=
  fun a => if cls a = .reset then fresh a else s a

/-- one iteration `j` of `for j in targets:`; `iter` = the rest of the body: it sees every
array local after the re-initialisation and the target, leaves the arrays it writes in some
state and yields the vector added to the accumulator (`betweenness_times_w += ...`).
`readonly` arrays and the accumulator are not written by the body. -/
def iterStep (cls : Nat → Cls) (fresh : Work) (iter : Work → Nat → Work × List Int)
    (st : Work × List Int) (j : Nat) : Work × List Int :=
  let r := iter (resetBy cls fresh st.1) j
  (fun a => if cls a = .readonly ∨ cls a = .acc then st.1 a else r.1 a, addVec st.2 r.2)

/-- the kernel: `acc = np.zeros(N)`, `for j in targets: ...`, `return acc`; `s0` = the
array locals as allocated (and `offsets` as computed) before the loop -/
def poolKernel (cls : Nat → Cls) (fresh : Work) (iter : Work → Nat → Work × List Int)
    (N : Nat) (s0 : Work) (targets : List Nat) : List Int :=
  (targets.foldl (iterStep cls fresh iter) (s0, List.replicate N 0)).2

/-- `np.sum(pool.map(worker, np.array_split(targets, n)), axis=0)`: every worker process
runs the kernel from the same freshly allocated arrays `s0` -/
def poolRun (cls : Nat → Cls) (fresh : Work) (iter : Work → Nat → Work × List Int)
    (N : Nat) (s0 : Work) (targets : List Nat) (n : Nat) : List Int :=
  ((arraySplit targets n).map (poolKernel cls fresh iter N s0)).foldl addVec (List.replicate N 0)

/-- the static discipline of the kernel and of its call, as a Boolean function of the
regenerated tables -/
def poolKernelOk : Bool :=
  StructC19.pool_kernel_arrays.all (fun x => clsOfString x.2 != .carried) &&
  (StructC19.pool_kernel_arrays.filter (fun x => clsOfString x.2 == .acc)).length == 1 &&
  StructC19.pool_kernel_params_written.isEmpty &&
  StructC19.pool_kernel_scalar_carried.isEmpty &&
  StructC19.pool_kernel_bound_args + 1 == StructC19.pool_kernel_params.length &&
  (match StructC19.pool_kernel_params.getLast? with
   | some t => StructC19.pool_kernel_loop == "for j in " ++ t
   | none => false) &&
  (match (StructC19.pool_kernel_arrays.filter (fun x => clsOfString x.2 == .acc)).head? with
   | some x => StructC19.pool_kernel_return == "return " ++ x.1
   | none => false) &&
  StructC19.pool_kernel_acc_init == "np.zeros(N, dtype=DFIELD)"

end Pyunicorn.MpiPool
