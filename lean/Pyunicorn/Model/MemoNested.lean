import Pyunicorn.Model.Memo
/-
The memoisation machine *as the methods are written* (round 3): a cached method reads some
fields itself and calls other cached methods **through their own caches** (each callee has
its own key, which in general covers different fields than the caller's); what a method does
depends on the argument pattern of the call (`path_lengths()` vs `path_lengths("w")`); every
cache has a bounded number of slots managed exactly as `functools.lru_cache(maxsize=…)` does
(a hit moves the entry to the front, an insertion drops the least recently used entries).

`Memo.Table` (round 1) is the *flattened* view of such a table: `NTable.flatten`.
Core Lean only.
-/
namespace Pyunicorn.Memo

/-- what a cached method does for one argument pattern -/
structure Body where
  direct : List Nat            -- fields the body reads itself (incl. uncached helpers / properties)
  calls : List (Nat × Nat)     -- (callee, argument pattern) of cached methods it calls
deriving Repr, DecidableEq

structure NMethod where
  bodies : List Body           -- specialised bodies for argument patterns 0, 1, …
  dflt : Body                  -- every other argument pattern (union over all branches)
  keyCtrs : List Nat
  keyFlds : List Nat
deriving Repr, DecidableEq

structure NTable where
  methods : List NMethod
  mutators : List Mutator
  maxsize : Option Nat         -- `Cached.lru_params["maxsize"]` (none = unbounded)
deriving Repr, DecidableEq

def NMethod.bodyOf (m : NMethod) (a : Nat) : Body :=
  match m.bodies[a]? with
  | some b => b
  | none => m.dflt

def NMethod.keyOf (m : NMethod) (s : State) : List Nat × List Nat :=
  (m.keyCtrs.map s.ctr, m.keyFlds.map s.stamp)

/-- the fields whose content determines the result of `mi(a)`: the body's own reads and,
transitively, those of the cached methods it calls.  A call `(n, c)` is followed only when
`n < mi` (`NTable.acyclic` states that this is always the case, so nothing is dropped). -/
def closure (t : NTable) : Nat → Nat → Nat → List Nat
  | 0, _, _ => []
  | fuel + 1, mi, a =>
    match t.methods[mi]? with
    | none => []
    | some m =>
      let b := m.bodyOf a
      b.direct ++ b.calls.flatMap fun nc => if nc.1 < mi then closure t fuel nc.1 nc.2 else []

/-- the cached methods reachable from `mi(a)` (for the call-edge sandwich of the harness) -/
def callees (t : NTable) : Nat → Nat → Nat → List Nat
  | 0, _, _ => []
  | fuel + 1, mi, a =>
    match t.methods[mi]? with
    | none => []
    | some m =>
      (m.bodyOf a).calls.flatMap fun nc =>
        if nc.1 < mi then nc.1 :: callees t fuel nc.1 nc.2 else []

/-- the value a newly constructed object (empty caches) computes for `mi(a)` when the fields
carry the stamps `st`: the argument pattern, the stamps of the fields read, the values of the
callees -/
def deepVal (t : NTable) (st : Nat → Nat) : Nat → Nat → Nat → List Nat
  | 0, _, _ => []
  | fuel + 1, mi, a =>
    match t.methods[mi]? with
    | none => []
    | some m =>
      let b := m.bodyOf a
      a :: (b.direct.map st ++
        b.calls.flatMap fun nc => if nc.1 < mi then deepVal t st fuel nc.1 nc.2 else [])

/-- what a fresh object reports for `mi(a)` in state `s` -/
def NTable.current (t : NTable) (s : State) (mi a : Nat) : List Nat :=
  deepVal t s.stamp (mi + 1) mi a

/-! ### the bounded cache of `functools.lru_cache` -/

/-- keep, per method, the first `maxsize` entries (the list is ordered most recently used first) -/
def trimGo (maxsize : Nat) : List Entry → (Nat → Nat) → List Entry
  | [], _ => []
  | e :: es, cnt =>
    if cnt e.m < maxsize then
      e :: trimGo maxsize es (fun m => if m = e.m then cnt m + 1 else cnt m)
    else trimGo maxsize es cnt

def lruTrim : Option Nat → List Entry → List Entry
  | none, c => c
  | some k, c => trimGo k c (fun _ => 0)

/-- a cache hit moves the entry to the front -/
def touch (e : Entry) (c : List Entry) : List Entry := e :: c.erase e

/-- one event of the log: method, argument pattern, hit? -/
abbrev Event := Nat × Nat × Bool

structure NRes where
  state : State
  val : List Nat
  log : List Event

/-- run the calls of a body from left to right, threading the caches -/
def ncalls (q : State → Nat → Nat → NRes) (mi : Nat) : List (Nat × Nat) → State → NRes
  | [], s => ⟨s, [], []⟩
  | nc :: rest, s =>
    if nc.1 < mi then
      let r := q s nc.1 nc.2
      let r2 := ncalls q mi rest r.state
      ⟨r2.state, r.val ++ r2.val, r.log ++ r2.log⟩
    else ncalls q mi rest s

/-- the call `mi(a)` on an object in state `s`: hit-or-compute, where computing runs the
callees through their own caches and then stores the result under the caller's key -/
def nquery (t : NTable) : Nat → State → Nat → Nat → NRes
  | 0, s, _, _ => ⟨s, [], []⟩
  | fuel + 1, s, mi, a =>
    match t.methods[mi]? with
    | none => ⟨s, [], []⟩
    | some m =>
      let k := m.keyOf s
      match findEntry s.cache mi a k with
      | some e => ⟨{ s with cache := touch e s.cache }, e.val, [(mi, a, true)]⟩
      | none =>
        let b := m.bodyOf a
        let r := ncalls (fun s' n c => nquery t fuel s' n c) mi b.calls s
        let v := a :: (b.direct.map s.stamp ++ r.val)
        ⟨{ r.state with cache := lruTrim t.maxsize (⟨mi, a, k.1, k.2, v⟩ :: r.state.cache) },
         v, (mi, a, false) :: r.log⟩

/-- one step of a history; a query's output is `(returned, what a fresh object reports)` -/
def nstep (t : NTable) (s : State) : Op → State × Option (List Nat × List Nat)
  | .mutate o =>
      match t.mutators[o]? with
      | some mu => (applyMut mu s, none)
      | none => (s, none)
  | .evict i => ({ s with cache := s.cache.eraseIdx i }, none)
  | .query mi a =>
      if mi < t.methods.length then
        let r := nquery t (mi + 1) s mi a
        (r.state, some (r.val, t.current s mi a))
      else (s, none)

def nrun (t : NTable) : State → List Op → List (Option (List Nat × List Nat))
  | _, [] => []
  | s, op :: ops => let r := nstep t s op; r.2 :: nrun t r.1 ops

/-! ### well-formedness (decidable) -/

/-- every call goes to a method with a smaller index (the translator orders the methods of a
class topologically; a cycle of cached methods makes this fail) -/
def NTable.acyclic (t : NTable) : Bool :=
  (List.range t.methods.length).all fun mi =>
    match t.methods[mi]? with
    | none => true
    | some m => (m.dflt :: m.bodies).all fun b => b.calls.all fun nc => nc.1 < mi

/-- the flat method (round-1 model) of `mi` called with pattern `a` -/
def flatMethod (t : NTable) (mi a : Nat) : Method :=
  match t.methods[mi]? with
  | some m => ⟨closure t (mi + 1) mi a, m.keyCtrs, m.keyFlds⟩
  | none => ⟨[], [], []⟩

/-- the argument patterns to check: the specialised ones and one unspecialised -/
def NMethod.patterns (m : NMethod) : List Nat := List.range (m.bodies.length + 1)

def NTable.flatten (t : NTable) : Table :=
  ⟨(List.range t.methods.length).flatMap fun mi =>
      match t.methods[mi]? with
      | some m => m.patterns.map fun a => flatMethod t mi a
      | none => [],
   t.mutators⟩

/-- `nwf`: no cycles, and for every method, every argument pattern and every mutator the
caller's *own* key covers everything the call reads **including what its callees read**. -/
def nwf (t : NTable) : Bool := t.acyclic && wf t.flatten

/-- (method, pattern, mutator) triples violating the coverage — printed by the driver -/
def noffending (t : NTable) : List (Nat × Nat × Nat) :=
  (List.range t.methods.length).flatMap fun mi =>
    match t.methods[mi]? with
    | none => []
    | some m => m.patterns.flatMap fun a =>
      let fm := flatMethod t mi a
      (List.range t.mutators.length).filterMap fun oi =>
        match t.mutators[oi]? with
        | some o =>
          if covered fm o && (o.resets.all fun c => !(fm.keyCtrs.contains c)) then none
          else some (mi, a, oi)
        | none => none

/-- the nested table agrees with a flat table produced independently (same methods in the
same order, the flat read set contains the closure of every pattern) -/
def flatCovers (t : NTable) (f : Table) : Bool :=
  t.methods.length == f.methods.length && t.mutators == f.mutators &&
  (List.range t.methods.length).all fun mi =>
    match t.methods[mi]?, f.methods[mi]? with
    | some m, some fm =>
      m.keyCtrs == fm.keyCtrs && m.keyFlds == fm.keyFlds &&
      m.patterns.all fun a => (closure t (mi + 1) mi a).all fun x => fm.reads.contains x
    | _, _ => false

/-! ### calls that raise (round 4)

A cached method that raises stores nothing under its own key (`functools.lru_cache` only stores
returned values), but the nested cached calls that had already returned keep their entries. -/

/-- `mi(a)` raises along `path = k :: rest`: its first `k` nested cached calls return normally
(their results stay in the callees' caches); if `rest` is non-empty the exception comes out of
nested call number `k`, which is itself aborted along `rest`.  Nothing is stored for `mi`; a call
that is served from the cache does not run the body and cannot raise. -/
def nabort (t : NTable) : Nat → State → Nat → Nat → List Nat → State
  | 0, s, _, _, _ => s
  | _ + 1, s, _, _, [] => s
  | fuel + 1, s, mi, a, k :: rest =>
    match t.methods[mi]? with
    | none => s
    | some m =>
      match findEntry s.cache mi a (m.keyOf s) with
      | some _ => s
      | none =>
        let calls := (m.bodyOf a).calls
        let s1 := (ncalls (fun s' n c => nquery t fuel s' n c) mi (calls.take k) s).state
        match rest, calls[k]? with
        | _ :: _, some nc => if nc.1 < mi then nabort t fuel s1 nc.1 nc.2 rest else s1
        | _, _ => s1

/-- histories with raising calls -/
inductive XOp
  | op (o : Op)
  | raises (mi a : Nat) (path : List Nat)
deriving Repr

def xstep (t : NTable) (s : State) : XOp → State × Option (List Nat × List Nat)
  | .op o => nstep t s o
  | .raises mi a path => (nabort t (mi + 1) s mi a path, none)

def xrun (t : NTable) : State → List XOp → List (Option (List Nat × List Nat))
  | _, [] => []
  | s, op :: ops => let r := xstep t s op; r.2 :: xrun t r.1 ops

end Pyunicorn.Memo
