import Pyunicorn.Model.Coupling2
/-!
# Model of the similarity / coupling code, part 3 (C10, round 3) — core Lean only

`funcnet/coupling_analysis_pure_python.py`:

* the pair loops of `_calculate_cc` / `_calculate_mi`
  (`for i in range(N - only_tri): for j in range((i+1)*only_tri, N)`) and the `only_tri`
  post-processing of the three lag modes,
* `_calculate_mi`: the joint histogram walk `hist2D[array[tau_max,i,k], array[t,j,k]] += 1`, its
  reset inside the entropy loop, the `'max'` scan (`mi > maxcross`, `argmax = tau`),
* the surrogate matrices `time_surrogate_for_cc` (one joint draw `perm` of sample times) and
  `shuffled_surrogate_for_cc` (one shuffle per series), as signed squares.
-/
namespace Pyunicorn.Coupling

/-! ## pair loops and `only_tri` -/

/-- the `j` loop of row `i` (`for j in range((i+1)*only_tri, N)` written as `for j in range(n):
if (i+1)*only_tri <= j`): state after `n` values of `j` -/
def pairRow {α : Type} (val : Nat → Nat → α) (ot i : Nat) : Nat → (Nat → Nat → α) → (Nat → Nat → α)
  | 0, M => M
  | j+1, M =>
    let M' := pairRow val ot i j M
    if (i + 1) * ot ≤ j then upd2 M' i j (val i j) else M'

/-- the `i` loop: state after the rows `< n` (the code runs `n = N - only_tri` rows) -/
def pairAll {α : Type} (zero : α) (val : Nat → Nat → α) (ot N : Nat) : Nat → (Nat → Nat → α)
  | 0 => fun _ _ => zero
  | i+1 => pairRow val ot i N (pairAll zero val ot N i)

/-- one lag slice of `corrmat` when the pair loops are done -/
def pairMat (val : Nat → Nat → Rat) (onlyTri : Bool) (N : Nat) : Nat → Nat → Rat :=
  let ot := if onlyTri then 1 else 0
  pairAll 0 val ot N (N - ot)

/-- `lag_mode='all'`: `corrmat + corrmat.transpose(0, 2, 1)[::-1]` (only if `only_tri`) -/
def triAll (val : Nat → Nat → Nat → Rat) (onlyTri : Bool) (N tauMax t i j : Nat) : Rat :=
  let C := fun t => pairMat (val t) onlyTri N
  if onlyTri then C t i j + C (2 * tauMax - t) j i else C t i j

/-- `lag_mode='sum'`: `corrmat[0] += corrmat[1].T; corrmat[1] = corrmat[0].T` -/
def triSum (v0 v1 : Nat → Nat → Rat) (onlyTri : Bool) (N : Nat) : (Nat → Nat → Rat) × (Nat → Nat → Rat) :=
  let c0 := pairMat v0 onlyTri N
  let c1 := pairMat v1 onlyTri N
  if onlyTri then
    let c0' := fun i j => c0 i j + c1 j i
    (c0', fun i j => c0' j i)
  else (c0, c1)

/-- `lag_mode='max'`: `corrmat[0] += corrmat[0].T; corrmat[1] -= corrmat[1].T` -/
def triMax (v0 v1 : Nat → Nat → Rat) (onlyTri : Bool) (N : Nat) : (Nat → Nat → Rat) × (Nat → Nat → Rat) :=
  let c0 := pairMat v0 onlyTri N
  let c1 := pairMat v1 onlyTri N
  if onlyTri then (fun i j => c0 i j + c0 j i, fun i j => c1 i j - c1 j i) else (c0, c1)

/-! ## `_calculate_mi` -/

/-- `for k in range(corr_range): hist2D[array[tau_max, i, k], array[t, j, k]] += 1` on the flat
`bins × bins` array `H` -/
def pureMiHist (S : Nat → Nat → Nat → Nat) (tauMax cr bins i j t : Nat) (H : Nat → Nat) : Nat → Nat :=
  incWalk (fun k => S tauMax i k * bins + S t j k) cr H

/-- `for m in range(bins): for n in range(bins): …; hist2D[m, n] = 0` -/
def pureMiReset (bins : Nat) (H : Nat → Nat) : Nat → Nat :=
  fun c => if c < bins * bins then 0 else H c

/-- mode `'max'` of `_calculate_mi`: `maxcross = 0.0; argmax = 0; if mi > maxcross: maxcross = mi;
argmax = tau` (`tau = t - tau_max`, no `abs`) -/
def pureMiMaxScan (c : Nat → Rat) (tauMax : Nat) : Nat → Rat × Int
  | 0 => (0, 0)
  | t+1 =>
    let st := pureMiMaxScan c tauMax t
    if c t > st.1 then (c t, (t : Int) - (tauMax : Int)) else st

/-! ## surrogate matrices of the pure-Python class (signed squares) -/

/-- `time_surrogate_for_cc(sample_range, tau_max, 'all')[t, i, j]`:
`sample_array[t] = dataarray[:, perm + (t - tau_max)]` (standardised), reference slice `tau_max` -/
def timeSurrSq (x : Nat → Nat → Rat) (perm : Nat → Nat) (sr tauMax t i j : Nat) : Rat :=
  pearsonSq sr (fun s => x i (perm s)) (fun s => x j (perm s + t - tauMax))

/-- `shuffled_surrogate_for_cc`: row `i` of the copy is shuffled by `sh i`, the first `corr_range`
samples are standardised and correlated at lag `0`; mode `'all'` repeats that matrix `2 tau_max + 1`
times, so the entry does not depend on `t` -/
def shufSurrSq (x : Nat → Nat → Rat) (sh : Nat → Nat → Nat) (cr : Nat) (_t i j : Nat) : Rat :=
  pearsonSq cr (fun s => x i (sh i s)) (fun s => x j (sh j s))

end Pyunicorn.Coupling
