/-
Purity model for C06: cached results are *shared objects* (`lru_cache` returns the stored
object itself); a method may edit shared objects in place.  The model tracks which shared
objects have been edited without being restored ("dirty") and propagates dirtiness to
everything computed from them (the worst case).  Core Lean only.
-/
namespace Pyunicorn.Pure

inductive Kind | result | field | arg
deriving Repr, DecidableEq

/-- one in-place statement found by the effects translator -/
structure Edit where
  kind : Kind
  name : String
  safe : Bool        -- restored before returning, or documented in-place on an argument
deriving Repr, DecidableEq

/-- abstract method: sub-queries whose result object it obtains, fields it reads, and its
unrestored edits (targets: result of sub-query `i`, field `f`, caller argument `k`) -/
inductive Target | result (m : Nat) | field (f : Nat) | arg (k : Nat)
deriving Repr, DecidableEq

structure Method where
  calls : List Nat
  reads : List Nat
  edits : List Target
deriving Repr, DecidableEq

structure State where
  cache : List (Nat × Bool)     -- cached method ↦ its stored object differs from the fresh value
  dirtyFields : List Nat
  dirtyArgs : List Nat
deriving Repr, DecidableEq

def State.init : State := ⟨[], [], []⟩

def lookup (m : Nat) : List (Nat × Bool) → Option Bool
  | [] => none
  | (k, d) :: t => if k = m then some d else lookup m t

def markResult (m : Nat) (c : List (Nat × Bool)) : List (Nat × Bool) :=
  c.map fun p => if p.1 = m then (p.1, true) else p

def applyEdit (s : State) : Target → State
  | .result m => { s with cache := markResult m s.cache }
  | .field f => { s with dirtyFields := f :: s.dirtyFields }
  | .arg k => { s with dirtyArgs := k :: s.dirtyArgs }

/-- query method `mi` (fuel bounds the nesting depth of cached calls); returns the new
state and whether the returned object differs from what a fresh object would return -/
def query (tbl : List Method) : Nat → State → Nat → State × Bool
  | 0, s, _ => (s, false)
  | fuel + 1, s, mi =>
    match lookup mi s.cache with
    | some d => (s, d)
    | none =>
      match tbl[mi]? with
      | none => (s, false)
      | some m =>
        let r := m.calls.foldl (fun (acc : State × Bool) c =>
          let q := query tbl fuel acc.1 c
          (q.1, acc.2 || q.2)) (s, false)
        let s1 := r.1
        let d := r.2 || m.reads.any (fun f => s1.dirtyFields.contains f)
        let s2 := { s1 with cache := (mi, d) :: s1.cache }
        (m.edits.foldl applyEdit s2, d)

def run (tbl : List Method) (fuel : Nat) : State → List Nat → List Bool
  | _, [] => []
  | s, q :: qs => let r := query tbl fuel s q; r.2 :: run tbl fuel r.1 qs

def State.clean (s : State) : Prop :=
  s.dirtyFields = [] ∧ s.dirtyArgs = [] ∧ ∀ p ∈ s.cache, p.2 = false

/-- a table is clean when no method has an unrestored edit -/
def tableClean (tbl : List Method) : Bool := tbl.all fun m => m.edits.isEmpty

/-- the decidable check applied to the translator's output -/
def effectsClean (effects : List (String × List Edit)) : Bool :=
  effects.all fun e => e.2.all fun ed => ed.safe

def offenders (effects : List (String × List Edit)) : List String :=
  (effects.filter fun e => !(e.2.all fun ed => ed.safe)).map (·.1)


/-! ### temporary in-place edits with restore

The two literal forms the effects translator accepts as "restored" (`translate/gen_C06.py`),
as functions on the content of the shared array.  `α` is the entry type (floats incl. ±inf,
nan); only equality with the written constants matters. -/

/-- `x[m] = c` for a boolean mask `m` of the same length (numpy boolean-mask assignment) -/
def setMask {α : Type} (x : List α) (m : List Bool) (c : α) : List α :=
  List.zipWith (fun e b => if b then c else e) x m

/-- form 1: `m = flag(x); x[m] = c; …; x[m] = inf` where `flag` is `np.isinf` or `· == np.inf`;
the mask is computed once, before the first edit -/
def editRestoreMask {α : Type} (flag : α → Bool) (c inf : α) (x : List α) : List α :=
  setMask (setMask x (x.map flag) c) (x.map flag) inf

/-- `np.fill_diagonal(x, c)` on a (row-major) matrix -/
def fillDiagFrom {α : Type} (c : α) : Nat → List (List α) → List (List α)
  | _, [] => []
  | i, r :: t => r.set i c :: fillDiagFrom c (i + 1) t
def fillDiag {α : Type} (c : α) (x : List (List α)) : List (List α) := fillDiagFrom c 0 x

/-- form 2: `np.fill_diagonal(x, a); …; np.fill_diagonal(x, z)` -/
def editRestoreDiag {α : Type} (a z : α) (x : List (List α)) : List (List α) :=
  fillDiag z (fillDiag a x)

/-- what the translator emits per restored variable -/
inductive Restore
  | maskInf      -- form 1
  | diagInfZero  -- form 2
deriving Repr, DecidableEq

/-! ### compiled kernels: write sets and the provenance of what Python hands them

`translate/gen_C06.py` reads, from the `.pyx` / `.c` text, for every kernel which array (or
Python-object) parameters it stores into, and, from every Python call site, where each argument
object comes from.  Round 3. -/

/-- where the object passed for a parameter comes from: `fresh` = positively a new object made in
the calling function (allocation, `.copy()`, `to_cy`, arithmetic …); `result` / `field` / `arg` =
(a view of) a cached result, an attribute of `self`, a caller argument; `unknown` = none of these
could be established -/
inductive Prov | fresh | result | field | arg | unknown
deriving Repr, DecidableEq

structure KParam where
  name : String
  array : Bool       -- ndarray / memoryview / untyped Python object (lists of twins)
  written : Bool     -- the kernel (or a callee / C routine it hands the buffer to) stores into it
  returned : Bool    -- the kernel returns this very object
deriving Repr, DecidableEq

structure KArg where
  param : String
  prov : Prov
  src : String
deriving Repr, DecidableEq

structure KCall where
  site : String
  kernel : String
  args : List KArg
deriving Repr, DecidableEq

def findKernel (ks : List (String × List KParam)) (k : String) : Option (List KParam) :=
  match ks with
  | [] => none
  | (n, ps) :: t => if n = k then some ps else findKernel t k

def findParam (ps : List KParam) (p : String) : Option KParam :=
  match ps with
  | [] => none
  | q :: t => if q.name = p then some q else findParam t p

/-- does kernel `k` store into its parameter `p`?  Unknown kernels / parameters count as written
(so a table that lost an entry cannot make the check pass). -/
def paramWritten (ks : List (String × List KParam)) (k p : String) : Bool :=
  match findKernel ks k with
  | none => true
  | some ps => match findParam ps p with
    | none => true
    | some q => q.written

def argClean (ks : List (String × List KParam)) (k : String) (a : KArg) : Bool :=
  !(paramWritten ks k a.param) || decide (a.prov = .fresh)

/-- the decidable check on the generated tables: every written parameter of every kernel call
receives a positively fresh object -/
def kernelCallsClean (ks : List (String × List KParam)) (calls : List KCall) : Bool :=
  calls.all fun c => c.args.all (argClean ks c.kernel)

def kernelOffenders (ks : List (String × List KParam)) (calls : List KCall) : List String :=
  (calls.filter fun c => !(c.args.all (argClean ks c.kernel))).map (·.site)

/-- heap semantics of one kernel call: parameter bound to heap location `loc`; if the kernel
writes the parameter the object there gets an arbitrary new content `newval` -/
structure Bind (α : Type) where
  loc : Nat
  written : Bool
  newval : α

def applyCall {α : Type} (h : List α) (bs : List (Bind α)) : List α :=
  bs.foldl (fun h b => if b.written then h.set b.loc b.newval else h) h

/-- the bindings of one execution of a call site: `env` places every argument object on the
heap, `out` is whatever the kernel computes for it; whether it is stored is decided by the
kernel table -/
def callBinds {α : Type} (ks : List (String × List KParam)) (c : KCall) (env : KArg → Nat)
    (out : KArg → α) : List (Bind α) :=
  c.args.map fun a => ⟨env a, paramWritten ks c.kernel a.param, out a⟩

/-- a history of kernel executions -/
def runSteps {α : Type} (ks : List (String × List KParam)) (h : List α)
    (steps : List (KCall × (KArg → Nat) × (KArg → α))) : List α :=
  steps.foldl (fun h s => applyCall h (callBinds ks s.1 s.2.1 s.2.2)) h

/-! ### constructors: fields that are the caller's object -/

structure CtorAlias where
  site : String            -- module:Class.method
  field : String
  arg : String
  family : List String     -- the class, its ancestors and descendants
deriving Repr, DecidableEq

/-- no field that is bound to a caller argument itself is ever edited in place by a method of
the class family (mutators included) -/
def ctorAliasesUnedited (al : List CtorAlias) (edits : List (String × String)) : Bool :=
  al.all fun a => edits.all fun e => !(a.family.contains e.1 && e.2 == a.field)

def ctorOffenders (al : List CtorAlias) (edits : List (String × String)) : List String :=
  (al.filter fun a => !(edits.all fun e => !(a.family.contains e.1 && e.2 == a.field))).map
    fun a => a.site ++ ":" ++ a.field

/-- heap location of field `f` of an object built from `n` caller arguments (locations
`0 … n-1`): the argument's own location if the field is an alias, a location of its own
otherwise (`own f` numbers the non-alias fields) -/
def fieldLoc (n : Nat) (aliases : List (String × Nat)) (own : String → Nat) (f : String) : Nat :=
  match aliases.lookup f with
  | some k => k
  | none => n + own f

/-- a history of in-place edits of fields (by the constructor, mutators, queries): each stores
an arbitrary new content into the object the field refers to -/
def editFields {α : Type} (n : Nat) (aliases : List (String × Nat)) (own : String → Nat)
    (h : List α) (edits : List (String × α)) : List α :=
  edits.foldl (fun h e => h.set (fieldLoc n aliases own e.1) e.2) h

/-! ### named link-attribute slots written inside value-returning methods (round 4)

Measures such as `SpatialNetwork.distance`, `ClimateNetwork.inv_correlation_distance`,
`TsonisClimateNetwork.correlation` and everything built on `ClimateNetwork._weighted_metric` store a
link attribute on the object and hand its *name* to a generic measure.  `translate/attrs_C06.py`
turns the body of every public zero-argument value-returning method of every class into a list of
steps; generating expressions are numbered (`gen`). -/

inductive AStep
  | ensure (slot : String) (gen : Nat)   -- `if not self.find_link_attribute(S): self.set_link_attribute(S, E)`
  | store (slot : String) (gen : Nat)    -- `self.set_link_attribute(S, E)`
  | use (slot : String)                  -- `self.<measure>(S)`: the value depends on the slot's content
  | once (key : String) (body : List (String × Nat))  -- `self.m()`, `m` cached: stores on the first call only
  | other (why : String)                 -- an access the translator could not classify
deriving Repr, DecidableEq

/-- the object's link attributes (most recent binding first) and the cached methods already computed -/
structure AState where
  slots : List (String × Nat)
  done : List String
deriving Repr, DecidableEq

def AState.init : AState := ⟨[], []⟩

def slotGet (s : String) : List (String × Nat) → Option Nat
  | [] => none
  | (k, g) :: t => if k = s then some g else slotGet s t

/-- one step; the second component lists what the step observes (content of the slot read; `none`
= the attribute does not exist, the real code raises) -/
def execStep (st : AState) : AStep → AState × List (Option Nat)
  | .ensure s g =>
      (if (slotGet s st.slots).isSome then st else { st with slots := (s, g) :: st.slots }, [])
  | .store s g => ({ st with slots := (s, g) :: st.slots }, [])
  | .use s => (st, [slotGet s st.slots])
  | .once k body =>
      if st.done.contains k then (st, [])
      else ({ slots := body.reverse ++ st.slots, done := k :: st.done }, [])
  | .other _ => (st, [])

def execSteps (st : AState) : List AStep → AState × List (Option Nat)
  | [] => (st, [])
  | a :: t =>
      let r := execStep st a
      let r2 := execSteps r.1 t
      (r2.1, r.2 ++ r2.2)

def findSteps (q : String) : List (String × List AStep) → Option (List AStep)
  | [] => none
  | (n, steps) :: t => if n = q then some steps else findSteps q t

/-- a query sequence on one object: per query, what it observed -/
def arun (tbl : List (String × List AStep)) (st : AState) : List String → List (List (Option Nat))
  | [] => []
  | q :: qs =>
    match findSteps q tbl with
    | none => [] :: arun tbl st qs
    | some steps => let r := execSteps st steps; r.2 :: arun tbl r.1 qs

/-- state after a query sequence -/
def afinal (tbl : List (String × List AStep)) (st : AState) : List String → AState
  | [] => st
  | q :: qs =>
    match findSteps q tbl with
    | none => afinal tbl st qs
    | some steps => afinal tbl (execSteps st steps).1 qs

/-- what the query observes on a fresh object -/
def afresh (tbl : List (String × List AStep)) (q : String) : List (Option Nat) :=
  match findSteps q tbl with
  | none => []
  | some steps => (execSteps AState.init steps).2

def stepWrites : AStep → List (String × Nat)
  | .ensure s g => [(s, g)]
  | .store s g => [(s, g)]
  | .once _ body => body
  | _ => []

def stepOnces : AStep → List (String × List (String × Nat))
  | .once k body => [(k, body)]
  | _ => []

def writesOf (tbl : List (String × List AStep)) : List (String × Nat) :=
  tbl.flatMap fun m => m.2.flatMap stepWrites

def oncesOf (tbl : List (String × List AStep)) : List (String × List (String × Nat)) :=
  tbl.flatMap fun m => m.2.flatMap stepOnces

/-- every slot has one generating expression -/
def slotsConsistent (w : List (String × Nat)) : Bool :=
  w.all fun p => w.all fun q => !(p.1 == q.1) || p.2 == q.2

def oncesConsistent (o : List (String × List (String × Nat))) : Bool :=
  o.all fun p => o.all fun q => !(p.1 == q.1) || p.2 == q.2

/-- every slot a method reads was written (or made sure of) earlier in the same method; no
unclassified access.  `p` = slots known to exist. -/
def covered : List String → List AStep → Bool
  | _, [] => true
  | p, .ensure s _ :: t => covered (s :: p) t
  | p, .store s _ :: t => covered (s :: p) t
  | p, .use s :: t => p.contains s && covered p t
  | p, .once _ body :: t => covered (body.map (·.1) ++ p) t
  | _, .other _ :: _ => false

/-- the decidable check applied to the translator's table of one class -/
def attrTableOK (tbl : List (String × List AStep)) : Bool :=
  slotsConsistent (writesOf tbl) && oncesConsistent (oncesOf tbl) &&
    tbl.all fun m => covered [] m.2

def attrOffenders (tbl : List (String × List AStep)) : List String :=
  let w := writesOf tbl
  (tbl.filter fun m => !(covered [] m.2) ||
    !((m.2.flatMap stepWrites).all fun p => w.all fun q => !(p.1 == q.1) || p.2 == q.2)).map (·.1)

/-- on a network without links `set_link_attribute` iterates over an empty edge sequence: nothing
is stored, the attribute never comes into existence.  The table of such an object is the class
table with every write dropped. -/
def isRead : AStep → Bool
  | .use _ => true
  | .other _ => true
  | _ => false

def linkless (tbl : List (String × List AStep)) : List (String × List AStep) :=
  tbl.map fun m => (m.1, m.2.filter isRead)

/-- slots sorted by first appearance, for the driver -/
def showSlots (st : AState) : List (String × Nat) :=
  st.slots.reverse.foldl (fun acc p =>
    if acc.any (fun q => q.1 == p.1) then acc.map (fun q => if q.1 == p.1 then p else q)
    else acc ++ [p]) []

end Pyunicorn.Pure
