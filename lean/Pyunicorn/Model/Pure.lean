/-
Purity model for C06: cached results are *shared objects* (`lru_cache` returns the stored
object itself); a method may edit shared objects in place.  The model tracks which shared
objects have been edited without being restored ("dirty") and propagates dirtiness to
everything computed from them (the worst case).  Core Lean only.
-/
namespace Pyunicorn.Pure

inductive Kind | result | field | arg
deriving Repr, DecidableEq

/-- one in-place statement found by the effects translator -/
structure Edit where
  kind : Kind
  name : String
  safe : Bool        -- restored before returning, or documented in-place on an argument
deriving Repr, DecidableEq

/-- abstract method: sub-queries whose result object it obtains, fields it reads, and its
unrestored edits (targets: result of sub-query `i`, field `f`, caller argument `k`) -/
inductive Target | result (m : Nat) | field (f : Nat) | arg (k : Nat)
deriving Repr, DecidableEq

structure Method where
  calls : List Nat
  reads : List Nat
  edits : List Target
deriving Repr, DecidableEq

structure State where
  cache : List (Nat × Bool)     -- cached method ↦ its stored object differs from the fresh value
  dirtyFields : List Nat
  dirtyArgs : List Nat
deriving Repr, DecidableEq

def State.init : State := ⟨[], [], []⟩

def lookup (m : Nat) : List (Nat × Bool) → Option Bool
  | [] => none
  | (k, d) :: t => if k = m then some d else lookup m t

def markResult (m : Nat) (c : List (Nat × Bool)) : List (Nat × Bool) :=
  c.map fun p => if p.1 = m then (p.1, true) else p

def applyEdit (s : State) : Target → State
  | .result m => { s with cache := markResult m s.cache }
  | .field f => { s with dirtyFields := f :: s.dirtyFields }
  | .arg k => { s with dirtyArgs := k :: s.dirtyArgs }

/-- query method `mi` (fuel bounds the nesting depth of cached calls); returns the new
state and whether the returned object differs from what a fresh object would return -/
def query (tbl : List Method) : Nat → State → Nat → State × Bool
  | 0, s, _ => (s, false)
  | fuel + 1, s, mi =>
    match lookup mi s.cache with
    | some d => (s, d)
    | none =>
      match tbl[mi]? with
      | none => (s, false)
      | some m =>
        let r := m.calls.foldl (fun (acc : State × Bool) c =>
          let q := query tbl fuel acc.1 c
          (q.1, acc.2 || q.2)) (s, false)
        let s1 := r.1
        let d := r.2 || m.reads.any (fun f => s1.dirtyFields.contains f)
        let s2 := { s1 with cache := (mi, d) :: s1.cache }
        (m.edits.foldl applyEdit s2, d)

def run (tbl : List Method) (fuel : Nat) : State → List Nat → List Bool
  | _, [] => []
  | s, q :: qs => let r := query tbl fuel s q; r.2 :: run tbl fuel r.1 qs

def State.clean (s : State) : Prop :=
  s.dirtyFields = [] ∧ s.dirtyArgs = [] ∧ ∀ p ∈ s.cache, p.2 = false

/-- a table is clean when no method has an unrestored edit -/
def tableClean (tbl : List Method) : Bool := tbl.all fun m => m.edits.isEmpty

/-- the decidable check applied to the translator's output -/
def effectsClean (effects : List (String × List Edit)) : Bool :=
  effects.all fun e => e.2.all fun ed => ed.safe

def offenders (effects : List (String × List Edit)) : List String :=
  (effects.filter fun e => !(e.2.all fun ed => ed.safe)).map (·.1)


/-! ### temporary in-place edits with restore

The two literal forms the effects translator accepts as "restored" (`translate/gen_C06.py`),
as functions on the content of the shared array.  `α` is the entry type (floats incl. ±inf,
nan); only equality with the written constants matters. -/

/-- `x[m] = c` for a boolean mask `m` of the same length (numpy boolean-mask assignment) -/
def setMask {α : Type} (x : List α) (m : List Bool) (c : α) : List α :=
  List.zipWith (fun e b => if b then c else e) x m

/-- form 1: `m = flag(x); x[m] = c; …; x[m] = inf` where `flag` is `np.isinf` or `· == np.inf`;
the mask is computed once, before the first edit -/
def editRestoreMask {α : Type} (flag : α → Bool) (c inf : α) (x : List α) : List α :=
  setMask (setMask x (x.map flag) c) (x.map flag) inf

/-- `np.fill_diagonal(x, c)` on a (row-major) matrix -/
def fillDiagFrom {α : Type} (c : α) : Nat → List (List α) → List (List α)
  | _, [] => []
  | i, r :: t => r.set i c :: fillDiagFrom c (i + 1) t
def fillDiag {α : Type} (c : α) (x : List (List α)) : List (List α) := fillDiagFrom c 0 x

/-- form 2: `np.fill_diagonal(x, a); …; np.fill_diagonal(x, z)` -/
def editRestoreDiag {α : Type} (a z : α) (x : List (List α)) : List (List α) :=
  fillDiag z (fillDiag a x)

/-- what the translator emits per restored variable -/
inductive Restore
  | maskInf      -- form 1
  | diagInfZero  -- form 2
deriving Repr, DecidableEq

end Pyunicorn.Pure
