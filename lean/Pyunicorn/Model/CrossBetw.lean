import Pyunicorn.Model.Cross
import Pyunicorn.Model.NetBetwDef
/-
Round 4: the betweenness delegates of `InteractingNetworks`
(`cross_betweenness`, `internal_betweenness`, `nsi_cross_betweenness`,
interacting_networks.py:1448-1498, 1711-1736) through
`Network.interregional_betweenness` / `nsi_interregional_betweenness` →
`Network.nsi_betweenness(sources, targets, nsi)` (network.py:2862-2970) →
`Network._nsi_betweenness` → the Cython kernel `_nsi_betweenness`, whose loop-level model is
C03's `Pyunicorn.NetBetw` (imported, not edited).  Core Lean only.
-/
namespace Pyunicorn.Cross
open Pyunicorn.NetBetw

/-- `is_source = np.zeros(N, dtype=MASK); is_source[sources] = 1` (network.py:2956-2958):
one store per listed source -/
def srcMask (n : Nat) (sources : List Nat) : List Bool :=
  sources.foldl (fun m s => m.set s true) (List.replicate n false)

/-- `is_source[range(0, N)] = 1` — the default `sources=None` -/
def srcMaskAll (n : Nat) : List Bool := srcMask n (List.range n)

/-- `cross_betweenness(L1, L2)` = `interregional_betweenness(sources=L1, targets=L2)`
= `nsi_betweenness(sources, targets, nsi=False)`: unit weights (`np.ones_like(w)`), the targets in
the caller's order -/
def crossBetweenness (n : Nat) (A : Adj) (L1 L2 : List Nat) : List Rat :=
  nsiBetweenness n A (fun _ => 1) (srcMask n L1) L2

/-- `internal_betweenness(L)` = `interregional_betweenness(sources=L, targets=L)` -/
def internalBetweenness (n : Nat) (A : Adj) (L : List Nat) : List Rat :=
  crossBetweenness n A L L

/-- `nsi_cross_betweenness(L1, L2)` = `nsi_interregional_betweenness(sources=L1, targets=L2)`
= `nsi_betweenness(sources, targets)` with the node weights -/
def nsiCrossBetweenness (n : Nat) (A : Adj) (w : Nat → Rat) (L1 L2 : List Nat) : List Rat :=
  nsiBetweenness n A w (srcMask n L1) L2

/-- `Network.interregional_betweenness()` with its defaults `sources=None, targets=None`:
every node a source, `targets = np.arange(N)` -/
def netInterregionalBetweenness (n : Nat) (A : Adj) : List Rat :=
  nsiBetweenness n A (fun _ => 1) (srcMaskAll n) (List.range n)

/-- `Network.nsi_betweenness()` with its defaults -/
def netNsiBetweenness (n : Nat) (A : Adj) (w : Nat → Rat) : List Rat :=
  nsiBetweenness n A w (srcMaskAll n) (List.range n)

/-- the published definition on the groups:
`b_v = (1/w_v) Σ_{t ∈ L2} Σ_{s ∈ L1, s ≠ v ≠ t} w_t w_s σ_ts(v)/σ_ts` over the BFS distances -/
def crossBetweennessDef (n : Nat) (A : Adj) (w : Nat → Rat) (L1 L2 : List Nat) : List Rat :=
  nsiBetweennessDef n A w (Pyunicorn.Net.dist n A) (srcMask n L1) L2

/-- the assertion `k.sum() == len(flat_neighbors) == 2 * self.n_links` of
`Network._nsi_betweenness` (network.py:2991): with `k = outdegree` both sides count the non-zero
entries, `n_links` is that number halved on undirected networks and not halved on directed ones -/
def betwAssertHolds (directed : Bool) (n : Nat) (A : Adj) : Bool :=
  netNonzeros n A == 2 * netNLinks directed n A

end Pyunicorn.Cross
