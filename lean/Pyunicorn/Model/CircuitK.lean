import Pyunicorn.Model.Circuit
/-! Model of `ResNetwork` over an arbitrary field of impedances (C18, round 3), core Lean only.

`ResNetwork` accepts complex resistances (`flagComplex`).  The definitions of `Model/Circuit.lean`
that do not use the order of ℚ are restated here over any type `K` carrying the field operations
(`Zero One Add Sub Mul Div NatCast` — all core classes; Mathlib's `Field K` provides them, so the
theorems of `Lemmas/CircuitK.lean` are stated about *these* definitions for every field), and
instantiated executably at the Gaussian rationals `GRat = ℚ(i)` for the driver.

No conjugation occurs anywhere: the admittive clustering sum is `Σ_jk α_ij α_ik α_jk` with plain
products (a `np.vdot`, which conjugates its first argument, is a different function on complex
input), and the effective impedance is the bilinear form `R_aa − R_ab − R_ba + R_bb`.
The current-flow betweenness kernels take `float32` input and reject complex arrays; they have no
complex model. -/
namespace Pyunicorn.CircuitK
open Pyunicorn.Circuit (Adj degree)

section poly
variable {K : Type} [Zero K] [One K] [Add K] [Sub K] [Mul K] [Div K] [NatCast K]

abbrev MatK (K : Type) := Nat → Nat → K
abbrev VecK (K : Type) := Nat → K

/-- `acc = 0; for k in range(n): acc += f k` -/
def sumTo (n : Nat) (f : Nat → K) : K :=
  (List.range n).foldl (fun acc k => acc + f k) 0

/-- `update_admittance`: `1./resistances[e0, e1]` on every stored adjacency entry -/
def admittance (adj : Adj) (res : MatK K) : MatK K :=
  fun i j => if adj i j then 1 / res i j else 0

def colSum (n : Nat) (A : MatK K) (j : Nat) : K := sumTo n fun k => A k j

/-- `np.diag(sum(adm)) - adm` -/
def laplacian (n : Nat) (adm : MatK K) : MatK K :=
  fun i j => (if i = j then colSum n adm j else 0) - adm i j

/-- `effective_resistance(a, b)` (`complex(0.0)` for `a == b`) -/
def effRes (R : MatK K) (a b : Nat) : K :=
  if a = b then 0 else R a a - R a b - R b a + R b b

/-- the all-pairs store, `np.append` in the order `for i: for j in range(i)` -/
def allPairs (n : Nat) (R : MatK K) : List K :=
  (List.range n).foldl (fun acc i =>
    (List.range i).foldl (fun acc j => acc ++ [effRes R i j]) acc) []

def listSum (l : List K) : K := l.foldl (fun acc x => acc + x) 0

/-- `2*np.sum(store) / (N*(N-1))` -/
def averageOf (n : Nat) (store : List K) : K :=
  ((2 : Nat) : K) * listSum store / ((n * (n - 1) : Nat) : K)

/-- `(N-1) / Σ_i ER(a,i)` -/
def ercc (n : Nat) (R : MatK K) (a : Nat) : K :=
  ((n - 1 : Nat) : K) / sumTo n fun i => effRes R a i

/-- `np.sum(get_admittance(), axis=0)` -/
def admDegree (n : Nat) (adm : MatK K) (i : Nat) : K := colSum n adm i

/-- `local_admittive_clustering()[i]`, complex branch: `d = np.array(degree(), dtype=complex)`;
the triple loop multiplies the three admittances as they are (no conjugate) -/
def localClustering (n : Nat) (adj : Adj) (adm : MatK K) (i : Nat) : K :=
  let dummy := (List.range n).foldl (fun dummy j =>
    (List.range n).foldl (fun dummy k => dummy + adm i j * adm i k * adm j k) dummy) 0
  if degree n adj i = 1 then 0
  else dummy / (admDegree n adm i * (((degree n adj i : Nat) : K) - 1))

/-- `local_admittive_clustering().mean()` -/
def globalClustering (n : Nat) (adj : Adj) (adm : MatK K) : K :=
  (sumTo n fun i => localClustering n adj adm i) / ((n : Nat) : K)

/-! ### executable linear algebra with exact certificates (as in `Model/Circuit.lean`) -/

abbrev LMatK (K : Type) := List (List K)

def LMatK.at (M : LMatK K) (i j : Nat) : K := (M.getD i []).getD j 0
def toFun (M : LMatK K) : MatK K := fun i j => M.at i j
def ofFun (n : Nat) (f : MatK K) : LMatK K :=
  (List.range n).map fun i => (List.range n).map fun j => f i j

def subRow (r p : List K) (c : K) : List K := List.zipWith (fun x y => x - c * y) r p

variable [DecidableEq K]

def gjStep (rows : LMatK K) (k : Nat) : Option (LMatK K) :=
  match (List.range rows.length).find? (fun i => k ≤ i && decide (rows.at i k ≠ 0)) with
  | none => none
  | some p =>
    let prow := rows.getD p []
    let piv := prow.getD k 0
    let prow' := prow.map (· / piv)
    let rows1 := (rows.set p (rows.getD k [])).set k prow'
    some (rows1.mapIdx fun i r => if i == k then r else subRow r prow' (r.getD k 0))

/-- inverse of the leading `n × n` block by Gauss–Jordan; `none` if singular -/
def inverse (n : Nat) (A : MatK K) : Option (MatK K) :=
  let rows : LMatK K := (List.range n).map fun i =>
    ((List.range n).map fun j => A i j) ++ ((List.range n).map fun j => if i = j then 1 else 0)
  match (List.range n).foldlM gjStep rows with
  | none => none
  | some rows' => some (toFun (rows'.map fun r => r.drop n))

/-- `(L R) L = L`, exactly -/
def isGinv (n : Nat) (L R : MatK K) : Bool :=
  (List.range n).all fun i => (List.range n).all fun j =>
    decide ((sumTo n fun l => (sumTo n fun k => L i k * R k l) * L l j) = L i j)

/-- `L R = I − J/n`, exactly -/
def isProj (n : Nat) (L R : MatK K) : Bool :=
  (List.range n).all fun i => (List.range n).all fun j =>
    decide ((sumTo n fun k => L i k * R k j) = (if i = j then 1 else 0) - 1 / ((n : Nat) : K))

/-- `(L + J/n)⁻¹ − J/n`, returned only with the exact certificates `L R L = L`, `L R = I − J/n`
(for a symmetric `L` of rank `n − 1` with constant kernel this is the Moore–Penrose inverse,
also over ℂ) -/
def pinvCert (n : Nat) (L : MatK K) : Option (MatK K) :=
  match inverse n (fun i j => L i j + 1 / ((n : Nat) : K)) with
  | none => none
  | some M =>
    let R := toFun (ofFun n fun i j => M i j - 1 / ((n : Nat) : K))
    if isGinv n L R && isProj n L R then some R else none

end poly

/-! ### the Gaussian rationals `ℚ(i)` (executable instance) -/

structure GRat where
  re : Rat
  im : Rat
deriving DecidableEq

namespace GRat
instance instZero : Zero GRat := ⟨⟨0, 0⟩⟩
instance instOne : One GRat := ⟨⟨1, 0⟩⟩
instance instAdd : Add GRat := ⟨fun a b => ⟨a.re + b.re, a.im + b.im⟩⟩
instance instSub : Sub GRat := ⟨fun a b => ⟨a.re - b.re, a.im - b.im⟩⟩
instance instNeg : Neg GRat := ⟨fun a => ⟨-a.re, -a.im⟩⟩
instance instMul : Mul GRat := ⟨fun a b => ⟨a.re * b.re - a.im * b.im, a.re * b.im + a.im * b.re⟩⟩
/-- `1/z = conj z / |z|²` (`0` for `z = 0`, as `Rat` division) -/
instance instInv : Inv GRat := ⟨fun a =>
  ⟨a.re / (a.re * a.re + a.im * a.im), -a.im / (a.re * a.re + a.im * a.im)⟩⟩
instance instDiv : Div GRat := ⟨fun a b => a * b⁻¹⟩
instance instNatCast : NatCast GRat := ⟨fun n => ⟨(n : Rat), 0⟩⟩
end GRat

end Pyunicorn.CircuitK
