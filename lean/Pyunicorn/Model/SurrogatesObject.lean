import Pyunicorn.Model.Surrogates
/-!
Round 3 (property C15), core Lean only:

* `RecurrencePlot.twin_surrogates` as a whole — twin search on the object's recurrence matrix,
  `n_surrogates` walks, read-out `surrogates[i, j, :] = embedding[k, :]`;
* one `Surrogates` **object over a history of calls**: the attributes `original_data`,
  `_normalized`, `_embedding`, `_mut_embedding` and the cache of the memoised method `twins`
  (`@Cached.method(attrs=("_mut_embedding", "_normalized"))`), driven by
  `normalize_original_data()`, the public `embedding` setter, `twins(threshold, min_dist)` and
  `twin_surrogates(dimension, delay, threshold, min_dist)`.

What the code does with the stored embedding and which attributes enter the cache key is read off
the source (`ast`) by the harness on every run and passed to the model as a `Policy`.
-/
namespace Pyunicorn.Surrogates

/-! ### `RecurrencePlot.twin_surrogates` -/

/-- `RecurrencePlot.twin_surrogates(n_surrogates, min_dist)`: `N = self.N` (the number of state
vectors), `twins = self.twins(min_dist)` (the `N + 1` lists of `_twins_r`), `_twin_surrogates_r`:
`n_surrogates` walks on the table sharing the stream, `surrogates[i, j, :] = embedding[k, :]`. -/
def rpTwinSurrogates (md ns : Nat) (R : List (List Bool)) (emb : List (List Rat))
    (pick : Nat → Nat → Nat) : Option (List (List (List Rat))) :=
  match walkRep emb.length (rpTwins md R) pick ns 0 with
  | none => none
  | some (idx, _) => idx.mapM (gather emb)

/-! ### a `Surrogates` object -/

/-- `twin_surrogates`: `always` — `self.embedding = self.embed_time_series_array(self.original_data,
dimension, delay)` in every call (the code); `ifStale` — only if no embedding is stored or its shape
differs from `(N, n_time, dimension)` (the seeded change C01-4). -/
inductive Reembed | always | ifStale
deriving DecidableEq, Repr

/-- what the harness reads off the source: the re-embedding rule of `twin_surrogates` and whether the
mutation counter `_mut_embedding` is part of the cache key of `twins` -/
structure Policy where
  reembed : Reembed
  keyMut : Bool
deriving DecidableEq, Repr

/-- the code as it is -/
def Policy.code : Policy := ⟨.always, true⟩

abbrev TwinKey := Nat × Bool × Rat × Nat

structure SObj where
  /-- `original_data` -/
  data : List (List Rat)
  /-- `_normalized` -/
  normalized : Bool
  /-- `_mut_embedding` -/
  mutEmb : Nat
  /-- `_embedding` (`None` before the first assignment) -/
  emb : Option (List (List (List Rat)))
  /-- the entries of the lru cache of `twins` that belong to this object -/
  cache : List (TwinKey × List (List (List Nat)))

/-- `Surrogates(original_data)` -/
def SObj.fresh (data : List (List Rat)) : SObj := ⟨data, false, 0, none, []⟩

def SObj.key (p : Policy) (o : SObj) (thr : Rat) (md : Nat) : TwinKey :=
  (if p.keyMut then o.mutEmb else 0, o.normalized, thr, md)

/-- `twins(threshold, min_dist)`: cache lookup; on a miss `_twins_s` on the stored embedding
(`none` = AttributeError, no embedding stored) and the result is memoised -/
def SObj.twinsCall (p : Policy) (o : SObj) (thr : Rat) (md : Nat) :
    Option (List (List (List Nat))) × SObj :=
  match o.cache.lookup (o.key p thr md) with
  | some v => (some v, o)
  | none =>
    match o.emb with
    | none => (none, o)
    | some e =>
      let v := e.map (twinsS thr md)
      (some v, { o with cache := (o.key p thr md, v) :: o.cache })

/-- the `embedding` property setter: `self._embedding = …; self._mut_embedding += 1` -/
def SObj.setEmbedding (o : SObj) (e : List (List (List Rat))) : SObj :=
  { o with emb := some e, mutEmb := o.mutEmb + 1 }

/-- `embedding.shape == (N, n_time, dimension)` -/
def shapeIs (e : List (List (List Rat))) (N nT dim : Nat) : Bool :=
  e.length == N && e.all fun s => s.length == nT && s.all (·.length == dim)

/-- `twin_surrogates(dimension, delay, threshold, min_dist)`; `none` = the call raised
(the object is left as the exception found it) -/
def SObj.twinSurr (p : Policy) (o : SObj) (dim delay : Nat) (thr : Rat) (md : Nat)
    (pick : Nat → Nat → Nat) : Option (List (List Rat)) × SObj :=
  let nT := (o.data.headD []).length - (dim - 1) * delay
  let fresh : Bool := match p.reembed, o.emb with
    | .always, _ => true
    | .ifStale, none => true
    | .ifStale, some e => !shapeIs e o.data.length nT dim
  let o1 : Option SObj :=
    if fresh then
      match o.data.mapM (embed · dim delay) with
      | none => none                         -- ValueError of `np.empty` (negative length)
      | some embs => some (o.setEmbedding embs)
    else some o
  match o1 with
  | none => (none, o)
  | some o1 =>
    match o1.twinsCall p thr md with
    | (none, o2) => (none, o2)
    | (some tw, o2) =>
      match walkRows nT pick tw 0 with
      | none => (none, o2)
      | some (idx, _) => (rowsM gather o.data idx, o2)

inductive Op
  /-- `normalize_original_data()`; the argument is the array `original_data` holds afterwards
  (float arithmetic in place: recorded, not modelled) -/
  | normalize (newData : List (List Rat))
  /-- `obj.embedding = e` -/
  | setEmbedding (e : List (List (List Rat)))
  /-- `obj.twins(thr, md)` -/
  | twins (thr : Rat) (md : Nat)
  /-- `obj.twin_surrogates(dim, delay, thr, md)` with the draws of this call -/
  | twinSurr (dim delay : Nat) (thr : Rat) (md : Nat) (pick : Nat → Nat → Nat)

inductive Res
  | unit
  | twins (r : Option (List (List (List Nat))))
  | surr (r : Option (List (List Rat)))

def SObj.step (p : Policy) (o : SObj) : Op → Res × SObj
  | .normalize d => (.unit, { o with data := d, normalized := true })
  | .setEmbedding e => (.unit, o.setEmbedding e)
  | .twins thr md => let r := o.twinsCall p thr md; (.twins r.1, r.2)
  | .twinSurr dim delay thr md pick => let r := o.twinSurr p dim delay thr md pick; (.surr r.1, r.2)

/-- a history of calls on one object: the results, call by call, and the object afterwards -/
def SObj.run (p : Policy) : SObj → List Op → List Res × SObj
  | o, [] => ([], o)
  | o, op :: rest =>
    let r := o.step p op
    let rs := SObj.run p r.2 rest
    (r.1 :: rs.1, rs.2)

end Pyunicorn.Surrogates
