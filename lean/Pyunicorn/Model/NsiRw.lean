import Pyunicorn.Model.Nsi
import Pyunicorn.Model.Circuit
/-
Round 4: the linear-algebraic n.s.i. measures of `core/network.py`, written as the code
computes them, with the matrix inverse / linear solve as a *parameter* (`T`, `Vi`): the
theorems of `Properties/C02.lean` hold for every matrix that does what an inverse does on the
vectors the code applies it to, so they do not depend on which node is grounded (the split
moves the grounded "last" node to the new twin).  The driver instantiates the parameter with
the exact Gauss–Jordan inverse of C18's model (`Circuit.inverse`).

* `nsi_laplacian`                     — `nsiLap`
* `nsi_newman_betweenness`            — `newmanM`, `newmanV`, `newmanKernel`
                                         (`_mpi_nsi_newman_betweenness`, numerics.pyx:535-564),
                                         `nsiNewman` (with `add_local_ends`)
* `nsi_arenas_betweenness`            — `arenasP`, `arenasB` (`_mpi_nsi_arenas_betweenness`)
* `nsi_spreading`                     — `spreadMoment` (the terms of the exponential series)
* `nsi_degree_histogram` (bin layout) — `histBins`
Core Lean only.
-/
namespace Pyunicorn.Nsi

/-- `Σ_{k<n} f k` -/
def sumR (n : Nat) (f : Nat → Rat) : Rat := ((List.range n).map f).sum

def absQ (x : Rat) : Rat := if x < 0 then -x else x

/-- n.s.i. degree `k*_i = Σ_j A⁺_ij w_j` (`nsi_degree`, `sp_nsi_diag_k`) -/
def kstar (G : Gr) (i : Nat) : Rat := sumR G.n fun j => G.w j * aplus G i j

/-- total node weight -/
def totalW (G : Gr) : Rat := sumR G.n fun j => G.w j * 1

/-- `nsi_laplacian`: `sp_nsi_diag_k() - sp_Aplus() * sp_diag_w()` -/
def nsiLap (G : Gr) (i j : Nat) : Rat := (if i = j then kstar G i else 0) - aplus G i j * G.w j

/-! ### nsi_newman_betweenness -/

/-- `sp_M = Dw * (Dk - Ap * Dw) * DwI` -/
def newmanM (G : Gr) (i j : Nat) : Rat := G.w i * nsiLap G i j * (1 / G.w j)

/-- `DkI * Ap` -/
def nsiQ (G : Gr) (s c : Nat) : Rat := 1 / kstar G s * aplus G s c

/-- `V = ((DkI * Ap) * sp_M_inv).T`: `V[i, s] = Σ_c (DkI Ap)[s, c] · T[c, i]` -/
def newmanV (G : Gr) (T : Nat → Nat → Rat) (i s : Nat) : Rat :=
  sumR G.n fun c => nsiQ G s c * T c i

/-- `not_adjacent_or_equal = (1 - A - identity)` -/
def nae (G : Gr) (i s : Nat) : Bool := aplus G i s == 0

/-- the kernel `_mpi_nsi_newman_betweenness(A, V, N, w, not_adjacent_or_equal, 0, N)[i]`:
`Σ_{j ~ i} w_j Σ_{s ∉ N⁺(i)} w_s Σ_{t < s, t ∉ N⁺(i)} w_t |V_is − V_js − V_it + V_jt|` -/
def newmanKernel (G : Gr) (V : Nat → Nat → Rat) (i : Nat) : Rat :=
  sumR G.n fun j => G.w j * (if G.adj i j = true then
    sumR G.n fun s => G.w s * (if nae G i s = true then
      sumR s fun t => G.w t * (if nae G i t = true then
        absQ (V i s - V j s - V i t + V j t) else 0) else 0) else 0)

/-- `nsi_newman_betweenness(add_local_ends)` of a connected network, for the matrix `T` that
stands for `sp_M_inv`: kernel value, plus `(2 W − k*_i) k*_i` with `add_local_ends` -/
def nsiNewman (G : Gr) (T : Nat → Nat → Rat) (ends : Bool) (i : Nat) : Rat :=
  newmanKernel G (newmanV G T) i + (if ends then (2 * totalW G - kstar G i) * kstar G i else 0)

/-- what the code uses for `sp_M_inv`: the inverse of `sp_M` without its last row / column,
padded with a zero row / column (`none`: singular) -/
def groundedInv (n : Nat) (M : Nat → Nat → Rat) : Option (Nat → Nat → Rat) :=
  match Circuit.inverse (n - 1) M with
  | none => none
  | some R =>
    let L := Circuit.ofFun (n - 1) R
    some fun i j => if i < n - 1 ∧ j < n - 1 then L.at i j else 0

/-- **what the theorems ask of `T`** (left): `x T M = x` for the rows `x = Q[s,·] − Q[t,·]`
the code multiplies `T` with -/
def SolvesL (n : Nat) (Q M T : Nat → Nat → Rat) : Prop :=
  ∀ s t e, s < n → t < n → e < n →
    sumR n (fun c => (Q s c - Q t c) * sumR n (fun r => T c r * M r e)) = Q s e - Q t e

/-- **what the theorems ask of `T`** (right): `M T y = y` for the columns `y = e_i − e_j` the
kernel combines -/
def SolvesR (n : Nat) (M T : Nat → Nat → Rat) : Prop :=
  ∀ r i j, r < n → i < n → j < n →
    sumR n (fun c => M r c * (T c i - T c j)) = (if r = i then 1 else 0) - (if r = j then 1 else 0)

/-- executable forms of the two conditions (the driver reports them for every case) -/
def solvesL (n : Nat) (Q M T : Nat → Nat → Rat) : Bool :=
  (List.range n).all fun s => (List.range n).all fun t => (List.range n).all fun e =>
    sumR n (fun c => (Q s c - Q t c) * sumR n (fun r => T c r * M r e)) == Q s e - Q t e

def solvesR (n : Nat) (M T : Nat → Nat → Rat) : Bool :=
  (List.range n).all fun r => (List.range n).all fun i => (List.range n).all fun j =>
    sumR n (fun c => M r c * (T c i - T c j)) == (if r = i then 1 else 0) - (if r = j then 1 else 0)

/-! ### nsi_arenas_betweenness -/

/-- the stopping factor of row `r` for target `i`: rows of `N⁺(i)` are multiplied by
`1 − σ(i, r)`; `σ = 1` for `stopping_mode="neighbors"`, `σ = nsi_twinness` for "twinness" -/
def arenasStop (G : Gr) (sigma : Nat → Nat → Rat) (i r : Nat) : Rat :=
  if aplus G i r = 1 then 1 - sigma i r else 1

/-- `sp_Pi`: `P = DkI * Ap * Dw` with the rows of `N⁺(i)` rescaled -/
def arenasP (G : Gr) (sigma : Nat → Nat → Rat) (i r c : Nat) : Rat :=
  arenasStop G sigma i r * (nsiQ G r c * G.w c)

/-- `V` solves `(1 − sp_Pi) V = sp_Pi` (what `splu(...).solve(...)` returns) -/
def ArenasSolves (G : Gr) (sigma : Nat → Nat → Rat) (i : Nat) (V : Nat → Nat → Rat) : Prop :=
  ∀ s j, s < G.n → j < G.n →
    V s j - sumR G.n (fun m => arenasP G sigma i s m * V m j) = arenasP G sigma i s j

/-- the system has at most one solution column by column (`1 − sp_Pi` is regular) -/
def ArenasRegular (G : Gr) (sigma : Nat → Nat → Rat) (i : Nat) : Prop :=
  ∀ u : Nat → Rat, (∀ s, s < G.n → u s - sumR G.n (fun m => arenasP G sigma i s m * u m) = 0) →
    ∀ s, s < G.n → u s = 0

/-- `component_betweenness[j] = (Σ_i w_i B_sum_i[j]) / w_j`, where `B_sum_i[j] = Σ_s w_s V_i[s, j]`,
with `exclude_neighbors` restricted to `s, j ∉ N⁺(i)` -/
def arenasB (G : Gr) (V : Nat → Nat → Nat → Rat) (excl : Bool) (j : Nat) : Rat :=
  (sumR G.n fun i => G.w i * (sumR G.n fun s => G.w s *
    (if excl then V i s j * (1 - aplus G i s) * (1 - aplus G i j) else V i s j))) / G.w j

/-! ### nsi_spreading: the terms of the exponential series

`nsi_spreading = (expm(ln 2 (α A⁺ D_w − 1)) A⁺ · w[:, None]).sum(axis=0)`
`             = ½ Σ_k (α ln 2)^k / k! · m_k`, `m_k(i) = Σ_r w_r ((A⁺ D_w)^k A⁺)[r, i]`. -/

/-- `((A⁺ D_w)^k A⁺)[r, i]` -/
def spreadPow (G : Gr) : Nat → Nat → Nat → Rat
  | 0, r, i => aplus G r i
  | k + 1, r, i => sumR G.n fun c => G.w c * (aplus G r c * spreadPow G k c i)

def spreadMoment (G : Gr) (k i : Nat) : Rat := sumR G.n fun r => G.w r * spreadPow G k r i

/-- default `alpha = total_node_weight / k.dot(w)` -/
def spreadAlpha (G : Gr) : Rat := totalW G / sumR G.n fun i => G.w i * kstar G i

/-- the Taylor polynomial `Σ_k q_k α^k m_k(i)` for coefficients `q` (`q_k = (ln 2)^k / (2 k!)`
gives the partial sums of `nsi_spreading`) -/
def spreadPoly (G : Gr) (alpha : Rat) (q : List Rat) (i : Nat) : Rat :=
  ((List.range q.length).map fun k => q.getD k 0 * alpha ^ k * spreadMoment G k i).sum

/-! ### nsi_degree_histogram / nsi_degree_cumulative_histogram: the bin layout

`n_bins = int(nsi_k.max() / nsi_k.min()) + 1`; `_histogram` (`np.histogram`) puts the lower bin
bounds at `min + b (max − min) / n_bins` (range widened by 1/2 on both sides if `min = max`).  The frequencies count nodes and are not n.s.i. quantities; the
bin layout is. -/

def maxOver (n : Nat) (f : Nat → Rat) : Rat := maxList ((List.range n).map f)
def minOver (n : Nat) (f : Nat → Rat) : Rat := - maxList ((List.range n).map fun k => - f k)

def histNBins (G : Gr) : Int := (maxOver G.n (kstar G) / minOver G.n (kstar G)).floor + 1

def histLowerBounds (G : Gr) : List Rat :=
  let lo0 := minOver G.n (kstar G)
  let hi0 := maxOver G.n (kstar G)
  -- `np.histogram` widens an empty range by 1/2 on both sides
  let lo := if lo0 = hi0 then lo0 - 1 / 2 else lo0
  let hi := if lo0 = hi0 then hi0 + 1 / 2 else hi0
  let nb := histNBins G
  (List.range nb.toNat).map fun (b : Nat) => lo + (b : Rat) * (hi - lo) / (nb : Rat)

/-! ### executable instances (driver): the parameters `T`, `V i` computed by exact Gauss–Jordan -/

/- NB. function matrices are materialised with `Circuit.toFun (Circuit.ofFun n f)` written out at
the place of use: the list is then built once (strict evaluation of the argument) and the closure
only indexes it.  A named `mat n f` would be compiled as a function of the two indices as well
and rebuild the list on every access. -/

/-- `sp_M_inv` as the code builds it (last node grounded) -/
def newmanT (G : Gr) : Option (Nat → Nat → Rat) := groundedInv G.n (Circuit.toFun (Circuit.ofFun G.n (newmanM G)))

/-- `nsi_newman_betweenness(add_local_ends)` of a connected network; `none`: singular -/
def newmanAll (G : Gr) (ends : Bool) : Option (List Rat) :=
  match newmanT G with
  | none => none
  | some T =>
    let V := Circuit.toFun (Circuit.ofFun G.n (newmanV G T))
    some ((List.range G.n).map fun i =>
      newmanKernel G V i + (if ends then (2 * totalW G - kstar G i) * kstar G i else 0))

/-- do the conditions of `nsi_newman_betweenness_split` hold for the grounded inverse? -/
def newmanSolves (G : Gr) : Bool :=
  match newmanT G with
  | none => false
  | some T =>
    let M := Circuit.toFun (Circuit.ofFun G.n (newmanM G))
    let Q := Circuit.toFun (Circuit.ofFun G.n (nsiQ G))
    solvesL G.n Q M T && solvesR G.n M T

/-- `splu(1 - sp_Pi).solve(sp_Pi)` for target `i` -/
def arenasV (G : Gr) (sigma : Nat → Nat → Rat) (i : Nat) : Option (Nat → Nat → Rat) :=
  let P := Circuit.toFun (Circuit.ofFun G.n (arenasP G sigma i))
  match Circuit.inverse G.n (fun s j => (if s = j then 1 else 0) - P s j) with
  | none => none
  | some R => some (Circuit.toFun (Circuit.mmul G.n (Circuit.toFun (Circuit.ofFun G.n R)) P))

def arenasSolves (G : Gr) (sigma : Nat → Nat → Rat) (i : Nat) (V : Nat → Nat → Rat) : Bool :=
  let P := Circuit.toFun (Circuit.ofFun G.n (arenasP G sigma i))
  (List.range G.n).all fun s => (List.range G.n).all fun j =>
    V s j - sumR G.n (fun m => P s m * V m j) == P s j

/-- `nsi_arenas_betweenness(exclude_neighbors, stopping_mode)` of a connected network together
with the flag "every `V i` solves its system exactly" -/
def arenasAll (G : Gr) (sigma : Nat → Nat → Rat) (excl : Bool) : Option (List Rat × Bool) :=
  let sg := Circuit.toFun (Circuit.ofFun G.n sigma)
  let Vs := (List.range G.n).map fun i => arenasV G sg i
  if Vs.all Option.isSome then
    let Vl : List (Nat → Nat → Rat) := Vs.map fun o => o.getD (fun _ _ => 0)
    let V : Nat → Nat → Nat → Rat := fun i => Vl.getD i (fun _ _ => 0)
    let ok := (List.range G.n).all fun i => arenasSolves G sg i (V i)
    some ((List.range G.n).map (arenasB G V excl), ok)
  else none

/-- the tables `((A⁺ D_w)^k A⁺)` for `k = 0 … K`, each computed from the previous one
(`spreadPow` with the inner calls looked up) -/
def spreadTabs (G : Gr) (K : Nat) : List Circuit.LMat :=
  (List.range K).foldl (fun acc _ =>
    let prev := acc.getLastD []
    acc ++ [Circuit.ofFun G.n fun r i => sumR G.n fun c => G.w c * (aplus G r c * prev.at c i)])
    [Circuit.ofFun G.n (aplus G)]

/-- `m_k(i)` for `k = 0 … K`, row `k` = all nodes -/
def spreadMoments (G : Gr) (K : Nat) : List (List Rat) :=
  (spreadTabs G K).map fun tab => (List.range G.n).map fun i => sumR G.n fun r => G.w r * tab.at r i

end Pyunicorn.Nsi
