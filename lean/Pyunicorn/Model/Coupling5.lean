import Pyunicorn.Model.Coupling2
/-!
# Model of the similarity / coupling code, part 5 (C10, round 5) — core Lean only

What happens when the elimination `gjInverse` (the model of `numpy.linalg.inv` in
`PartialCorrelationClimateNetwork._calculate_correlation`) **fails**: the column at which the
pivot search finds nothing, and the vector of the kernel of `C` that can be read off the
augmented matrix at that moment.  `Lemmas/CouplingGJ2.lean` proves that this vector is a non-zero
solution of `C · w = 0` — the elimination fails for singular matrices *only* — and, for a
covariance matrix, that the combination `Σ w_a x_a` of the series is constant in time (exactly
collinear series: the case in which the code's `det(C) == 0` / `pinv` branch is meant to run).
-/
namespace Pyunicorn.Coupling

/-- the augmented matrix `[C | I]` the elimination starts from (the expression inside
`gjInverse`) -/
def gjAug (C : Nat → Nat → Rat) (N : Nat) : List (List Rat) :=
  (List.range N).map fun i =>
    (List.range N).map (fun j => C i j) ++ (List.range N).map (fun j => if i = j then (1 : Rat) else 0)

/-- pivot search failed in column `c` of `M` (columns `< c` of the left half are unit vectors,
column `c` vanishes from row `c` on): column `c` is a combination of the columns before it -/
def gjKernelAt (M : List (List Rat)) (c : Nat) : Nat → Rat :=
  fun l => if l < c then (M.getD l []).getD c 0 else if l = c then -1 else 0

/-- the first column at which the elimination fails and the kernel vector found there
(`none`: no column fails, `gjInverse` returns a matrix) -/
def gjKernel (C : Nat → Nat → Rat) (N : Nat) : Option (Nat × List Rat) :=
  (List.range N).findSome? fun c =>
    match gjLoop N c (gjAug C N) with
    | none => none
    | some M => if (gjStep M c).isNone then some (c, (List.range N).map (gjKernelAt M c)) else none

/-- `Σ_a w_a · (x_a(t) - mean_a)`: the combination of the centred series with weights `w` -/
def combCentred (x : Nat → Nat → Rat) (T N : Nat) (w : Nat → Rat) (t : Nat) : Rat :=
  sumTo N (fun a => w a * (x a t - meanTo T (x a)))

end Pyunicorn.Coupling
