/-
C20 — access-trace models of the six raw-pointer C routines of pyunicorn and of
the Python/Cython wrappers that compute their sizes.

  climate/_ext/src_numerics.c      `_mutual_information`, `_spearman_corr`
  timeseries/_ext/src_numerics.c   `_test_pearson_correlation_fast`,
                                   `_test_mutual_information_fast`
  core/_ext/src_numerics.c         `_vertex_current_flow_betweenness_fast`,
                                   `_edge_current_flow_betweenness_fast`

A trace is the list of memory accesses `(array, byte offset, width, store?)`
the loops perform, as a function of the scalar arguments (and, where an index
is read from memory, of the symbols stored there).  Array numbers are fixed per
routine (see each definition); `…Sizes` gives the byte sizes of the arrays *as
allocated by the wrappers* (`numerics.pyx`, `rainfall.py`, `surrogates.py`,
`mutual_info.py`, `resistive_network.py`).

Core Lean only (the driver links this file).
-/
namespace Pyunicorn.Access

structure Acc where
  arr : Nat
  off : Int
  w : Nat
  wr : Bool
deriving Repr, DecidableEq

/-- load / store of element `idx` through a pointer whose pointee is `w` bytes wide -/
def ld (arr w : Nat) (idx : Int) : Acc := ⟨arr, idx * w, w, false⟩
def st (arr w : Nat) (idx : Int) : Acc := ⟨arr, idx * w, w, true⟩

/-- the access lies inside its array (`sz` = byte sizes; an array that is not
listed has size 0, so nothing is in bounds of it) -/
def Acc.inb (sz : List Nat) (a : Acc) : Prop :=
  0 ≤ a.off ∧ a.off + (a.w : Int) ≤ ((sz.getD a.arr 0 : Nat) : Int)

instance (sz : List Nat) (a : Acc) : Decidable (a.inb sz) := by
  unfold Acc.inb; infer_instance

/-- `for i in 0..n-1` -/
def forr {α : Type} (n : Nat) (f : Nat → List α) : List α := (List.range n).flatMap f

inductive Verdict | safe | raise | oob
deriving Repr, DecidableEq

def Verdict.str : Verdict → String
  | .safe => "safe" | .raise => "raise" | .oob => "oob"

def verdictOf (sz : List Nat) (tr : List Acc) : Verdict :=
  if tr.all (fun a => decide (a.inb sz)) then .safe else .oob

/-! ### `_spearman_corr(m, tmax, final_mask, time_series_ranked, spearman_rho)`

arrays: 0 `final_mask`, 1 `time_series_ranked` (float32), 2 `spearman_rho`
(float32, m×m), 3..6 the four `alloca`'d double arrays of length `tmax`.
`mw` is the width of the pointee type through which the mask is read and `S`
the row stride used for mask and ranks. -/
def spearmanGen (mw S m tmax : Nat) : List Acc :=
  forr m fun i => forr (m - i) fun dj =>
    let j := i + dj
    (forr tmax fun t => [ld 0 mw ↑(i * S + t), ld 0 mw ↑(j * S + t)]) ++
    (forr tmax fun t => [ld 1 4 ↑(i * S + t), st 3 8 t, ld 1 4 ↑(j * S + t), st 4 8 t]) ++
    (forr tmax fun t => [ld 3 8 t, ld 4 8 t]) ++
    (forr tmax fun t => [ld 0 mw ↑(i * S + t), ld 0 mw ↑(j * S + t),
                         ld 3 8 t, st 5 8 t, ld 4 8 t, st 6 8 t, ld 5 8 t, ld 6 8 t]) ++
    [st 2 4 ↑(i * m + j), st 2 4 ↑(j * m + i)]

/-- the routine as it is now: mask read as 1-byte elements, row stride `tmax` -/
def spearmanTrace (m tmax : Nat) : List Acc := spearmanGen 1 tmax m tmax
/-- the routine as pinned (commit 4420ab1): mask read through `int*`, stride `m` -/
def spearmanPinned (m tmax : Nat) : List Acc := spearmanGen 4 m m tmax

/-- `rainfall.py: m, tmax = anomaly.shape; to_cy(final_mask, MASK)` (int8),
`to_cy(time_series_ranked, FIELD)`; `numerics.pyx: np.zeros((m, m), FIELD)` -/
def spearmanSizes (m tmax : Nat) : List Nat :=
  [m * tmax * 1, m * tmax * 4, m * m * 4, tmax * 8, tmax * 8, tmax * 8, tmax * 8]

/-- `RainfallClimateNetwork.spearman_corr(final_mask, anomaly)`: shapes of the
two arguments; a mask of another shape is rejected. -/
def spearmanCall (mm mt m tmax : Nat) : Verdict :=
  if (mm, mt) ≠ (m, tmax) then .raise
  else verdictOf (spearmanSizes m tmax) (spearmanTrace m tmax)

/-! ### `_test_pearson_correlation_fast(original, surrogates, correlation, n_time, N, norm)`
arrays: 0 original (double), 1 surrogates (double), 2 correlation (float32 N×N) -/
def pearsonTrace (N T : Nat) : List Acc :=
  forr N fun i => forr N fun j =>
    if i ≠ j then
      (forr T fun k => [ld 0 8 ↑(i * T + k), ld 1 8 ↑(j * T + k)]) ++ [st 2 4 ↑(i * N + j)]
    else []

/-- sizes for an original of shape (N,T) and surrogates of shape (N2,T2) -/
def pearsonSizes (N T N2 T2 : Nat) : List Nat := [N * T * 8, N2 * T2 * 8, N * N * 4]

/-- `Surrogates.test_pearson_correlation(original_data, surrogates)`:
`(N, n_time) = original_data.shape`; differing shapes are rejected;
`norm = 1.0 / float(n_time)` raises ZeroDivisionError for `n_time = 0`. -/
def pearsonCall (N T N2 T2 : Nat) : Verdict :=
  if (N2, T2) ≠ (N, T) then .raise
  else if T = 0 then .raise
  else verdictOf (pearsonSizes N T N2 T2) (pearsonTrace N T)

/-- the pinned wrapper: no shape check -/
def pearsonCallPinned (N T N2 T2 : Nat) : Verdict :=
  if T = 0 then .raise
  else verdictOf (pearsonSizes N T N2 T2) (pearsonTrace N T)

/-! ### symbols -/

/-- `if (rescaled < 1.0) sym = (long)(rescaled * n_bins); else sym = n_bins - 1;`
with `rescaled = scaling * (x - range_min)`; `none` is NaN (every comparison
with NaN is false, so NaN takes the `else` branch).  `(long) r` truncates
towards zero. -/
def truncInt (r : Rat) : Int := if 0 ≤ r then r.floor else -((-r).floor)

def symbol (scaling rmin : Option Rat) (nb : Int) (x : Option Rat) : Int :=
  match scaling, rmin, x with
  | some s, some m, some v =>
      let r := s * (v - m)
      if r < 1 then truncInt (r * (nb : Rat)) else nb - 1
  | _, _, _ => nb - 1

/-- the symbol as the C code computes it in floating point: each of the three
operations (`x - range_min`, `scaling * ·`, `· * n_bins`) is followed by a
rounding `rnd` to the working format (finite operands; `symbol` is the case
`rnd = id`) -/
def symbolRnd (rnd : Rat → Rat) (s m : Rat) (nb : Int) (v : Rat) : Int :=
  let r := rnd (s * rnd (v - m))
  if r < 1 then truncInt (rnd (r * (nb : Rat))) else nb - 1

/-- does some sample `k < T` satisfy `p`? (a histogram bin is positive) -/
def anyK (T : Nat) (p : Nat → Bool) : Bool := (List.range T).any p

/-! ### float → integer conversions (C11 6.3.1.4: undefined unless the
truncated value is representable in the target type) -/

/-- the value handed to `(long)` / `(int)` for one sample, `none` when no
conversion is executed (the `else` branch: NaN, or rescaled ≥ 1) -/
def castArg (scaling rmin : Option Rat) (nb : Int) (x : Option Rat) : Option Rat :=
  match scaling, rmin, x with
  | some s, some m, some v =>
      let r := s * (v - m)
      if r < 1 then some (r * (nb : Rat)) else none
  | _, _, _ => none

/-- the conversion of `r` to a signed integer type of `bits` bits is defined -/
def castDefined (bits : Nat) (r : Rat) : Bool :=
  decide (-((2 : Int) ^ (bits - 1)) ≤ truncInt r ∧ truncInt r < (2 : Int) ^ (bits - 1))

/-- every conversion executed for the `N × T` samples of `d` is defined -/
def castsOK (bits N T : Nat) (scaling rmin : Option Rat) (nb : Int) (d : Nat → Nat → Option Rat) :
    Bool :=
  (List.range N).all fun i => (List.range T).all fun k =>
    match castArg scaling rmin nb (d i k) with
    | some r => castDefined bits r
    | none => true

/-- the variant "convert first, clamp afterwards"
(`sym = (int)(rescaled * n_bins); if (sym >= n_bins) sym = n_bins - 1;`):
a NaN sample (or NaN scaling) reaches the conversion — undefined. -/
def castsOKConvertFirst (bits N T : Nat) (scaling rmin : Option Rat) (nb : Int)
    (d : Nat → Nat → Option Rat) : Bool :=
  (List.range N).all fun i => (List.range T).all fun k =>
    match scaling, rmin, d i k with
    | some s, some m, some v => castDefined bits (s * (v - m) * (nb : Rat))
    | _, _, _ => false

/-! ### `_mutual_information(anomaly, n_samples, N, n_bins, scaling, range_min, symbolic, hist, hist2d, mi)`
arrays: 0 anomaly (float32 N×T), 1 symbolic (long N×T), 2 hist (long N×nb),
3 hist2d (long nb×nb), 4 mi (float32 N×N).  `sym i k` is the symbol stored for
sample `k` of node `i`. -/
def miTrace (N T nb : Nat) (sym : Nat → Nat → Int) : List Acc :=
  (forr N fun i => forr T fun k =>
    [ld 0 4 ↑(i * T + k), st 1 8 ↑(i * T + k), ld 1 8 ↑(i * T + k),
     ld 2 8 (↑(i * nb) + sym i k), st 2 8 (↑(i * nb) + sym i k)]) ++
  (forr N fun i => forr (i + 1) fun j =>
    if i ≠ j then
      (forr T fun k =>
        [ld 1 8 ↑(i * T + k), ld 1 8 ↑(j * T + k),
         ld 3 8 (sym i k * ↑nb + sym j k), st 3 8 (sym i k * ↑nb + sym j k)]) ++
      (forr nb fun l =>
        ld 2 8 ↑(i * nb + l) ::
        (if anyK T (fun k => sym i k == (l : Int)) then
          forr nb fun m =>
            ld 2 8 ↑(j * nb + m) ::
            (if anyK T (fun k => sym j k == (m : Int)) then
              ld 3 8 ↑(l * nb + m) ::
              (if anyK T (fun k => sym i k == (l : Int) && sym j k == (m : Int)) then
                [ld 4 4 ↑(i * N + j), st 4 4 ↑(i * N + j)] else [])
             else [])
         else [])) ++
      [ld 4 4 ↑(i * N + j), st 4 4 ↑(j * N + i)] ++
      (forr nb fun l => forr nb fun m => [st 3 8 ↑(l * nb + m)])
    else [])

/-- `numerics.pyx: mutual_information`: `np.zeros((N, n_samples))`, `(N, n_bins)`,
`(n_bins, n_bins)` int64, `(N, N)` float32; anomaly is `to_cy(anomaly, FIELD)` of
shape `(N, n_samples)` (`mutual_info.py`). -/
def miSizes (N T nb : Nat) : List Nat :=
  [N * T * 4, N * T * 8, N * nb * 8, nb * nb * 8, N * N * 4]

/-! ### `_test_mutual_information_fast`
arrays: 0 original (double N×T), 1 surrogates (double), 2 symbolic_original
(int), 3 symbolic_surrogates (int), 4 hist_original (int N×nb),
5 hist_surrogates, 6 hist2d (int nb×nb), 7 mi (float32 N×N). -/
def tmiTrace (N T nb : Nat) (sO sS : Nat → Nat → Int) : List Acc :=
  (forr N fun i => forr T fun k =>
    [ld 0 8 ↑(i * T + k), st 2 4 ↑(i * T + k), ld 2 4 ↑(i * T + k),
     ld 4 4 (↑(i * nb) + sO i k), st 4 4 (↑(i * nb) + sO i k),
     ld 1 8 ↑(i * T + k), st 3 4 ↑(i * T + k), ld 3 4 ↑(i * T + k),
     ld 5 4 (↑(i * nb) + sS i k), st 5 4 (↑(i * nb) + sS i k)]) ++
  (forr N fun i => forr N fun j =>
    if i ≠ j then
      (forr T fun k =>
        [ld 2 4 ↑(i * T + k), ld 3 4 ↑(j * T + k),
         ld 6 4 (sO i k * ↑nb + sS j k), st 6 4 (sO i k * ↑nb + sS j k)]) ++
      (forr nb fun l =>
        ld 4 4 ↑(i * nb + l) ::
        (if anyK T (fun k => sO i k == (l : Int)) then
          forr nb fun m =>
            ld 5 4 ↑(j * nb + m) ::
            (if anyK T (fun k => sS j k == (m : Int)) then
              ld 6 4 ↑(l * nb + m) ::
              (if anyK T (fun k => sO i k == (l : Int) && sS j k == (m : Int)) then
                [ld 7 4 ↑(i * N + j), st 7 4 ↑(i * N + j)] else [])
             else [])
         else [])) ++
      (forr nb fun l => forr nb fun m => [st 6 4 ↑(l * nb + m)])
    else [])

def tmiSizes (N T N2 T2 nb : Nat) : List Nat :=
  [N * T * 8, N2 * T2 * 8, N * T * 4, N * T * 4, N * nb * 4, N * nb * 4, nb * nb * 4, N * N * 4]

/-! ### current-flow betweenness
arrays: 0 admittance (float32 N×N), 1 R (float32 N×N), 2 ECFB (float32 N×N) -/
def vcfbTrace (N : Nat) (i : Int) : List Acc :=
  forr N fun t => forr t fun s =>
    if i = (t : Int) ∨ i = (s : Int) then []
    else forr N fun j =>
      [ld 0 4 (i * ↑N + ↑j), ld 1 4 (i * ↑N + ↑s), ld 1 4 ↑(j * N + s),
       ld 1 4 ↑(j * N + t), ld 1 4 (i * ↑N + ↑t)]

def ecfbTrace (N : Nat) : List Acc :=
  forr N fun i => forr N fun j =>
    (forr N fun t => forr t fun s =>
      [ld 0 4 ↑(i * N + j), ld 1 4 ↑(i * N + s), ld 1 4 ↑(j * N + s),
       ld 1 4 ↑(j * N + t), ld 1 4 ↑(i * N + t)]) ++
    [ld 2 4 ↑(i * N + j), st 2 4 ↑(i * N + j)]

def cfbSizes (N : Nat) : List Nat := [N * N * 4, N * N * 4, N * N * 4]

/-- sizes when the object *holds* admittance / R matrices of `Na × Na` entries
while `self.N = N` (`Network.adjacency = …` changes `N`, the matrices are only
recomputed by `update_resistances`); the output `ECFB` is allocated from `N`. -/
def cfbSizesHeld (N Na : Nat) : List Nat := [Na * Na * 4, Na * Na * 4, N * N * 4]

/-- `ResNetwork.vertex_current_flow_betweenness(i)` on an object whose held
matrices are `Na × Na`: a node index outside `[0, N)` is rejected (IndexError),
and `_vertex_current_flow_betweenness` (numerics.pyx) rejects arrays whose shape
is not `(N, N)` (ValueError). -/
def vcfbCall (N : Nat) (i : Int) (Na : Nat) : Verdict :=
  if i < 0 ∨ (N : Int) ≤ i then .raise
  else if Na ≠ N then .raise
  else verdictOf (cfbSizesHeld N Na) (vcfbTrace N i)

/-- `ResNetwork.edge_current_flow_betweenness()`, same shape test -/
def ecfbCall (N Na : Nat) : Verdict :=
  if Na ≠ N then .raise else verdictOf (cfbSizesHeld N Na) (ecfbTrace N)

/-- the method as pinned: any node index reaches the C routine -/
def vcfbCallPinned (N : Nat) (i : Int) : Verdict := verdictOf (cfbSizes N) (vcfbTrace N i)

/-- the wrappers before the shape test was added (round 2): `self.N` is trusted -/
def vcfbCallStale (N : Nat) (i : Int) (Na : Nat) : Verdict :=
  if i < 0 ∨ (N : Int) ≤ i then .raise
  else verdictOf (cfbSizesHeld N Na) (vcfbTrace N i)
def ecfbCallStale (N Na : Nat) : Verdict := verdictOf (cfbSizesHeld N Na) (ecfbTrace N)

/-! ### data → symbols, and the wrappers of the two mutual-information routines -/

abbrev Data := List (List (Option Rat))

def Data.at (d : Data) (i k : Nat) : Option Rat := ((d.getD i []).getD k none)

def Data.flat (d : Data) : List (Option Rat) := d.flatten

/-- numpy `min` / `max` of a flattened array: NaN if any entry is NaN -/
def optMin (xs : List (Option Rat)) : Option Rat :=
  xs.foldl (fun acc x => match acc, x with
    | some a, some b => some (if b < a then b else a)
    | _, _ => none) (xs.headD none)
def optMax (xs : List (Option Rat)) : Option Rat :=
  xs.foldl (fun acc x => match acc, x with
    | some a, some b => some (if a < b then b else a)
    | _, _ => none) (xs.headD none)

/-- `Surrogates.test_mutual_information(original_data, surrogates, n_bins)` for
data without infinities: shapes (N,T) and (N2,T2), entries NaN or finite.
 * `n_bins < 1` is rejected (ValueError; `np.zeros` rejects negative sizes anyway);
 * differing shapes are rejected;
 * an empty array has no minimum (ValueError);
 * constant data: `1. / (range_max - range_min)` raises ZeroDivisionError. -/
def tmiCall (N T N2 T2 : Nat) (nb : Int) (dO dS : Data) : Verdict :=
  if nb < 1 then .raise
  else if (N2, T2) ≠ (N, T) then .raise
  else if (2 : Int) ^ 31 ≤ nb then .raise       -- Cython `int n_bins`: OverflowError
  else if N * T = 0 then .raise
  else
    let all := dO.flat ++ dS.flat
    let mn := optMin all
    let mx := optMax all
    match mn, mx with
    | some a, some b =>
        if b - a = 0 then .raise
        else
          let s : Option Rat := some (1 / (b - a))
          if castsOK 32 N T s mn nb dO.at && castsOK 32 N T s mn nb dS.at then
            verdictOf (tmiSizes N T N2 T2 nb.toNat)
              (tmiTrace N T nb.toNat (fun i k => symbol s mn nb (dO.at i k))
                                     (fun i k => symbol s mn nb (dS.at i k)))
          else .oob
    | _, _ =>
        verdictOf (tmiSizes N T N2 T2 nb.toNat)
          (tmiTrace N T nb.toNat (fun _ _ => nb - 1) (fun _ _ => nb - 1))

/-- the wrapper around a kernel that converts first and clamps afterwards -/
def tmiCallConvertFirst (N T : Nat) (nb : Int) (dO dS : Data) : Verdict :=
  let all := dO.flat ++ dS.flat
  let mn := optMin all
  let s : Option Rat := match mn, optMax all with
    | some a, some b => some (1 / (b - a))
    | _, _ => none
  if castsOKConvertFirst 32 N T s mn nb dO.at && castsOKConvertFirst 32 N T s mn nb dS.at then
    .safe else .oob

/-- the pinned wrapper: neither `n_bins = 0` nor the surrogate shape is checked
(a surrogate sample outside the passed array is foreign memory; its symbol is
immaterial for the verdict because the load itself is already out of bounds). -/
def tmiCallPinned (N T N2 T2 : Nat) (nb : Int) (dO dS : Data) : Verdict :=
  if nb < 0 then .raise
  else if N * T = 0 ∨ N2 * T2 = 0 then .raise
  else
    let all := dO.flat ++ dS.flat
    let mn := optMin all
    let mx := optMax all
    match mn, mx with
    | some a, some b =>
        if b - a = 0 then .raise
        else
          let s : Option Rat := some (1 / (b - a))
          verdictOf (tmiSizes N T N2 T2 nb.toNat)
            (tmiTrace N T nb.toNat (fun i k => symbol s mn nb (dO.at i k))
                                   (fun i k => symbol s mn nb (dS.at i k)))
    | _, _ =>
        verdictOf (tmiSizes N T N2 T2 nb.toNat)
          (tmiTrace N T nb.toNat (fun _ _ => nb - 1) (fun _ _ => nb - 1))

/-- `MutualInfoClimateNetwork._cython_calculate_mutual_information(anomaly)`
(`n_bins = 32` fixed by `calculate_similarity_measure`): `anomaly` has shape
(T, N) and is transposed; `d` is the (N,T) float32 array that reaches the
kernel, `scaling`/`rmin` what the wrapper computes. -/
def miCall (N T : Nat) (nb : Int) (zdiv : Bool) (scaling rmin : Option Rat) (d : Data) :
    Verdict :=
  if nb < 0 then .raise
  else if (2 : Int) ^ 31 ≤ nb then .raise  -- Cython `int n_bins`: OverflowError
  else if N * T = 0 then .raise            -- `anomaly.min()` of an empty array
  else if zdiv then .raise                 -- ZeroDivisionError (constant data)
  else if castsOK 64 N T scaling rmin nb d.at then
    verdictOf (miSizes N T nb.toNat)
        (miTrace N T nb.toNat (fun i k => symbol scaling rmin nb (d.at i k)))
  else .oob

/-- `_cython_calculate_mutual_information` down to the kernel, for the float64
array `a` of shape (N, T) that results from normalisation and transposition:

    range_min = float(anomaly.min()); range_max = float(anomaly.max())
    scaling = 1./(range_max - range_min)                    # ZeroDivisionError
    mutual_information(to_cy(anomaly, FIELD), n_samples, N, n_bins, scaling, range_min)

`rnd` is the conversion double → float applied by `to_cy(·, FIELD)` to every
sample and by Cython to the argument `float range_min`; `sc` is the `float
scaling` that reaches the kernel (`none`: NaN or +inf).  NaN anywhere makes
minimum, maximum and scaling NaN. -/
def miWrapperCall (rnd : Rat → Rat) (N T : Nat) (nb : Int) (sc : Option Rat) (a : Data) : Verdict :=
  let mn := optMin a.flat
  let mx := optMax a.flat
  let zdiv : Bool := match mn, mx with
    | some x, some y => decide (y - x = 0)
    | _, _ => false
  let sc' : Option Rat := match mn, mx with
    | some _, some _ => sc
    | _, _ => none
  miCall N T nb zdiv sc' (mn.map rnd) (a.map fun row => row.map fun x => x.map rnd)

/-! ### symbols for data with infinities (round 3)

IEEE-754 values with the finite part exact: `nan`, `-inf`, `+inf`, finite rationals.  Subtraction
and multiplication follow the standard (`inf - inf`, `0 · inf` are NaN). -/
inductive XR | nan | ninf | pinf | fin (r : Rat)
deriving Repr, DecidableEq

def XR.sub : XR → XR → XR
  | .nan, _ => .nan
  | _, .nan => .nan
  | .pinf, .pinf => .nan
  | .ninf, .ninf => .nan
  | .pinf, _ => .pinf
  | .ninf, _ => .ninf
  | .fin _, .pinf => .ninf
  | .fin _, .ninf => .pinf
  | .fin a, .fin b => .fin (a - b)

/-- sign of a finite factor: -1, 0, 1 -/
def sgn (r : Rat) : Int := if r < 0 then -1 else if r = 0 then 0 else 1

def XR.mul : XR → XR → XR
  | .nan, _ => .nan
  | _, .nan => .nan
  | .fin a, .fin b => .fin (a * b)
  | .fin a, .pinf => if sgn a = 0 then .nan else if sgn a = 1 then .pinf else .ninf
  | .fin a, .ninf => if sgn a = 0 then .nan else if sgn a = 1 then .ninf else .pinf
  | .pinf, .fin b => if sgn b = 0 then .nan else if sgn b = 1 then .pinf else .ninf
  | .ninf, .fin b => if sgn b = 0 then .nan else if sgn b = 1 then .ninf else .pinf
  | .pinf, .pinf => .pinf
  | .ninf, .ninf => .pinf
  | .pinf, .ninf => .ninf
  | .ninf, .pinf => .ninf

/-- `rescaled = scaling * (x - range_min); if (rescaled < 1.0) sym = (int)(rescaled * n_bins);
else sym = n_bins - 1;` — `none` when the conversion is undefined (`rescaled = -inf`; a finite
value outside the target type is judged by `castDefined` as before) -/
def symbolX (s m : XR) (nb : Int) (x : XR) : Option Int :=
  match XR.mul s (XR.sub x m) with
  | .fin r => some (if r < 1 then truncInt (r * (nb : Rat)) else nb - 1)
  | .ninf => none
  | _ => some (nb - 1)

/-- not negative: `≥ 0`, `+inf` or NaN -/
def XR.notNeg : XR → Bool
  | .fin r => decide (0 ≤ r)
  | .ninf => false
  | _ => true

/-- the extended order, `false` as soon as one side is NaN -/
def XR.le : XR → XR → Bool
  | .nan, _ => false
  | _, .nan => false
  | .ninf, _ => true
  | _, .pinf => true
  | .fin a, .fin b => decide (a ≤ b)
  | _, _ => false

def XR.isNan : XR → Bool
  | .nan => true
  | _ => false

/-! ### size arguments as the calling Python methods pass them (round 4)

The Cython wrappers receive the array sizes as separate integers and the C routines trust them.
`Generated/StructC20Py.lean` (translate/c20_py.py) lists, per wrapper, where the calling Python
method takes each of them from: an axis of an array *that is passed*, an attribute of the object
(`self.N`), a scalar parameter, or something else.  `resolveSize` gives the value such an argument
has for given shapes of the passed arrays and a given `self.N`. -/
abbrev SizeRow := String × String × String × Nat × Nat

def resolveSize (rows : List SizeRow) (cy : String) (shapes : List (List Nat)) (objN : Nat) :
    Option Nat :=
  match rows.find? (fun r => r.1 == cy) with
  | some (_, kind, name, pos, axis) =>
      if kind == "arr" then (shapes.getD pos [])[axis]?
      else if kind == "self" && name == "N" then some objN
      else none
  | none => none

/-- byte sizes when the float32 array that is passed has shape `(N, T)` while the integers
`(Np, Tp)` are passed as `N`, `n_samples` (the work arrays are allocated from the integers) -/
def miSizesHeld (N T Np Tp nb : Nat) : List Nat :=
  [N * T * 4, Np * Tp * 8, Np * nb * 8, nb * nb * 8, Np * Np * 4]

/-- element `idx` of the row-major `(·, T)` array `d`; outside the array: foreign memory, here
`none` (the verdict is `oob` by the load itself, whatever the value) -/
def flatAt (d : Data) (T idx : Nat) : Option Rat := if T = 0 then none else d.at (idx / T) (idx % T)

/-- `MutualInfoClimateNetwork._cython_calculate_mutual_information` on an object with `self.N =
objN`, for the `(N, T)` float32 array `d` that reaches the kernel: the integers `N`, `n_samples`
handed to `mutual_information` are taken from where `rows` says (the generated `mi_pysizes`).  A
source the model cannot evaluate is answered `oob` (not covered — the theorem then fails). -/
def miObjCall (rows : List SizeRow) (objN N T : Nat) (nb : Int) (zdiv : Bool)
    (scaling rmin : Option Rat) (d : Data) : Verdict :=
  match resolveSize rows "N" [[N, T]] objN, resolveSize rows "n_samples" [[N, T]] objN with
  | some Np, some Tp =>
      if Np = N ∧ Tp = T then miCall N T nb zdiv scaling rmin d
      else if nb < 0 ∨ (2 : Int) ^ 31 ≤ nb ∨ N * T = 0 ∨ zdiv = true then .raise
      else
        let dat := fun i k => flatAt d T (i * Tp + k)
        if castsOK 64 Np Tp scaling rmin nb dat then
          verdictOf (miSizesHeld N T Np Tp nb.toNat)
            (miTrace Np Tp nb.toNat (fun i k => symbol scaling rmin nb (dat i k)))
        else .oob
  | _, _ => .oob

/-- `miWrapperCall` (normalised float64 array down to the kernel) on an object with `self.N = objN` -/
def miObjWrapperCall (rnd : Rat → Rat) (rows : List SizeRow) (objN N T : Nat) (nb : Int)
    (sc : Option Rat) (a : Data) : Verdict :=
  let mn := optMin a.flat
  let mx := optMax a.flat
  let zdiv : Bool := match mn, mx with
    | some x, some y => decide (y - x = 0)
    | _, _ => false
  let sc' : Option Rat := match mn, mx with
    | some _, some _ => sc
    | _, _ => none
  miObjCall rows objN N T nb zdiv sc' (mn.map rnd) (a.map fun row => row.map fun x => x.map rnd)

/-! ### the histogram range as an argument (round 4)

`tmiKernelVerdict mn mx` is the part of `tmiCall` after the wrapper has computed `range_min = mn`,
`range_max = mx` (shapes equal, `n_bins` valid, arrays non-empty). -/
def tmiKernelVerdict (mn mx : Option Rat) (N T : Nat) (nb : Int) (dO dS : Data) : Verdict :=
  match mn, mx with
  | some a, some b =>
      if b - a = 0 then .raise
      else
        let s : Option Rat := some (1 / (b - a))
        if castsOK 32 N T s mn nb dO.at && castsOK 32 N T s mn nb dS.at then
          verdictOf (tmiSizes N T N T nb.toNat)
            (tmiTrace N T nb.toNat (fun i k => symbol s mn nb (dO.at i k))
                                   (fun i k => symbol s mn nb (dS.at i k)))
        else .oob
  | _, _ =>
      verdictOf (tmiSizes N T N T nb.toNat)
        (tmiTrace N T nb.toNat (fun _ _ => nb - 1) (fun _ _ => nb - 1))

/-- `np.min((x, y))` / `np.max((x, y))` of two floats: NaN if one of them is -/
def npMin2 (x y : Option Rat) : Option Rat :=
  match x, y with
  | some a, some b => some (if b < a then b else a)
  | _, _ => none
def npMax2 (x y : Option Rat) : Option Rat :=
  match x, y with
  | some a, some b => some (if a < b then b else a)
  | _, _ => none

/-- one term of the range as the generated tables name it: (array, "min" | "max") -/
def rangeTerm (dO dS : Data) (t : String × String) : Option Rat :=
  let a := if t.1 == "original_data" then dO.flat else dS.flat
  if t.2 == "min" then optMin a else optMax a

/-- the range the wrapper computes from the listed terms (`np.min((t0, t1))`, `np.max((u0, u1))`) -/
def rangeFrom (dO dS : Data) (mins maxs : List (String × String)) : Option Rat × Option Rat :=
  match mins, maxs with
  | [t0, t1], [u0, u1] => (npMin2 (rangeTerm dO dS t0) (rangeTerm dO dS t1),
                           npMax2 (rangeTerm dO dS u0) (rangeTerm dO dS u1))
  | _, _ => (none, none)

/-! ### `Surrogates.test_mutual_information` for data with infinities (round 5)

The wrapper `_test_mutual_information` (timeseries `numerics.pyx`) from the two float64 arrays down
to the kernel, over IEEE values (`XR`: NaN, `-inf`, `+inf`, finite exact):

    range_min = np.min((original_data.min(), surrogates.min()))
    range_max = np.max((original_data.max(), surrogates.max()))
    scaling = 1. / (range_max - range_min)          # ZeroDivisionError for 0 (cdivision is off)

`min` / `max` of NumPy propagate NaN.  The terms of the range are taken from where the *generated*
tables `tmi_range_min`, `tmi_range_max`, `tmi_scaling` (translate/c20_py.py) say. -/
abbrev XData := List (List XR)

def XData.at (d : XData) (i k : Nat) : XR := (d.getD i []).getD k .nan

/-- `np.min((a, b))`, also one step of `ndarray.min()`: NaN if one side is NaN -/
def XR.min2 (a b : XR) : XR :=
  if a.isNan || b.isNan then .nan else if XR.le b a then b else a
def XR.max2 (a b : XR) : XR :=
  if a.isNan || b.isNan then .nan else if XR.le a b then b else a

/-- `ndarray.min()` / `.max()` of the flattened array (the wrapper has rejected empty arrays; the
empty list is given NaN here) -/
def xrMin (xs : List XR) : XR := xs.foldl XR.min2 (xs.headD .nan)
def xrMax (xs : List XR) : XR := xs.foldl XR.max2 (xs.headD .nan)

/-- `1. / d` on C doubles under Cython's default `cdivision=False`: `none` is ZeroDivisionError;
`1/±inf = ±0` (the sign of zero is immaterial for the symbols) -/
def XR.recip : XR → Option XR
  | .nan => some .nan
  | .pinf => some (.fin 0)
  | .ninf => some (.fin 0)
  | .fin r => if r = 0 then none else some (.fin (1 / r))

/-- one term of the range as the generated tables name it: (array, "min" | "max") -/
def rangeTermX (dO dS : XData) (t : String × String) : XR :=
  let a := if t.1 == "original_data" then dO.flatten else dS.flatten
  if t.2 == "min" then xrMin a else xrMax a

/-- combine two terms with the NumPy function the source names -/
def combineX (fn : String) (x y : XR) : Option XR :=
  if fn == "np.min" then some (XR.min2 x y) else if fn == "np.max" then some (XR.max2 x y) else none

/-- `(range_min, range_max)` as the wrapper computes them from the generated terms; `none` when the
source has a form the model cannot evaluate -/
def rangeFromX (dO dS : XData) (rmin rmax : String × List (String × String)) : Option (XR × XR) :=
  match rmin.2, rmax.2 with
  | [t0, t1], [u0, u1] =>
      match combineX rmin.1 (rangeTermX dO dS t0) (rangeTermX dO dS t1),
            combineX rmax.1 (rangeTermX dO dS u0) (rangeTermX dO dS u1) with
      | some a, some b => some (a, b)
      | _, _ => none
  | _, _ => none

/-- the float→int conversion executed for one sample (if any) is defined: the rescaled value is not
`-inf`, and a finite one below 1 truncates into the target type -/
def convOKX (bits : Nat) (s m : XR) (nb : Int) (x : XR) : Bool :=
  match XR.mul s (XR.sub x m) with
  | .fin r => if r < 1 then castDefined bits (r * (nb : Rat)) else true
  | .ninf => false
  | _ => true

def convsOKX (bits N T : Nat) (s m : XR) (nb : Int) (d : Nat → Nat → XR) : Bool :=
  (List.range N).all fun i => (List.range T).all fun k => convOKX bits s m nb (d i k)

/-- `_test_mutual_information_fast` with `scaling = s`, `range_min = m` on two `(N, T)` arrays of
IEEE values and the work arrays the wrapper allocates -/
def tmiKernelX (s m : XR) (N T : Nat) (nb : Int) (dO dS : XData) : Verdict :=
  if convsOKX 32 N T s m nb dO.at && convsOKX 32 N T s m nb dS.at then
    verdictOf (tmiSizes N T N T nb.toNat)
      (tmiTrace N T nb.toNat (fun i k => (symbolX s m nb (dO.at i k)).getD 0)
                             (fun i k => (symbolX s m nb (dS.at i k)).getD 0))
  else .oob

/-- `Surrogates.test_mutual_information(original_data, surrogates, n_bins)` for arrays of shapes
`(N, T)`, `(N2, T2)` holding any IEEE values; rejections as in `tmiCall`; the range terms and the
scaling expression are parameters (the generated `tmi_range_min`, `tmi_range_max`, `tmi_scaling`).
A source form the model cannot evaluate is answered `oob` (not covered — the theorem then fails). -/
def tmiCallX (rmin rmax : String × List (String × String)) (scal : String)
    (N T N2 T2 : Nat) (nb : Int) (dO dS : XData) : Verdict :=
  if nb < 1 then .raise
  else if (N2, T2) ≠ (N, T) then .raise
  else if (2 : Int) ^ 31 ≤ nb then .raise
  else if N * T = 0 then .raise
  else if scal != "1.0 / (range_max - range_min)" then .oob
  else
    match rangeFromX dO dS rmin rmax with
    | none => .oob
    | some (mn, mx) =>
        match XR.recip (XR.sub mx mn) with
        | none => .raise
        | some s => tmiKernelX s mn N T nb dO dS

/-- `Option Rat` data (NaN | finite) as IEEE values -/
def XR.ofOpt : Option Rat → XR
  | none => .nan
  | some r => .fin r

/-! ### round 5, continued: the climate kernel on IEEE data; the two surrogate tests with every
size and shape test read off the generated tables -/

/-- `_mutual_information` with `scaling = s`, `range_min = m` (C `float`s, any IEEE value) on an
`(N, T)` float32 array of IEEE values and the work arrays the wrapper allocates; `(long)` conversions -/
def miKernelX (s m : XR) (N T : Nat) (nb : Int) (d : XData) : Verdict :=
  if convsOKX 64 N T s m nb d.at then
    verdictOf (miSizes N T nb.toNat)
      (miTrace N T nb.toNat (fun i k => (symbolX s m nb (d.at i k)).getD 0))
  else .oob

/-- what a Python method does before it calls its raw-pointer Cython wrapper, as far as the sizes go -/
inductive Front
  | raise                    -- a shape test of the method fails
  | sizes (Np Tp : Nat)      -- the two integers handed to the wrapper
  | unknown                  -- a source the model cannot evaluate
deriving Repr, DecidableEq

/-- `checks`: pairs of pointer positions whose arrays must have equal shapes (generated
`…_pychecks`); `rows`: where the integers `nName`, `tName` are taken from (generated `…_pysizes`) -/
def pyFront (rows : List SizeRow) (checks : List (Nat × Nat)) (nName tName : String)
    (shapes : List (List Nat)) : Front :=
  if checks.any (fun c => shapes.getD c.1 [] != shapes.getD c.2 []) then .raise
  else
    match resolveSize rows nName shapes 0, resolveSize rows tName shapes 0 with
    | some a, some b => .sizes a b
    | _, _ => .unknown

/-- `Surrogates.test_pearson_correlation(original_data (N, T), surrogates (N2, T2))` with the shape
test and the integers `N`, `n_time` as the generated tables give them; `correlation` is allocated
`(N, N)` from the integer, `norm = 1.0 / float(n_time)` raises for 0 -/
def pearsonObjCall (rows : List SizeRow) (checks : List (Nat × Nat)) (N T N2 T2 : Nat) : Verdict :=
  match pyFront rows checks "N" "n_time" [[N, T], [N2, T2]] with
  | .raise => .raise
  | .unknown => .oob
  | .sizes Np Tp =>
      if Tp = 0 then .raise
      else verdictOf [N * T * 8, N2 * T2 * 8, Np * Np * 4] (pearsonTrace Np Tp)

/-- entry `idx` of the row-major array `d`; outside: foreign memory (NaN here — the load itself is
already out of bounds) -/
def XData.flatAt (d : XData) (idx : Nat) : XR := d.flatten.getD idx .nan

/-- `Surrogates.test_mutual_information` with *everything* the translator reads as a parameter:
size sources and shape tests (`tmi_pysizes`, `tmi_pychecks`), range terms and scaling expression.
When the integers are the axes of both arrays this is `tmiCallX`; otherwise the work arrays are
allocated from the integers and the samples are read at the flat offsets the kernel forms. -/
def tmiObjCallX (rows : List SizeRow) (checks : List (Nat × Nat))
    (rmin rmax : String × List (String × String)) (scal : String)
    (N T N2 T2 : Nat) (nb : Int) (dO dS : XData) : Verdict :=
  if nb < 1 then .raise
  else
    match pyFront rows checks "N" "n_time" [[N, T], [N2, T2]] with
    | .raise => .raise
    | .unknown => .oob
    | .sizes Np Tp =>
        if Np = N ∧ Tp = T ∧ N2 = N ∧ T2 = T then tmiCallX rmin rmax scal N T N2 T2 nb dO dS
        else if (2 : Int) ^ 31 ≤ nb then .raise
        else if N * T = 0 ∨ N2 * T2 = 0 then .raise        -- `.min()` of an empty array
        else if scal != "1.0 / (range_max - range_min)" then .oob
        else
          match rangeFromX dO dS rmin rmax with
          | none => .oob
          | some (mn, mx) =>
              match XR.recip (XR.sub mx mn) with
              | none => .raise
              | some s =>
                  let fO := fun i k => dO.flatAt (i * Tp + k)
                  let fS := fun i k => dS.flatAt (i * Tp + k)
                  if convsOKX 32 Np Tp s mn nb fO && convsOKX 32 Np Tp s mn nb fS then
                    verdictOf [N * T * 8, N2 * T2 * 8, Np * Tp * 4, Np * Tp * 4,
                               Np * nb.toNat * 4, Np * nb.toNat * 4, nb.toNat * nb.toNat * 4, Np * Np * 4]
                      (tmiTrace Np Tp nb.toNat (fun i k => (symbolX s mn nb (fO i k)).getD 0)
                                               (fun i k => (symbolX s mn nb (fS i k)).getD 0))
                  else .oob

end Pyunicorn.Access
