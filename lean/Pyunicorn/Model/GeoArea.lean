import Pyunicorn.Model.Geo
/-
Round 4 additions to the model of the grid geometry code (property C12).  Core Lean only.

Anchors (pyunicorn working tree):
* `core/grid.py`         `Grid.__init__` (`self.N = space_seq.shape[1]`), `Grid.sequence`,
                         `Grid.euclidean_distance` as a *method of the object* (`N_nodes = self.N`,
                         `N_dim = sequences.shape[0]`), `Grid.distance`
* `core/geo_grid.py`     `GeoGrid.__init__` (`np.vstack((lat_seq, lon_seq))`), `lat_sequence`,
                         `lon_sequence`, `GeoGrid.distance` (override: the angular distances),
                         `GeoGrid.coord_sequence_from_rect_grid`
* `core/geo_network.py`  `_calculate_general_connectivity_weighted_distance` and its three
                         wrappers, `(in|out|)total_link_distance`
-/
namespace Pyunicorn.Geo

/-- what a `Grid` object holds: the array `_grid["space"]` of shape `(dim, n)` -/
structure GridData (α : Type) where
  dim : Nat
  n : Nat
  x : Nat → Nat → α

/-- which class the object has: `Grid.distance` is overridden by `GeoGrid.distance` -/
inductive GridKind | euclid | geo
deriving DecidableEq, Repr

section GridObj
variable {α : Type} [Add α] [Mul α] [Sub α] [Neg α] [Div α] [OfNat α 0] [OfNat α 1]
  [LT α] [DecidableLT α] [DecidableEq α]

/-- `self.N = self._grid_size["space"]`, which `__init__` sets to `space_seq.shape[1]` -/
def GridData.N (g : GridData α) : Nat := g.n

/-- `Grid.sequence(dimension)`: `self._grid["space"][dimension]`; `none` is numpy's
`IndexError` for a dimension the grid does not have -/
def GridData.sequence (g : GridData α) (k : Nat) : Option (Nat → α) :=
  if k < g.dim then some (g.x k) else none

/-- `GeoGrid.__init__`: `Grid.__init__(self, time_seq, np.vstack((lat_seq, lon_seq)), …)` —
row 0 holds the latitudes, row 1 the longitudes, and the grid always has two dimensions -/
def geoGridData (lat lon : Nat → α) (n : Nat) : GridData α :=
  ⟨2, n, fun k i => if k = 0 then lat i else lon i⟩

/-- `Grid.euclidean_distance()` as a method of the object:
`N_nodes = self.N; sequences = self._grid["space"]; N_dim = sequences.shape[0]` and the
kernel call `_calculate_euclidean_distance(sequences, distance, N_dim, N_nodes)` -/
def gridEuclideanDistance (T : Trig α) (g : GridData α) : Nat → Nat → α :=
  euclKernel T.sqrt g.x g.dim g.N

/-- `GeoGrid.angular_distance()` as a method of the object: the tables are computed from
`lat_sequence() = sequence(0)` and `lon_sequence() = sequence(1)`, the size is `self.N` -/
def gridAngularDistance (T : Trig α) (g : GridData α) : Nat → Nat → α :=
  angularDistance T (g.x 0) (g.x 1) g.N

/-- `grid.distance()`: `Grid.distance` returns `euclidean_distance()`, the override
`GeoGrid.distance` returns `angular_distance()` -/
def gridDistance (T : Trig α) (kind : GridKind) (g : GridData α) : Nat → Nat → α :=
  match kind with
  | .euclid => gridEuclideanDistance T g
  | .geo => gridAngularDistance T g

/-! ### area weighted measures with an explicit weight table `w = cos_lat()` -/

/-- `inarea_weighted_connectivity`: `cos_lat.dot(adjacency) / cos_lat.sum()` -/
def inAWCw (w : Nat → α) (A : Nat → Nat → α) (N j : Nat) : α :=
  sumTo N (fun i => w i * A i j) / sumTo N w

/-- `outarea_weighted_connectivity`: `adjacency.dot(cos_lat) / cos_lat.sum()` -/
def outAWCw (w : Nat → α) (A : Nat → Nat → α) (N i : Nat) : α :=
  sumTo N (fun j => A i j * w j) / sumTo N w

/-- `area_weighted_connectivity` -/
def AWCw (directed : Bool) (w : Nat → α) (A : Nat → Nat → α) (N i : Nat) : α :=
  if directed then inAWCw w A N i + outAWCw w A N i else inAWCw w A N i

/-- `_calculate_general_connectivity_weighted_distance(adjacency, degree)`, entry `i`:
`(adjacency[i, :] * cos_lat * D[i, :]).sum()`, divided by `degree[i] * cos_lat.sum()` where
`degree[i] != 0` (otherwise the sum is left as it is).  `none` stands for the division by a
zero total weight (numpy: `nan` / `inf`). -/
def genCWD (D A : Nat → Nat → α) (w deg : Nat → α) (N i : Nat) : Option α :=
  let s := sumTo N (fun j => A i j * w j * D i j)
  if deg i = 0 then some s
  else if deg i * sumTo N w = 0 then none else some (s / (deg i * sumTo N w))

/-- `outconnectivity_weighted_distance`: `A = adjacency`, `degree = outdegree()` -/
def outCWD (D A : Nat → Nat → α) (w : Nat → α) (N i : Nat) : Option α :=
  genCWD D A w (fun i => sumTo N (fun j => A i j)) N i

/-- `inconnectivity_weighted_distance`: `A = adjacency.transpose()`, `degree = indegree()` -/
def inCWD (D A : Nat → Nat → α) (w : Nat → α) (N i : Nat) : Option α :=
  genCWD D (fun a b => A b a) w (fun i => sumTo N (fun j => A j i)) N i

/-- `connectivity_weighted_distance`: `A = undirected_adjacency()`, `degree = degree()`
(`indegree() + outdegree()` for a directed network) -/
def CWD (directed : Bool) (D A : Nat → Nat → α) (w : Nat → α) (N i : Nat) : Option α :=
  genCWD D (undirAdj A) w
    (fun i => if directed then sumTo N (fun j => A j i) + sumTo N (fun j => A i j)
              else sumTo N (fun j => A i j)) N i

/-- `outtotal_link_distance(geometry_corrected)`: `out_ald * out_awc` -/
def outTLD (D A : Nat → Nat → α) (w : Nat → α) (N : Nat) (nN : α) (corrected : Bool) (i : Nat) :
    Option α :=
  (outALD D A N nN corrected i).map (· * outAWCw w A N i)

/-- `intotal_link_distance(geometry_corrected)`: `in_ald * in_awc` -/
def inTLD (D A : Nat → Nat → α) (w : Nat → α) (N : Nat) (nN : α) (corrected : Bool) (i : Nat) :
    Option α :=
  (inALD D A N nN corrected i).map (· * inAWCw w A N i)

/-- `total_link_distance(geometry_corrected)`: `average_link_distance * area_weighted_connectivity` -/
def TLD (directed : Bool) (D A : Nat → Nat → α) (w : Nat → α) (N : Nat) (nN : α) (corrected : Bool)
    (i : Nat) : Option α :=
  (avgALD directed D A N nN corrected i).map (· * AWCw directed w A N i)

end GridObj

/-! ### `GeoGrid.coord_sequence_from_rect_grid(lat_grid, lon_grid)` -/

/-- `space_seq = Grid.coord_sequence_from_rect_grid([lat_grid, lon_grid]); return
(space_seq[0], space_seq[1])` -/
def geoRectGrid {β : Type} (latGrid lonGrid : List β) :
    Option (List (Option β) × List (Option β)) :=
  match rectGrid [latGrid, lonGrid] with
  | [a, b] => some (a, b)
  | _ => none

end Pyunicorn.Geo
