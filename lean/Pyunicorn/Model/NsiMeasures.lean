import Pyunicorn.Model.Nsi
/-
The n.s.i. measures of `Network` (core/network.py) and `InteractingNetworks`
(core/interacting_networks.py) as expressions of `Pyunicorn.Nsi.E`.
Conventions: a per-node measure is evaluated with environment `[i]`, a pairwise one with
`[i, j]`, a global one with `[]`.  Inside `wsum`/`kmax` the bound node is variable 0 and the
outer variables shift by one.  Link attribute 0 is the attribute matrix `W` itself, link
attribute 1 its entry-wise cube root (`M = W ** (1/3)` of the motif helper); group 0 / 1 are
`node_list1` / `node_list2`.
-/
namespace Pyunicorn.Nsi.M
open Pyunicorn.Nsi

def c (q : Rat) : E := .const q
infixl:65 " +ₑ " => E.add
infixl:65 " -ₑ " => E.sub
infixl:70 " *ₑ " => E.mul
infixl:70 " /ₑ " => E.div

/-- `k*_x = Σ_k w_k A⁺(x, k)` for the node in variable `i` -/
def kstar (i : Nat) : E := .wsum (.aplus (i + 1) 0)
def kin (i : Nat) : E := .wsum (.aplus 0 (i + 1))
def kout (i : Nat) : E := .wsum (.aplus (i + 1) 0)
def totalW : E := .wsum (c 1)

/-- `res / typical_weight - 1` -/
def corr (tw : Rat) (e : E) : E := e /ₑ c tw -ₑ c 1

def nsiDegree : E := kstar 0
def nsiIndegree : E := kin 0
def nsiOutdegree : E := kout 0
def nsiDegreeDirected : E := kin 0 +ₑ kout 0
def nsiDegreeKey : E := .wsum (.la 0 0 1)            -- `node_weights @ W`
def nsiIndegreeKey : E := .wsum (.la 0 0 1)
def nsiOutdegreeKey : E := .wsum (.la 0 1 0)         -- `W @ node_weights`
def nsiBildegree : E := .wsum (.aplus 1 0 *ₑ .aplus 0 1)

def nsiAvgNeighborsDegree : E := .wsum (.aplus 1 0 *ₑ kstar 0) /ₑ kstar 0
def nsiMaxNeighborsDegree : E := .kmax (.aplus 1 0 *ₑ kstar 0)

/-- `Σ_j Σ_k w_j w_k a(i,j) b(j,k) c(k,i)`-type triple sums; inside, `i` is variable 2,
`j` variable 1 and `k` variable 0 -/
def tri : E := .wsum (.wsum (.aplus 2 1 *ₑ .aplus 1 0 *ₑ .aplus 0 2))

def nsiLocalClustering : E := tri /ₑ (kstar 0 *ₑ kstar 0)
def nsiLocalClusteringCorrected (tw : Rat) : E :=
  let k := corr tw (kstar 0)
  (tri /ₑ c (tw * tw) -ₑ c 3 *ₑ k -ₑ c 1) /ₑ (k *ₑ (k -ₑ c 1))
def nsiGlobalClustering : E := .wsum nsiLocalClustering /ₑ totalW
def nsiTransitivity : E :=
  .wsum tri /ₑ .wsum (.wsum (.wsum (.aplus 2 1 *ₑ .aplus 1 0)))
def nsiLocalSofferClustering : E :=
  tri /ₑ .wsum (.min (kstar 1) (kstar 0) *ₑ .aplus 0 1)
def nsiTwinness : E :=
  .aplus 0 1 *ₑ .wsum (.aplus 1 0 *ₑ .aplus 0 2) /ₑ .max (kstar 0) (kstar 1)

/-! motif clustering (directed): `t = t_func(A⁺ D_w, A⁺ᵀ D_w).diagonal()`, `C = t / (w T)` -/
def tCycle : E := .wsum (.wsum (.aplus 2 1 *ₑ .aplus 1 0 *ₑ .aplus 0 2))
def tMid : E := .wsum (.wsum (.aplus 2 1 *ₑ .aplus 0 1 *ₑ .aplus 0 2))
def tIn : E := .wsum (.wsum (.aplus 1 2 *ₑ .aplus 1 0 *ₑ .aplus 0 2))
def tOut : E := .wsum (.wsum (.aplus 2 1 *ₑ .aplus 1 0 *ₑ .aplus 2 0))
def nsiCycleMotif : E := tCycle /ₑ (kin 0 *ₑ kout 0)
def nsiMidMotif : E := tMid /ₑ (kin 0 *ₑ kout 0)
def nsiInMotif : E := tIn /ₑ (kin 0 *ₑ kin 0)
def nsiOutMotif : E := tOut /ₑ (kout 0 *ₑ kout 0)
/-- link-weighted variants: `A⁺` replaced by `M = W^(1/3)` (link attribute 1) -/
def tCycleKey : E := .wsum (.wsum (.la 1 2 1 *ₑ .la 1 1 0 *ₑ .la 1 0 2))
def tMidKey : E := .wsum (.wsum (.la 1 2 1 *ₑ .la 1 0 1 *ₑ .la 1 0 2))
def tInKey : E := .wsum (.wsum (.la 1 1 2 *ₑ .la 1 1 0 *ₑ .la 1 0 2))
def tOutKey : E := .wsum (.wsum (.la 1 2 1 *ₑ .la 1 1 0 *ₑ .la 1 2 0))
def nsiCycleMotifKey : E := tCycleKey /ₑ (kin 0 *ₑ kout 0)
def nsiMidMotifKey : E := tMidKey /ₑ (kin 0 *ₑ kout 0)
def nsiInMotifKey : E := tInKey /ₑ (kin 0 *ₑ kin 0)
def nsiOutMotifKey : E := tOutKey /ₑ (kout 0 *ₑ kout 0)
/-- typical-weight corrected: `(t/w/tw² - 3 bilk - 1) / (T - ksum/tw - bilk + 2)` with
corrected degrees -/
def motifCorrected (tw : Rat) (t T ksum : E) : E :=
  let bilk := corr tw nsiBildegree
  (t /ₑ c (tw * tw) -ₑ c 3 *ₑ bilk -ₑ c 1) /ₑ (T -ₑ ksum /ₑ c tw -ₑ bilk +ₑ c 2)
def nsiCycleMotifCorrected (tw : Rat) : E :=
  let i := corr tw (kin 0); let o := corr tw (kout 0)
  motifCorrected tw tCycle (i *ₑ o) (i +ₑ o)
def nsiMidMotifCorrected (tw : Rat) : E :=
  let i := corr tw (kin 0); let o := corr tw (kout 0)
  motifCorrected tw tMid (i *ₑ o) (i +ₑ o)
def nsiInMotifCorrected (tw : Rat) : E :=
  let i := corr tw (kin 0)
  motifCorrected tw tIn (i *ₑ i) (i *ₑ c 2)
def nsiOutMotifCorrected (tw : Rat) : E :=
  let o := corr tw (kout 0)
  motifCorrected tw tOut (o *ₑ o) (o *ₑ c 2)

/-! distance based -/
def nsiAveragePathLength : E := .wsum (.wsum (.dplus 1 0)) /ₑ .wsum (.wsum (.conn 1 0))
def nsiCloseness : E :=
  .ifpos (.wsum (c 1 -ₑ .conn 1 0)) (c 0) (totalW /ₑ .wsum (.dplus 1 0))
def nsiHarmonicCloseness : E := .wsum (.invd 1 0) /ₑ totalW
def nsiExponentialCloseness : E := .wsum (.expd 1 0) /ₑ totalW
def nsiGlobalEfficiency : E := .wsum (.wsum (.invd 1 0)) /ₑ (totalW *ₑ totalW)

/-! two sub-networks (groups 0 and 1) -/
def g (k i : Nat) : E := .grp k i
def nsiCrossDegree : E := .wsum (g 1 0 *ₑ .aplus 1 0)
def nsiInternalDegree : E := .wsum (g 0 0 *ₑ .aplus 1 0)
def w1 : E := .wsum (g 0 0)
def w2 : E := .wsum (g 1 0)
def nsiCrossMeanDegree : E := .wsum (g 0 0 *ₑ nsiCrossDegree) /ₑ w1
def nsiCrossEdgeDensity : E := nsiCrossMeanDegree /ₑ w2
def crossTri : E :=
  .wsum (.wsum (g 1 1 *ₑ g 1 0 *ₑ .aplus 2 1 *ₑ .aplus 1 0 *ₑ .aplus 0 2))
def nsiCrossLocalClustering : E := crossTri /ₑ (nsiCrossDegree *ₑ nsiCrossDegree)
def nsiCrossGlobalClustering : E := .wsum (g 0 0 *ₑ nsiCrossLocalClustering) /ₑ w1
def nsiCrossTransitivity : E :=
  .wsum (g 0 0 *ₑ .wsum (.wsum (g 1 1 *ₑ g 1 0 *ₑ .aplus 2 1 *ₑ .aplus 2 0 *ₑ .aplus 1 0)))
    /ₑ .wsum (g 0 0 *ₑ nsiCrossDegree *ₑ nsiCrossDegree)
/-- on inputs where every cross pair is reachable -/
def nsiCrossClosenessCentrality : E := w2 /ₑ .wsum (g 1 0 *ₑ .dplus 1 0)
def nsiCrossAveragePathLength : E :=
  .wsum (g 0 0 *ₑ .wsum (g 1 0 *ₑ .dplus 1 0)) /ₑ (w1 *ₑ w1)

/-- `nsi_internal_local_clustering(L)` = `nsi_cross_local_clustering(L, L)`,
`nsi_internal_closeness_centrality(L)` = `nsi_cross_closeness_centrality(L, L)` (group 0) -/
def internalTri : E :=
  .wsum (.wsum (g 0 1 *ₑ g 0 0 *ₑ .aplus 2 1 *ₑ .aplus 1 0 *ₑ .aplus 0 2))
def nsiInternalLocalClustering : E := internalTri /ₑ (nsiInternalDegree *ₑ nsiInternalDegree)
def nsiInternalClosenessCentrality : E := w1 /ₑ .wsum (g 0 0 *ₑ .dplus 1 0)

/-- the catalogue: (name, arity, expression); `tw` = typical weight -/
def all (tw : Rat) : List (String × Nat × E) := [
  ("total_node_weight", 0, totalW),
  ("nsi_degree", 1, nsiDegree), ("nsi_indegree", 1, nsiIndegree),
  ("nsi_outdegree", 1, nsiOutdegree), ("nsi_degree_directed", 1, nsiDegreeDirected),
  ("nsi_degree_tw", 1, corr tw nsiDegree), ("nsi_indegree_tw", 1, corr tw nsiIndegree),
  ("nsi_outdegree_tw", 1, corr tw nsiOutdegree),
  ("nsi_degree_key", 1, nsiDegreeKey), ("nsi_indegree_key", 1, nsiIndegreeKey),
  ("nsi_outdegree_key", 1, nsiOutdegreeKey),
  ("nsi_bildegree", 1, nsiBildegree), ("nsi_bildegree_tw", 1, corr tw nsiBildegree),
  ("nsi_average_neighbors_degree", 1, nsiAvgNeighborsDegree),
  ("nsi_max_neighbors_degree", 1, nsiMaxNeighborsDegree),
  ("nsi_local_clustering", 1, nsiLocalClustering),
  ("nsi_local_clustering_tw", 1, nsiLocalClusteringCorrected tw),
  ("nsi_global_clustering", 0, nsiGlobalClustering),
  ("nsi_transitivity", 0, nsiTransitivity),
  ("nsi_local_soffer_clustering", 1, nsiLocalSofferClustering),
  ("nsi_twinness", 2, nsiTwinness),
  ("nsi_local_cyclemotif_clustering", 1, nsiCycleMotif),
  ("nsi_local_midmotif_clustering", 1, nsiMidMotif),
  ("nsi_local_inmotif_clustering", 1, nsiInMotif),
  ("nsi_local_outmotif_clustering", 1, nsiOutMotif),
  ("nsi_local_cyclemotif_clustering_key", 1, nsiCycleMotifKey),
  ("nsi_local_midmotif_clustering_key", 1, nsiMidMotifKey),
  ("nsi_local_inmotif_clustering_key", 1, nsiInMotifKey),
  ("nsi_local_outmotif_clustering_key", 1, nsiOutMotifKey),
  ("nsi_local_cyclemotif_clustering_tw", 1, nsiCycleMotifCorrected tw),
  ("nsi_local_midmotif_clustering_tw", 1, nsiMidMotifCorrected tw),
  ("nsi_local_inmotif_clustering_tw", 1, nsiInMotifCorrected tw),
  ("nsi_local_outmotif_clustering_tw", 1, nsiOutMotifCorrected tw),
  ("nsi_average_path_length", 0, nsiAveragePathLength),
  ("nsi_closeness", 1, nsiCloseness),
  ("nsi_harmonic_closeness", 1, nsiHarmonicCloseness),
  ("nsi_exponential_closeness", 1, nsiExponentialCloseness),
  ("nsi_global_efficiency", 0, nsiGlobalEfficiency),
  ("nsi_cross_degree", 1, nsiCrossDegree), ("nsi_internal_degree", 1, nsiInternalDegree),
  ("nsi_cross_mean_degree", 0, nsiCrossMeanDegree),
  ("nsi_cross_edge_density", 0, nsiCrossEdgeDensity),
  ("nsi_cross_local_clustering", 1, nsiCrossLocalClustering),
  ("nsi_cross_global_clustering", 0, nsiCrossGlobalClustering),
  ("nsi_cross_transitivity", 0, nsiCrossTransitivity),
  ("nsi_cross_closeness_centrality", 1, nsiCrossClosenessCentrality),
  ("nsi_cross_average_path_length", 0, nsiCrossAveragePathLength),
  ("nsi_internal_local_clustering", 1, nsiInternalLocalClustering),
  ("nsi_internal_closeness_centrality", 1, nsiInternalClosenessCentrality)]

end Pyunicorn.Nsi.M
