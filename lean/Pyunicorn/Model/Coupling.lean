/-!
# Model of the similarity / coupling kernels (C10) — core Lean only

Algorithm model of

* `funcnet/_ext/numerics.pyx`: `_cross_correlation_max`, `_cross_correlation_all`,
  `_symmetrize_by_absmax`
* `funcnet/coupling_analysis.py`: `cross_correlation` (window starts, `corr_range`),
  the `maximum`/`lag_at_max` loop of `mutual_information` / `information_transfer`,
  `_quantile_bin_array`, `bincount_hist`
* `climate/_ext/src_numerics.c`: `_mutual_information` (symbolisation, flat index walks
  `i*n_samples+k`, `i*n_bins+s`, `l*n_bins+m`, mirrored write of the result)
* `timeseries/_ext/src_numerics.c`: `_test_pearson_correlation_fast`,
  `_test_mutual_information_fast`
* `climate/spearman.py`: `rank_time_series`

Arrays are functions of their (flat or multi-) index; loops are structural recursion on
the number of iterations already executed, so `f n` is "the state after `n` iterations".
All arithmetic is exact (`Rat`, `Int`, `Nat`).  Square roots are avoided by carrying the
*signed square* of a correlation coefficient.
-/
namespace Pyunicorn.Coupling

/-- `abs` of the C / Cython code -/
def rabs (x : Rat) : Rat := if x < 0 then -x else x

/-- `acc = 0; for k in range(n): acc += f k` -/
def sumTo : Nat → (Nat → Rat) → Rat
  | 0, _ => 0
  | n+1, f => sumTo n f + f n

/-- the inner `k` loop of the correlation kernels -/
def dotTo (n : Nat) (f g : Nat → Rat) : Rat := sumTo n fun k => f k * g k

/-- number of `k < n` with `p k` -/
def countTo : Nat → (Nat → Bool) → Nat
  | 0, _ => 0
  | n+1, p => countTo n p + (if p n then 1 else 0)

/-- point update of an array -/
def upd {α : Type} (L : Nat → α) (i : Nat) (v : α) : Nat → α := fun k => if k = i then v else L k

/-- point update of a matrix -/
def upd2 {α : Type} (M : Nat → Nat → α) (i j : Nat) (v : α) : Nat → Nat → α :=
  fun a b => if a = i ∧ b = j then v else M a b

/-- a value stored into an `int8` (`LAG`) cell -/
def wrap8 (z : Int) : Int := (z + 128) % 256 - 128

/-! ## `_cross_correlation_max` / `_cross_correlation_all` -/

/-- The `tau` loop with `max = 0.0; argmax = 0` and the strict test
`if abs(crossij) > abs(max)`: state after `n` iterations. -/
def absmaxScan (c : Nat → Rat) : Nat → Rat × Nat
  | 0 => (0, 0)
  | n+1 =>
    let st := absmaxScan c n
    if rabs (c n) > rabs st.1 then (c n, n) else st

/-- `crossij` for the pair `(i, j)` at loop index `tau`:
`Σ_k array[tau, i, k] * array[tau_max, j, k]` -/
def crossAt (A : Nat → Nat → Nat → Rat) (tauMax cr i j tau : Nat) : Rat :=
  dotTo cr (A tau i) (A tauMax j)

/-- entry `(i, j)` of `(similarity_matrix, lag_matrix)` returned by `_cross_correlation_max` -/
def ccMaxEntry (A : Nat → Nat → Nat → Rat) (tauMax cr i j : Nat) : Rat × Int :=
  if i = j then (1, 0) else
    let st := absmaxScan (crossAt A tauMax cr i j) (tauMax + 1)
    (st.1 / (cr : Rat), wrap8 ((tauMax : Int) - (st.2 : Int)))

/-- the `tau` loop of `_cross_correlation_all` for one pair: the row `lagfuncs[i, j, :]`
after `n` iterations (`lagfuncs[i, j, tau_max - tau] = crossij / corr_range`) -/
def ccAllRow (c : Nat → Rat) (tauMax cr : Nat) : Nat → (Nat → Rat)
  | 0 => fun _ => 0
  | n+1 => upd (ccAllRow c tauMax cr n) (tauMax - n) (c n / (cr : Rat))

def ccAllEntry (A : Nat → Nat → Nat → Rat) (tauMax cr i j lag : Nat) : Rat :=
  ccAllRow (crossAt A tauMax cr i j) tauMax cr (tauMax + 1) lag

/-- the window array built by `cross_correlation` before standardisation:
`array[t, i, k] = data[t + k, i]` -/
def windows (x : Nat → Nat → Rat) : Nat → Nat → Nat → Rat := fun t i k => x i (t + k)

/-! ## the `maximum` / `lag_at_max` loop of `mutual_information`, `information_transfer` -/

/-- `maximum = 0.; lag_at_max = 0; for tau: if ixy_z > maximum: …` (no `abs`) -/
def maxScan (c : Nat → Rat) : Nat → Rat × Nat
  | 0 => (0, 0)
  | n+1 =>
    let st := maxScan c n
    if c n > st.1 then (c n, n) else st

/-! ## `_symmetrize_by_absmax` -/

abbrev SymState := (Nat → Nat → Rat) × (Nat → Nat → Int)

/-- body of the double loop for the pair `(i, j)` -/
def symStep (st : SymState) (ij : Nat × Nat) : SymState :=
  let S := st.1
  let L := st.2
  let i := ij.1
  let j := ij.2
  if rabs (S i j) > rabs (S j i) then
    (upd2 S j i (S i j), upd2 L j i (wrap8 (-(L i j))))
  else
    (upd2 S i j (S j i), upd2 L i j (wrap8 (-(L j i))))

/-- the inner loop `for j in range(i+1, N)` written as `for j in range(n): if i < j`;
state after `n` values of `j` -/
def symRow (i : Nat) : Nat → SymState → SymState
  | 0, st => st
  | j+1, st =>
    let st' := symRow i j st
    if i < j then symStep st' (i, j) else st'

/-- the outer loop: state after the rows `i < n` -/
def symAll (N : Nat) : Nat → SymState → SymState
  | 0, st => st
  | i+1, st => symRow i N (symAll N i st)

def symmetrize (N : Nat) (st : SymState) : SymState := symAll N N st

/-! ## histogram walks of the C routines -/

/-- `(*p)++` on a flat `long`/`int` array -/
def inc (H : Nat → Nat) (i : Nat) : Nat → Nat := fun k => if k = i then H k + 1 else H k

/-- `for k in range(n): H[idx k] += 1` -/
def incWalk (idx : Nat → Nat) : Nat → (Nat → Nat) → (Nat → Nat)
  | 0, H => H
  | k+1, H => inc (incWalk idx k H) (idx k)

/-- running offsets `in_samples += n_samples`, `in_bins += n_bins`, `in_nodes += N` -/
def accum (step : Nat) : Nat → Nat
  | 0 => 0
  | i+1 => accum step i + step

/-- symbol of one sample: `rescaled = scaling * (x - range_min)`;
`rescaled < 1.0 ? (long)(rescaled * n_bins) : n_bins - 1` -/
def symbolOf (s rmin : Rat) (nb : Nat) (x : Rat) : Nat :=
  let r := s * (x - rmin)
  if r < 1 then (r * (nb : Rat)).floor.toNat else nb - 1

/-- first loop nest: the flat `symbolic` array (`p_symbolic` advances in lockstep with
`p_anomaly`, both starting at `in_samples`) -/
def symbolicFlat (s rmin : Rat) (nb : Nat) (anom : Nat → Rat) : Nat → Nat :=
  fun t => symbolOf s rmin nb (anom t)

/-- first loop nest: the flat 1-d histograms after `i` series
(`p_hist = hist + in_bins + *p_symbolic`) -/
def histFlat (symb : Nat → Nat) (n nb : Nat) : Nat → (Nat → Nat)
  | 0 => fun _ => 0
  | i+1 => incWalk (fun k => accum nb i + symb (accum n i + k)) n (histFlat symb n nb i)

/-- second loop nest, pair `(i, j)`: `hist2d[symbolic[in_samples+k]*n_bins + symbolic[jn_samples+k]]++`
starting from the all-zero `hist2d` -/
def hist2dFlat (symbA symbB : Nat → Nat) (n nb i j : Nat) : Nat → Nat :=
  incWalk (fun k => symbA (accum n i + k) * nb + symbB (accum n j + k)) n (fun _ => 0)

/-- the result matrix of `_mutual_information` as a flat array: for `i`, `j < i` the value
is written to `mi[in_nodes + j]` and mirrored to `mi[i + j*N]`; state after the rows `< i`. -/
def miRow {α : Type} (val : Nat → Nat → α) (N i : Nat) : Nat → (Nat → α) → (Nat → α)
  | 0, M => M
  | j+1, M =>
    let M' := miRow val N i j M
    if i = j then M' else upd (upd M' (accum N i + j) (val i j)) (i + accum N j) (val i j)

def miFlat {α : Type} (zero : α) (val : Nat → Nat → α) (N : Nat) : Nat → (Nat → α)
  | 0 => fun _ => zero
  | i+1 => miRow val N i (i + 1) (miFlat zero val N i)

/-! ## `_test_pearson_correlation_fast` -/

/-- entry `(i, j)`: `Σ_k original[i*n_time + k] * surrogates[j*n_time + k] * norm`,
the diagonal is left at its initial `0` -/
def testPearsonEntry (orig surr : Nat → Rat) (n i j : Nat) : Rat :=
  if i = j then 0 else
    dotTo n (fun k => orig (i * n + k)) (fun k => surr (j * n + k)) / (n : Rat)

/-! ## Pearson correlation of two windows (signed square) -/

def meanTo (n : Nat) (f : Nat → Rat) : Rat := sumTo n f / (n : Rat)

/-- `Σ (f - mean f)(g - mean g)` -/
def covTo (n : Nat) (f g : Nat → Rat) : Rat :=
  let mf := meanTo n f
  let mg := meanTo n g
  sumTo n fun k => (f k - mf) * (g k - mg)

def sgn (c : Rat) : Rat := if c < 0 then -1 else 1

/-- `sign(r)·r²` of the Pearson coefficient `r` of `f`, `g` on `k < n`; a window without
variance is standardised to `nan` and then zeroed (`array[t][isnan] = 0`), giving `0`. -/
def pearsonSq (n : Nat) (f g : Nat → Rat) : Rat :=
  let c := covTo n f g
  let vx := covTo n f f
  let vy := covTo n g g
  if vx = 0 ∨ vy = 0 then 0 else sgn c * (c * c) / (vx * vy)

/-- `cross_correlation(tau_max, lag_mode='all')[i, j, lag]` as a signed square, from the data:
window start `tau_max - lag` for series `i`, `tau_max` for series `j`, length `T - tau_max` -/
def xcorrSq (x : Nat → Nat → Rat) (T tauMax i j lag : Nat) : Rat :=
  pearsonSq (T - tauMax) (fun k => x i (tauMax - lag + k)) (fun k => x j (tauMax + k))

/-! ## ranks -/

/-- twice the average rank (1-based, ties share the mean of their positions):
`2·rank_i = 2·#{x_j < x_i} + #{x_j = x_i} + 1` -/
def rank2 (n : Nat) (x : Nat → Rat) (i : Nat) : Nat :=
  2 * countTo n (fun j => decide (x j < x i)) + countTo n (fun j => decide (x j = x i)) + 1

/-- Spearman's rho (signed square) of two series on `k < n`: Pearson of the average ranks
(`SpearmanClimateNetwork._calculate_correlation`: `corrcoef(rank_time_series(anomaly))`) -/
def spearmanSq (n : Nat) (f g : Nat → Rat) : Rat :=
  pearsonSq n (fun i => (rank2 n f i : Rat)) (fun i => (rank2 n g i : Rat))

/-! ## `_quantile_bin_array`, `bincount_hist` -/

def insertAsc (a : Rat) : List Rat → List Rat
  | [] => [a]
  | b :: l => if a ≤ b then a :: b :: l else b :: insertAsc a l

def sortAsc (l : List Rat) : List Rat := l.foldr insertAsc []

/-- `l[::step]` -/
def everyNth (step : Nat) : List Rat → List Rat
  | [] => []
  | a :: l => a :: everyNth step (l.drop (step - 1))
termination_by l => l.length
decreasing_by simp [List.length_drop]; omega

/-- `bin_edge = ceil(T / bins)` -/
def binEdge (T bins : Nat) : Nat := (T + bins - 1) / bins

/-- `edges = numpy.sort(row)[::bin_edge]` -/
def quantileEdges (row : List Rat) (bins : Nat) : List Rat :=
  everyNth (binEdge row.length bins) (sortAsc row)

/-- `(x >= edges).sum() - 1` -/
def quantileSym (edges : List Rat) (x : Rat) : Int :=
  ((edges.filter (fun e => decide (e ≤ x))).length : Int) - 1

/-- symbols of one row: `(x >= edges).sum() - 1` with `edges = sort(row)[::bin_edge]` -/
def quantileBinRow (row : List Rat) (bins : Nat) : List Int :=
  row.map (quantileSym (quantileEdges row bins))

/-- `bincount_hist` for `D = 2`: entry `[a][b]` of the returned (transposed) array is the
number of samples with `symb[0] = a`, `symb[1] = b`; computed through
`multisymb = symb[0] + base * symb[1]`, `bincount`, `reshape(base, base).T` -/
def bincount2 (s0 s1 : Nat → Nat) (T base : Nat) : Nat → Nat :=
  incWalk (fun k => s0 k + base * s1 k) T (fun _ => 0)

def bincountHistEntry (s0 s1 : Nat → Nat) (T base a b : Nat) : Nat :=
  -- flat.reshape(base, base)[b][a]  (then `.T`)
  bincount2 s0 s1 T base (b * base + a)

end Pyunicorn.Coupling
