import Pyunicorn.Model.Similarity
import Pyunicorn.Model.Cross
/-!
# `CoupledClimateNetwork`: the layer / cross-layer accessors on the thresholded network (C09, round 4)
— core Lean only

`climate/coupled_climate_network.py`: a coupled network is a `ClimateNetwork` on `N₁ + N₂` nodes
(`nodes_1 = range(N₁)`, `nodes_2 = range(N₁, N)`) whose accessors delegate to `InteractingNetworks`:

* `cross_layer_adjacency()` = `cross_adjacency(nodes_1, nodes_2)`
* `adjacency_1()`, `adjacency_2()` = `internal_adjacency(nodes_k)`
* `number_cross_layer_links()` = `number_cross_links(nodes_1, nodes_2)`
* `cross_link_density()` = `InteractingNetworks.cross_link_density(nodes_1, nodes_2)`
* `number_internal_links()`, `internal_link_density()` (pairs)

The `InteractingNetworks` methods are C11's models (`Pyunicorn.Cross`, imported, not edited); this
file applies them to the adjacency matrix the `ClimateNetwork` model holds.
-/
namespace Pyunicorn.Similarity
open Pyunicorn.Cross

/-- the flattened adjacency list as the matrix `self.adjacency[a, b]` -/
def adjOf (A : List Bool) (N : Nat) : Adj := fun a b => A.getD (a * N + b) false

def nodes1 (N1 : Nat) : List Nat := List.range N1
def nodes2 (N1 N2 : Nat) : List Nat := (List.range N2).map (N1 + ·)

def crossLayerAdjacency (N1 N2 : Nat) (s : Net) : List (List Nat) :=
  blockN (adjOf s.A s.N) (nodes1 N1) (nodes2 N1 N2)

def adjacency1 (N1 : Nat) (s : Net) : List (List Nat) := internalAdjacency (adjOf s.A s.N) (nodes1 N1)

def adjacency2 (N1 N2 : Nat) (s : Net) : List (List Nat) :=
  internalAdjacency (adjOf s.A s.N) (nodes2 N1 N2)

/-- (the real method raises for directed networks; callers ask for undirected ones only) -/
def numberCrossLayerLinks (N1 N2 : Nat) (s : Net) : Nat :=
  numberCrossLinks (adjOf s.A s.N) (nodes1 N1) (nodes2 N1 N2)

def crossLinkDensityC (N1 N2 : Nat) (s : Net) : Option Rat :=
  crossLinkDensity (adjOf s.A s.N) (nodes1 N1) (nodes2 N1 N2)

def numberInternalLinksC (N1 N2 : Nat) (s : Net) : Nat × Nat :=
  (numberInternalLinks s.directed (adjOf s.A s.N) (nodes1 N1),
   numberInternalLinks s.directed (adjOf s.A s.N) (nodes2 N1 N2))

def internalLinkDensityC (N1 N2 : Nat) (s : Net) : Option Rat × Option Rat :=
  (internalLinkDensity s.directed (adjOf s.A s.N) (nodes1 N1),
   internalLinkDensity s.directed (adjOf s.A s.N) (nodes2 N1 N2))

end Pyunicorn.Similarity
