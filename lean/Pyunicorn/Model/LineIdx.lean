import Pyunicorn.Generated.StructC20Py
/-!
C20 (round 4) — every buffer subscript evaluated by `cdef _line_dist`
(`timeseries/_ext/numerics.pyx`: the single kernel behind all diagonal / vertical / white line
histograms of RQA, matrix and sequential mode, with and without missing values).

The subscripts of this kernel are *data dependent* — `I = ij2I(i, j, N)` is the result of a call
through a function pointer and `hist[k-1]` is indexed by the running line length — so round 3 left
them to Cython's bounds check.  The model lists the subscripts in program order (`Ev`) for an
arbitrary recurrence predicate `line` and an arbitrary missing-value mask `miss`; the loop
skeleton (`ld_N`, `ld_outer`, `ld_inner`, `ld_I`, `ld_hist_idx`) and the index functions of each
wrapper are the *generated* definitions of `Generated/StructC20Py.lean`.

Core Lean only (the driver links this file).
-/
namespace Pyunicorn.LineIdx
open Pyunicorn.Generated.StructC20Py

/-- one evaluated subscript: `R[I, j]`, `M[i]`, `E[r, c]`, `hist[i]` -/
inductive Ev
  | R (I j : Int)
  | M (i : Int)
  | E (r c : Int)
  | H (i : Int)
deriving Repr, DecidableEq

/-- `k` (length of the line being followed) and `missing_flag` -/
structure St where
  k : Int
  flag : Bool
deriving Repr, DecidableEq

/-- the recurrence test of one point: `R[I, j]` for `dim == 0`, else `metric_supremum(I, j, dim, E)`
(`for l in range(dim): E[I, l] … E[j, l]`) -/
def pointEvents (dim I j : Int) : List Ev :=
  if dim = 0 then [.R I j] else (List.range dim.toNat).flatMap fun (l : Nat) => [.E I (l : Int), .E j (l : Int)]

/-- the tail of the loop body: `if line: k += 1  elif k != 0: hist[k-1] += 1; k = 0` -/
def count (ln : Bool) (s : St) : List Ev × St :=
  if ln then ([], ⟨s.k + 1, s.flag⟩)
  else if s.k ≠ 0 then ([.H (ld_hist_idx s.k)], ⟨0, s.flag⟩)
  else ([], s)

/-- one iteration of the inner loop at the point `(I, j)` -/
def step (mv : Bool) (dim : Int) (line : Int → Int → Bool) (miss : Int → Bool) (I j : Int) (s : St) :
    List Ev × St :=
  let ln := line I j
  if mv then
    -- `if M[I] or M[j]` (short circuit): flag, k = 0 | `elif missing_flag and not line`: reset
    let evM : List Ev := if miss I then [.M I] else [.M I, .M j]
    let s1 : St := if miss I || miss j then ⟨0, true⟩
                   else if s.flag && !ln then ⟨s.k, false⟩ else s
    if s1.flag then (pointEvents dim I j ++ evM, s1)           -- `continue`
    else
      let r := count ln s1
      (pointEvents dim I j ++ evM ++ r.1, r.2)
  else
    let r := count ln s
    (pointEvents dim I j ++ r.1, r.2)

/-- the inner loop over the given values of `j` -/
def rowGo (f : Int → St → List Ev × St) : List Int → St → List Ev × St
  | [], s => ([], s)
  | j :: js, s =>
      let r := f j s
      let r' := rowGo f js r.2
      (r.1 ++ r'.1, r'.2)

/-- after the inner loop: `if k != 0 and not missing_flag: hist[k-1] += 1; k = 0`, then
`missing_flag = False` -/
def rowEnd (s : St) : List Ev × St :=
  if s.k ≠ 0 ∧ s.flag = false then ([.H (ld_hist_idx s.k)], ⟨0, false⟩) else ([], ⟨s.k, false⟩)

def ints (n : Int) : List Int := (List.range n.toNat).map fun (x : Nat) => (x : Int)

/-- one pass of the outer loop body for row `i` -/
def row (w : LDWrap) (N dim : Int) (line : Int → Int → Bool) (miss : Int → Bool) (i : Int) (s : St) :
    List Ev × St :=
  let r := rowGo (fun j s => step w.mv dim line miss (ld_I w.ij2I i j N) j s)
    (ints (ld_inner w.i2J i N)) s
  let e := rowEnd r.2
  (r.1 ++ e.1, e.2)

/-- `_line_dist` as called by wrapper `w`: all subscripts in program order, and the final state -/
def lineDist (w : LDWrap) (n_time dim : Int) (line : Int → Int → Bool) (miss : Int → Bool) :
    List Ev × St :=
  let N := ld_N n_time w.skip
  rowGo (fun i s => row w N dim line miss i s) (ints (ld_outer N)) ⟨0, false⟩

/-! ### executable outcome against given buffers (kernel-boundary correspondence) -/

/-- extents of the buffers: `R` is `r0 × r1`, `M` has `m0` entries, `E` is `e0 × e1`, `hist` has `h0` -/
structure Ext where
  r0 : Int
  r1 : Int
  m0 : Int
  e0 : Int
  e1 : Int
  h0 : Int

def inr (x n : Int) : Bool := decide (0 ≤ x) && decide (x < n)

/-- the subscript is inside its buffer (`boundscheck=True, wraparound=False`: otherwise IndexError) -/
def Ev.ok (x : Ext) : Ev → Bool
  | .R I j => inr I x.r0 && inr j x.r1
  | .M i => inr i x.m0
  | .E r c => inr r x.e0 && inr c x.e1
  | .H i => inr i x.h0

def imatAt (m : List (List Int)) (i j : Int) : Int :=
  if 0 ≤ i ∧ 0 ≤ j then (m.getD i.toNat []).getD j.toNat 0 else 0

def iabs (x : Int) : Int := if x < 0 then -x else x

/-- `none` = IndexError; otherwise the increments of `hist` -/
def outcome (w : LDWrap) (n_time dim : Int) (x : Ext) (Rm : List (List Int)) (Em : List (List Int))
    (eps2 : Int) (Mm : List Int) : Option (List Nat) :=
  let line : Int → Int → Bool := fun I j =>
    if dim = 0 then imatAt Rm I j == (if w.black then 1 else 0)   -- `R[I, j] == black`
    else
      -- (d < eps) == black with d the supremum distance of integer vectors, eps = eps2 / 2
      let d := (List.range dim.toNat).foldl (fun acc (l : Nat) =>
        let t := iabs (imatAt Em I (l : Int) - imatAt Em j (l : Int))
        if t > acc then t else acc) 0
      (decide (2 * d < eps2)) == w.black
  let miss : Int → Bool := fun i => if 0 ≤ i then Mm.getD i.toNat 0 != 0 else false
  let evs := (lineDist w n_time dim line miss).1
  if evs.all (Ev.ok x) then
    some ((List.range x.h0.toNat).map fun b => evs.count (.H (b : Int)))
  else none

end Pyunicorn.LineIdx
