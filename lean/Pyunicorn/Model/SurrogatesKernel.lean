import Pyunicorn.Model.Surrogates
import Pyunicorn.Generated.ArithC15
/-!
Loop-level model of the twin kernels (property C15), core Lean only.

`Model/Surrogates.lean` describes *what* `_embed_time_series_array` and `_twins_s`
compute (`embed`, `recMatrix`, `rowCounts`, `twinLists`).  This file follows the
loops of the kernels statement by statement — the work arrays `R` / `nR` that
`Surrogates.twins` allocates with `np.empty` (arbitrary content) and that are
re-used from one time series to the next, the initialisation loop, the
symmetric zeroing with its decrement bookkeeping of `nR`, the running `index`
of the embedding loop — with every index / size expression taken from
`Generated/ArithC15.lean` (regenerated from the source on every run).
`Lemmas/SurrogatesKernel.lean` proves that this loop-level model computes the
functions of `Model/Surrogates.lean` for every content of the work arrays.
-/
namespace Pyunicorn.Surrogates
open Pyunicorn.Generated

/-! ### `_embed_time_series_array` -/

/-- the value of the running `index` (`index = j*delay` before the `k` loop,
`index += 1` in every pass) when `embedding[i, k, j]` is written -/
def embedIndex (j k delay : Nat) : Int :=
  (List.range k).foldl (fun ix _ => ArithC15.kEmbedStep ix) (ArithC15.kEmbedStart j delay)

/-- `Surrogates.embed_time_series_array` for one series: the wrapper allocates
`(embedLen, embedCols)` (`none` = numpy's ValueError for a negative dimension), the
kernel fills `len_embedded` rows (`none` also stands for a read outside the series and for
`len_embedded` differing from the allocated length: writes outside the array / rows left
uninitialised). -/
def embedK (row : List Rat) (dim delay : Nat) : Option (List (List Rat)) :=
  let n : Int := row.length
  let alloc := ArithC15.embedLen n dim delay
  let cols := ArithC15.embedCols n dim delay
  let len := ArithC15.kLenEmbedded n (ArithC15.kMaxDelay dim delay)
  if alloc < 0 ∨ cols < 0 ∨ cols.toNat ≠ dim ∨ alloc ≠ len then none
  else (List.range alloc.toNat).mapM fun k =>
    (List.range dim).mapM fun j =>
      let ix := embedIndex j k delay
      if ix < 0 then none else row[ix.toNat]?

/-! ### `_twins_s`: the work arrays -/

/-- the work arrays `R` (`n_time × n_time`) and `nR` (`n_time`) -/
structure Work where
  R : List (List Bool)
  nR : List Int
deriving Repr

/-- `R[j, k] = v` -/
def setCell (R : List (List Bool)) (j k : Nat) (v : Bool) : List (List Bool) :=
  R.modify j (·.set k v)

/-- lines 166-170: `for j: for k in range(j+1): R[j,k] = R[k,j] = 1; nR[j] = n_time` -/
def initLoop (n : Nat) (w0 : Work) : Work :=
  (List.range n).foldl (fun w (j : Nat) =>
    ⟨(List.range (ArithC15.kInitRange j).toNat).foldl
        (fun R k => setCell (setCell R j k true) k j true) w.R,
     w.nR.set j (n : Int)⟩) w0

/-- the body of `for k in range(j)`: the `for l` loop with its `break` is `near` -/
def pairStep (thr : Rat) (emb : List (List Rat)) (w : Work) (j k : Nat) : Work :=
  match emb[j]?, emb[k]? with
  | some u, some v =>
    if near thr u v then w
    else ⟨setCell (setCell w.R j k false) k j false,
          (w.nR.modify j (· - 1)).modify k (· - 1)⟩
  | _, _ => w

/-- lines 173-189 -/
def recLoop (thr : Rat) (emb : List (List Rat)) (w0 : Work) : Work :=
  (List.range emb.length).foldl (fun w (j : Nat) =>
    (List.range (ArithC15.kPairRange j).toNat).foldl (fun w k => pairStep thr emb w j k) w) w0

/-- the twin test on the work arrays (`nR[j] == nR[k] and nR[j] != 1`, then the row scan) -/
def isTwinW (w : Work) (j k : Nat) : Bool :=
  match w.R[j]?, w.R[k]?, w.nR[j]?, w.nR[k]? with
  | some rj, some rk, some a, some b => a == b && a != 1 && sameRow rj rk
  | _, _, _, _ => false

/-- lines 195-222, `for k in range(j - min_dist)` from the source -/
def twinListsK (n md : Nat) (range : Int → Int → Int) (tw : Nat → Nat → Bool) : List (List Nat) :=
  ((List.range n).flatMap fun (j : Nat) =>
      ((List.range (range j md).toNat).filter (tw j)).map fun k => (j, k)).foldl addPair
    (List.replicate n [])

/-- one pass of `for i in range(N)`: twins of series `i` and the work arrays it leaves behind -/
def twinsKernelOne (thr : Rat) (md : Nat) (emb : List (List Rat)) (w0 : Work) :
    List (List Nat) × Work :=
  let w := recLoop thr emb (initLoop emb.length w0)
  (twinListsK emb.length md ArithC15.kTwinRangeS (isTwinW w), w)

/-- `_twins_s`: all series, one after the other on the same work arrays -/
def twinsKernel (thr : Rat) (md : Nat) : List (List (List Rat)) → Work →
    List (List (List Nat)) × Work
  | [], w => ([], w)
  | emb :: rest, w =>
    let r := twinsKernelOne thr md emb w
    let rs := twinsKernel thr md rest r.2
    (r.1 :: rs.1, rs.2)

/-- `_twins_r` with the source's range expression -/
def twinsRK (md n : Nat) (R : List (List Bool)) (nR : List Nat) : List (List Nat) :=
  twinListsK n md ArithC15.kTwinRangeR (isTwin R nR) ++ [[]]

/-- `RecurrencePlot.twins(min_dist)` with the source's range expression -/
def rpTwinsK (md : Nat) (R : List (List Bool)) : List (List Nat) :=
  twinsRK md R.length R (rowCounts R)

/-- `Surrogates.twins`: `R = np.empty((n_time, n_time))`, `nR = np.empty(n_time)` with
`n_time = embedding.shape[1]` — arbitrary content `g`, `gn` —, then the kernel -/
def twinsMethod (thr : Rat) (md : Nat) (embs : List (List (List Rat)))
    (g : Nat → Nat → Bool) (gn : Nat → Int) : List (List (List Nat)) :=
  let nT := (embs.headD []).length
  (twinsKernel thr md embs
    ⟨(List.range nT).map fun j => (List.range nT).map (g j), (List.range nT).map gn⟩).1

/-- `Surrogates.twin_surrogates`, loop level: embedding, `twins()` on work arrays of
arbitrary content, `n_time` from the source, walk, `original_data[i, k]`. -/
def twinSurrogatesK (data : List (List Rat)) (dim delay : Nat) (thr : Rat) (md : Nat)
    (pick : Nat → Nat → Nat) (g : Nat → Nat → Bool) (gn : Nat → Int) :
    Option (List (List Rat)) :=
  match data.mapM (embedK · dim delay) with
  | none => none
  | some embs =>
    let nT := (ArithC15.twinLen ((data.headD []).length : Int) dim delay).toNat
    match walkRows nT pick (twinsMethod thr md embs g gn) 0 with
    | none => none
    | some (idx, _) => rowsM gather data idx

end Pyunicorn.Surrogates
