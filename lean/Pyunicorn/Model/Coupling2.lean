import Pyunicorn.Model.Coupling
/-!
# Model of the similarity / coupling code, part 2 (C10, round 2) — core Lean only

* `timeseries/_ext/src_numerics.c`: `_test_mutual_information_fast` — layout of the result
  matrix (`p_mi = mi + i*N`, `p_mi++` per `j`, nothing written for `i == j`)
* `funcnet/coupling_analysis_pure_python.py`: `cross_correlation` (windows of length
  `total_time - 2*tau_max`, reference window `tau_max`), `_calculate_cc` (modes
  `'all'`, `'sum'`, `'max'`)
* `funcnet/coupling_analysis.py`: `information_transfer` / `mutual_information` with
  `estimator='gauss'`: the node list `XYZ`, the rows `data[max_lag + lag : T + lag, var]`,
  the residuals after projecting out the confounds, the correlation of the residuals
* `climate/partial_correlation.py`: `- C_inv / sqrt(|outer(diag, diag)|)`; the inverse itself
  (`numpy.linalg.inv`) is a library call, modelled by exact Gauss–Jordan elimination whose
  result is certified per case (`C · P = I` is evaluated exactly by the driver)
-/
namespace Pyunicorn.Coupling

/-! ## `_test_mutual_information_fast`: the result matrix -/

/-- the `j` loop for row `i`: `p_mi` starts at `mi + i*N` and advances once per `j`; a value is
accumulated into the (zero-initialised) cell only for `i != j`.  State after `n` values of `j`. -/
def tmiRow {α : Type} (val : Nat → Nat → α) (N i : Nat) : Nat → (Nat → α) → (Nat → α)
  | 0, M => M
  | j+1, M =>
    let M' := tmiRow val N i j M
    if i = j then M' else upd M' (i * N + j) (val i j)

/-- the `i` loop: state after the rows `< n` -/
def tmiFlat {α : Type} (zero : α) (val : Nat → Nat → α) (N : Nat) : Nat → (Nat → α)
  | 0 => fun _ => zero
  | i+1 => tmiRow val N i N (tmiFlat zero val N i)

/-! ## `CouplingAnalysisPurePython.cross_correlation` / `_calculate_cc` -/

/-- entry `[t, i, j]` of `cross_correlation(tau_max, lag_mode='all')` as a signed square:
`(normalized_array[tau_max, i, :] * normalized_array[t, j, :]).mean()` with
`normalized_array[t] = standardised dataarray[:, t : t + corr_range]`,
`corr_range = total_time - 2*tau_max` -/
def pureXcorrSq (x : Nat → Nat → Rat) (T tauMax t i j : Nat) : Rat :=
  pearsonSq (T - 2 * tauMax) (fun k => x i (tauMax + k)) (fun k => x j (t + k))

/-- `crossij = (array[tau_max, i, :] * array[t, j, :]).mean()` of `_calculate_cc` -/
def pureCrossAt (A : Nat → Nat → Nat → Rat) (tauMax cr i j t : Nat) : Rat :=
  dotTo cr (A tauMax i) (A t j) / (cr : Rat)

/-- mode `'max'`: `maxcross = 0.0; argmax = 0; if abs(crossij) > maxcross: maxcross = abs(crossij);
argmax = t` — state after `n` iterations -/
def pureMaxScan (c : Nat → Rat) : Nat → Rat × Nat
  | 0 => (0, 0)
  | n+1 =>
    let st := pureMaxScan c n
    if rabs (c n) > st.1 then (rabs (c n), n) else st

/-- `corrmat[0, i, j] = maxcross; corrmat[1, i, j] = argmax - tau_max` -/
def pureMaxEntry (c : Nat → Rat) (tauMax : Nat) : Rat × Int :=
  let st := pureMaxScan c (2 * tauMax + 1)
  (st.1, (st.2 : Int) - (tauMax : Int))

/-- mode `'sum'`: `if t <= tau_max: corrmat[1] += |c|; if t >= tau_max: corrmat[0] += |c|`;
state `(corrmat[0, i, j], corrmat[1, i, j])` after `n` iterations -/
def pureSumScan (c : Nat → Rat) (tauMax : Nat) : Nat → Rat × Rat
  | 0 => (0, 0)
  | t+1 =>
    let st := pureSumScan c tauMax t
    let st1 := if t ≤ tauMax then (st.1, st.2 + rabs (c t)) else st
    if t ≥ tauMax then (st1.1 + rabs (c t), st1.2) else st1

/-! ## Gaussian estimators: partial covariance of the rows of `array` -/

/-- the node list `XYZ = X + Y + Z` of `information_transfer` as `(variable, lag back in time)`:
`X = [(i, -tau)]`, `Y = [(j, 0)]`, `Z = [(j, -p) for p in 1..past]` and, for `'mit'`,
`+ [(i, -tau - p) for p in 1..past]` -/
def itNodes (mit : Bool) (i j tau past : Nat) : List (Nat × Nat) :=
  [(i, tau), (j, 0)] ++ (List.range past).map (fun p => (j, p + 1)) ++
    (if mit then (List.range past).map (fun p => (i, tau + (p + 1))) else [])

/-- row `d` of `array`: `data[max_lag + lag : T + lag, var]` for the node `(var, lag)`,
`lag = -node.2` -/
def itRow (x : Nat → Nat → Rat) (maxLag : Nat) (node : Nat × Nat) : Nat → Rat :=
  fun k => x node.1 (maxLag - node.2 + k)

/-- inner products of the rows after "confounds projected out": the rows in `zs` are removed one
after the other (Gram–Schmidt in inner-product form, the last element of the list first);
`G a b` is the inner product of the centred rows `a`, `b`.  A confound without residual
variance (pivot `0`) is skipped. -/
def pcovG (G : Nat → Nat → Rat) : List Nat → Nat → Nat → Rat
  | [], a, b => G a b
  | w :: zs, a, b =>
    let d := pcovG G zs w w
    if d = 0 then pcovG G zs a b
    else pcovG G zs a b - pcovG G zs a w * pcovG G zs b w / d

/-- all pivots are non-zero: the confounds are linearly independent -/
def Pivots (G : Nat → Nat → Rat) : List Nat → Prop
  | [] => True
  | w :: zs => pcovG G zs w w ≠ 0 ∧ Pivots G zs

def pivotsOk (G : Nat → Nat → Rat) : List Nat → Bool
  | [] => true
  | w :: zs => decide (pcovG G zs w w ≠ 0) && pivotsOk G zs

/-- signed square of `dot(x, y) / sqrt(dot(x, x) * dot(y, y))` of the residual rows -/
def parCorrSqG (G : Nat → Nat → Rat) (zs : List Nat) (a b : Nat) : Rat :=
  let c := pcovG G zs a b
  let va := pcovG G zs a a
  let vb := pcovG G zs b b
  if va = 0 ∨ vb = 0 then 0 else sgn c * (c * c) / (va * vb)

/-- Gram matrix of the centred rows of `array` (`array -= array.mean(axis=1)`), tabulated once
(the inner products are looked up many times by `pcovG`) -/
def itGramTab (x : Nat → Nat → Rat) (T tauMax past : Nat) (nodes : List (Nat × Nat)) : Array (Array Rat) :=
  let maxLag := tauMax + past
  let rows := (nodes.map (itRow x maxLag)).toArray
  let m := rows.size
  ((List.range m).map fun a => ((List.range m).map fun b =>
    covTo (T - maxLag) (rows.getD a (fun _ => 0)) (rows.getD b (fun _ => 0))).toArray).toArray

def tabFn (tab : Array (Array Rat)) : Nat → Nat → Rat := fun a b => (tab.getD a #[]).getD b 0

/-- `information_transfer(tau_max, estimator='gauss', past, cond_mode)[i, j, tau]` before the
transformation `-0.5 log(1 - r²)`: signed square of the partial correlation `r` -/
def itSq (x : Nat → Nat → Rat) (T tauMax past : Nat) (mit : Bool) (i j tau : Nat) : Rat :=
  let nodes := itNodes mit i j tau past
  let tab := itGramTab x T tauMax past nodes
  parCorrSqG (tabFn tab) ((List.range (nodes.length - 2)).map (· + 2)) 0 1

/-- are the confound rows of that entry linearly independent? -/
def itRegular (x : Nat → Nat → Rat) (T tauMax past : Nat) (mit : Bool) (i j tau : Nat) : Bool :=
  let nodes := itNodes mit i j tau past
  let tab := itGramTab x T tauMax past nodes
  pivotsOk (tabFn tab) ((List.range (nodes.length - 2)).map (· + 2))

/-! ## partial correlation from an inverse correlation matrix -/

/-- signed square of `- C_inv[i, j] / sqrt(|C_inv[i, i] * C_inv[j, j]|)` -/
def normInvSq (P : Nat → Nat → Rat) (i j : Nat) : Rat :=
  let d := rabs (P i i * P j j)
  if d = 0 then 0 else sgn (-(P i j)) * (P i j * P i j) / d

/-- one Gauss–Jordan column step on an augmented matrix (rows are lists): find a pivot row
`≥ col`, swap it into place, scale it, eliminate the column from all other rows -/
def gjStep (M : List (List Rat)) (col : Nat) : Option (List (List Rat)) :=
  let idx := (List.range M.length).filter fun r => decide (col ≤ r) && decide ((M.getD r []).getD col 0 ≠ 0)
  match idx with
  | [] => none
  | r :: _ =>
    let prow := M.getD r []
    let p := prow.getD col 0
    let prow := prow.map (· / p)
    let M1 := (List.range M.length).map fun k =>
      if k = col then prow else if k = r then M.getD col [] else M.getD k []
    some ((List.range M1.length).map fun k =>
      let row := M1.getD k []
      if k = col then row
      else
        let f := row.getD col 0
        (List.range row.length).map fun c => row.getD c 0 - f * prow.getD c 0)

def gjLoop (N : Nat) : Nat → List (List Rat) → Option (List (List Rat))
  | 0, M => some M
  | c+1, M => (gjLoop N c M).bind fun M' => gjStep M' c

/-- exact inverse of the `N × N` matrix `C` (or `none` if a pivot search fails) -/
def gjInverse (C : Nat → Nat → Rat) (N : Nat) : Option (Nat → Nat → Rat) :=
  let aug := (List.range N).map fun i =>
    (List.range N).map (fun j => C i j) ++ (List.range N).map (fun j => if i = j then (1 : Rat) else 0)
  (gjLoop N N aug).map fun M =>
    let A := (M.map (·.toArray)).toArray
    fun i j => (A.getD i #[]).getD (N + j) 0

/-- the certificate: `Σ_k C[i,k] P[k,j] = δ_ij` for all `i, j < N` -/
def isInverse (C P : Nat → Nat → Rat) (N : Nat) : Bool :=
  (List.range N).all fun i => (List.range N).all fun j =>
    decide (sumTo N (fun k => C i k * P k j) = if i = j then 1 else 0)

end Pyunicorn.Coupling
