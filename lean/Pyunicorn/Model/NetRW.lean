import Pyunicorn.Model.Net
/-!
Round 4 additions to the model of `pyunicorn.core.network.Network` (core Lean only):

* the link-weighted motif clustering coefficients `local_*motif_clustering(key)` of
  [Fagiolo2007] as coded in `_motif_clustering_helper` (`network.py`): matrix products of
  `M = link_attribute(key)**(1/3)`, denominators built from the **unweighted** degrees;
* Newman's random-walk betweenness: the Cython kernel `_mpi_newman_betweenness`
  (`core/_ext/numerics.pyx:498-532`) statement by statement, the exact inverse of the reduced
  Kirchhoff matrix, and the method `Network.newman_betweenness` with its loop over the connected
  components, the normalisation by the *component* size and the scatter into the result array.
-/
namespace Pyunicorn.Net

abbrev RMat := Nat → Nat → Rat

/-! ### link-weighted motif clustering (`_motif_clustering_helper`, `key is not None`) -/

/-- `x * y` on scipy sparse matrices with rational entries -/
def mmulQ (n : Nat) (x y : RMat) : RMat := fun i j => sumToQ n fun k => x i k * y k j
def trQ (x : RMat) : RMat := fun i j => x j i

/-- `t_func(A, AT).diagonal()` of the four methods, `x = M`, `xT = M.T` -/
def tCycleW (n : Nat) (m : RMat) (i : Nat) : Rat := mmulQ n (mmulQ n m m) m i i
def tMidW (n : Nat) (m : RMat) (i : Nat) : Rat := mmulQ n (mmulQ n m (trQ m)) m i i
def tInW (n : Nat) (m : RMat) (i : Nat) : Rat := mmulQ n (mmulQ n (trQ m) m) m i i
def tOutW (n : Nat) (m : RMat) (i : Nat) : Rat := mmulQ n (mmulQ n m m) (trQ m) i i

/-- `T[T == 0] = nan; C = t / T; C[isnan(C)] = 0` -/
def ratio0Q (t : Rat) (T : Int) : Rat := if T = 0 then 0 else t / (T : Rat)

/-- `local_cyclemotif_clustering(key)`: `m` is the matrix of cubic roots of the link attribute,
the denominator is `indegree()*outdegree() - bildegree()` of the **adjacency matrix** -/
def cycleCW (n : Nat) (a : Adj) (m : RMat) (i : Nat) : Rat := ratio0Q (tCycleW n m i) (TCycle n a i)
def midCW (n : Nat) (a : Adj) (m : RMat) (i : Nat) : Rat := ratio0Q (tMidW n m i) (TCycle n a i)
def inCW (n : Nat) (a : Adj) (m : RMat) (i : Nat) : Rat := ratio0Q (tInW n m i) (TIn n a i)
def outCW (n : Nat) (a : Adj) (m : RMat) (i : Nat) : Rat := ratio0Q (tOutW n m i) (TOut n a i)

/-- the adjacency matrix as a rational matrix (`key=None`: `A = self.sp_A`) -/
def toQ (a : Adj) : RMat := fun i j => if a i j then 1 else 0

/-! ### `_mpi_newman_betweenness` (`numerics.pyx:498-532`) -/

def absQ (x : Rat) : Rat := if x < 0 then -x else x

/-- the body of the loop over `i_rel`: `arow = this_A[i_rel, :]`, `iabs = i_rel + start_i` -/
def newmanRow (N : Nat) (arow : Nat → Bool) (V : RMat) (iabs : Nat) : Rat :=
  sumToQ N fun j =>
    if arow j then
      sumToQ N fun s =>
        if iabs ≠ s then
          sumToQ s fun t =>
            if iabs ≠ t then absQ (V iabs s - V j s - V iabs t + V j t) else 0
        else 0
    else 0

/-- `_mpi_newman_betweenness(this_A, V, N, start_i, end_i)[0]` -/
def newmanKernel (thisA : Nat → Nat → Bool) (V : RMat) (N start stop : Nat) : List Rat :=
  (List.range (stop - start)).map fun irel => newmanRow N (thisA irel) V (irel + start)

/-! ### exact inverse (what `scipy.sparse.linalg.inv` is specified to return) -/

def gaussStep (rows : List (List Rat)) (c : Nat) : Option (List (List Rat)) :=
  match ((List.range rows.length).filter fun r => decide (c ≤ r) && ((rows.getD r []).getD c 0 != 0)).head? with
  | none => none
  | some p =>
    let rp := rows.getD p []
    let rc := rows.getD c []
    let rows1 := (rows.set p rc).set c rp
    let piv := rp.getD c 0
    let prow := rp.map (· / piv)
    some ((List.range rows.length).map fun r =>
      if r = c then prow else
        let row := rows1.getD r []
        let f := row.getD c 0
        (row.zip prow).map fun (x, y) => x - f * y)

/-- Gauss–Jordan elimination on `[m | I]`; `none` if `m` is singular -/
def ratInv (m : List (List Rat)) : Option (List (List Rat)) :=
  let k := m.length
  let aug := (m.zipIdx).map fun (row, i) => row ++ (List.range k).map fun j => if i = j then (1 : Rat) else 0
  ((List.range k).foldlM (fun rows c => gaussStep rows c) aug).map fun rows => rows.map (·.drop k)

def matFn (m : List (List Rat)) : RMat := fun i j => (m.getD i []).getD j 0

/-! ### `Network.newman_betweenness` -/

/-- node list of the connected component of `i` (`graph.connected_components()`, ascending) -/
def component (n : Nat) (a : Adj) (i : Nat) : List Nat :=
  (List.range n).filter fun j => (dist n a i j).isSome

/-- the components in igraph's order (by smallest member) -/
def components (n : Nat) (a : Adj) : List (List Nat) :=
  ((List.range n).filter fun i => (component n a i).head? == some i).map (component n a)

/-- adjacency of `components.subgraph(c)`: node `x` of the subgraph is `comp[x]` -/
def subAdj (a : Adj) (comp : List Nat) : Adj := fun x y => a (comp.getD x 0) (comp.getD y 0)

/-- `sp_M[:-1, :-1]` of the Kirchhoff matrix `diag(indegree) - A` of the subgraph -/
def reducedKirchhoff (N : Nat) (b : Adj) : List (List Rat) :=
  (List.range (N - 1)).map fun i => (List.range (N - 1)).map fun j =>
    (if i = j then (indeg N b i : Rat) else 0) - (if b i j then 1 else 0)

/-- `component_betweenness += 2 * (N - 1); component_betweenness /= (N - 1.0)` -/
def newmanNormalise (N : Nat) (x : Rat) : Rat := (x + 2 * ((N : Rat) - 1)) / ((N : Rat) - 1)

/-- values of one component of size `≥ 2` (`none`: the reduced Kirchhoff matrix is singular) -/
def newmanComponent (a : Adj) (comp : List Nat) : Option (List Rat) :=
  let N := comp.length
  let b := subAdj a comp
  (ratInv (reducedKirchhoff N b)).map fun inv =>
    -- `V = lil_matrix((N, N)); V[:-1, :-1] = inv(...)`: last row and column stay 0 (`matFn` pads)
    (newmanKernel (fun irel j => b irel j) (matFn inv) N 0 N).map (newmanNormalise N)

/-- `for j, node in enumerate(nodes): newman_betweenness[node] = component_betweenness[j]` -/
def scatter (res : List Rat) (nodes : List Nat) (vals : List Rat) : List Rat :=
  (nodes.zip vals).foldl (fun r p => r.set p.1 p.2) res

/-- the loop over the components -/
def newmanBetweenness (n : Nat) (a : Adj) : Option (List Rat) :=
  (components n a).foldlM (fun res comp =>
    if comp.length < 2 then some (res.set (comp.getD 0 0) 0)
    else (newmanComponent a comp).map (scatter res comp)) (List.replicate n 0)

/-! ### definition layer: current through `i` for a unit current from `s` to `t` -/

/-- `I_i^{st}`: 1 at the two terminals, otherwise half the sum of the absolute potential
differences to the neighbours, potentials `V_x = V[x,s] - V[x,t]` -/
def current (N : Nat) (b : Adj) (V : RMat) (i s t : Nat) : Rat :=
  if i = s ∨ i = t then 1
  else (1 / 2) * sumToQ N fun j => if b i j then absQ ((V i s - V i t) - (V j s - V j t)) else 0

/-- Newman's random-walk betweenness as pyunicorn normalises it: `Σ_{t<s} I_i^{st} / ((N-1)/2)` -/
def newmanDef (N : Nat) (b : Adj) (V : RMat) (i : Nat) : Rat :=
  (sumToQ N fun s => sumToQ s fun t => current N b V i s t) / (((N : Rat) - 1) / 2)

end Pyunicorn.Net
