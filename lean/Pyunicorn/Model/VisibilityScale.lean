import Pyunicorn.Model.VisibilityExt
/-
Model of the visibility-graph code, part 4 (round 5).  Core Lean only.

**Power-of-two rescalings of a series in float32 arithmetic.**  `scaleVals a x` /
`scaleTimes c t` are the series `x · 2^a` and the timings `t · 2^c` (what a caller
obtains by changing the unit of the values or of the time axis).  `NoUflOn x t N a c`
is the *decidable* condition under which the compiled (float32) natural kernels
provably return the same result — the same write log **or the same error** — on the
rescaled series (`Properties/C14.lean: nvg_f32_pow2_invariant`): none of the numbers the
kernels form from a left end `i` — the two differences `t[k] - t[i]`, `x[k] - x[i]` and the
rounded quotient — is subnormal, before or after the rescaling.  The driver decides it
(`noufl`), so the hypothesis is discharged by Lean for every rescaled series on which the
harness compares the compiled kernels with themselves.
-/
namespace Pyunicorn.Visibility

/-- `x · 2^a` (NaN stays NaN) -/
def scaleVals (a : Int) (x : List Val) : List Val := x.map (Option.map (pow2 a * ·))

/-- `t · 2^c` -/
def scaleTimes (c : Int) (t : List Rat) : List Rat := t.map (pow2 c * ·)

/-- `⌊log₂ |q|⌋` for `q ≠ 0`, as `rndF32` computes it -/
def lgAbs (q : Rat) : Int := floorLog2 q.num.natAbs q.den

/-- neither `q` nor `2^k q` is subnormal in binary32 (zero is fine) -/
def noUflB (q : Rat) (k : Int) : Bool :=
  decide (q = 0) || (decide (-126 ≤ lgAbs q) && decide (-126 ≤ lgAbs q + k))

/-- the three numbers the natural kernels form for the left end `i` and the sample `k`:
`t[k] - t[i]`, `x[k] - x[i]` (if both are numbers) and the rounded quotient -/
def noUflAt (x : List Val) (t : List Rat) (a c : Int) (i k : Nat) : Bool :=
  noUflB (t.getD k 0 - t.getD i 0) c &&
  (match vsub (valAt x k) (valAt x i) with
   | some dx => noUflB dx a &&
       noUflB (rndF32 dx / rndF32 (t.getD k 0 - t.getD i 0)) (a - c)
   | none => true)

/-- no underflow anywhere in the natural kernels, for `x, t` and for `x · 2^a, t · 2^c` -/
def NoUflOn (x : List Val) (t : List Rat) (N : Nat) (a c : Int) : Prop :=
  ∀ i, i < N → ∀ k, k < N → i < k → noUflAt x t a c i k = true

instance (x : List Val) (t : List Rat) (N : Nat) (a c : Int) :
    Decidable (NoUflOn x t N a c) := by
  unfold NoUflOn; infer_instance

/-! ### the constructor as compiled: conversions to `FIELD` (float32), then the float kernels -/

/-- `to_cy(a, FIELD)`: every entry converted to binary32 (NaN stays NaN) -/
def toField (rnd : Rat → Rat) (x : List Val) : List Val := x.map (Option.map rnd)

/-- `VisibilityGraph.__init__` up to the adjacency, **in `FIELD` arithmetic**: the write log.
`self.time_series = to_cy(time_series, FIELD)`; `timings = to_cy(timings, FIELD)` or
`np.arange(len(time_series), dtype=FIELD)`; `missing_value_indices = np.isnan(self.time_series)`
(of the *converted* series); then the natural kernels with every operation rounded
(`kernelNR rnd`) or the horizontal kernel (comparisons only) on the converted series, followed by
`A[mv, :] = 0; A[:, mv] = 0`.  `classLogR id = classLog`. -/
def classLogR (rnd : Rat → Rat) (x : List Val) (timings : Option (List Rat))
    (missing horizontal : Bool) : Except Err (List (Nat × Nat)) :=
  let xr := toField rnd x
  let N := xr.length
  let t := match timings with
    | some t => t.map rnd
    | none => (defaultTimings N).map rnd
  if !horizontal then
    kernelNR rnd xr t (if missing then some (nanMask xr) else none) N
  else do
    let log ← kernelH xr N
    .ok (if missing then log.filter (fun p => !isMissing xr p.1 && !isMissing xr p.2) else log)

/-- `Faithful` of the converted data (decided by the driver, request `faithfulc`) -/
def FaithfulConv (rnd : Rat → Rat) (x : List Val) (timings : Option (List Rat)) : Prop :=
  Faithful rnd (toField rnd x)
    (match timings with
      | some t => t.map rnd
      | none => (defaultTimings x.length).map rnd) x.length

instance (rnd : Rat → Rat) (x : List Val) (timings : Option (List Rat)) :
    Decidable (FaithfulConv rnd x timings) := by
  unfold FaithfulConv; infer_instance

/-- all hypotheses of `class_f32_pow2_invariant` for the natural graph, as one decidable test
(driver request `nouflc`): no sample / timing is subnormal before or after the rescaling (so the
conversions to `FIELD` commute with it; with the default timings only the values are rescaled,
`c = 0`) and `NoUflOn` holds for the stored data -/
def noUflConvB (x : List Val) (tm : Option (List Rat)) (a c : Int) : Bool :=
  x.all (fun v => match v with
    | some r => noUflB r a
    | none => true) &&
  (match tm with
    | some t => t.all (fun r => noUflB r c)
    | none => c == 0) &&
  decide (NoUflOn (toField rndF32 x)
    (match tm with
      | some t => t.map rndF32
      | none => (defaultTimings x.length).map rndF32) x.length a c)

end Pyunicorn.Visibility
