import Pyunicorn.Model.MemoNested
/-
Owned objects (round 5).  An analysis object may *own* another `Cached` object and list it in
its `__cache_state__` (`MutualInfoClimateNetwork.data`, `GeoNetwork.grid`,
`InterSystemRecurrenceNetwork.rp_x / rp_y / crp_xy`): `Cached.__hash__` then hashes the owned
object, i.e. the owned object's own `__cache_state__`, into the key of every cached method of
the owner; the owner's cached methods call cached methods of the owned object
(`self.data.anomaly()`), which are served from the *owned object's* caches under the *owned
object's* key; and the owned object has public mutators of its own (`o.data.set_window(…)`).

Rounds 1–4 described an owned object inside the owner's table by hand (translate/fields_C01.json:
one field `data.content`, the counters said to be its state, the mutators said to bump them).
Here the owner's table and the owned class's *own* table — both extracted from the source — are
composed: `compose t u l` is the table of the pair of objects.

* the owned object's methods come first (so that the owner's calls go to smaller indices), with
  their own bodies, call edges and keys; the owned object's fields and counters are renamed apart
  (`+ shift`) except the counters of the owned object's `__cache_state__`, which *are* the
  owner's key components `comp.c` (`l.ctrs`);
* an owner body that reads the content of the owned object (`l.content`) reads every field of the
  owned object, and calls the owned object's cached methods the source calls (`l.ocalls`)
  through the owned object's caches;
* the mutators are the owner's own (the hand-written descriptions `comp.m` of rounds 1–4 are
  dropped: `l.abstracted`; an owner mutator that changes the owned object — it calls one of its
  mutators — writes every field of it) **and every mutator of the owned class's own table**.
Core Lean only.
-/
namespace Pyunicorn.Memo

structure OLink where
  content : Nat                          -- the owner's field standing for the owned object's content
  ctrs : List (Nat × Nat)                -- (counter of the owned object's `__cache_state__`, the owner's key counter `comp.c`)
  ocalls : List (Nat × Nat × Nat × Nat)  -- (owner method, owner argument pattern, owned method, argument pattern)
  abstracted : List (Nat × Nat)          -- (owner mutator that is a hand-written stand-in, the owned mutator it stands for)
  shift : Nat                            -- renaming offset for the owned object's own fields and counters
deriving Repr, DecidableEq

def OLink.renFld (l : OLink) (f : Nat) : Nat := f + l.shift

def OLink.renCtr (l : OLink) (c : Nat) : Nat :=
  match l.ctrs.find? (fun p => p.1 == c) with
  | some p => p.2
  | none => c + l.shift

/-- every field of the owned object that one of its methods reads or keys on or one of its mutators writes -/
def ownedFields (u : NTable) : List Nat :=
  ((u.methods.flatMap fun m => m.keyFlds ++ (m.dflt :: m.bodies).flatMap (·.direct)) ++
    u.mutators.flatMap (·.writes)).eraseDups

def liftBody (l : OLink) (b : Body) : Body := ⟨b.direct.map l.renFld, b.calls⟩

def liftMethod (l : OLink) (m : NMethod) : NMethod :=
  ⟨m.bodies.map (liftBody l), liftBody l m.dflt, m.keyCtrs.map l.renCtr, m.keyFlds.map l.renFld⟩

def liftMut (l : OLink) (o : Mutator) : Mutator :=
  ⟨o.writes.map l.renFld, o.bumps.map l.renCtr, o.resets.map l.renCtr⟩

/-- the body of owner method `mi` for argument pattern `k` in the table of the pair -/
def ownerBody (l : OLink) (u : NTable) (mi k : Nat) (b : Body) : Body :=
  ⟨if b.direct.contains l.content then b.direct ++ (ownedFields u).map l.renFld else b.direct,
   (l.ocalls.filterMap fun c =>
      if c.1 == mi && c.2.1 == k && c.2.2.1 < u.methods.length then some (c.2.2.1, c.2.2.2) else none) ++
    b.calls.map fun nc => (nc.1 + u.methods.length, nc.2)⟩

def ownerBodies (l : OLink) (u : NTable) (mi : Nat) : Nat → List Body → List Body
  | _, [] => []
  | k, b :: bs => ownerBody l u mi k b :: ownerBodies l u mi (k + 1) bs

def ownerMethod (l : OLink) (u : NTable) (mi : Nat) (m : NMethod) : NMethod :=
  ⟨ownerBodies l u mi 0 m.bodies, ownerBody l u mi m.bodies.length m.dflt, m.keyCtrs, m.keyFlds⟩

def ownerMethods (l : OLink) (u : NTable) : Nat → List NMethod → List NMethod
  | _, [] => []
  | mi, m :: ms => ownerMethod l u mi m :: ownerMethods l u (mi + 1) ms

def ownerMut (l : OLink) (u : NTable) (o : Mutator) : Mutator :=
  ⟨if o.writes.contains l.content then o.writes ++ (ownedFields u).map l.renFld else o.writes,
   o.bumps, o.resets⟩

def ownerMuts (l : OLink) (u : NTable) : Nat → List Mutator → List Mutator
  | _, [] => []
  | i, o :: os =>
    if l.abstracted.any (fun p => p.1 == i) then ownerMuts l u (i + 1) os
    else ownerMut l u o :: ownerMuts l u (i + 1) os

/-- the table of the pair (owner, owned object): owned methods first, then the owner's; the
owner's own mutators, then **all** mutators of the owned class -/
def compose (t u : NTable) (l : OLink) : NTable :=
  ⟨u.methods.map (liftMethod l) ++ ownerMethods l u 0 t.methods,
   ownerMuts l u 0 t.mutators ++ u.mutators.map (liftMut l),
   t.maxsize⟩

/-- index, in the table of the pair, of owner method `mi` / of owned mutator `oi` -/
def ownerIdx (u : NTable) (mi : Nat) : Nat := u.methods.length + mi
def ownedMutIdx (t u : NTable) (l : OLink) (oi : Nat) : Nat := (ownerMuts l u 0 t.mutators).length + oi

/-- the renaming keeps the owned object's own names apart from every name the owner uses -/
def OLink.apart (l : OLink) (t : NTable) : Bool :=
  let ok := fun (xs : List Nat) => xs.all (fun x => x < l.shift)
  t.methods.all (fun m => ok m.keyCtrs && ok m.keyFlds && (m.dflt :: m.bodies).all (fun b => ok b.direct)) &&
  t.mutators.all (fun o => ok o.writes && ok o.bumps && ok o.resets) &&
  l.ctrs.all (fun p => p.2 < l.shift)

/-- the hand-written description of an owned mutator (owner mutator `p.1`, rounds 1–4) claims no
more than the owned class's own table grants: the owned mutator `p.2` it stands for bumps (after
renaming) every counter the description says is bumped, and the description resets nothing -/
def abstractionSound (t u : NTable) (l : OLink) : Bool :=
  l.abstracted.all fun p =>
    match t.mutators[p.1]?, u.mutators[p.2]? with
    | some a, some o => a.bumps.all (fun c => (o.bumps.map l.renCtr).contains c) && a.resets.isEmpty
    | _, _ => false

end Pyunicorn.Memo
