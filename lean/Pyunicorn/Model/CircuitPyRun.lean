import Pyunicorn.Model.CircuitPy
import Pyunicorn.Generated.StructC18
/-! The update / query state machine of C18 with the three mutating methods executed by their
*regenerated bodies* (`Generated/StructC18.lean`, written from the current source on every run)
instead of the hand-written `State.update` / `step … .updAdm` / `step … .updR`.  The driver runs
it for the requests `histp` / `histpd`; `Properties/C18.lean` proves it equal to `run`
(`pyRun_matches_model`). -/
namespace Pyunicorn.Circuit
open Pyunicorn.Generated.StructC18

/-- `ResNetwork(res, adjacency=adj)`: `GeoNetwork.__init__` sets `N` and the adjacency; the other
attributes do not exist yet (any value), then the regenerated rest of `__init__` runs -/
def pyInit (pinv : Nat → Mat → LMat) (n : Nat) (adj : Adj) (res : Mat) : Py :=
  init_tail pinv { N := n, adj := adj, resistances := pyNoneMat, sparse_Adm := pyNoneMat,
                   sparse_R := pyNoneMat, effective_resistances := none } res

/-- one call on the object: the mutating methods by their regenerated bodies, the queries as in
the model (`get_R`, `get_admittance`, `admittance_lapacian` by their regenerated bodies too) -/
def pyStep (pinv : Nat → Mat → LMat) (p : Py) : Op → Py × Option Rat
  | .update res => (update_resistances pinv p res, none)
  | .updAdm => (update_admittance pinv p, none)
  | .updR => (update_R pinv p, none)
  | .getR i j => (p, some (get_R p i j))
  | .getAdm i j => (p, some (get_admittance p i j))
  | .lap i j => (p, some (admittance_lapacian p i j))
  | op => let r := step pinv p.abs op; (r.1.py, r.2)

def pyRun (pinv : Nat → Mat → LMat) (p : Py) : List Op → Py × List (Option Rat)
  | [] => (p, [])
  | op :: ops =>
      let (p', out) := pyStep pinv p op
      let (p'', outs) := pyRun pinv p' ops
      (p'', out :: outs)

end Pyunicorn.Circuit
