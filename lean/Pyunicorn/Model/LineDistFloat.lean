import Pyunicorn.Model.Recurrence
import Pyunicorn.Model.Similarity
/-!
C08, round 4.  The float operations the line kernels use on the embedding, as a structure of
operations, so that the kernels regenerated from `numerics.pyx` (`Generated/StructC08.lean`) are
*one* text instantiated at

* `vOps` — C07's exact values (`Option Rat`, `none` = NaN): rounds 1–3;
* `xOps rnd` — IEEE doubles with both infinities, NaN and a rounding `rnd` of the non-negative
  exact difference (`abs(a - b)` is `rnd |a - b|`: IEEE rounding is sign-symmetric).  Overflow of a
  finite difference is not modelled: the embedding is always a converted float32 array
  (`to_cy(time_series, FIELD)`), so `|a - b| < 2^129`.

Core Lean only (linked into the driver).
-/
namespace Pyunicorn.LineDist
open Pyunicorn.Recurrence (V absdiff gtV ltV)

/-- the operations of `DFIELD_t` the kernels use: the literal `0`, `abs(a - b)`, `a > b`, `a < b` -/
structure FOps (α : Type) where
  zero : α
  absdiff : α → α → α
  gt : α → α → Bool
  lt : α → α → Bool

/-- `distance[a, b] = v` on a C array seen as a function of its two indices (round 5: the outer
loops of `_supremum_distance_matrix_rp` are translated as folds over such stores) -/
def store2 {α : Type} (d : Int → Int → α) (a b : Int) (v : α) : Int → Int → α :=
  fun x y => if x = a ∧ y = b then v else d x y

/-- C07's exact arithmetic with NaN -/
def vOps : FOps V := ⟨some 0, absdiff, gtV, ltV⟩

/-- an IEEE double: finite value, `+inf`, `-inf`, NaN -/
inductive X where
  | fin (q : Rat)
  | pinf
  | ninf
  | nan
deriving DecidableEq, Repr

namespace X

/-- `abs(a - b)`: `inf - inf` (same sign) is NaN, any other difference with an infinity is
`+inf` after `abs`, NaN propagates, a finite difference is rounded -/
def absdiff (rnd : Rat → Rat) : X → X → X
  | fin x, fin y => fin (rnd (if x ≤ y then y - x else x - y))
  | nan, _ => nan
  | _, nan => nan
  | pinf, pinf => nan
  | ninf, ninf => nan
  | _, _ => pinf

/-- `a < b` of IEEE doubles (false as soon as one side is NaN) -/
def lt : X → X → Bool
  | fin x, fin y => decide (x < y)
  | nan, _ => false
  | _, nan => false
  | ninf, ninf => false
  | ninf, _ => true
  | fin _, pinf => true
  | _, _ => false

/-- `a > b` -/
def gt (a b : X) : Bool := lt b a

def isNan : X → Bool
  | nan => true
  | _ => false

end X

def xOps (rnd : Rat → Rat) : FOps X := ⟨.fin 0, X.absdiff rnd, X.gt, X.lt⟩

/-! ### round 5: overflow of a finite difference

`|a - b|` of two finite doubles is `+inf` when its rounded value (exponent range unbounded
upwards, as `rnd64`) reaches `2^1024`.  `xOpsO rnd` is `xOps rnd` with that overflow; the driver
executes the generated kernels at `xOpsO rnd64`.  `Properties/C08.lean` (`overflow_free_*`) proves
that the two structures give the same kernels whenever no coordinate difference overflows — always
for the embeddings of the class (float32-born) — so the theorems stated at `xOps rnd` transfer. -/

/-- `2^1024`: the first magnitude that is not a finite double -/
def ovfBound : Rat := ((2 ^ 1024 : Nat) : Rat)

/-- overflow of a rounded result to `+inf` -/
def X.ovf : X → X
  | .fin q => if ovfBound ≤ q then .pinf else .fin q
  | x => x

/-- `abs(a - b)` with overflow -/
def X.absdiffO (rnd : Rat → Rat) (a b : X) : X := X.ovf (X.absdiff rnd a b)

def xOpsO (rnd : Rat → Rat) : FOps X := ⟨.fin 0, X.absdiffO rnd, X.gt, X.lt⟩

/-- C07's values inside the doubles -/
def toX : V → X
  | some q => .fin q
  | none => .nan

/-- binary64 round-to-nearest-even of a rational `q ≥ 0` (the `abs` has been taken), *with gradual
underflow*: the exponent of the last place is `⌊log₂ q⌋ - 52`, clamped at `-1074` (round 5; rounds
3–4 used C09's `rn53`, which has no clamp — `Properties/C08.lean` `rnd64_eq_rn53_on_differences`
proves that the two agree on every difference of two doubles, and `rnd64_eq_rn53_normal` in the
normal range).  Overflow of a finite difference to `inf` is not modelled. -/
def rnd64 (q : Rat) : Rat :=
  if q ≤ 0 then 0 else
    let e0 := Pyunicorn.Similarity.binExp q - 52
    let e := if e0 < -1074 then -1074 else e0
    (Pyunicorn.Similarity.roundHalfEven (q / Pyunicorn.Similarity.twoPow e) : Rat)
      * Pyunicorn.Similarity.twoPow e

end Pyunicorn.LineDist
