import Pyunicorn.Model.Recurrence
import Pyunicorn.Model.Similarity
/-!
C08, round 4.  The float operations the line kernels use on the embedding, as a structure of
operations, so that the kernels regenerated from `numerics.pyx` (`Generated/StructC08.lean`) are
*one* text instantiated at

* `vOps` — C07's exact values (`Option Rat`, `none` = NaN): rounds 1–3;
* `xOps rnd` — IEEE doubles with both infinities, NaN and a rounding `rnd` of the non-negative
  exact difference (`abs(a - b)` is `rnd |a - b|`: IEEE rounding is sign-symmetric).  Overflow of a
  finite difference is not modelled: the embedding is always a converted float32 array
  (`to_cy(time_series, FIELD)`), so `|a - b| < 2^129`.

Core Lean only (linked into the driver).
-/
namespace Pyunicorn.LineDist
open Pyunicorn.Recurrence (V absdiff gtV ltV)

/-- the operations of `DFIELD_t` the kernels use: the literal `0`, `abs(a - b)`, `a > b`, `a < b` -/
structure FOps (α : Type) where
  zero : α
  absdiff : α → α → α
  gt : α → α → Bool
  lt : α → α → Bool

/-- C07's exact arithmetic with NaN -/
def vOps : FOps V := ⟨some 0, absdiff, gtV, ltV⟩

/-- an IEEE double: finite value, `+inf`, `-inf`, NaN -/
inductive X where
  | fin (q : Rat)
  | pinf
  | ninf
  | nan
deriving DecidableEq, Repr

namespace X

/-- `abs(a - b)`: `inf - inf` (same sign) is NaN, any other difference with an infinity is
`+inf` after `abs`, NaN propagates, a finite difference is rounded -/
def absdiff (rnd : Rat → Rat) : X → X → X
  | fin x, fin y => fin (rnd (if x ≤ y then y - x else x - y))
  | nan, _ => nan
  | _, nan => nan
  | pinf, pinf => nan
  | ninf, ninf => nan
  | _, _ => pinf

/-- `a < b` of IEEE doubles (false as soon as one side is NaN) -/
def lt : X → X → Bool
  | fin x, fin y => decide (x < y)
  | nan, _ => false
  | _, nan => false
  | ninf, ninf => false
  | ninf, _ => true
  | fin _, pinf => true
  | _, _ => false

/-- `a > b` -/
def gt (a b : X) : Bool := lt b a

def isNan : X → Bool
  | nan => true
  | _ => false

end X

def xOps (rnd : Rat → Rat) : FOps X := ⟨.fin 0, X.absdiff rnd, X.gt, X.lt⟩

/-- C07's values inside the doubles -/
def toX : V → X
  | some q => .fin q
  | none => .nan

/-- binary64 round-to-nearest-even of a non-negative rational in the normal range (C09's `rn53`) -/
def rnd64 (q : Rat) : Rat := Pyunicorn.Similarity.rn53 q

end Pyunicorn.LineDist
