/- Line-protocol helpers (core Lean only). -/
namespace Pyunicorn.Proto

def splitTok (s : String) (sep : String) : List String :=
  if s.isEmpty || s == "-" then [] else s.splitOn sep

def ints (s : String) : List Int := (splitTok s ",").filterMap String.toInt?
def nats (s : String) : List Nat := (splitTok s ",").filterMap String.toNat?
def bools (s : String) : List Bool := (nats s).map (· != 0)
def intMat (s : String) : List (List Int) := (splitTok s ";").map ints
def natMat (s : String) : List (List Nat) := (splitTok s ";").map nats
def boolMat (s : String) : List (List Bool) := (splitTok s ";").map bools

/-- rationals are sent as `p/q` or `p` -/
def rat? (s : String) : Option Rat :=
  match s.splitOn "/" with
  | [p] => p.toInt?.map (fun (i : Int) => (i : Rat))
  | [p, q] => do
      let a ← p.toInt?
      let b ← q.toInt?
      if b == 0 then none else some ((a : Rat) / (b : Rat))
  | _ => none
def rats (s : String) : List Rat := (splitTok s ",").filterMap rat?
def ratMat (s : String) : List (List Rat) := (splitTok s ";").map rats

def showRat (r : Rat) : String :=
  if r.den == 1 then toString r.num else s!"{r.num}/{r.den}"

def join (xs : List String) (sep : String := ",") : String := sep.intercalate xs
def showNats (xs : List Nat) : String := if xs.isEmpty then "-" else join (xs.map toString)
def showInts (xs : List Int) : String := if xs.isEmpty then "-" else join (xs.map toString)
def showRats (xs : List Rat) : String := if xs.isEmpty then "-" else join (xs.map showRat)
def showBools (xs : List Bool) : String :=
  if xs.isEmpty then "-" else join (xs.map fun b => if b then "1" else "0")
def showBoolMat (m : List (List Bool)) : String :=
  if m.isEmpty then "-" else join (m.map showBools) ";"
def showNatMat (m : List (List Nat)) : String :=
  if m.isEmpty then "-" else join (m.map showNats) ";"
def showIntMat (m : List (List Int)) : String :=
  if m.isEmpty then "-" else join (m.map showInts) ";"
def showRatMat (m : List (List Rat)) : String :=
  if m.isEmpty then "-" else join (m.map showRats) ";"

/-- generic request loop: one request per line on stdin, one answer per line on stdout -/
partial def loop (answer : List String → String) (h out : IO.FS.Stream) : IO Unit := do
  let line ← h.getLine
  if line.isEmpty then return ()
  let toks := (line.trimAscii.toString.splitOn " ").filter (· ≠ "")
  out.putStrLn (answer toks)
  loop answer h out

def runDriver (answer : List String → String) : IO Unit := do
  let out ← IO.getStdout
  loop answer (← IO.getStdin) out
  out.flush

end Pyunicorn.Proto
