import Pyunicorn.Model.ReprAttrs
/-!
# `Network.splitted_copy(node, proportion)` (property C05, round 5)

Core Lean only.  "By copying" has a third public form next to `copy()` and
`undirected_copy()`: the copy with one node split in two (`core/network.py`,
`splitted_copy`).  It is the only constructor path that *changes the number of
nodes* of a live object and the only one besides `copy()` that carries the link
attributes over.  The model follows the method statement by statement:

```
N, A, w = self.N, self.sp_A, self.node_weights
if node < 0: node += N                       -- `splitNode` (then the index must name a node)
new_A = sp.lil_matrix((N+1, N+1)); new_w = np.zeros(N+1)
new_A[:N, :N] = A; new_A[:N, N] = A[:, node]; new_A[N, :N] = A[node, :]
new_A[node, N] = new_A[N, node] = 1          -- `splitMat` (the last assignment wins)
new_w[:N] = w[:N]; new_w[N] = proportion * w[node]
new_w[node] = (1.0 - proportion) * w[node]   -- `splitW`
new_NW = Network(adjacency=new_A, directed=self.directed, node_weights=new_w)
for a in self.graph.es.attributes():         -- `splitStep`, a `foldl` over the dictionary
    W = self.link_attribute(a); new_W = np.zeros((N+1, N+1))
    new_W[:N, :N] = W; new_W[:N, N] = W[:, node]; new_W[N, :N] = W[node, :]
    new_W[node, N] = new_W[N, node] = new_W[N, N] = W[node, node]      -- `splitAttr`
    new_NW.set_link_attribute(a, new_W)
```
-/
namespace Pyunicorn.Repr

/-- `if node < 0: node += N`; afterwards the index must name one of the `N` nodes
(`IndexError` otherwise) -/
def splitNode (N : Nat) (node : Int) : Option Nat :=
  let k : Int := if node < 0 then node + N else node
  if 0 ≤ k ∧ k < N then some k.toNat else none

/-- `new_A` of `splitted_copy`, cell by cell (a `lil_matrix` stores a cell once; the
assignment `new_A[node, N] = new_A[N, node] = 1` comes last) -/
def splitMat (A : Nat → Nat → Int) (N k : Nat) (i j : Nat) : Int :=
  if (i = k ∧ j = N) ∨ (i = N ∧ j = k) then 1
  else if i < N then (if j < N then A i j else if j = N then A i k else 0)
  else if i = N then (if j < N then A k j else 0)
  else 0

/-- `new_w` of `splitted_copy` -/
def splitW (w : List Rat) (k : Nat) (p : Rat) : List Rat :=
  w.set k ((1 - p) * w.getD k 0) ++ [p * w.getD k 0]

/-- `new_W` of `splitted_copy`, cell by cell -/
def splitAttr (W : Nat → Nat → Rat) (N k : Nat) (i j : Nat) : Rat :=
  if (i = k ∧ j = N) ∨ (i = N ∧ j = k) ∨ (i = N ∧ j = N) then W k k
  else if i < N then (if j < N then W i j else if j = N then W i k else 0)
  else if i = N then (if j < N then W k j else 0)
  else 0

/-- the body of the attribute loop of `splitted_copy`:
`new_NW.set_link_attribute(a, new_W(self.link_attribute(a)))` (`copyStep` with the matrix
transformed on the way) -/
def splitStep (x : NetA) (k : Nat) (c : NetA) (p : String × List Rat) : NetA :=
  match linkAttrA x p.1 with
  | some W => setLinkAttrA c p.1 (splitAttr W x.core.N k)
  | none => c

/-- the constructor call of `splitted_copy` -/
def splitInit (net : Net) (k : Nat) (p : Rat) : Except Err Net :=
  init net.directed (.sparse (ofDenseMat (net.N + 1) (net.N + 1) (splitMat net.at net.N k)))
    (some (splitW net.w k p))

/-- `splitted_copy(node, proportion)` -/
def splittedCopyA (x : NetA) (node : Int) (p : Rat) : Except Err NetA :=
  match splitNode x.core.N node with
  | none => .error .indexError
  | some k => do
    let c ← splitInit x.core k p
    pure (x.attrs.foldl (splitStep x k) (NetA.fresh c))

end Pyunicorn.Repr
