/-
Round 5e addition to the model of the grid geometry code (property C12).  Core Lean only.

Anchor (pyunicorn working tree): `core/geo_grid.py`, `GeoGrid.region_indices(region)`:

    remapped_region = np.array(region).reshape(len(region)//2, 2)
    if self._grid["space"][1].min() >= 0:
        remapped_region[remapped_region[:, 0] < 0, 0] = \
            360 + remapped_region[remapped_region[:, 0] < 0, 0]
    lat_lon_map = np.column_stack((self._grid["space"][1], self._grid["space"][0]))
    return path.Path(remapped_region).contains_points(lat_lon_map)

The source does not define a lat/lon box test of its own: the region is a polygon given as
`lon, lat, lon, lat, …` and the decision is delegated to matplotlib.  Modelled here:
* the reshape into `(lon, lat)` pairs (`pairUp`; an odd length is numpy's `ValueError`),
* the remapping of negative polygon longitudes on a grid whose longitudes are all `≥ 0`
  (`remapLon`, `remapRegion`; `min()` of an empty grid is numpy's `ValueError`),
* the pairing of each node as the point `(lon_i, lat_i)` (`column_stack((space[1], space[0]))`),
* `Path.contains_points` for a path without codes and `radius = 0`: matplotlib's
  `point_in_path_impl` (crossing number with the `>=` conventions of `src/_path.h`; paths
  with fewer than three vertices contain nothing).  This part is a model of the *dependency*
  (matplotlib 3.x), compared exactly with the installed library on every run, not tied to
  pyunicorn's source text.
A lat/lon box is the polygon `boxRegion x0 y0 x1 y1` (corners in the order of the docstring's
example: lower left, lower right, upper right, upper left as `lon, lat` pairs).
-/
namespace Pyunicorn.Geo

section Region
variable {α : Type} [Add α] [Sub α] [Mul α] [LE α] [LT α] [DecidableLE α] [DecidableLT α]
  [OfNat α 0] [OfNat α 360]

/-- `np.array(region).reshape(len(region)//2, 2)` for an even length: consecutive pairs -/
def pairUp : List α → List (α × α)
  | x :: y :: t => (x, y) :: pairUp t
  | _ => []

/-- `remapped_region[remapped_region[:, 0] < 0, 0] = 360 + remapped_region[…, 0]` for one
longitude -/
def remapLon (x : α) : α := if x < 0 then 360 + x else x

/-- `if self._grid["space"][1].min() >= 0:` — the guard, for a non-empty longitude sequence -/
def lonNonneg (lon : List α) : Bool := lon.all fun x => decide (x ≥ 0)

/-- the polygon after the conditional remapping (only column 0, the longitudes, changes) -/
def remapRegion (pos : Bool) (poly : List (α × α)) : List (α × α) :=
  if pos then poly.map (fun p => (remapLon p.1, p.2)) else poly

/-- one edge `p0 → p1` of matplotlib's `point_in_path_impl` for the test point `t`:
`yflag0 = (vty0 >= ty)`, `yflag1 = (vty1 >= ty)`, and if they differ the flag is toggled iff
`((vty1 - ty) * (vtx0 - vtx1) >= (vtx1 - tx) * (vty0 - vty1)) == yflag1` -/
def edgeToggle (p0 p1 t : α × α) : Bool :=
  let f0 := decide (p0.2 ≥ t.2)
  let f1 := decide (p1.2 ≥ t.2)
  if f0 != f1 then
    (decide ((p1.2 - t.2) * (p0.1 - p1.1) ≥ (p1.1 - t.1) * (p0.2 - p1.2)) == f1)
  else false

/-- the edges of the polygon closed back to its first vertex -/
def closedEdges : List (α × α) → List ((α × α) × (α × α))
  | [] => []
  | p :: ps => List.zip (p :: ps) (ps ++ [p])

/-- `Path(poly).contains_points([t])[0]` (no codes, radius 0) -/
def containsPoint (poly : List (α × α)) (t : α × α) : Bool :=
  if poly.length < 3 then false
  else (closedEdges poly).foldl (fun acc e => xor acc (edgeToggle e.1 e.2 t)) false

/-- `GeoGrid.region_indices(region)` of a grid with latitudes `lat` and longitudes `lon`;
`none` is numpy's `ValueError` (odd number of region entries / `min()` of an empty grid) -/
def regionIndices (lat lon region : List α) : Option (List Bool) :=
  if lon.isEmpty || region.length % 2 != 0 then none
  else
    let poly := remapRegion (lonNonneg lon) (pairUp region)
    some ((List.zip lon lat).map (containsPoint poly))

/-- the lat/lon box `[x0, x1] × [y0, y1]` as a region argument (`lon, lat` pairs, lower left
first, counter-clockwise) -/
def boxRegion (x0 y0 x1 y1 : α) : List α := [x0, y0, x1, y0, x1, y1, x0, y1]

/-- the documented reading of a box: closed in longitude, half open in latitude — the
inclusiveness matplotlib's crossing test gives for `boxRegion` (theorem `containsPoint_box`) -/
def inBox (x0 y0 x1 y1 : α) (t : α × α) : Bool :=
  decide (x0 ≤ t.1) && decide (t.1 ≤ x1) && decide (y0 < t.2) && decide (t.2 ≤ y1)

end Region

end Pyunicorn.Geo
