import Pyunicorn.Model.Cross
import Pyunicorn.Model.CrossBetw
/-
Round 5: the layer wrappers of `CoupledClimateNetwork`
(src/pyunicorn/climate/coupled_climate_network.py:105-113, 143-639): the node index lists of the
two layers as the constructor builds them, the three slices of the similarity matrix, and every
public wrapper as the routing of `self.nodes_1` / `self.nodes_2` into the methods of
`InteractingNetworks` (model `Pyunicorn.Cross`) that exists in the source — single values, pairs
`(layer 1, layer 2)` / `(1→2, 2→1)`, and the betweenness vectors cut into the two layers.
Core Lean only.
-/
namespace Pyunicorn.CrossCCN
open Pyunicorn.Cross

/-- `self.nodes_1 = list(range(self.N_1))` -/
def nodes1 (N1 : Nat) : List Nat := List.range N1

/-- `self.nodes_2 = list(range(self.N_1, self.N))` (Python: empty when `N ≤ N_1`) -/
def nodes2 (N1 N : Nat) : List Nat := List.range' N1 (N - N1)

/-- the numpy slice `[:k]` of an axis of length `N`, as the list of selected indices -/
def sliceTo (N k : Nat) : List Nat := List.range (min k N)

/-- the numpy slice `[k:]` of an axis of length `N` -/
def sliceFrom (N k : Nat) : List Nat := List.range' (min k N) (N - min k N)

/-- `v[self.nodes_i]` for a vector of the whole network (numpy raises `IndexError` for an index
`≥ len(v)`; `ccn_layer_vectors_total` shows the default is never read for `N_1 ≤ N`) -/
def pick {α : Type} [Inhabited α] (v : List α) (L : List Nat) : List α := L.map fun i => v.getD i default

/-! ### blocks -/

/-- `adjacency_1()` = `internal_adjacency(self.nodes_1)` -/
def adjacency1 (A : Adj) (N1 : Nat) : List (List Nat) := internalAdjacency A (nodes1 N1)
/-- `adjacency_2()` -/
def adjacency2 (A : Adj) (N1 N : Nat) : List (List Nat) := internalAdjacency A (nodes2 N1 N)
/-- `cross_layer_adjacency()` = `cross_adjacency(nodes_1, nodes_2)` -/
def crossLayerAdjacency (A : Adj) (N1 N : Nat) : List (List Nat) :=
  blockN A (nodes1 N1) (nodes2 N1 N)

/-- `similarity_measure_1()` = `similarity_measure()[:N_1, :N_1]` -/
def similarityMeasure1 {α : Type} (S : Nat → Nat → α) (N1 N : Nat) : List (List α) :=
  block S (sliceTo N N1) (sliceTo N N1)
/-- `similarity_measure_2()` = `similarity_measure()[N_1:, N_1:]` -/
def similarityMeasure2 {α : Type} (S : Nat → Nat → α) (N1 N : Nat) : List (List α) :=
  block S (sliceFrom N N1) (sliceFrom N N1)
/-- `cross_similarity_measure()` = `similarity_measure()[:N_1, N_1:]` -/
def crossSimilarityMeasure {α : Type} (S : Nat → Nat → α) (N1 N : Nat) : List (List α) :=
  block S (sliceTo N N1) (sliceFrom N N1)

/-- `path_lengths_1(link_attribute)` -/
def pathLengths1 (D : Dist) (N1 : Nat) := block D (nodes1 N1) (nodes1 N1)
/-- `path_lengths_2(link_attribute)` -/
def pathLengths2 (D : Dist) (N1 N : Nat) := block D (nodes2 N1 N) (nodes2 N1 N)
/-- `cross_path_lengths(link_attribute)` -/
def crossPathLengths (D : Dist) (N1 N : Nat) := block D (nodes1 N1) (nodes2 N1 N)

/-- `cross_link_distance()` = `self.distance()[self.nodes_1, :][:, self.nodes_2]` -/
def crossLinkDistance (G : Nat → Nat → Rat) (N1 N : Nat) : List (List Rat) :=
  block G (nodes1 N1) (nodes2 N1 N)

/-! ### scalar measures -/

/-- `number_cross_layer_links()` -/
def numberCrossLayerLinks (A : Adj) (N1 N : Nat) : Nat :=
  numberCrossLinks A (nodes1 N1) (nodes2 N1 N)

/-- `number_internal_links()` : `(n_links_1, n_links_2)` -/
def numberInternalLinks (directed : Bool) (A : Adj) (N1 N : Nat) : Nat × Nat :=
  (Cross.numberInternalLinks directed A (nodes1 N1), Cross.numberInternalLinks directed A (nodes2 N1 N))

/-- `cross_link_density()` -/
def crossLinkDensity (A : Adj) (N1 N : Nat) : Option Rat :=
  Cross.crossLinkDensity A (nodes1 N1) (nodes2 N1 N)

/-- `internal_link_density()` -/
def internalLinkDensity (directed : Bool) (A : Adj) (N1 N : Nat) : Option Rat × Option Rat :=
  (Cross.internalLinkDensity directed A (nodes1 N1), Cross.internalLinkDensity directed A (nodes2 N1 N))

/-- `internal_global_clustering()` -/
def internalGlobalClustering (A : Adj) (N1 N : Nat) : Option Rat × Option Rat :=
  (Cross.internalGlobalClustering N A (nodes1 N1), Cross.internalGlobalClustering N A (nodes2 N1 N))

/-- `cross_global_clustering()` : `(cc_12, cc_21)` -/
def crossGlobalClustering (directed : Bool) (A : Adj) (N1 N : Nat) : Option Rat × Option Rat :=
  (Cross.crossGlobalClustering directed A (nodes1 N1) (nodes2 N1 N),
   Cross.crossGlobalClustering directed A (nodes2 N1 N) (nodes1 N1))

/-- `cross_transitivity()` : `(ct_12, ct_21)` -/
def crossTransitivity (A : Adj) (N1 N : Nat) : Rat × Rat :=
  (Cross.crossTransitivity A (nodes1 N1) (nodes2 N1 N),
   Cross.crossTransitivity A (nodes2 N1 N) (nodes1 N1))

/-- `cross_average_path_length(link_attribute)` -/
def crossAPL (D : Dist) (N1 N : Nat) : Option Rat := Cross.crossAPL D (nodes1 N1) (nodes2 N1 N)

/-- `internal_average_path_length(link_attribute)` -/
def internalAPL (D : Dist) (N1 N : Nat) : Option Rat × Option Rat :=
  (Cross.internalAPL D (nodes1 N1), Cross.internalAPL D (nodes2 N1 N))

/-! ### vector measures -/

/-- `cross_degree()` : `(cross_degree(1, 2), cross_degree(2, 1))` -/
def crossDegree (directed : Bool) (A : Adj) (N1 N : Nat) : List Nat × List Nat :=
  (Cross.crossDegree directed A (nodes1 N1) (nodes2 N1 N),
   Cross.crossDegree directed A (nodes2 N1 N) (nodes1 N1))

/-- `internal_degree()` -/
def internalDegree (directed : Bool) (A : Adj) (N1 N : Nat) : List Nat × List Nat :=
  (Cross.crossDegree directed A (nodes1 N1) (nodes1 N1),
   Cross.crossDegree directed A (nodes2 N1 N) (nodes2 N1 N))

/-- `cross_local_clustering()` -/
def crossLocalClustering (directed : Bool) (A : Adj) (N1 N : Nat) : List Rat × List Rat :=
  (Cross.crossLocalClustering directed A (nodes1 N1) (nodes2 N1 N),
   Cross.crossLocalClustering directed A (nodes2 N1 N) (nodes1 N1))

/-- `cross_closeness(link_attribute)` -/
def crossCloseness (D : Dist) (N1 N : Nat) : List Rat × List Rat :=
  (Cross.crossCloseness N D (nodes1 N1) (nodes2 N1 N),
   Cross.crossCloseness N D (nodes2 N1 N) (nodes1 N1))

/-- `internal_closeness(link_attribute)` -/
def internalCloseness (D : Dist) (N1 N : Nat) : List Rat × List Rat :=
  (Cross.internalCloseness D (nodes1 N1), Cross.internalCloseness D (nodes2 N1 N))

/-- `cross_average_link_distance(reverse)`:
`np.sum(adj*cld, axis=ax) / np.sum(adj, axis=ax)` with `ax = 0 if reverse else 1`;
`none` = `0/0 = nan` (a node without cross link) -/
def crossAverageLinkDistance (reverse : Bool) (A : Adj) (G : Nat → Nat → Rat) (N1 N : Nat) :
    List (Option Rat) :=
  let adj := crossLayerAdjacency A N1 N
  let cld := crossLinkDistance G N1 N
  let prod : List (List Rat) :=
    List.zipWith (fun ra rc => List.zipWith (fun (x : Nat) c => (x : Rat) * c) ra rc) adj cld
  let adjQ : List (List Rat) := adj.map fun r => r.map fun (x : Nat) => (x : Rat)
  let w := (nodes2 N1 N).length
  let num := if reverse then colSums w prod else rowSums prod
  let den := if reverse then colSums w adjQ else rowSums adjQ
  List.zipWith (fun a b => if b = 0 then none else some (a / b)) num den

/-- `cross_betweenness()` : `cb = cross_betweenness(nodes_1, nodes_2)` over *all* nodes, returned
as `(cb[self.nodes_1], cb[self.nodes_2])` -/
def crossBetweenness (A : Adj) (N1 N : Nat) : List Rat × List Rat :=
  let cb := Cross.crossBetweenness N A (nodes1 N1) (nodes2 N1 N)
  (pick cb (nodes1 N1), pick cb (nodes2 N1 N))

/-- `internal_betweenness_1()` -/
def internalBetweenness1 (A : Adj) (N1 N : Nat) : List Rat × List Rat :=
  let ib := Cross.internalBetweenness N A (nodes1 N1)
  (pick ib (nodes1 N1), pick ib (nodes2 N1 N))

/-- `internal_betweenness_2()` -/
def internalBetweenness2 (A : Adj) (N1 N : Nat) : List Rat × List Rat :=
  let ib := Cross.internalBetweenness N A (nodes2 N1 N)
  (pick ib (nodes1 N1), pick ib (nodes2 N1 N))

end Pyunicorn.CrossCCN
