import Pyunicorn.Model.Repr
/-!
# Named link attributes and the remaining statements of a history (property C05, round 3)

Core Lean only.  `Pyunicorn.Repr.Net` carries *one* anonymous link attribute.  The
embedded igraph object of a real `Network` carries a dictionary
`graph.es.attributes()` of **named** edge attributes; `copy()` loops over *all* of
them, `save` writes all of them, a file format may rename them (GML).  This file
models that dictionary and the code that reads and writes it, statement by
statement (`core/network.py`: `link_attribute`, `set_link_attribute`,
`del_link_attribute`, `find_link_attribute`, `copy`, `undirected_copy`,
`permuted_copy`, `edge_list`, `save`, `Load`, `FromIGraph`):

* `NetA` = the attribute-free part of the object (`core : Net`, its `eattr` unused)
  + the dictionary `attrs` (association list in insertion order, as igraph keeps it);
* `NetA.view a` = the object seen through the single name `a` (a `Net`), so that
  `link_attribute(a)` *is* the round-1 `linkAttr` of that view;
* `setLinkAttrA` follows `for e in self.graph.es: e[name] = values[e.tuple]`: on a
  network **without links the loop body never runs and no attribute is created**;
* `copyA` is `copy()` with its loop `for a in self.graph.es.attributes():
  net.set_link_attribute(a, self.link_attribute(a))`;
* `OpA` / `stepA` / `runA`: the statements of a history on one live object, now
  including `undirected_copy()`, `Network(edge_list=net.edge_list(), …)` and
  `permuted_copy(identity)`, and attribute statements carrying the attribute's name;
* a file format is a function on what igraph writes (`IGraphA → IGraphA`);
  `gmlStoreA ren` renames every attribute through `ren` (igraph's GML writer
  removes underscores from attribute names).
-/
namespace Pyunicorn.Repr

/-- `graph.es.attributes()` with the values, in igraph's (insertion) order -/
abbrev Attrs := List (String × List Rat)

/-- `e[name] = …` for every edge: replaces the values of an existing attribute in
place, appends a new one -/
def Attrs.put : Attrs → String → List Rat → Attrs
  | [], a, vs => [(a, vs)]
  | p :: ps, a, vs => if p.1 == a then (a, vs) :: ps else p :: Attrs.put ps a vs

/-- `graph.es[name]` (`none` = `KeyError`) -/
def Attrs.get : Attrs → String → Option (List Rat)
  | [], _ => none
  | p :: ps, a => if p.1 == a then some p.2 else Attrs.get ps a

/-- `del graph.es[name]` -/
def Attrs.del (as : Attrs) (a : String) : Attrs := as.filter fun p => p.1 != a

/-- a live `Network` object with all its named link attributes -/
structure NetA where
  /-- everything but the link attributes (`eattr` is not used) -/
  core : Net
  attrs : Attrs

/-- the object seen through the single attribute name `a` -/
def NetA.view (x : NetA) (a : String) : Net := { x.core with eattr := x.attrs.get a }

/-- `graph.es.attributes()` -/
def NetA.names (x : NetA) : List String := x.attrs.map (·.1)

/-- a network fresh from a constructor: the adjacency setter has just created the
graph object, which carries no edge attribute -/
def NetA.fresh (net : Net) : NetA := ⟨net, []⟩

/-- `find_link_attribute(name)` -/
def findLinkAttrA (x : NetA) (a : String) : Bool := (x.attrs.get a).isSome

/-- `link_attribute(name)`; `none` = `KeyError` -/
def linkAttrA (x : NetA) (a : String) : Option (Nat → Nat → Rat) := linkAttr (x.view a)

/-- `set_link_attribute(name, values)`: `for e in self.graph.es: e[name] = values[e.tuple]` —
without an edge nothing is assigned and the attribute does not come into existence -/
def setLinkAttrA (x : NetA) (a : String) (v : Nat → Nat → Rat) : NetA :=
  if x.core.graph.isEmpty then x
  else { x with attrs := x.attrs.put a (x.core.graph.map fun e => v e.1 e.2) }

/-- `del_link_attribute(name)` (`if self.find_link_attribute(name): del self.graph.es[name]`) -/
def delLinkAttrA (x : NetA) (a : String) : NetA := { x with attrs := x.attrs.del a }

def setWeightsA (x : NetA) (w : Option (List Rat)) : Except Err NetA :=
  (setWeights x.core w).map fun n => { x with core := n }

/-- `net.adjacency = A`: a new graph object, all edge attributes are gone -/
def setAdjacencyA (x : NetA) (s : Sparse) : Except Err NetA :=
  (setAdjacency x.core s).map NetA.fresh

/-- the body of the loop of `copy()`: `net.set_link_attribute(a, self.link_attribute(a))` -/
def copyStep (x : NetA) (c : NetA) (p : String × List Rat) : NetA :=
  match linkAttrA x p.1 with
  | some f => setLinkAttrA c p.1 f
  | none => c

/-- the loop of `copy()` over the attributes `l` of the original `x`, acting on the copy `c` -/
def copyAttrs (x : NetA) (l : Attrs) (c : NetA) : NetA := l.foldl (copyStep x) c

/-- `copy()` -/
def copyA (x : NetA) : Except Err NetA := do
  let c ← init x.core.directed (.sparse x.core.sparse) (some x.core.w)
  pure (copyAttrs x x.attrs (NetA.fresh c))

/-- `undirected_copy()` -/
def undirectedCopyA (x : NetA) : Except Err NetA := (undirectedCopy x.core).map NetA.fresh

/-- `permuted_copy(range(N))`: `Network(adjacency=sp_A[idx][:, idx], node_weights=w[idx],
directed=…)` with the identity permutation -/
def permutedCopyIdA (x : NetA) : Except Err NetA :=
  (init x.core.directed (.sparse x.core.sparse) (some x.core.w)).map NetA.fresh

/-- `Network(edge_list=net.edge_list(), n_nodes=net.N, directed=net.directed,
node_weights=net.node_weights)`; `edge_list()` is `nz_coords(self.sp_A)` -/
def edgeListCopyA (x : NetA) : Except Err NetA :=
  (init x.core.directed (.edges (nzCoords x.core.sparse) (some x.core.N)) (some x.core.w)).map
    NetA.fresh

/-- an igraph object with all its edge attributes (`g.ea` is not used) -/
structure IGraphA where
  g : IGraph
  attrs : Attrs

/-- `Network.FromIGraph` -/
def fromIGraphA (h : IGraphA) : Except Err NetA :=
  (fromIGraph { h.g with ea := none }).map fun n => ⟨n, h.attrs⟩

/-- `net.graph` -/
def graphOfA (x : NetA) : IGraphA := ⟨graphOf x.core, x.attrs⟩

/-- `save`: the object afterwards (node weights stored on its graph) and what is written -/
def saveA (x : NetA) : NetA × IGraphA :=
  let s := save x.core
  (⟨s.1, x.attrs⟩, ⟨s.2, x.attrs⟩)

/-- a file that renames attributes (GML: `ren` removes underscores): the vertex
attribute `node_weight_nsi` is found again only if its name is kept; edge attributes are
written edge by edge, so a graph without edges comes back without any -/
def gmlStoreA (ren : String → String) (h : IGraphA) : IGraphA :=
  ⟨{ h.g with vw := if ren "node_weight_nsi" == "node_weight_nsi" then h.g.vw else none },
   if h.g.edges.isEmpty then [] else h.attrs.map fun p => (ren p.1, p.2)⟩

/-- igraph's GML writer on names that start with a letter: underscores are dropped -/
def stripUnderscores (s : String) : String := String.ofList (s.toList.filter fun c => c != '_')

/-- `SpatialNetwork.Load` / `GeoNetwork.Load` -/
def loadViaAdjacencyA (h : IGraphA) (geoW : Option (Option (List Rat))) : Except Err NetA :=
  (loadViaAdjacency { h.g with ea := none } geoW).map fun n => ⟨n, h.attrs⟩

/-- one statement of a history on a live object -/
inductive OpA where
  | setW (w : Option (List Rat))
  /-- `net.set_link_attribute(name, V)` -/
  | setAttr (a : String) (v : Nat → Nat → Rat)
  /-- `net.del_link_attribute(name)` -/
  | delAttr (a : String)
  | setAdj (s : Sparse)
  | save
  | reload
  | copy
  | regraph
  /-- `net = net.undirected_copy()` -/
  | ucopy
  /-- `net = Network(edge_list=net.edge_list(), n_nodes=net.N, directed, node_weights)` -/
  | edgelist
  /-- `net = net.permuted_copy(range(net.N))` -/
  | pcopy

def stepA (store : IGraphA → IGraphA) (x : NetA) : OpA → Except Err NetA
  | .setW w => setWeightsA x w
  | .setAttr a v => .ok (setLinkAttrA x a v)
  | .delAttr a => .ok (delLinkAttrA x a)
  | .setAdj s => setAdjacencyA x s
  | .save => .ok (saveA x).1
  | .reload => fromIGraphA (store (saveA x).2)
  | .copy => copyA x
  | .regraph => fromIGraphA (graphOfA x)
  | .ucopy => undirectedCopyA x
  | .edgelist => edgeListCopyA x
  | .pcopy => permutedCopyIdA x

def runA (store : IGraphA → IGraphA) (x : NetA) : List OpA → Except Err NetA
  | [] => .ok x
  | op :: ops => match stepA store x op with
    | .ok x' => runA store x' ops
    | .error e => .error e

/-! ### subclasses whose constructors derive the adjacency matrix and then run
`GeoNetwork.__init__` / `Network.__init__` (i.e. the adjacency setter and the weight setter) -/

def ratAbs (q : Rat) : Rat := if q < 0 then -q else q

/-- `ClimateNetwork._calculate_threshold_adjacency` applied to `np.abs(similarity)`
(climate_network.py): `A[similarity > threshold] = 1` then `A.flat[::N+1] = 0` -/
def thresholdMat (sim : Nat → Nat → Rat) (thr : Rat) (i j : Nat) : Int :=
  if i == j then 0 else if thr < ratAbs (sim i j) then 1 else 0

/-- `ClimateNetwork.__init__(grid, similarity, threshold=…)` and, on a live object,
`set_threshold(…)` (`non_local=False`): `GeoNetwork.__init__` on the thresholded matrix —
every field of the object is assigned anew, so nothing of an earlier state survives -/
def climateInit (d : Bool) (N : Nat) (sim : Nat → Nat → Rat) (thr : Rat) (cosLat : List Rat)
    (wtype : Nat) : Except Err Net :=
  geoInit d (.sparse (ofDenseMat N N (thresholdMat sim thr))) cosLat wtype

/-- `CoupledClimateNetwork.__init__`: `ClimateNetwork.__init__`, then
`InteractingNetworks.__init__(self, self.adjacency, directed=self.directed,
node_weights=self.node_weights)`, i.e. `Network.__init__` once more on the result -/
def coupledInit (d : Bool) (N : Nat) (sim : Nat → Nat → Rat) (thr : Rat) (cosLat : List Rat)
    (wtype : Nat) : Except Err Net := do
  let net ← climateInit d N sim thr cosLat wtype
  init net.directed (.sparse net.sparse) (some net.w)

/-- scalar series: `recurrence[distance < threshold] = 1` (`RecurrencePlot.set_fixed_threshold`),
`A = self.R.copy(); A.flat[::self.N+1] = 0` (`RecurrenceNetwork`); every metric is
`|x_i − x_j|` on a scalar series.  (Indices are below `x.length` wherever the matrix is read.) -/
def recurrenceMat (x : List Rat) (eps : Rat) (i j : Nat) : Int :=
  if i == j then 0 else if ratAbs (x.getD i 0 - x.getD j 0) < eps then 1 else 0

/-- `RecurrenceNetwork(x, threshold=eps, node_weights=w)` and `set_fixed_threshold(eps)`
(then `w = None`): `Network.__init__(A, directed=False, node_weights=w)` -/
def recurrenceInit (x : List Rat) (eps : Rat) (w : Option (List Rat)) : Except Err Net :=
  init false (.sparse (ofDenseMat x.length x.length (recurrenceMat x eps))) w

/-- `ResNetwork.__init__` without `adjacency`: `adjacency[resistances != 0] = 1` -/
def resMat (R : Nat → Nat → Rat) (i j : Nat) : Int := if R i j != 0 then 1 else 0

def resInit (N : Nat) (R : Nat → Nat → Rat) (cosLat : List Rat) (wtype : Nat) : Except Err Net :=
  geoInit false (.sparse (ofDenseMat N N (resMat R))) cosLat wtype

end Pyunicorn.Repr
