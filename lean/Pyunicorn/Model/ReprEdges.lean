import Pyunicorn.Model.ReprAttrs
/-!
# The embedded igraph object edge by edge (property C05, round 4)

Core Lean only.  The graph object of a `Network` lists its edges in the order of their
igraph **edge ids** (`Net.graph`; `NetA.attrs` holds one value per edge id).  For a graph the
adjacency setter built that order is the row-major order of the adjacency matrix
(`graphEdges`, what `simplify()` leaves); for a graph that came in through `FromIGraph` /
`Load` it is whatever the caller's object / file had.  This file models

* `igraph.Graph(n, edges, directed)` / `Graph.Read`: the edge ids follow the listing, and the
  tuple of an **undirected** edge is `(smaller, larger)` whichever way it was listed
  (`normEdge`, `igraphNew`);
* `set_link_attribute` as the loop that exists in the code,
  `for e in self.graph.es: e[name] = values[e.tuple]` (`setLinkAttrLoop`): one assignment per
  edge id; the first assignment creates the attribute with `None` on every other edge;
* `link_attribute` as the loop that exists in the code: `weights = zeros((N, N))`, then per
  edge id `weights[e.tuple] = e[name]` (and the transposed cell when undirected)
  (`linkAttrLoop`);
* the statements of a history executed through these loops (`stepL`, `runL`) — this is what
  the driver runs.
-/
namespace Pyunicorn.Repr

/-- the tuple igraph reports for an edge listed as `e` -/
def normEdge (d : Bool) (e : Nat × Nat) : Nat × Nat :=
  if d then e else (min e.1 e.2, max e.1 e.2)

/-- `igraph.Graph(n=n, edges=edges, directed=d)` with vertex attribute `node_weight_nsi = vw`
and the edge attributes `attrs` (one value per listed edge): the edge ids follow the listing -/
def igraphNew (n : Nat) (d : Bool) (edges : List (Nat × Nat)) (vw : Option (List Rat))
    (attrs : Attrs) : IGraphA :=
  ⟨⟨n, d, edges.map (normEdge d), vw, none⟩, attrs⟩

/-! ### `set_link_attribute`: `for e in self.graph.es: e[name] = values[e.tuple]` -/

/-- the value vector of the attribute being assigned while the loop runs: `none` = the
attribute does not exist (yet); an entry `none` = igraph's `None` on an edge the loop has not
reached (igraph creates the attribute on the first `e[name] = …`) -/
abbrev EdgeVec := Option (List (Option Rat))

/-- `e[name] = x` for the edge with id `k` of a graph with `m` edges (an igraph attribute
vector always has one entry per edge) -/
def assignEdge (m : Nat) (st : EdgeVec) (k : Nat) (x : Rat) : EdgeVec :=
  let cur := st.getD []
  some ((List.range m).map fun i => if i == k then some x else (cur[i]?).join)

/-- the loop over the edge ids `0 … m-1` -/
def assignLoop (g : List (Nat × Nat)) (v : Nat → Nat → Rat) (st : EdgeVec) : EdgeVec :=
  (List.range g.length).foldl
    (fun st k => match g[k]? with
      | some e => assignEdge g.length st k (v e.1 e.2)
      | none => st) st

/-- what the graph object holds for the name afterwards -/
def commitVec (x : NetA) (a : String) : EdgeVec → NetA
  | none => x                                           -- never assigned: still no such attribute
  | some cur => { x with attrs := x.attrs.put a (cur.filterMap id) }

/-- `set_link_attribute(name, values)` as the per-edge loop -/
def setLinkAttrLoop (x : NetA) (a : String) (v : Nat → Nat → Rat) : NetA :=
  commitVec x a (assignLoop x.core.graph v ((x.attrs.get a).map fun vs => vs.map some))

/-! ### `link_attribute`: zeros, then one (two) cell assignments per edge id -/

/-- `W[p] = x` -/
def updCell (W : Nat → Nat → Rat) (p : Nat × Nat) (x : Rat) : Nat → Nat → Rat :=
  fun i j => if (i, j) == p then x else W i j

/-- body of the loop: `weights[e.tuple] = e[name]`, and the transposed cell when undirected -/
def linkAttrBody (d : Bool) (W : Nat → Nat → Rat) (q : (Nat × Nat) × Rat) : Nat → Nat → Rat :=
  let W1 := updCell W q.1 q.2
  if d then W1 else updCell W1 (swap q.1) q.2

/-- `link_attribute(name)` as the loop (`none` = `KeyError`, which only an existing edge
can raise: without edges the body never looks the name up) -/
def linkAttrLoop (net : Net) : Option (Nat → Nat → Rat) :=
  if net.graph.isEmpty then some fun _ _ => 0
  else net.eattr.map fun vs =>
    (net.graph.zip vs).foldl (linkAttrBody net.directed) (fun _ _ => 0)

def linkAttrLoopA (x : NetA) (a : String) : Option (Nat → Nat → Rat) := linkAttrLoop (x.view a)

/-- the edge attribute `a` as the graph object holds it, edge id by edge id -/
def edgeValues (x : NetA) (a : String) : Option (List ((Nat × Nat) × Rat)) :=
  (x.attrs.get a).map fun vs => x.core.graph.zip vs

/-- `average_link_attribute(name)`: `self.link_attribute(name).mean(axis=1)` -/
def avgLinkAttrA (x : NetA) (a : String) : Option (List Rat) :=
  (linkAttrLoopA x a).map fun f =>
    (List.range x.core.N).map fun i =>
      ((List.range x.core.N).map fun j => f i j).sum / (x.core.N : Rat)

/-! ### histories through the loops -/

def stepL (store : IGraphA → IGraphA) (x : NetA) : OpA → Except Err NetA
  | .setAttr a v => .ok (setLinkAttrLoop x a v)
  | op => stepA store x op

def runL (store : IGraphA → IGraphA) (x : NetA) : List OpA → Except Err NetA
  | [] => .ok x
  | op :: ops => match stepL store x op with
    | .ok x' => runL store x' ops
    | .error e => .error e

end Pyunicorn.Repr
