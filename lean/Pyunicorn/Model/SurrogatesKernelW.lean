import Pyunicorn.Model.SurrogatesKernel
/-!
Round 3: the twin kernels with the **machine integer** the neighbour counter `nR` lives in and with
**every subscript** of the source (property C15), core Lean only.

`Model/SurrogatesKernel.lean` counts neighbours in `Int` and compares "row `j` with row `k`" by
`sameRow`.  The kernel `_twins_s` counts in a C integer (`ndarray[DEGREE_t]` = int16 in the pinned code,
`NODE_t` = int32 after `fix: … neighbour counter`): `nR[j] = <T> n_time`, `nR[j] -= 1` wrap around
modulo `2^bits`, and the twin test `nR[j] == nR[k] and nR[j] != 1` reads the wrapped values.  Here

* `wrapInt bits` is the conversion to a signed `bits`-bit integer, and `initLoopW` / `pairStepW` /
  `recLoopW` keep every value of `nR` wrapped (`bits` is read off the source by the harness on every
  run: dtype of `nR` in `Surrogates.twins`, buffer type of `_twins_s`);
* the stores `R[j, k] = R[k, j] = 1 / 0`, the decrements `nR[j] -= 1; nR[k] -= 1` and the loads of the
  scan `while R[j, l] == R[k, l]: l += 1; if l == n_time: …; break` use the subscript expressions
  regenerated from `numerics.pyx` (`Generated/ArithC15.lean`: `kInitStore*`, `kZeroStore*`, `kDec*`,
  `kScan{S,R}{A,B}{Row,Col}`, `kScanEnd{S,R}`, `kTwinCond{S,R}`), so "rows, not columns" is a fact
  about the source text and not a modelling decision (the recurrence matrices of
  `RecurrencePlot` — fixed local recurrence rate, adaptive neighbourhood size — are not symmetric);
* a read outside the matrix is `none`.

`Lemmas/SurrogatesKernelW.lean` proves this model equal to the one of `Model/SurrogatesKernel.lean`
(hence to the abstract model) for every content of the work arrays — the counter part for every
`n_time ≤ 2^bits`, which is sharp (`twins_counter_wrap_loses_twins`).
-/
namespace Pyunicorn.Surrogates
open Pyunicorn.Generated

/-- conversion of an integer to a signed C integer of `bits` bits (two's complement) -/
def wrapInt (bits : Nat) (x : Int) : Int :=
  (x + 2 ^ (bits - 1)) % 2 ^ bits - 2 ^ (bits - 1)

/-- `R[a, b]` for subscripts as the source computes them; `none` = outside the array -/
def cellI (R : List (List Bool)) (a b : Int) : Option Bool :=
  if a < 0 ∨ b < 0 then none else (R[a.toNat]?).bind (·[b.toNat]?)

/-! ### `_twins_s` with the `bits`-bit counter -/

/-- lines 166-170 with the source's store subscripts and `nR[j] = <T> n_time` -/
def initLoopW (bits n : Nat) (w0 : Work) : Work :=
  (List.range n).foldl (fun w (j : Nat) =>
    ⟨(List.range (ArithC15.kInitRange j).toNat).foldl
        (fun R (k : Nat) =>
          setCell (setCell R (ArithC15.kInitStoreARow j k).toNat (ArithC15.kInitStoreACol j k).toNat true)
            (ArithC15.kInitStoreBRow j k).toNat (ArithC15.kInitStoreBCol j k).toNat true) w.R,
     w.nR.set j (wrapInt bits n)⟩) w0

/-- the body of `for k in range(j)` with the source's store subscripts and wrapping decrements -/
def pairStepW (bits : Nat) (thr : Rat) (emb : List (List Rat)) (w : Work) (j k : Nat) : Work :=
  match emb[j]?, emb[k]? with
  | some u, some v =>
    if near thr u v then w
    else ⟨setCell (setCell w.R (ArithC15.kZeroStoreARow j k).toNat (ArithC15.kZeroStoreACol j k).toNat false)
            (ArithC15.kZeroStoreBRow j k).toNat (ArithC15.kZeroStoreBCol j k).toNat false,
          (w.nR.modify (ArithC15.kDecA j k).toNat (fun x => wrapInt bits (x - 1))).modify
            (ArithC15.kDecB j k).toNat (fun x => wrapInt bits (x - 1))⟩
  | _, _ => w

/-- lines 173-189 -/
def recLoopW (bits : Nat) (thr : Rat) (emb : List (List Rat)) (w0 : Work) : Work :=
  (List.range emb.length).foldl (fun w (j : Nat) =>
    (List.range (ArithC15.kPairRange j).toNat).foldl (fun w k => pairStepW bits thr emb w j k) w) w0

/-! ### the row scan, subscripts from the source -/

/-- `l = 0; while R[·] == R[·]: l += 1; if l == n: <twins>; break` — `fuel` passes are left, `l` is
the running column; `some true` = the pair is appended, `some false` = the `while` condition failed,
`none` = a read outside `R` (or the fuel ran out) -/
def scanK (rowA colA rowB colB : Int → Int → Int → Int) (endT : Int → Int → Bool)
    (R : List (List Bool)) (n j k : Nat) : Nat → Nat → Option Bool
  | 0, _ => none
  | f + 1, l =>
    match cellI R (rowA j k l) (colA j k l), cellI R (rowB j k l) (colB j k l) with
    | some x, some y =>
      if x == y then
        if endT ((l + 1 : Nat) : Int) n then some true
        else scanK rowA colA rowB colB endT R n j k f (l + 1)
      else some false
    | _, _ => none

/-- the scan of `_twins_s` (at most `n_time` passes) -/
def scanS (R : List (List Bool)) (n j k : Nat) : Option Bool :=
  scanK ArithC15.kScanSARow ArithC15.kScanSACol ArithC15.kScanSBRow ArithC15.kScanSBCol
    ArithC15.kScanEndS R n j k n 0

/-- the scan of `_twins_r` -/
def scanR (R : List (List Bool)) (n j k : Nat) : Option Bool :=
  scanK ArithC15.kScanRARow ArithC15.kScanRACol ArithC15.kScanRBRow ArithC15.kScanRBCol
    ArithC15.kScanEndR R n j k n 0

/-- `if nR[j] == nR[k] and nR[j] != 1: <scan>` — the condition is the source's -/
def isTwinScan (cond : Int → Int → Bool) (scan : Nat → Nat → Option Bool) (nR : List Int)
    (j k : Nat) : Bool :=
  match nR[j]?, nR[k]? with
  | some a, some b => cond a b && (scan j k).getD false
  | _, _ => false

/-- one pass of `for i in range(N)` of `_twins_s` -/
def twinsKernelOneW (bits : Nat) (thr : Rat) (md : Nat) (emb : List (List Rat)) (w0 : Work) :
    List (List Nat) × Work :=
  let w := recLoopW bits thr emb (initLoopW bits emb.length w0)
  (twinListsK emb.length md ArithC15.kTwinRangeS
    (isTwinScan ArithC15.kTwinCondS (scanS w.R emb.length) w.nR), w)

/-- `_twins_s`: all series on the same work arrays -/
def twinsKernelW (bits : Nat) (thr : Rat) (md : Nat) : List (List (List Rat)) → Work →
    List (List (List Nat)) × Work
  | [], w => ([], w)
  | emb :: rest, w =>
    let r := twinsKernelOneW bits thr md emb w
    let rs := twinsKernelW bits thr md rest r.2
    (r.1 :: rs.1, rs.2)

/-- `Surrogates.twins` on `np.empty` work arrays (`gn` = whatever the counter array held) -/
def twinsMethodW (bits : Nat) (thr : Rat) (md : Nat) (embs : List (List (List Rat)))
    (g : Nat → Nat → Bool) (gn : Nat → Int) : List (List (List Nat)) :=
  let nT := (embs.headD []).length
  (twinsKernelW bits thr md embs
    ⟨(List.range nT).map fun j => (List.range nT).map (g j), (List.range nT).map gn⟩).1

/-- `Surrogates.twin_surrogates`, loop level with the machine counter -/
def twinSurrogatesKW (bits : Nat) (data : List (List Rat)) (dim delay : Nat) (thr : Rat) (md : Nat)
    (pick : Nat → Nat → Nat) (g : Nat → Nat → Bool) (gn : Nat → Int) :
    Option (List (List Rat)) :=
  match data.mapM (embedK · dim delay) with
  | none => none
  | some embs =>
    let nT := (ArithC15.twinLen ((data.headD []).length : Int) dim delay).toNat
    match walkRows nT pick (twinsMethodW bits thr md embs g gn) 0 with
    | none => none
    | some (idx, _) => rowsM gather data idx

/-! ### `_twins_r` on an arbitrary (possibly asymmetric) matrix -/

/-- `_twins_r(min_dist, N, R, nR, twins)` with the source's range, condition and scan subscripts -/
def twinsRKW (md n : Nat) (R : List (List Bool)) (nR : List Int) : List (List Nat) :=
  twinListsK n md ArithC15.kTwinRangeR (isTwinScan ArithC15.kTwinCondR (scanR R n) nR) ++ [[]]

/-- `RecurrencePlot.twins(min_dist)`: `nR = R.sum(axis=1)` -/
def rpTwinsKW (md : Nat) (R : List (List Bool)) : List (List Nat) :=
  twinsRKW md R.length R ((rowCounts R).map fun c : Nat => (c : Int))

end Pyunicorn.Surrogates
