import Pyunicorn.Model.VisibilityExt
import Pyunicorn.Model.NetBetw
/-
Model of the visibility-graph code, part 3 (round 3).  Core Lean only.

1. **Betweenness-type time-directed measures**
   (`visibility_graph.py`: `retarded_betweenness`, `advanced_betweenness`,
   `trans_betweenness`).  Each is a Python loop over the nodes that calls
   `Network.nsi_betweenness(sources=…, targets=…)[i]` with `np.arange(i)` and / or
   `np.arange(i+1, N)`.  `nsi_betweenness` builds the mask `is_source`, and its cached worker
   runs the Cython kernel `_nsi_betweenness` (`core/_ext/numerics.pyx`), whose line-by-line
   model is property C03's `Pyunicorn.NetBetw.nsiBetweenness` — **reused here unchanged**
   (node weights of a `VisibilityGraph` are all 1).

2. **The pair-dependency definition** the kernel is meant to compute: `walks` (number of
   walks with exactly `k` links — for `k` = the distance: the number of shortest paths),
   `sigma`, `pairDep t s l = σ_ts(l) / σ_ts`, `betwSpec` (sum over ordered
   (target, source) pairs; the kernel drops `l` itself as a source and as a target).  The
   reversal theorems are proved about the definition; the driver evaluates both the
   kernel model and the definition and the harness compares both with the implementation.

3. **Monotone images of the values** for the horizontal graph and
   **the float kernel with exact differences** (`ExactDiffs`, decidable; evaluated by the
   driver): hypotheses of `hvg_monotone_invariant` and `nvg_float_subgraph`.
-/
namespace Pyunicorn.Visibility
open Pyunicorn

/-! ### 1. the code: `nsi_betweenness` with source / target index arrays -/

/-- entries of `sp_A` of the network built from the adjacency matrix -/
def adjFn (A : List (List Bool)) : Net.Adj := fun i j => Mat.at A i j

/-- `is_source = np.zeros(N); is_source[sources] = 1` -/
def srcMask (N : Nat) (src : List Nat) : List Bool := (List.range N).map fun v => src.contains v

/-- `np.arange(i)` -/
def pastIdx (i : Nat) : List Nat := List.range i

/-- `np.arange(i+1, N)` -/
def futureIdx (N i : Nat) : List Nat := List.range' (i + 1) (N - (i + 1))

/-- `self.nsi_betweenness(sources=src, targets=tgt)[i]` on a network with unit node weights:
C03's model of the kernel `_nsi_betweenness` and of its wrapper -/
def nsiBetwAt (N : Nat) (A : List (List Bool)) (src tgt : List Nat) (i : Nat) : Rat :=
  (NetBetw.nsiBetweenness N (adjFn A) (fun _ => 1) (srcMask N src) tgt).getD i 0

/-- `retarded_betweenness()[i]` -/
def retBetw (N : Nat) (A : List (List Bool)) (i : Nat) : Rat :=
  nsiBetwAt N A (pastIdx i) (pastIdx i) i

/-- `advanced_betweenness()[i]` -/
def advBetw (N : Nat) (A : List (List Bool)) (i : Nat) : Rat :=
  nsiBetwAt N A (futureIdx N i) (futureIdx N i) i

/-- `trans_betweenness()[i]`: sources in the past, targets in the future -/
def transBetw (N : Nat) (A : List (List Bool)) (i : Nat) : Rat :=
  nsiBetwAt N A (pastIdx i) (futureIdx N i) i

/-! ### 2. the definition: pair dependencies from shortest-path counts -/

/-- number of walks with exactly `k` links from `i` to each node -/
def walks (N : Nat) (A : List (List Bool)) (i : Nat) : Nat → List Nat
  | 0 => (List.range N).map fun v => if v == i then 1 else 0
  | k + 1 =>
    let w := walks N A i k
    (List.range N).map fun v =>
      ((List.range N).map fun u => if Mat.at A u v then w.getD u 0 else 0).sum

/-- number of shortest paths from `i` to `v` (walks with `pathLen` links), 0 if unreachable -/
def sigma (N : Nat) (A : List (List Bool)) (i v : Nat) : Nat :=
  match pathLen N A i v with
  | some d => (walks N A i d).getD v 0
  | none => 0

/-- `σ_ts(l) / σ_ts`: the fraction of shortest paths from `t` to `s` that pass through `l` -/
def pairDep (N : Nat) (A : List (List Bool)) (t s l : Nat) : Rat :=
  match pathLen N A t s, pathLen N A t l, pathLen N A l s with
  | some d, some d1, some d2 =>
      if d1 + d2 = d then ((sigma N A t l : Rat) * (sigma N A l s : Rat)) / (sigma N A t s : Rat)
      else 0
  | _, _, _ => 0

/-- betweenness of `l` with respect to ordered (target, source) pairs; `l` itself is neither
counted as a source nor as a target (what the kernel does with `excess_to_j` and `l == j`) -/
def betwSpec (N : Nat) (A : List (List Bool)) (src tgt : List Nat) (l : Nat) : Rat :=
  (tgt.map fun t =>
    if t = l then 0
    else (src.map fun s => if s = l then 0 else pairDep N A t s l).sum).sum

def retBetwSpec (N : Nat) (A : List (List Bool)) (i : Nat) : Rat :=
  betwSpec N A (pastIdx i) (pastIdx i) i
def advBetwSpec (N : Nat) (A : List (List Bool)) (i : Nat) : Rat :=
  betwSpec N A (futureIdx N i) (futureIdx N i) i
def transBetwSpec (N : Nat) (A : List (List Bool)) (i : Nat) : Rat :=
  betwSpec N A (pastIdx i) (futureIdx N i) i

/-! ### 3. hypotheses of the float theorems, decidable -/

/-- the rounding is exact on every difference the natural kernels form from left end `i`:
`x[k] - x[i]` (where both are numbers) and `t[k] - t[i]` -/
def exactDiffAt (rnd : Rat → Rat) (x : List Val) (t : List Rat) (i k : Nat) : Bool :=
  decide (rnd (t.getD k 0 - t.getD i 0) = t.getD k 0 - t.getD i 0) &&
  (match vsub (valAt x k) (valAt x i) with
   | some dx => decide (rnd dx = dx)
   | none => true)

def ExactDiffs (rnd : Rat → Rat) (x : List Val) (t : List Rat) (N : Nat) : Prop :=
  ∀ i, i < N → ∀ k, k < N → i < k → exactDiffAt rnd x t i k = true

instance (rnd : Rat → Rat) (x : List Val) (t : List Rat) (N : Nat) :
    Decidable (ExactDiffs rnd x t N) := by
  unfold ExactDiffs; infer_instance

end Pyunicorn.Visibility
