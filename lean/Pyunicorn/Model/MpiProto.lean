import Pyunicorn.Model.Mpi
/-
Whole-protocol model of `pyunicorn.utils.mpi` (src/pyunicorn/utils/mpi.py) as a state
machine: the master (`submit_call` with slave selection by accumulated time
estimates, `get_result`, `get_next_result`, `terminate` at the end of `run()`), the
slaves' `serve()` loop, and one FIFO channel per direction between the master and
every slave (MPI point-to-point messages between two ranks do not overtake).
A *schedule* is a list of choices (master or a slave rank); a choice that is not
enabled (master blocked in `comm.recv`, slave with an empty channel) is skipped, so
every list is a schedule and every interleaving is some list.

Also: the multiprocessing split of `targets` in `Network._nsi_betweenness`
(`np.array_split(targets, n_workers)`).

Core Lean only.
-/
namespace Pyunicorn.MpiProto
open Pyunicorn.Mpi (lookup)

/-- point update of a per-rank table -/
def upd {γ : Type} (f : Nat → γ) (k : Nat) (v : γ) : Nat → γ :=
  fun j => if j = k then v else f j

/-- what the master sends: `(name_to_call, args, kwargs, module, time_est)` or the
`("terminate", (), {}, "", 0)` tuple -/
inductive Msg (α : Type) where
  | call (payload : α) (est : Int)
  | terminate
deriving Repr

/-- the master's program: the calls `master()` makes, in order -/
inductive Op (α : Type) where
  | submit (id : Nat) (payload : α) (est : Int) (slave : Option Nat)
  | get (id : Nat)
  | getNext
deriving Repr

inductive Err | alreadyQueued | keyError | outOfOrder
deriving DecidableEq, Repr

/-- `list.remove(id)`: erase the first entry with that id -/
def eraseId {γ : Type} (id : Nat) : List (Nat × γ) → List (Nat × γ)
  | [] => []
  | x :: t => if x.1 = id then t else x :: eraseId id t

/-- `numpy.argmin(total_time_est)`: entry 0 is `inf`, so the first minimum among
ranks `1..size-1` -/
def argmin (est : Nat → Int) (size : Nat) : Nat :=
  (List.range (size - 1)).foldl (fun b k => if est (k + 1) < est b then k + 1 else b) 1

structure State (α β : Type) where
  size : Nat
  available : Bool
  est : Nat → Int                  -- `total_time_est[s]`, s ≥ 1
  queue : List (Nat × α)           -- `queue` (ids in submission order; payload = annotation)
  assigned : List (Nat × Nat)      -- `assigned[id] = slave`
  squeue : Nat → List (Nat × α)    -- `slave_queue[s]` (payload = annotation)
  results : List (Nat × β)         -- `results` of the single-process mode
  inbox : Nat → List (Msg α)       -- channel master → s
  outbox : Nat → List (β × Nat)    -- channel s → master: `(result, stats["n_processed"])`
  alive : Nat → Bool               -- slave s still inside `serve()`
  nproc : Nat → Nat                -- `n_processed[rank]` on slave `rank`
  mnproc : Nat → Nat               -- `n_processed[source]` on the master
  prog : List (Op α)               -- what `master()` still has to do
  finished : Bool                  -- `run()` returned on the master (after `terminate()`)
  err : Option Err                 -- exception raised inside `master()`
  got : List (Nat × β)             -- `(id, value)` returned by `get_result` so far
  sentLog : List (Nat × α)         -- `(slave, payload)` of every call handed out
  execLog : List (Nat × α)         -- `(rank, payload)` of every call executed

def init {α β : Type} (size : Nat) (prog : List (Op α)) : State α β :=
  { size := size, available := decide (2 ≤ size), est := fun _ => 0, queue := [], assigned := [],
    squeue := fun _ => [], results := [], inbox := fun _ => [], outbox := fun _ => [],
    alive := fun _ => true, nproc := fun _ => 0, mnproc := fun _ => 0, prog := prog,
    finished := false, err := none, got := [], sentLog := [], execLog := [] }

/-- `if slave is None or slave < 1 or slave >= size: slave = numpy.argmin(total_time_est)` -/
def chooseSlave {α β : Type} (st : State α β) : Option Nat → Nat
  | some s => if s < 1 ∨ st.size ≤ s then argmin st.est st.size else s
  | none => argmin st.est st.size

/-! the state updates, one per protocol action -/

/-- `submit_call` with slaves: `comm.send(...)`, `total_time_est[slave] += time_est`,
`queue.append(id)`, `slave_queue[slave].append(id)`, `assigned[id] = slave` -/
def doSubmit {α β : Type} (st : State α β) (id : Nat) (p : α) (e : Int) (s : Nat)
    (rest : List (Op α)) : State α β :=
  { st with
    prog := rest, inbox := upd st.inbox s (st.inbox s ++ [Msg.call p e]),
    est := upd st.est s (st.est s + e), queue := st.queue ++ [(id, p)],
    squeue := upd st.squeue s (st.squeue s ++ [(id, p)]),
    assigned := st.assigned ++ [(id, s)], sentLog := st.sentLog ++ [(s, p)] }

/-- `submit_call` without slaves: the call is executed at once, `results[id] = ...` -/
def doSubmitLocal {α β : Type} (f : α → β) (st : State α β) (id : Nat) (p : α)
    (rest : List (Op α)) : State α β :=
  { st with
    prog := rest, results := (id, f p) :: st.results, queue := st.queue ++ [(id, p)],
    squeue := upd st.squeue 0 (st.squeue 0 ++ [(id, p)]),
    assigned := st.assigned ++ [(id, 0)], sentLog := st.sentLog ++ [(0, p)],
    execLog := st.execLog ++ [(0, p)] }

/-- `get_result` with slaves after `comm.recv(source=source)` returned `(v, stats)` -/
def doGet {α β : Type} (st : State α β) (id src : Nat) (v : β × Nat) (vs : List (β × Nat))
    (rest : List (Op α)) : State α β :=
  { st with
    prog := rest, outbox := upd st.outbox src vs, mnproc := upd st.mnproc src v.2,
    got := st.got ++ [(id, v.1)], queue := eraseId id st.queue,
    squeue := upd st.squeue src (eraseId id (st.squeue src)),
    assigned := st.assigned.filter (fun p => p.1 != id) }

/-- `get_result` without slaves: `result = results[id]` -/
def doGetLocal {α β : Type} (st : State α β) (id src : Nat) (v : β) (rest : List (Op α)) :
    State α β :=
  { st with
    prog := rest, got := st.got ++ [(id, v)], queue := eraseId id st.queue,
    squeue := upd st.squeue src (eraseId id (st.squeue src)),
    assigned := st.assigned.filter (fun p => p.1 != id) }

/-- `terminate()` at the end of `run()` on the master -/
def doTerminate {α β : Type} (st : State α β) : State α β :=
  { st with
    finished := true, available := false,
    inbox := if st.available then
        fun s => if 1 ≤ s ∧ s < st.size then st.inbox s ++ [Msg.terminate] else st.inbox s
      else st.inbox }

def doFail {α β : Type} (st : State α β) (e : Err) : State α β := { st with err := some e }

/-- `serve()`: a call was received, executed and its result sent back -/
def doCall {α β : Type} (f : α → β) (st : State α β) (s : Nat) (p : α) (ms : List (Msg α)) :
    State α β :=
  { st with
    inbox := upd st.inbox s ms, outbox := upd st.outbox s (st.outbox s ++ [(f p, st.nproc s + 1)]),
    nproc := upd st.nproc s (st.nproc s + 1), execLog := st.execLog ++ [(s, p)] }

/-- `serve()`: the terminate tuple was received, the loop ends -/
def doStop {α β : Type} (st : State α β) (s : Nat) (ms : List (Msg α)) : State α β :=
  { st with inbox := upd st.inbox s ms, alive := upd st.alive s false }

/-- `get_result(id)`; `none` = blocked inside `comm.recv(source=source)` -/
def getStep {α β : Type} (st : State α β) (id : Nat) (rest : List (Op α)) : Option (State α β) :=
  match lookup id st.assigned with
  | none => some (doFail st .keyError)
  | some src =>
    if st.available then
      match st.squeue src with
      | [] => some (doFail st .keyError)
      | h :: _ =>
        if h.1 ≠ id then some (doFail st .outOfOrder)
        else match st.outbox src with
          | [] => none
          | v :: vs => some (doGet st id src v vs rest)
    else
      match lookup id st.results with
      | none => some (doFail st .keyError)
      | some v => some (doGetLocal st id src v rest)

/-- one step of the master: the next call of `master()`, or `terminate()` when
`master()` has returned -/
def masterStep {α β : Type} (f : α → β) (st : State α β) : Option (State α β) :=
  if st.finished = true ∨ st.err.isSome = true then none else
  match st.prog with
  | [] => some (doTerminate st)
  | .submit id p e sl :: rest =>
    if (lookup id st.assigned).isSome then some (doFail st .alreadyQueued)
    else if st.available then some (doSubmit st id p e (chooseSlave st sl) rest)
    else some (doSubmitLocal f st id p rest)
  | .get id :: rest => getStep st id rest
  | .getNext :: rest =>
    match st.queue with
    | [] => some { st with prog := rest }
    | x :: _ => getStep st x.1 rest

/-- one iteration of `serve()` on slave `s`: receive, (terminate | call and send back) -/
def slaveStep {α β : Type} (f : α → β) (st : State α β) (s : Nat) : Option (State α β) :=
  if s < 1 ∨ st.size ≤ s ∨ st.alive s = false then none else
  match st.inbox s with
  | [] => none
  | .terminate :: ms => some (doStop st s ms)
  | .call p _ :: ms => some (doCall f st s p ms)

/-- rank 0 = the master -/
def step {α β : Type} (f : α → β) (st : State α β) (c : Nat) : Option (State α β) :=
  if c = 0 then masterStep f st else slaveStep f st c

/-- run a schedule; choices that are not enabled are skipped (and counted) -/
def runSched {α β : Type} (f : α → β) : State α β → List Nat → State α β × Nat
  | st, [] => (st, 0)
  | st, c :: cs =>
    match step f st c with
    | none => let r := runSched f st cs; (r.1, r.2 + 1)
    | some st' => runSched f st' cs

def run {α β : Type} (f : α → β) (st : State α β) (cs : List Nat) : State α β :=
  (runSched f st cs).1

/-! ### termination measure of a schedule (round 5)

`measure` bounds the number of steps any schedule can still execute: the master's
remaining calls (a `submit_call` also puts one message into a channel, hence the factor
2), the `terminate()` of `run()` (one message per slave, hence `size + 1`), and the
messages still waiting in the channels master → slave. -/

def sumTo (a : Nat → Nat) : Nat → Nat
  | 0 => 0
  | n + 1 => sumTo a n + a n

/-- messages waiting in the channels master → slave -/
def inboxTotal {α β : Type} (st : State α β) : Nat :=
  sumTo (fun s => (st.inbox s).length) st.size

def measure {α β : Type} (st : State α β) : Nat :=
  (if st.finished = true ∨ st.err.isSome = true then 0 else 2 * st.prog.length + st.size + 1) +
    inboxTotal st

/-- number of entries of the schedule that were executed (not skipped) -/
def executed {α β : Type} (f : α → β) (st : State α β) (cs : List Nat) : Nat :=
  cs.length - (runSched f st cs).2

/-- number of `submit_call`s in a master program -/
def nSubmits {α : Type} : List (Op α) → Nat
  | [] => 0
  | .submit _ _ _ _ :: r => nSubmits r + 1
  | _ :: r => nSubmits r

/-- round 5c: the *exact* number of steps an error-free run still executes: one per remaining
call of `master()`, the `terminate()` of `run()`, and, with slaves, one `serve()` iteration per
`submit_call` still to come, one per slave for the terminate tuple, one per message waiting in a
channel master → slave -/
def stepsLeft {α β : Type} (st : State α β) : Nat :=
  (if st.finished = true ∨ st.err.isSome = true then 0
    else st.prog.length + 1 + (if st.available = true then nSubmits st.prog + (st.size - 1) else 0)) +
    inboxTotal st

/-- round 5c: the exact step count of a completed error-free run of `prog` on `size` ranks -/
def exactSteps {α : Type} (size : Nat) (prog : List (Op α)) : Nat :=
  if 2 ≤ size then prog.length + nSubmits prog + size else prog.length + 1

/-- no rank can move -/
def quiescent {α β : Type} (f : α → β) (st : State α β) : Prop := ∀ c, step f st c = none

/-! ### specification: what the calls of `master()` return, independent of any
communicator -/

/-- pending `(id, payload)` in submission order and the values returned so far -/
def specStep {α β : Type} (f : α → β) (s : List (Nat × α) × List (Nat × β)) :
    Op α → Except Err (List (Nat × α) × List (Nat × β))
  | .submit id p _ _ =>
    if (lookup id s.1).isSome then .error .alreadyQueued else .ok (s.1 ++ [(id, p)], s.2)
  | .get id =>
    match lookup id s.1 with
    | none => .error .keyError
    | some p => .ok (eraseId id s.1, s.2 ++ [(id, f p)])
  | .getNext =>
    match s.1 with
    | [] => .ok s
    | x :: t => .ok (t, s.2 ++ [(x.1, f x.2)])

def specRun {α β : Type} (f : α → β) :
    List (Nat × α) × List (Nat × β) → List (Op α) → Except Err (List (Nat × α) × List (Nat × β))
  | s, [] => .ok s
  | s, op :: ops =>
    match specStep f s op with
    | .error e => .error e
    | .ok s' => specRun f s' ops

/-! ### the multiprocessing split of `targets` (`np.array_split`, 1-D) -/

/-- cut `xs` into consecutive pieces of the given sizes -/
def splitSizes {γ : Type} : List γ → List Nat → List (List γ)
  | _, [] => []
  | xs, k :: ks => xs.take k :: splitSizes (xs.drop k) ks

/-- `Neach_section, extras = divmod(Ntotal, Nsections)`;
`section_sizes = extras * [Neach_section+1] + (Nsections-extras) * [Neach_section]` -/
def sectionSizes (total n : Nat) : List Nat :=
  List.replicate (total % n) (total / n + 1) ++ List.replicate (n - total % n) (total / n)

def arraySplit {γ : Type} (xs : List γ) (n : Nat) : List (List γ) :=
  splitSizes xs (sectionSizes xs.length n)

end Pyunicorn.MpiProto
