import Pyunicorn.Model.Net
/-
Model of the Cython kernel `_nsi_betweenness` (numerics.pyx:398-494, "Newman's
algorithm": a BFS from every target `j` that records predecessors and weighted
path multiplicities, followed by a backward sweep over the BFS queue) and of
its Python wrapper `Network._nsi_betweenness` (network.py:2957-2989), which
passes `k = outdegree`, `flat_neighbors` = column indices of `nz_coords(sp_A)`
(row-major) and divides the result by `w`.  Arrays are lists; the flat
predecessor array with its `offsets` stride is kept as in the kernel.
-/
namespace Pyunicorn.NetBetw
open Pyunicorn.Net

structure Fwd where
  dist : List Nat
  npred : List Nat
  fpred : List Nat
  queue : List Nat
  mult : List Rat

/-- the body of `for l_index in range(oi, oi+k[i])` for one neighbour `l` of `i` -/
def relax (offsets : List Nat) (w : Nat → Rat) (i nextD : Nat) (s : Fwd) (l : Nat) : Fwd :=
  let dl := s.dist.getD l 0
  if dl ≥ nextD then
    let fi := offsets.getD l 0 + s.npred.getD l 0
    let s1 : Fwd := { s with
      npred := s.npred.set l (s.npred.getD l 0 + 1)
      fpred := s.fpred.set fi i
      mult := s.mult.set l (s.mult.getD l 0 + w l * s.mult.getD i 0) }
    if dl > nextD then
      { s1 with dist := s1.dist.set l nextD, queue := s1.queue ++ [l] }
    else s1
  else s

/-- `while qi < queue_len` with fuel -/
def forward (offsets k flat : List Nat) (w : Nat → Rat) : Nat → Nat → Fwd → Fwd
  | 0, _, s => s
  | fuel + 1, qi, s =>
    if qi < s.queue.length then
      let i := s.queue.getD qi 0
      let nextD := s.dist.getD i 0 + 1
      let oi := offsets.getD i 0
      let ls := (flat.drop oi).take (k.getD i 0)
      forward offsets k flat w fuel (qi + 1) (ls.foldl (relax offsets w i nextD) s)
    else s

/-- backward sweep for one queue entry `l` -/
def back (offsets : List Nat) (w : Nat → Rat) (j : Nat) (s : Fwd)
    (be : List Rat × List Rat) (l : Nat) : List Rat × List Rat :=
  if l = j then (be.1.set l 0, be.2.set l 0)
  else
    let base := w l / s.mult.getD l 0
    let ol := offsets.getD l 0
    let ps := (s.fpred.drop ol).take (s.npred.getD l 0)
    (ps.foldl (fun b i => b.set i (b.getD i 0 + b.getD l 0 * base * s.mult.getD i 0)) be.1, be.2)

/-- one iteration of `for j in targets`: returns `w[j] * (betweenness_to_j - excess_to_j)` -/
def target (n : Nat) (offsets k flat : List Nat) (w : Nat → Rat) (isSrc : List Bool)
    (j : Nat) : List Rat :=
  let s0 : Fwd := {
    dist := (List.replicate n (2 * n)).set j 0
    npred := List.replicate n 0
    fpred := List.replicate flat.length 0
    queue := [j]
    mult := (List.replicate n (0 : Rat)).set j (w j) }
  let s := forward offsets k flat w n 0 s0
  let init : List Rat := (List.range n).map fun l => if isSrc.getD l false then w l else 0
  let be := s.queue.reverse.foldl (back offsets w j s) (init, init)
  (List.range n).map fun l => w j * (be.1.getD l 0 - be.2.getD l 0)

/-- `offsets[i] = offsets[i-1] + k[i-1]` -/
def offsetsOf (k : List Nat) : List Nat :=
  (List.range k.length).map fun i => (k.take i).sum

/-- the kernel: `betweenness_times_w` -/
def kernel (n : Nat) (k flat : List Nat) (w : Nat → Rat) (isSrc : List Bool)
    (targets : List Nat) : List Rat :=
  let offsets := offsetsOf k
  targets.foldl (fun acc j =>
    let t := target n offsets k flat w isSrc j
    (List.range n).map fun l => acc.getD l 0 + t.getD l 0) (List.replicate n 0)

/-- the wrapper `Network._nsi_betweenness`: `kernel(...) / w` -/
def nsiBetweenness (n : Nat) (a : Adj) (w : Nat → Rat) (isSrc : List Bool)
    (targets : List Nat) : List Rat :=
  let k := (List.range n).map fun i => outdeg n a i
  let flat := (List.range n).flatMap fun i => nbrs n a i
  let r := kernel n k flat w isSrc targets
  (List.range n).map fun l => r.getD l 0 / w l

/-- `is_source = np.zeros(N); is_source[sources] = 1` (`sources=None`: all ones) in
`Network.nsi_betweenness` (network.py) -/
def srcMaskOf (n : Nat) (sources : Option (List Nat)) : List Bool :=
  match sources with
  | none => List.replicate n true
  | some L => (List.range n).map fun v => L.contains v

/-- `Network.nsi_betweenness(sources, targets, nsi)` with `parallelize=False`: default arguments
(`targets=None` → `np.arange(N)`), unit weights for `nsi=False` (`np.ones_like(w)`), then the worker -/
def apiBetweenness (n : Nat) (a : Adj) (nodeW : Nat → Rat) (sources targets : Option (List Nat))
    (nsi : Bool) : List Rat :=
  nsiBetweenness n a (if nsi then nodeW else fun _ => 1) (srcMaskOf n sources)
    (targets.getD (List.range n))

/-- `interregional_betweenness(sources, targets)` = `nsi_betweenness(sources, targets, nsi=False)` -/
def interregionalBetweenness (n : Nat) (a : Adj) (nodeW : Nat → Rat)
    (sources targets : Option (List Nat)) : List Rat :=
  apiBetweenness n a nodeW sources targets false

end Pyunicorn.NetBetw
