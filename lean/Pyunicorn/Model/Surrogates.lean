/-
Model of the surrogate generators of pyunicorn (property C15).
Core Lean only (no Mathlib) so that the driver links as an executable.

  timeseries/surrogates.py     : `white_noise_surrogates`, `correlated_noise_surrogates`,
        `AAFT_surrogates`, `refined_AAFT_surrogates`, `twins`, `twin_surrogates`,
        `embed_time_series_array`
  timeseries/recurrence_plot.py: `twins`, `twin_surrogates`
  timeseries/_ext/numerics.pyx : `_embed_time_series_array`, `_twins_s`, `_twins_r`,
        `_twin_surrogates_s`, `_twin_surrogates_r`

What is *not* modelled but taken as an input of the model (recorded from the
running code by the harness): the permutation numpy's `shuffle` applies, the
arrays `numpy.fft.irfft` returns, the values `random.random()` returns.
-/
namespace Pyunicorn.Surrogates

/-! ### 1. fancy indexing, shuffling, rank remapping -/

/-- numpy fancy indexing `xs[idx]` (non-negative indices): `none` = IndexError. -/
def gather (xs : List α) : List Nat → Option (List α)
  | [] => some []
  | i :: is =>
    match xs[i]?, gather xs is with
    | some x, some r => some (x :: r)
    | _, _ => none

/-- rows of a 2-D array processed one by one with per-row auxiliary input -/
def rowsM (f : List α → List β → Option (List γ)) :
    List (List α) → List (List β) → Option (List (List γ))
  | [], _ => some []
  | _ :: _, [] => none
  | r :: rs, p :: ps =>
    match f r p, rowsM f rs ps with
    | some a, some b => some (a :: b)
    | _, _ => none

/-- `white_noise_surrogates`: `surrogates = data.copy(); for i: shuffle(surrogates[i, :])`,
where the in-place shuffle of row `i` applies the permutation `perms[i]`. -/
def whiteNoise (data : List (List Rat)) (perms : List (List Nat)) : Option (List (List Rat)) :=
  rowsM gather data perms

/-- one swap of the Fisher–Yates loop (`x[i], x[j] = x[j], x[i]`) -/
def swap (xs : Array α) (i j : Nat) : Array α :=
  if h : i < xs.size ∧ j < xs.size then xs.swap i j h.1 h.2 else xs

/-- Fisher–Yates shuffle as numpy's legacy `shuffle` runs it: for `i = n-1 … 1`
draw `j ∈ [0, i]` and swap; `draws` is the stream of the `j`s (reduced mod `i+1`
so that every stream is admissible). -/
def fisherYates (xs : Array α) (draws : List Nat) : Array α :=
  ((List.range xs.size).reverse.zip draws).foldl
    (fun a (p : Nat × Nat) => swap a p.1 (p.2 % (p.1 + 1))) xs

def sortR (xs : List Rat) : List Rat := xs.mergeSort (fun a b => decide (a ≤ b))

/-- stable `argsort` -/
def argsort (xs : List Rat) : List Nat :=
  (xs.zipIdx.mergeSort (fun a b => decide (a.1 ≤ b.1))).map (·.2)

def argsortNat (xs : List Nat) : List Nat :=
  (xs.zipIdx.mergeSort (fun a b => decide (a.1 ≤ b.1))).map (·.2)

/-- `s.argsort().argsort()` : the rank of every sample -/
def ranks (s : List Rat) : List Nat := argsortNat (argsort s)

/-- the amplitude adjustment of (refined) AAFT for one row:
`sorted_original[j, ranks[j, :]]` with `ranks = s.argsort().argsort()` -/
def remap (row s : List Rat) : Option (List Rat) := gather (sortR row) (ranks s)

/-- `AAFT_surrogates` seen from its last `irfft`: `s` is the phase-randomised
rescaled data (one row per series). -/
def aaft (data s : List (List Rat)) : Option (List (List Rat)) := rowsM remap data s

/-- `refined_AAFT_surrogates(n_iterations = ss.length)`, output "true_amplitudes":
`R = AAFT_surrogates(); for s in ss: R[j,:] = sorted_original[j, ranks(s[j,:])]`.
`s0` is the array the inner AAFT call ranks, `ss` the arrays `irfft` returns in
the refinement loop. -/
def refinedAaft (data s0 : List (List Rat)) (ss : List (List (List Rat))) :
    Option (List (List Rat)) :=
  ss.foldl (fun R s => match R with | none => none | some _ => aaft data s) (aaft data s0)

/-- first stage of `AAFT_surrogates` (394-402) for one row: `gaussian.sort(axis=1)`,
`ranks = original_data.argsort().argsort()`, `rescaled_data[i,:] = gaussian[i, ranks[i,:]]` -/
def rescale (row g : List Rat) : Option (List Rat) := gather (sortR g) (ranks row)

/-- the array the inner `Surrogates(rescaled_data)` is built on -/
def aaftRescaled (data gauss : List (List Rat)) : Option (List (List Rat)) := rowsM rescale data gauss

/-! ### 2. phase randomisation of the memoised FFT (polymorphic in the numbers) -/

structure Trig (α : Type) where
  cos : α → α
  sin : α → α

section
variable {α : Type} [Add α] [Sub α] [Mul α]

/-- `z * exp(1j * φ)` on (re, im) pairs -/
def rot (T : Trig α) (z : α × α) (φ : α) : α × α :=
  (z.1 * T.cos φ - z.2 * T.sin φ, z.1 * T.sin φ + z.2 * T.cos φ)

def rotRow (T : Trig α) (zs : List (α × α)) (φs : List α) : List (α × α) :=
  List.zipWith (rot T) zs φs

def normSq (z : α × α) : α := z.1 * z.1 + z.2 * z.2

/-- what the statement `surrogates *= np.exp(1j * phases)` does to the array
returned by the cached `original_data_fft()`: `inplace` — the cached array itself
is multiplied (the pinned code); `copy` — a fresh product is formed and the cache
is left alone (`surrogates = surrogates * …`).  The harness reads the mode off
the source (ast) on every run. -/
inductive Mode | inplace | copy
deriving DecidableEq, Repr

/-- a history of `correlated_noise_surrogates()` calls on one object, one list of
phases per call; returns the spectra handed to `irfft`, call by call. -/
def fourierCalls (T : Trig α) (mode : Mode) (cache : List (α × α)) :
    List (List α) → List (List (α × α))
  | [] => []
  | φs :: rest =>
    let out := rotRow T cache φs
    out :: fourierCalls T mode (match mode with | .inplace => out | .copy => cache) rest

/-- the further operations of the refinement loop: `np.abs` and `np.angle` on (re, im) pairs -/
structure Polar (α : Type) extends Trig α where
  sqrt : α → α
  /-- `np.angle(re + i·im)` -/
  angle : α → α → α

/-- refinement loop 456-462, the entry handed to `irfft`:
`original_fourier_amps * np.exp(1j * np.angle(r_fft))` with
`original_fourier_amps = np.abs(original_data_fft())`; `z` = cached FFT entry, `r` = entry of
`rfft(R)`. -/
def specIn (P : Polar α) (z r : α × α) : α × α :=
  let a := P.sqrt (normSq z)
  let ψ := P.angle r.1 r.2
  (a * P.cos ψ, a * P.sin ψ)

def specInRow (P : Polar α) (zs rs : List (α × α)) : List (α × α) :=
  List.zipWith (specIn P) zs rs

end

/-! ### 3. embedding, recurrence matrix, twins -/

/-- `_embed_time_series_array` for one series: state `k` is
`(x[k], x[k+delay], …, x[k+(dim-1)·delay])`, `k < n - (dim-1)·delay`;
`none` = numpy's ValueError for a negative length. -/
def embed (row : List Rat) (dim delay : Nat) : Option (List (List Rat)) :=
  if (dim - 1) * delay > row.length then none
  else (List.range (row.length - (dim - 1) * delay)).mapM fun k =>
    (List.range dim).mapM fun j => row[k + j * delay]?

/-- the `for l in range(dimension)` loop of `_twins_s` / `_recurrence_plot`:
neighbours unless some component differs by more than the threshold -/
def near (thr : Rat) (u v : List Rat) : Bool :=
  (List.zipWith (fun a b => decide (a - b ≤ thr) && decide (b - a ≤ thr)) u v).all id

/-- recurrence matrix of `_twins_s`: initialised to one, `R[j,k] = R[k,j] = 0`
for the pairs `k < j` that are not neighbours; the diagonal is never tested. -/
def recMatrix (thr : Rat) (emb : List (List Rat)) : List (List Bool) :=
  emb.zipIdx.map fun uj => emb.zipIdx.map fun vk => uj.2 == vk.2 || near thr uj.1 vk.1

/-- neighbour counts -/
def rowCounts (R : List (List Bool)) : List Nat := R.map (·.count true)

/-- column sums `R.sum(axis=0)` -/
def colCounts (R : List (List Bool)) : List Nat :=
  (List.range R.length).map fun l => (R.filter fun r => r[l]?.getD false).length

/-- `l = 0; while R[j,l] == R[k,l]: l += 1; if l == n: <twins>; break` -/
def sameRow : List Bool → List Bool → Bool
  | [], [] => true
  | a :: as, b :: bs => a == b && sameRow as bs
  | _, _ => false

/-- the test applied to a pair `(j, k)` by `_twins_s` / `_twins_r` -/
def isTwin (R : List (List Bool)) (nR : List Nat) (j k : Nat) : Bool :=
  match R[j]?, R[k]?, nR[j]?, nR[k]? with
  | some rj, some rk, some a, some b => a == b && a != 1 && sameRow rj rk
  | _, _, _, _ => false

/-- pairs found in iteration `j`: `for k in range(j - min_dist): if <twin>` -/
def pairsFor (md : Nat) (tw : Nat → Nat → Bool) (j : Nat) : List (Nat × Nat) :=
  ((List.range (j - md)).filter (tw j)).map fun k => (j, k)

def allPairs (n md : Nat) (tw : Nat → Nat → Bool) : List (Nat × Nat) :=
  (List.range n).flatMap (pairsFor md tw)

/-- `twins[j].append(k); twins[k].append(j)` -/
def addPair (t : List (List Nat)) (p : Nat × Nat) : List (List Nat) :=
  (t.modify p.1 (· ++ [p.2])).modify p.2 (· ++ [p.1])

/-- the twin lists after the double loop -/
def twinLists (n md : Nat) (tw : Nat → Nat → Bool) : List (List Nat) :=
  (allPairs n md tw).foldl addPair (List.replicate n [])

/-- `_twins_s` for one series (embedding given) -/
def twinsS (thr : Rat) (md : Nat) (emb : List (List Rat)) : List (List Nat) :=
  let R := recMatrix thr emb
  twinLists emb.length md (isTwin R (rowCounts R))

/-- `_twins_r` (kernel boundary: `R` and `nR` are arguments); the kernel appends
one extra empty list before the loop, so `N + 1` lists come back. -/
def twinsR (md n : Nat) (R : List (List Bool)) (nR : List Nat) : List (List Nat) :=
  twinLists n md (isTwin R nR) ++ [[]]

/-- `RecurrencePlot.twins(min_dist)`: `nR = R.sum(axis=1)`, then the kernel -/
def rpTwins (md : Nat) (R : List (List Bool)) : List (List Nat) :=
  twinsR md R.length R (rowCounts R)

/-- the pinned code before `fix: … counted neighbours along columns` (`axis=0`);
kept for the witness in `Properties/C15.lean` that this misses twins -/
def rpTwinsColumns (md : Nat) (R : List (List Bool)) : List (List Nat) :=
  twinsR md R.length R (colCounts R)

/-! ### 4. the twin walk -/

/-- `int(floor(random.random() * m))` for the `c`-th value `u c` of the stream -/
def floorPick (u : Nat → Rat) (c m : Nat) : Nat := ((u c) * (m : Rat)).floor.toNat

/-- one pass through the body of `while j < N` after the assignment of state `k`:
the next `k` and the advanced stream cursor; `none` = IndexError (never, see
`walk_total`). -/
def next (N : Nat) (tw : List (List Nat)) (pick : Nat → Nat → Nat) (k c : Nat) :
    Option (Nat × Nat) :=
  match tw[k]? with
  | none => none
  | some twk =>
    let nt := twk.length
    let kc : Option (Nat × Nat) :=
      if nt = 0 then some (k + 1, c)
      else
        let r := pick c (nt + 1)
        if r = nt then some (k + 1, c + 1)
        else match twk[r]? with
          | some t => some (t + 1, c + 1)
          | none => none
    match kc with
    | none => none
    | some (k', c') =>
      if k' ≥ N then
        -- `while True: new_k = …; if new_k != k: break` — `new_k < N ≤ k`, so the
        -- first draw is accepted (`none` stands for a second round, never needed)
        let nk := pick c' N
        if nk ≠ k' then some (nk, c' + 1) else none
      else some (k', c')

/-- `fuel` remaining iterations of `while j < N`: the indices assigned and the
final cursor -/
def walkFrom (N : Nat) (tw : List (List Nat)) (pick : Nat → Nat → Nat) :
    Nat → Nat → Nat → Option (List Nat × Nat)
  | 0, _, c => some ([], c)
  | f + 1, k, c =>
    if k < N then
      match next N tw pick k c with
      | none => none
      | some (k', c') =>
        match walkFrom N tw pick f k' c' with
        | none => none
        | some (l, c'') => some (k :: l, c'')
    else none  -- IndexError on `original_data[i, k]`

/-- one surrogate trajectory: random start, then `N` steps -/
def walkRow (N : Nat) (tw : List (List Nat)) (pick : Nat → Nat → Nat) (c : Nat) :
    Option (List Nat × Nat) :=
  walkFrom N tw pick N (pick c N) (c + 1)

/-- `_twin_surrogates_s`: one trajectory per series, the stream shared -/
def walkRows (N : Nat) (pick : Nat → Nat → Nat) :
    List (List (List Nat)) → Nat → Option (List (List Nat) × Nat)
  | [], c => some ([], c)
  | tw :: rest, c =>
    match walkRow N tw pick c with
    | none => none
    | some (l, c') =>
      match walkRows N pick rest c' with
      | none => none
      | some (ls, c'') => some (l :: ls, c'')

/-- `_twin_surrogates_r`: `n_surrogates` trajectories on one twin table -/
def walkRep (N : Nat) (tw : List (List Nat)) (pick : Nat → Nat → Nat) (ns c : Nat) :
    Option (List (List Nat) × Nat) :=
  walkRows N pick (List.replicate ns tw) c

/-- `Surrogates.twin_surrogates(dimension, delay, threshold, min_dist)`:
embed, find twins per series, walk, read `original_data[i, k]`. -/
def twinSurrogates (data : List (List Rat)) (dim delay : Nat) (thr : Rat) (md : Nat)
    (pick : Nat → Nat → Nat) : Option (List (List Rat)) :=
  match data.mapM (embed · dim delay) with
  | none => none
  | some embs =>
    let nT := (data.headD []).length - (dim - 1) * delay
    match walkRows nT pick (embs.map (twinsS thr md)) 0 with
    | none => none
    | some (idx, _) => rowsM gather data idx

end Pyunicorn.Surrogates
