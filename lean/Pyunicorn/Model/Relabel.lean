import Pyunicorn.Model.Net
import Pyunicorn.Model.Cross
import Pyunicorn.Model.Circuit
import Pyunicorn.Model.Geo
import Pyunicorn.Model.Recurrence
/-
Renumbering of the nodes (C04) for the models of the other properties: `Pyunicorn.Net` (C03:
degrees, motif clustering, BFS distances, path measures, coreness peeling), `Pyunicorn.Cross`
(C11: cross / internal measures with node-list arguments), `Pyunicorn.Circuit` (C18: resistive
networks), `Pyunicorn.Geo` (C12: grid distances, link-distance measures) and
`Pyunicorn.Recurrence` (C07: recurrence matrices of state vectors).

`Network.permuted_copy(idx)` builds the network whose node `a` is the old node `idx[a]`:
`adjacency[idx][:, idx]`, `node_weights[idx]`, link attributes likewise; a spatial network is
renumbered by renumbering the coordinate sequences of its grid, a recurrence network by
reordering its state vectors; node-list arguments are renumbered with the inverse permutation
(old node `k` has the new number `inv k`).  Core Lean only (linked into the C04 driver).
-/
namespace Pyunicorn.Relabel

/-- `M[idx][:, idx]` -/
def mat {α : Type} (M : Nat → Nat → α) (idx : Nat → Nat) : Nat → Nat → α :=
  fun i j => M (idx i) (idx j)

/-- `w[idx]` -/
def vec {α : Type} (w : Nat → α) (idx : Nat → Nat) : Nat → α := fun i => w (idx i)

/-- coordinate sequences `x[:, idx]` (first index = dimension) -/
def cols {α : Type} (x : Nat → Nat → α) (idx : Nat → Nat) : Nat → Nat → α := fun k i => x k (idx i)

/-- a per-node result array `v` read in the new numbering: `v[idx]` -/
def nodeList {α : Type} (n : Nat) (idx : Nat → Nat) (d : α) (l : List α) : List α :=
  (List.range n).map fun v => l.getD (idx v) d

/-- a per-pair result array in the new numbering: `M[idx][:, idx]` on nested lists -/
def pairList {α : Type} (n : Nat) (idx : Nat → Nat) (d : α) (M : List (List α)) : List (List α) :=
  (List.range n).map fun a => (List.range n).map fun b => (M.getD (idx a) []).getD (idx b) d

/-- state vectors reordered: row `a` of the new trajectory is row `idx a` of the old one -/
def rows {α : Type} (n : Nat) (idx : Nat → Nat) (emb : List (List α)) : List (List α) :=
  (List.range n).map fun a => emb.getD (idx a) []

/-- the new number of the old node `k` (`np.argsort(idx)[k]`): the first `a < n` with
`idx a = k` -/
def inv (n : Nat) (idx : Nat → Nat) (k : Nat) : Nat :=
  ((List.range n).find? fun a => idx a == k).getD 0

/-- a node list in the new numbering -/
def nodes (n : Nat) (idx : Nat → Nat) (L : List Nat) : List Nat := L.map (inv n idx)

end Pyunicorn.Relabel
