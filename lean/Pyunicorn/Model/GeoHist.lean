import Pyunicorn.Model.Geo
/-
Round 3 additions to the model of the grid geometry code (property C12): the
area-weighted and distance histograms and the neighbour statistics of the
area-weighted connectivity.  Core Lean only.

Anchors (pyunicorn working tree):
* `core/geo_network.py`      `geographical_distribution`, `geographical_cumulative_distribution`
                             (and the six `*area_weighted_connectivity_*distribution` wrappers),
                             `average_neighbor_area_weighted_connectivity`,
                             `max_neighbor_area_weighted_connectivity`
* `core/grid.py`             `geometric_distance_distribution`
* `core/spatial_network.py`  `link_distance_distribution`
* `core/network.py`          `Network._histogram` (the part `link_distance_distribution` uses)
-/
namespace Pyunicorn.Geo

section Hist
variable {α : Type} [Add α] [Mul α] [Sub α] [Div α] [OfNat α 0] [OfNat α 1] [NatCast α]
  [LT α] [DecidableLT α] [LE α] [DecidableLE α] [DecidableEq α]

/-- `ndarray.min()`: `none` models numpy's `ValueError` on a zero-size array -/
def minRow : List α → Option α
  | [] => none
  | x :: xs => some (xs.foldl (fun m y => if y < m then y else m) x)

/-- `int(t)` (`astype("int")`) of a non-negative number not exceeding `bound`, as the number
of positive integers `k ≤ bound` with `k ≤ t` -/
def natFloor (bound : Nat) (t : α) : Nat :=
  ((List.range bound).filter fun k => ((k + 1 : Nat) : α) ≤ t).length

/-- `symbolic[i]` of `geographical_distribution`:
`int((n_bins - 1) * scaling * (sequence[i] - range_min))`, `scaling = 1. / (range_max - range_min)`.
The bound passed to `natFloor` is `n_bins` (one more than the largest valid bin), so that an
index that would leave the histogram stays visible. -/
def geoSymbol (nb : Nat) (lo hi x : α) : Nat :=
  natFloor nb (((nb - 1 : Nat) : α) * (1 / (hi - lo)) * (x - lo))

/-- `GeoNetwork.geographical_distribution(sequence, n_bins)[0]` with `w = cos_lat`:
`hist[symbolic[i]] += cos_lat[i]` for every node, then `hist /= cos_lat.sum()`.
Errors: `ValueError` (`min` of an empty sequence), `ZeroDivisionError` (constant sequence:
`1. / (range_max - range_min)` on Python floats), `IndexError` (a symbol `≥ n_bins`; proved
impossible), `nonfinite` (total weight zero: numpy divides and warns). -/
def geoDist (w : Nat → α) (seq : List α) (nb : Nat) : Except String (List α) :=
  match minRow seq, maxRow seq with
  | some lo, some hi =>
    if hi - lo = 0 then .error "ZeroDivisionError"
    else
      let syms := seq.map (geoSymbol nb lo hi)
      if syms.any (fun s => decide (nb ≤ s)) then .error "IndexError"
      else
        let N := seq.length
        let norm := sumTo N w
        if norm = 0 then .error "nonfinite"
        else .ok ((List.range nb).map fun b =>
          sumTo N (fun i => if syms.getD i 0 = b then w i else 0) / norm)
  | _, _ => .error "ValueError"

/-- `geographical_cumulative_distribution`: `cumu_dist[i] = dist[i:].sum()` -/
def cumFrom (dist : List α) : List α :=
  (List.range dist.length).map fun i => (dist.drop i).foldl (· + ·) 0

/-- `average_neighbor_area_weighted_connectivity`: `A * awc` divided by `degree` where that
is not zero (`A = undirected_adjacency()`, `degree = degree()`) -/
def avgNbAWC (awc deg : Nat → α) (A : Nat → Nat → α) (N i : Nat) : α :=
  let s := sumTo N (fun j => A i j * awc j)
  if deg i = 0 then s else s / deg i

/-- `max_neighbor_area_weighted_connectivity`: `awc[A[i, :] == 1].max()`; `none` is numpy's
`ValueError` for a node without neighbours -/
def maxNbAWC (awc : Nat → α) (A : Nat → Nat → α) (N i : Nat) : Option α :=
  maxRow (((List.range N).filter fun j => A i j = 1).map awc)

/-! ### `np.histogram` with uniform bins -/

/-- bin of `v`: the number of interior edges `edge 1 … edge (nb-1)` that are `≤ v`
(numpy computes a candidate index and corrects it against the edges, so the result is
exactly this) -/
def binOf (nb : Nat) (edge : Nat → α) (v : α) : Nat :=
  ((List.range (nb - 1)).filter fun k => edge (k + 1) ≤ v).length

/-- the edges `np.linspace(lo, hi, nb + 1)` -/
def linEdge (nb : Nat) (lo hi : α) (k : Nat) : α := lo + (k : α) * (hi - lo) / (nb : α)

/-- `np.histogram(vals, bins=nb, range=(lo, hi))[0]`; a degenerate range `lo = hi` is widened
to `(lo - 1/2, hi + 1/2)`; values outside the range are dropped -/
def histCounts (nb : Nat) (lo hi : α) (vals : List α) : List Nat :=
  let half : α := 1 / (1 + 1)
  let lo' := if lo = hi then lo - half else lo
  let hi' := if lo = hi then hi + half else hi
  let kept := vals.filter fun v => lo' ≤ v ∧ v ≤ hi'
  (List.range nb).map fun b => (kept.filter fun v => binOf nb (linEdge nb lo' hi') v = b).length

/-- all entries of the `N × N` block, row-major (`D.flatten()`) -/
def flat (D : Nat → Nat → α) (N : Nat) : List α :=
  (List.range N).flatMap fun i => (List.range N).map fun j => D i j

/-- `Grid.geometric_distance_distribution(n_bins)`, the integer part: histogram of all `N²`
distances over `(0, D.max())`, then `dist[0] -= self.N` -/
def geomCounts (D : Nat → Nat → α) (N nb : Nat) : Except String (List Int) :=
  if nb = 0 then .error "ValueError"
  else match maxRow (flat D N) with
    | none => .error "ValueError"
    | some mx =>
      let c := histCounts nb 0 mx (flat D N)
      .ok ((List.range nb).map fun b => (c.getD b 0 : Int) - (if b = 0 then (N : Int) else 0))

/-- `SpatialNetwork.link_distance_distribution`, the integer part: histogram of `D[A == 1]`
over `(0, D.max())` -/
def linkCounts (D A : Nat → Nat → α) (N nb : Nat) : Except String (List Nat) :=
  if nb = 0 then .error "ValueError"
  else match maxRow (flat D N) with
    | none => .error "ValueError"
    | some mx =>
      let vals := (List.range N).flatMap fun i =>
        ((List.range N).filter fun j => A i j = 1).map fun j => D i j
      .ok (histCounts nb 0 mx vals)

end Hist

/-! ### the normalisations (exact rationals) -/

/-- `dist / dist.sum()`; `none` where numpy produces `nan` / `inf` (zero sum) -/
def normalize (c : List Rat) : Option (List Rat) :=
  let s := c.foldl (· + ·) 0
  if s = 0 then none else some (c.map (· / s))

/-- `geometric_distance_distribution(n_bins)[0]` -/
def geomDistDist (D : Nat → Nat → Rat) (N nb : Nat) : Except String (Option (List Rat)) :=
  (geomCounts D N nb).map fun c => normalize (c.map fun (k : Int) => (k : Rat))

/-- `link_distance_distribution(n_bins, geometry_corrected)[0]`: relative frequencies
(`Network._histogram`) of the link distances `D` (`euclidean_distance()` or
`angular_distance()`, by `grid_type`), optionally divided bin by bin by the geometric
distribution of `Dg = grid.distance()` (for a `GeoGrid` always the angular distances, whatever
`grid_type` says), then normalised again; `none` where numpy produces non-finite values -/
def linkDistDist (D Dg A : Nat → Nat → Rat) (N nb : Nat) (corrected : Bool) :
    Except String (Option (List Rat)) := do
  let c ← linkCounts D A N nb
  let rel := normalize (c.map fun (k : Nat) => (k : Rat))
  if corrected then
    let g ← geomDistDist Dg N nb
    pure (match rel, g with
      | some r, some gd =>
          if gd.any (· = 0) then none
          else normalize ((r.zip gd).map fun p => p.1 / p.2)
      | _, _ => none)
  else
    pure (rel.bind normalize)

end Pyunicorn.Geo
