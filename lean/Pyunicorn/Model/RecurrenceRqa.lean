import Pyunicorn.Model.RecurrenceObjects
import Pyunicorn.Model.LineDist
/-
Which quantification methods are defined on which construction (property C07: "every
quantification method is applicable to each of them"), and the two scalar measures whose
denominators are sizes the objects report.

Every public method of the recurrence classes that is not a setter is classified by what it
reads (`Need`); `outcome` is what a call does: it returns, or it raises one of the two
*documented* errors (`NotImplementedError`: line distributions / twins of a cross recurrence
plot, the limits of sequential RQA; `ValueError`: permutation / complexity entropy without a
delay embedding).  `harness/c07.py` calls every public method of every class on live objects
and compares with `outcome` on every run.  Core Lean only.
-/
namespace Pyunicorn.Recurrence
open Pyunicorn.Generated

/-- the class of the object (`InterSystemRecurrenceNetwork` has its own nine methods, all of
which only read the stored blocks; it is `isrn`) -/
inductive Cls | rp | crp | jrp | rn | jrn | isrn
deriving DecidableEq, Repr

/-- what a method reads -/
inductive Need
  /-- the stored matrix and `N` (`recurrence_matrix`, `recurrence_rate` of the composed
  classes, `balance`, ISRN rates / cross clustering) -/
  | matrix
  /-- `RecurrencePlot.recurrence_rate` (matrix, or the vertical lines in sequential mode) -/
  | rate
  /-- `np.diag(R, lag)`: `recurrence_probability` -/
  | diagOf
  /-- black diagonal / vertical lines (`diagline_dist`, `vertline_dist` and every measure
  built on them, `rqa_summary`, the resampling methods) -/
  | blackLines
  /-- white vertical lines (`white_vertline_dist`, recurrence times, their entropy) -/
  | whiteLines
  /-- `twins`, `twin_surrogates` -/
  | twins
  /-- `permutation_entropy`, `complexity_entropy`: the ordinal patterns of a delay embedding -/
  | ordinal
  /-- the distance matrices of the current embedding -/
  | distance
deriving DecidableEq, Repr

inductive Outcome | ok | notImplemented | valueError
deriving DecidableEq, Repr

structure Cfg where
  cls : Cls
  /-- `sparse_rqa=True` (only `RecurrencePlot` takes the switch) -/
  sparse : Bool
  /-- supremum metric and a fixed `threshold` given: what sequential RQA supports -/
  supThr : Bool
  /-- `dim` and `tau` were both given to `RecurrencePlot` / `RecurrenceNetwork` -/
  embedded : Bool

def outcome (c : Cfg) : Need → Outcome
  | .matrix => .ok
  | .distance => .ok
  | .ordinal =>
    match c.cls with
    | .rp | .rn => if c.embedded then .ok else .valueError
    | _ => .valueError                       -- the composed classes never pass `dim`, `tau` on
  | .rate =>
    if c.cls = .rp ∧ c.sparse then (if c.supThr then .ok else .notImplemented) else .ok
  | .blackLines =>
    match c.cls with
    | .crp => .notImplemented
    | .rp => if c.sparse then (if c.supThr then .ok else .notImplemented) else .ok
    | _ => .ok
  | .whiteLines | .twins =>
    match c.cls with
    | .crp => .notImplemented
    | .rp => if c.sparse then .notImplemented else .ok
    | _ => .ok
  | .diagOf =>
    if c.cls = .rp ∧ c.sparse then .notImplemented else .ok

/-! ### the scalar measures with generated denominators -/

def countMat (R : List (List Bool)) : Nat := countTrue R.flatten

/-- `RecurrencePlot.recurrence_rate`: `R.sum() / N ** 2` (`none`: NumPy's `nan` / `inf` for a
zero denominator — no exception) -/
def recurrenceRate (R : List (List Bool)) (N : Int) : Option Rat :=
  if ArithC07.rrDenom N = 0 then none else some ((countMat R : Rat) / (ArithC07.rrDenom N : Rat))

/-- `CrossRecurrencePlot.cross_recurrence_rate`: `float(CR.sum()) / (N * M)` —
`none` = `ZeroDivisionError` (Python floats) -/
def crossRecurrenceRate (R : List (List Bool)) (N M : Int) : Option Rat :=
  if ArithC07.crrDenom N M = 0 then none
  else some ((countMat R : Rat) / (ArithC07.crrDenom N M : Rat))

/-- `np.diag(R, lag)` for `lag ≥ 0` -/
def diagAt (R : List (List Bool)) (lag : Nat) : List Bool :=
  (List.range (R.length - lag)).map fun i => (R.getD i []).getD (i + lag) false

/-- `RecurrencePlot.recurrence_probability(lag)`: `np.sum(np.diag(R, lag)) / float(N - lag)` -/
def recurrenceProbability (R : List (List Bool)) (N : Int) (lag : Nat) : Option Rat :=
  if ArithC07.rprobDenom N lag = 0 then none
  else some ((countTrue (diagAt R lag) : Rat) / (ArithC07.rprobDenom N lag : Rat))

/-! ### sequential RQA: the line histograms of the matrix the sequential kernels see
(`LineDist` is the model of `_line_dist`, property C08) -/

def sparseVertline (emb : List (List V)) (eps : Rat) (mv : Bool) : List Nat :=
  if mv then LineDist.vertlineMV (sparseMatrix emb eps) (missingMask emb) emb.length
  else LineDist.vertline (sparseMatrix emb eps) emb.length

def sparseDiagline (emb : List (List V)) (eps : Rat) (mv : Bool) : List Nat :=
  if mv then LineDist.diaglineMV (sparseMatrix emb eps) (missingMask emb) emb.length
  else LineDist.diagline (sparseMatrix emb eps) emb.length

/-! ### round 4: `RecurrencePlot.diagline_dist` as the method computes it — `2 * diagline`, where the
kernel (`Model/LineDist.lean`, property C08) scans the sub-diagonals `I > j` only ("Function just
runs over the upper triangular matrix").  On an asymmetric matrix (fixed local recurrence rate)
this is twice the line count of the lower triangle, not the count over all diagonals. -/

def diaglineDist (R : List (List Bool)) (N : Nat) (mask : Option (List Bool)) : List Nat :=
  (match mask with
   | none => LineDist.diagline R N
   | some M => LineDist.diaglineMV R M N).map (2 * ·)

/-- line counts over *all* off-main diagonals: those of the lower triangle of `R` and those of the
lower triangle of `Rᵀ` -/
def diaglineAll (R : List (List Bool)) (N : Nat) : List Nat :=
  List.zipWith (· + ·) (LineDist.diagline R N)
    (LineDist.diagline (tab N N fun i j => LineDist.Mat.at R j i) N)

end Pyunicorn.Recurrence
