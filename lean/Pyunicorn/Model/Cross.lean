import Pyunicorn.Model.Net
/-
Model of the cross / internal measures of `InteractingNetworks`
(src/pyunicorn/core/interacting_networks.py:381-1836) and of the four compiled
kernels `_cross_transitivity`, `_nsi_cross_transitivity`,
`_cross_local_clustering`, `_nsi_cross_local_clustering`
(src/pyunicorn/core/_ext/numerics.pyx:200-310) together with their pure-Python
`_sparse` twins.  Core Lean only (no Mathlib) so that the driver links.

Matrices are functions `Nat → Nat → α` (the driver checks `node < N` for every
node of every list before calling anything here and answers `raise:IndexError`
otherwise, as numpy / the bounds-checked kernels do); node groups are lists of
node numbers in the *caller's order*.  Path lengths are `Option Rat`
(`none` = `inf`).
-/
namespace Pyunicorn.Cross

abbrev Adj := Nat → Nat → Bool
abbrev Dist := Nat → Nat → Option Rat

def b2n (b : Bool) : Nat := if b then 1 else 0

/-- `M[L1, :][:, L2]` -/
def block {α : Type} (M : Nat → Nat → α) (L1 L2 : List Nat) : List (List α) :=
  L1.map fun a => L2.map fun b => M a b

/-- 0/1 block of the adjacency matrix: `cross_adjacency`, `cross_adjacency_sparse` -/
def blockN (A : Adj) (L1 L2 : List Nat) : List (List Nat) := block (fun a b => b2n (A a b)) L1 L2

/-- `np.sum(B, axis=1)` -/
def rowSums {α : Type} [Add α] [Zero α] (B : List (List α)) : List α := B.map List.sum

/-- `np.sum(B, axis=0)` for a matrix with `w` columns -/
def colSums {α : Type} [Add α] [Zero α] (w : Nat) (B : List (List α)) : List α :=
  B.foldl (fun acc r => List.zipWith (· + ·) acc r) (List.replicate w 0)

/-! ### degrees and link counts (interacting_networks.py:593-733, 1077-1249) -/

/-- `cross_outdegree(L1, L2)` = row sums of `cross_adjacency(L1, L2)` -/
def crossOutDegree (A : Adj) (L1 L2 : List Nat) : List Nat := rowSums (blockN A L1 L2)

/-- `cross_indegree(L1, L2)` = column sums of `cross_adjacency(L2, L1)` -/
def crossInDegree (A : Adj) (L1 L2 : List Nat) : List Nat := colSums L1.length (blockN A L2 L1)

/-- `cross_degree` -/
def crossDegree (directed : Bool) (A : Adj) (L1 L2 : List Nat) : List Nat :=
  if directed then List.zipWith (· + ·) (crossInDegree A L1 L2) (crossOutDegree A L1 L2)
  else crossOutDegree A L1 L2

/-- strengths: the same with a link attribute matrix -/
def crossOutStrength (W : Nat → Nat → Rat) (L1 L2 : List Nat) : List Rat := rowSums (block W L1 L2)
def crossInStrength (W : Nat → Nat → Rat) (L1 L2 : List Nat) : List Rat :=
  colSums L1.length (block W L2 L1)
def crossStrength (directed : Bool) (W : Nat → Nat → Rat) (L1 L2 : List Nat) : List Rat :=
  if directed then List.zipWith (· + ·) (crossInStrength W L1 L2) (crossOutStrength W L1 L2)
  else crossOutStrength W L1 L2

/-- `number_cross_links` (undirected only; the directed case raises `NetworkError`) -/
def numberCrossLinks (A : Adj) (L1 L2 : List Nat) : Nat := (rowSums (blockN A L1 L2)).sum

/-- `cross_link_density`; `none` = `ZeroDivisionError` -/
def crossLinkDensity (A : Adj) (L1 L2 : List Nat) : Option Rat :=
  if L1.length * L2.length = 0 then none
  else some ((numberCrossLinks A L1 L2 : Rat) / ((L1.length * L2.length : Nat) : Rat))

/-- `internal_adjacency(L)`: sub-block in list order -/
def internalAdjacency (A : Adj) (L : List Nat) : List (List Nat) := blockN A L L

/-- `number_internal_links` -/
def numberInternalLinks (directed : Bool) (A : Adj) (L : List Nat) : Nat :=
  let s := (rowSums (internalAdjacency A L)).sum
  if directed then s else s / 2

/-- `internal_link_density`; `none` = `ZeroDivisionError` -/
def internalLinkDensity (directed : Bool) (A : Adj) (L : List Nat) : Option Rat :=
  let n := L.length
  if n * (n - 1) = 0 then none
  else
    let l : Rat := (numberInternalLinks directed A L : Rat)
    some ((if directed then l else 2 * l) / ((n * (n - 1) : Nat) : Rat))

/-- mean of a list, `none` = nan (empty) -/
def mean (l : List Rat) : Option Rat := if l.length = 0 then none else some (l.sum / (l.length : Rat))

def natsToRat (l : List Nat) : List Rat := l.map fun (n : Nat) => (n : Rat)

/-- `cross_degree_density` (`N2 = 0` gives inf/nan: `none`) -/
def crossDegreeDensity (directed : Bool) (A : Adj) (L1 L2 : List Nat) : Option (List Rat) :=
  if L2.length = 0 then none
  else some ((crossDegree directed A L1 L2).map fun (d : Nat) => (d : Rat) / (L2.length : Rat))

/-! ### `_cross_transitivity` (numerics.pyx:200-225) -/

/-- `for k in range(j)` : `pre = nodes2[0..j)` ; state `(triangles, triples)` -/
def ctInner (A : Adj) (n1 n2 : Nat) (pre : List Nat) (acc : Nat × Nat) : Nat × Nat :=
  pre.foldl (fun acc n3 =>
    let trp := if A n1 n3 then acc.2 + 1 else acc.2
    let tri := if A n2 n3 && A n3 n1 then acc.1 + 1 else acc.1
    (tri, trp)) acc

/-- `for j in range(n)` with `nodes2 = pre ++ rest` -/
def ctMid (A : Adj) (n1 : Nat) : List Nat → List Nat → Nat × Nat → Nat × Nat
  | _, [], acc => acc
  | pre, n2 :: rest, acc =>
      ctMid A n1 (pre ++ [n2]) rest (if A n1 n2 then ctInner A n1 n2 pre acc else acc)

/-- `(triangles, triples)` after the outer loop -/
def ctCounts (A : Adj) (L1 L2 : List Nat) : Nat × Nat :=
  L1.foldl (fun acc n1 => ctMid A n1 [] L2 acc) (0, 0)

def ratio (p : Nat × Nat) : Rat := if p.2 ≠ 0 then (p.1 : Rat) / (p.2 : Rat) else 0

def crossTransitivity (A : Adj) (L1 L2 : List Nat) : Rat := ratio (ctCounts A L1 L2)

/-! ### `cross_transitivity_sparse` (interacting_networks.py:895-923): works on
positions of the concatenated list `node_list1 + node_list2` -/

def catAdj (A : Adj) (L1 L2 : List Nat) : Adj :=
  fun p q => A ((L1 ++ L2).getD p 0) ((L1 ++ L2).getD q 0)

def ctSparseCounts (deg : List Nat) (A : Adj) (L1 L2 : List Nat) : Nat × Nat :=
  let A' := catAdj A L1 L2
  let N1 := L1.length
  let N2 := L2.length
  (List.range N1).foldl (fun acc i =>
    if deg.getD i 0 > 1 then
      (List.range' N1 N2).foldl (fun acc j =>
        (List.range' N1 (j - N1)).foldl (fun acc k =>
          if A' i j && A' i k then
            (if A' j k then acc.1 + 1 else acc.1, acc.2 + 1)
          else acc) acc) acc
    else acc) (0, 0)

def crossTransitivitySparse (directed : Bool) (A : Adj) (L1 L2 : List Nat) : Rat :=
  ratio (ctSparseCounts (crossDegree directed A L1 L2) A L1 L2)

/-! ### `_cross_local_clustering` (numerics.pyx:260-285) and the method around it -/

def clcInner (A : Adj) (n1 n2 : Nat) (pre : List Nat) (c : Nat) : Nat :=
  pre.foldl (fun c n3 => if A n2 n3 && A n3 n1 then c + 1 else c) c

def clcMid (A : Adj) (n1 : Nat) : List Nat → List Nat → Nat → Nat
  | _, [], c => c
  | pre, n2 :: rest, c =>
      clcMid A n1 (pre ++ [n2]) rest (if A n1 n2 then clcInner A n1 n2 pre c else c)

/-- the kernel: `norm[i]` is passed in; entries with `norm[i] = 0` keep their initial 0 -/
def clcKernel (A : Adj) (norm : List Rat) (L1 L2 : List Nat) : List Rat :=
  List.zipWith (fun n1 nm => if nm ≠ 0 then ((clcMid A n1 [] L2 0 : Nat) : Rat) / nm else 0) L1 norm

/-- `norm = cross_degree * (cross_degree - 1) / 2.` -/
def clcNorm (deg : List Nat) : List Rat := deg.map fun (d : Nat) => ((d : Rat) * ((d : Rat) - 1)) / 2

def crossLocalClustering (directed : Bool) (A : Adj) (L1 L2 : List Nat) : List Rat :=
  clcKernel A (clcNorm (crossDegree directed A L1 L2)) L1 L2

def crossGlobalClustering (directed : Bool) (A : Adj) (L1 L2 : List Nat) : Option Rat :=
  mean (crossLocalClustering directed A L1 L2)

/-- `cross_local_clustering_sparse` (interacting_networks.py:1323-1349) -/
def clcSparse (directed : Bool) (A : Adj) (L1 L2 : List Nat) : List Rat :=
  let A' := catAdj A L1 L2
  let N1 := L1.length
  let N2 := L2.length
  let norm := clcNorm (crossDegree directed A L1 L2)
  (List.range N1).map fun i =>
    let nm := norm.getD i 0
    if nm ≠ 0 then
      let c := (List.range' N1 N2).foldl (fun c j =>
        (List.range' N1 (j - N1)).foldl (fun c k =>
          if A' i j && A' j k && A' k i then c + 1 else c) c) 0
      ((c : Nat) : Rat) / nm
    else 0

/-! ### path-length based measures (interacting_networks.py:925-1071, 1351-1529) -/

def countNone (B : List (List (Option Rat))) : Nat :=
  (B.map fun r => (r.filter Option.isNone).length).sum

def sumFinite (B : List (List (Option Rat))) : Rat :=
  (B.map fun r => (r.map fun x => x.getD 0).sum).sum

/-- `_calculate_general_average_path_length(block, internal)` on an `N × M` block;
`none` = division by zero (numpy returns nan/inf with a warning) -/
def generalAPL (N M : Nat) (B : List (List (Option Rat))) (internal : Bool) : Option Rat :=
  let unc := countNone B
  let norm : Int := (if internal then ((N : Int) - 1) * M else (N : Int) * M) - unc
  if norm = 0 then none else some (sumFinite B / (norm : Rat))

def crossAPL (D : Dist) (L1 L2 : List Nat) : Option Rat :=
  generalAPL L1.length L2.length (block D L1 L2) false

def internalAPL (D : Dist) (L : List Nat) : Option Rat :=
  generalAPL L.length L.length (block D L L) true

/-- `_calculate_general_closeness`: unreachable pairs count as `nNodes - 1`,
rows with zero sum get closeness 0 -/
def generalCloseness (nNodes : Nat) (norm : Int) (B : List (List (Option Rat))) : List Rat :=
  B.map fun r =>
    let s := (r.map fun x => x.getD (((nNodes : Int) - 1 : Int) : Rat)).sum
    if s ≠ 0 then (norm : Rat) / s else 0

/-- `cross_closeness`: `n_nodes = self.N`, `norm = M` -/
def crossCloseness (N : Nat) (D : Dist) (L1 L2 : List Nat) : List Rat :=
  generalCloseness N (L2.length : Int) (block D L1 L2)

/-- `internal_closeness`: `n_nodes = len(L)`, `norm = M - 1` -/
def internalCloseness (D : Dist) (L : List Nat) : List Rat :=
  generalCloseness L.length ((L.length : Int) - 1) (block D L L)

/-- `1/d` with `1/inf = 0` -/
def invD : Option Rat → Rat
  | none => 0
  | some d => 1 / d

/-- `local_efficiency`: row means of `1/d` (`1/inf = 0`); `none` if some `d = 0` or `L2 = []` -/
def localEfficiency (D : Dist) (L1 L2 : List Nat) : Option (List Rat) :=
  let B := block D L1 L2
  if L2.length = 0 ∨ B.any (fun r => r.any (· == some 0)) then none
  else some (B.map fun r =>
    (r.map invD).sum / (L2.length : Rat))

/-! ### n.s.i. measures (interacting_networks.py:1531-1836) -/

/-- `(adjacency + eye)[a, b]` as a truth value -/
def aplus (A : Adj) : Adj := fun a b => A a b || a == b

/-- `nsi_cross_degree` -/
def nsiCrossDegree (A : Adj) (w : Nat → Rat) (L1 L2 : List Nat) : List Rat :=
  L1.map fun a => (L2.map fun b => if aplus A a b then w b else 0).sum

def wsum (w : Nat → Rat) (L : List Nat) : Rat := (L.map w).sum

/-- `nsi_cross_mean_degree`; `none` = division by zero weight -/
def nsiCrossMeanDegree (A : Adj) (w : Nat → Rat) (L1 L2 : List Nat) : Option Rat :=
  let W := wsum w L1
  if W = 0 then none
  else some ((List.zipWith (· * ·) (nsiCrossDegree A w L1 L2) (L1.map w)).sum / W)

/-- `nsi_cross_edge_density` -/
def nsiCrossEdgeDensity (A : Adj) (w : Nat → Rat) (L1 L2 : List Nat) : Option Rat :=
  match nsiCrossMeanDegree A w L1 L2 with
  | none => none
  | some m => if wsum w L2 = 0 then none else some (m / wsum w L2)

/-- `_nsi_cross_local_clustering` kernel (numerics.pyx:288-310); `Ap = A + I` is passed in -/
def nsiClcInner (Ap : Adj) (w : Nat → Rat) (v p : Nat) (rest : List Nat) (s : Rat) : Rat :=
  rest.foldl (fun s q => if Ap p q && Ap q v then s + 2 * w p * w q else s) s

def nsiClcMid (Ap : Adj) (w : Nat → Rat) (v : Nat) : List Nat → Rat → Rat
  | [], s => s
  | p :: rest, s =>
      nsiClcMid Ap w v rest (if Ap v p then nsiClcInner Ap w v p rest (s + w p * w p) else s)

def nsiClcKernel (Ap : Adj) (w : Nat → Rat) (L1 L2 : List Nat) : List Rat :=
  L1.map fun v => nsiClcMid Ap w v L2 0

/-- `nsi_cross_local_clustering` -/
def nsiCrossLocalClustering (A : Adj) (w : Nat → Rat) (L1 L2 : List Nat) : List Rat :=
  List.zipWith (fun c k => if k * k ≠ 0 then c / (k * k) else 0)
    (nsiClcKernel (aplus A) w L1 L2) (nsiCrossDegree A w L1 L2)

/-- `nsi_cross_global_clustering` -/
def nsiCrossGlobalClustering (A : Adj) (w : Nat → Rat) (L1 L2 : List Nat) : Option Rat :=
  if wsum w L1 = 0 then none
  else some ((List.zipWith (· * ·) (L1.map w) (nsiCrossLocalClustering A w L1 L2)).sum / wsum w L1)

/-- `_nsi_cross_transitivity` kernel (numerics.pyx:228-257), state `(T1, T2)` -/
def nsiCtInner (Ap : Adj) (w : Nat → Rat) (v p : Nat) (rest : List Nat) (t : Rat × Rat) : Rat × Rat :=
  rest.foldl (fun t q =>
    if Ap v q then
      let pqv := 2 * w p * w q * w v
      (if Ap p q then t.1 + pqv else t.1, t.2 + pqv)
    else t) t

def nsiCtMid (Ap : Adj) (w : Nat → Rat) (v : Nat) : List Nat → Rat × Rat → Rat × Rat
  | [], t => t
  | p :: rest, t =>
      nsiCtMid Ap w v rest
        (if Ap v p then
          let ppv := w p * w p * w v
          nsiCtInner Ap w v p rest (t.1 + ppv, t.2 + ppv)
         else t)

def nsiCtSums (Ap : Adj) (w : Nat → Rat) (L1 L2 : List Nat) : Rat × Rat :=
  L1.foldl (fun t v => nsiCtMid Ap w v L2 t) (0, 0)

/-- `nsi_cross_transitivity`; `none` = `ZeroDivisionError` (`T2 = 0`) -/
def nsiCrossTransitivity (A : Adj) (w : Nat → Rat) (L1 L2 : List Nat) : Option Rat :=
  let t := nsiCtSums (aplus A) w L1 L2
  if t.2 = 0 then none else some (t.1 / t.2)

/-- n.s.i. distance `d + δ` with unreachable pairs set to `N - 1` -/
def nsiDist (N : Nat) (D : Dist) (a b : Nat) : Rat :=
  match D a b with
  | none => ((N : Int) - 1 : Int)
  | some d => d + (if a = b then 1 else 0)

/-- `nsi_cross_closeness_centrality`; entries `none` = division by zero -/
def nsiCrossCloseness (N : Nat) (D : Dist) (w : Nat → Rat) (L1 L2 : List Nat) : List (Option Rat) :=
  L1.map fun a =>
    let s := (L2.map fun b => nsiDist N D a b * w b).sum
    if s = 0 then none else some (wsum w L2 / s)

/-- `nsi_cross_average_path_length` as coded: `Wj = sum(node_weights[node_list1])` (sic),
unreachable pairs enter the numerator with distance `N - 1` and the denominator with
`w_a + w_b` (sic).  See `Properties/C11.lean` for what this does and does not satisfy. -/
def nsiCrossAPLParts (N : Nat) (D : Dist) (w : Nat → Rat) (L1 L2 : List Nat) : Rat × Rat :=
  let Wi := wsum w L1
  let Wj := wsum w L1
  let Wij := (L1.map fun a => (L2.map fun b =>
      if (D a b).isNone then w a + w b else 0).sum).sum
  let Lij := (L1.map fun a => (L2.map fun b => nsiDist N D a b * w b).sum * w a).sum
  (Lij, Wi * Wj - Wij)

/-- `none` = division by zero (numpy: nan or ±inf with a warning) -/
def nsiCrossAPL (N : Nat) (D : Dist) (w : Nat → Rat) (L1 L2 : List Nat) : Option Rat :=
  let p := nsiCrossAPLParts N D w L1 L2
  if p.2 = 0 then none else some (p.1 / p.2)

/-! ### means of the vector measures, efficiency (interacting_networks.py:608-627, 758-823,
1020-1066) and the single-network clustering restricted to a group (725-756) -/

/-- result of a float expression that can overflow to `inf` or be undefined -/
inductive XR where
  | val (r : Rat)
  | inf
  | nan
  deriving DecidableEq, Repr

/-- `total_cross_degree` = `np.mean(cross_degree)` -/
def totalCrossDegree (directed : Bool) (A : Adj) (L1 L2 : List Nat) : Option Rat :=
  mean (natsToRat (crossDegree directed A L1 L2))

/-- `cross_global_clustering_sparse` = mean of `cross_local_clustering_sparse` -/
def crossGlobalClusteringSparse (directed : Bool) (A : Adj) (L1 L2 : List Nat) : Option Rat :=
  mean (clcSparse directed A L1 L2)

/-- `average_cross_closeness` = `np.mean(cross_closeness)` -/
def averageCrossCloseness (N : Nat) (D : Dist) (L1 L2 : List Nat) : Option Rat :=
  mean (crossCloseness N D L1 L2)

/-- `global_efficiency` = `1 / np.mean(local_efficiency)`: a zero distance makes a local
efficiency `inf` (all terms are `≥ 0`), whose reciprocal is `0`; a zero mean gives `inf`, an
empty first group `nan` -/
def globalEfficiency (D : Dist) (L1 L2 : List Nat) : XR :=
  match localEfficiency D L1 L2 with
  | none => if L2.length = 0 then .nan else .val 0
  | some l =>
    match mean l with
    | none => .nan
    | some m => if m = 0 then .inf else .val (1 / m)

/-- `internal_global_clustering(L)` = `local_clustering()[L].mean()`: the Watts–Strogatz
clustering of the *whole* network (`Pyunicorn.Net.localClustering`, C03) averaged over the group -/
def internalGlobalClustering (n : Nat) (A : Adj) (L : List Nat) : Option Rat :=
  mean (L.map fun i => Pyunicorn.Net.localClustering n A i)

/-! ### Round 3: the single-network methods of `Network` (network.py) that the whole-network
limits of the link counts and of the n.s.i. measures refer to, *as coded*
(`Network.nsi_degree` / `nsi_local_clustering` are `Pyunicorn.Net.nsiOutdeg` /
`Pyunicorn.Net.nsiLocalClustering` of C03) -/

/-- `nz_coords(adjacency).shape[0]`: number of non-zero entries of the 0/1 matrix -/
def netNonzeros (n : Nat) (A : Adj) : Nat :=
  ((List.range n).map fun i => ((List.range n).map fun j => b2n (A i j)).sum).sum

/-- `Network.n_links` as left by the adjacency setter (network.py:419-423):
`edges.shape[0]`, halved (`//= 2`) on an undirected network -/
def netNLinks (directed : Bool) (n : Nat) (A : Adj) : Nat :=
  if directed then netNonzeros n A else netNonzeros n A / 2

/-- `Network.link_density = 1.0 * n_links / N / (N - 1)` (evaluated *before* the halving);
`none` = `ZeroDivisionError` (`N ≤ 1`) -/
def netLinkDensity (n : Nat) (A : Adj) : Option Rat :=
  if n * (n - 1) = 0 then none
  else some ((netNonzeros n A : Rat) / (n : Rat) / ((n : Rat) - 1))

/-- `A⁺` entry as a number -/
def apn (A : Adj) (i j : Nat) : Rat := if aplus A i j then 1 else 0

/-- `Network.nsi_global_clustering()` = `nsi_local_clustering().dot(node_weights) /
total_node_weight`; `none` = division by a zero total weight -/
def netNsiGlobalClustering (n : Nat) (A : Adj) (w : Nat → Rat) : Option Rat :=
  let W := ((List.range n).map w).sum
  if W = 0 then none
  else some (((List.range n).map fun i => Pyunicorn.Net.nsiLocalClustering n A w i * w i).sum / W)

/-- `Network.nsi_transitivity()` (network.py:2529-2534) with `A_Dw = A⁺ · diag(w)`:
`num = (A_Dw · A_Dw · A_Dw).diagonal().sum()`, `denum = (diag(w) · A_Dw · A_Dw).sum()`
(the innermost sum is the index of the matrix product); `none` = division by zero -/
def netNsiTransitivity (n : Nat) (A : Adj) (w : Nat → Rat) : Option Rat :=
  let R := List.range n
  let num := (R.map fun i => (R.map fun j => (R.map fun k =>
      apn A i j * w j * (apn A j k * w k) * (apn A k i * w i)).sum).sum).sum
  let den := (R.map fun i => (R.map fun j => (R.map fun k =>
      w i * (apn A i k * w k) * (apn A k j * w j)).sum).sum).sum
  if den = 0 then none else some (num / den)

/-- `Network.nsi_closeness()` (network.py:3193-3195): `W / ((D + I) · w)_i`; an `inf` in the row
makes the (non-zero weight) dot product `inf` and the closeness `0`; `none` = division by zero -/
def netNsiCloseness (n : Nat) (D : Dist) (w : Nat → Rat) (i : Nat) : Option Rat :=
  if (List.range n).any (fun j => (D i j).isNone) then some 0
  else
    let s := ((List.range n).map fun j => ((D i j).getD 0 + (if i = j then 1 else 0)) * w j).sum
    if s = 0 then none else some (((List.range n).map w).sum / s)

/-- entry of `path_lengths() + identity` with the unconnected pairs set to zero -/
def nsiDistZ (D : Dist) (i j : Nat) : Rat :=
  match D i j with
  | none => 0
  | some d => d + (if i = j then 1 else 0)

/-- `Network.nsi_average_path_length()` (network.py:2711-2722): unconnected pairs are zeroed in
`D + I` and in `outer(w, w)`; `w · (D* · w) / Σ (weight products)`; `none` = division by zero -/
def netNsiAPL (n : Nat) (D : Dist) (w : Nat → Rat) : Option Rat :=
  let R := List.range n
  let num := (R.map fun i => w i * (R.map fun j => nsiDistZ D i j * w j).sum).sum
  let den := (R.map fun i => (R.map fun j => if (D i j).isNone then 0 else w i * w j).sum).sum
  if den = 0 then none else some (num / den)

/-! ### Round 3: fixed-width integer arithmetic (the types of `core/_ext/types.py`) -/

/-- two's-complement wrap of `x` into the signed range `[-m, m)` (`m = 2^(bits-1)`) -/
def wrap (m : Int) (x : Int) : Int := (x + m) % (2 * m) - m

/-- `cross_degree * (cross_degree - 1)` (the integer part of `norm` in
`cross_local_clustering[_sparse]`) evaluated element-wise in a signed integer type of range
`[-m, m)`, as numpy does for an integer array of that dtype -/
def normProdW (m : Int) (k : Int) : Int := wrap m (wrap m k * wrap m (wrap m k - 1))

/-! ### Round 4: `Network.global_efficiency`, closeness with a stated convention for unreachable
nodes, and numpy's integer accumulation -/

/-- all nodes of the network but `i`, in increasing order -/
def others (n i : Nat) : List Nat := (List.range n).filter fun j => j != i

/-- `Network.global_efficiency(link_attribute)` (network.py:3904-3940): the diagonal is set to
`inf`, `1/float(N·(N−1)) · (1/path_lengths).sum()`.  `none` = `ZeroDivisionError` (`N ≤ 1`); a zero
distance between two different nodes makes the sum `inf` -/
def netGlobalEfficiency (n : Nat) (D : Dist) : Option XR :=
  if n * (n - 1) = 0 then none
  else if (List.range n).any (fun i => (List.range n).any fun j => i != j && D i j == some 0)
  then some .inf
  else some (.val ((1 / ((n * (n - 1) : Nat) : Rat)) *
    ((List.range n).map fun i =>
      ((List.range n).map fun j => if i = j then 0 else invD (D i j)).sum).sum))

/-- closeness of node `i` in the whole network when an unreachable node counts as distance `c`:
`(N − 1) / Σ_j d'_ij`, `0` where the sum vanishes.  `c = N − 1`: the convention of
`internal_closeness` on the whole node set; `c = N`: the weighted branch of `Network.closeness`
(`Pyunicorn.Net.closenessW`). -/
def closenessConv (c : Rat) (n : Nat) (D : Dist) (i : Nat) : Rat :=
  let s := ((List.range n).map fun j => (D i j).getD c).sum
  if s = 0 then 0 else ((n : Rat) - 1) / s

/-- `np.sum` / `np.add.reduce` of an integer array with an accumulator of the signed type of range
`[-m, m)`: every partial sum is wrapped (`wrap`) -/
def sumW (m : Int) (l : List Int) : Int := l.foldl (fun acc x => wrap m (acc + x)) 0

/-- `cross_outdegree` with the row sums accumulated in a signed integer type of range `[-m, m)`
(numpy's default for `int8` data: the platform integer, `m = 2^63`) -/
def crossOutDegreeW (m : Int) (A : Adj) (L1 L2 : List Nat) : List Int :=
  (blockN A L1 L2).map fun r => sumW m (r.map fun (x : Nat) => (x : Int))

/-- `path_lengths()` of the unweighted network (igraph's `distances()`), specified by the frontier
BFS of C03's model `Pyunicorn.Net.dist`; node numbers `≥ n` do not exist (`none`; the driver and
numpy raise `IndexError` before any such entry is read) -/
def distQ (n : Nat) (A : Adj) : Dist := fun a b =>
  if a < n ∧ b < n then (Pyunicorn.Net.dist n A a b).map fun (k : Nat) => (k : Rat) else none

/-! ### specification vocabulary -/

/-- sum over the unordered pairs of positions `k < j` of a list of `f L[j] L[k]`
(first argument = the later element) -/
def pairSum {α : Type} [Add α] [Zero α] (f : Nat → Nat → α) : List Nat → α
  | [] => 0
  | x :: t => (t.map fun y => f y x).sum + pairSum f t

/-- `Σ_{r ∈ rest} Σ_{p ∈ pre} f r p` -/
def crossSum {α : Type} [Add α] [Zero α] (f : Nat → Nat → α) (rest pre : List Nat) : α :=
  (rest.map fun r => (pre.map fun p => f r p).sum).sum

end Pyunicorn.Cross
