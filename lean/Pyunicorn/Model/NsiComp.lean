import Pyunicorn.Model.NsiRw
import Pyunicorn.Model.NsiBetw
import Pyunicorn.Model.NsiMeasures
/-
Round 5: the per-component wrapper of `nsi_newman_betweenness` / `nsi_arenas_betweenness`
(core/network.py), written as the code does it:

    result = np.zeros(self.N)
    components = self.graph.connected_components()
    for c, comp in enumerate(components):
        if len(comp) < 2:   result[comp[0]] = 0      (Newman, add_local_ends: w[comp[0]] ** 2)
        else:
            subgraph = components.subgraph(c); nodes = comp; w = self.node_weights[nodes]
            subnet = Network(adjacency=A, directed=False, node_weights=w)
            ... the measure of the connected network `subnet` (Model/NsiRw.lean) ...
            for j, node in enumerate(nodes): result[node] = component_betweenness[j]

igraph numbers the components by their smallest node and lists the nodes of a component (and of
`components.subgraph(c)`) in ascending order.  Core Lean only.
-/
namespace Pyunicorn.Nsi

/-- the nodes reachable from `a`, ascending: the component of `a` -/
def compNodes (G : Gr) (a : Nat) : List Nat :=
  (List.range G.n).filter fun b => (bfsDist G a b).isSome

/-- `graph.connected_components()`: one node list per component, ordered by smallest node -/
def compList (G : Gr) : List (List Nat) :=
  (List.range G.n).filterMap fun a =>
    let c := compNodes G a
    if c.head? = some a then some c else none

/-- `components.subgraph(c)` with `node_weights[nodes]`: the sub-network in the component's own
numbering (`nodes.getD i 0` = the network node behind the component's node `i`) -/
def subGr (G : Gr) (nodes : List Nat) : Gr where
  n := nodes.length
  adj i j := G.adj (nodes.getD i 0) (nodes.getD j 0)
  w i := G.w (nodes.getD i 0)
  la a i j := G.la a (nodes.getD i 0) (nodes.getD j 0)
  grp g i := G.grp g (nodes.getD i 0)
  dist i j := G.dist (nodes.getD i 0) (nodes.getD j 0)

/-- `for j, node in enumerate(nodes): result[node] = vals[j]` -/
def copyBack (res : List Rat) (nodes : List Nat) (vals : List Rat) : List Rat :=
  (List.range nodes.length).foldl (fun r j => r.set (nodes.getD j 0) (vals.getD j 0)) res

/-- the component loop for a measure `f` of connected networks and a value `single` for
isolated nodes (`none`: a linear system of some component is singular) -/
def perComponent (G : Gr) (single : Nat → Rat) (f : Gr → Option (List Rat)) : Option (List Rat) :=
  (compList G).foldl (fun acc nodes =>
    match acc with
    | none => none
    | some res =>
      if nodes.length < 2 then some (res.set (nodes.getD 0 0) (single (nodes.getD 0 0)))
      else match f (subGr G nodes) with
        | none => none
        | some vals => some (copyBack res nodes vals)) (some (List.replicate G.n 0))

/-- `nsi_newman_betweenness(add_local_ends)` of any undirected network -/
def newmanWrapped (G : Gr) (ends : Bool) : Option (List Rat) :=
  perComponent G (fun a => if ends then G.w a * G.w a else 0) (fun H => newmanAll H ends)

/-- `nsi_arenas_betweenness(exclude_neighbors, stopping_mode)` of any undirected network; the
twinness matrix is the sub-network's own (`subnet.nsi_twinness()`) -/
def arenasWrapped (G : Gr) (twin excl : Bool) : Option (List Rat) :=
  perComponent G (fun _ => 0) fun H =>
    let sg : Nat → Nat → Rat := if twin then fun a b => eval H [a, b] M.nsiTwinness else fun _ _ => 1
    match arenasAll H sg excl with
    | some (l, true) => some l
    | _ => none

/-- the component-wise value at node `a`, directly: the measure of the sub-network of `a`'s
component at `a`'s position in it (what `perComponent` stores at index `a`) -/
def perNode (G : Gr) (single : Nat → Rat) (f : Gr → Option (List Rat)) (a : Nat) : Option Rat :=
  let nodes := compNodes G a
  if nodes.length < 2 then some (single a)
  else match f (subGr G nodes) with
    | none => none
    | some vals => some (vals.getD (nodes.idxOf a) 0)

end Pyunicorn.Nsi
