/-
Model for C02 (node-splitting invariance).  All n.s.i. measures of `core/network.py` and
`core/interacting_networks.py` are *expressions* built from atoms that pull back along the
collapse map of a split (`A⁺`, link attributes, group indicators, shortest-path lengths with
unit self-distance) by arithmetic, node-weighted sums `Σ_k w_k ·` and maxima over nodes.
Core Lean only; evaluated in `Rat` (every IEEE double is a rational).
-/
namespace Pyunicorn.Nsi

structure Gr where
  n : Nat
  adj : Nat → Nat → Bool
  w : Nat → Rat
  la : Nat → Nat → Nat → Rat      -- link attribute number `a`, entry `[i, j]`
  grp : Nat → Nat → Bool          -- node group number `g` contains node `i`
  dist : Nat → Nat → Option Nat   -- shortest-path length (`none` = unreachable)

/-- `A⁺ = A + I` -/
def aplus (G : Gr) (i j : Nat) : Rat := if i = j ∨ G.adj i j = true then 1 else 0

/-- distance with unit self-distance: `path_lengths() + identity` -/
def dplus (G : Gr) (i j : Nat) : Option Nat := if i = j then some 1 else G.dist i j

def pow2 : Nat → Rat
  | 0 => 1
  | k + 1 => 2 * pow2 k

/-- expressions; variables are de-Bruijn indices into the environment of node indices
(variable 0 = innermost bound node) -/
inductive E
  | const (q : Rat)
  | aplus (i j : Nat)
  | la (a i j : Nat)
  | grp (g i : Nat)
  | dplus (i j : Nat)       -- `d + δ`, 0 if unreachable
  | conn (i j : Nat)        -- 1 if reachable (also for i = j), else 0
  | invd (i j : Nat)        -- `1 / (d + δ)`, 0 if unreachable
  | expd (i j : Nat)        -- `2 ^ -(d + δ)`, 0 if unreachable
  | add (a b : E) | sub (a b : E) | mul (a b : E) | div (a b : E)
  | max (a b : E) | min (a b : E)
  | ifpos (c a b : E)       -- `a` if `c > 0` else `b`
  | wsum (e : E)            -- `Σ_k w_k · e` with `k` bound as variable 0
  | kmax (e : E)            -- `max_k e` with `k` bound as variable 0 (0 on the empty graph)
deriving Repr

def var (env : List Nat) (i : Nat) : Nat := env.getD i 0

def maxList : List Rat → Rat
  | [] => 0
  | x :: t => t.foldl Max.max x

def eval (G : Gr) : List Nat → E → Rat
  | _, .const q => q
  | env, .aplus i j => aplus G (var env i) (var env j)
  | env, .la a i j => G.la a (var env i) (var env j)
  | env, .grp g i => if G.grp g (var env i) then 1 else 0
  | env, .dplus i j => match dplus G (var env i) (var env j) with | some d => (d : Rat) | none => 0
  | env, .conn i j => match dplus G (var env i) (var env j) with | some _ => 1 | none => 0
  | env, .invd i j => match dplus G (var env i) (var env j) with | some d => 1 / (d : Rat) | none => 0
  | env, .expd i j => match dplus G (var env i) (var env j) with | some d => 1 / pow2 d | none => 0
  | env, .add a b => eval G env a + eval G env b
  | env, .sub a b => eval G env a - eval G env b
  | env, .mul a b => eval G env a * eval G env b
  | env, .div a b => eval G env a / eval G env b
  | env, .max a b => Max.max (eval G env a) (eval G env b)
  | env, .min a b => Min.min (eval G env a) (eval G env b)
  | env, .ifpos c a b => if 0 < eval G env c then eval G env a else eval G env b
  | env, .wsum e => ((List.range G.n).map fun k => G.w k * eval G (k :: env) e).sum
  | env, .kmax e => maxList ((List.range G.n).map fun k => eval G (k :: env) e)

/-- collapse map of a split of node `v` of an `n`-node graph: the twin (index `n`) ↦ `v` -/
def collapse (n v k : Nat) : Nat := if k = n then v else k

/-- `splitted_copy(node = v, proportion = p)` (core/network.py:303-363): the twin gets index
`N`, weight `p·w_v`; node `v` keeps `(1-p)·w_v`; the twins are linked; link attributes are
copied with `W[v,N] = W[N,v] = W[N,N] = W[v,v]`; node groups: the twin joins `v`'s groups. -/
def split (G : Gr) (v : Nat) (p : Rat) : Gr where
  n := G.n + 1
  adj i j :=
    if i = G.n ∧ j = G.n then false
    else if (i = G.n ∧ j = v) ∨ (i = v ∧ j = G.n) then true
    else G.adj (collapse G.n v i) (collapse G.n v j)
  w k := if k = G.n then p * G.w v else if k = v then (1 - p) * G.w v else G.w k
  la a i j := G.la a (collapse G.n v i) (collapse G.n v j)
  grp g i := G.grp g (collapse G.n v i)
  dist i j :=
    if i = j then some 0
    else if collapse G.n v i = collapse G.n v j then some 1
    else G.dist (collapse G.n v i) (collapse G.n v j)

end Pyunicorn.Nsi
