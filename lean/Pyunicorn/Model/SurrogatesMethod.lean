import Pyunicorn.Model.Surrogates
/-!
Round 4 (property C15), core Lean only.

1. `Surrogates.correlated_noise_surrogates` **statement by statement**: `translate/gen_C15.py` reads
   the body of the method off the source on every run and emits it as a list of `FStep`s
   (`Generated/StructC15.lean`); `fourierMethodCalls` executes such a body over a history of calls on
   one object (memoised FFT, aliasing of the local name with the memoised array).  The theorems of
   `Properties/C15.lean` are stated about the generated body.
2. `Surrogates.normalize_original_data`: the loop `normalized[i,:] -= mean[i]; if std[i] != 0:
   normalized[i,:] /= std[i]` with the row means / standard deviations as inputs.
-/
namespace Pyunicorn.Surrogates

/-- the statements `translate/gen_C15.py` recognises in `correlated_noise_surrogates` (local names
are tracked by role: `S` the array first bound to `self.original_data_fft()`) -/
inductive FStep
  /-- `S = self.original_data_fft()` — the local name is bound to the memoised array itself -/
  | fetch
  /-- `len_phase = S.shape[1]` -/
  | lenPhase
  /-- `phases = random.uniform(low=0, high=2 * np.pi, size=(self.N, len_phase))` -/
  | drawPhases
  /-- `S = S * np.exp(1j * phases)` (`copy`) or `S *= np.exp(1j * phases)` (`inplace`) -/
  | mulPhases (m : Mode)
  /-- `S[:, k] = S[:, k].real` for an integer literal `k` (negative = from the end) -/
  | realAt (k : Int)
  /-- `return np.ascontiguousarray(np.real(np.fft.irfft(S, n=self.n_time, axis=1)))` -/
  | irfft
  /-- any other statement -/
  | unknown
deriving DecidableEq, Repr

/-- what one call of the method knows, for one series -/
structure FState (α : Type) where
  /-- the array `original_data_fft()` memoises -/
  cache : List (α × α)
  /-- the local array -/
  S : Option (List (α × α)) := none
  /-- the local name is bound to the memoised array itself -/
  alias : Bool := false
  len : Option Nat := none
  ph : Option (List α) := none
  /-- the array handed to `irfft` -/
  out : Option (List (α × α)) := none

section
variable {α : Type} [Add α] [Sub α] [Mul α] [OfNat α 0]

/-- Python index of a 1-D axis of length `n` (negative = from the end); `none` = IndexError -/
def pyIndex (n : Nat) (k : Int) : Option Nat :=
  if 0 ≤ k then (if k.toNat < n then some k.toNat else none)
  else if (-k).toNat ≤ n then some (n - (-k).toNat) else none

/-- one statement; `none` = an exception or a statement the model does not know -/
def fstep (T : Trig α) (φs : List α) (st : FState α) : FStep → Option (FState α)
  | .fetch => some { st with S := some st.cache, alias := true }
  | .lenPhase => st.S.map fun s => { st with len := some s.length }
  | .drawPhases =>
    match st.len with
    | some l => if φs.length = l then some { st with ph := some φs } else none
    | none => none
  | .mulPhases m =>
    match st.S, st.ph with
    | some s, some φ =>
      if φ.length ≠ s.length then none else
      let p := rotRow T s φ
      match m with
      | .copy => some { st with S := some p, alias := false }
      | .inplace => some { st with S := some p, cache := if st.alias then p else st.cache }
    | _, _ => none
  | .realAt k =>
    match st.S with
    | some s =>
      match pyIndex s.length k with
      | some i =>
        let s' := s.modify i fun z => (z.1, 0)
        some { st with S := some s', cache := if st.alias then s' else st.cache }
      | none => none
    | none => none
  | .irfft => st.S.map fun s => { st with out := some s }
  | .unknown => none

/-- one call of a method with body `body`: the memoised array afterwards and the array handed to
`irfft` -/
def fourierMethodCall (T : Trig α) (body : List FStep) (cache : List (α × α)) (φs : List α) :
    Option (List (α × α) × List (α × α)) :=
  match body.foldl (fun st s => st.bind fun st => fstep T φs st s) (some ({ cache := cache } : FState α)) with
  | some st => st.out.map fun o => (st.cache, o)
  | none => none

/-- a history of calls on one object -/
def fourierMethodCalls (T : Trig α) (body : List FStep) (cache : List (α × α)) :
    List (List α) → Option (List (List (α × α)))
  | [] => some []
  | φs :: rest =>
    match fourierMethodCall T body cache φs with
    | none => none
    | some (cache', out) =>
      match fourierMethodCalls T body cache' rest with
      | none => none
      | some outs => some (out :: outs)

end

/-! ### `normalize_original_data` -/

/-- the arithmetic the loop uses (IEEE double / single in the driver, exact in the theorems) -/
structure NormOps (α : Type) where
  sub : α → α → α
  div : α → α → α
  isZero : α → Bool

/-- `normalized[i, :] -= mean[i]; if std[i] != 0: normalized[i, :] /= std[i]` -/
def normalizeRow (O : NormOps α) (m s : α) (row : List α) : List α :=
  let c := row.map (O.sub · m)
  if O.isZero s then c else c.map (O.div · s)

/-- the loop `for i in range(self.N)`; `none` = IndexError (`mean` / `std` shorter than `N`) -/
def normalizeRows (O : NormOps α) : List α → List α → List (List α) → Option (List (List α))
  | _, _, [] => some []
  | m :: ms, s :: ss, row :: rows =>
    (normalizeRows O ms ss rows).map (normalizeRow O m s row :: ·)
  | _, _, _ :: _ => none

def ratNormOps : NormOps Rat := ⟨(· - ·), (· / ·), (· == 0)⟩

/-! ### rank arrays -/

/-- `idx` is a rank array of `s` — what `s.argsort().argsort()` returns whatever order numpy gives
to equal values: a permutation of the index range such that a strictly smaller value never has the
larger rank (the pairs are (rank, value)).  Decidable: the harness has the driver evaluate it on
numpy's own rank array in every case with ties. -/
def RankOf (s : List Rat) (idx : List Nat) : Prop :=
  idx.Perm (List.range s.length) ∧ ∀ p ∈ idx.zip s, ∀ q ∈ idx.zip s, p.2 < q.2 → p.1 < q.1

instance (s : List Rat) (idx : List Nat) : Decidable (RankOf s idx) := by
  unfold RankOf; infer_instance

end Pyunicorn.Surrogates
