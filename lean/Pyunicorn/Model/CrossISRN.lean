import Pyunicorn.Model.CrossCCN
/-
Round 5: `InterSystemRecurrenceNetwork` (src/pyunicorn/timeseries/inter_system_recurrence_network.py
:166-174, 226-282, 344-394): the inter-system recurrence matrix assembled from the recurrence
matrices of `x`, of `y` and the cross recurrence matrix by four slice assignments, the removal of
the self-loops through the flat view (`ISRM.flat[::N + 1] = 0`), and the four wrappers
`cross_global_clustering_xy/yx`, `cross_transitivity_xy/yx` (`np.arange(N_x)`,
`np.arange(N_x, N)` — the node lists `CrossCCN.nodes1`, `CrossCCN.nodes2`).  Core Lean only.
-/
namespace Pyunicorn.CrossISRN
open Pyunicorn.Cross Pyunicorn.CrossCCN

/-- `ISRM = np.zeros((N, N))` followed by
`ISRM[:N_x, :N_x] = R_x`, `ISRM[:N_x, N_x:N] = CR_xy`, `ISRM[N_x:N, :N_x] = CR_xy.transpose()`,
`ISRM[N_x:N, N_x:N] = R_y` (the four targets do not overlap); entries outside `N × N` do not
exist -/
def isrm (Rx Cxy Ry : Nat → Nat → Bool) (Nx N : Nat) : Adj := fun i j =>
  if i < N ∧ j < N then
    if i < Nx then (if j < Nx then Rx i j else Cxy i (j - Nx))
    else (if j < Nx then Cxy j (i - Nx) else Ry (i - Nx) (j - Nx))
  else false

/-- `M.flat[::N + 1] = 0` on a C-contiguous `N × N` array: entry `(i, j)` sits at flat position
`i·N + j` and is zeroed iff that position is a multiple of the step -/
def zeroFlatStride (M : Adj) (N : Nat) : Adj := fun i j =>
  if (i * N + j) % (N + 1) = 0 then false else M i j

/-- the adjacency matrix handed to `InteractingNetworks.__init__` -/
def adjacency (Rx Cxy Ry : Nat → Nat → Bool) (Nx N : Nat) : Adj :=
  zeroFlatStride (isrm Rx Cxy Ry Nx N) N

/-- `cross_global_clustering_xy()` -/
def crossGlobalClusteringXY (A : Adj) (Nx N : Nat) : Option Rat :=
  Cross.crossGlobalClustering false A (nodes1 Nx) (nodes2 Nx N)
/-- `cross_global_clustering_yx()` -/
def crossGlobalClusteringYX (A : Adj) (Nx N : Nat) : Option Rat :=
  Cross.crossGlobalClustering false A (nodes2 Nx N) (nodes1 Nx)
/-- `cross_transitivity_xy()` -/
def crossTransitivityXY (A : Adj) (Nx N : Nat) : Rat :=
  Cross.crossTransitivity A (nodes1 Nx) (nodes2 Nx N)
/-- `cross_transitivity_yx()` -/
def crossTransitivityYX (A : Adj) (Nx N : Nat) : Rat :=
  Cross.crossTransitivity A (nodes2 Nx N) (nodes1 Nx)

/-- `CrossRecurrencePlot.cross_recurrence_rate()` = `float(CR.sum()) / (N * M)` on the
`N_x × N_y` cross recurrence matrix; `none` = `ZeroDivisionError` -/
def crossRecurrenceRate (Cxy : Nat → Nat → Bool) (Nx Ny : Nat) : Option Rat :=
  if Nx * Ny = 0 then none
  else some ((((List.range Nx).map fun i => ((List.range Ny).map fun j => b2n (Cxy i j)).sum).sum : Nat)
    / ((Nx * Ny : Nat) : Rat))

end Pyunicorn.CrossISRN
