/-
C20 round 5 — index-level model of `core/_ext/numerics.pyx: _nsi_betweenness` (Newman's
betweenness by breadth-first search over a CSR adjacency): every subscript the kernel evaluates, as
checked reads / writes (`none` = IndexError under `boundscheck=True, wraparound=False`).

Only the state that decides indices is kept: `distances_to_j`, `n_predecessors`,
`flat_predecessors`, `queue`, `queue_len`; the floating-point arrays (`multiplicity_to_j`,
`betweenness_to_j`, `excess_to_j`, all of length `N`, and the parameters `w`, `is_source`) enter
through the positions at which they are subscripted.  All control flow of the kernel depends on the
integer state only.  Array entries are natural numbers (a negative entry of a caller's array is an
IndexError by `wraparound=False`; not represented).

Core Lean only (the driver links this file).
-/
namespace Pyunicorn.NsiIdx

structure St where
  dist : List Nat
  npred : List Nat
  fpred : List Nat
  queue : List Nat
  qlen : Nat
deriving Repr

/-- `a[i] = v` with the bounds check -/
def wr (a : List Nat) (i v : Nat) : Option (List Nat) :=
  if i < a.length then some (a.set i v) else none

/-- `offsets = np.zeros(N); for i in range(1, N): offsets[i] = offsets[i-1] + k[i-1]` -/
def offsets (N : Nat) (k : List Nat) : Option (List Nat) :=
  (List.range (N - 1)).foldlM (fun (acc : List Nat) i => do
      let ki ← k[i]?
      let prev ← acc[i]?
      some (acc ++ [prev + ki])) (if N = 0 then [] else [0])

/-- one iteration of `for l_index in range(oi, oi+k[i])` (node `i`, `next_d = distances_to_j[i] + 1`) -/
def slot (off nbr : List Nat) (wlen : Nat) (i nextd : Nat) (s : St) (lidx : Nat) : Option St := do
  let l ← nbr[lidx]?                       -- flat_neighbors[l_index]
  let dl ← s.dist[l]?                      -- distances_to_j[l]
  if dl ≥ nextd then
    let ol ← off[l]?                       -- offsets[l]
    let np ← s.npred[l]?                   -- n_predecessors[l]
    let npred' ← wr s.npred l (np + 1)
    let fpred' ← wr s.fpred (ol + np) i    -- flat_predecessors[fi] = i
    if l < wlen then                       -- w[l]  (multiplicity_to_j[l], [i]: l, i < N already)
      if dl > nextd then
        let dist' ← wr s.dist l nextd
        let queue' ← wr s.queue s.qlen l   -- queue[queue_len] = l
        some ⟨dist', npred', fpred', queue', s.qlen + 1⟩
      else some { s with npred := npred', fpred := fpred' }
    else none
  else some s

/-- the body of `while qi < queue_len` for one `qi` -/
def node (off k nbr : List Nat) (wlen : Nat) (s : St) (qi : Nat) : Option St := do
  let i ← s.queue[qi]?
  let di ← s.dist[i]?
  let oi ← off[i]?
  let ki ← k[i]?
  (List.range ki).foldlM (fun s t => slot off nbr wlen i (di + 1) s (oi + t)) s

/-- the forward sweep; `queue_len ≤ len(queue) = N` in every run that does not raise, so `N`
rounds of fuel are exact -/
def fwd (off k nbr : List Nat) (wlen : Nat) : Nat → St → Nat → Option St
  | 0, s, _ => some s
  | f + 1, s, qi =>
    if qi < s.qlen then (node off k nbr wlen s qi).bind fun s' => fwd off k nbr wlen f s' (qi + 1)
    else some s

/-- run `f` on every element in order, stop at the first IndexError -/
def allOk (l : List Nat) (f : Nat → Option Unit) : Option Unit := l.foldlM (fun _ t => f t) ()

/-- one iteration of the backward sweep `for ql in range(queue_len-1, -1, -1)` -/
def bwdNode (N : Nat) (off : List Nat) (wlen j : Nat) (s : St) (ql : Nat) : Option Unit := do
  let l ← s.queue[ql]?
  if l < N then
    if l = j then some ()
    else if l < wlen then do
      let ol ← off[l]?
      let npl ← s.npred[l]?
      allOk (List.range npl) fun t => do
        let i ← s.fpred[ol + t]?           -- flat_predecessors[fi]
        if i < N then some () else none    -- betweenness_to_j[i], multiplicity_to_j[i]
    else none
  else none

/-- one target `j` -/
def target (N : Nat) (off k nbr : List Nat) (wlen slen j : Nat) : Option Unit := do
  -- for l in range(N): is_source[l] * w[l]
  if N ≤ wlen ∧ N ≤ slen ∨ N = 0 then
    let s0 : St := ⟨List.replicate N (2 * N), List.replicate N 0, List.replicate nbr.length 0,
                    List.replicate N 0, 0⟩
    let dist ← wr s0.dist j 0              -- distances_to_j[j] = 0
    let queue ← wr s0.queue 0 j            -- queue[0] = j
    if j < wlen then                       -- w[j]
      let s ← fwd off k nbr wlen N { s0 with dist := dist, queue := queue, qlen := 1 } 0
      allOk (List.range s.qlen).reverse (bwdNode N off wlen j s)
    else none
  else none

/-- `_nsi_betweenness(N, w, k, flat_neighbors, is_source, targets)`: `none` = IndexError,
`some ()` = returns -/
def nsiBetwIdx (N : Nat) (k nbr : List Nat) (wlen slen : Nat) (targets : List Nat) : Option Unit := do
  let off ← offsets N k
  allOk targets (target N off k nbr wlen slen)

/-! ### the contract (what `Network._nsi_betweenness` passes) as an executable predicate -/

/-- number of the first `t` slots of node `i` that point to `l` -/
def cntUpTo (off nbr : List Nat) (i t l : Nat) : Nat :=
  ((List.range t).filter fun u => nbr[off.getD i 0 + u]? == some l).length

/-- number of slots of node `i` that point to `l` -/
def cnt (off k nbr : List Nat) (i l : Nat) : Nat := cntUpTo off nbr i (k.getD i 0) l

/-- a CSR adjacency as the method builds it (`k = outdegree`, `flat_neighbors` = column indices of
the non-zero entries row by row, `w`, `is_source` of length `N`, targets node numbers), stated on
the offsets the kernel itself computes: every row segment `[offsets[i], offsets[i] + k[i])` lies
inside `flat_neighbors`, every entry is a node number, and no node is pointed to by more slots than
it has itself (in-degree ≤ out-degree: a symmetric adjacency) -/
def csrOK (N : Nat) (k nbr : List Nat) (wlen slen : Nat) (targets : List Nat) : Bool :=
  match offsets N k with
  | none => false
  | some off =>
    decide (off.length = N) && decide (N ≤ k.length) && decide (N ≤ wlen) && decide (N ≤ slen)
    && targets.all (fun j => decide (j < N))
    && (List.range N).all (fun i => decide (off.getD i 0 + k.getD i 0 ≤ nbr.length))
    && nbr.all (fun x => decide (x < N))
    && (List.range N).all (fun l =>
          decide (((List.range N).map fun i => cnt off k nbr i l).sum ≤ k.getD l 0))

end Pyunicorn.NsiIdx
