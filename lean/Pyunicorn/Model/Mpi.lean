/-
Model of the master side of `pyunicorn.utils.mpi` (`submit_call` / `get_result`,
src/pyunicorn/utils/mpi.py:161-330) and of the three master loops in
`core/network.py` that cut the node range into chunks, submit one call per chunk
and reassemble the results.  Core Lean only.
-/
namespace Pyunicorn.Mpi

/-- master-side bookkeeping: `assigned[id]` and `slave_queue[slave]` -/
structure MState where
  assigned : List (Nat × Nat)          -- (id, slave), insertion order
  queues : List (Nat × List Nat)       -- (slave, ids assigned to it, FIFO)
deriving Repr

def MState.init : MState := ⟨[], []⟩

def lookup (k : Nat) : List (Nat × α) → Option α
  | [] => none
  | (k', v) :: t => if k' = k then some v else lookup k t

def queueOf (s : MState) (slave : Nat) : List Nat := (lookup slave s.queues).getD []

def setQueue (qs : List (Nat × List Nat)) (slave : Nat) (q : List Nat) : List (Nat × List Nat) :=
  (slave, q) :: qs.filter (fun p => p.1 != slave)

inductive Err | alreadyQueued | keyError | outOfOrder
deriving Repr, DecidableEq

/-- `submit_call(..., id=id)` with the slave chosen by the (arbitrary) `argmin` -/
def submit (s : MState) (id slave : Nat) : Except Err MState :=
  if (lookup id s.assigned).isSome then .error .alreadyQueued
  else .ok ⟨s.assigned ++ [(id, slave)], setQueue s.queues slave (queueOf s slave ++ [id])⟩

/-- `get_result(id)`: returns the id of the call whose result message is received —
the slave answers its calls in the order it got them (MPI messages between two
ranks do not overtake), i.e. the *head* of `slave_queue[source]`. -/
def getResult (s : MState) (id : Nat) : Except Err (Nat × MState) :=
  match lookup id s.assigned with
  | none => .error .keyError
  | some src =>
    match queueOf s src with
    | [] => .error .keyError
    | h :: _ =>
      if h != id then .error .outOfOrder
      else .ok (h, ⟨s.assigned.filter (fun p => p.1 != id),
                    setQueue s.queues src ((queueOf s src).erase id)⟩)

def submitAll (slaveOf : Nat → Nat) : List Nat → MState → Except Err MState
  | [], s => .ok s
  | id :: t, s => match submit s id (slaveOf id) with
      | .error e => .error e
      | .ok s' => submitAll slaveOf t s'

def getAll : List Nat → MState → Except Err (List Nat × MState)
  | [], s => .ok ([], s)
  | id :: t, s => match getResult s id with
      | .error e => .error e
      | .ok (r, s') => match getAll t s' with
          | .error e => .error e
          | .ok (rs, s'') => .ok (r :: rs, s'')

/-- the master loop shared by the three measures: submit ids `0..parts-1` in order
(if `submitGuard`), then retrieve ids `0..parts-1` in order; returns the ids of the
calls whose results were received, in retrieval order. -/
def masterRun (parts : Nat) (slaveOf : Nat → Nat) (submitGuard : Bool := true) :
    Except Err (List Nat) :=
  match (if submitGuard then submitAll slaveOf (List.range parts) MState.init else .ok MState.init) with
  | .error e => .error e
  | .ok s => match getAll (List.range parts) s with
      | .error e => .error e
      | .ok (rs, _) => .ok rs

/-! ### chunking and reassembly -/

/-- chunk boundaries as the master computes them -/
def chunks (N step parts : Nat) : List (Nat × Nat) :=
  (List.range parts).map fun idx => (idx * step, min ((idx + 1) * step) N)

/-- a chunk kernel returns the values of rows `start..end-1` -/
def chunkResult (f : Nat → α) (c : Nat × Nat) : List α :=
  (List.range (c.2 - c.1)).map fun k => f (c.1 + k)

/-- `component_betweenness[start_i:end_i] = this_betweenness` for every chunk, in
retrieval order, starting from `np.zeros(N)` -/
def assignSlice (acc : List α) (start : Nat) (vals : List α) : List α :=
  acc.take start ++ vals ++ acc.drop (start + vals.length)

def assemble (zero : α) (N : Nat) (f : Nat → α) (cs : List (Nat × Nat)) : List α :=
  cs.foldl (fun acc c => assignSlice acc c.1 (chunkResult f c)) (List.replicate N zero)

/-- the Arenas variant and the multiprocessing pool *add* full-length partial results -/
def addVec (a b : List Int) : List Int := List.zipWith (· + ·) a b

def partialResult (N : Nat) (f : Nat → Nat → Int) (c : Nat × Nat) : List Int :=
  (List.range N).map fun j => ((List.range (c.2 - c.1)).map fun k => f (c.1 + k) j).sum

def assembleSum (N : Nat) (f : Nat → Nat → Int) (cs : List (Nat × Nat)) : List Int :=
  cs.foldl (fun acc c => addVec acc (partialResult N f c)) (List.replicate N 0)

end Pyunicorn.Mpi
