import Pyunicorn.Model.SurrogatesMethod
/-! C15 round 5f: **what `numpy.argsort` promises** — and nothing more.

`p` is an argsort of `x` when `p` is a permutation of the index range and `x` read along `p` is
non-decreasing.  Nothing is said about the order of equal values (numpy's default `quicksort` kind
is not stable).  Both predicates are decidable: in every case with ties the harness has the driver
evaluate them on the two index arrays numpy itself returned for `s.argsort(axis=1)` and
`s.argsort(axis=1).argsort(axis=1)`; that these two facts make the second array a `RankOf s` is the
theorem `argsort_argsort_is_rank` (`Properties/C15.lean`; proof in `Lemmas/SurrogatesArgsort.lean`), no longer
an assumption. -/
namespace Pyunicorn.Surrogates

/-- `p` is an argsort of the rational row `x` (ties in any order) -/
def IsArgsort (x : List Rat) (p : List Nat) : Prop :=
  p.Perm (List.range x.length) ∧ (p.map fun i => x[i]?.getD 0).Pairwise (· ≤ ·)

/-- `q` is an argsort of the index row `p` (the second `argsort` of `s.argsort().argsort()`) -/
def IsArgsortNat (p q : List Nat) : Prop :=
  q.Perm (List.range p.length) ∧ (q.map fun i => p[i]?.getD 0).Pairwise (· ≤ ·)

instance (x : List Rat) (p : List Nat) : Decidable (IsArgsort x p) := by
  unfold IsArgsort; infer_instance

instance (p q : List Nat) : Decidable (IsArgsortNat p q) := by
  unfold IsArgsortNat; infer_instance

end Pyunicorn.Surrogates
