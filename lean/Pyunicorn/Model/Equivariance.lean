import Pyunicorn.Model.Nsi
/-
Model for C04 (measures do not depend on node numbering).  A richer expression language than
C02's (`A` itself, bare node weights, Kronecker delta, unweighted sums, counts) — relabelling
is a pull-back along a *bijection*, so every atom is compatible with it.  `relabel G idx` is
`Network.permuted_copy(idx)`: new node `a` is old node `idx[a]` (adjacency `A[idx][:, idx]`,
weights `w[idx]`, and likewise link attributes / coordinates-derived matrices, node groups,
distances).  Core Lean only.
-/
namespace Pyunicorn.Equiv
open Pyunicorn.Nsi

inductive E
  | const (q : Rat)
  | nn                      -- the number of nodes N
  | adj (i j : Nat)         -- A[i, j]
  | aplus (i j : Nat)
  | delta (i j : Nat)       -- 1 if x_i = x_j
  | w (i : Nat)             -- node weight
  | la (a i j : Nat)        -- any pairwise matrix carried with the nodes: link attributes,
                            -- grid distances, similarity matrices, effective resistances
  | grp (g i : Nat)
  | dist (i j : Nat)        -- shortest-path length (0 if unreachable)
  | conn (i j : Nat)        -- 1 if reachable
  | invd (i j : Nat)        -- 1/d for i ≠ j reachable, else 0
  | add (a b : E) | sub (a b : E) | mul (a b : E) | div (a b : E)
  | max (a b : E) | min (a b : E)
  | ifpos (c a b : E)
  | ifzero (c a b : E)      -- `a` if `c = 0` else `b`
  | usum (e : E)            -- Σ_k e
  | wsum (e : E)            -- Σ_k w_k e
  | kmax (e : E)
deriving Repr

def eval (G : Gr) : List Nat → E → Rat
  | _, .const q => q
  | _, .nn => (G.n : Rat)
  | env, .adj i j => if G.adj (var env i) (var env j) then 1 else 0
  | env, .aplus i j => aplus G (var env i) (var env j)
  | env, .delta i j => if var env i = var env j then 1 else 0
  | env, .w i => G.w (var env i)
  | env, .la a i j => G.la a (var env i) (var env j)
  | env, .grp g i => if G.grp g (var env i) then 1 else 0
  | env, .dist i j => match G.dist (var env i) (var env j) with | some d => (d : Rat) | none => 0
  | env, .conn i j => match G.dist (var env i) (var env j) with | some _ => 1 | none => 0
  | env, .invd i j => match G.dist (var env i) (var env j) with
      | some d => if d = 0 then 0 else 1 / (d : Rat) | none => 0
  | env, .add a b => eval G env a + eval G env b
  | env, .sub a b => eval G env a - eval G env b
  | env, .mul a b => eval G env a * eval G env b
  | env, .div a b => eval G env a / eval G env b
  | env, .max a b => Max.max (eval G env a) (eval G env b)
  | env, .min a b => Min.min (eval G env a) (eval G env b)
  | env, .ifpos c a b => if 0 < eval G env c then eval G env a else eval G env b
  | env, .ifzero c a b => if eval G env c = 0 then eval G env a else eval G env b
  | env, .usum e => ((List.range G.n).map fun k => eval G (k :: env) e).sum
  | env, .wsum e => ((List.range G.n).map fun k => G.w k * eval G (k :: env) e).sum
  | env, .kmax e => maxList ((List.range G.n).map fun k => eval G (k :: env) e)

/-- `permuted_copy(idx)` -/
def relabel (G : Gr) (idx : Nat → Nat) : Gr where
  n := G.n
  adj a b := G.adj (idx a) (idx b)
  w a := G.w (idx a)
  la k a b := G.la k (idx a) (idx b)
  grp g a := G.grp g (idx a)
  dist a b := G.dist (idx a) (idx b)

/-! ### catalogue of (unweighted and weighted) measures as expressions -/
namespace M
def c (q : Rat) : E := .const q
infixl:65 " +ₑ " => E.add
infixl:65 " -ₑ " => E.sub
infixl:70 " *ₑ " => E.mul
infixl:70 " /ₑ " => E.div

def outdeg (i : Nat) : E := .usum (.adj (i + 1) 0)
def indeg (i : Nat) : E := .usum (.adj 0 (i + 1))
def nLinksDirected : E := .usum (.usum (.adj 1 0))
def linkDensity : E := nLinksDirected /ₑ (.nn *ₑ (.nn -ₑ c 1))
def bildeg : E := .usum (.adj 1 0 *ₑ .adj 0 1)
/-- triangles through i (ordered pairs): `(A³)_ii` -/
def tri : E := .usum (.usum (.adj 2 1 *ₑ .adj 1 0 *ₑ .adj 0 2))
def localClustering : E := tri /ₑ (outdeg 0 *ₑ (outdeg 0 -ₑ c 1))
def globalClustering : E := .usum localClustering /ₑ .nn
def transitivity : E := .usum tri /ₑ .usum (outdeg 0 *ₑ (outdeg 0 -ₑ c 1))
def avgNeighborsDegree : E := .usum (.adj 1 0 *ₑ outdeg 0) /ₑ outdeg 0
def maxNeighborsDegree : E := .kmax (.adj 1 0 *ₑ outdeg 0)
def commons : E := .usum (.adj 1 0 *ₑ .adj 2 0)       -- env [i, j]: |N(i) ∩ N(j)|
def matchingIndex : E := commons /ₑ (outdeg 0 +ₑ outdeg 1 -ₑ commons)
def closeness : E := (.nn -ₑ c 1) /ₑ .usum (.dist 1 0)
def averagePathLength : E :=
  .usum (.usum (.dist 1 0)) /ₑ (.usum (.usum (.conn 1 0)) -ₑ .nn)
def globalEfficiency : E := .usum (.usum (.invd 1 0)) /ₑ (.nn *ₑ (.nn -ₑ c 1))
def strength : E := .usum (.la 0 1 0)                   -- out-strength with attribute 0
def totalWeight : E := .wsum (c 1)
def nsiDegree : E := .wsum (.aplus 1 0)
def nsiLocalClustering : E :=
  .wsum (.wsum (.aplus 2 1 *ₑ .aplus 1 0 *ₑ .aplus 0 2)) /ₑ (nsiDegree *ₑ nsiDegree)
/-- shortest-path betweenness by pair dependencies (Freeman / Brandes): with `σ` = number of
shortest paths (pairwise matrix 1, carried with the nodes) and `d` the distances,
`b_v = Σ_{s≠v} Σ_{t≠v, t≠s} [d(s,v)+d(v,t) = d(s,t)] σ(s,v) σ(v,t) / σ(s,t)` over reachable
pairs; env `[v]`; inside, `s` is variable 1 and `t` variable 0 (`v` variable 2). -/
def betweenness : E :=
  .usum (.usum (
    (c 1 -ₑ .delta 1 2) *ₑ (c 1 -ₑ .delta 0 2) *ₑ (c 1 -ₑ .delta 0 1) *ₑ
    .conn 1 0 *ₑ .conn 1 2 *ₑ .conn 2 0 *ₑ
    .ifzero (.dist 1 2 +ₑ .dist 2 0 -ₑ .dist 1 0)
      (.la 1 1 2 *ₑ .la 1 2 0 /ₑ .la 1 1 0) (c 0)))
/-- `Network.interregional_betweenness(sources = group 0, targets = group 1)` -/
def interregionalBetweenness : E :=
  .usum (.usum (
    .grp 0 1 *ₑ .grp 1 0 *ₑ
    (c 1 -ₑ .delta 1 2) *ₑ (c 1 -ₑ .delta 0 2) *ₑ (c 1 -ₑ .delta 0 1) *ₑ
    .conn 1 0 *ₑ .conn 1 2 *ₑ .conn 2 0 *ₑ
    .ifzero (.dist 1 2 +ₑ .dist 2 0 -ₑ .dist 1 0)
      (.la 1 1 2 *ₑ .la 1 2 0 /ₑ .la 1 1 0) (c 0)))
def crossDegree : E := .usum (.grp 1 0 *ₑ .adj 1 0)
def crossLinkDensity : E :=
  .usum (.grp 0 0 *ₑ crossDegree) /ₑ (.usum (.grp 0 0) *ₑ .usum (.grp 1 0))
def totalLinkDistance : E := .usum (.adj 1 0 *ₑ .la 1 1 0) -- Σ_j A_ij d_ij (attribute 1 = distance)
def averageLinkDistance : E := totalLinkDistance /ₑ outdeg 0
def maxLinkDistance : E := .kmax (.adj 1 0 *ₑ .la 1 1 0)
/-- inarea/outarea weighted connectivity style sums: `Σ_j A_ij w_j / Σ_j w_j` -/
def areaWeightedConnectivity : E := .wsum (.adj 1 0) /ₑ totalWeight

def all : List (String × Nat × E) := [
  ("outdegree", 1, outdeg 0), ("indegree", 1, indeg 0), ("n_links_directed", 0, nLinksDirected),
  ("link_density", 0, linkDensity), ("bildegree", 1, bildeg),
  ("local_clustering", 1, localClustering), ("global_clustering", 0, globalClustering),
  ("transitivity", 0, transitivity), ("average_neighbors_degree", 1, avgNeighborsDegree),
  ("max_neighbors_degree", 1, maxNeighborsDegree), ("matching_index", 2, matchingIndex),
  ("closeness", 1, closeness), ("average_path_length", 0, averagePathLength),
  ("global_efficiency", 0, globalEfficiency), ("outstrength", 1, strength),
  ("total_node_weight", 0, totalWeight), ("nsi_degree", 1, nsiDegree),
  ("nsi_local_clustering", 1, nsiLocalClustering), ("cross_degree", 1, crossDegree),
  ("cross_link_density", 0, crossLinkDensity), ("betweenness", 1, betweenness),
  ("interregional_betweenness", 1, interregionalBetweenness)]
end M

end Pyunicorn.Equiv
