import Pyunicorn.Model.Recurrence
import Pyunicorn.Generated.ArithC07
/-
The Python methods of the recurrence classes as compositions of the kernels of
`Model/Recurrence.lean` with the index / size expressions that
`translate/gen_arith.py` regenerates from the current source
(`Generated/ArithC07.lean`, core Lean only, so this file still links into the
driver).  Every function returns what the object stores: the matrix *and the
sizes the object reports* (`N`, `M`).
-/
namespace Pyunicorn.Recurrence
open Pyunicorn.Generated

inductive Res (α : Type) where
  | ok (a : α)
  | valueError
  | indexError
deriving Repr

def Res.ofOption {α : Type} (e : Res α) : Option α → Res α
  | some a => .ok a
  | none => e

def Res.bind {α β : Type} (r : Res α) (f : α → Res β) : Res β :=
  match r with
  | .ok a => f a
  | .valueError => .valueError
  | .indexError => .indexError

/-- `RecurrencePlot.embed_time_series` on a scalar series: `np.empty((len, dim))`
raises ValueError for a negative dimension -/
def embedSeries (ts : List V) (dim tau : Nat) : Res (List (List V)) :=
  let len := ArithC07.embedLen ts.length dim tau
  let cols := ArithC07.embedCols ts.length dim tau
  if len < 0 ∨ cols < 0 then .valueError else .ok (embed ts cols.toNat tau len.toNat)

/-- the state vectors of a plot: the `(n, d)` array itself, or the delay embedding
of its single column when `dim` and `tau` are given -/
def stateVectors (series : List (List V)) (e : Option (Nat × Nat)) : Res (List (List V)) :=
  match e with
  | none => .ok series
  | some (dim, tau) => embedSeries (series.map fun r => r.headD none) dim tau

/-- `int(recurrence_rate * (N - 1))` as a list index -/
def rateK (rr : Rat) (len : Nat) : Nat := (ArithC07.rateIndex rr len).toNat

structure Plot where
  R : List (List Bool)
  N : Int
  M : Int
deriving Repr

/-- how the recurrence matrix is requested -/
inductive Spec where
  | thr (eps : Rat)
  | rate (rr : Rat)
  | localRate (rr : Rat)

/-- `RecurrencePlot.__init__` → `set_fixed_threshold` / `set_fixed_recurrence_rate` /
`set_fixed_local_recurrence_rate`; `N` is set by the `embedding` setter -/
def recurrencePlot (m : Metric) (emb : List (List V)) (mv : Bool) : Spec → Res Plot
  | .thr eps => .ok ⟨fixedThreshold m emb eps mv, emb.length, emb.length⟩
  | .rate rr =>
    let D := distRP m emb
    (Res.indexError.ofOption (fixedRate D (rateK rr D.flatten.length))).bind fun R =>
      .ok ⟨maskIf mv emb R, emb.length, emb.length⟩
  | .localRate rr =>
    let D := distRP m emb
    (Res.indexError.ofOption (fixedLocalRate D (rateK rr emb.length))).bind fun R =>
      .ok ⟨maskIf mv emb R, emb.length, emb.length⟩

/-- `CrossRecurrencePlot.set_fixed_threshold` / `set_fixed_recurrence_rate` -/
def crossPlot (m : Metric) (ex ey : List (List V)) : Spec → Res Plot
  | .thr eps => .ok ⟨threshold (distCRP m ex ey) (some (unitThr m eps)), ex.length, ey.length⟩
  | .rate rr =>
    let D := distCRP m ex ey
    (Res.indexError.ofOption (fixedRate D (rateK rr D.flatten.length))).bind fun R =>
      .ok ⟨R, ex.length, ey.length⟩
  | .localRate _ => .valueError

def jBoundsThr (N lag : Int) : JBounds :=
  { posXRowHi := ArithC07.jrpPosXRowHi N lag, posXColHi := ArithC07.jrpPosXColHi N lag,
    posYRowLo := ArithC07.jrpPosYRowLo N lag, posYRowHi := ArithC07.jrpPosYRowHi N lag,
    posYColLo := ArithC07.jrpPosYColLo N lag, posYColHi := ArithC07.jrpPosYColHi N lag,
    negYRowHi := ArithC07.jrpNegYRowHi N lag, negYColHi := ArithC07.jrpNegYColHi N lag,
    negXRowLo := ArithC07.jrpNegXRowLo N lag, negXRowHi := ArithC07.jrpNegXRowHi N lag,
    negXColLo := ArithC07.jrpNegXColLo N lag, negXColHi := ArithC07.jrpNegXColHi N lag }

def jBoundsRate (N lag : Int) : JBounds :=
  { posXRowHi := ArithC07.jrpRatePosXRowHi N lag, posXColHi := ArithC07.jrpRatePosXColHi N lag,
    posYRowLo := ArithC07.jrpRatePosYRowLo N lag, posYRowHi := ArithC07.jrpRatePosYRowHi N lag,
    posYColLo := ArithC07.jrpRatePosYColLo N lag, posYColHi := ArithC07.jrpRatePosYColHi N lag,
    negYRowHi := ArithC07.jrpRateNegYRowHi N lag, negYColHi := ArithC07.jrpRateNegYColHi N lag,
    negXRowLo := ArithC07.jrpRateNegXRowLo N lag, negXRowHi := ArithC07.jrpRateNegXRowHi N lag,
    negXColLo := ArithC07.jrpRateNegXColLo N lag, negXColHi := ArithC07.jrpRateNegXColHi N lag }

/-- `JointRecurrencePlot.__init__`, "prune embedded time series to same length":
`min_N = min(x_embedded.shape[0], y_embedded.shape[0])`, `x_embedded[:min_N, :]`,
`y_embedded[:min_N, :]` — `min_N` and both slice bounds generated from the source -/
def jointPruned (ex ey : List (List V)) : List (List V) × List (List V) :=
  let minN := ArithC07.jrpMinN ex.length ey.length
  (pySlice ex 0 (ArithC07.jrpPruneXHi minN), pySlice ey 0 (ArithC07.jrpPruneYHi minN))

/-- the two guards of `JointRecurrencePlot.__init__` (both generated): the raw series must have
the same length, and `|lag|` must not exceed it — else `ValueError` -/
def jointGuard (nRaw nRawY : Nat) (lag : Int) : Bool :=
  ArithC07.jrpSameLength nRaw nRawY && !ArithC07.jrpLagTooLarge lag nRaw

/-- `JointRecurrencePlot.__init__` + `set_fixed_threshold` / `set_fixed_recurrence_rate`:
prune both embeddings to the common length, threshold each with its own metric,
multiply the shifted sub-blocks; `nRaw`, `nRawY` are `x.shape[0]`, `y.shape[0]`. -/
def jointPlot (mx my : Metric) (ex ey : List (List V)) (nRaw nRawY : Nat) (lag : Int)
    (sx sy : Spec) : Res Plot :=
  let pr := jointPruned ex ey
  let n := pr.1.length
  let ex := pr.1
  let ey := pr.2
  if !jointGuard nRaw nRawY lag then .valueError else
  match sx, sy with
  | .thr e1, .thr e2 =>
    let Rx := threshold (distRP mx ex) (some (unitThr mx e1))
    let Ry := threshold (distRP my ey) (some (unitThr my e2))
    (Res.valueError.ofOption (jointSlices Rx Ry lag (jBoundsThr n lag))).bind fun JR =>
      .ok ⟨JR, ArithC07.jrpReportedN n lag, ArithC07.jrpReportedN n lag⟩
  | .rate r1, .rate r2 =>
    let Dx := distRP mx ex
    let Dy := distRP my ey
    (Res.indexError.ofOption (fixedRate Dx (rateK r1 Dx.flatten.length))).bind fun Rx =>
    (Res.indexError.ofOption (fixedRate Dy (rateK r2 Dy.flatten.length))).bind fun Ry =>
    (Res.valueError.ofOption (jointSlices Rx Ry lag (jBoundsRate n lag))).bind fun JR =>
      .ok ⟨JR, ArithC07.jrpRateReportedN n lag, ArithC07.jrpRateReportedN n lag⟩
  | _, _ => .valueError

/-- adjacency matrix of a network built from a plot: `A = R.copy(); A.flat[::stride] = 0` -/
def adjacencyOf (R : List (List Bool)) (stride : Int) : List (List Bool) :=
  zeroStride R stride.toNat

structure Net where
  A : List (List Bool)
  /-- the plot's recurrence matrix the RQA methods index -/
  R : List (List Bool)
  /-- `self.N` after `Network.__init__` (= number of nodes) -/
  N : Int
deriving Repr

/-- `RecurrenceNetwork.__init__` -/
def recurrenceNetwork (m : Metric) (emb : List (List V)) (mv : Bool) (s : Spec) : Res Net :=
  (recurrencePlot m emb mv s).bind fun p =>
    let A := adjacencyOf p.R (ArithC07.rnStride p.N)
    let A := if mv then deleteMasked A (missingMask emb) else A
    .ok ⟨A, p.R, A.length⟩

/-- `inter_system_recurrence_matrix`: `ISRM = np.zeros((N, N))` and the four slice assignments
`ISRM[:N_x, :N_x] = Rx; ISRM[:N_x, N_x:N] = CR; ISRM[N_x:N, :N_x] = CR.T; ISRM[N_x:N, N_x:N] = Ry`
with every written bound generated from the source (absent lower bounds are `0`) -/
def isrmParts (N : Int) (nx ny : Nat) (Rx Ry CR : List (List Bool)) :
    List (Slot × List (List Bool)) :=
  [(⟨0, ArithC07.isrmXXRowHi N nx, 0, ArithC07.isrmXXColHi N nx⟩, Rx),
   (⟨0, ArithC07.isrmXYRowHi N nx, ArithC07.isrmXYColLo N nx, ArithC07.isrmXYColHi N nx⟩, CR),
   (⟨ArithC07.isrmYXRowLo N nx, ArithC07.isrmYXRowHi N nx, 0, ArithC07.isrmYXColHi N nx⟩,
      transpose CR nx ny),
   (⟨ArithC07.isrmYYRowLo N nx, ArithC07.isrmYYRowHi N nx, ArithC07.isrmYYColLo N nx,
      ArithC07.isrmYYColHi N nx⟩, Ry)]

/-- `InterSystemRecurrenceNetwork.__init__` with thresholds / rates `(s1, s2, s3)`;
`N_x`, `N_y` are the numbers of (embedded) state vectors -/
def interSystem (m : Metric) (ex ey : List (List V)) (s1 s2 s3 : Spec)
    (rate : Bool) : Res Net :=
  let nx := ex.length
  let ny := ey.length
  (recurrencePlot m ex false s1).bind fun px =>
  (recurrencePlot m ey false s2).bind fun py =>
  (crossPlot m ex ey s3).bind fun pc =>
    let total := ArithC07.isrnTotalN nx ny
    (Res.valueError.ofOption (assemble total.toNat (isrmParts total nx ny px.R py.R pc.R))).bind fun I =>
      let A := adjacencyOf I (if rate then ArithC07.isrnStrideRate total else ArithC07.isrnStride total)
      .ok ⟨A, I, A.length⟩

/-! ### `threshold_std`, `normalize`, adaptive neighbourhood size on objects -/

/-- `RecurrencePlot.__init__(…, threshold_std=s)`: `series` is the stored `(n, d)` array
(after normalisation, before embedding) whose `std()` scales the threshold -/
def recurrencePlotStd (m : Metric) (series emb : List (List V)) (mv : Bool) (s : Rat) : Plot :=
  ⟨fixedThresholdStd m series emb s mv, emb.length, emb.length⟩

/-- the stored series: `normalize_time_series` when `normalize=True`
(`none`: irrational standard deviation, outside the exact model) -/
def storedSeries (series : List (List V)) (norm : Bool) : Option (List (List V)) :=
  if norm then normalizeSeries series else some series

/-- `distance.argsort(axis=1)` for one row: positions in ascending order of distance,
NaN last.  Among *tied* distances NumPy's order is unspecified (introsort); the model
takes the stable one and the correspondence only uses rows without ties. -/
def argsortV (row : List V) : List Nat :=
  ((row.zipIdx).mergeSort fun a b => leV a.1 b.1).map (·.2)

/-- `RecurrencePlot.set_adaptive_neighborhood_size(kA, order)`: neighbours from the sorted
distance rows, default order `arange(n)`; the kernel reads `order[j]` for `j < n`
(IndexError when a custom order is shorter and at least one round runs) -/
def adaptivePlot (m : Metric) (emb : List (List V)) (kA : Nat) (order : Option (List Nat)) :
    Res Plot :=
  let D := distRP m emb
  let n := D.length
  let sn := D.map argsortV
  let ord := order.getD (List.range n)
  if ord.length < n ∧ 0 < kA then .indexError else
  (Res.indexError.ofOption (adaptive n kA sn (ord.take n))).bind fun R =>
    .ok ⟨bmTab n R, emb.length, emb.length⟩

/-! ### round 5: *any* argsort — what NumPy returns among tied distances is unspecified
(introsort / SIMD sorts are not stable), so the neighbour table is taken as an input that
only has to *be an argsort*: every row a permutation of the positions along which the
distances are non-decreasing in `ndarray.sort` order (NaN last). -/

/-- adjacent pairs are in `ndarray.sort` order -/
def sortedV : List V → Bool
  | a :: b :: t => leV a b && sortedV (b :: t)
  | _ => true

/-- `p` is *an* argsort of `row` (stable or not): a permutation of `0 … len−1` (its sorted
copy is `range len`) along which the values do not decrease -/
def isArgsortRow (row : List V) (p : List Nat) : Bool :=
  (p.mergeSort (fun a b => decide (a ≤ b)) == List.range row.length) &&
  sortedV (p.map fun c => row.getD c none)

/-- `sn` is an argsort of `D` along axis 1 -/
def argsortOK (D : List (List V)) (sn : List (List Nat)) : Bool :=
  sn.length == D.length && (List.zipWith isArgsortRow D sn).all id

/-- `set_adaptive_neighborhood_size(kA, order)` with the table
`sorted_neighbors = distance.argsort(axis=1)` as NumPy produced it (`adaptivePlot` is the
instance with the stable argsort, `adaptivePlot_eq_with`) -/
def adaptivePlotWith (m : Metric) (emb : List (List V)) (kA : Nat) (order : Option (List Nat))
    (sn : List (List Nat)) : Res Plot :=
  let D := distRP m emb
  let n := D.length
  let ord := order.getD (List.range n)
  if ord.length < n ∧ 0 < kA then .indexError else
  (Res.indexError.ofOption (adaptive n kA sn (ord.take n))).bind fun R =>
    .ok ⟨bmTab n R, emb.length, emb.length⟩

/-- the distance matrix `set_adaptive_neighborhood_size` sorts: with `missing_values=True`
a copy of the distance matrix whose rows and columns of states holding a missing value are
set to `+inf` (`distance[mv, :] = inf; distance[:, mv] = inf` — such states are nobody's
neighbour).  `+inf` is the top of the sort order, and no NaN is left beside it (a NaN
distance involves a state with a missing value), so the top is represented by `none`. -/
def adaptiveDist (m : Metric) (emb : List (List V)) (mv : Bool) : List (List V) :=
  if mv then
    tab emb.length emb.length fun i j =>
      if (missingMask emb).getD i false || (missingMask emb).getD j false then none
      else rpEntry m emb i j
  else distRP m emb

/-- `set_adaptive_neighborhood_size(kA, order)` of an object built with `missing_values = mv`:
`sn` is the argsort NumPy returned for `adaptiveDist`, the kernel runs on it, and the shared
masking block clears rows and columns of states with missing values -/
def adaptivePlotMV (m : Metric) (emb : List (List V)) (kA : Nat) (order : Option (List Nat))
    (sn : List (List Nat)) (mv : Bool) : Res Plot :=
  let n := emb.length
  let ord := order.getD (List.range n)
  if ord.length < n ∧ 0 < kA then .indexError else
  (Res.indexError.ofOption (adaptive n kA sn (ord.take n))).bind fun R =>
    .ok ⟨maskIf mv emb (bmTab n R), emb.length, emb.length⟩

/-- `JointRecurrencePlot.set_fixed_threshold_std`: thresholds `s·std(x)`, `s'·std(y)` of the
stored (un-embedded, un-pruned) series, then the same composition as `set_fixed_threshold` -/
def jointPlotStd (mx my : Metric) (sX sY ex ey : List (List V)) (nRaw nRawY : Nat) (lag : Int)
    (s1 s2 : Rat) : Res Plot :=
  let pr := jointPruned ex ey
  let n := pr.1.length
  let ex := pr.1
  let ey := pr.2
  if !jointGuard nRaw nRawY lag then .valueError else
  let Rx := thresholdSq mx (distRP mx ex) (stdThrSq s1 (varV sX.flatten))
  let Ry := thresholdSq my (distRP my ey) (stdThrSq s2 (varV sY.flatten))
  (Res.valueError.ofOption (jointSlices Rx Ry lag (jBoundsThr n lag))).bind fun JR =>
    .ok ⟨JR, ArithC07.jrpReportedN n lag, ArithC07.jrpReportedN n lag⟩

/-- a network built from any plot: `A = R.copy(); A.flat[::stride] = 0` -/
def networkOf (p : Plot) (stride : Int) : Net :=
  let A := adjacencyOf p.R stride
  ⟨A, p.R, A.length⟩

end Pyunicorn.Recurrence
