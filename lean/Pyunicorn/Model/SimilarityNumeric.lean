import Pyunicorn.Model.Similarity
/-!
# `ClimateNetwork` thresholding *as executed*: NaN entries and float32 rounding (C09, round 4)
— core Lean only

The model of `Model/Similarity.lean` works on exact rationals.  The real class stores
`np.abs(similarity.astype("float32"))`, may be handed matrices with NaN entries (missing
estimates), multiplies by a float32 distance weight in float32 arithmetic, and NumPy compares a
float32 array with a Python-float threshold *after rounding the threshold to float32*.  This file
models exactly that, with the rounding `fl : Rat → Rat` as a parameter:

* an entry is `Option Rat`, `none` = NaN; `np.abs(NaN) = NaN`, `NaN * w = NaN`
* `x > θ` is false as soon as one side is NaN                                   `gtX`
* `similarity.astype("float32")`, `similarity * weight`, `array > θ`            `absX fl`,
  `weightedX fl`, `θ.map fl` in `XNet.setThreshold`
* `flat_corr.sort()` puts the NaNs last                                          `sortX`
* `threshold_from_link_density` may therefore select NaN (→ empty network)       `thresholdFromIndexX`

`rnF p emin` is round-to-nearest-even to `p` significant bits with gradual underflow below
`2^emin` in exact rational arithmetic; `rn24 = rnF 24 (-126)` is IEEE binary32 (overflow aside).
With `fl = id` and no NaN the model is the one of `Model/Similarity.lean` (theorem `embed_run`).
-/
namespace Pyunicorn.Similarity

/-- round-to-nearest-even to `p` significant bits, gradual underflow below `2^emin` -/
def rnF (p : Nat) (emin : Int) (x : Rat) : Rat :=
  if x = 0 then 0 else
    let e := max (binExp (ratAbs x)) emin
    let ulp := twoPow (e - ((p : Int) - 1))
    (roundHalfEven (x / ulp) : Rat) * ulp

/-- IEEE-754 binary32 (values below the overflow threshold) -/
def rn24 : Rat → Rat := rnF 24 (-126)

/-- a matrix whose entries may be NaN (`none`) -/
abbrev XSim := Nat → Nat → Option Rat

/-- l.88: `np.abs(similarity_measure.astype("float32"))` -/
def absX (fl : Rat → Rat) (S0 : XSim) : XSim := fun i j => (S0 i j).map fun s => ratAbs (fl s)

/-- l.483: `similarity_measure * weight` in the arithmetic of the arrays (NaN stays NaN) -/
def weightedX (fl : Rat → Rat) (nl : Bool) (S : XSim) (damp : Sim) : XSim :=
  fun i j => (S i j).map fun s => if nl then fl (s * damp i j) else s

/-- IEEE `x > θ`: false when either side is NaN -/
def gtX (x θ : Option Rat) : Bool :=
  match x, θ with
  | some a, some t => decide (t < a)
  | _, _ => false

def threshFlatX (W : XSim) (θ : Option Rat) (N : Nat) : List Bool :=
  (List.range (N * N)).map fun p => gtX (W (p / N) (p % N)) θ

/-- `_calculate_threshold_adjacency` on a matrix with NaNs / for a NaN threshold -/
def thresholdAdjacencyX (W : XSim) (θ : Option Rat) (N : Nat) : List Bool :=
  zeroStride (N + 1) (threshFlatX W θ N)

def offDiagX (S : XSim) (N : Nat) : List (Option Rat) :=
  ((List.range (N * N)).filter fun p => p / N != p % N).map fun p => S (p / N) (p % N)

/-- the finite values of a list with NaNs -/
def finiteVals : List (Option Rat) → List Rat
  | [] => []
  | none :: t => finiteVals t
  | some a :: t => a :: finiteVals t

/-- `ndarray.sort()`: the finite values ascending, the NaNs last -/
def sortX (l : List (Option Rat)) : List (Option Rat) :=
  (sortAsc (finiteVals l)).map some ++ List.replicate (l.countP Option.isNone) none

/-- `flat_corr[min(k, len - 1)]`; outer `none` = `IndexError`, inner `none` = the value NaN -/
def thresholdFromIndexX (S : XSim) (N k : Nat) : Option (Option Rat) :=
  let l := sortX (offDiagX S N)
  l[min k (l.length - 1)]?

structure XNet where
  N : Nat
  directed : Bool
  S : XSim
  damp : Sim
  nonLocal : Bool
  /-- the reported threshold (unrounded; `none` = NaN) -/
  θ : Option Rat
  A : List Bool
  nLinks : Nat
  density : Option Rat

/-- `set_threshold`: the comparison sees the threshold rounded to the arrays' type -/
def XNet.setThreshold (fl : Rat → Rat) (s : XNet) (θ : Option Rat) : XNet :=
  let A := thresholdAdjacencyX (weightedX fl s.nonLocal s.S s.damp) (θ.map fl) s.N
  { s with θ := θ, A := A, nLinks := countLinks s.directed A, density := linkDensity A s.N }

def XNet.setLinkDensity (fl : Rat → Rat) (s : XNet) (k : Nat) : Option XNet :=
  (thresholdFromIndexX s.S s.N k).map (s.setThreshold fl)

def XNet.setNonLocal (fl : Rat → Rat) (s : XNet) (b : Bool) : XNet :=
  if s.nonLocal != b then ({ s with nonLocal := b }).setThreshold fl s.θ else s

def XNet.regenerate (fl : Rat → Rat) (s : XNet) (S1 : XSim) : XNet :=
  ({ s with S := absX fl S1 }).setThreshold fl s.θ

inductive XOp where
  | thr (θ : Option Rat)
  | dens (k : Nat)
  | nl (b : Bool)
  | resim (S1 : XSim)

def XNet.step (fl : Rat → Rat) (s : XNet) : XOp → Option XNet
  | .thr θ => some (s.setThreshold fl θ)
  | .dens k => s.setLinkDensity fl k
  | .nl b => some (s.setNonLocal fl b)
  | .resim S1 => some (s.regenerate fl S1)

def XNet.run (fl : Rat → Rat) (s : XNet) : List XOp → Option XNet
  | [] => some s
  | o :: os => (s.step fl o).bind fun s' => s'.run fl os

def lastSimX (S0 : XSim) : List XOp → XSim
  | [] => S0
  | .resim S1 :: os => lastSimX S1 os
  | _ :: os => lastSimX S0 os

def xblank (fl : Rat → Rat) (N : Nat) (directed : Bool) (S0 : XSim) (damp : Sim) (nl : Bool) : XNet :=
  { N := N, directed := directed, S := absX fl S0, damp := damp, nonLocal := nl,
    θ := some 0, A := [], nLinks := 0, density := none }

def mkThresholdX (fl : Rat → Rat) (N : Nat) (directed : Bool) (S0 : XSim) (damp : Sim) (nl : Bool)
    (θ : Option Rat) : XNet :=
  (xblank fl N directed S0 damp nl).setThreshold fl θ

def mkDensityX (fl : Rat → Rat) (N : Nat) (directed : Bool) (S0 : XSim) (damp : Sim) (nl : Bool)
    (k : Nat) : Option XNet :=
  (xblank fl N directed S0 damp nl).setLinkDensity fl k

/-- l.485 as executed: every operation of `0.5 * (np.tanh(a * (d - d_min)) + 1)` rounded by the
arithmetic `fl` of the arrays, `th` = the numerical `tanh` -/
def dampOfFl (fl th : Rat → Rat) (a dmin d : Rat) : Rat :=
  fl ((1 / 2) * fl (th (fl (a * fl (d - dmin))) + 1))

def dampMatFl (fl th : Rat → Rat) (a dmin : Rat) (dist : Sim) : Sim :=
  fun i j => dampOfFl fl th a dmin (dist i j)

/-- the exact model as a special case: no NaN -/
def embedSim (S : Sim) : XSim := fun i j => some (S i j)

def embed (s : Net) : XNet :=
  { N := s.N, directed := s.directed, S := embedSim s.S, damp := s.damp, nonLocal := s.nonLocal,
    θ := some s.θ, A := s.A, nLinks := s.nLinks, density := s.density }

def embedOp : Op → XOp
  | .thr θ => .thr (some θ)
  | .dens k => .dens k
  | .nl b => .nl b
  | .resim S1 => .resim (embedSim S1)

/-! ### `link_density_function(n_bins)` (l.343–359)

`np.histogram(similarity, bins=n)` over **all** `N²` stored similarities, normalised, and
`out[i] = hist[:i].sum()`.  The bin edges `e₀ < … < eₙ` are what `np.histogram` returns (the
harness sends them); bin `b < n-1` is `[e_b, e_{b+1})`, the last one is closed. -/

def allEntries (S : Sim) (N : Nat) : List Rat :=
  (List.range (N * N)).map fun p => S (p / N) (p % N)

/-- `hist[b]` for `b < n`: entries in `[e_b, e_{b+1})` (last bin: `[e_{n-1}, e_n]`) -/
def histBin (xs : List Rat) (edges : List Rat) (n b : Nat) : Nat :=
  xs.countP fun x =>
    decide (edges.getD b 0 ≤ x) &&
      (if b + 1 = n then decide (x ≤ edges.getD n 0) else decide (x < edges.getD (b + 1) 0))

/-- `hist` -/
def histogram (xs : List Rat) (edges : List Rat) (n : Nat) : List Nat :=
  (List.range n).map (histBin xs edges n)

/-- the method: `hist /= hist.sum()`, `out[i] = hist[:i].sum()` for `i < n`;
`none` = division by zero (not reachable: every entry falls into a bin) -/
def linkDensityFunction (S : Sim) (N : Nat) (edges : List Rat) (n : Nat) : List Rat :=
  let hist := histogram (allEntries S N) edges n
  let tot : Rat := (hist.sum : Nat)
  (List.range n).map fun i => (((hist.take i).sum : Nat) : Rat) / tot

end Pyunicorn.Similarity
