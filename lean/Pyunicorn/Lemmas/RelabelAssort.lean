import Pyunicorn.Lemmas.RelabelNet
import Pyunicorn.Lemmas.NetAlg
import Mathlib.Algebra.BigOperators.Group.Finset.Basic
import Mathlib.Algebra.BigOperators.Ring.Finset
import Mathlib.Algebra.BigOperators.Group.Finset.Sigma
/-! C04, round 4: `assortativity` (the Python loop over `graph.get_edgelist()`) does not depend on
the node numbering, although the edge list of the renumbered network lists the links in another
order and — on undirected networks — in other orientations. -/
namespace Pyunicorn.Relabel
open Pyunicorn.Net

variable {n : Nat} {idx : Nat → Nat}

theorem sum_flatMap_map {α β : Type} (l : List α) (g : α → List β) (f : β → Rat) :
    ((l.flatMap g).map f).sum = (l.map fun i => ((g i).map f).sum).sum := by
  induction l with
  | nil => simp
  | cons x t ih => simp [List.flatMap_cons, ih]

theorem sum_filter_map {α : Type} (l : List α) (p : α → Bool) (h : α → Rat) :
    ((l.filter p).map h).sum = (l.map fun x => if p x then h x else 0).sum := by
  induction l with
  | nil => simp
  | cons x t ih =>
    by_cases hp : p x = true
    · simp [List.filter_cons, hp, ih]
    · simp [List.filter_cons, hp, ih]

/-- a sum over the edge list as a double sum over all node pairs -/
theorem sum_edgeList (directed : Bool) (a : Adj) (f : Nat → Nat → Rat) :
    ((edgeList directed n a).map fun e => f e.1 e.2).sum
      = ((List.range n).map fun i => ((List.range n).map fun j =>
          if a i j && (directed || decide (i < j)) then f i j else 0).sum).sum := by
  unfold edgeList
  rw [sum_flatMap_map]
  congr 1
  apply List.map_congr_left
  intro i _
  rw [List.map_map]
  exact sum_filter_map _ _ _

/-- double sums over all pairs of nodes -/
def dsum (n : Nat) (G : Nat → Nat → Rat) : Rat :=
  ((List.range n).map fun i => ((List.range n).map fun j => G i j).sum).sum

theorem dsum_relabel (h : IsPerm n idx) (G : Nat → Nat → Rat) :
    dsum n (fun i j => G (idx i) (idx j)) = dsum n G := by
  unfold dsum
  rw [← h.sum_eq (fun i => ((List.range n).map fun j => G i j).sum)]
  congr 1
  apply List.map_congr_left
  intro i _
  exact h.sum_eq (fun j => G (idx i) j)

theorem list_sum_finset (F : Nat → Rat) :
    ((List.range n).map F).sum = ∑ i ∈ Finset.range n, F i := by
  induction n with
  | zero => simp
  | succ n ih => rw [List.range_succ, List.map_append, List.sum_append, ih, Finset.sum_range_succ]; simp

theorem dsum_comm (G : Nat → Nat → Rat) : dsum n (fun i j => G j i) = dsum n G := by
  unfold dsum
  simp only [list_sum_finset]
  exact Finset.sum_comm

theorem dsum_add (G H : Nat → Nat → Rat) : dsum n (fun i j => G i j + H i j) = dsum n G + dsum n H := by
  unfold dsum
  simp only [list_sum_finset, Finset.sum_add_distrib]

theorem dsum_congr (G H : Nat → Nat → Rat) (e : ∀ i j, i < n → j < n → G i j = H i j) :
    dsum n G = dsum n H := by
  unfold dsum
  congr 1
  apply List.map_congr_left
  intro i hi
  congr 1
  apply List.map_congr_left
  intro j hj
  exact e i j (List.mem_range.mp hi) (List.mem_range.mp hj)

/-- the strictly-upper-triangle part of a symmetric double sum: `2 U + D = T` -/
theorem upper_of_symm (G : Nat → Nat → Rat) (hs : ∀ i j, G i j = G j i) :
    2 * dsum n (fun i j => if i < j then G i j else 0)
      = dsum n G - dsum n (fun i j => if i = j then G i j else 0) := by
  have split : dsum n G = dsum n (fun i j => if i < j then G i j else 0)
      + dsum n (fun i j => if j < i then G i j else 0)
      + dsum n (fun i j => if i = j then G i j else 0) := by
    rw [← dsum_add, ← dsum_add]
    apply dsum_congr
    intro i j _ _
    rcases Nat.lt_trichotomy i j with c | c | c
    · simp [c, Nat.lt_asymm c, Nat.ne_of_lt c]
    · subst c; simp
    · have : ¬ i < j := Nat.lt_asymm c
      have : i ≠ j := fun e => by omega
      simp [*]
  have lower : dsum n (fun i j => if j < i then G i j else 0)
      = dsum n (fun i j => if i < j then G i j else 0) := by
    rw [← dsum_comm (fun i j => if i < j then G i j else 0)]
    apply dsum_congr
    intro i j _ _
    simp only [hs i j]
  rw [split, lower]; ring

/-- **sums of a symmetric summand over the edge list are numbering independent** (directed: all
ordered linked pairs; undirected with a symmetric adjacency matrix: each link once, in whatever
orientation the numbering gives it) -/
theorem sum_edgeList_relabel (h : IsPerm n idx) (directed : Bool) (a : Adj)
    (hsym : directed = false → ∀ i j, a i j = a j i) (f f' : Nat → Nat → Rat)
    (hf : ∀ i j, f i j = f j i) (e : ∀ i j, i < n → j < n → f' i j = f (idx i) (idx j)) :
    ((edgeList directed n (mat a idx)).map fun p => f' p.1 p.2).sum
      = ((edgeList directed n a).map fun p => f p.1 p.2).sum := by
  rw [sum_edgeList, sum_edgeList]
  change dsum n _ = dsum n _
  cases directed with
  | true =>
    simp only [Bool.true_or, Bool.and_true]
    rw [← dsum_relabel h (fun i j => if a i j = true then f i j else 0)]
    apply dsum_congr
    intro i j hi hj
    simp only [mat, e i j hi hj]
  | false =>
    have hs := hsym rfl
    simp only [Bool.false_or, Bool.and_eq_true, decide_eq_true_eq]
    -- G = indicator of a link times the summand: symmetric
    have key : ∀ (b : Adj) (g : Nat → Nat → Rat), (∀ i j, b i j = b j i) → (∀ i j, i < n → j < n → g i j = g j i) →
        2 * dsum n (fun i j => if b i j = true ∧ i < j then g i j else 0)
          = dsum n (fun i j => if b i j = true then g i j else 0)
            - dsum n (fun i j => if i = j then (if b i j = true then g i j else 0) else 0) := by
      intro b g hb hg
      -- make the summand symmetric everywhere by cutting it off outside the range
      let G : Nat → Nat → Rat := fun i j => if i < n ∧ j < n then (if b i j = true then g i j else 0) else 0
      have hG : ∀ i j, G i j = G j i := by
        intro i j
        by_cases c : i < n ∧ j < n
        · have c' : j < n ∧ i < n := ⟨c.2, c.1⟩
          simp only [G, c, c', if_true, hb i j, hg i j c.1 c.2]
        · have c' : ¬ (j < n ∧ i < n) := fun x => c ⟨x.2, x.1⟩
          simp only [G, c, c', if_false]
      have := upper_of_symm (n := n) G hG
      rw [dsum_congr (fun i j => if i < j then G i j else 0)
          (fun i j => if b i j = true ∧ i < j then g i j else 0) (by
            intro i j hi hj
            by_cases c1 : b i j = true <;> by_cases c2 : i < j <;> simp [G, hi, hj, c1, c2]),
        dsum_congr G (fun i j => if b i j = true then g i j else 0) (by
            intro i j hi hj; simp [G, hi, hj]),
        dsum_congr (fun i j => if i = j then G i j else 0)
          (fun i j => if i = j then (if b i j = true then g i j else 0) else 0) (by
            intro i j hi hj; simp [G, hi, hj])] at this
      exact this
    have k1 := key (mat a idx) f' (fun i j => hs (idx i) (idx j)) (fun i j hi hj => by
      rw [e i j hi hj, e j i hj hi, hf])
    have k2 := key a f hs (fun i j _ _ => hf i j)
    have t1 : dsum n (fun i j => if mat a idx i j = true then f' i j else 0)
        = dsum n (fun i j => if a i j = true then f i j else 0) := by
      rw [← dsum_relabel h (fun i j => if a i j = true then f i j else 0)]
      apply dsum_congr
      intro i j hi hj
      simp only [mat, e i j hi hj]
    have t2 : dsum n (fun i j => if i = j then (if mat a idx i j = true then f' i j else 0) else 0)
        = dsum n (fun i j => if i = j then (if a i j = true then f i j else 0) else 0) := by
      rw [← dsum_relabel h (fun i j => if i = j then (if a i j = true then f i j else 0) else 0)]
      apply dsum_congr
      intro i j hi hj
      simp only [mat, e i j hi hj, h.eq_iff hi hj]
    rw [t1, t2, ← k2] at k1
    linarith

theorem sum_ones {α : Type} (l : List α) : (l.map fun _ => (1 : Rat)).sum = (l.length : Rat) := by
  induction l with
  | nil => simp
  | cons x t ih => simp only [List.map_cons, List.sum_cons, ih, List.length_cons]; push_cast; ring

/-- **`assortativity()`** — the Python loop over `graph.get_edgelist()` with its three accumulators
and the `ZeroDivisionError` branches — returns the same value (or raises alike) on the renumbered
network -/
theorem assortativity_relabel (h : IsPerm n idx) (directed : Bool) (a : Adj)
    (hsym : directed = false → ∀ i j, a i j = a j i) :
    assortativity directed n (mat a idx) = assortativity directed n a := by
  have hdeg : ∀ i, degree directed n (mat a idx) i = degree directed n a (idx i) :=
    fun i => degree_relabel h directed a i
  set deg := degree directed n a with hdegdef
  set deg' := degree directed n (mat a idx) with hdeg'def
  set es := edgeList directed n a with hes
  set es' := edgeList directed n (mat a idx) with hes'
  have S := fun (f f' : Nat → Nat → Rat) hf e =>
    sum_edgeList_relabel h directed a hsym f f' hf e
  have L : es'.length = es.length := by
    have := S (fun _ _ => 1) (fun _ _ => 1) (fun _ _ => rfl) (fun _ _ _ _ => rfl)
    rw [sum_ones, sum_ones] at this
    exact_mod_cast this
  obtain ⟨a1, a2, a3⟩ := ass_foldl deg es ⟨0, 0, 0⟩
  obtain ⟨b1, b2, b3⟩ := ass_foldl deg' es' ⟨0, 0, 0⟩
  have N1 : ((es'.foldl (assStep deg') ⟨0, 0, 0⟩).num1 : Rat)
      = ((es.foldl (assStep deg) ⟨0, 0, 0⟩).num1 : Rat) := by
    rw [a1, b1]
    congr 1
    exact S (fun i j => (deg i : Rat) * (deg j : Rat)) (fun i j => (deg' i : Rat) * (deg' j : Rat))
      (fun i j => mul_comm _ _) (fun i j _ _ => by rw [hdeg i, hdeg j])
  have N2 : ((es'.foldl (assStep deg') ⟨0, 0, 0⟩).num2 : Rat)
      = ((es.foldl (assStep deg) ⟨0, 0, 0⟩).num2 : Rat) := by
    rw [a2, b2]
    congr 1
    exact S (fun i j => (deg i : Rat) + (deg j : Rat)) (fun i j => (deg' i : Rat) + (deg' j : Rat))
      (fun i j => add_comm _ _) (fun i j _ _ => by rw [hdeg i, hdeg j])
  have N3 : ((es'.foldl (assStep deg') ⟨0, 0, 0⟩).den1 : Rat)
      = ((es.foldl (assStep deg) ⟨0, 0, 0⟩).den1 : Rat) := by
    rw [a3, b3]
    congr 1
    exact S (fun i j => (deg i : Rat) * (deg i : Rat) + (deg j : Rat) * (deg j : Rat))
      (fun i j => (deg' i : Rat) * (deg' i : Rat) + (deg' j : Rat) * (deg' j : Rat))
      (fun i j => add_comm _ _) (fun i j _ _ => by rw [hdeg i, hdeg j])
  unfold assortativity
  simp only [← hdegdef, ← hdeg'def, ← hes, ← hes', L, N1, N2, N3]

end Pyunicorn.Relabel
