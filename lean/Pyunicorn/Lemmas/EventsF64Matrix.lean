import Pyunicorn.Lemmas.EventsF64
import Pyunicorn.Lemmas.EventsSpec

/-!
# C16 round 5 — the float64 ES analysis *matrix*: the six helpers on doubles

`symmOpF64` is what `_symmetrization_*` computes on two doubles (`matrix + matrix.T`,
`matrix - matrix.T` and the sum inside `np.mean` are rounded once, halving / `np.maximum` /
`np.minimum` / the identity are exact).  This file proves, for *all* doubles in `[0,1]`:

* the sum stays in `[0,2]`, the difference in `[-1,1]` (`symmOpF64_sum_diff_range`);
* rounding is odd (`rn53s_neg`), hence `symmetric` / `mean` / `max` / `min` commute and
  `antisym` changes sign when the two entries are exchanged — at the level of the returned bits;
* each helper is within `2⁻⁵³` relative of the exact table entry (`symmOpF64_err`).
-/

namespace Pyunicorn.Events
open Pyunicorn.Similarity

/-- rounding to nearest even is odd: `fl(-x) = -fl(x)` (the model of IEEE negation symmetry) -/
theorem rn53s_neg (x : ℚ) : rn53s (-x) = -(rn53s x) := by
  rcases lt_trichotomy x 0 with h | h | h
  · have h' : ¬ (-x < 0) := by linarith
    unfold rn53s
    rw [if_neg h', if_pos h, neg_neg]
  · subst h
    unfold rn53s rn53
    simp
  · have h' : -x < 0 := by linarith
    have h'' : ¬ (x < 0) := by linarith
    unfold rn53s
    rw [if_pos h', if_neg h'', neg_neg]

theorem rn53s_abs_le_two_pow (x : ℚ) (k : ℕ) (h : |x| ≤ 2 ^ k) : |rn53s x| ≤ 2 ^ k := by
  have hx := abs_le.1 h
  unfold rn53s
  split
  · rw [abs_neg, abs_of_nonneg (rn53_nonneg _)]
    exact rn53_le_two_pow _ k (by linarith [hx.1])
  · rw [abs_of_nonneg (rn53_nonneg _)]
    exact rn53_le_two_pow _ k hx.2

theorem rn53s_nonneg_of_nonneg (x : ℚ) (hx : 0 ≤ x) : 0 ≤ rn53s x := by
  rw [rn53s_of_nonneg x hx]; exact rn53_nonneg x

/-- one signed rounding loses at most the fraction `2⁻⁵³` -/
theorem rn53s_err (x : ℚ) : |rn53s x - x| ≤ |x| / 2 ^ 53 := by
  rcases le_or_gt 0 x with h | h
  · rw [rn53s_of_nonneg x h, abs_of_nonneg h]
    exact rn53_err x h
  · have hn : 0 ≤ -x := by linarith
    unfold rn53s
    rw [if_pos h, abs_of_neg h]
    have := rn53_err (-x) hn
    have e : -rn53 (-x) - x = -(rn53 (-x) - -x) := by ring
    rw [e, abs_neg]
    exact this

/-- **`symmetric` and `antisym` on doubles**: the rounded sum of two doubles in `[0,1]` lies in
`[0,2]`, the rounded difference in `[-1,1]` -/
theorem symmOpF64_sum_diff_range (a b : ℚ) (ha : 0 ≤ a ∧ a ≤ 1) (hb : 0 ≤ b ∧ b ≤ 1) :
    (0 ≤ symmOpF64 .symmetric a b ∧ symmOpF64 .symmetric a b ≤ 2) ∧
    (-1 ≤ symmOpF64 .antisym a b ∧ symmOpF64 .antisym a b ≤ 1) := by
  simp only [symmOpF64]
  constructor
  · have h0 : 0 ≤ a + b := by linarith [ha.1, hb.1]
    refine ⟨rn53s_nonneg_of_nonneg _ h0, ?_⟩
    rw [rn53s_of_nonneg _ h0]
    have := rn53_le_two_pow (a + b) 1 (by norm_num; linarith [ha.2, hb.2])
    simpa using this
  · have h : |a - b| ≤ 2 ^ 0 := by
      rw [pow_zero, abs_le]; constructor <;> linarith [ha.1, ha.2, hb.1, hb.2]
    have := abs_le.1 (rn53s_abs_le_two_pow _ 0 h)
    simpa using this

/-- the symmetric helpers commute on doubles (same bits for `[i,j]` and `[j,i]`) -/
theorem symmOpF64_comm (s : Symm) (hs : s = .symmetric ∨ s = .mean ∨ s = .max ∨ s = .min)
    (a b : ℚ) : symmOpF64 s a b = symmOpF64 s b a := by
  rcases hs with rfl | rfl | rfl | rfl <;> simp only [symmOpF64]
  · rw [add_comm]
  · rw [add_comm]
  · exact max_comm a b
  · exact min_comm a b

/-- `antisym` on doubles: exchanging the entries flips the sign exactly -/
theorem symmOpF64_antisym (a b : ℚ) : symmOpF64 .antisym a b = -(symmOpF64 .antisym b a) := by
  simp only [symmOpF64]
  rw [← rn53s_neg]
  congr 1
  ring

/-- **accuracy of every helper on doubles**: within `2⁻⁵³` relative of the exact table entry -/
theorem symmOpF64_err (s : Symm) (a b : ℚ) :
    |symmOpF64 s a b - symmOp s a b| ≤ |symmOp s a b| / 2 ^ 53 := by
  cases s <;> simp only [symmOpF64, symmOp]
  · simp; positivity
  · exact rn53s_err _
  · exact rn53s_err _
  · have h := rn53s_err (a + b)
    have e : rn53s (a + b) / 2 - (a + b) / 2 = (rn53s (a + b) - (a + b)) / 2 := by ring
    rw [e, abs_div, abs_div]
    have h2 : |(2 : ℚ)| = 2 := abs_of_pos (by norm_num)
    rw [h2]
    have : |rn53s (a + b) - (a + b)| / 2 ≤ |a + b| / 2 ^ 53 / 2 :=
      div_le_div_of_nonneg_right h (by norm_num)
    calc |rn53s (a + b) - (a + b)| / 2 ≤ |a + b| / 2 ^ 53 / 2 := this
      _ = |a + b| / 2 / 2 ^ 53 := by ring
  · simp; positivity
  · simp; positivity

/-- the NaN-propagating lift: value exactly when both entries are values (`directed`: when the
first is) -/
theorem symmOpF64N_some (s : Symm) (a b : ℚ) :
    symmOpF64N s (some a) (some b) = some (symmOpF64 s a b) := by
  cases s <;> rfl

theorem symmOpF64N_none (s : Symm) : symmOpF64N s none none = none := by
  cases s <;> rfl

/-- `ts[series == 1]` has at most as many entries as `ts` -/
theorem select_length_le (ts : List ℚ) (b : List Bool) : (select ts b).length ≤ ts.length :=
  (select_sublist ts b).length_le

/-- records of up to `2²⁴` samples give a norm `(lx-2)(ly-2) ≤ 2⁴⁸` -/
theorem norm_le_of_length (ts1 ts2 : List ℚ) (bx by_ : List Bool)
    (h1 : ts1.length ≤ 2 ^ 24) (h2 : ts2.length ≤ 2 ^ 24) :
    ((select ts1 bx).length - 2) * ((select ts2 by_).length - 2) ≤ 2 ^ 48 := by
  have a := select_length_le ts1 bx
  have b := select_length_le ts2 by_
  calc ((select ts1 bx).length - 2) * ((select ts2 by_).length - 2)
      ≤ 2 ^ 24 * 2 ^ 24 := Nat.mul_le_mul (by omega) (by omega)
    _ = 2 ^ 48 := by norm_num

end Pyunicorn.Events
