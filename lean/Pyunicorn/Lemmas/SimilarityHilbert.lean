import Pyunicorn.Model.SimilarityHilbert
import Pyunicorn.Lemmas.Similarity
/-! Lemmas about the phase mask of `HilbertClimateNetwork` and the normal form of its states. -/
namespace Pyunicorn.Similarity

theorem length_phaseMask (P : Sim) (N : Nat) (A : List Bool) :
    (phaseMask P N A).length = A.length := by simp [phaseMask]

theorem getElem?_phaseMask (P : Sim) (N : Nat) (A : List Bool) (p : Nat) :
    (phaseMask P N A)[p]? = A[p]?.map fun b => b && decide (0 < P (p / N) (p % N)) := by
  simp [phaseMask, List.getElem?_mapIdx]

/-- applying the mask twice (`set_threshold` inside `__init__` / `_regenerate_network`, then
`_set_directed(d, False)`) is applying it once -/
theorem phaseMask_idem (P : Sim) (N : Nat) (A : List Bool) :
    phaseMask P N (phaseMask P N A) = phaseMask P N A := by
  apply List.ext_getElem?
  intro p
  rw [getElem?_phaseMask, getElem?_phaseMask]
  cases A[p]? <;> simp

/-- the mask only removes links -/
theorem nnz_phaseMask_le (P : Sim) (N : Nat) (A : List Bool) : nnz (phaseMask P N A) ≤ nnz A := by
  unfold nnz phaseMask
  rw [List.count_eq_countP, List.count_eq_countP, List.mapIdx_eq_zipIdx_map, List.countP_map]
  have h : A.countP (· == true) = (A.zipIdx).countP ((· == true) ∘ Prod.fst) := by
    rw [← List.countP_map]; simp
  rw [h]
  apply List.countP_mono_left
  intro x _
  simp only [Function.comp, beq_iff_eq, Bool.and_eq_true]
  exact fun hx => hx.1

/-- the adjacency a Hilbert network with settings `(d, P, W, θ)` has -/
def hilbertAdjacency (d : Bool) (P W : Sim) (θ : Rat) (N : Nat) : List Bool :=
  if d then phaseMask P N (thresholdAdjacency W θ N) else thresholdAdjacency W θ N

/-- the state of a Hilbert network with the given settings, in closed form -/
def hilbertState (N : Nat) (d : Bool) (S P damp : Sim) (nl : Bool) (θ : Rat) : HNet :=
  let A := hilbertAdjacency d P (weighted nl S damp) θ N
  { net := { N := N, directed := d, S := S, damp := damp, nonLocal := nl, θ := θ, A := A,
             nLinks := countLinks d A, density := linkDensity A N },
    phase := P }

theorem setThreshold_eq_state (h : HNet) (θ : Rat) :
    h.setThreshold θ
      = hilbertState h.net.N h.net.directed h.net.S h.phase h.net.damp h.net.nonLocal θ := by
  obtain ⟨⟨N, d, S, damp, nl, θ0, A, n, dens⟩, P⟩ := h
  cases d <;>
    simp [HNet.setThreshold, HNet.maskIf, Net.setThreshold, Net.assignAdjacency, hilbertState,
      hilbertAdjacency]

theorem maskIf_state (N : Nat) (d : Bool) (S P damp : Sim) (nl : Bool) (θ : Rat) :
    (hilbertState N d S P damp nl θ).maskIf d = hilbertState N d S P damp nl θ := by
  cases d <;>
    simp [HNet.maskIf, hilbertState, hilbertAdjacency, Net.assignAdjacency, phaseMask_idem]

theorem reassign_state (N : Nat) (d : Bool) (S P damp : Sim) (nl : Bool) (θ : Rat) :
    ({ hilbertState N d S P damp nl θ with
        net := (hilbertState N d S P damp nl θ).net.assignAdjacency
          (hilbertState N d S P damp nl θ).net.A } : HNet)
      = hilbertState N d S P damp nl θ := by
  simp [hilbertState, Net.assignAdjacency]

theorem mkHilbert_eq_state (N : Nat) (d : Bool) (S0 P damp : Sim) (nl : Bool) (θ : Rat) :
    mkHilbert N d S0 P damp nl θ = hilbertState N d (absSim S0) P damp nl θ := by
  unfold mkHilbert
  simp only [setThreshold_eq_state, hblank, blank]
  rw [reassign_state, maskIf_state]

theorem setDirected_eq_state (h : HNet) (d : Bool) (S1 P1 : Sim) :
    h.setDirected d S1 P1
      = hilbertState h.net.N d (absSim S1) P1 h.net.damp h.net.nonLocal h.net.θ := by
  unfold HNet.setDirected HNet.regenerate HNet.storeCoherence
  simp only [setThreshold_eq_state]
  rw [reassign_state, maskIf_state]

theorem setNonLocal_eq_state (h : HNet) (b : Bool)
    (hc : h = hilbertState h.net.N h.net.directed h.net.S h.phase h.net.damp h.net.nonLocal h.net.θ) :
    h.setNonLocal b
      = hilbertState h.net.N h.net.directed h.net.S h.phase h.net.damp b h.net.θ := by
  unfold HNet.setNonLocal
  by_cases hb : (h.net.nonLocal != b) = true
  · rw [if_pos hb, setThreshold_eq_state]
  · rw [if_neg hb]
    have : h.net.nonLocal = b := by simpa using hb
    rw [← this]; exact hc

end Pyunicorn.Similarity
