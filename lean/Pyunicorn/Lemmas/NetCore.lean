import Pyunicorn.Lemmas.Net
/-!
Coreness by peeling (core Lean only): one round of `peel` keeps every node set whose induced degrees
are all `≥ k`, and a fixpoint of the round is itself such a set — so a peeling that stops at a fixpoint
returns the largest such set (the `k`-core).
-/
namespace Pyunicorn.Net

/-- `S ⊆ T` for node sets given as Boolean lists -/
def SubB (S T : List Bool) : Prop := ∀ v, S.getD v false = true → T.getD v false = true

/-- every node of `S` has at least `k` links (in + out for directed networks) to other nodes of `S` -/
def MinDeg (n : Nat) (a : Adj) (directed : Bool) (k : Nat) (S : List Bool) : Prop :=
  ∀ v, S.getD v false = true → v < n ∧ k ≤ aliveDeg n a directed S v

/-- one round of the peeling loop -/
def peelStep (n : Nat) (a : Adj) (directed : Bool) (k : Nat) (alive : List Bool) : List Bool :=
  (List.range n).map fun v => alive.getD v false && decide (aliveDeg n a directed alive v ≥ k)

theorem sumTo_le (n : Nat) (f g : Nat → Nat) (h : ∀ j, j < n → f j ≤ g j) : sumTo n f ≤ sumTo n g := by
  induction n with
  | zero => simp [sumTo]
  | succ m ih =>
    rw [sumTo_succ, sumTo_succ]
    have := ih (fun j hj => h j (Nat.lt_succ_of_lt hj))
    have := h m (Nat.lt_succ_self m)
    omega

theorem aliveDeg_mono (n : Nat) (a : Adj) (directed : Bool) (S T : List Bool) (h : SubB S T) (v : Nat) :
    aliveDeg n a directed S v ≤ aliveDeg n a directed T v := by
  apply sumTo_le
  intro u _
  by_cases hs : S.getD u false = true
  · have hT := h u hs
    show (if (S.getD u false && u != v) = true then _ else 0)
      ≤ (if (T.getD u false && u != v) = true then _ else 0)
    rw [hs, hT]
    exact Nat.le_refl _
  · have hf : S.getD u false = false := by
      cases hb : S.getD u false with
      | false => rfl
      | true => exact absurd hb hs
    show (if (S.getD u false && u != v) = true then _ else 0)
      ≤ (if (T.getD u false && u != v) = true then _ else 0)
    rw [hf]
    exact Nat.zero_le _

theorem getD_map_range (n : Nat) (f : Nat → Bool) (v : Nat) :
    ((List.range n).map f).getD v false = if v < n then f v else false := by
  by_cases h : v < n
  · simp [List.getD, h]
  · simp [List.getD, h]

theorem peelStep_getD (n : Nat) (a : Adj) (directed : Bool) (k : Nat) (alive : List Bool) (v : Nat) :
    (peelStep n a directed k alive).getD v false
      = if v < n then (alive.getD v false && decide (aliveDeg n a directed alive v ≥ k)) else false :=
  getD_map_range n _ v

/-- a round never revives a node -/
theorem peelStep_sub (n : Nat) (a : Adj) (directed : Bool) (k : Nat) (alive : List Bool) :
    SubB (peelStep n a directed k alive) alive := by
  intro v hv
  rw [peelStep_getD] at hv
  by_cases h : v < n
  · simp only [h, if_true, Bool.and_eq_true] at hv; exact hv.1
  · simp [h] at hv

/-- a round keeps every set of minimum induced degree `k` -/
theorem peelStep_keeps (n : Nat) (a : Adj) (directed : Bool) (k : Nat) (S alive : List Bool)
    (hS : MinDeg n a directed k S) (hsub : SubB S alive) :
    SubB S (peelStep n a directed k alive) := by
  intro v hv
  obtain ⟨hvn, hk⟩ := hS v hv
  rw [peelStep_getD]
  have := aliveDeg_mono n a directed S alive hsub v
  simp only [hvn, if_true, hsub v hv, Bool.true_and, decide_eq_true_eq]
  omega

/-- a fixpoint of the round has minimum induced degree `k` -/
theorem peelStep_fixpoint (n : Nat) (a : Adj) (directed : Bool) (k : Nat) (alive : List Bool)
    (hfix : peelStep n a directed k alive = alive) : MinDeg n a directed k alive := by
  intro v hv
  have h := peelStep_getD n a directed k alive v
  rw [hfix, hv] at h
  by_cases hvn : v < n
  · simp only [hvn, if_true, hv, Bool.true_and] at h
    exact ⟨hvn, by simpa using h.symm⟩
  · simp [hvn] at h

theorem peel_unfold (n : Nat) (a : Adj) (directed : Bool) (k fuel : Nat) (alive : List Bool) :
    peel n a directed k (fuel + 1) alive =
      if (peelStep n a directed k alive == alive) = true then alive
      else peel n a directed k fuel (peelStep n a directed k alive) := by
  simp [peel, peelStep]

theorem peel_keeps (n : Nat) (a : Adj) (directed : Bool) (k : Nat) (S : List Bool)
    (hS : MinDeg n a directed k S) (fuel : Nat) (alive : List Bool) (hsub : SubB S alive) :
    SubB S (peel n a directed k fuel alive) := by
  induction fuel generalizing alive with
  | zero => exact hsub
  | succ f ih =>
    rw [peel_unfold]
    split
    · exact hsub
    · exact ih _ (peelStep_keeps n a directed k S alive hS hsub)

theorem peel_sub (n : Nat) (a : Adj) (directed : Bool) (k fuel : Nat) (alive : List Bool) :
    SubB (peel n a directed k fuel alive) alive := by
  induction fuel generalizing alive with
  | zero => exact fun _ h => h
  | succ f ih =>
    rw [peel_unfold]
    split
    · exact fun _ h => h
    · exact fun v hv => peelStep_sub n a directed k alive v (ih _ v hv)

end Pyunicorn.Net
