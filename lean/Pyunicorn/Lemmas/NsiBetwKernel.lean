import Pyunicorn.Lemmas.NsiCompConn
import Pyunicorn.Lemmas.NetBetwKernel
import Pyunicorn.Lemmas.NsiBetwWalk
/-!
Round 5b: the two definitions of n.s.i. shortest-path betweenness agree.

* C03 (`Model/NetBetwDef.lean`): the pair-dependency definition `nsiBetweennessDef`
  (`sigLev` / `sigThruLev`: recursion over the LAST link of a shortest path, levels of a
  distance matrix `d`), proved equal to the model of the Cython kernel `_nsi_betweenness` for
  every undirected network (`NetBetw.nsiBetweenness_eq_def_full`);
* C02 (`Model/NsiBetw.lean`): `nsiBetw` (`wcount`: transfer recursion over the FIRST link,
  `bcTerm = n*_st(i) / (w_i n*_st)`), proved node-splitting invariant.

Here: for every graph whose `dist` is the shortest-path length, `nsiBetweennessDef` with sources
`S` and targets `T` is `nsiBetw G T S` (`def_eq_nsiBetw`).
-/
namespace Pyunicorn.Nsi
open Pyunicorn.NetBetw

/-- `dist` is the shortest-path length inside the node range -/
def DistOK (G : Gr) : Prop := ∀ a b, a < G.n → b < G.n → IsDist G a b (G.dist a b)

theorem wcount_unfold (G : Gr) (k a b : Nat) :
    wcount G (k + 1) a b
      = Net.sumToQ G.n (fun c => G.w c * (if G.adj a c = true then wcount G k c b else 0)) := rfl

theorem wcount_zero_of_no_walk (G : Gr) (k a b : Nat) (ha : a < G.n) (h : ¬ Walk G a b k) :
    wcount G k a b = 0 := by
  by_contra h0
  exact h (walk_of_wcount_ne_zero G k a b ha h0)

/-- the weighted walk count by recursion over the LAST link -/
theorem wcount_last (G : Gr) (k : Nat) : ∀ a b, a < G.n → b < G.n →
    wcount G (k + 1) a b
      = Net.sumToQ G.n (fun c => if G.adj c b = true then wcount G k a c else 0) * G.w b := by
  induction k with
  | zero =>
    intro a b ha hb
    rw [wcount_unfold]
    have h1 : ∀ c, c < G.n → G.w c * (if G.adj a c = true then wcount G 0 c b else 0)
        = if c = b then G.w c * (if G.adj a c = true then 1 else 0) else 0 := by
      intro c _
      by_cases e : c = b <;> simp [wcount, e]
    have h2 : ∀ c, c < G.n → (if G.adj c b = true then wcount G 0 a c else 0)
        = if c = a then (if G.adj c b = true then (1 : Rat) else 0) else 0 := by
      intro c _
      by_cases e : c = a
      · subst e; simp [wcount]
      · have : ¬ a = c := fun h => e h.symm
        simp [wcount, e, this]
    rw [Net.sumToQ_congrLt _ _ _ h1, Net.sumToQ_congrLt _ _ _ h2, NetBetw.sumToQ_single _ _ hb,
      NetBetw.sumToQ_single _ _ ha]
    by_cases h : G.adj a b = true <;> simp [h]
  | succ k ih =>
    intro a b ha hb
    rw [wcount_unfold]
    have h1 : ∀ c, c < G.n → G.w c * (if G.adj a c = true then wcount G (k + 1) c b else 0)
        = Net.sumToQ G.n (fun e => G.w c * (if G.adj a c = true then
            (if G.adj e b = true then wcount G k c e else 0) else 0)) * G.w b := by
      intro c hc
      rw [ih c b hc hb]
      by_cases h : G.adj a c = true
      · simp only [h, if_true]; rw [Net.sumToQ_mul_left']; ring
      · simp [h, Net.sumToQ_const_zero]
    rw [Net.sumToQ_congrLt _ _ _ h1, Net.sumToQ_mul_right', Net.sumToQ_comm']
    congr 1
    apply Net.sumToQ_congrLt
    intro e _
    by_cases h : G.adj e b = true
    · simp only [h, if_true]; rw [wcount_unfold]
    · simp [h, Net.sumToQ_const_zero]

/-- `sigLev` (C03: weighted number of shortest paths, both end weights included) is
`w_j · wcount` -/
theorem sigLev_eq (G : Gr) (hd : DistOK G) (j : Nat) (hj : j < G.n) : ∀ k s, s < G.n →
    G.dist j s = some k → sigLev G.n G.adj G.w G.dist j k s = G.w j * wcount G k j s := by
  intro k
  induction k with
  | zero =>
    intro s hs h
    have hd' := hd j s hj hs; rw [h] at hd'
    have e : j = s := hd'.1.zero_eq
    subst e; simp [sigLev, wcount]
  | succ k ih =>
    intro s hs h
    have hd' := hd j s hj hs; rw [h] at hd'
    simp only [sigLev, h, if_true]
    rw [wcount_last G k j s hj hs]
    have ht : ∀ i, i < G.n →
        (if isPred G.adj G.dist j i s = true then sigLev G.n G.adj G.w G.dist j k i else 0)
          = G.w j * (if G.adj i s = true then wcount G k j i else 0) := by
      intro i hi
      by_cases ha : G.adj i s = true
      · have hdi := hd j i hj hi
        cases hx : G.dist j i with
        | none =>
          rw [hx] at hdi
          have : wcount G k j i = 0 := wcount_zero_of_no_walk G k j i hj (hdi k)
          simp [isPred, ha, hx, h, this]
        | some x =>
          rw [hx] at hdi
          by_cases hxk : x = k
          · subst hxk
            simp [isPred, ha, hx, h, ih i hi hx]
          · have : wcount G k j i = 0 := by
              apply wcount_zero_of_no_walk G k j i hj
              intro wk
              have h1 : x ≤ k := hdi.2 k wk
              have h2 := hd'.2 (x + 1) (walk_snoc hdi.1 s hs ha)
              omega
            simp [isPred, ha, hx, h, hxk, this]
      · simp [isPred, ha]
    rw [Net.sumToQ_congrLt _ _ _ ht, Net.sumToQ_mul_left']
    ring

/-- closed form of `sigThruLev`: `w_j · n(j→v) · n(v→s)` if `v` is not farther from `j` than the
level, else 0 (the second count vanishes unless `v` lies on a shortest path to `s`) -/
def thruForm (G : Gr) (j v k s : Nat) : Rat :=
  match G.dist j v with
  | some d1 => if d1 ≤ k then G.w j * wcount G d1 j v * wcount G (k - d1) v s else 0
  | none => 0

theorem thruForm_zero (G : Gr) (hd : DistOK G) (j v k i : Nat) (hj : j < G.n) (hv : v < G.n)
    (h : ¬ Walk G j i k) : thruForm G j v k i = 0 := by
  unfold thruForm
  have hdv := hd j v hj hv
  cases hx : G.dist j v with
  | none => rfl
  | some d1 =>
    rw [hx] at hdv
    by_cases hle : d1 ≤ k
    · have : wcount G (k - d1) v i = 0 := by
        apply wcount_zero_of_no_walk G _ v i hv
        intro wk
        apply h
        have := walk_append hdv.1 wk
        rwa [show d1 + (k - d1) = k by omega] at this
      simp [hle, this]
    · simp [hle]

theorem sigThruLev_eq (G : Gr) (hd : DistOK G) (j : Nat) (hj : j < G.n) (v : Nat) (hv : v < G.n) :
    ∀ k s, s < G.n → G.dist j s = some k →
      sigThruLev G.n G.adj G.w G.dist j v k s = thruForm G j v k s := by
  intro k
  induction k with
  | zero =>
    intro s hs h
    have hd' := hd j s hj hs; rw [h] at hd'
    have e : j = s := hd'.1.zero_eq
    subst e
    by_cases hjv : j = v
    · subst hjv
      simp [sigThruLev, sigLev, thruForm, h, wcount]
    · have hdv := hd j v hj hv
      simp only [sigThruLev, if_neg hjv]
      unfold thruForm
      cases hx : G.dist j v with
      | none => rfl
      | some d1 =>
        rw [hx] at hdv
        by_cases hle : d1 ≤ 0
        · have : d1 = 0 := by omega
          subst this
          exact absurd hdv.1.zero_eq hjv
        · simp [hle]
  | succ k ih =>
    intro s hs h
    have hd' := hd j s hj hs; rw [h] at hd'
    by_cases hsv : s = v
    · subst hsv
      simp only [sigThruLev, if_true]
      rw [sigLev_eq G hd j hj (k + 1) s hs h]
      simp [thruForm, h, wcount]
    · simp only [sigThruLev, if_neg hsv, h, if_true]
      have ht : ∀ i, i < G.n →
          (if isPred G.adj G.dist j i s = true then sigThruLev G.n G.adj G.w G.dist j v k i else 0)
            = (if G.adj i s = true then thruForm G j v k i else 0) := by
        intro i hi
        by_cases ha : G.adj i s = true
        · have hdi := hd j i hj hi
          cases hx : G.dist j i with
          | none =>
            rw [hx] at hdi
            have := thruForm_zero G hd j v k i hj hv (hdi k)
            simp [isPred, ha, hx, h, this]
          | some x =>
            rw [hx] at hdi
            by_cases hxk : x = k
            · subst hxk
              simp [isPred, ha, hx, h, ih i hi hx]
            · have : thruForm G j v k i = 0 := by
                apply thruForm_zero G hd j v k i hj hv
                intro wk
                have h1 : x ≤ k := hdi.2 k wk
                have h2 := hd'.2 (x + 1) (walk_snoc hdi.1 s hs ha)
                omega
              simp [isPred, ha, hx, h, hxk, this]
        · simp [isPred, ha]
      rw [Net.sumToQ_congrLt _ _ _ ht]
      have hdv := hd j v hj hv
      unfold thruForm
      cases hx : G.dist j v with
      | none => simp [Net.sumToQ_const_zero]
      | some d1 =>
        rw [hx] at hdv
        simp only []
        by_cases hle : d1 ≤ k
        · have hle' : d1 ≤ k + 1 := by omega
          simp only [hle, hle', if_true]
          rw [show k + 1 - d1 = (k - d1) + 1 by omega, wcount_last G (k - d1) v s hv hs]
          have ht2 : ∀ i, i < G.n →
              (if G.adj i s = true then G.w j * wcount G d1 j v * wcount G (k - d1) v i else 0)
                = (G.w j * wcount G d1 j v) *
                    (if G.adj i s = true then wcount G (k - d1) v i else 0) := by
            intro i _
            by_cases ha : G.adj i s = true <;> simp [ha]
          rw [Net.sumToQ_congrLt _ _ _ ht2, Net.sumToQ_mul_left']
          ring
        · simp only [hle, if_false]
          rw [NetBetw.sumToQ_zero_of _ _ (fun i _ => by simp)]
          by_cases hle' : d1 ≤ k + 1
          · have e : d1 = k + 1 := by omega
            subst e
            have hvs : ¬ v = s := fun e => hsv e.symm
            simp [wcount, hvs]
          · simp [hle']

/-- one (target `j`, source `s`) pair: C03's `w_s · σ_js(v)/σ_js / w_v` is C02's
`w_s · bcTerm` -/
theorem pair_term_eq (G : Gr) (hd : DistOK G) (hw : ∀ k, k < G.n → 0 < G.w k) (S : Nat → Bool)
    (j v s : Nat) (hj : j < G.n) (hv : v < G.n) (hs : s < G.n) (hsv : s ≠ v) :
    (if (s != v && (G.dist j s).isSome) = true then
        excess G.w ((List.range G.n).map S) s * pairDep G.n G.adj G.w G.dist j v s else 0) / G.w v
      = G.w s * (if S s = true then bcTerm G v j s else 0) := by
  have hex : excess G.w ((List.range G.n).map S) s = if S s = true then G.w s else 0 := by
    simp [excess, List.getD, hs]
  have hwj : G.w j ≠ 0 := ne_of_gt (hw j hj)
  have hwv : G.w v ≠ 0 := ne_of_gt (hw v hv)
  have hne : (s != v) = true := by simp [hsv]
  have hdjs := hd j s hj hs
  have hdjv := hd j v hj hv
  have hdvs := hd v s hv hs
  cases hk : G.dist j s with
  | none =>
    cases h1 : G.dist j v <;> cases h2 : G.dist v s <;> simp [bcTerm, h1, h2, hk]
  | some k =>
    rw [hk] at hdjs
    have hC : wcount G k j s ≠ 0 := ne_of_gt (wcount_pos G hw hdjs.1)
    have hpd : pairDep G.n G.adj G.w G.dist j v s
        = thruForm G j v k s / (G.w j * wcount G k j s) := by
      unfold pairDep sigmaThru sigma
      simp only [hk]
      rw [sigThruLev_eq G hd j hj v hv k s hs hk, sigLev_eq G hd j hj k s hs hk]
    rw [hpd, hex]
    simp only [hne, Option.isSome_some, Bool.and_self, if_true]
    unfold thruForm bcTerm
    cases h1 : G.dist j v with
    | none => simp
    | some d1 =>
      rw [h1] at hdjv
      cases h2 : G.dist v s with
      | none =>
        rw [h2] at hdvs
        have : wcount G (k - d1) v s = 0 := wcount_zero_of_no_walk G _ v s hv (hdvs _)
        simp [this]
      | some d2 =>
        rw [h2] at hdvs
        simp only [hk]
        have hk_le : k ≤ d1 + d2 := hdjs.2 _ (walk_append hdjv.1 hdvs.1)
        by_cases hsum : d1 + d2 = k
        · have hle : d1 ≤ k := by omega
          have e : k - d1 = d2 := by omega
          simp only [hle, hsum, if_true, e]
          by_cases hS : S s = true
          · simp only [hS, if_true]
            field_simp
          · simp [hS]
        · simp only [hsum, if_false]
          by_cases hle : d1 ≤ k
          · have : wcount G (k - d1) v s = 0 := by
              apply wcount_zero_of_no_walk G _ v s hv
              intro wk
              have := hdvs.2 _ wk
              omega
            simp [this]
          · simp [hle]

/-- **C03's pair-dependency definition = C02's walk-count definition**, for every graph whose
`dist` is the shortest-path length and every positive weight vector; sources `S`, targets `T`
(the definition of C03 runs from the target to the source, so the roles are exchanged) -/
theorem def_eq_nsiBetw (G : Gr) (hd : DistOK G) (hw : ∀ k, k < G.n → 0 < G.w k)
    (S T : Nat → Bool) (v : Nat) (hv : v < G.n) :
    (nsiBetweennessDef G.n G.adj G.w G.dist ((List.range G.n).map S)
        ((List.range G.n).filter T)).getD v 0 = nsiBetw G T S v := by
  unfold nsiBetweennessDef
  rw [getD_map_range_rat G.n _ v hv]
  unfold betwTimesWDef
  rw [← NetBetw.sumToQ_ite_eq_filter G.n T
    (fun j => G.w j * contribDef G.n G.adj G.w G.dist ((List.range G.n).map S) j v)]
  rw [div_eq_mul_inv, ← Net.sumToQ_mul_right']
  show _ = Net.sumToQ G.n _
  apply Net.sumToQ_congrLt
  intro j hj
  show _ = G.w j * Net.sumToQ G.n _
  by_cases hT : T j = true
  · by_cases hjv : v = j
    · subst hjv
      simp only [contribDef, if_true, hT]
      rw [NetBetw.sumToQ_zero_of _ _ (fun s _ => by simp)]
      simp
    · have hjv' : j ≠ v := fun e => hjv e.symm
      simp only [hT, if_true, contribDef, if_neg hjv]
      rw [mul_assoc, ← Net.sumToQ_mul_right']
      congr 1
      apply Net.sumToQ_congrLt
      intro s hs
      by_cases hsv : s = v
      · subst hsv
        simp
      · have := pair_term_eq G hd hw S j v s hj hv hs hsv
        rw [div_eq_mul_inv] at this
        rw [this]
        by_cases hS : S s = true
        · simp [hS, hjv', hsv]
        · simp [hS]
  · simp only [hT]
    rw [NetBetw.sumToQ_zero_of _ _ (fun s _ => by simp)]
    simp

/-! ### the kernel model of `_nsi_betweenness` is the definition `nsiBetw` -/

/-- **kernel model = C02's definition**, with C03's distance matrix: for every undirected network
with positive node weights, every source set `S`, target set `T` and node `v`, entry `v` of the
model of `Network._nsi_betweenness` (Cython kernel + wrapper, `Model/NetBetw.lean`) is the
documented double sum `nsiBetw` over weighted shortest-path counts -/
theorem kernel_eq_nsiBetw_net (G : Gr) (hsym : ∀ x y, G.adj x y = G.adj y x)
    (hw : ∀ k, k < G.n → 0 < G.w k) (S T : Nat → Bool) (v : Nat) (hv : v < G.n) :
    (nsiBetweenness G.n G.adj G.w ((List.range G.n).map S) ((List.range G.n).filter T)).getD v 0
      = nsiBetw (withNetDist G) T S v := by
  rw [nsiBetweenness_eq_def_full G.n G.adj hsym G.w hw _ _
    (fun j hj => List.mem_range.mp (List.mem_filter.mp hj).1)]
  exact def_eq_nsiBetw (withNetDist G) (fun a b ha hb => withNetDist_isDist G a b ha hb) hw S T v hv

/-- the same with the breadth-first distances of C02's model (`withBfs`, the object of
`nsi_betweenness_split_bfs`) -/
theorem kernel_eq_nsiBetw_bfs (G : Gr) (hsym : ∀ x y, G.adj x y = G.adj y x)
    (hw : ∀ k, k < G.n → 0 < G.w k) (S T : Nat → Bool) (v : Nat) (hv : v < G.n) :
    (nsiBetweenness G.n G.adj G.w ((List.range G.n).map S) ((List.range G.n).filter T)).getD v 0
      = nsiBetw (withBfs G) T S v := by
  rw [kernel_eq_nsiBetw_net G hsym hw S T v hv]
  apply nsiBetw_congr (G := withNetDist G) (H := withBfs G) rfl rfl rfl _ T S v hv
  intro a b ha hb
  exact netDist_eq_of_isDist (withBfs G) a b ha hb _ (withBfs_isDist G a b ha hb)

end Pyunicorn.Nsi
