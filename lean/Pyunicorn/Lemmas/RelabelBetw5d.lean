import Pyunicorn.Lemmas.RelabelBetw5b
import Pyunicorn.Lemmas.CrossBetw
/-! C04, round 5d: the node-group betweenness measures of `InteractingNetworks`
(`cross_betweenness`, `internal_betweenness`, `nsi_cross_betweenness`; C11's wrapper models
`Cross.crossBetweenness`, `Cross.internalBetweenness`, `Cross.nsiCrossBetweenness` in
`Model/CrossBetw.lean`) commute with renumbering.  C11's wrappers build the source mask by a fold of
stores (`Cross.srcMask`, `is_source[sources] = 1`) and call C03's kernel model; C11's bridge
`betweenness_delegates_eq_api` (round 5b, through `srcMask_eq_srcMaskOf`) identifies them with C03's
model of the public `Network` methods (`NetBetw.interregionalBetweenness`, `NetBetw.apiBetweenness`),
for which round 5b proved `apiBetweenness_relabel`.

The two bridge statements are C11's, word for word (`Properties/C11.lean`:
`srcMask_eq_srcMaskOf`, `betweenness_delegates_eq_api`); they are re-derived here from C11's lemma
`Cross.srcMask_eq` (`Lemmas/CrossBetw.lean`) because `Properties/C11.lean` imports
`Generated/ArithC11`, `Generated/StructC11`, files that only C11's check writes — a property file of
C04 must build without them. -/
namespace Pyunicorn.Relabel
open Pyunicorn.Net Pyunicorn.NetBetw

variable {n : Nat} {idx : Nat → Nat}

/-- C11's bridge `srcMask_eq_srcMaskOf`: the fold of stores `is_source[sources] = 1` (C11's model)
and the membership map (C03's `srcMaskOf`) are the same mask -/
theorem crossSrcMask_eq_srcMaskOf (n : Nat) (L : List Nat) :
    Cross.srcMask n L = srcMaskOf n (some L) := by
  rw [Cross.srcMask_eq]
  unfold srcMaskOf
  apply List.map_congr_left
  intro v _
  simp

/-- C11's bridge `betweenness_delegates_eq_api`: the delegates of `InteractingNetworks` are C03's
model of the `Network` methods they call -/
theorem crossDelegates_eq_api (n : Nat) (A : Adj) (w : Nat → Rat) (L1 L2 : List Nat) :
    Cross.crossBetweenness n A L1 L2 = interregionalBetweenness n A w (some L1) (some L2)
      ∧ Cross.nsiCrossBetweenness n A w L1 L2 = apiBetweenness n A w (some L1) (some L2) true := by
  unfold Cross.crossBetweenness Cross.nsiCrossBetweenness interregionalBetweenness apiBetweenness
  rw [crossSrcMask_eq_srcMaskOf]
  simp

/-- C11's source mask (a fold of stores) of the renumbered node list is the renumbered mask -/
theorem crossSrcMask_relabel (h : IsPerm n idx) (L : List Nat) (hL : ∀ s ∈ L, s < n) :
    Cross.srcMask n (nodes n idx L) = nodeList n idx false (Cross.srcMask n L) := by
  rw [crossSrcMask_eq_srcMaskOf, crossSrcMask_eq_srcMaskOf]
  exact srcMaskOf_some_relabel h L hL

/-- `cross_betweenness(L1, L2)` of the renumbered network with the renumbered node lists -/
theorem crossBetweenness_relabel (h : IsPerm n idx) (a : Adj) (hsym : ∀ x y, a x y = a y x)
    (L1 L2 : List Nat) (h1 : ∀ s ∈ L1, s < n) (h2 : ∀ t ∈ L2, t < n) :
    Cross.crossBetweenness n (mat a idx) (nodes n idx L1) (nodes n idx L2)
      = nodeList n idx 0 (Cross.crossBetweenness n a L1 L2) := by
  rw [(crossDelegates_eq_api n (mat a idx) (fun _ => 1) _ _).1,
    (crossDelegates_eq_api n a (fun _ => 1) L1 L2).1]
  have := apiBetweenness_relabel h a hsym (fun _ => 1) (fun _ _ => by decide) (some L1) (some L2)
    (fun L e => by cases e; exact h1) (fun L e => by cases e; exact h2) false
  simpa [interregionalBetweenness, apiBetweenness] using this

/-- `nsi_cross_betweenness(L1, L2)` with the node weights renumbered as well -/
theorem nsiCrossBetweenness_relabel (h : IsPerm n idx) (a : Adj) (hsym : ∀ x y, a x y = a y x)
    (w : Nat → Rat) (hw : ∀ v, v < n → 0 < w v)
    (L1 L2 : List Nat) (h1 : ∀ s ∈ L1, s < n) (h2 : ∀ t ∈ L2, t < n) :
    Cross.nsiCrossBetweenness n (mat a idx) (vec w idx) (nodes n idx L1) (nodes n idx L2)
      = nodeList n idx 0 (Cross.nsiCrossBetweenness n a w L1 L2) := by
  rw [(crossDelegates_eq_api n (mat a idx) (vec w idx) _ _).2,
    (crossDelegates_eq_api n a w L1 L2).2]
  exact apiBetweenness_relabel h a hsym w hw (some L1) (some L2)
    (fun L e => by cases e; exact h1) (fun L e => by cases e; exact h2) true

/-- `internal_betweenness(L)` = `cross_betweenness(L, L)` -/
theorem internalBetweenness_relabel (h : IsPerm n idx) (a : Adj) (hsym : ∀ x y, a x y = a y x)
    (L : List Nat) (hL : ∀ s ∈ L, s < n) :
    Cross.internalBetweenness n (mat a idx) (nodes n idx L)
      = nodeList n idx 0 (Cross.internalBetweenness n a L) :=
  crossBetweenness_relabel h a hsym L L hL hL

end Pyunicorn.Relabel
