import Pyunicorn.Lemmas.SimilarityNumeric
import Mathlib.Algebra.Order.AbsoluteValue.Basic
/-!
# Rounding lemmas for the float32 model of `ClimateNetwork` (C09, round 4)

* `rnF_err` — `rnF p emin` (round-to-nearest-even, `p` bits, gradual underflow) moves `x` by at most
  `|x|·2⁻ᵖ + 2^(emin − p)`;
* `decision_exact_of_margin` — for *every* rounding with relative error `u` and absolute error `η`
  the comparison `fl θ < fl p` decides as `θ < p` once `|p − θ|` exceeds `u (|p| + |θ|) + 2η`;
  `margin_of_relative_gap` — a relative gap of `4u` (plus `4η`) is enough;
* for every *monotone* rounding that leaves the stored values unchanged, damping only removes
  links and the density bound of the quantile rule holds as executed.
-/
namespace Pyunicorn.Similarity

theorem ratAbs_eq_abs (x : ℚ) : ratAbs x = |x| := by
  unfold ratAbs
  split
  · rename_i h; rw [abs_of_neg h]
  · rename_i h; rw [abs_of_nonneg (not_lt.1 h)]

theorem twoPow_half_ulp (e : Int) (p : Nat) :
    (1 / 2) * twoPow (e - ((p : Int) - 1)) = twoPow e / 2 ^ p := by
  rw [twoPow_eq_zpow, twoPow_eq_zpow,
    show e - ((p : Int) - 1) = e - (p : Int) + 1 by ring,
    zpow_add₀ (by norm_num : (2 : ℚ) ≠ 0), zpow_sub₀ (by norm_num : (2 : ℚ) ≠ 0), zpow_natCast]
  ring

/-- **error of one rounding to `p` bits with gradual underflow** -/
theorem rnF_err (p : Nat) (emin : Int) (x : ℚ) :
    |rnF p emin x - x| ≤ |x| / 2 ^ p + twoPow emin / 2 ^ p := by
  unfold rnF
  have hpos2 : (0 : ℚ) < 2 ^ p := by positivity
  split
  · rename_i h0
    subst h0
    simp only [sub_zero, abs_zero, zero_div, zero_add]
    exact le_of_lt (div_pos (twoPow_pos _) hpos2)
  · rename_i hx
    simp only
    set e := max (binExp (ratAbs x)) emin with he
    set ulp := twoPow (e - ((p : Int) - 1)) with hulp
    have hup : 0 < ulp := twoPow_pos _
    have hr := roundHalfEven_err (x / ulp)
    have key : ((roundHalfEven (x / ulp) : Int) : ℚ) * ulp - x
        = (((roundHalfEven (x / ulp) : Int) : ℚ) - x / ulp) * ulp := by
      field_simp
    rw [key, abs_mul, abs_of_pos hup]
    have hax : 0 < |x| := abs_pos.2 hx
    have hle : twoPow e ≤ |x| + twoPow emin := by
      rcases le_total (binExp (ratAbs x)) emin with h | h
      · rw [he, max_eq_right h]; linarith
      · rw [he, max_eq_left h]
        have t1 := twoPow_binExp_le (ratAbs x) (by rw [ratAbs_eq_abs]; exact hax)
        have t2 : ratAbs x = |x| := ratAbs_eq_abs x
        have := twoPow_pos emin
        linarith
    calc |((roundHalfEven (x / ulp) : Int) : ℚ) - x / ulp| * ulp ≤ (1 / 2) * ulp :=
          mul_le_mul_of_nonneg_right hr (le_of_lt hup)
      _ = twoPow e / 2 ^ p := twoPow_half_ulp e p
      _ ≤ (|x| + twoPow emin) / 2 ^ p := div_le_div_of_nonneg_right hle (le_of_lt hpos2)
      _ = |x| / 2 ^ p + twoPow emin / 2 ^ p := by ring

/-- binary32: relative error `2⁻²⁴`, absolute error `2⁻¹⁵⁰` -/
theorem rn24_err (x : ℚ) : |rn24 x - x| ≤ (1 / 2 ^ 24) * |x| + 1 / 2 ^ 150 := by
  have := rnF_err 24 (-126) x
  have e : twoPow (-126) / 2 ^ 24 = 1 / 2 ^ 150 := by
    rw [twoPow_eq_zpow]; norm_num
  unfold rn24
  rw [e] at this
  linarith

/-- a rounding with relative error `u` and absolute error `η` -/
def RoundsWithin (fl : ℚ → ℚ) (u η : ℚ) : Prop := ∀ x, |fl x - x| ≤ u * |x| + η

theorem rn24_roundsWithin : RoundsWithin rn24 (1 / 2 ^ 24) (1 / 2 ^ 150) := rn24_err

/-- **proved margin**: away from the threshold by more than the two rounding errors, the rounded
comparison decides as the exact one -/
theorem decision_exact_of_margin (fl : ℚ → ℚ) (u η : ℚ) (h : RoundsWithin fl u η) (p θ : ℚ)
    (hm : u * (|p| + |θ|) + 2 * η < |p - θ|) : fl θ < fl p ↔ θ < p := by
  have h1 := abs_le.1 (h p)
  have h2 := abs_le.1 (h θ)
  constructor
  · intro hlt
    by_contra hn
    have hle : p ≤ θ := not_lt.1 hn
    rw [abs_of_nonpos (by linarith : p - θ ≤ 0)] at hm
    linarith [h1.1, h1.2, h2.1, h2.2]
  · intro hlt
    rw [abs_of_pos (by linarith : 0 < p - θ)] at hm
    linarith [h1.1, h1.2, h2.1, h2.2]

/-- a relative gap of `4u` to the threshold (plus `4η`) is a sufficient margin -/
theorem margin_of_relative_gap (u η p θ : ℚ) (hu0 : 0 ≤ u) (hu : u ≤ 1 / 4) (_hη : 0 ≤ η)
    (hg : 4 * u * |θ| + 4 * η < |p - θ|) : u * (|p| + |θ|) + 2 * η < |p - θ| := by
  have hb : |p| ≤ |θ| + |p - θ| := by
    have := abs_add_le (p - θ) θ
    simpa [add_comm] using this
  have hd : 0 ≤ |p - θ| := abs_nonneg _
  have ha : 0 ≤ |θ| := abs_nonneg _
  have h1 : u * |p| ≤ u * (|θ| + |p - θ|) := mul_le_mul_of_nonneg_left hb hu0
  have h2 : u * |p - θ| ≤ (1 / 4) * |p - θ| := mul_le_mul_of_nonneg_right hu hd
  nlinarith

/-! ### monotone roundings -/

theorem gtX_weightedX_le (fl : ℚ → ℚ) (hmono : ∀ x y, x ≤ y → fl x ≤ fl y) (S : XSim) (damp : Sim)
    (θ : Option ℚ) (i j : Nat)
    (hrep : ∀ s, S i j = some s → fl s = s ∧ 0 ≤ s) (hd : damp i j ≤ 1)
    (h : gtX (weightedX fl true S damp i j) θ = true) :
    gtX (weightedX fl false S damp i j) θ = true := by
  cases hs : S i j with
  | none => simp [weightedX, hs, gtX] at h
  | some s =>
    cases θ with
    | none => simp [gtX_none] at h
    | some t =>
      obtain ⟨h1, h2⟩ := hrep s hs
      simp only [weightedX, hs, Option.map_some, if_true, gtX, decide_eq_true_eq] at h
      simp only [weightedX, hs, Option.map_some, gtX, decide_eq_true_eq]
      have : s * damp i j ≤ s := by nlinarith
      have := hmono _ _ this
      rw [h1] at this
      exact lt_of_lt_of_le h this

theorem mem_range_filter_offdiag (N p : Nat)
    (hp : p ∈ (List.range (N * N)).filter fun p => p / N != p % N) : p / N < N ∧ p % N < N := by
  have hp' : p < N * N := by
    have := (List.mem_filter.1 hp).1
    simpa using this
  have hN : 0 < N := by
    rcases Nat.eq_zero_or_pos N with h | h
    · subst h; simp at hp'
    · exact h
  exact ⟨(Nat.div_lt_iff_lt_mul hN).2 hp', Nat.mod_lt _ hN⟩

/-- **suppression of local links only removes links, as executed**: for every monotone rounding
that leaves the stored (non-negative) similarities unchanged and every weight `≤ 1` -/
theorem nnzX_non_local_le (fl : ℚ → ℚ) (hmono : ∀ x y, x ≤ y → fl x ≤ fl y) (S : XSim) (damp : Sim)
    (θ : Option ℚ) (N : Nat)
    (hrep : ∀ i j s, i < N → j < N → S i j = some s → fl s = s ∧ 0 ≤ s)
    (hd : ∀ i j, i < N → j < N → damp i j ≤ 1) :
    nnz (thresholdAdjacencyX (weightedX fl true S damp) θ N)
      ≤ nnz (thresholdAdjacencyX (weightedX fl false S damp) θ N) := by
  rw [nnz_thresholdAdjacencyX, nnz_thresholdAdjacencyX]
  simp only [offDiagX, List.countP_map]
  apply List.countP_mono_left
  intro p hp
  obtain ⟨hi, hj⟩ := mem_range_filter_offdiag N p hp
  exact gtX_weightedX_le fl hmono S damp θ _ _ (fun s hs => hrep _ _ s hi hj hs) (hd _ _ hi hj)

theorem weightedX_false (fl : ℚ → ℚ) (S : XSim) (damp : Sim) : weightedX fl false S damp = S := by
  funext i j
  cases h : S i j <;> simp [weightedX, h]

theorem mem_offDiagX (S : XSim) (N : Nat) (x : Option ℚ) (h : x ∈ offDiagX S N) :
    ∃ i j, i < N ∧ j < N ∧ S i j = x := by
  simp only [offDiagX, List.mem_map] at h
  obtain ⟨p, hp, rfl⟩ := h
  obtain ⟨hi, hj⟩ := mem_range_filter_offdiag N p hp
  exact ⟨_, _, hi, hj, rfl⟩

/-- the threshold selected by the quantile rule is a stored value, so rounding it changes nothing -/
theorem selected_threshold_fixed (fl : ℚ → ℚ) (S : XSim) (N k : Nat) (θ : Option ℚ)
    (hrep : ∀ i j s, i < N → j < N → S i j = some s → fl s = s ∧ 0 ≤ s)
    (h : thresholdFromIndexX S N k = some θ) : θ.map fl = θ := by
  cases θ with
  | none => rfl
  | some t =>
    obtain ⟨i, j, hi, hj, hs⟩ := mem_offDiagX S N _ (quantileX_mem _ k t h)
    simp [(hrep i j t hi hj hs).1]

/-- **the realised density never exceeds the request — as executed**: NaN entries (sorted last, never
linked), float32 product with the distance weight, comparison with the rounded threshold; for every
monotone rounding `fl` leaving the stored similarities unchanged and every raw index
`k ≥ (1 − ρ)·len − 1 − ε` (`len` counts the NaN pairs too, as `len(flat_corr)` does) -/
theorem densityX_le_request (fl : ℚ → ℚ) (hmono : ∀ x y, x ≤ y → fl x ≤ fl y) (S : XSim) (damp : Sim)
    (nl : Bool) (N k : Nat) (ρ ε : ℚ) (θ : Option ℚ)
    (hrep : ∀ i j s, i < N → j < N → S i j = some s → fl s = s ∧ 0 ≤ s)
    (hd : ∀ i j, i < N → j < N → damp i j ≤ 1)
    (hρ : 0 ≤ ρ) (hε : 0 ≤ ε)
    (hk : (1 - ρ) * ((offDiagX S N).length : ℚ) - 1 - ε ≤ (k : ℚ))
    (h : thresholdFromIndexX S N k = some θ) :
    (nnz (thresholdAdjacencyX (weightedX fl nl S damp) (θ.map fl) N) : ℚ)
      ≤ ρ * ((offDiagX S N).length : ℚ) + ε := by
  rw [selected_threshold_fixed fl S N k θ hrep h]
  have hup := quantileX_upper (offDiagX S N) k θ h
  have hle : nnz (thresholdAdjacencyX (weightedX fl nl S damp) θ N)
      ≤ (offDiagX S N).countP fun x => gtX x θ := by
    have h0 := nnz_thresholdAdjacencyX (weightedX fl false S damp) θ N
    rw [weightedX_false] at h0
    rw [← h0]
    cases nl
    · rw [weightedX_false]
    · have := nnzX_non_local_le fl hmono S damp θ N hrep hd
      rwa [weightedX_false] at this
  generalize (offDiagX S N).length = len at *
  generalize (offDiagX S N).countP (fun x => gtX x θ) = L at *
  generalize nnz (thresholdAdjacencyX (weightedX fl nl S damp) θ N) = L' at *
  have hL : (L' : ℚ) ≤ (L : ℚ) := by exact_mod_cast hle
  have hlen : (0 : ℚ) ≤ (len : ℚ) := by exact_mod_cast Nat.zero_le len
  rcases Nat.lt_or_ge k len with hkl | hkl
  · have : L + k + 1 ≤ len := by omega
    have : (L : ℚ) + k + 1 ≤ len := by exact_mod_cast this
    linarith
  · have : L = 0 := by omega
    subst this
    have : (0 : ℚ) ≤ ρ * (len : ℚ) := mul_nonneg hρ hlen
    have : (L' : ℚ) ≤ 0 := by simpa using hL
    linarith

/-- **the request is missed by at most the tied pairs and the NaN pairs** (no suppression of local
links): `ρ·len − ε ≤ #linked + #tied at θ + #NaN` for every raw index `k ≤ (1 − ρ)·len + ε` -/
theorem densityX_gap (fl : ℚ → ℚ) (S : XSim) (damp : Sim) (N k : Nat) (ρ ε : ℚ) (θ : Option ℚ)
    (hrep : ∀ i j s, i < N → j < N → S i j = some s → fl s = s ∧ 0 ≤ s)
    (hk : (k : ℚ) ≤ (1 - ρ) * ((offDiagX S N).length : ℚ) + ε)
    (h : thresholdFromIndexX S N k = some θ) :
    ρ * ((offDiagX S N).length : ℚ) - ε
      ≤ (nnz (thresholdAdjacencyX (weightedX fl false S damp) (θ.map fl) N) : ℚ)
        + (tiesX (offDiagX S N) θ : ℚ) + ((offDiagX S N).countP Option.isNone : ℚ) := by
  rw [selected_threshold_fixed fl S N k θ hrep h, weightedX_false, nnz_thresholdAdjacencyX]
  have hlo := quantileX_lower (offDiagX S N) k θ h
  generalize (offDiagX S N).length = len at *
  generalize (offDiagX S N).countP (fun x => gtX x θ) = L at *
  generalize tiesX (offDiagX S N) θ = T at *
  generalize (offDiagX S N).countP Option.isNone = Z at *
  have : len ≤ L + T + Z + k := by omega
  have : (len : ℚ) ≤ (L : ℚ) + T + Z + k := by exact_mod_cast this
  linarith

/-! ### `link_density_function`: cumulative histogram -/

/-- entries in `[lo, hi)` -/
def cnt (xs : List ℚ) (lo hi : ℚ) : Nat := xs.countP fun x => decide (lo ≤ x) && decide (x < hi)

theorem cnt_split (xs : List ℚ) (lo mid hi : ℚ) (h1 : lo ≤ mid) (h2 : mid ≤ hi) :
    cnt xs lo hi = cnt xs lo mid + cnt xs mid hi := by
  unfold cnt
  induction xs with
  | nil => simp
  | cons x t ih =>
    simp only [List.countP_cons, ih]
    rcases lt_or_ge x mid with hx | hx
    · have a1 : x < hi := lt_of_lt_of_le hx h2
      have a2 : ¬ mid ≤ x := not_le.2 hx
      simp [hx, a1, a2]; omega
    · have a1 : lo ≤ x := le_trans h1 hx
      have a2 : ¬ x < mid := not_lt.2 hx
      simp [hx, a1, a2]; omega

theorem histBin_inner (xs edges : List ℚ) (n b : Nat) (hb : b + 1 ≠ n) :
    histBin xs edges n b = cnt xs (edges.getD b 0) (edges.getD (b + 1) 0) := by
  simp [histBin, cnt, hb]

/-- `hist[:i].sum()` for `i < n_bins`: the entries in `[e₀, e_i)` -/
theorem hist_prefix_sum (xs edges : List ℚ) (n i : Nat) (hi : i < n)
    (hmono : ∀ a, a < n → edges.getD a 0 ≤ edges.getD (a + 1) 0) :
    ((histogram xs edges n).take i).sum = cnt xs (edges.getD 0 0) (edges.getD i 0) := by
  have hchain : ∀ a, a ≤ n → edges.getD 0 0 ≤ edges.getD a 0 := by
    intro a ha
    induction a with
    | zero => exact le_refl _
    | succ a ih => exact le_trans (ih (by omega)) (hmono a (by omega))
  unfold histogram
  rw [← List.map_take, List.take_range, Nat.min_eq_left (le_of_lt hi)]
  induction i with
  | zero =>
    simp only [List.range_zero, List.map_nil, List.sum_nil, cnt]
    symm
    rw [List.countP_eq_zero]
    intro x _
    by_cases h : edges.getD 0 0 ≤ x
    · simp [h, not_lt.2 h]
    · simp [h]
  | succ i ih =>
    rw [List.range_succ, List.map_append, List.sum_append, ih (by omega)]
    simp only [List.map_cons, List.map_nil, List.sum_cons, List.sum_nil, Nat.add_zero]
    rw [histBin_inner xs edges n i (by omega)]
    exact (cnt_split xs _ _ _ (hchain i (by omega)) (hmono i (by omega))).symm

theorem cnt_below (xs : List ℚ) (lo hi : ℚ) (hlo : ∀ x ∈ xs, lo ≤ x) :
    cnt xs lo hi = xs.countP fun x => decide (x < hi) := by
  unfold cnt
  apply List.countP_congr
  intro x hx
  simp [hlo x hx]

theorem countP_add_eq_length {α : Type} (l : List α) (p q : α → Bool)
    (h : ∀ x ∈ l, (p x = true ∧ q x = false) ∨ (p x = false ∧ q x = true)) :
    l.countP p + l.countP q = l.length := by
  induction l with
  | nil => simp
  | cons a t ih =>
    have := ih (fun x hx => h x (List.mem_cons_of_mem _ hx))
    rcases h a (by simp) with ⟨h1, h2⟩ | ⟨h1, h2⟩ <;> simp [List.countP_cons, h1, h2] <;> omega

theorem countP_add_le_length {α : Type} (l : List α) (p q : α → Bool)
    (h : ∀ x ∈ l, ¬ (p x = true ∧ q x = true)) : l.countP p + l.countP q ≤ l.length := by
  induction l with
  | nil => simp
  | cons a t ih =>
    have := ih (fun x hx => h x (List.mem_cons_of_mem _ hx))
    have ha := h a (by simp)
    cases hp : p a <;> cases hq : q a <;> simp [List.countP_cons, hp, hq] <;>
      first | omega | (exact absurd ⟨hp, hq⟩ ha)

/-- every entry falls into exactly one bin: `hist.sum()` is the number of entries -/
theorem hist_total (xs edges : List ℚ) (n : Nat) (hn : 0 < n)
    (hmono : ∀ a, a < n → edges.getD a 0 ≤ edges.getD (a + 1) 0)
    (hin : ∀ x ∈ xs, edges.getD 0 0 ≤ x ∧ x ≤ edges.getD n 0) :
    (histogram xs edges n).sum = xs.length := by
  obtain ⟨m, rfl⟩ : ∃ m, n = m + 1 := ⟨n - 1, by omega⟩
  have hp := hist_prefix_sum xs edges (m + 1) m (by omega) hmono
  have e : histogram xs edges (m + 1)
      = (histogram xs edges (m + 1)).take m ++ [histBin xs edges (m + 1) m] := by
    unfold histogram
    rw [← List.map_take, List.take_range, Nat.min_eq_left (by omega), List.range_succ,
      List.map_append]
    rfl
  rw [e, List.sum_append, hp]
  simp only [List.sum_cons, List.sum_nil, Nat.add_zero]
  have hl : histBin xs edges (m + 1) m = xs.countP fun x =>
      decide (edges.getD m 0 ≤ x) && decide (x ≤ edges.getD (m + 1) 0) := by
    simp [histBin]
  rw [hl]
  apply countP_add_eq_length
  intro x hx
  obtain ⟨h0, h1⟩ := hin x hx
  clear hp e hl hin hmono
  generalize edges.getD 0 0 = a at *
  generalize edges.getD m 0 = b at *
  generalize edges.getD (m + 1) 0 = c at *
  rcases lt_or_ge x b with h | h
  · left; simp [h0, h, not_le.2 h]
  · right; simp [h, h1, not_lt.2 h]

theorem length_allEntries (S : Sim) (N : Nat) : (allEntries S N).length = N * N := by
  simp [allEntries]

theorem offDiag_countP_le_all (S : Sim) (N : Nat) (q : ℚ → Bool) :
    (offDiag S N).countP q ≤ (allEntries S N).countP q := by
  simp only [offDiag, allEntries, List.countP_map, List.countP_filter]
  apply List.countP_mono_left
  intro p _ h
  simp only [Function.comp, Bool.and_eq_true] at h ⊢
  exact h.1

end Pyunicorn.Similarity
