import Mathlib.Analysis.Real.Sqrt
import Pyunicorn.Model.Recurrence
/-! The Euclidean kernel takes `sqrt`; the model thresholds the squares.  This file
(Mathlib) proves the two decisions equal over ℝ. -/
namespace Pyunicorn.Recurrence

theorem sqrt_lt_iff_unitThr (s eps : ℚ) (_hs : 0 ≤ s) :
    Real.sqrt (s : ℝ) < (eps : ℝ) ↔ s < unitThr .euclidean eps := by
  unfold unitThr
  by_cases he : eps ≤ 0
  · simp only [he, if_true]
    constructor
    · intro h
      have h1 := Real.sqrt_nonneg (s : ℝ)
      have h2 : (eps : ℝ) ≤ 0 := by exact_mod_cast he
      linarith
    · intro h; linarith
  · simp only [he, if_false]
    have he' : (0 : ℝ) < (eps : ℝ) := by
      have : 0 < eps := lt_of_not_ge he
      exact_mod_cast this
    rw [Real.sqrt_lt' he']
    have : ((s : ℝ) < (eps : ℝ) ^ 2) ↔ ((s : ℝ) < ((eps * eps : ℚ) : ℝ)) := by
      push_cast; rw [sq]
    rw [this]
    exact_mod_cast Iff.rfl

end Pyunicorn.Recurrence
