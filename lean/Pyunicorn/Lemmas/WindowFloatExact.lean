import Pyunicorn.Lemmas.WindowFloat64
/-! Round 5: rounding is the identity on representable numbers, hence the binary64 execution of
`phase_mean()` / `anomaly()` *is* the rational model whenever every intermediate result is an
integer below `2⁵³` — the situation of the harness's exact-integer stream (observables = multiples
of `lcm(1..⌈T/c⌉)`), which is why that stream may compare the implementation's doubles with the
rational model for equality. -/
namespace Pyunicorn.Window
open Pyunicorn.Similarity

theorem roundHalfEven_intCast (k : ℤ) : roundHalfEven (k : ℚ) = k := by
  unfold roundHalfEven
  have hf : (k : ℚ).floor = k := Rat.floor_intCast k
  simp [hf]

/-- **a number with a significand below `2⁵³` is not changed by rounding**: `rn53 (m·2^e) = m·2^e` -/
theorem rn53_dyadic (m : ℕ) (e : ℤ) (hm : m < 2 ^ 53) :
    rn53 ((m : ℚ) * (2 : ℚ) ^ e) = (m : ℚ) * (2 : ℚ) ^ e := by
  have h2 : (0 : ℚ) < (2 : ℚ) ^ e := by positivity
  rcases Nat.eq_zero_or_pos m with h0 | hpos
  · subst h0; simp [rn53]
  have hmq : (0 : ℚ) < (m : ℚ) := by exact_mod_cast hpos
  set x : ℚ := (m : ℚ) * (2 : ℚ) ^ e with hx
  have hx0 : 0 < x := mul_pos hmq h2
  unfold rn53
  rw [if_neg (not_le.2 hx0)]
  simp only
  have hle := twoPow_binExp_le x hx0
  rw [twoPow_eq_zpow] at hle
  -- binExp x < 53 + e
  have hE : binExp x - 52 ≤ e := by
    by_contra hcon
    have h53 : e + 53 ≤ binExp x := by omega
    have h1 : (2 : ℚ) ^ (e + 53) ≤ (2 : ℚ) ^ (binExp x) := zpow_le_zpow_right₀ (by norm_num) h53
    have h3 : (2 : ℚ) ^ (e + 53) = (2 : ℚ) ^ e * 2 ^ 53 := by
      rw [zpow_add₀ (by norm_num : (2 : ℚ) ≠ 0)]; norm_num
    have h4 : (m : ℚ) < 2 ^ 53 := by exact_mod_cast hm
    have h5 : x < (2 : ℚ) ^ e * 2 ^ 53 := by
      rw [hx, mul_comm]; exact mul_lt_mul_of_pos_left h4 h2
    linarith
  obtain ⟨d, hd⟩ := Int.eq_ofNat_of_zero_le (by omega : 0 ≤ e - (binExp x - 52))
  rw [twoPow_eq_zpow]
  have hulp : (0 : ℚ) < (2 : ℚ) ^ (binExp x - 52) := by positivity
  have he : e = (binExp x - 52) + (d : ℤ) := by omega
  have hpow : (2 : ℚ) ^ e = (2 : ℚ) ^ (binExp x - 52) * 2 ^ d := by
    conv_lhs => rw [he]
    rw [zpow_add₀ (by norm_num : (2 : ℚ) ≠ 0), zpow_natCast]
  have hxe : x = (m : ℚ) * ((2 : ℚ) ^ (binExp x - 52) * 2 ^ d) := by
    calc x = (m : ℚ) * (2 : ℚ) ^ e := hx
      _ = _ := by rw [hpow]
  have hq : x / (2 : ℚ) ^ (binExp x - 52) = (((m * 2 ^ d : ℕ) : ℤ) : ℚ) := by
    rw [div_eq_iff hulp.ne']
    push_cast
    exact hxe.trans (by ring)
  rw [hq, roundHalfEven_intCast, ← hq]
  field_simp

/-- **a number with a significand below `2²⁴` is not changed by rounding**: `rn24 (m·2^e) = m·2^e` -/
theorem rn24_dyadic (m : ℕ) (e : ℤ) (hm : m < 2 ^ 24) :
    rn24 ((m : ℚ) * (2 : ℚ) ^ e) = (m : ℚ) * (2 : ℚ) ^ e := by
  have h2 : (0 : ℚ) < (2 : ℚ) ^ e := by positivity
  rcases Nat.eq_zero_or_pos m with h0 | hpos
  · subst h0; simp [rn24]
  have hmq : (0 : ℚ) < (m : ℚ) := by exact_mod_cast hpos
  set x : ℚ := (m : ℚ) * (2 : ℚ) ^ e with hx
  have hx0 : 0 < x := mul_pos hmq h2
  unfold rn24
  rw [if_neg (not_le.2 hx0)]
  simp only
  have hle := twoPow_binExp_le x hx0
  rw [twoPow_eq_zpow] at hle
  -- binExp x < 24 + e
  have hE : binExp x - 23 ≤ e := by
    by_contra hcon
    have h53 : e + 24 ≤ binExp x := by omega
    have h1 : (2 : ℚ) ^ (e + 24) ≤ (2 : ℚ) ^ (binExp x) := zpow_le_zpow_right₀ (by norm_num) h53
    have h3 : (2 : ℚ) ^ (e + 24) = (2 : ℚ) ^ e * 2 ^ 24 := by
      rw [zpow_add₀ (by norm_num : (2 : ℚ) ≠ 0)]; norm_num
    have h4 : (m : ℚ) < 2 ^ 24 := by exact_mod_cast hm
    have h5 : x < (2 : ℚ) ^ e * 2 ^ 24 := by
      rw [hx, mul_comm]; exact mul_lt_mul_of_pos_left h4 h2
    linarith
  obtain ⟨d, hd⟩ := Int.eq_ofNat_of_zero_le (by omega : 0 ≤ e - (binExp x - 23))
  rw [twoPow_eq_zpow]
  have hulp : (0 : ℚ) < (2 : ℚ) ^ (binExp x - 23) := by positivity
  have he : e = (binExp x - 23) + (d : ℤ) := by omega
  have hpow : (2 : ℚ) ^ e = (2 : ℚ) ^ (binExp x - 23) * 2 ^ d := by
    conv_lhs => rw [he]
    rw [zpow_add₀ (by norm_num : (2 : ℚ) ≠ 0), zpow_natCast]
  have hxe : x = (m : ℚ) * ((2 : ℚ) ^ (binExp x - 23) * 2 ^ d) := by
    calc x = (m : ℚ) * (2 : ℚ) ^ e := hx
      _ = _ := by rw [hpow]
  have hq : x / (2 : ℚ) ^ (binExp x - 23) = (((m * 2 ^ d : ℕ) : ℤ) : ℚ) := by
    rw [div_eq_iff hulp.ne']
    push_cast
    exact hxe.trans (by ring)
  rw [hq, roundHalfEven_intCast, ← hq]
  field_simp

/-- float32 numbers (significand below `2²⁴`, either sign) are fixed points of `rn32` -/
theorem rn32_fixed (m : ℕ) (e : ℤ) (hm : m < 2 ^ 24) (neg : Bool) :
    rn32 ((if neg then -1 else 1) * ((m : ℚ) * (2 : ℚ) ^ e))
      = (if neg then -1 else 1) * ((m : ℚ) * (2 : ℚ) ^ e) := by
  have h0 : (0 : ℚ) ≤ (m : ℚ) * (2 : ℚ) ^ e := by positivity
  have hfix := rn24_dyadic m e hm
  cases neg with
  | false =>
    simp only [Bool.false_eq_true, if_false, one_mul]
    unfold rn32
    rw [if_neg (not_lt.2 h0)]
    exact hfix
  | true =>
    simp only [if_true, neg_one_mul]
    unfold rn32
    rcases eq_or_lt_of_le h0 with h1 | h1
    · rw [← h1]; simp [rn24]
    · rw [if_pos (by linarith), neg_neg, hfix]

/-- integers below `2⁵³` in absolute value are binary64 numbers -/
theorem rn64_intCast (z : ℤ) (hz : |z| < 2 ^ 53) : rn64 (z : ℚ) = z := by
  unfold rn64
  have key : ∀ m : ℕ, m < 2 ^ 53 → rn53 (m : ℚ) = m := by
    intro m hm
    have := rn53_dyadic m 0 hm
    simpa using this
  split
  · rename_i h
    have hneg : z < 0 := by exact_mod_cast h
    have hn : (-z).toNat < 2 ^ 53 := by
      have : |z| = -z := abs_of_neg hneg
      omega
    have hc : (-(z : ℚ)) = (((-z).toNat : ℕ) : ℚ) := by
      have : (((-z).toNat : ℕ) : ℤ) = -z := Int.toNat_of_nonneg (by omega)
      have h2 := congrArg (fun t : ℤ => (t : ℚ)) this
      simp only [Int.cast_natCast, Int.cast_neg] at h2
      exact h2.symm
    rw [hc, key _ hn, ← hc]; ring
  · rename_i h
    have hnn : 0 ≤ z := by
      have : ¬ ((z : ℚ) < 0) := h
      exact_mod_cast not_lt.1 this
    have hn : z.toNat < 2 ^ 53 := by
      have : |z| = z := abs_of_nonneg hnn
      omega
    have hc : (z : ℚ) = ((z.toNat : ℕ) : ℚ) := by
      have : ((z.toNat : ℕ) : ℤ) = z := Int.toNat_of_nonneg hnn
      have h2 := congrArg (fun t : ℤ => (t : ℚ)) this
      simp only [Int.cast_natCast] at h2
      exact h2.symm
    rw [hc, key _ hn]

/-- the rounded sequential sum of integers is the exact sum as long as the bound `(k+1)·B`
on every partial sum stays below `2⁵³` -/
theorem foldl_flAdd_int (B : ℕ) (xs : List ℚ) (acc : ℤ) (a : ℕ)
    (hx : ∀ x ∈ xs, ∃ z : ℤ, x = z ∧ |z| ≤ B) (hacc : |acc| ≤ a * B)
    (hB : (a + xs.length) * B < 2 ^ 53) :
    ∃ s : ℤ, xs.foldl flAdd (acc : ℚ) = s ∧ (s : ℚ) = acc + xs.sum ∧ |s| ≤ (a + xs.length) * B := by
  induction xs generalizing acc a with
  | nil => exact ⟨acc, rfl, by simp, by simpa using hacc⟩
  | cons x xs ih =>
    obtain ⟨z, rfl, hz⟩ := hx x (by simp)
    have hsum : |acc + z| ≤ ((a + 1 : ℕ) : ℤ) * B := by
      have := abs_add_le acc z
      push_cast
      linarith
    have hlen : (a + 1 + xs.length) * B < 2 ^ 53 := by
      have : a + 1 + xs.length = a + (z :: xs : List ℚ).length := by simp; omega
      simpa [this] using hB
    have hlt : |acc + z| < 2 ^ 53 := by
      have h1 : ((a + 1 : ℕ) : ℤ) * B ≤ ((a + 1 + xs.length : ℕ) : ℤ) * B := by
        apply mul_le_mul_of_nonneg_right _ (by positivity)
        exact_mod_cast Nat.le_add_right _ _
      have h2 : (((a + 1 + xs.length) * B : ℕ) : ℤ) < 2 ^ 53 := by exact_mod_cast hlen
      push_cast at h1 h2 hsum ⊢
      linarith
    have hstep : flAdd (acc : ℚ) (z : ℚ) = ((acc + z : ℤ) : ℚ) := by
      unfold flAdd
      have := rn64_intCast (acc + z) hlt
      push_cast at this ⊢
      exact this
    obtain ⟨s, h1, h2, h3⟩ := ih (acc + z) (a + 1) (fun y hy => hx y (by simp [hy]))
      (by exact_mod_cast hsum) hlen
    refine ⟨s, ?_, ?_, ?_⟩
    · simp only [List.foldl_cons]; rw [hstep]; exact h1
    · rw [h2]; push_cast; simp only [List.sum_cons]; ring
    · refine h3.trans (le_of_eq ?_)
      simp only [List.length_cons]
      push_cast
      ring

/-- **on integer data the binary64 mean is the exact mean**: rows of integers bounded by `B` with
`k·B < 2⁵³` (`k` rows) whose column sums are divisible by `k` — every partial sum, the sum and the
quotient are integers below `2⁵³`, so no operation rounds -/
theorem flColMean_exact_on_integers (n : Nat) (B : ℕ) (rows : Mat)
    (h : ∀ r ∈ rows, r.length = n) (hint : ∀ r ∈ rows, ∀ x ∈ r, ∃ z : ℤ, x = z ∧ |z| ≤ B)
    (hB : rows.length * B < 2 ^ 53)
    (hdiv : ∀ j, j < n → ∃ z : ℤ, (column rows j).sum = (rows.length : ℚ) * z) :
    flColMean ops64 rows = colMean n rows := by
  cases rows with
  | nil => simp [flColMean, flColSum, colMean]
  | cons r rs =>
    obtain ⟨mf, hmf⟩ : ∃ mf, flColMean ops64 (r :: rs) = some mf := by simp [flColMean, flColSum]
    obtain ⟨m, hm⟩ : ∃ m, colMean n (r :: rs) = some m := ⟨_, colMean_of_ne_nil n _ (by simp)⟩
    rw [hmf, hm]
    congr 1
    have hl1 : mf.length = n := flColMean_length ops64 n _ h mf hmf
    have hl2 : m.length = n := by
      have hm' := hm
      rw [colMean_of_ne_nil n _ (by simp)] at hm'
      simp only [Option.some.injEq] at hm'
      subst hm'
      simpa using colSum_length n _ h
    apply List.ext_getElem (by omega)
    intro j hj1 hj2
    have hj : j < n := by omega
    have e1 : mf[j] = mf.getD j 0 := by simp [List.getD_eq_getElem?_getD, hj1]
    have e2 : m[j] = m.getD j 0 := by simp [List.getD_eq_getElem?_getD, hj2]
    rw [e1, e2, colMean_getD n _ j m h hj hm, column_length']
    have hg := flColMean_getD ieee64 n j hj r rs h mf (by rw [ieee64_ops]; exact hmf)
    rw [hg]
    unfold flMean
    rw [seq_fl, (SumTree.seq_spec _ _).1]
    have hr : r.length = n := h r (by simp)
    obtain ⟨z0, hz0, hz0B⟩ := hint r (by simp) (r.getD j 0) (by
      rw [List.getD_eq_getElem?_getD, List.getElem?_eq_getElem (by omega)]; simp)
    have hcol : ∀ x ∈ column rs j, ∃ z : ℤ, x = z ∧ |z| ≤ B := by
      intro x hx
      simp only [column, List.mem_map] at hx
      obtain ⟨row, hrow, rfl⟩ := hx
      have : row.length = n := h row (by simp [hrow])
      exact hint row (by simp [hrow]) _ (by
        rw [List.getD_eq_getElem?_getD, List.getElem?_eq_getElem (by omega)]; simp)
    have hlen : (column rs j).length = rs.length := column_length' rs j
    obtain ⟨s, hs1, hs2, hs3⟩ := foldl_flAdd_int B (column rs j) z0 1 hcol (by simpa using hz0B)
      (by rw [hlen]; simpa [Nat.add_comm] using hB)
    obtain ⟨z, hz⟩ := hdiv j hj
    have hsum : (s : ℚ) = (((r :: rs).length : ℕ) : ℚ) * z := by
      rw [hs2, ← hz, column_cons, List.sum_cons, hz0]
    have hk : (0 : ℚ) < (((r :: rs).length : ℕ) : ℚ) := by
      have : 0 < (r :: rs).length := by simp
      exact_mod_cast this
    have hsz : s = (((r :: rs).length : ℕ) : ℤ) * z := by exact_mod_cast hsum
    have hzb : |z| < 2 ^ 53 := by
      have h1 : |s| < 2 ^ 53 := by
        have h2 : (((1 + (column rs j).length) * B : ℕ) : ℤ) < 2 ^ 53 := by
          rw [hlen]; have := hB; simp only [List.length_cons] at this
          exact_mod_cast (by simpa [Nat.add_comm] using this)
        push_cast at h2 hs3 ⊢
        linarith
      have h3 : |z| ≤ |s| := by
        rw [hsz, abs_mul]
        have : (1 : ℤ) ≤ |(((r :: rs).length : ℕ) : ℤ)| := by
          simp only [List.length_cons]; rw [abs_of_nonneg (by positivity)]; push_cast; omega
        nlinarith [abs_nonneg z]
      omega
    have hlen2 : ((r.getD j 0 :: column rs j).length : ℚ) = (((r :: rs).length : ℕ) : ℚ) := by
      simp [hlen]
    have hq : (((r :: rs).length : ℕ) : ℚ) * (z : ℚ) / (((r :: rs).length : ℕ) : ℚ) = z := by
      field_simp
    show flDiv ((column rs j).foldl flAdd (r.getD j 0)) _ = _
    rw [hlen2, hz0, hs1, hz, hsum]
    unfold flDiv
    rw [hq, rn64_intCast z hzb]

theorem everyNth_length_le {α : Type} (c k : Nat) (xs : List α) :
    (everyNth c k xs).length ≤ xs.length := by
  induction xs generalizing k with
  | nil => cases k <;> simp [everyNth]
  | cons x t ih =>
    cases k with
    | zero => simp only [everyNth, List.length_cons]; have := ih (c - 1); omega
    | succ k => simp only [everyNth, List.length_cons]; have := ih k; omega

/-- **`phase_mean()` in binary64 on integer data is the rational model**: integer observable bounded
by `B`, `T·B < 2⁵³`, every phase sum divisible by the number of samples of the phase -/
theorem flPhaseMeanLoop_exact_on_integers (c n : Nat) (B : ℕ) (obs : Mat)
    (h : ∀ r ∈ obs, r.length = n) (hint : ∀ r ∈ obs, ∀ x ∈ r, ∃ z : ℤ, x = z ∧ |z| ≤ B)
    (hB : obs.length * B < 2 ^ 53)
    (hdiv : ∀ i j, i < c → j < n → ∃ z : ℤ,
      (column (everyNth c i obs) j).sum = ((everyNth c i obs).length : ℚ) * z) :
    flPhaseMeanLoop ops64 c n obs = phaseMeanLoop c n obs := by
  rw [flPhaseMeanLoop_eq, phaseMeanLoop_eq]
  unfold phaseMean
  apply List.map_congr_left
  intro i hi
  have hi' : i < c := List.mem_range.1 hi
  refine flColMean_exact_on_integers n B _ (fun r hr => h r (mem_everyNth _ _ _ _ hr))
    (fun r hr => hint r (mem_everyNth _ _ _ _ hr)) ?_ (fun j hj => hdiv i j hi' hj)
  exact lt_of_le_of_lt (Nat.mul_le_mul_right B (everyNth_length_le c i obs)) hB

theorem int_sum_bound (B : ℕ) (xs : List ℚ) (hx : ∀ x ∈ xs, ∃ z : ℤ, x = z ∧ |z| ≤ B) :
    ∃ s : ℤ, xs.sum = s ∧ |s| ≤ xs.length * B := by
  induction xs with
  | nil => exact ⟨0, by simp, by simp⟩
  | cons x xs ih =>
    obtain ⟨z, rfl, hz⟩ := hx x (by simp)
    obtain ⟨s, hs, hb⟩ := ih (fun y hy => hx y (by simp [hy]))
    refine ⟨z + s, by simp [hs], ?_⟩
    have := abs_add_le z s
    simp only [List.length_cons]
    push_cast
    linarith

/-- **`anomaly()` in binary64 on integer data is the rational model** (same hypotheses, one more
`B` of head-room for the differences `x − m`) -/
theorem flAnomalyOf_exact_on_integers (c n : Nat) (B : ℕ) (obs : Mat) (hc : 0 < c)
    (h : ∀ r ∈ obs, r.length = n) (hint : ∀ r ∈ obs, ∀ x ∈ r, ∃ z : ℤ, x = z ∧ |z| ≤ B)
    (hB : (obs.length + 1) * B < 2 ^ 53)
    (hdiv : ∀ i j, i < c → j < n → ∃ z : ℤ,
      (column (everyNth c i obs) j).sum = ((everyNth c i obs).length : ℚ) * z) :
    flAnomalyOf ops64 c n obs = anomalyOf c n obs := by
  rw [flAnomalyOf_closed ops64 c n obs hc, anomalyOf_closed c n obs hc]
  apply List.ext_getElem (by simp)
  intro t ht1 ht2
  have ht : t < obs.length := by simpa using ht1
  simp only [List.getElem_zipWith, List.getElem_range]
  set p := t % c with hp
  have hpc : p < c := Nat.mod_lt t hc
  have hne : everyNth c p obs ≠ [] := everyNth_phase_ne_nil c hc obs t ht
  have hrows : ∀ r ∈ everyNth c p obs, r.length = n := fun r hr => h r (mem_everyNth _ _ _ _ hr)
  have hintp : ∀ r ∈ everyNth c p obs, ∀ x ∈ r, ∃ z : ℤ, x = z ∧ |z| ≤ B :=
    fun r hr => hint r (mem_everyNth _ _ _ _ hr)
  have hkT := everyNth_length_le c p obs
  have hB1 : (everyNth c p obs).length * B < 2 ^ 53 := by
    refine lt_of_le_of_lt (Nat.mul_le_mul_right B ?_) hB; omega
  have hmean : flColMean ops64 (everyNth c p obs) = some (meanRow c n obs p) := by
    rw [flColMean_exact_on_integers n B _ hrows hintp hB1 (fun j hj => hdiv p j hpc hj),
      colMean_of_ne_nil n _ hne]
    rfl
  have hrow : flMeanRow ops64 c obs p = meanRow c n obs p := by simp [flMeanRow, hmean]
  rw [hrow]
  have hml : (meanRow c n obs p).length = n := meanRow_length c n obs p h
  have hol : obs[t].length = n := h _ (List.getElem_mem _)
  unfold flVsub vsub
  apply List.ext_getElem (by simp)
  intro j hj1 hj2
  have hj : j < n := by
    simp only [List.length_zipWith, hol, hml] at hj1; omega
  simp only [List.getElem_zipWith]
  obtain ⟨a, ha, haB⟩ := hint obs[t] (List.getElem_mem _) obs[t][j] (List.getElem_mem _)
  -- the mean entry is an integer bounded by k·B
  obtain ⟨z, hz⟩ := hdiv p j hpc hj
  have hcolint : ∀ x ∈ column (everyNth c p obs) j, ∃ z : ℤ, x = z ∧ |z| ≤ B := by
    intro x hx
    simp only [column, List.mem_map] at hx
    obtain ⟨row, hrow', rfl⟩ := hx
    have : row.length = n := hrows row hrow'
    exact hintp row hrow' _ (by
      rw [List.getD_eq_getElem?_getD, List.getElem?_eq_getElem (by omega)]; simp)
  obtain ⟨s, hs, hsB⟩ := int_sum_bound B _ hcolint
  rw [column_length'] at hsB
  have hk : 0 < (everyNth c p obs).length := List.length_pos_iff.2 hne
  have hkq : (0 : ℚ) < ((everyNth c p obs).length : ℚ) := by exact_mod_cast hk
  have hmj : (meanRow c n obs p)[j] = (z : ℚ) := by
    have e : (meanRow c n obs p)[j] = (meanRow c n obs p).getD j 0 := by
      simp [List.getD_eq_getElem?_getD, hml, hj]
    have hcm : colMean n (everyNth c p obs) = some (meanRow c n obs p) := by
      rw [colMean_of_ne_nil n _ hne]; rfl
    rw [e, colMean_getD n _ j _ hrows hj hcm, column_length', hz]
    field_simp
  have hsz : s = ((everyNth c p obs).length : ℤ) * z := by
    have : (s : ℚ) = ((everyNth c p obs).length : ℚ) * z := by rw [← hs, hz]
    exact_mod_cast this
  have hzB : |z| ≤ (everyNth c p obs).length * B := by
    have h3 : |z| ≤ |s| := by
      rw [hsz, abs_mul]
      have : (1 : ℤ) ≤ |((everyNth c p obs).length : ℤ)| := by
        rw [abs_of_nonneg (by positivity)]; exact_mod_cast hk
      nlinarith [abs_nonneg z]
    exact h3.trans hsB
  have hdiff : |a - z| < 2 ^ 53 := by
    have h1 := abs_sub a z
    have h2 : (((obs.length + 1) * B : ℕ) : ℤ) < 2 ^ 53 := by exact_mod_cast hB
    have h3 : ((everyNth c p obs).length : ℤ) * B ≤ (obs.length : ℤ) * B := by
      apply mul_le_mul_of_nonneg_right _ (by positivity)
      exact_mod_cast hkT
    push_cast at h2
    linarith
  rw [hmj, ha]
  show flSub (a : ℚ) (z : ℚ) = _
  unfold flSub
  have := rn64_intCast (a - z) hdiff
  push_cast at this
  exact this

/-! ### the `float32` comparisons of `set_window` are exact on `float32` numbers -/

/-- `x` is a binary32 number (exponent range unbounded) -/
def IsF32 (x : ℚ) : Prop :=
  ∃ (m : ℕ) (e : ℤ) (neg : Bool), m < 2 ^ 24 ∧ x = (if neg then -1 else 1) * ((m : ℚ) * (2 : ℚ) ^ e)

theorem rn32_of_isF32 (x : ℚ) (h : IsF32 x) : rn32 x = x := by
  obtain ⟨m, e, neg, hm, rfl⟩ := h
  exact rn32_fixed m e hm neg

/-- all six bounds of the window are binary32 numbers -/
structure Win.IsF32 (w : Win) : Prop where
  tmin : Pyunicorn.Window.IsF32 w.tmin
  tmax : Pyunicorn.Window.IsF32 w.tmax
  latmin : Pyunicorn.Window.IsF32 w.latmin
  latmax : Pyunicorn.Window.IsF32 w.latmax
  lonmin : Pyunicorn.Window.IsF32 w.lonmin
  lonmax : Pyunicorn.Window.IsF32 w.lonmax

theorem timeMask32_eq (w : Win) (time : Vec) (hw : w.IsF32) (ht : ∀ t ∈ time, IsF32 t) :
    timeMask32 w time = timeMask w time := by
  unfold timeMask32 timeMask
  rw [rn32_of_isF32 _ hw.tmin, rn32_of_isF32 _ hw.tmax]
  split
  · rfl
  · exact List.map_congr_left fun t h => by rw [rn32_of_isF32 t (ht t h)]

theorem spaceMask32_eq (w : Win) (lat lon : Vec) (hw : w.IsF32) (hla : ∀ t ∈ lat, IsF32 t)
    (hlo : ∀ t ∈ lon, IsF32 t) : spaceMask32 w lat lon = spaceMask w lat lon := by
  unfold spaceMask32 spaceMask
  split
  · rfl
  · induction lat generalizing lon with
    | nil => simp
    | cons a as ih =>
      cases lon with
      | nil => simp
      | cons b bs =>
        simp only [List.zipWith_cons_cons]
        rw [ih bs (fun t h => hla t (by simp [h])) (fun t h => hlo t (by simp [h]))]
        congr 1
        unfold inBox32 inBox
        rw [rn32_of_isF32 _ hw.latmin, rn32_of_isF32 _ hw.latmax, rn32_of_isF32 _ hw.lonmin,
          rn32_of_isF32 _ hw.lonmax, rn32_of_isF32 a (hla a (by simp)),
          rn32_of_isF32 b (hlo b (by simp))]

theorem applyWindow32_eq (full : View) (w : Win) (hw : w.IsF32) (ht : ∀ t ∈ full.time, IsF32 t)
    (hla : ∀ t ∈ full.lat, IsF32 t) (hlo : ∀ t ∈ full.lon, IsF32 t) :
    applyWindow32 full w = applyWindow full w := by
  unfold applyWindow32 applyWindow
  rw [timeMask32_eq w _ hw ht, spaceMask32_eq w _ _ hw hla hlo]

end Pyunicorn.Window
