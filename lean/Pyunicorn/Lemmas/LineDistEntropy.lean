import Pyunicorn.Model.LineDist
import Mathlib.Analysis.SpecialFunctions.Log.Basic
import Mathlib.Tactic.Linarith
import Mathlib.Tactic.Positivity
import Mathlib.Tactic.FieldSimp
import Mathlib.Tactic.Ring
/-! C08, round 4: the line entropies (`diag_entropy`, `vert_entropy`, `white_vert_entropy`) as
real functions of the histogram, with `Real.log`, and their range. -/
namespace Pyunicorn.LineDist

/-- one summand `-(p · log p)` with `p = x / T` -/
noncomputable def entTerm (T : ℝ) (x : ℕ) : ℝ := -(((x : ℝ) / T) * Real.log ((x : ℝ) / T))

/-- `-(p * np.log(p)).sum()` with `p = w / float(w.sum() + eps)` over the extracted non-zero
weights `w` (recurrence_plot.py: `diagnorm = diagline / float(diagline.sum() + self._epsilon)`) -/
noncomputable def entropyR (eps : ℝ) (w : List ℕ) : ℝ :=
  (w.map (entTerm (((w.sum : ℕ) : ℝ) + eps))).sum

/-- the entropy method of the class: `hist[l_min-1:]`, `np.extract(· != 0, ·)`, then `entropyR` -/
noncomputable def lineEntropy (eps : ℝ) (lmin : ℕ) (hist : List ℕ) : ℝ :=
  entropyR eps (entropyWeights lmin hist)

theorem entropyR_eq_neg_sum (eps : ℝ) (w : List ℕ) :
    entropyR eps w = -((w.map fun (x : ℕ) => ((x : ℝ) / (((w.sum : ℕ) : ℝ) + eps))
        * Real.log ((x : ℝ) / (((w.sum : ℕ) : ℝ) + eps))).sum) := by
  unfold entropyR
  generalize (((w.sum : ℕ) : ℝ) + eps) = T
  induction w with
  | nil => simp
  | cons a t ih => simp only [List.map_cons, List.sum_cons, ih, entTerm]; ring

theorem entTerm_nonneg (T : ℝ) (x : ℕ) (hT : (x : ℝ) ≤ T) (hx : 0 < x) : 0 ≤ entTerm T x := by
  have hx' : (0 : ℝ) < x := by exact_mod_cast hx
  have hT' : 0 < T := lt_of_lt_of_le hx' hT
  have hq : 0 ≤ (x : ℝ) / T := by positivity
  have hq1 : (x : ℝ) / T ≤ 1 := by rw [div_le_one hT']; exact hT
  have := Real.log_nonpos hq hq1
  unfold entTerm
  nlinarith

/-- `-(q log q) ≤ q·log k + (1/k − q)`: the summand of Gibbs' inequality against the uniform
distribution on `k` classes -/
theorem entTerm_le (T k : ℝ) (x : ℕ) (hx : 0 < x) (hT : 0 < T) (hk : 0 < k) :
    entTerm T x ≤ ((x : ℝ) / T) * Real.log k + (1 / k - (x : ℝ) / T) := by
  have hx' : (0 : ℝ) < x := by exact_mod_cast hx
  have hq : 0 < (x : ℝ) / T := by positivity
  unfold entTerm
  generalize (x : ℝ) / T = q at hq ⊢
  have hy : 0 < (q * k)⁻¹ := by positivity
  have h1 := Real.log_le_sub_one_of_pos hy
  rw [Real.log_inv, Real.log_mul hq.ne' hk.ne'] at h1
  have h2 := mul_le_mul_of_nonneg_left h1 hq.le
  have h3 : q * ((q * k)⁻¹ - 1) = 1 / k - q := by field_simp
  rw [h3] at h2
  linarith

theorem mem_le_sum (w : List ℕ) (x : ℕ) (hx : x ∈ w) : x ≤ w.sum := by
  induction w with
  | nil => simp at hx
  | cons a t ih =>
    rcases List.mem_cons.mp hx with rfl | h
    · simp
    · have := ih h; simp only [List.sum_cons]; omega

theorem sum_entTerm_nonneg (T : ℝ) (w : List ℕ) (hpos : ∀ x ∈ w, 0 < x)
    (hT : ∀ x ∈ w, (x : ℝ) ≤ T) : 0 ≤ (w.map (entTerm T)).sum := by
  induction w with
  | nil => simp
  | cons a t ih =>
    simp only [List.map_cons, List.sum_cons]
    have h1 := entTerm_nonneg T a (hT a (by simp)) (hpos a (by simp))
    have h2 := ih (fun x hx => hpos x (by simp [hx])) (fun x hx => hT x (by simp [hx]))
    linarith

theorem sum_entTerm_le (T k : ℝ) (w : List ℕ) (hpos : ∀ x ∈ w, 0 < x) (hT : 0 < T) (hk : 0 < k) :
    (w.map (entTerm T)).sum
      ≤ (((w.sum : ℕ) : ℝ) / T) * Real.log k + ((w.length : ℝ) / k - ((w.sum : ℕ) : ℝ) / T) := by
  induction w with
  | nil => simp
  | cons a t ih =>
    simp only [List.map_cons, List.sum_cons, List.length_cons]
    have h1 := entTerm_le T k a (hpos a (by simp)) hT hk
    have h2 := ih (fun x hx => hpos x (by simp [hx]))
    simp only [Nat.cast_add, Nat.cast_one]
    have e1 : ((a : ℝ) + ((t.sum : ℕ) : ℝ)) / T = (a : ℝ) / T + ((t.sum : ℕ) : ℝ) / T := add_div _ _ _
    have e2 : ((t.length : ℝ) + 1) / k = (t.length : ℝ) / k + 1 / k := add_div _ _ _
    rw [e1, e2]
    nlinarith

/-- the entropy is never negative (`eps ≥ 0`, positive weights) -/
theorem entropyR_nonneg (eps : ℝ) (heps : 0 ≤ eps) (w : List ℕ) (hpos : ∀ x ∈ w, 0 < x) :
    0 ≤ entropyR eps w := by
  apply sum_entTerm_nonneg _ w hpos
  intro x hx
  have : (x : ℝ) ≤ ((w.sum : ℕ) : ℝ) := by exact_mod_cast mem_le_sum w x hx
  linarith

/-- **upper bound with the code's `_epsilon`**: with `c = S / (S + eps) ≤ 1` the entropy is at
most `c · log k + (1 − c)`, `k` the number of occupied length classes -/
theorem entropyR_le (eps : ℝ) (heps : 0 ≤ eps) (w : List ℕ) (hpos : ∀ x ∈ w, 0 < x)
    (hne : w ≠ []) :
    entropyR eps w ≤ (((w.sum : ℕ) : ℝ) / (((w.sum : ℕ) : ℝ) + eps)) * Real.log w.length
      + (1 - ((w.sum : ℕ) : ℝ) / (((w.sum : ℕ) : ℝ) + eps)) := by
  have hlen : 0 < w.length := List.length_pos_iff.mpr hne
  have hk : (0 : ℝ) < w.length := by exact_mod_cast hlen
  have hS : 0 < w.sum := by
    obtain ⟨a, t, rfl⟩ := List.exists_cons_of_ne_nil hne
    have := hpos a (by simp)
    simp only [List.sum_cons]; omega
  have hS' : (0 : ℝ) < ((w.sum : ℕ) : ℝ) := by exact_mod_cast hS
  have hT : 0 < ((w.sum : ℕ) : ℝ) + eps := by linarith
  have := sum_entTerm_le (((w.sum : ℕ) : ℝ) + eps) w.length w hpos hT hk
  unfold entropyR
  rw [div_self hk.ne'] at this
  exact this

/-- **range of the entropy**: `0 ≤ H ≤ log k + eps / (S + eps)`; for `eps = 0` this is
`[0, log k]` -/
theorem entropyR_range (eps : ℝ) (heps : 0 ≤ eps) (w : List ℕ) (hpos : ∀ x ∈ w, 0 < x)
    (hne : w ≠ []) :
    0 ≤ entropyR eps w ∧
    entropyR eps w ≤ Real.log w.length + eps / (((w.sum : ℕ) : ℝ) + eps) := by
  refine ⟨entropyR_nonneg eps heps w hpos, ?_⟩
  have h := entropyR_le eps heps w hpos hne
  have hlen : 0 < w.length := List.length_pos_iff.mpr hne
  have hk1 : (1 : ℝ) ≤ w.length := by exact_mod_cast hlen
  have hlog : 0 ≤ Real.log w.length := Real.log_nonneg hk1
  have hS : (0 : ℝ) ≤ ((w.sum : ℕ) : ℝ) := by positivity
  have hS0 : 0 < w.sum := by
    obtain ⟨a, t, rfl⟩ := List.exists_cons_of_ne_nil hne
    have := hpos a (by simp)
    simp only [List.sum_cons]; omega
  have hT : 0 < ((w.sum : ℕ) : ℝ) + eps := by
    have : (0 : ℝ) < ((w.sum : ℕ) : ℝ) := by exact_mod_cast hS0
    linarith
  have hc1 : ((w.sum : ℕ) : ℝ) / (((w.sum : ℕ) : ℝ) + eps) ≤ 1 := by
    rw [div_le_one hT]; linarith
  have hc0 : 0 ≤ ((w.sum : ℕ) : ℝ) / (((w.sum : ℕ) : ℝ) + eps) := by positivity
  have hce : 1 - ((w.sum : ℕ) : ℝ) / (((w.sum : ℕ) : ℝ) + eps)
      = eps / (((w.sum : ℕ) : ℝ) + eps) := by field_simp; ring
  rw [hce] at h
  nlinarith

theorem entropyR_le_log (w : List ℕ) (hpos : ∀ x ∈ w, 0 < x) (hne : w ≠ []) :
    entropyR 0 w ≤ Real.log w.length := by
  have := (entropyR_range 0 (le_refl 0) w hpos hne).2
  simpa using this

/-- no line at all: `np.extract` returns an empty array and the entropy is `0` -/
theorem entropyR_nil (eps : ℝ) : entropyR eps [] = 0 := by simp [entropyR]

/-- all lines of one length: entropy `0` (lower end of the range, `eps = 0`) -/
theorem entropyR_single (m : ℕ) (hm : 0 < m) : entropyR 0 [m] = 0 := by
  have : (m : ℝ) ≠ 0 := by exact_mod_cast hm.ne'
  simp [entropyR, entTerm, div_self this]

theorem sum_replicate_nat (k m : ℕ) : (List.replicate k m).sum = k * m := by
  induction k with
  | zero => simp
  | succ k ih => simp [List.replicate_succ, ih]; ring

theorem sum_map_replicate (k : ℕ) (m : ℕ) (f : ℕ → ℝ) :
    ((List.replicate k m).map f).sum = k * f m := by
  induction k with
  | zero => simp
  | succ k ih => simp [List.replicate_succ, ih]; ring

/-- `k` occupied lengths with the same count: entropy `log k` (upper end of the range) -/
theorem entropyR_uniform (k m : ℕ) (hk : 0 < k) (hm : 0 < m) :
    entropyR 0 (List.replicate k m) = Real.log k := by
  have hk' : (k : ℝ) ≠ 0 := by exact_mod_cast hk.ne'
  have hm' : (m : ℝ) ≠ 0 := by exact_mod_cast hm.ne'
  unfold entropyR
  rw [sum_map_replicate, sum_replicate_nat]
  have : (m : ℝ) / (((k * m : ℕ) : ℝ) + 0) = (k : ℝ)⁻¹ := by
    push_cast; rw [add_zero]; field_simp
  simp only [entTerm, this, Real.log_inv]
  field_simp

end Pyunicorn.LineDist
