import Pyunicorn.Lemmas.NetBetwFwdSpec
import Pyunicorn.Lemmas.NetBetwPaths
import Pyunicorn.Lemmas.NetDist
import Mathlib.Data.List.Perm.Lattice
import Mathlib.Algebra.BigOperators.Group.List.Basic
/-!
Round 5: `FwdFinal` (the kernel's arrays after the forward phase, in their own terms) implies `FwdOK`
(true shortest-path distances, `multiplicity_to_j = σ`, predecessor slices = predecessors of the
definition).
-/
namespace Pyunicorn.NetBetw
open Pyunicorn.Net

theorem kpred_adj' {a : Adj} {d : List Nat} {x l : Nat} (h : kpred a d x l = true) :
    a x l = true ∧ d.getD x 0 + 1 = d.getD l 0 := by
  unfold kpred at h
  simp only [Bool.and_eq_true, beq_iff_eq] at h
  exact h

section
variable {n : Nat} {a : Adj} {w : Nat → Rat} {j : Nat} {offsets : List Nat} {s : Fwd}

theorem FwdFinal.j_mem (h : FwdFinal n a w j offsets s) : j ∈ s.queue := by
  have := h.queue_head
  cases hq : s.queue with
  | nil => simp [hq] at this
  | cons x t => simp [hq] at this; simp [this]

theorem FwdFinal.dist_zero (h : FwdFinal n a w j offsets s) {v : Nat} (hv : v ∈ s.queue)
    (h0 : s.dist.getD v 0 = 0) : v = j := by
  apply Classical.byContradiction
  intro hne
  obtain ⟨u, _, _, hd⟩ := h.parent v hv hne
  omega

/-- soundness: a visited node at kernel distance `m` is reached by a walk of `m` links -/
theorem FwdFinal.walk (h : FwdFinal n a w j offsets s) :
    ∀ m v, v ∈ s.queue → s.dist.getD v 0 = m → Walk n a j v m := by
  intro m
  induction m with
  | zero =>
    intro v hv h0
    rw [h.dist_zero hv h0]
    exact Walk.nil j
  | succ m ih =>
    intro v hv hd
    have hne : v ≠ j := by
      intro e; rw [e, h.dist_root] at hd; omega
    obtain ⟨u, hu, hau, hdu⟩ := h.parent v hv hne
    exact Walk.snoc (ih u hu (by omega)) (h.queue_lt u hu) hau

/-- completeness: every node at the end of a walk is visited, at most that far -/
theorem FwdFinal.of_walk (h : FwdFinal n a w j offsets s) {v m : Nat} (hw : Walk n a j v m) :
    v < n → v ∈ s.queue ∧ s.dist.getD v 0 ≤ m := by
  induction hw with
  | nil => intro _; exact ⟨h.j_mem, by rw [h.dist_root]⟩
  | snoc hw' hx hax ih =>
    intro hv
    obtain ⟨hxq, hxd⟩ := ih hx
    obtain ⟨hvq, hvd⟩ := h.closed _ hxq _ hv hax
    exact ⟨hvq, by omega⟩

theorem FwdFinal.dist_mem (h : FwdFinal n a w j offsets s) (hj : j < n) {v : Nat} (hv : v ∈ s.queue) :
    dist n a j v = some (s.dist.getD v 0) := by
  rw [DistL.dist_some_iff n a j v _ hj (h.queue_lt v hv)]
  refine ⟨h.walk _ v hv rfl, ?_⟩
  intro m hm hw
  have := (h.of_walk hw (h.queue_lt v hv)).2
  omega

theorem FwdFinal.dist_not_mem (h : FwdFinal n a w j offsets s) (hj : j < n) {v : Nat} (hv : v < n)
    (hvq : v ∉ s.queue) : dist n a j v = none := by
  rw [DistL.dist_none_iff n a j v hj hv]
  intro k hw
  exact hvq (h.of_walk hw hv).1

theorem FwdFinal.mem_iff (h : FwdFinal n a w j offsets s) (hj : j < n) {v : Nat} (hv : v < n) :
    v ∈ s.queue ↔ (dist n a j v).isSome = true := by
  constructor
  · intro hq; rw [h.dist_mem hj hq]; rfl
  · intro hs
    apply Classical.byContradiction
    intro hq
    rw [h.dist_not_mem hj hv hq] at hs
    simp at hs

/-- on visited nodes the kernel's predecessor test is the definition's -/
theorem FwdFinal.kpred_eq (h : FwdFinal n a w j offsets s) (hj : j < n) {i l : Nat}
    (hi : i ∈ s.queue) (hl : l ∈ s.queue) :
    kpred a s.dist i l = isPred a (dist n a) j i l := by
  unfold kpred isPred
  rw [h.dist_mem hj hi, h.dist_mem hj hl]

theorem FwdFinal.isPred_mem (h : FwdFinal n a w j offsets s) (hj : j < n) {i l : Nat} (hi : i < n)
    (hp : isPred a (dist n a) j i l = true) : i ∈ s.queue := by
  rw [h.mem_iff hj hi]
  unfold isPred at hp
  cases hd : dist n a j i with
  | none => simp [hd] at hp
  | some x => rfl

/-- the recorded predecessors of a visited node are, up to order, the predecessors of the definition -/
theorem FwdFinal.preds_perm (h : FwdFinal n a w j offsets s) (hj : j < n) {l : Nat} (hl : l ∈ s.queue) :
    (s.queue.filter fun i => kpred a s.dist i l).Perm
      ((List.range n).filter fun i => isPred a (dist n a) j i l) := by
  rw [List.perm_ext_iff_of_nodup (h.queue_nodup.filter _) (List.nodup_range.filter _)]
  intro i
  simp only [List.mem_filter, List.mem_range]
  constructor
  · rintro ⟨hi, hk⟩
    exact ⟨h.queue_lt i hi, by rw [← h.kpred_eq hj hi hl]; exact hk⟩
  · rintro ⟨hi, hp⟩
    have hiq := h.isPred_mem hj hi hp
    exact ⟨hiq, by rw [h.kpred_eq hj hiq hl]; exact hp⟩

/-- `multiplicity_to_j[v] = σ_jv` for visited nodes, by induction over the BFS level -/
theorem FwdFinal.mult_lev (h : FwdFinal n a w j offsets s) (hj : j < n) :
    ∀ k v, v ∈ s.queue → s.dist.getD v 0 = k → s.mult.getD v 0 = sigLev n a w (dist n a) j k v := by
  intro k
  induction k with
  | zero =>
    intro v hv h0
    rw [h.dist_zero hv h0]
    rw [h.mult_root]; simp [sigLev]
  | succ k ih =>
    intro v hv hd
    have hne : v ≠ j := by
      intro e; rw [e, h.dist_root] at hd; omega
    have hD : dist n a j v = some (k + 1) := by rw [h.dist_mem hj hv, hd]
    simp only [sigLev, hD, if_true]
    rw [h.mult_rec v (h.queue_lt v hv) hne, sumToQ_ite_eq_filter]
    congr 1
    rw [← (h.preds_perm hj hv).map (sigLev n a w (dist n a) j k) |>.sum_eq]
    congr 1
    apply List.map_congr_left
    intro i hi
    simp only [List.mem_filter] at hi
    apply ih i hi.1
    have := (kpred_adj' hi.2)
    omega

theorem FwdFinal.mult_unvisited (h : FwdFinal n a w j offsets s) {v : Nat} (hv : v < n)
    (hvq : v ∉ s.queue) : s.mult.getD v 0 = 0 := by
  have hne : v ≠ j := fun e => hvq (e ▸ h.j_mem)
  rw [h.mult_rec v hv hne]
  have : (s.queue.filter fun i => kpred a s.dist i v) = [] := by
    rw [List.filter_eq_nil_iff]
    intro i hi hk
    exact hvq (h.closed i hi v hv (kpred_adj' hk).1).1
  rw [this]; simp

theorem FwdFinal.distK_mem (h : FwdFinal n a w j offsets s) (hj : j < n) {v : Nat} (hv : v ∈ s.queue) :
    distK n a j v = s.dist.getD v 0 := by
  unfold distK; rw [h.dist_mem hj hv]; rfl

/-- **the state after the forward phase is the one the backward sweep expects**: true distances,
every reachable node once in the queue in the order of non-decreasing distance,
`multiplicity_to_j = σ` (weighted number of shortest paths), predecessor slices = the predecessors of
the definition in queue order -/
theorem FwdFinal.fwdOK (h : FwdFinal n a w j offsets s) (hj : j < n) : FwdOK n a w j offsets s := by
  refine
    { queue_nodup := h.queue_nodup
      queue_lt := h.queue_lt
      queue_mem := fun v hv => h.mem_iff hj hv
      queue_sorted := ?_
      queue_head := h.queue_head
      dist_eq := ?_
      mult_len := h.mult_len
      mult_eq := ?_
      preds_eq := ?_ }
  · refine h.queue_sorted.imp_of_mem ?_
    intro x y hx hy hxy
    rw [h.distK_mem hj hx, h.distK_mem hj hy]; exact hxy
  · intro v hv
    by_cases hq : v ∈ s.queue
    · rw [h.distK_mem hj hq]
    · rw [h.dist_unvisited v hv hq]; unfold distK; rw [h.dist_not_mem hj hv hq]; rfl
  · intro v hv
    unfold sigma
    by_cases hq : v ∈ s.queue
    · rw [h.dist_mem hj hq]
      exact h.mult_lev hj _ v hq rfl
    · rw [h.dist_not_mem hj hv hq]
      exact h.mult_unvisited hv hq
  · intro l hl
    have := h.preds l (h.queue_lt l hl)
    unfold slice at this
    rw [this]
    apply List.filter_congr
    intro i hi
    exact h.kpred_eq hj hi hl

end

end Pyunicorn.NetBetw
