import Pyunicorn.Lemmas.CouplingOccupancy
/-!
# C10 round 5: occupancy of the quantile bins for **every** row length

Round 4 proved equal occupancy for `bins | T`.  Here the closed form for a tie-free row of any
length: with `step = ceil(T / bins)` the symbol `a ≥ 0` is given to `min step (T - step·a)` samples
(truncated subtraction: `step` for the full bins, the remainder for the last, short bin, `0`
beyond) and no sample gets a negative symbol.
-/
namespace Pyunicorn.Coupling

/-- occupancy on a strictly increasing list of any length, sliced with `[::m]` -/
theorem occ_sorted_general (m : Nat) (hm : 1 ≤ m) (n : Nat) :
    ∀ s : List Rat, s.length ≤ n → s.Pairwise (· < ·) → ∀ a : Int,
      occ (everyNth m s) s a = if 0 ≤ a then min m (s.length - m * a.toNat) else 0 := by
  induction n with
  | zero =>
    intro s hl _ a
    have : s = [] := List.eq_nil_of_length_eq_zero (by omega)
    subst this
    rw [everyNth_nil]
    by_cases ha : 0 ≤ a
    · rw [if_pos ha]; simp [occ]
    · rw [if_neg ha]; rfl
  | succ n ih =>
    intro s hl hs a
    cases s with
    | nil =>
      rw [everyNth_nil]
      by_cases ha : 0 ≤ a
      · rw [if_pos ha]; simp [occ]
      · rw [if_neg ha]; rfl
    | cons h t =>
      have hsplit : (h :: t) = (h :: t).take m ++ (h :: t).drop m := (List.take_append_drop m _).symm
      have hdrop : (h :: t).drop m = t.drop (m - 1) := by
        obtain ⟨m', rfl⟩ : ∃ m', m = m' + 1 := ⟨m - 1, by omega⟩
        simp
      have hE : everyNth m (h :: t) = h :: everyNth m ((h :: t).drop m) := by
        rw [everyNth_cons, hdrop]
      have hpw := hs
      rw [hsplit, List.pairwise_append] at hpw
      obtain ⟨_, hpd, hcross⟩ := hpw
      have hL : (h :: t).length = t.length + 1 := rfl
      have hdl : ((h :: t).drop m).length = (h :: t).length - m := List.length_drop
      have htl : ((h :: t).take m).length = min m (h :: t).length := List.length_take
      have hhead : ∀ x ∈ h :: t, h ≤ x := by
        intro x hx
        rcases List.mem_cons.mp hx with e | e
        · rw [e]
        · exact le_of_lt ((List.pairwise_cons.mp hs).1 x e)
      set D := (h :: t).drop m with hD
      set K := (h :: t).take m with hK
      have hEmem : ∀ e ∈ everyNth m D, e ∈ D := fun e he => mem_everyNth m D.length D (Nat.le_refl _) e he
      have hsym0 : ∀ x ∈ K, quantileSym (h :: everyNth m D) x = 0 := by
        intro x hx
        have hx' : x ∈ h :: t := by rw [hsplit]; exact List.mem_append_left _ hx
        have hnone : (everyNth m D).filter (fun e => decide (e ≤ x)) = [] := by
          rw [List.filter_eq_nil_iff]
          intro e he
          have := hcross x hx e (hEmem e he)
          simp [not_le.mpr this]
        unfold quantileSym
        simp [List.filter_cons, hhead x hx', hnone]
      have hsym1 : ∀ x ∈ D, quantileSym (h :: everyNth m D) x = quantileSym (everyNth m D) x + 1 := by
        intro x hx
        have hx' : x ∈ h :: t := by rw [hsplit]; exact List.mem_append_right _ hx
        unfold quantileSym
        simp [List.filter_cons, hhead x hx']
      rw [hE]
      conv_lhs => rw [hsplit]
      rw [occ_append]
      have h1 : occ (h :: everyNth m D) K a = if a = 0 then min m (h :: t).length else 0 := by
        by_cases ha : a = 0
        · rw [if_pos ha, occ_all _ _ _ (fun x hx => by rw [hsym0 x hx, ha]), htl]
        · rw [if_neg ha, occ_none _ _ _ (fun x hx => by rw [hsym0 x hx]; exact fun e => ha e.symm)]
      have h2 : occ (h :: everyNth m D) D a = occ (everyNth m D) D (a - 1) := by
        apply occ_congr
        intro x hx
        rw [hsym1 x hx]
        constructor <;> intro e <;> omega
      have hDn : D.length ≤ n := by rw [hdl]; simp only [List.length_cons] at hl ⊢; omega
      rw [h1, h2, ih D hDn hpd (a - 1), hdl]
      by_cases ha : a = 0
      · subst ha; simp
      · rw [if_neg ha]
        by_cases hr : 0 ≤ a
        · have h3 : 0 ≤ a - 1 := by omega
          rw [if_pos h3, if_pos hr]
          obtain ⟨k, rfl⟩ : ∃ k : Nat, a = (k : Int) + 1 := ⟨(a - 1).toNat, by omega⟩
          have e1 : ((k : Int) + 1 - 1).toNat = k := by omega
          have e2 : ((k : Int) + 1).toNat = k + 1 := by omega
          rw [e1, e2, Nat.mul_succ]
          omega
        · have h3 : ¬ 0 ≤ a - 1 := by omega
          rw [if_neg h3, if_neg hr]

/-- **occupancy of the quantile bins, every row length**: tie-free row of `T` samples,
`step = ceil(T / bins)` -/
theorem qbinOccupancy_general (row : List Rat) (bins : Nat) (hnd : row.Nodup) (hT : 1 ≤ row.length)
    (hb : 1 ≤ bins) (a : Int) :
    qbinOccupancy row bins a =
      if 0 ≤ a then min (binEdge row.length bins) (row.length - binEdge row.length bins * a.toNat)
      else 0 := by
  have hocc : qbinOccupancy row bins a = occ (quantileEdges row bins) row a := by
    unfold qbinOccupancy quantileBinRow occ
    rw [List.filter_map, List.length_map]
    rfl
  have hstep : 1 ≤ binEdge row.length bins := by
    unfold binEdge
    exact (Nat.one_le_div_iff (by omega)).mpr (by omega)
  rw [hocc, occ_perm _ _ _ _ (perm_sortAsc row).symm]
  unfold quantileEdges
  have := occ_sorted_general (binEdge row.length bins) hstep (sortAsc row).length (sortAsc row)
    (Nat.le_refl _) (strict_sortAsc row hnd) a
  rw [length_sortAsc] at this
  exact this

end Pyunicorn.Coupling
