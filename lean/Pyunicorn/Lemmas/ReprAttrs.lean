import Pyunicorn.Lemmas.ReprHist
import Pyunicorn.Model.ReprAttrs
/-!
Helper lemmas for C05, part 3 (round 3): the dictionary of named link attributes,
the loop of `copy()` over it, and the effect of every statement of a history
(`stepA`) — now including `undirected_copy`, the `edge_list()` round trip and
`permuted_copy(identity)` — on the abstract state `AbsA`.
-/
namespace Pyunicorn.Repr

/-! ### the attribute dictionary -/

theorem get_put (as : Attrs) (a b : String) (vs : List Rat) :
    (as.put a vs).get b = if b = a then some vs else as.get b := by
  induction as with
  | nil =>
    by_cases h : a = b
    · subst h; simp [Attrs.put, Attrs.get]
    · have h' : ¬ b = a := fun e => h e.symm
      simp [Attrs.put, Attrs.get, h, h']
  | cons p ps ih =>
    by_cases hp : p.1 = a
    · by_cases hb : b = a
      · subst hb; simp [Attrs.put, Attrs.get, hp]
      · have : ¬ a = b := fun e => hb e.symm
        have h2 : ¬ p.1 = b := fun e => hb (e.symm.trans hp)
        simp [Attrs.put, Attrs.get, hp, hb, this]
    · by_cases hb : b = a
      · subst hb
        simp [Attrs.put, Attrs.get, hp, ih]
      · by_cases h3 : p.1 = b
        · simp [Attrs.put, Attrs.get, hp, h3, hb]
        · simp [Attrs.put, Attrs.get, hp, h3, hb, ih]

theorem get_del (as : Attrs) (a b : String) :
    (as.del a).get b = if b = a then none else as.get b := by
  induction as with
  | nil => simp [Attrs.del, Attrs.get]
  | cons p ps ih =>
    unfold Attrs.del at ih ⊢
    by_cases hp : p.1 = a
    · by_cases hb : b = a
      · subst hb; simpa [List.filter_cons, hp, Attrs.get] using ih
      · have h2 : ¬ p.1 = b := fun e => hb (e.symm.trans hp)
        have h3 : ¬ a = b := fun e => hb e.symm
        simpa [List.filter_cons, hp, Attrs.get, h2, hb, h3] using ih
    · by_cases hb : b = a
      · subst hb
        simpa [List.filter_cons, hp, Attrs.get] using ih
      · by_cases h3 : p.1 = b
        · simp [List.filter_cons, hp, Attrs.get, h3, hb]
        · simpa [List.filter_cons, hp, Attrs.get, h3, hb] using ih

theorem get_none_iff (as : Attrs) (a : String) : as.get a = none ↔ a ∉ as.map (·.1) := by
  induction as with
  | nil => simp [Attrs.get]
  | cons p ps ih =>
    by_cases hp : p.1 = a
    · simp [Attrs.get, hp]
    · have : ¬ a = p.1 := fun e => hp e.symm
      simp [Attrs.get, hp, ih, this]

theorem get_of_mem (as : Attrs) (p : String × List Rat) (h : p ∈ as) : ∃ vs, as.get p.1 = some vs := by
  cases hg : as.get p.1 with
  | some vs => exact ⟨vs, rfl⟩
  | none =>
    rw [get_none_iff] at hg
    exact absurd (List.mem_map_of_mem (f := (·.1)) h) hg

/-- renaming the attributes through `ren`: a name `a` that is kept (`ren a = a`) and that no
other attribute is renamed to keeps its values -/
theorem get_map_ren (as : Attrs) (ren : String → String) (a : String) (ha : ren a = a)
    (hinj : ∀ p ∈ as, ren p.1 = a → p.1 = a) :
    Attrs.get (as.map fun p => (ren p.1, p.2)) a = as.get a := by
  induction as with
  | nil => rfl
  | cons p ps ih =>
    have ih' := ih (fun q hq => hinj q (List.mem_cons_of_mem _ hq))
    by_cases hp : p.1 = a
    · simp [Attrs.get, hp, ha]
    · have h2 : ¬ ren p.1 = a := fun e => hp (hinj p (by simp) e)
      simpa [Attrs.get, hp, h2] using ih'

/-- a name that is renamed away and that nothing is renamed to is no longer found -/
theorem get_map_ren_none (as : Attrs) (ren : String → String) (a : String)
    (hno : ∀ p ∈ as, ren p.1 ≠ a) :
    Attrs.get (as.map fun p => (ren p.1, p.2)) a = none := by
  rw [get_none_iff]
  intro h
  simp only [List.map_map, List.mem_map, Function.comp] at h
  obtain ⟨p, hp, he⟩ := h
  exact hno p hp he

/-! ### `link_attribute(name)` depends on the graph object and the values of that name only -/

theorem linkAttr_congr (n1 n2 : Net) (hg : n1.graph = n2.graph) (hd : n1.directed = n2.directed)
    (he : n1.eattr = n2.eattr) : linkAttr n1 = linkAttr n2 := by
  unfold linkAttr
  rw [hg, hd, he]

/-- a graph object with one attribute, nothing else -/
def netOf (d : Bool) (g : List (Nat × Nat)) (ea : Option (List Rat)) : Net :=
  { Net.blank d 0 with graph := g, eattr := ea }

theorem linkAttrA_eq (x : NetA) (a : String) :
    linkAttrA x a = linkAttr (netOf x.core.directed x.core.graph (x.attrs.get a)) :=
  linkAttr_congr _ _ rfl rfl rfl

/-- the attribute `a` of the graph object `(d, g)` with dictionary `as` is the matrix `V` on
the links and 0 elsewhere (`none`: there is no attribute of that name).  On a graph
without edges `set_link_attribute` creates nothing, so the name need not exist there. -/
def AttrOK (d : Bool) (g : List (Nat × Nat)) (as : Attrs) (a : String) :
    Option (Nat → Nat → Rat) → Prop
  | none => as.get a = none
  | some V => (g ≠ [] → ∃ vs, as.get a = some vs) ∧
      ∃ f, linkAttr (netOf d g (as.get a)) = some f ∧
        ∀ i j, f i j = if rel d g i j then V i j else 0

theorem attrOK_congr {d g as as' a V} (h : as'.get a = as.get a) (hk : AttrOK d g as a V) :
    AttrOK d g as' a V := by
  cases V with
  | none => exact h.trans hk
  | some V => unfold AttrOK at hk ⊢; rw [h]; exact hk

theorem rel_nil (d : Bool) (i j : Nat) : rel d [] i j = false := by simp [rel]

theorem attrOK_nil (d : Bool) (as : Attrs) (a : String) (V : Nat → Nat → Rat) :
    AttrOK d [] as a (some V) := by
  refine ⟨fun h => absurd rfl h, fun _ _ => 0, ?_, ?_⟩
  · simp [linkAttr, netOf]
  · intro i j; simp [rel_nil]

theorem attrOK_put {d g} (as : Attrs) (a : String) (v : Nat → Nat → Rat)
    (hsym : d = false → ∀ i j, v j i = v i j) :
    AttrOK d g (as.put a (g.map fun e => v e.1 e.2)) a (some v) := by
  show (g ≠ [] → ∃ vs, (as.put a (g.map fun e => v e.1 e.2)).get a = some vs) ∧
      ∃ f, linkAttr (netOf d g ((as.put a (g.map fun e => v e.1 e.2)).get a)) = some f ∧
        ∀ i j, f i j = if rel d g i j then v i j else 0
  rw [get_put, if_pos rfl]
  exact ⟨fun _ => ⟨_, rfl⟩,
    linkAttr_setLinkAttr_gen (netOf d g none) v (fun hd i j _ => hsym hd i j)⟩

/-! ### the loop of `copy()` -/

theorem setLinkAttrA_core (c : NetA) (a : String) (f : Nat → Nat → Rat) :
    (setLinkAttrA c a f).core = c.core := by
  unfold setLinkAttrA; split <;> rfl

theorem copyStep_core (x c : NetA) (p) : (copyStep x c p).core = c.core := by
  unfold copyStep
  split
  · exact setLinkAttrA_core _ _ _
  · rfl

theorem copyAttrs_core (x : NetA) (l : Attrs) : ∀ c : NetA, (copyAttrs x l c).core = c.core := by
  induction l with
  | nil => intro c; rfl
  | cons p l ih =>
    intro c
    unfold copyAttrs at ih ⊢
    rw [List.foldl_cons, ih, copyStep_core]

theorem copyAttrs_empty (x : NetA) (l : Attrs) :
    ∀ c : NetA, c.core.graph.isEmpty = true → copyAttrs x l c = c := by
  induction l with
  | nil => intro c _; rfl
  | cons p l ih =>
    intro c hc
    unfold copyAttrs at ih ⊢
    rw [List.foldl_cons]
    have : copyStep x c p = c := by
      unfold copyStep
      split
      · unfold setLinkAttrA; rw [if_pos hc]
      · rfl
    rw [this]
    exact ih c hc

/-- what the copy's dictionary holds after the loop: every attribute of the original,
under its name, filled from the original's `link_attribute` matrix -/
theorem copyAttrs_get (x : NetA) (l : Attrs) (hl : ∀ p ∈ l, ∃ f, linkAttrA x p.1 = some f)
    (a : String) :
    ∀ c : NetA, c.core.graph.isEmpty = false →
      (copyAttrs x l c).attrs.get a
        = if a ∈ l.map (·.1) then
            (linkAttrA x a).map fun f => c.core.graph.map fun e => f e.1 e.2
          else c.attrs.get a := by
  induction l with
  | nil => intro c _; simp [copyAttrs]
  | cons p l ih =>
    intro c hc
    obtain ⟨f, hf⟩ := hl p (by simp)
    have hstep : copyAttrs x (p :: l) c = copyAttrs x l (setLinkAttrA c p.1 f) := by
      unfold copyAttrs
      rw [List.foldl_cons]
      unfold copyStep
      rw [hf]
    rw [hstep, ih (fun q hq => hl q (List.mem_cons_of_mem _ hq)) _
      (by rw [setLinkAttrA_core]; exact hc)]
    rw [setLinkAttrA_core]
    have hattrs : (setLinkAttrA c p.1 f).attrs
        = c.attrs.put p.1 (c.core.graph.map fun e => f e.1 e.2) := by
      unfold setLinkAttrA; rw [hc]; rfl
    rw [hattrs, get_put]
    by_cases h1 : a ∈ l.map (·.1)
    · have : a ∈ (p :: l).map (·.1) := by simp only [List.map_cons, List.mem_cons]; exact Or.inr h1
      rw [if_pos h1, if_pos this]
    · by_cases h2 : a = p.1
      · subst h2
        have : p.1 ∈ (p :: l).map (·.1) := by simp
        rw [if_neg h1, if_pos rfl, if_pos this, hf]
        rfl
      · have : a ∉ (p :: l).map (·.1) := by
          simp only [List.map_cons, List.mem_cons, not_or]; exact ⟨h2, h1⟩
        rw [if_neg h1, if_neg h2, if_neg this]


/-! ### the constructor calls behind `undirected_copy`, the `edge_list()` round trip and
`permuted_copy(identity)` on an object of the normal form -/

theorem graphEdges_cells_nil (d : Bool) (N : Nat) : graphEdges d N (cells N (rel d [])) = [] := by
  have : cells N (rel d []) = [] := by simp [cells, rel]
  rw [this]
  simp [graphEdges]

theorem undirectedCopy_form {d N g ea vw w} (h : Good d N g ea vw w) :
    undirectedCopy (form d N g ea vw w)
      = .ok (form false N (graphEdges false N (cells N fun i j => rel d g i j || rel d g j i))
          none none w) := by
  have hs : Simple false N (fun i j => rel d g i j || rel d g j i) := by
    constructor
    · intro i hi
      have := (simple_rel d N g h.noloop).irr i hi
      simp [this]
    · intro _ i j _ _
      exact Bool.or_comm _ _
  rw [← ofGraph_eq_form false N _ hs w none]
  unfold undirectedCopy
  have h2 : (form d N g ea vw w).w = w := rfl
  have h3 : (form d N g ea vw w).N = N := rfl
  rw [h2, h3]
  have : ofDenseMat N N (fun i j => max ((form d N g ea vw w).at i j) ((form d N g ea vw w).at j i))
      = ofDenseMat N N (ind fun i j => rel d g i j || rel d g j i) := by
    apply ofDenseMat_congr
    intro i j hi hj
    rw [form_at, form_at]
    simp only [hi, hj, and_self, if_true, ind]
    by_cases h1 : rel d g i j = true <;> by_cases h2 : rel d g j i = true <;> simp [h1, h2] <;> omega
  rw [this, init_dense false N h.size _ w h.wlen]

theorem nzCoords_dense (N : Nat) (a : Nat → Nat → Bool) :
    nzCoords (ofDenseMat N N (ind a)) = cells N a := by
  rw [ofDenseMat_eq, nzCoords_entsOf]
  unfold cells
  apply List.filter_congr
  intro p _
  unfold ind
  cases a p.1 p.2 <;> simp

theorem rel_cells (d : Bool) (N : Nat) (a : Nat → Nat → Bool) (hs : Simple d N a) (i j : Nat)
    (hi : i < N) (hj : j < N) : rel d (cells N a) i j = a i j := by
  unfold rel
  have h1 : decide ((i, j) ∈ cells N a) = a i j := by
    rw [Bool.eq_iff_iff, decide_eq_true_eq, mem_cells]
    simp [hi, hj]
  have h2 : decide ((j, i) ∈ cells N a) = a j i := by
    rw [Bool.eq_iff_iff, decide_eq_true_eq, mem_cells]
    simp [hi, hj]
  rw [h1, h2]
  cases d
  · rw [hs.sym rfl j i hj hi]; simp
  · simp

/-- `Network(edge_list=net.edge_list(), n_nodes=net.N, directed, node_weights)` -/
theorem edgeListCopy_form {d N g ea vw w} (h : Good d N g ea vw w) :
    init d (.edges (nzCoords (form d N g ea vw w).sparse) (some N)) (some w)
      = .ok (form d N (graphEdges d N (cells N (rel d g))) none none w) := by
  have hs := simple_rel d N g h.noloop
  rw [sparse_form, nzCoords_dense,
    init_edges d N h.size _ (fun p hp => by rw [mem_cells] at hp; exact ⟨hp.1, hp.2.1⟩) w h.wlen,
    ofGraph_congr w none (rel_cells d N _ hs), ofGraph_eq_form d N _ hs w none]

/-! ### abstract state of a history with named attributes -/

/-- what a history is specified on: directedness, the relation, the node weights, the matrix
of every **named** link attribute, and the weights stored on the embedded graph object -/
structure AbsA where
  d : Bool
  a : Nat → Nat → Bool
  w : List Rat
  V : String → Option (Nat → Nat → Rat)
  gvw : Option (List Rat)

/-- the live object `x` represents the abstract state `σ` -/
structure ReprsA (x : NetA) (σ : AbsA) : Prop where
  coh : Coherent x.core
  noattr : x.core.eattr = none
  dir : x.core.directed = σ.d
  adj : ∀ i j, i < x.core.N → j < x.core.N → rel x.core.directed x.core.graph i j = σ.a i j
  w : x.core.w = σ.w
  gvw : x.core.gvw = σ.gvw
  attr : ∀ a, AttrOK x.core.directed x.core.graph x.attrs a (σ.V a)

/-- directedness after a statement -/
def dirAfter (d : Bool) : OpA → Bool
  | .ucopy => false
  | _ => d

/-- specification of one statement -/
def specStepA (N : Nat) (σ : AbsA) : OpA → AbsA
  | .setW w => { σ with w := weightsOf N w }
  | .setAttr b v => { σ with V := fun c => if c = b then some v else σ.V c }
  | .delAttr b => { σ with V := fun c => if c = b then none else σ.V c }
  | .setAdj s => { σ with a := relOf s, V := fun _ => none, gvw := none }
  | .save => { σ with gvw := some σ.w }
  | .reload => { σ with gvw := some σ.w }
  | .copy => { σ with gvw := none }
  | .regraph => { σ with w := weightsOf N σ.gvw }
  | .ucopy => { σ with d := false, a := fun i j => σ.a i j || σ.a j i, V := fun _ => none,
                       gvw := none }
  | .edgelist => { σ with V := fun _ => none, gvw := none }
  | .pcopy => { σ with V := fun _ => none, gvw := none }

def specA (N : Nat) (σ : AbsA) (ops : List OpA) : AbsA := ops.foldl (specStepA N) σ

/-- the statements the property speaks about (cf. `ValidOp`) -/
def ValidOpA (d : Bool) (N : Nat) : OpA → Prop
  | .setW (some w) => w.length = N
  | .setAttr _ v => d = false → ∀ i j, v j i = v i j
  | .setAdj s => SimpleSparse N s ∧ Simple d N (relOf s)
  | _ => True

/-- validity along a history: directedness changes at `undirected_copy()` -/
def ValidRun (N : Nat) : Bool → List OpA → Prop
  | _, [] => True
  | d, op :: ops => ValidOpA d N op ∧ ValidRun N (dirAfter d op) ops

theorem NetA.eta (y : NetA) : y = ⟨y.core, y.attrs⟩ := rfl

theorem reprsA_form {d N g vw w} {as : Attrs} {σ : AbsA} (hg : Good d N g none vw w)
    (hd : d = σ.d) (hadj : ∀ i j, i < N → j < N → rel d g i j = σ.a i j) (hw : w = σ.w)
    (hv : vw = σ.gvw) (hattr : ∀ a, AttrOK d g as a (σ.V a)) :
    ReprsA ⟨form d N g none vw w, as⟩ σ :=
  ⟨coherent_form hg, rfl, hd, hadj, hw, hv, hattr⟩

theorem attrOK_none_nil (d g a) : AttrOK d g [] a none := rfl

/-- the attributes of the copy -/
theorem copy_attrs_ok {d N g vw w} {as : Attrs} (hg : Good d N g none vw w)
    (V : String → Option (Nat → Nat → Rat)) (hattr : ∀ a, AttrOK d g as a (V a)) :
    ∃ as', copyAttrs ⟨form d N g none vw w, as⟩ as
        (NetA.fresh (form d N (graphEdges d N (cells N (rel d g))) none none w))
          = ⟨form d N (graphEdges d N (cells N (rel d g))) none none w, as'⟩
      ∧ ∀ a, AttrOK d (graphEdges d N (cells N (rel d g))) as' a (V a) := by
  let x : NetA := ⟨form d N g none vw w, as⟩
  let g' := graphEdges d N (cells N (rel d g))
  let c0 : NetA := NetA.fresh (form d N g' none none w)
  refine ⟨(copyAttrs x as c0).attrs, ?_, ?_⟩
  · have := NetA.eta (copyAttrs x as c0)
    rw [copyAttrs_core] at this
    exact this
  · intro a
    by_cases hE : g'.isEmpty = true
    · have hg0 : g' = [] := List.isEmpty_iff.1 hE
      have : copyAttrs x as c0 = c0 := copyAttrs_empty x as c0 hE
      show AttrOK d g' (copyAttrs x as c0).attrs a (V a)
      rw [this, hg0]
      cases hV : V a with
      | none =>
        show Attrs.get [] a = none
        rfl
      | some W => exact attrOK_nil d _ a W
    · have hE' : c0.core.graph.isEmpty = false := by
        show g'.isEmpty = false
        simpa using hE
      have hgne : g ≠ [] := by
        intro h0
        apply hE
        show (graphEdges d N (cells N (rel d g))).isEmpty = true
        rw [h0, graphEdges_cells_nil]; rfl
      have hl : ∀ p ∈ as, ∃ f, linkAttrA x p.1 = some f := by
        intro p hp
        obtain ⟨vs, hvs⟩ := get_of_mem as p hp
        exact linkAttr_exists (x.view p.1) vs hvs
      have hget := copyAttrs_get x as hl a c0 hE'
      show AttrOK d g' (copyAttrs x as c0).attrs a (V a)
      have ha := hattr a
      cases hV : V a with
      | none =>
        rw [hV] at ha
        have hn : a ∉ as.map (·.1) := (get_none_iff as a).1 ha
        rw [if_neg hn] at hget
        exact hget
      | some W =>
        rw [hV] at ha
        obtain ⟨h1, f, hf, hW⟩ := ha
        obtain ⟨vs, hvs⟩ := h1 hgne
        have hin : a ∈ as.map (·.1) := by
          by_contra hn
          rw [← get_none_iff, hvs] at hn
          cases hn
        have hfa : linkAttrA x a = some f := by rw [linkAttrA_eq]; exact hf
        rw [if_pos hin, hfa] at hget
        have hget' : (copyAttrs x as c0).attrs.get a = some (g'.map fun e => f e.1 e.2) := hget
        have hsym : d = false → ∀ i j, f j i = f i j := fun hd i j =>
          linkAttr_symm (netOf d g (as.get a)) hd f hf i j
        obtain ⟨f', h1', h2'⟩ := linkAttr_setLinkAttr_gen (netOf d g' none) f
          (fun hd i j _ => hsym hd i j)
        refine ⟨fun _ => ⟨_, hget'⟩, f', ?_, ?_⟩
        · rw [hget']; exact h1'
        · intro i j
          rw [h2' i j]
          show (if rel d g' i j = true then f i j else 0) = if rel d g' i j = true then W i j else 0
          rw [show rel d g' i j = rel d g i j from rel_copy_graph hg i j]
          have := hW i j
          split
          · rename_i hr
            rw [this, if_pos hr]
          · rfl

/-- one statement keeps the object in step with the specification -/
theorem stepA_reprs (store : IGraphA → IGraphA) (hstore : ∀ g, store g = g) (x : NetA) (σ : AbsA)
    (h : ReprsA x σ) (op : OpA) (hv : ValidOpA x.core.directed x.core.N op) :
    ∃ x', stepA store x op = .ok x' ∧ ReprsA x' (specStepA x.core.N σ op)
      ∧ x'.core.N = x.core.N ∧ x'.core.directed = dirAfter x.core.directed op := by
  obtain ⟨core, as⟩ := x
  obtain ⟨hc, hna, hdir, hadj, hw, hgvw, hattr⟩ := h
  have hc' : Coherent core := hc
  obtain ⟨d, N, g, ea, vw, w, rfl, hg⟩ := hc'.exists_form
  have hea : ea = none := hna
  subst hea
  have hdir' : d = σ.d := hdir
  have hadj' : ∀ i j, i < N → j < N → rel d g i j = σ.a i j := hadj
  have hw' : w = σ.w := hw
  have hgvw' : vw = σ.gvw := hgvw
  have hattr' : ∀ a, AttrOK d g as a (σ.V a) := hattr
  cases op with
  | setW w' =>
    have hl : ∀ x, w' = some x → x.length = N := by
      intro x hx; subst hx; exact hv
    have hwl : (weightsOf N w').length = N := by
      cases w' with
      | none => simp [weightsOf]
      | some x => exact hl x rfl
    refine ⟨⟨form d N g none vw (weightsOf N w'), as⟩, ?_, reprsA_form
      ⟨hg.size, hg.simple, hg.noloop, hg.range, hwl, hg.alen, hg.vlen⟩ hdir' hadj' rfl hgvw'
      hattr', rfl, rfl⟩
    show setWeightsA _ _ = _
    unfold setWeightsA
    show Except.map _ (setWeights (form d N g none vw w) w') = _
    rw [setWeights_form w' hl]
    rfl
  | setAttr b v =>
    by_cases hE : g.isEmpty = true
    · have hg0 : g = [] := List.isEmpty_iff.1 hE
      have hrun : setLinkAttrA ⟨form d N g none vw w, as⟩ b v = ⟨form d N g none vw w, as⟩ := by
        unfold setLinkAttrA; exact if_pos hE
      refine ⟨⟨form d N g none vw w, as⟩, congrArg Except.ok hrun,
        reprsA_form hg hdir' hadj' hw' hgvw' ?_, rfl, rfl⟩
      intro a
      show AttrOK d g as a (if a = b then some v else σ.V a)
      by_cases hab : a = b
      · rw [if_pos hab, hg0]; exact attrOK_nil d as a v
      · rw [if_neg hab]; exact hattr' a
    · have hrun : setLinkAttrA ⟨form d N g none vw w, as⟩ b v
          = ⟨form d N g none vw w, as.put b (g.map fun e => v e.1 e.2)⟩ := by
        unfold setLinkAttrA; exact if_neg hE
      refine ⟨_, congrArg Except.ok hrun, reprsA_form hg hdir' hadj' hw' hgvw' ?_, rfl, rfl⟩
      intro a
      show AttrOK d g _ a (if a = b then some v else σ.V a)
      by_cases hab : a = b
      · subst hab; rw [if_pos rfl]; exact attrOK_put as a v (fun hd i j => hv hd i j)
      · rw [if_neg hab]
        exact attrOK_congr (by rw [get_put, if_neg hab]) (hattr' a)
  | delAttr b =>
    refine ⟨⟨form d N g none vw w, as.del b⟩, rfl, reprsA_form hg hdir' hadj' hw' hgvw' ?_,
      rfl, rfl⟩
    intro a
    show AttrOK d g _ a (if a = b then none else σ.V a)
    by_cases hab : a = b
    · rw [if_pos hab]
      show (as.del b).get a = none
      rw [get_del, if_pos hab]
    · rw [if_neg hab]
      exact attrOK_congr (by rw [get_del, if_neg hab]) (hattr' a)
  | setAdj s =>
    obtain ⟨hss, hsim⟩ := hv
    have hss' : SimpleSparse N s := hss
    have hsim' : Simple d N (relOf s) := hsim
    refine ⟨⟨form d N (graphEdges d N (cells N (relOf s))) none none w, []⟩, ?_, reprsA_form
      (good_graphEdges d N hg.size (relOf s) w hg.wlen none (fun _ h => by cases h)) hdir'
      (fun i j hi hj => rel_graphEdges d N (relOf s) hsim' i j hi hj) hw' rfl
      (fun a => attrOK_none_nil _ _ a), rfl, rfl⟩
    show Except.map _ (setAdjacency (form d N g none vw w) s) = _
    rw [setAdjacency_form_sparse hg s hss' hsim']
    rfl
  | save =>
    refine ⟨⟨form d N g none (some w) w, as⟩, rfl, reprsA_form
      ⟨hg.size, hg.simple, hg.noloop, hg.range, hg.wlen, hg.alen,
        fun v h => by simp only [Option.some.injEq] at h; subst h; exact hg.wlen⟩
      hdir' hadj' hw' (congrArg some hw') hattr', rfl, rfl⟩
  | reload =>
    have hgood : Good d N g none (some w) w := ⟨hg.size, hg.simple, hg.noloop, hg.range, hg.wlen,
      hg.alen, fun v h => by simp only [Option.some.injEq] at h; subst h; exact hg.wlen⟩
    refine ⟨⟨form d N g none (some w) w, as⟩, ?_, reprsA_form hgood hdir' hadj' hw'
      (congrArg some hw') hattr', rfl, rfl⟩
    show fromIGraphA (store (saveA ⟨form d N g none vw w, as⟩).2) = _
    rw [hstore]
    show Except.map _ (fromIGraph ⟨N, d, g, some w, none⟩) = _
    rw [fromIGraph_form hg (some w) hgood.vlen]
    rfl
  | regraph =>
    have hwl : (weightsOf N vw).length = N := by
      cases hvw : vw with
      | none => simp [weightsOf]
      | some x => exact hg.vlen x hvw
    have hgood : Good d N g none vw (weightsOf N vw) :=
      ⟨hg.size, hg.simple, hg.noloop, hg.range, hwl, hg.alen, hg.vlen⟩
    refine ⟨⟨form d N g none vw (weightsOf N vw), as⟩, ?_, reprsA_form hgood hdir' hadj'
      (congrArg (weightsOf N) hgvw') hgvw' hattr', rfl, rfl⟩
    show Except.map _ (fromIGraph ⟨N, d, g, vw, none⟩) = _
    rw [fromIGraph_form hg vw hg.vlen]
    rfl
  | copy =>
    obtain ⟨as', hrun, hok⟩ := copy_attrs_ok hg σ.V hattr'
    have hgood0 : Good d N (graphEdges d N (cells N (rel d g))) none none w :=
      good_graphEdges d N hg.size _ w hg.wlen none (fun _ h => by cases h)
    refine ⟨⟨form d N (graphEdges d N (cells N (rel d g))) none none w, as'⟩, ?_, reprsA_form
      hgood0 hdir' (fun i j hi hj => (rel_copy_graph hg i j).trans (hadj' i j hi hj)) hw' rfl hok,
      rfl, rfl⟩
    show copyA ⟨form d N g none vw w, as⟩ = _
    unfold copyA
    have e1 : (form d N g none vw w).directed = d := rfl
    have e2 : (form d N g none vw w).w = w := rfl
    simp only [e1, e2, init_sparse_form hg]
    exact congrArg Except.ok hrun
  | ucopy =>
    have hs : Simple false N (fun i j => rel d g i j || rel d g j i) := by
      constructor
      · intro i hi
        have := (simple_rel d N g hg.noloop).irr i hi
        simp [this]
      · intro _ i j _ _
        exact Bool.or_comm _ _
    refine ⟨⟨form false N (graphEdges false N (cells N fun i j => rel d g i j || rel d g j i))
      none none w, []⟩, ?_, reprsA_form
      (good_graphEdges false N hg.size _ w hg.wlen none (fun _ h => by cases h)) rfl
      (fun i j hi hj => (rel_graphEdges false N _ hs i j hi hj).trans (by
        show (rel d g i j || rel d g j i) = (σ.a i j || σ.a j i)
        rw [hadj' i j hi hj, hadj' j i hj hi])) hw' rfl
      (fun a => attrOK_none_nil _ _ a), rfl, rfl⟩
    show Except.map _ (undirectedCopy (form d N g none vw w)) = _
    rw [undirectedCopy_form hg]
    rfl
  | edgelist =>
    have hgood0 : Good d N (graphEdges d N (cells N (rel d g))) none none w :=
      good_graphEdges d N hg.size _ w hg.wlen none (fun _ h => by cases h)
    refine ⟨⟨form d N (graphEdges d N (cells N (rel d g))) none none w, []⟩, ?_, reprsA_form
      hgood0 hdir' (fun i j hi hj => (rel_copy_graph hg i j).trans (hadj' i j hi hj)) hw' rfl
      (fun a => attrOK_none_nil _ _ a), rfl, rfl⟩
    show Except.map _ (init d (.edges (nzCoords (form d N g none vw w).sparse) (some N)) (some w)) = _
    rw [edgeListCopy_form hg]
    rfl
  | pcopy =>
    have hgood0 : Good d N (graphEdges d N (cells N (rel d g))) none none w :=
      good_graphEdges d N hg.size _ w hg.wlen none (fun _ h => by cases h)
    refine ⟨⟨form d N (graphEdges d N (cells N (rel d g))) none none w, []⟩, ?_, reprsA_form
      hgood0 hdir' (fun i j hi hj => (rel_copy_graph hg i j).trans (hadj' i j hi hj)) hw' rfl
      (fun a => attrOK_none_nil _ _ a), rfl, rfl⟩
    show Except.map _ (init d (.sparse (form d N g none vw w).sparse) (some w)) = _
    rw [init_sparse_form hg]
    rfl

theorem runA_reprs (store : IGraphA → IGraphA) (hstore : ∀ g, store g = g) (ops : List OpA) :
    ∀ (x : NetA) (σ : AbsA), ReprsA x σ → ValidRun x.core.N x.core.directed ops →
    ∃ x', runA store x ops = .ok x' ∧ ReprsA x' (specA x.core.N σ ops) ∧ x'.core.N = x.core.N := by
  induction ops with
  | nil => intro x σ h _; exact ⟨x, rfl, h, rfl⟩
  | cons op ops ih =>
    intro x σ h hv
    obtain ⟨x1, h1, hr1, hN1, hd1⟩ := stepA_reprs store hstore x σ h op hv.1
    obtain ⟨x2, h2, hr2, hN2⟩ := ih x1 _ hr1 (by rw [hN1, hd1]; exact hv.2)
    refine ⟨x2, ?_, ?_, by rw [hN2, hN1]⟩
    · show (match stepA store x op with
        | .ok x' => runA store x' ops
        | .error e => .error e) = _
      rw [h1]; exact h2
    · rw [hN1] at hr2
      exact hr2

end Pyunicorn.Repr
