import Pyunicorn.Model.PureWindow
/-! Invariant of the window semantics (`Model/PureWindow.lean`), round 5. -/
namespace Pyunicorn.Pure

/-- what the phase of `wcheck` means for the state: everything seen so far by code that can reach
the object is the original content `x`; once control has left, the array holds `x`; while running,
the array holds `x` (closed / masked, the mask being that of `x`) or the temporary edit of `x`
under a mask that (form 1) is the mask of `x` -/
def WInv {σ μ : Type} (ops : WOps σ μ) (nm : Bool) (x : σ) (ph : WPhase) (st : WState σ μ) : Prop :=
  (∀ o ∈ st.seen, o = x) ∧
  (st.left = true → st.cur = x) ∧
  (st.left = false →
    match ph with
    | .closed => st.cur = x
    | .masked => st.cur = x ∧ st.m = ops.takeMask x
    | .opened => st.cur = ops.edit x st.m ∧ (nm = true → st.m = ops.takeMask x))

theorem wexec_left {σ μ : Type} (ops : WOps σ μ) (st : WState σ μ) (h : st.left = true)
    (steps : List WStep) (ch : List Bool) : wexec ops st steps ch = st := by
  cases steps with
  | nil => rfl
  | cons a t => simp [wexec, h]

theorem wexec_inv {σ μ : Type} (ops : WOps σ μ) (nm : Bool) (x : σ)
    (hlaw : ∀ m, (nm = true → m = ops.takeMask x) → ops.restore (ops.edit x m) m = x)
    (steps : List WStep) : ∀ (ph : WPhase) (st : WState σ μ) (ch : List Bool),
    wcheck nm ph steps = true → WInv ops nm x ph st →
    (wexec ops st steps ch).cur = x ∧ ∀ o ∈ (wexec ops st steps ch).seen, o = x := by
  induction steps with
  | nil =>
    intro ph st ch hc hi
    obtain ⟨hs, hl, hr⟩ := hi
    refine ⟨?_, hs⟩
    simp only [wexec]
    cases hleft : st.left with
    | true => exact hl hleft
    | false =>
      have := hr hleft
      cases ph with
      | closed => exact this
      | masked => exact this.1
      | opened => simp [wcheck] at hc
  | cons a t ih =>
    intro ph st ch hc hi
    cases hleft : st.left with
    | true =>
      rw [wexec_left ops st hleft]
      exact ⟨hi.2.1 hleft, hi.1⟩
    | false =>
      obtain ⟨hs, hl, hr⟩ := hi
      have hr := hr hleft
      simp only [wexec, hleft, Bool.false_eq_true, if_false]
      cases a with
      | mask =>
        simp only [wcheck, Bool.and_eq_true] at hc
        apply ih .masked _ _ hc.2
        have hcur : st.cur = x := by
          cases ph with
          | closed => exact hr
          | masked => exact hr.1
          | opened => simp at hc
        refine ⟨hs, ?_, ?_⟩
        · intro h; simp [wstep, hleft] at h
        · intro _; simp [wstep, hcur]
      | edit =>
        simp only [wcheck, Bool.and_eq_true] at hc
        apply ih .opened _ _ hc.2
        refine ⟨hs, ?_, ?_⟩
        · intro h; simp [wstep, hleft] at h
        · intro _
          cases ph with
          | closed =>
            have hnm : nm = false := by simpa using hc.1
            simp [wstep, hr, hnm]
          | masked => simp [wstep, hr.1, hr.2]
          | opened => simp at hc
      | restore =>
        simp only [wcheck, Bool.and_eq_true] at hc
        apply ih .closed _ _ hc.2
        have hph : ph = .opened := by simpa using hc.1
        subst hph
        refine ⟨hs, ?_, ?_⟩
        · intro h; simp [wstep, hleft] at h
        · intro _
          simp only [wstep]
          rw [hr.1]
          exact hlaw st.m hr.2
      | comp =>
        simp only [wcheck] at hc
        apply ih ph _ _ hc
        refine ⟨hs, ?_, ?_⟩
        · intro h; simp [wstep, hleft] at h
        · intro _; simpa [wstep] using hr
      | call w =>
        simp only [wcheck, Bool.and_eq_true] at hc
        apply ih ph _ _ hc.2
        have hcur : st.cur = x := by
          cases ph with
          | closed => exact hr
          | masked => exact hr.1
          | opened => simp at hc
        refine ⟨?_, ?_, ?_⟩
        · intro o ho
          simp only [wstep, List.mem_append, List.mem_singleton] at ho
          rcases ho with ho | ho
          · exact hs o ho
          · rw [ho, hcur]
        · intro h; simp [wstep, hleft] at h
        · intro _; simpa [wstep] using hr
      | exit w =>
        simp only [wcheck, Bool.and_eq_true] at hc
        apply ih ph _ _ hc.2
        have hcur : st.cur = x := by
          cases ph with
          | closed => exact hr
          | masked => exact hr.1
          | opened => simp at hc
        refine ⟨hs, ?_, ?_⟩
        · intro _; simpa [wstep] using hcur
        · intro _; simpa [wstep] using hr
      | other w => simp [wcheck] at hc

end Pyunicorn.Pure
