import Pyunicorn.Model.PureWindow
/-! Invariant of the window semantics (`Model/PureWindow.lean`), round 5. -/
namespace Pyunicorn.Pure

/-- what a phase of `wcheck` says about the data: the array holds `x` (closed / masked, the mask
being that of `x`) or the temporary edit of `x` under a mask that (form 1) is the mask of `x` -/
def PhInv {σ μ : Type} (ops : WOps σ μ) (nm : Bool) (x : σ) (p : WPhase) (st : WState σ μ) : Prop :=
  match p with
  | .closed => st.cur = x
  | .masked => st.cur = x ∧ st.m = ops.takeMask x
  | .opened => st.cur = ops.edit x st.m ∧ (nm = true → st.m = ops.takeMask x)

/-- checker position `(md, phs, acc)` against the state: everything seen so far by code that can
reach the object is `x`; once control has left, the array holds `x`; while running, the data are in
one of the phases the checker considers possible here (those of `acc` on the way from a raising
statement to the `finally` clause) -/
def WInv {σ μ : Type} (ops : WOps σ μ) (nm : Bool) (x : σ) (md : CMode) (phs acc : List WPhase)
    (st : WState σ μ) : Prop :=
  (∀ o ∈ st.seen, o = x) ∧
  (st.left = true → st.cur = x) ∧
  (st.left = false →
    match st.mode with
    | .normal => md = .normal ∧ ∃ p ∈ phs, PhInv ops nm x p st
    | .body => md = .body ∧ ∃ p ∈ phs, PhInv ops nm x p st
    | .skip => md = .body ∧ ∃ p ∈ acc, PhInv ops nm x p st
    | .finN => md = .fin ∧ ∃ p ∈ phs, PhInv ops nm x p st
    | .finP => md = .fin ∧ ∃ p ∈ phs, PhInv ops nm x p st)

theorem PhInv_cur {σ μ : Type} {ops : WOps σ μ} {nm : Bool} {x : σ} {p : WPhase}
    {st : WState σ μ} (h : PhInv ops nm x p st) (hp : p ≠ .opened) : st.cur = x := by
  cases p with
  | closed => exact h
  | masked => exact h.1
  | opened => exact absurd rfl hp

theorem weffect_ctl {σ μ : Type} (ops : WOps σ μ) (st : WState σ μ) (a : WStep) :
    (weffect ops st a).mode = st.mode ∧ (weffect ops st a).left = st.left := by
  cases a <;> simp [weffect]

theorem weffect_inv {σ μ : Type} (ops : WOps σ μ) (nm : Bool) (x : σ)
    (hlaw : ∀ m, (nm = true → m = ops.takeMask x) → ops.restore (ops.edit x m) m = x)
    (prot : Bool) (p : WPhase) (st : WState σ μ) (a : WStep)
    (h : PhInv ops nm x p st) (hok : stepOK nm prot p a = true) :
    PhInv ops nm x (nextPhase p a) (weffect ops st a) := by
  cases a with
  | mask =>
    have hc := PhInv_cur h (by simpa [stepOK] using hok)
    simp [PhInv, nextPhase, weffect, hc]
  | edit =>
    cases p with
    | closed =>
      have hnm : nm = false := by simpa [stepOK] using hok
      simp only [PhInv] at h
      simp [PhInv, nextPhase, weffect, h, hnm]
    | masked =>
      simp only [PhInv] at h
      simp [PhInv, nextPhase, weffect, h.1, h.2]
    | opened => simp [stepOK] at hok
  | restore =>
    have hp : p = .opened := by simpa [stepOK] using hok
    subst hp
    simp only [PhInv] at h
    simp only [PhInv, nextPhase, weffect]
    rw [h.1]
    exact hlaw st.m h.2
  | comp => cases p <;> simpa [PhInv, nextPhase, weffect] using h
  | call w => cases p <;> simpa [PhInv, nextPhase, weffect] using h
  | exit w => cases p <;> simpa [PhInv, nextPhase, weffect] using h
  | other w => simp [stepOK] at hok
  | tryB => cases p <;> simpa [PhInv, nextPhase, weffect] using h
  | fin => cases p <;> simpa [PhInv, nextPhase, weffect] using h
  | tryE => cases p <;> simpa [PhInv, nextPhase, weffect] using h

theorem weffect_seen {σ μ : Type} (ops : WOps σ μ) (nm : Bool) (x : σ)
    (prot : Bool) (p : WPhase) (st : WState σ μ) (a : WStep)
    (hs : ∀ o ∈ st.seen, o = x) (h : PhInv ops nm x p st) (hok : stepOK nm prot p a = true) :
    ∀ o ∈ (weffect ops st a).seen, o = x := by
  cases a with
  | call w =>
    have hc := PhInv_cur h (by simpa [stepOK] using hok)
    intro o ho
    simp only [weffect, List.mem_append, List.mem_singleton] at ho
    rcases ho with ho | ho
    · exact hs o ho
    · rw [ho, hc]
  | mask => simpa [weffect] using hs
  | edit => simpa [weffect] using hs
  | restore => simpa [weffect] using hs
  | comp => simpa [weffect] using hs
  | exit w => simpa [weffect] using hs
  | other w => simpa [weffect] using hs
  | tryB => simpa [weffect] using hs
  | fin => simpa [weffect] using hs
  | tryE => simpa [weffect] using hs

/-- leaving where nothing protects: allowed only when the edit is not in place -/
theorem leavable_unprot {nm : Bool} {p : WPhase} {a : WStep} (hl : a.leavable = true)
    (hok : stepOK nm false p a = true) : p ≠ .opened := by
  cases a <;> simp [WStep.leavable] at hl <;> simpa [stepOK] using hok

/-- a step that is not a `try` marker -/
theorem plain_step {σ μ : Type} (ops : WOps σ μ) (nm : Bool) (x : σ)
    (hlaw : ∀ m, (nm = true → m = ops.takeMask x) → ops.restore (ops.edit x m) m = x)
    (a : WStep)
    (hplain : ∀ (st : WState σ μ) (b : Bool), wstep ops st b a =
      if st.mode = .skip then st else if a.leavable && b then wleave st else weffect ops st a)
    (md : CMode) (phs acc : List WPhase) (st : WState σ μ) (b : Bool)
    (hok : phs.all (fun p => stepOK nm (md == .body) p a) = true)
    (hi : WInv ops nm x md phs acc st) (hleft : st.left = false) :
    WInv ops nm x md (phs.map (nextPhase · a))
      (if md == .body && a.leavable then phs ++ acc else acc) (wstep ops st b a) := by
  obtain ⟨hs, _, hr⟩ := hi
  have hr := hr hleft
  rw [hplain]
  have hokp : ∀ p ∈ phs, stepOK nm (md == .body) p a = true := List.all_eq_true.mp hok
  by_cases hskip : st.mode = .skip
  · -- on the way to the `finally` clause: nothing is executed
    simp only [hskip, if_true]
    rw [hskip] at hr
    obtain ⟨hmd, p, hp, hinv⟩ := hr
    refine ⟨hs, by simp [hleft], fun _ => ?_⟩
    rw [hskip]
    refine ⟨hmd, p, ?_, hinv⟩
    split
    · exact List.mem_append_right _ hp
    · exact hp
  · simp only [hskip, if_false]
    -- a phase of the running state
    have hrun : ∃ p ∈ phs, PhInv ops nm x p st ∧
        ((st.mode = .body ∧ md = .body) ∨ (st.mode ≠ .body ∧ md ≠ .body)) := by
      cases hm : st.mode with
      | normal => rw [hm] at hr; obtain ⟨h1, p, hp, h2⟩ := hr; exact ⟨p, hp, h2, Or.inr ⟨by simp, by simp [h1]⟩⟩
      | body => rw [hm] at hr; obtain ⟨h1, p, hp, h2⟩ := hr; exact ⟨p, hp, h2, Or.inl ⟨rfl, h1⟩⟩
      | skip => exact absurd hm hskip
      | finN => rw [hm] at hr; obtain ⟨h1, p, hp, h2⟩ := hr; exact ⟨p, hp, h2, Or.inr ⟨by simp, by simp [h1]⟩⟩
      | finP => rw [hm] at hr; obtain ⟨h1, p, hp, h2⟩ := hr; exact ⟨p, hp, h2, Or.inr ⟨by simp, by simp [h1]⟩⟩
    obtain ⟨p, hp, hinv, hmode⟩ := hrun
    by_cases hlv : (a.leavable && b) = true
    · -- the step raises / the exit is taken
      simp only [hlv, if_true]
      have hl : a.leavable = true := by simp only [Bool.and_eq_true] at hlv; exact hlv.1
      rcases hmode with ⟨hm, hmd⟩ | ⟨hm, hmd⟩
      · -- protected: on to the `finally` clause, the data stay as they are
        refine ⟨by simpa [wleave, hm] using hs, by simp [wleave, hm, hleft], fun _ => ?_⟩
        simp only [wleave, hm]
        refine ⟨hmd, p, ?_, by simpa [PhInv] using hinv⟩
        simp [hmd, hl, hp]
      · -- not protected: the edit is not in place
        have hmdb : (md == CMode.body) = false := by
          cases md <;> simp_all
        have hne := leavable_unprot hl (by simpa [hmdb] using hokp p hp)
        have hc := PhInv_cur hinv hne
        have hwl : wleave st = { st with left := true } := by
          unfold wleave
          cases hmm : st.mode <;> simp_all
        rw [hwl]
        exact ⟨hs, fun _ => hc, by simp⟩
    · -- the step completes
      simp only [hlv, Bool.false_eq_true, if_false]
      obtain ⟨hmo, hle⟩ := weffect_ctl ops st a
      have hinv' := weffect_inv ops nm x hlaw _ p st a hinv (hokp p hp)
      have hseen := weffect_seen ops nm x _ p st a hs hinv (hokp p hp)
      have hmem : nextPhase p a ∈ phs.map (nextPhase · a) := List.mem_map.mpr ⟨p, hp, rfl⟩
      refine ⟨hseen, by simp [hle, hleft], fun _ => ?_⟩
      rw [hmo]
      cases hm : st.mode with
      | normal => rw [hm] at hr; exact ⟨hr.1, _, hmem, hinv'⟩
      | body => rw [hm] at hr; exact ⟨hr.1, _, hmem, hinv'⟩
      | skip => exact absurd hm hskip
      | finN => rw [hm] at hr; exact ⟨hr.1, _, hmem, hinv'⟩
      | finP => rw [hm] at hr; exact ⟨hr.1, _, hmem, hinv'⟩

theorem wexec_left {σ μ : Type} (ops : WOps σ μ) (st : WState σ μ) (h : st.left = true)
    (steps : List WStep) (ch : List Bool) : wexec ops st steps ch = st := by
  cases steps with
  | nil => rfl
  | cons a t => simp [wexec, h]

theorem wexec_inv {σ μ : Type} (ops : WOps σ μ) (nm : Bool) (x : σ)
    (hlaw : ∀ m, (nm = true → m = ops.takeMask x) → ops.restore (ops.edit x m) m = x)
    (steps : List WStep) : ∀ (md : CMode) (phs acc : List WPhase) (st : WState σ μ)
    (ch : List Bool), wcheck nm md phs acc steps = true → WInv ops nm x md phs acc st →
    (wexec ops st steps ch).cur = x ∧ ∀ o ∈ (wexec ops st steps ch).seen, o = x := by
  induction steps with
  | nil =>
    intro md phs acc st ch hc hi
    obtain ⟨hs, hl, hr⟩ := hi
    refine ⟨?_, hs⟩
    simp only [wexec]
    cases hleft : st.left with
    | true => exact hl hleft
    | false =>
      have hr := hr hleft
      simp only [wcheck, Bool.and_eq_true, beq_iff_eq, List.all_eq_true] at hc
      obtain ⟨hmd, hall⟩ := hc
      cases hm : st.mode with
      | normal =>
        rw [hm] at hr
        obtain ⟨_, p, hp, hinv⟩ := hr
        exact PhInv_cur hinv (by simpa using hall p hp)
      | body => rw [hm] at hr; rw [hmd] at hr; exact absurd hr.1 (by simp)
      | skip => rw [hm] at hr; rw [hmd] at hr; exact absurd hr.1 (by simp)
      | finN => rw [hm] at hr; rw [hmd] at hr; exact absurd hr.1 (by simp)
      | finP => rw [hm] at hr; rw [hmd] at hr; exact absurd hr.1 (by simp)
  | cons a t ih =>
    intro md phs acc st ch hc hi
    cases hleft : st.left with
    | true =>
      rw [wexec_left ops st hleft]
      exact ⟨hi.2.1 hleft, hi.1⟩
    | false =>
      simp only [wexec, hleft, Bool.false_eq_true, if_false]
      have plain : ∀ (hplain : ∀ (st : WState σ μ) (b : Bool), wstep ops st b a =
            if st.mode = .skip then st else if a.leavable && b then wleave st else weffect ops st a)
          (hc' : (phs.all (fun p => stepOK nm (md == .body) p a) &&
            wcheck nm md (phs.map (nextPhase · a))
              (if md == .body && a.leavable then phs ++ acc else acc) t) = true),
          (wexec ops (wstep ops st (ch.headD false) a) t ch.tail).cur = x ∧
          ∀ o ∈ (wexec ops (wstep ops st (ch.headD false) a) t ch.tail).seen, o = x := by
        intro hplain hc'
        obtain ⟨hc1, hc2⟩ := Bool.and_eq_true_iff.mp hc'
        exact ih _ _ _ _ _ hc2
          (plain_step ops nm x hlaw a hplain md phs acc st _ hc1 hi hleft)
      obtain ⟨hs, hl, hr⟩ := hi
      have hr := hr hleft
      cases a with
      | mask => exact plain (fun _ _ => rfl) (by simpa [wcheck] using hc)
      | edit => exact plain (fun _ _ => rfl) (by simpa [wcheck] using hc)
      | restore => exact plain (fun _ _ => rfl) (by simpa [wcheck] using hc)
      | comp => exact plain (fun _ _ => rfl) (by simpa [wcheck] using hc)
      | call w => exact plain (fun _ _ => rfl) (by simpa [wcheck] using hc)
      | exit w => exact plain (fun _ _ => rfl) (by simpa [wcheck] using hc)
      | other w => exact plain (fun _ _ => rfl) (by simpa [wcheck] using hc)
      | tryB =>
        simp only [wcheck, Bool.and_eq_true, beq_iff_eq] at hc
        obtain ⟨hmd, hc⟩ := hc
        apply ih _ _ _ _ _ hc
        cases hm : st.mode with
        | normal =>
          rw [hm] at hr
          refine ⟨by simpa [wstep, hm] using hs, by simp [wstep, hm, hleft], fun _ => ?_⟩
          simp only [wstep, hm]
          obtain ⟨_, p, hp, hinv⟩ := hr
          exact ⟨by trivial, p, hp, by simpa [PhInv] using hinv⟩
        | body => rw [hm, hmd] at hr; exact absurd hr.1 (by simp)
        | skip => rw [hm, hmd] at hr; exact absurd hr.1 (by simp)
        | finN => rw [hm, hmd] at hr; exact absurd hr.1 (by simp)
        | finP => rw [hm, hmd] at hr; exact absurd hr.1 (by simp)
      | fin =>
        simp only [wcheck, Bool.and_eq_true, beq_iff_eq] at hc
        obtain ⟨hmd, hc⟩ := hc
        apply ih _ _ _ _ _ hc
        cases hm : st.mode with
        | body =>
          rw [hm] at hr
          refine ⟨by simpa [wstep, hm] using hs, by simp [wstep, hm, hleft], fun _ => ?_⟩
          simp only [wstep, hm]
          obtain ⟨_, p, hp, hinv⟩ := hr
          exact ⟨by trivial, p, List.mem_append_left _ hp, by simpa [PhInv] using hinv⟩
        | skip =>
          rw [hm] at hr
          refine ⟨by simpa [wstep, hm] using hs, by simp [wstep, hm, hleft], fun _ => ?_⟩
          simp only [wstep, hm]
          obtain ⟨_, p, hp, hinv⟩ := hr
          exact ⟨by trivial, p, List.mem_append_right _ hp, by simpa [PhInv] using hinv⟩
        | normal => rw [hm, hmd] at hr; exact absurd hr.1 (by simp)
        | finN => rw [hm, hmd] at hr; exact absurd hr.1 (by simp)
        | finP => rw [hm, hmd] at hr; exact absurd hr.1 (by simp)
      | tryE =>
        simp only [wcheck, Bool.and_eq_true, beq_iff_eq, List.all_eq_true] at hc
        obtain ⟨⟨hmd, hall⟩, hc⟩ := hc
        apply ih _ _ _ _ _ hc
        cases hm : st.mode with
        | finN =>
          rw [hm] at hr
          refine ⟨by simpa [wstep, hm] using hs, by simp [wstep, hm, hleft], fun _ => ?_⟩
          simp only [wstep, hm]
          obtain ⟨_, p, hp, hinv⟩ := hr
          exact ⟨by trivial, p, hp, by simpa [PhInv] using hinv⟩
        | finP =>
          rw [hm] at hr
          obtain ⟨_, p, hp, hinv⟩ := hr
          have hc' := PhInv_cur hinv (by simpa using hall p hp)
          refine ⟨by simpa [wstep, hm] using hs, fun _ => by simpa [wstep, hm] using hc', ?_⟩
          simp [wstep, hm]
        | normal => rw [hm, hmd] at hr; exact absurd hr.1 (by simp)
        | body => rw [hm, hmd] at hr; exact absurd hr.1 (by simp)
        | skip => rw [hm, hmd] at hr; exact absurd hr.1 (by simp)

end Pyunicorn.Pure
