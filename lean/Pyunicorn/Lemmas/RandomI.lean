import Pyunicorn.Lemmas.Binary64
import Pyunicorn.Generated.StructC17
/-!
C17, round 4: `np.floor(rd.random() * E)` / `int(random.random() * N)` with the product rounded to
binary64 — reuses C20's analysis of "double below 1 times integer below 2^31" (`B64.b64_mul_lt`).
-/
namespace Pyunicorn.Random
open Pyunicorn.Generated.StructC17 Pyunicorn.B64

theorem isB64_zero : IsB64 0 := ⟨0, 0, by norm_num, by norm_num, Or.inl (by norm_num)⟩

/-- a nearest rounding of a non-negative number is non-negative (0 is a double) -/
theorem nearest_nonneg (rnd : Rat → Rat) (hn : Nearest rnd) (x : Rat) (hx : 0 ≤ x) : 0 ≤ rnd x := by
  have h := hn x 0 isB64_zero
  have h2 : |(0 : Rat) - x| = x := by rw [zero_sub, abs_neg, abs_of_nonneg hx]
  rw [h2] at h
  have := (abs_le.1 h).1
  linarith

/-- **the draw as numpy computes it is a valid index**: for every round-to-nearest binary64
multiplication (any tie rule), every double `0 ≤ u < 1` and every `1 ≤ E < 2^31` (`int E`),
`floor(fl(u · E))` lies in `[0, E)` — the rounded product never reaches `E`. -/
theorem geoDrawR_range (rnd : Rat → Rat) (hn : Nearest rnd) (u : Rat) (hu : IsB64 u) (h0 : 0 ≤ u)
    (h1 : u < 1) (E : Int) (hE : 1 ≤ E) (hE31 : E < 2 ^ 31) :
    0 ≤ geoDrawR rnd u E ∧ geoDrawR rnd u E < E := by
  unfold geoDrawR
  have hlt := b64_mul_lt rnd hn u hu h0 h1 E hE hE31
  have hE' : (0 : Rat) ≤ (E : Rat) := by exact_mod_cast (by omega : (0 : Int) ≤ E)
  have hge := nearest_nonneg rnd hn (u * (E : Rat)) (mul_nonneg h0 hE')
  constructor
  · rw [Rat.le_floor_iff]; simpa using hge
  · rw [Rat.floor_lt_iff]; exact hlt

theorem sparseDrawR_eq : sparseDrawR = geoDrawR := rfl

end Pyunicorn.Random
