import Pyunicorn.Lemmas.NetBetwFwd
import Pyunicorn.Lemmas.NetBetwFwdOK
import Pyunicorn.Lemmas.NetBetwBack
import Pyunicorn.Lemmas.NetBetwAlg
/-!
Round 5: assembly of the kernel proof of `_nsi_betweenness`.
-/
namespace Pyunicorn.NetBetw
open Pyunicorn.Net

/-- **forward phase ⇒ `FwdOK`**, for every undirected network (symmetric `A`), every weight vector and
every target `j < N`, on the arrays the wrapper `Network._nsi_betweenness` hands to the kernel -/
theorem forward_fwdOK (n : Nat) (a : Adj) (hsym : ∀ x y, a x y = a y x) (w : Nat → Rat)
    (j : Nat) (hj : j < n) :
    FwdOK n a w j (offsetsOf (degArr n a))
      (forward (offsetsOf (degArr n a)) (degArr n a) (flatArr n a) w n 0
        (fwdInit n w (flatArr n a).length j)) :=
  (forward_wrapper_fwdFinal n a hsym w j hj).fwdOK hj

/-! ### two facts about the BFS distance used by the algebra -/

theorem dist_zero_eq (n : Nat) (a : Adj) (j l : Nat) (hj : j < n) (hl : l < n)
    (h : dist n a j l = some 0) : l = j := by
  obtain ⟨hw, _⟩ := (DistL.dist_some_iff n a j l 0 hj hl).mp h
  cases hw
  rfl

theorem dist_succ_pred (n : Nat) (a : Adj) (j l k : Nat) (hj : j < n) (hl : l < n)
    (h : dist n a j l = some (k + 1)) : ∃ i, i < n ∧ a i l = true ∧ dist n a j i = some k := by
  obtain ⟨hw, hmin⟩ := (DistL.dist_some_iff n a j l (k + 1) hj hl).mp h
  cases hw with
  | snoc hw' hx hax =>
    rename_i x
    refine ⟨x, hx, hax, ?_⟩
    rw [DistL.dist_some_iff n a j x k hj hx]
    refine ⟨hw', ?_⟩
    intro m hm hwm
    exact hmin (m + 1) (by omega) (Walk.snoc hwm hx hax)

/-- **one iteration of `for j in targets`**: forward phase, backward sweep and the difference
`betweenness_to_j − excess_to_j` give the definition's inner sum over the sources, for every undirected
network, positive node weights, every source mask and every target `j < N` -/
theorem sweepDiff_eq_contribDef (n : Nat) (a : Adj) (hsym : ∀ x y, a x y = a y x) (w : Nat → Rat)
    (hw : ∀ v, v < n → 0 < w v) (isSrc : List Bool) (j : Nat) (hj : j < n) (l : Nat) (hl : l < n) :
    sweepDiff n a w isSrc j l = contribDef n a w (dist n a) isSrc j l := by
  have hok := forward_fwdOK n a hsym w j hj
  obtain ⟨hsol, hex⟩ := back_brandesSol n a w isSrc j hj _ _ hok
  unfold sweepDiff
  simp only []
  by_cases e : l = j
  · subst e
    have h1 := hsol.root
    rw [h1, hex l hl, if_pos rfl]
    simp [contribDef]
  · rw [hex l hl, if_neg e]
    exact brandesSol_eq_contribDef n a w isSrc j hj hw (DistL.dist_self n a j hj)
      (fun l hl h => dist_zero_eq n a j l hj hl h)
      (fun l k hl h => dist_succ_pred n a j l k hj hl h)
      (fun l k hl h => DistL.dist_lt n a j l k hj hl h) _ hsol l hl e

/-- **kernel `_nsi_betweenness` = pair-dependency definition**, unconditionally -/
theorem nsiBetweenness_eq_def_full (n : Nat) (a : Adj) (hsym : ∀ x y, a x y = a y x) (w : Nat → Rat)
    (hw : ∀ v, v < n → 0 < w v) (isSrc : List Bool) (targets : List Nat)
    (ht : ∀ j, j ∈ targets → j < n) :
    nsiBetweenness n a w isSrc targets = nsiBetweennessDef n a w (dist n a) isSrc targets :=
  nsiBetweenness_assembly n a w isSrc targets (dist n a)
    (fun j hjt l hl => sweepDiff_eq_contribDef n a hsym w hw isSrc j (ht j hjt) l hl)

/-- the definition's recursions replaced by sums over the enumerated shortest paths -/
theorem nsiBetweennessDef_getD_enum (n : Nat) (a : Adj) (w : Nat → Rat) (d : DistFn) (isSrc : List Bool)
    (targets : List Nat) (v : Nat) (hv : v < n) :
    (nsiBetweennessDef n a w d isSrc targets).getD v 0 = nsiBetweennessEnum n a w d isSrc targets v := by
  unfold nsiBetweennessDef nsiBetweennessEnum
  rw [getD_map_range_rat n _ v hv]
  unfold betwTimesWDef
  congr 2
  apply List.map_congr_left
  intro t _
  unfold contribDef pairDep
  by_cases e : v = t
  · simp [e]
  · simp only [if_neg e, sigma_eq_sigmaPaths, sigmaThru_eq_paths]

/-! ### the public wrappers and the counting definition (unit weights) -/

theorem take_drop_eq (l : List Nat) (o c : Nat) : (l.take (o + c)).drop o = (l.drop o).take c := by
  rw [List.drop_take]; congr 1; omega

theorem pathWt_one (p : List Nat) : pathWt (fun _ => 1) p = 1 := by
  induction p with
  | nil => simp [pathWt]
  | cons x t ih => simp only [pathWt, List.map_cons, List.prod_cons] at ih ⊢; rw [ih]; ring

theorem sum_map_pathWt_one (ps : List (List Nat)) :
    (ps.map (pathWt fun _ => 1)).sum = ((ps.length : Nat) : Rat) := by
  induction ps with
  | nil => simp
  | cons p t ih => simp only [List.map_cons, List.sum_cons, ih, pathWt_one, List.length_cons]; push_cast; ring

theorem srcMaskOf_getD (n : Nat) (S : List Nat) (s : Nat) (hs : s < n) :
    (srcMaskOf n (some S)).getD s false = S.contains s := by
  simp [srcMaskOf, List.getD, hs]

theorem srcMaskOf_none (n : Nat) : srcMaskOf n none = srcMaskOf n (some (List.range n)) := by
  unfold srcMaskOf
  apply List.ext_getElem
  · simp
  · intro i h1 h2
    simp at h1
    simp [h1]

/-- with unit weights the enumeration form counts paths -/
theorem enum_unit (n : Nat) (a : Adj) (d : DistFn) (S T : List Nat) (v : Nat) :
    nsiBetweennessEnum n a (fun _ => 1) d (srcMaskOf n (some S)) T v = interregionalCount n a d S T v := by
  unfold nsiBetweennessEnum interregionalCount
  rw [div_one]
  congr 1
  apply List.map_congr_left
  intro t _
  by_cases e : v = t
  · simp [e]
  · rw [if_neg e, if_neg e, one_mul]
    apply sumToQ_congrLt
    intro s hs
    unfold excess sigmaThruPaths sigmaPaths
    rw [srcMaskOf_getD n S s hs, sum_map_pathWt_one, sum_map_pathWt_one]
    by_cases h1 : (s != v) = true <;> by_cases h2 : S.contains s = true <;>
      by_cases h3 : (d t s).isSome = true <;> simp [h1, h2, h3]

end Pyunicorn.NetBetw
