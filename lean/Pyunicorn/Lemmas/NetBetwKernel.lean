import Pyunicorn.Lemmas.NetBetwFwd
import Pyunicorn.Lemmas.NetBetwFwdOK
/-!
Round 5: assembly of the kernel proof of `_nsi_betweenness`.
-/
namespace Pyunicorn.NetBetw
open Pyunicorn.Net

/-- **forward phase ⇒ `FwdOK`**, for every undirected network (symmetric `A`), every weight vector and
every target `j < N`, on the arrays the wrapper `Network._nsi_betweenness` hands to the kernel -/
theorem forward_fwdOK (n : Nat) (a : Adj) (hsym : ∀ x y, a x y = a y x) (w : Nat → Rat)
    (j : Nat) (hj : j < n) :
    FwdOK n a w j (offsetsOf (degArr n a))
      (forward (offsetsOf (degArr n a)) (degArr n a) (flatArr n a) w n 0
        (fwdInit n w (flatArr n a).length j)) :=
  (forward_wrapper_fwdFinal n a hsym w j hj).fwdOK hj

end Pyunicorn.NetBetw
