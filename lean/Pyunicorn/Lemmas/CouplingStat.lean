import Pyunicorn.Lemmas.Coupling
import Mathlib.Tactic.Ring
import Mathlib.Tactic.Linarith
import Mathlib.Tactic.FieldSimp
import Mathlib.Algebra.Order.Field.Rat
import Mathlib.Algebra.Order.Field.Basic
/-! Algebra of the signed-square Pearson coefficient (C10); Mathlib tactics over `ℚ`. -/
namespace Pyunicorn.Coupling

theorem sumTo_add (n : Nat) (f g : Nat → Rat) :
    sumTo n (fun k => f k + g k) = sumTo n f + sumTo n g := by
  induction n with
  | zero => simp [sumTo]
  | succ n ih => simp only [sumTo, ih]; ring

theorem sumTo_mul_left (n : Nat) (c : Rat) (f : Nat → Rat) :
    sumTo n (fun k => c * f k) = c * sumTo n f := by
  induction n with
  | zero => simp [sumTo]
  | succ n ih => simp only [sumTo, ih]; ring

theorem sumTo_const (n : Nat) (c : Rat) : sumTo n (fun _ => c) = (n : Rat) * c := by
  induction n with
  | zero => simp [sumTo]
  | succ n ih => simp only [sumTo, ih]; push_cast; ring

theorem sumTo_sq_nonneg (n : Nat) (u : Nat → Rat) : 0 ≤ sumTo n (fun k => u k * u k) := by
  induction n with
  | zero => simp [sumTo]
  | succ n ih => simp only [sumTo]; nlinarith [mul_self_nonneg (u n)]

/-- Cauchy–Schwarz for the loop sums -/
theorem sumTo_cauchy_schwarz (n : Nat) (u v : Nat → Rat) :
    sumTo n (fun k => u k * v k) * sumTo n (fun k => u k * v k)
      ≤ sumTo n (fun k => u k * u k) * sumTo n (fun k => v k * v k) := by
  induction n with
  | zero => simp [sumTo]
  | succ n ih =>
    simp only [sumTo]
    have hA := sumTo_sq_nonneg n u
    have hB := sumTo_sq_nonneg n v
    generalize sumTo n (fun k => u k * v k) = C at ih ⊢
    generalize sumTo n (fun k => u k * u k) = A at ih hA ⊢
    generalize sumTo n (fun k => v k * v k) = B at ih hB ⊢
    generalize u n = x
    generalize v n = y
    -- 2 C x y ≤ A y² + B x²  because (2Cxy)² ≤ 4ABx²y² ≤ (Ay² + Bx²)²
    have hs : 0 ≤ A * (y * y) + B * (x * x) := by nlinarith [mul_self_nonneg x, mul_self_nonneg y]
    have hsq : (2 * C * x * y) * (2 * C * x * y) ≤ (A * (y * y) + B * (x * x)) * (A * (y * y) + B * (x * x)) := by
      have h1 : 0 ≤ (x * y) * (x * y) := mul_self_nonneg _
      have h2 : (C * C) * ((x * y) * (x * y)) ≤ (A * B) * ((x * y) * (x * y)) :=
        mul_le_mul_of_nonneg_right ih h1
      nlinarith [mul_self_nonneg (A * (y * y) - B * (x * x))]
    have hle : 2 * C * x * y ≤ A * (y * y) + B * (x * x) := by
      by_contra hcon
      have hcon := not_le.mp hcon
      nlinarith
    nlinarith

theorem meanTo_affine (n : Nat) (hn : 0 < n) (f : Nat → Rat) (a b : Rat) :
    meanTo n (fun k => a * f k + b) = a * meanTo n f + b := by
  unfold meanTo
  rw [sumTo_add, sumTo_mul_left, sumTo_const]
  have : (n : Rat) ≠ 0 := by exact_mod_cast (Nat.pos_iff_ne_zero.mp hn)
  field_simp

theorem covTo_comm (n : Nat) (f g : Nat → Rat) : covTo n f g = covTo n g f := by
  simp only [covTo]
  apply sumTo_congr
  intro k _; ring

theorem covTo_affine (n : Nat) (hn : 0 < n) (f g : Nat → Rat) (a b c d : Rat) :
    covTo n (fun k => a * f k + b) (fun k => c * g k + d) = a * c * covTo n f g := by
  simp only [covTo]
  rw [meanTo_affine n hn, meanTo_affine n hn, ← sumTo_mul_left]
  apply sumTo_congr
  intro k _; ring

theorem covTo_self_nonneg (n : Nat) (f : Nat → Rat) : 0 ≤ covTo n f f := by
  simp only [covTo]
  exact sumTo_sq_nonneg n _

theorem covTo_sq_le (n : Nat) (f g : Nat → Rat) :
    covTo n f g * covTo n f g ≤ covTo n f f * covTo n g g := by
  simp only [covTo]
  exact sumTo_cauchy_schwarz n _ _

theorem sgn_sq (c : Rat) : sgn c * sgn c = 1 := by
  unfold sgn; split <;> norm_num

theorem sgn_mul {x y : Rat} (hx : x ≠ 0) (hy : y ≠ 0) : sgn (x * y) = sgn x * sgn y := by
  unfold sgn
  rcases lt_or_gt_of_ne hx with h1 | h1 <;> rcases lt_or_gt_of_ne hy with h2 | h2
  · have : ¬ x * y < 0 := not_lt.mpr (le_of_lt (mul_pos_of_neg_of_neg h1 h2))
    simp [h1, h2, this]
  · have : x * y < 0 := mul_neg_of_neg_of_pos h1 h2
    have h2' : ¬ y < 0 := not_lt.mpr (le_of_lt h2)
    simp [h1, h2', this]
  · have : x * y < 0 := mul_neg_of_pos_of_neg h1 h2
    have h1' : ¬ x < 0 := not_lt.mpr (le_of_lt h1)
    simp [h1', h2, this]
  · have : ¬ x * y < 0 := not_lt.mpr (le_of_lt (mul_pos h1 h2))
    have h1' : ¬ x < 0 := not_lt.mpr (le_of_lt h1)
    have h2' : ¬ y < 0 := not_lt.mpr (le_of_lt h2)
    simp [h1', h2', this]

theorem sgn_abs_le (c : Rat) : -1 ≤ sgn c ∧ sgn c ≤ 1 := by
  unfold sgn; split <;> norm_num

end Pyunicorn.Coupling
