import Pyunicorn.Lemmas.VisibilityFloat
import Mathlib.Tactic.Linarith
import Mathlib.Tactic.Ring
import Mathlib.Tactic.FieldSimp
import Mathlib.Tactic.Positivity
import Mathlib.Algebra.Order.Field.Rat
import Mathlib.Algebra.Order.Field.Power
/-!
Round 4, lemmas for `Properties/C14.lean`: **`rndF32` is binary32 round-to-nearest**.

* `pow2 e = 2 ^ e`, `floorLog2 p q = ⌊log₂ (p / q)⌋` (`floorLog2_spec`);
* `roundEven` is monotone, fixes integers, is nearest among *all* integers and resolves ties
  to the even integer;
* `rndF32` is odd, its value is a binary32 number (`IsF32`: `m · 2^e`, `|m| < 2^24`,
  `e ≥ -149`; no overflow in the model), no binary32 number is closer to the argument
  (`rndF32_nearest`), binary32 numbers are fixed points, and it is **monotone** — inside one
  binade by `roundEven`, across exponent boundaries because the power of two between the
  arguments lies on both grids.
-/
namespace Pyunicorn.Visibility

/-! ### powers of two -/

theorem pow2_eq_zpow (e : Int) : pow2 e = (2 : ℚ) ^ e := by
  unfold pow2
  split
  · next h =>
    obtain ⟨n, rfl⟩ := Int.eq_ofNat_of_zero_le h
    simp
  · next h =>
    have h' : 0 ≤ -e := by omega
    obtain ⟨n, hn⟩ := Int.eq_ofNat_of_zero_le h'
    have he : e = -(n : Int) := by omega
    rw [hn, he]
    simp [zpow_neg]

theorem pow2_pos (e : Int) : 0 < pow2 e := by
  rw [pow2_eq_zpow]; positivity

theorem pow2_add (a b : Int) : pow2 (a + b) = pow2 a * pow2 b := by
  simp only [pow2_eq_zpow]
  exact zpow_add₀ (by norm_num) a b

theorem pow2_succ (a : Int) : pow2 (a + 1) = 2 * pow2 a := by
  rw [pow2_add, mul_comm]; congr 1

theorem pow2_le_iff (a b : Int) : pow2 a ≤ pow2 b ↔ a ≤ b := by
  simp only [pow2_eq_zpow]
  exact zpow_le_zpow_iff_right₀ (by norm_num)

theorem pow2_lt_iff (a b : Int) : pow2 a < pow2 b ↔ a < b := by
  simp only [pow2_eq_zpow]
  exact zpow_lt_zpow_iff_right₀ (by norm_num)

theorem pow2_natCast (n : Nat) : pow2 (n : Int) = ((2 ^ n : Nat) : ℚ) := by
  simp [pow2]

/-- `2^k` is an integer multiple of `2^e` for `e ≤ k` -/
theorem pow2_grid (e k : Int) (h : e ≤ k) :
    pow2 k = (((2 ^ (k - e).toNat : Nat) : Int) : ℚ) * pow2 e := by
  have : k = (((k - e).toNat : Nat) : Int) + e := by omega
  conv_lhs => rw [this, pow2_add, pow2_natCast]
  push_cast
  rfl

/-! ### `floorLog2` -/

theorem floorLog2_spec (p q : Nat) (hp : 0 < p) (hq : 0 < q) :
    pow2 (floorLog2 p q) ≤ (p : ℚ) / (q : ℚ) ∧ (p : ℚ) / (q : ℚ) < pow2 (floorLog2 p q + 1) := by
  have hp1 : 2 ^ p.log2 ≤ p := Nat.log2_self_le (by omega)
  have hp2 : p < 2 ^ (p.log2 + 1) := Nat.lt_log2_self
  have hq1 : 2 ^ q.log2 ≤ q := Nat.log2_self_le (by omega)
  have hq2 : q < 2 ^ (q.log2 + 1) := Nat.lt_log2_self
  have hP1 : pow2 (p.log2 : Int) ≤ (p : ℚ) := by rw [pow2_natCast]; exact_mod_cast hp1
  have hP2 : (p : ℚ) < 2 * pow2 (p.log2 : Int) := by
    rw [← pow2_succ]
    have : ((p.log2 : Int) + 1) = ((p.log2 + 1 : Nat) : Int) := by push_cast; rfl
    rw [this, pow2_natCast]; exact_mod_cast hp2
  have hQ1 : pow2 (q.log2 : Int) ≤ (q : ℚ) := by rw [pow2_natCast]; exact_mod_cast hq1
  have hQ2 : (q : ℚ) < 2 * pow2 (q.log2 : Int) := by
    rw [← pow2_succ]
    have : ((q.log2 : Int) + 1) = ((q.log2 + 1 : Nat) : Int) := by push_cast; rfl
    rw [this, pow2_natCast]; exact_mod_cast hq2
  have hPp := pow2_pos (p.log2 : Int)
  have hQp := pow2_pos (q.log2 : Int)
  have hqQ : (0 : ℚ) < q := by exact_mod_cast hq
  have hpQ : (0 : ℚ) < p := by exact_mod_cast hp
  -- pow2 (lp - lq) = P / Q
  have hE : pow2 ((p.log2 : Int) - (q.log2 : Int)) = pow2 (p.log2 : Int) / pow2 (q.log2 : Int) := by
    have := pow2_add ((p.log2 : Int) - (q.log2 : Int)) (q.log2 : Int)
    rw [sub_add_cancel] at this
    rw [this]; field_simp
  generalize hPdef : pow2 (p.log2 : Int) = P at *
  generalize hQdef : pow2 (q.log2 : Int) = Q at *
  unfold floorLog2
  simp only []
  split
  · next hle =>
    refine ⟨hle, ?_⟩
    rw [pow2_succ, hE, div_lt_iff₀ hqQ]
    have h1 : 2 * (P / Q) * (q : ℚ) = 2 * P * ((q : ℚ) / Q) := by field_simp
    rw [h1]
    have h2 : 1 ≤ (q : ℚ) / Q := by rw [le_div_iff₀ hQp]; linarith
    nlinarith
  · next hnle =>
    have hlt := not_le.mp hnle
    have e1 : (p.log2 : Int) - (q.log2 : Int) - 1 + 1 = (p.log2 : Int) - (q.log2 : Int) := by ring
    refine ⟨?_, by rw [e1]; exact hlt⟩
    have h3 : pow2 ((p.log2 : Int) - (q.log2 : Int) - 1) = P / (2 * Q) := by
      have := pow2_succ ((p.log2 : Int) - (q.log2 : Int) - 1)
      rw [e1, hE] at this
      rw [div_mul_eq_div_div_swap]
      linarith
    rw [h3, div_le_div_iff₀ (by positivity) hqQ]
    nlinarith

/-! ### `roundEven` -/

theorem roundEven_monotone (a b : ℚ) (h : a ≤ b) : roundEven a ≤ roundEven b := by
  have hf : a.floor ≤ b.floor := by
    rw [Rat.le_floor_iff]; exact le_trans (Rat.floor_le a) h
  rcases lt_or_eq_of_le hf with hlt | heq
  · have h1 : roundEven a ≤ a.floor + 1 := by simp only [roundEven]; split_ifs <;> omega
    have h2 : b.floor ≤ roundEven b := by simp only [roundEven]; split_ifs <;> omega
    omega
  · have hr : a - (b.floor : ℚ) ≤ b - (b.floor : ℚ) := by linarith
    simp only [roundEven, heq]
    split_ifs <;> first | omega | (exfalso; linarith)

theorem roundEven_intCast (z : Int) : roundEven (z : ℚ) = z := by
  simp [roundEven, Rat.floor_intCast]

theorem roundEven_half (m : ℚ) : |((roundEven m : Int) : ℚ) - m| ≤ 1 / 2 := by
  have h1 := Rat.floor_le m
  have h2 : m < (m.floor : ℚ) + 1 := by
    have := Rat.lt_floor_add_one m; push_cast at this; exact this
  rw [abs_le]
  simp only [roundEven]
  split
  · constructor <;> linarith
  · split
    · push_cast; constructor <;> linarith
    · split
      · constructor <;> linarith
      · push_cast; constructor <;> linarith

/-- no integer is closer to `m` than `roundEven m` -/
theorem roundEven_nearest_int (m : ℚ) (z : Int) :
    |((roundEven m : Int) : ℚ) - m| ≤ |(z : ℚ) - m| := by
  by_cases hz : z = roundEven m
  · rw [hz]
  · have h1 := roundEven_half m
    have h2 : (1 : ℚ) ≤ |(z : ℚ) - ((roundEven m : Int) : ℚ)| := by
      have : (1 : Int) ≤ |z - roundEven m| := by
        have : z - roundEven m ≠ 0 := by omega
        exact Int.one_le_abs this
      have h3 : ((1 : Int) : ℚ) ≤ ((|z - roundEven m| : Int) : ℚ) := by exact_mod_cast this
      rw [Int.cast_abs] at h3
      push_cast at h3
      exact h3
    have h3 : |(z : ℚ) - ((roundEven m : Int) : ℚ)|
        ≤ |(z : ℚ) - m| + |((roundEven m : Int) : ℚ) - m| := by
      have := abs_sub_le (z : ℚ) m ((roundEven m : Int) : ℚ)
      rw [abs_sub_comm m] at this
      exact this
    linarith

/-- ties go to the even integer -/
theorem roundEven_tie (m : ℚ) (h : m - (m.floor : ℚ) = 1 / 2) : roundEven m % 2 = 0 := by
  simp only [roundEven, h]
  norm_num
  split_ifs <;> omega

/-! ### the positive part of `rndF32` -/

/-- `⌊log₂ a⌋` as `rndF32` computes it -/
def lg (a : ℚ) : Int := floorLog2 a.num.natAbs a.den

/-- the exponent of the last place -/
def expOf (a : ℚ) : Int := if lg a - 23 < -149 then -149 else lg a - 23

def rndPos (a : ℚ) : ℚ := ((roundEven (a / pow2 (expOf a)) : Int) : ℚ) * pow2 (expOf a)

theorem rndF32_eq (q : ℚ) :
    rndF32 q = if q = 0 then 0 else if q < 0 then -rndPos (-q) else rndPos q := by
  unfold rndF32
  by_cases h0 : q = 0
  · simp [h0]
  · rw [if_neg h0, if_neg h0]
    by_cases h1 : q < 0
    · simp only [if_pos h1]; rfl
    · simp only [if_neg h1]; rfl

theorem lg_spec (a : ℚ) (ha : 0 < a) : pow2 (lg a) ≤ a ∧ a < pow2 (lg a + 1) := by
  have hn : 0 < a.num := Rat.num_pos.mpr ha
  have h := floorLog2_spec a.num.natAbs a.den (by omega) a.den_pos
  have e : ((a.num.natAbs : Nat) : ℚ) / (a.den : ℚ) = a := by
    have h1 : ((a.num.natAbs : Nat) : ℚ) = (a.num : ℚ) := by
      rw [Nat.cast_natAbs, abs_of_pos hn]
    rw [h1]; exact Rat.num_div_den a
  rw [e] at h
  exact h

theorem lg_mono (a b : ℚ) (ha : 0 < a) (h : a ≤ b) : lg a ≤ lg b := by
  have h1 := (lg_spec a ha).1
  have h2 := (lg_spec b (lt_of_lt_of_le ha h)).2
  have : pow2 (lg a) < pow2 (lg b + 1) := lt_of_le_of_lt (le_trans h1 h) h2
  rw [pow2_lt_iff] at this
  omega

theorem expOf_ge (a : ℚ) : -149 ≤ expOf a := by unfold expOf; split <;> omega
theorem expOf_ge' (a : ℚ) : lg a - 23 ≤ expOf a := by unfold expOf; split <;> omega

/-- rounding to a grid stays below every grid point above the argument … -/
theorem grid_le (e : Int) (a : ℚ) (z : Int) (h : a ≤ (z : ℚ) * pow2 e) :
    ((roundEven (a / pow2 e) : Int) : ℚ) * pow2 e ≤ (z : ℚ) * pow2 e := by
  have hp := pow2_pos e
  have h1 : a / pow2 e ≤ (z : ℚ) := by rw [div_le_iff₀ hp]; exact h
  have h2 := roundEven_monotone _ _ h1
  rw [roundEven_intCast] at h2
  have h3 : ((roundEven (a / pow2 e) : Int) : ℚ) ≤ (z : ℚ) := by exact_mod_cast h2
  exact mul_le_mul_of_nonneg_right h3 (le_of_lt hp)

/-- … and above every grid point below it -/
theorem grid_ge (e : Int) (a : ℚ) (z : Int) (h : (z : ℚ) * pow2 e ≤ a) :
    (z : ℚ) * pow2 e ≤ ((roundEven (a / pow2 e) : Int) : ℚ) * pow2 e := by
  have hp := pow2_pos e
  have h1 : (z : ℚ) ≤ a / pow2 e := by rw [le_div_iff₀ hp]; exact h
  have h2 := roundEven_monotone _ _ h1
  rw [roundEven_intCast] at h2
  have h3 : (z : ℚ) ≤ ((roundEven (a / pow2 e) : Int) : ℚ) := by exact_mod_cast h2
  exact mul_le_mul_of_nonneg_right h3 (le_of_lt hp)

theorem rndPos_nonneg (a : ℚ) (ha : 0 < a) : 0 ≤ rndPos a := by
  have := grid_ge (expOf a) a 0 (by simp; exact le_of_lt ha)
  simpa [rndPos] using this

/-- **monotone on the positive rationals**, across exponent boundaries -/
theorem rndPos_mono (a b : ℚ) (ha : 0 < a) (h : a ≤ b) : rndPos a ≤ rndPos b := by
  have hb : 0 < b := lt_of_lt_of_le ha h
  have hl := lg_mono a b ha h
  rcases lt_or_eq_of_le (show expOf a ≤ expOf b by unfold expOf; split <;> split <;> omega)
    with hlt | heq
  · -- the power of two `2^(lg b)` separates the arguments and lies on both grids
    have hlb : lg a < lg b := by
      by_contra hc
      have : lg a = lg b := by omega
      unfold expOf at hlt; rw [this] at hlt; omega
    have heb : expOf b = lg b - 23 := by
      have := expOf_ge a
      unfold expOf at hlt ⊢; split <;> [skip; rfl]
      rename_i h1; rw [if_pos h1] at hlt; omega
    have hea : expOf a ≤ lg b := by omega
    have hac : a ≤ pow2 (lg b) := by
      have h1 := (lg_spec a ha).2
      have h2 : pow2 (lg a + 1) ≤ pow2 (lg b) := by rw [pow2_le_iff]; omega
      linarith
    have hcb : pow2 (lg b) ≤ b := (lg_spec b hb).1
    have g1 := pow2_grid (expOf a) (lg b) hea
    have g2 := pow2_grid (expOf b) (lg b) (by omega)
    have r1 := grid_le (expOf a) a _ (by rw [← g1]; exact hac)
    have r2 := grid_ge (expOf b) b _ (by rw [← g2]; exact hcb)
    rw [← g1] at r1
    rw [← g2] at r2
    exact le_trans r1 r2
  · simp only [rndPos, heq]
    have hp := pow2_pos (expOf b)
    have h1 : a / pow2 (expOf b) ≤ b / pow2 (expOf b) := by
      rw [div_le_div_iff_of_pos_right hp]; exact h
    have h2 := roundEven_monotone _ _ h1
    have h3 : ((roundEven (a / pow2 (expOf b)) : Int) : ℚ)
        ≤ ((roundEven (b / pow2 (expOf b)) : Int) : ℚ) := by exact_mod_cast h2
    exact mul_le_mul_of_nonneg_right h3 (le_of_lt hp)

/-! ### `rndF32` -/

theorem rndF32_zero : rndF32 0 = 0 := by simp [rndF32]

theorem rndF32_neg (q : ℚ) : rndF32 (-q) = -rndF32 q := by
  rw [rndF32_eq, rndF32_eq]
  rcases lt_trichotomy q 0 with h | h | h
  · have h1 : -q ≠ 0 := by intro h0; linarith [neg_eq_zero.mp h0]
    have h2 : ¬ (-q < 0) := by linarith
    simp [h1, h2, ne_of_lt h, h]
  · simp [h]
  · have h1 : -q ≠ 0 := by intro h0; linarith [neg_eq_zero.mp h0]
    have h2 : -q < 0 := by linarith
    have h3 : ¬ (q < 0) := by linarith
    simp [h1, h2, ne_of_gt h, h3]

theorem rndF32_pos (q : ℚ) (h : 0 < q) : rndF32 q = rndPos q := by
  rw [rndF32_eq, if_neg (ne_of_gt h), if_neg (by linarith)]

theorem rndF32_of_neg (q : ℚ) (h : q < 0) : rndF32 q = -rndPos (-q) := by
  rw [rndF32_eq, if_neg (ne_of_lt h), if_pos h]

/-- **`rndF32` is monotone** -/
theorem rndF32_monoRnd : MonoRnd rndF32 := by
  intro a b h
  rcases lt_trichotomy a 0 with ha | ha | ha
  · rw [rndF32_of_neg a ha]
    have h1 := rndPos_nonneg (-a) (by linarith)
    rcases lt_trichotomy b 0 with hb | hb | hb
    · rw [rndF32_of_neg b hb]
      have := rndPos_mono (-b) (-a) (by linarith) (by linarith)
      linarith
    · rw [hb, rndF32_zero]; linarith
    · rw [rndF32_pos b hb]
      have := rndPos_nonneg b hb
      linarith
  · rw [ha, rndF32_zero]
    rcases lt_or_eq_of_le (show (0 : ℚ) ≤ b by rw [← ha]; exact h) with hb | hb
    · rw [rndF32_pos b hb]; exact rndPos_nonneg b hb
    · rw [← hb, rndF32_zero]
  · have hb : 0 < b := lt_of_lt_of_le ha h
    rw [rndF32_pos a ha, rndF32_pos b hb]
    exact rndPos_mono a b ha h

/-- binary32 numbers without the overflow threshold: `m · 2^e` with `|m| < 2^24` and
`e ≥ -149` (normal and subnormal numbers and zero) -/
def IsF32 (f : ℚ) : Prop := ∃ m e : Int, -149 ≤ e ∧ |m| < 2 ^ 24 ∧ f = (m : ℚ) * pow2 e

theorem isF32_neg (f : ℚ) (h : IsF32 f) : IsF32 (-f) := by
  obtain ⟨m, e, h1, h2, h3⟩ := h
  exact ⟨-m, e, h1, by rw [abs_neg]; exact h2, by rw [h3]; push_cast; ring⟩

theorem isF32_int (z : Int) (h : |z| < 2 ^ 24) : IsF32 (z : ℚ) :=
  ⟨z, 0, by omega, h, by simp [pow2]⟩

theorem rndPos_scaled_le (a : ℚ) (ha : 0 < a) : a / pow2 (expOf a) ≤ ((2 ^ 24 : Nat) : ℚ) := by
  have hp := pow2_pos (expOf a)
  rw [div_le_iff₀ hp]
  have h1 := (lg_spec a ha).2
  have h2 : pow2 (lg a + 1) ≤ pow2 (24 + expOf a) := by
    rw [pow2_le_iff]; have := expOf_ge' a; omega
  rw [pow2_add 24] at h2
  have : pow2 24 = ((2 ^ 24 : Nat) : ℚ) := pow2_natCast 24
  rw [this] at h2
  linarith

theorem rndPos_isF32 (a : ℚ) (ha : 0 < a) : IsF32 (rndPos a) := by
  have hp := pow2_pos (expOf a)
  have hn0 : 0 ≤ roundEven (a / pow2 (expOf a)) := by
    have h := roundEven_monotone 0 (a / pow2 (expOf a)) (by positivity)
    have : roundEven 0 = 0 := by simpa using roundEven_intCast 0
    rw [this] at h; exact h
  have hn1 : roundEven (a / pow2 (expOf a)) ≤ 2 ^ 24 := by
    have h := roundEven_monotone _ _ (rndPos_scaled_le a ha)
    have : roundEven (((2 ^ 24 : Nat) : ℚ)) = 2 ^ 24 := by
      have := roundEven_intCast (2 ^ 24)
      push_cast at this ⊢
      exact this
    rw [this] at h; exact h
  rcases lt_or_eq_of_le hn1 with hlt | heq
  · exact ⟨roundEven (a / pow2 (expOf a)), expOf a, expOf_ge a,
      by rw [abs_of_nonneg hn0]; exact hlt, rfl⟩
  · refine ⟨2 ^ 23, expOf a + 1, by have := expOf_ge a; omega, by norm_num, ?_⟩
    simp only [rndPos, heq, pow2_succ]
    push_cast; ring

/-- **no binary32 number is closer** (positive arguments) -/
theorem rndPos_nearest (a : ℚ) (ha : 0 < a) (f : ℚ) (hf : IsF32 f) :
    |rndPos a - a| ≤ |f - a| := by
  obtain ⟨m, e', he', hm, rfl⟩ := hf
  have hp := pow2_pos (expOf a)
  -- nearest among the points of the grid of `a`
  have grid : ∀ z : Int, |rndPos a - a| ≤ |(z : ℚ) * pow2 (expOf a) - a| := by
    intro z
    have h := roundEven_nearest_int (a / pow2 (expOf a)) z
    have e1 : rndPos a - a
        = (((roundEven (a / pow2 (expOf a)) : Int) : ℚ) - a / pow2 (expOf a)) * pow2 (expOf a) := by
      simp only [rndPos]; field_simp
    have e2 : (z : ℚ) * pow2 (expOf a) - a = ((z : ℚ) - a / pow2 (expOf a)) * pow2 (expOf a) := by
      field_simp
    rw [e1, e2, abs_mul, abs_mul, abs_of_pos hp]
    exact mul_le_mul_of_nonneg_right h (le_of_lt hp)
  by_cases hee : expOf a ≤ e'
  · have g := pow2_grid (expOf a) e' hee
    have := grid (m * ((2 ^ (e' - expOf a).toNat : Nat) : Int))
    rw [g]
    push_cast at this ⊢
    rw [← mul_assoc]
    exact this
  · -- a float with a finer last place is below `2^(lg a) ≤ a`, which is on the grid of `a`
    have hlt : e' < expOf a := by omega
    have hea : expOf a = lg a - 23 := by
      unfold expOf at hlt ⊢; split <;> [skip; rfl]
      rename_i h1; rw [if_pos h1] at hlt; omega
    have hc1 : pow2 (lg a) ≤ a := (lg_spec a ha).1
    have hfc : (m : ℚ) * pow2 e' < pow2 (lg a) := by
      have hp' := pow2_pos e'
      have hm' : (m : ℚ) < ((2 ^ 24 : Nat) : ℚ) := by
        have : m < 2 ^ 24 := lt_of_le_of_lt (le_abs_self m) hm
        exact_mod_cast this
      have h1 : (m : ℚ) * pow2 e' < ((2 ^ 24 : Nat) : ℚ) * pow2 e' :=
        mul_lt_mul_of_pos_right hm' hp'
      have h2 : ((2 ^ 24 : Nat) : ℚ) * pow2 e' = pow2 (24 + e') := by
        rw [pow2_add, ← pow2_natCast 24]; rfl
      have h3 : pow2 (24 + e') ≤ pow2 (lg a) := by rw [pow2_le_iff]; omega
      linarith
    have g := pow2_grid (expOf a) (lg a) (by omega)
    have h := grid ((2 ^ (lg a - expOf a).toNat : Nat) : Int)
    rw [← g] at h
    have h4 : |pow2 (lg a) - a| = a - pow2 (lg a) := by
      rw [abs_sub_comm]; exact abs_of_nonneg (by linarith)
    have h5 : |(m : ℚ) * pow2 e' - a| = a - (m : ℚ) * pow2 e' := by
      rw [abs_sub_comm]; exact abs_of_nonneg (by linarith)
    rw [h5]; rw [h4] at h; linarith

theorem rndF32_isF32 (q : ℚ) : IsF32 (rndF32 q) := by
  rcases lt_trichotomy q 0 with h | h | h
  · rw [rndF32_of_neg q h]; exact isF32_neg _ (rndPos_isF32 (-q) (by linarith))
  · rw [h, rndF32_zero]; exact ⟨0, 0, by omega, by norm_num, by simp⟩
  · rw [rndF32_pos q h]; exact rndPos_isF32 q h

/-- **`rndF32 q` is a binary32 number nearest to `q`** -/
theorem rndF32_nearest' (q f : ℚ) (hf : IsF32 f) : |rndF32 q - q| ≤ |f - q| := by
  rcases lt_trichotomy q 0 with h | h | h
  · rw [rndF32_of_neg q h]
    have := rndPos_nearest (-q) (by linarith) (-f) (isF32_neg f hf)
    have e1 : -rndPos (-q) - q = -(rndPos (-q) - -q) := by ring
    have e2 : f - q = -(-f - -q) := by ring
    rw [e1, e2, abs_neg, abs_neg]; exact this
  · rw [h, rndF32_zero]; simp
  · rw [rndF32_pos q h]; exact rndPos_nearest q h f hf

/-- binary32 numbers are fixed points -/
theorem rndF32_fix (f : ℚ) (hf : IsF32 f) : rndF32 f = f := by
  have := rndF32_nearest' f f hf
  rw [sub_self, abs_zero] at this
  have := abs_nonpos_iff.mp this
  linarith

/-- half an ulp: the error is at most half the spacing of the grid -/
theorem rndF32_half_ulp (q : ℚ) (h : 0 < q) : |rndF32 q - q| ≤ pow2 (expOf q) / 2 := by
  rw [rndF32_pos q h]
  have hp := pow2_pos (expOf q)
  have e1 : rndPos q - q
      = (((roundEven (q / pow2 (expOf q)) : Int) : ℚ) - q / pow2 (expOf q)) * pow2 (expOf q) := by
    simp only [rndPos]; field_simp
  rw [e1, abs_mul, abs_of_pos hp]
  have := roundEven_half (q / pow2 (expOf q))
  nlinarith

/-- relative error `2^-24` in the normal range -/
theorem rndF32_rel (q : ℚ) (h : 0 < q) (hn : -126 ≤ lg q) : |rndF32 q - q| ≤ q / 2 ^ 24 := by
  have h1 := rndF32_half_ulp q h
  have he : expOf q = lg q - 23 := by unfold expOf; split <;> omega
  have h2 : pow2 (lg q) = pow2 (expOf q) * ((2 ^ 23 : Nat) : ℚ) := by
    have : lg q = expOf q + 23 := by omega
    conv_lhs => rw [this, pow2_add]
    congr 1
  have h3 := (lg_spec q h).1
  rw [h2] at h3
  have hp := pow2_pos (expOf q)
  have : pow2 (expOf q) / 2 ≤ q / 2 ^ 24 := by
    rw [div_le_div_iff₀ (by norm_num) (by norm_num)]
    push_cast at h3
    nlinarith
  linarith

/-! ### exact differences from representable differences -/

theorem exactDiffs_of_isF32 (x : List Val) (t : List ℚ) (N : Nat)
    (ht : ∀ i k, i < k → k < N → IsF32 (t.getD k 0 - t.getD i 0))
    (hx : ∀ i k, i < k → k < N → ∀ dx, vsub (valAt x k) (valAt x i) = some dx → IsF32 dx) :
    ExactDiffs rndF32 x t N := by
  intro i _ k hk hik
  simp only [exactDiffAt, Bool.and_eq_true, decide_eq_true_eq]
  refine ⟨rndF32_fix _ (ht i k hik hk), ?_⟩
  cases hv : vsub (valAt x k) (valAt x i) with
  | none => rfl
  | some dx => simp only [decide_eq_true_eq]; exact rndF32_fix _ (hx i k hik hk dx hv)

/-! ### rescaling by a power of two commutes with the rounding (no underflow) -/

theorem lg_unique (a : ℚ) (ha : 0 < a) (m : Int) (h1 : pow2 m ≤ a) (h2 : a < pow2 (m + 1)) :
    lg a = m := by
  obtain ⟨s1, s2⟩ := lg_spec a ha
  have u1 : pow2 (lg a) < pow2 (m + 1) := lt_of_le_of_lt s1 h2
  have u2 : pow2 m < pow2 (lg a + 1) := lt_of_le_of_lt h1 s2
  rw [pow2_lt_iff] at u1 u2
  omega

theorem lg_scale (a : ℚ) (ha : 0 < a) (k : Int) : lg (pow2 k * a) = lg a + k := by
  obtain ⟨s1, s2⟩ := lg_spec a ha
  have hk := pow2_pos k
  apply lg_unique _ (mul_pos hk ha)
  · rw [add_comm, pow2_add]; exact mul_le_mul_of_nonneg_left s1 (le_of_lt hk)
  · rw [show lg a + k + 1 = k + (lg a + 1) by ring, pow2_add]
    exact mul_lt_mul_of_pos_left s2 hk

theorem rndPos_scale (a : ℚ) (ha : 0 < a) (k : Int) (h1 : -126 ≤ lg a) (h2 : -126 ≤ lg a + k) :
    rndPos (pow2 k * a) = pow2 k * rndPos a := by
  have e1 : expOf a = lg a - 23 := by unfold expOf; split <;> omega
  have e2 : expOf (pow2 k * a) = expOf a + k := by
    unfold expOf; rw [lg_scale a ha k]; split <;> split <;> omega
  have hk := pow2_pos k
  have he := pow2_pos (expOf a)
  simp only [rndPos, e2]
  have : pow2 k * a / pow2 (expOf a + k) = a / pow2 (expOf a) := by
    rw [pow2_add]; field_simp
  rw [this, pow2_add]; ring

/-- **`rndF32 (2^k · q) = 2^k · rndF32 q`** as long as neither side is subnormal: rescaling the
values or the time unit by a power of two changes no rounding decision -/
theorem rndF32_scale (q : ℚ) (k : Int) (h1 : q ≠ 0 → -126 ≤ lg |q|)
    (h2 : q ≠ 0 → -126 ≤ lg |q| + k) : rndF32 (pow2 k * q) = pow2 k * rndF32 q := by
  have hk := pow2_pos k
  rcases lt_trichotomy q 0 with h | h | h
  · have hq : |q| = -q := abs_of_neg h
    rw [hq] at h1 h2
    have hn : pow2 k * q < 0 := mul_neg_of_pos_of_neg hk h
    rw [rndF32_of_neg _ hn, rndF32_of_neg q h]
    have : -(pow2 k * q) = pow2 k * (-q) := by ring
    rw [this, rndPos_scale (-q) (by linarith) k (h1 (ne_of_lt h)) (h2 (ne_of_lt h))]
    ring
  · rw [h, mul_zero, rndF32_zero, mul_zero]
  · have hq : |q| = q := abs_of_pos h
    rw [hq] at h1 h2
    rw [rndF32_pos _ (mul_pos hk h), rndF32_pos q h,
      rndPos_scale q h k (h1 (ne_of_gt h)) (h2 (ne_of_gt h))]

/-! ### rounded slopes of a series rescaled by powers of two -/

/-- neither `q` nor `2^k q` is subnormal -/
def NoUfl (q : ℚ) (k : Int) : Prop := (q ≠ 0 → -126 ≤ lg |q|) ∧ (q ≠ 0 → -126 ≤ lg |q| + k)

theorem valAt_map (f : ℚ → ℚ) (x : List Val) (k : Nat) :
    valAt (x.map (Option.map f)) k = (valAt x k).map f := by
  simp only [valAt, List.getElem?_map]
  cases x[k]? with
  | none => rfl
  | some v => cases v <;> rfl

theorem getD_map_mul (p : ℚ) (t : List ℚ) (k : Nat) :
    (t.map (p * ·)).getD k 0 = p * t.getD k 0 := by
  simp only [List.getD, List.getElem?_map]
  cases t[k]? <;> simp

/-- the rounded slope of the rescaled series is the rescaled rounded slope (no underflow) -/
theorem slopeValR_scale (x : List Val) (t : List ℚ) (a c : Int) (i k : Nat)
    (hdt : NoUfl (t.getD k 0 - t.getD i 0) c)
    (hdx : ∀ dx, vsub (valAt x k) (valAt x i) = some dx →
      NoUfl dx a ∧ NoUfl (rndF32 dx / rndF32 (t.getD k 0 - t.getD i 0)) (a - c)) :
    slopeValR rndF32 (x.map (Option.map (pow2 a * ·))) (t.map (pow2 c * ·)) i k
      = (slopeValR rndF32 x t i k).map (pow2 (a - c) * ·) := by
  simp only [slopeValR, valAt_map, getD_map_mul]
  have hc := pow2_pos c
  cases hk : valAt x k with
  | none => simp [vsub]
  | some xk =>
    cases hi : valAt x i with
    | none => simp [vsub]
    | some xi =>
      obtain ⟨h1, h2⟩ := hdx (xk - xi) (by rw [hk, hi]; rfl)
      simp only [vsub, Option.map_some, Option.some.injEq]
      rw [← mul_sub, ← mul_sub, rndF32_scale _ a h1.1 h1.2, rndF32_scale _ c hdt.1 hdt.2]
      have e : pow2 a * rndF32 (xk - xi) / (pow2 c * rndF32 (t.getD k 0 - t.getD i 0))
          = pow2 (a - c) * (rndF32 (xk - xi) / rndF32 (t.getD k 0 - t.getD i 0)) := by
        have : pow2 a = pow2 (a - c) * pow2 c := by rw [← pow2_add]; congr 1; ring
        rw [this]; field_simp
      rw [e, rndF32_scale _ (a - c) h2.1 h2.2]

/-- the comparison of two rounded slopes seen from `i` is unchanged by the rescaling -/
theorem slopeCmpR_scale (x : List Val) (t : List ℚ) (a c : Int) (i k j : Nat)
    (hk : NoUfl (t.getD k 0 - t.getD i 0) c)
    (hkx : ∀ dx, vsub (valAt x k) (valAt x i) = some dx →
      NoUfl dx a ∧ NoUfl (rndF32 dx / rndF32 (t.getD k 0 - t.getD i 0)) (a - c))
    (hj : NoUfl (t.getD j 0 - t.getD i 0) c)
    (hjx : ∀ dx, vsub (valAt x j) (valAt x i) = some dx →
      NoUfl dx a ∧ NoUfl (rndF32 dx / rndF32 (t.getD j 0 - t.getD i 0)) (a - c)) :
    vlt (slopeValR rndF32 (x.map (Option.map (pow2 a * ·))) (t.map (pow2 c * ·)) i k)
        (slopeValR rndF32 (x.map (Option.map (pow2 a * ·))) (t.map (pow2 c * ·)) i j)
      = vlt (slopeValR rndF32 x t i k) (slopeValR rndF32 x t i j) := by
  rw [slopeValR_scale x t a c i k hk hkx, slopeValR_scale x t a c i j hj hjx]
  exact vlt_scale (pow2 (a - c)) (pow2_pos _) _ _

/-! ### the float64 → float32 conversion and the order of the samples -/

/-- the conversion keeps distinct samples apart -/
def KeepsApart (x : List Val) : Prop :=
  ∀ a b : ℚ, some a ∈ x → some b ∈ x → rndF32 a = rndF32 b → a = b

/-- a monotone rounding that merges no two samples preserves every comparison between them -/
theorem ordOn_rndF32 (x : List Val) (h : KeepsApart x) : OrdOn rndF32 x := by
  intro u hu v hv
  cases u with
  | none => simp [vlt]
  | some a =>
    cases v with
    | none => simp [vlt]
    | some b =>
      simp only [vlt, Option.map_some]
      rw [decide_eq_decide]
      constructor
      · intro hlt
        by_contra hc
        have := rndF32_monoRnd b a (not_lt.mp hc)
        exact absurd hlt (not_lt.mpr this)
      · intro hlt
        have h1 := rndF32_monoRnd a b (le_of_lt hlt)
        rcases lt_or_eq_of_le h1 with h2 | h2
        · exact h2
        · exact absurd (h a b hu hv h2) (ne_of_lt hlt)

/-- integer samples of magnitude below `2^23` (present samples only) -/
def IntSeries (x : List Val) : Prop :=
  ∀ r : ℚ, some r ∈ x → ∃ z : Int, r = (z : ℚ) ∧ |z| < 2 ^ 23

theorem valAt_mem (x : List Val) (k : Nat) (r : ℚ) (h : valAt x k = some r) : some r ∈ x := by
  simp only [valAt] at h
  cases hk : x[k]? with
  | none => rw [hk] at h; cases h
  | some v =>
    rw [hk] at h
    simp only [Option.join_some] at h
    rw [h] at hk
    exact List.mem_of_getElem? hk

theorem defaultTimings_getD (N k : Nat) (hk : k < N) :
    (defaultTimings N).getD k 0 = ((k : Int) : ℚ) := by
  simp [defaultTimings, List.getD, List.getElem?_map, List.getElem?_range hk]

/-- integer series on the default timings `0, 1, 2, …`: every difference the kernels form is a
binary32 number -/
theorem exactDiffs_intSeries (x : List Val) (hx : IntSeries x) (N : Nat) (hN : N ≤ 2 ^ 24) :
    ExactDiffs rndF32 x (defaultTimings N) N := by
  apply exactDiffs_of_isF32
  · intro i k hik hk
    rw [defaultTimings_getD N k hk, defaultTimings_getD N i (by omega)]
    have : ((k : Int) : ℚ) - ((i : Int) : ℚ) = (((k : Int) - (i : Int) : Int) : ℚ) := by push_cast; ring
    rw [this]
    apply isF32_int
    rw [abs_lt]; constructor <;> omega
  · intro i k _ _ dx hv
    cases hk : valAt x k with
    | none => rw [hk] at hv; simp [vsub] at hv
    | some rk =>
      cases hi : valAt x i with
      | none => rw [hk, hi] at hv; simp [vsub] at hv
      | some ri =>
        rw [hk, hi] at hv
        simp only [vsub, Option.some.injEq] at hv
        obtain ⟨zk, rfl, hzk⟩ := hx rk (valAt_mem x k rk hk)
        obtain ⟨zi, rfl, hzi⟩ := hx ri (valAt_mem x i ri hi)
        rw [← hv]
        have : (zk : ℚ) - (zi : ℚ) = ((zk - zi : Int) : ℚ) := by push_cast; ring
        rw [this]
        apply isF32_int
        rw [abs_lt] at hzk hzi ⊢
        constructor <;> omega

end Pyunicorn.Visibility
