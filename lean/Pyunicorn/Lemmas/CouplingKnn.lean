import Pyunicorn.Model.CouplingKnn
import Pyunicorn.Lemmas.Coupling2
import Mathlib.Algebra.Order.Archimedean.Basic
/-!
Lemmas about the nearest-neighbour kernel model (`Model/CouplingKnn.lean`, C10 round 3):
early-exit cube test, the list of samples found, the bounded insertion sort (slot `p` holds the
`p`-th order statistic, whatever the stale content of the work array), the growing-cube loop
(result independent of the start width; terminates iff `k < T`), the counting loop.
-/
namespace Pyunicorn.Coupling

/-! ### counting helpers -/

theorem countTo_mono {n : Nat} {p q : Nat → Bool} (h : ∀ t, t < n → p t = true → q t = true) :
    countTo n p ≤ countTo n q := by
  induction n with
  | zero => simp [countTo]
  | succ n ih =>
    have ih' := ih (fun t ht => h t (by omega))
    have hn := h n (by omega)
    simp only [countTo]
    cases hp : p n <;> cases hq : q n
    · simp; exact ih'
    · simp; omega
    · rw [hp] at hn; have := hn rfl; rw [hq] at this; cases this
    · simp; exact ih'

/-- number of `t < n` with `x t < v` / `x t ≤ v` -/
def cLt (x : Nat → Rat) (n : Nat) (v : Rat) : Nat := countTo n (fun t => decide (x t < v))
def cLe (x : Nat → Rat) (n : Nat) (v : Rat) : Nat := countTo n (fun t => decide (x t ≤ v))

theorem cLt_succ (x : Nat → Rat) (n : Nat) (v : Rat) :
    cLt x (n + 1) v = cLt x n v + (if x n < v then 1 else 0) := by
  unfold cLt; simp only [countTo]; by_cases h : x n < v <;> simp [h]

theorem cLe_succ (x : Nat → Rat) (n : Nat) (v : Rat) :
    cLe x (n + 1) v = cLe x n v + (if x n ≤ v then 1 else 0) := by
  unfold cLe; simp only [countTo]; by_cases h : x n ≤ v <;> simp [h]

theorem cLt_le_n (x : Nat → Rat) (n : Nat) (v : Rat) : cLt x n v ≤ n := countTo_le _ _

theorem cLt_mono (x : Nat → Rat) (n : Nat) {v w : Rat} (h : v ≤ w) : cLt x n v ≤ cLt x n w := by
  unfold cLt; apply countTo_mono; intro t _ ht
  simp only [decide_eq_true_eq] at ht ⊢; exact lt_of_lt_of_le ht h

theorem cLe_mono (x : Nat → Rat) (n : Nat) {v w : Rat} (h : v ≤ w) : cLe x n v ≤ cLe x n w := by
  unfold cLe; apply countTo_mono; intro t _ ht
  simp only [decide_eq_true_eq] at ht ⊢; exact le_trans ht h

theorem cLe_le_cLt (x : Nat → Rat) (n : Nat) {v w : Rat} (h : v < w) : cLe x n v ≤ cLt x n w := by
  unfold cLe cLt; apply countTo_mono; intro t _ ht
  simp only [decide_eq_true_eq] at ht ⊢; exact lt_of_le_of_lt ht h

/-- `v` is the distance of the `k`-th nearest neighbour among the samples `t < T` (the sample
itself is the 0-th): a value that occurs, at most `k` samples are strictly closer, more than `k`
are at distance `≤ v` -/
def IsKth (D : Nat → Rat) (T k : Nat) (v : Rat) : Prop :=
  (∃ t, t < T ∧ D t = v) ∧ cLt D T v ≤ k ∧ k < cLe D T v

theorem IsKth_unique (D : Nat → Rat) (T k : Nat) (v w : Rat) (hv : IsKth D T k v)
    (hw : IsKth D T k w) : v = w := by
  rcases lt_trichotomy v w with h | h | h
  · have := cLe_le_cLt D T h; have := hv.2.2; have := hw.2.1; omega
  · exact h
  · have := cLe_le_cLt D T h; have := hw.2.2; have := hv.2.1; omega

/-! ### distances and the cube test -/

theorem rmax_lt_iff (a b e : Rat) : rmax a b < e ↔ a < e ∧ b < e := by
  unfold rmax
  split
  · rename_i h; constructor
    · intro hb; exact ⟨lt_trans h hb, hb⟩
    · intro hb; exact hb.2
  · rename_i h; constructor
    · intro ha; exact ⟨ha, lt_of_le_of_lt (not_lt.mp h) ha⟩
    · intro ha; exact ha.1

theorem maxDist_lt_iff (arr : Nat → Nat → Rat) (i t lo n : Nat) (acc eps : Rat) :
    maxDist arr i t lo n acc < eps ↔
      acc < eps ∧ ∀ d, d < n → rabs (arr (lo + d) i - arr (lo + d) t) < eps := by
  induction n with
  | zero => simp [maxDist]
  | succ n ih =>
    simp only [maxDist, rmax_lt_iff, ih]
    constructor
    · rintro ⟨h1, h2, h3⟩
      refine ⟨h2, fun d hd => ?_⟩
      by_cases e : d = n
      · subst e; exact h1
      · exact h3 d (by omega)
    · rintro ⟨h2, h3⟩
      exact ⟨h3 n (by omega), h2, fun d hd => h3 d (by omega)⟩

theorem cubeWalk_spec (arr : Nat → Nat → Rat) (i t : Nat) (eps : Rat) (dim : Nat) (fuel d : Nat)
    (hd : d + fuel = dim) :
    cubeWalk arr i t eps dim fuel d = dim ↔
      ∀ d', d ≤ d' → d' < dim → rabs (arr d' i - arr d' t) < eps := by
  induction fuel generalizing d with
  | zero =>
    simp only [cubeWalk]
    constructor
    · intro _ d' h1 h2; omega
    · intro _; omega
  | succ fuel ih =>
    simp only [cubeWalk]
    by_cases h : d < dim ∧ rabs (arr d i - arr d t) < eps
    · rw [if_pos h, ih (d + 1) (by omega)]
      constructor
      · intro H d' h1 h2
        by_cases e : d' = d
        · subst e; exact h.2
        · exact H d' (by omega) h2
      · intro H d' h1 h2; exact H d' (by omega) h2
    · rw [if_neg h]
      constructor
      · intro e; omega
      · intro H
        exact absurd ⟨by omega, H d (Nat.le_refl _) (by omega)⟩ h

/-- the early-exit scan decides "every coordinate is closer than `eps`" -/
theorem inCube_iff (arr : Nat → Nat → Rat) (i t : Nat) (eps : Rat) (dim : Nat) :
    inCube arr i t eps dim = true ↔ ∀ d, d < dim → rabs (arr d i - arr d t) < eps := by
  unfold inCube
  rw [beq_iff_eq, cubeWalk_spec arr i t eps dim dim 0 (by omega)]
  constructor
  · intro H d hd; exact H d (Nat.zero_le _) hd
  · intro H d _ hd; exact H d hd

/-- joint maximum-metric distance of sample `t` from sample `i` -/
def jointD (arr : Nat → Nat → Rat) (i dim t : Nat) : Rat := maxDist arr i t 0 dim 0

theorem inCube_iff_jointD (arr : Nat → Nat → Rat) (i t : Nat) (eps : Rat) (dim : Nat)
    (he : 0 < eps) : inCube arr i t eps dim = true ↔ jointD arr i dim t < eps := by
  unfold jointD
  rw [inCube_iff, maxDist_lt_iff]
  constructor
  · intro H; exact ⟨he, fun d hd => by rw [Nat.zero_add]; exact H d hd⟩
  · intro H d hd; have := H.2 d hd; rwa [Nat.zero_add] at this

/-! ### the samples found -/

theorem foundTo_succ (arr : Nat → Nat → Rat) (i : Nat) (eps : Rat) (dim : Nat) (idx : Nat → Nat)
    (t : Nat) :
    foundTo arr i eps dim idx (t + 1) =
      if inCube arr i t eps dim then
        (upd (foundTo arr i eps dim idx t).1 (foundTo arr i eps dim idx t).2 t,
          (foundTo arr i eps dim idx t).2 + 1)
      else foundTo arr i eps dim idx t := rfl

/-- for every predicate the count over the stored indices is the conditional count over all
samples — whatever the stale content `idx` -/
theorem foundTo_count (arr : Nat → Nat → Rat) (i : Nat) (eps : Rat) (dim : Nat) (idx : Nat → Nat)
    (T : Nat) (P : Nat → Bool) :
    countTo (foundTo arr i eps dim idx T).2 (fun j => P ((foundTo arr i eps dim idx T).1 j)) =
      countTo T (fun t => inCube arr i t eps dim && P t) := by
  induction T with
  | zero => rfl
  | succ T ih =>
    rw [foundTo_succ]
    by_cases h : inCube arr i T eps dim = true
    · rw [if_pos h]
      simp only [countTo, h, Bool.true_and]
      rw [← ih]
      congr 1
      · apply countTo_congr
        intro j hj
        simp only [upd, if_neg (Nat.ne_of_lt hj)]
      · simp [upd]
    · rw [if_neg h]
      simp only [countTo]
      have : inCube arr i T eps dim = false := by simpa using h
      rw [ih]; simp [this]

theorem foundTo_n (arr : Nat → Nat → Rat) (i : Nat) (eps : Rat) (dim : Nat) (idx : Nat → Nat)
    (T : Nat) : (foundTo arr i eps dim idx T).2 = countTo T (fun t => inCube arr i t eps dim) := by
  have := foundTo_count arr i eps dim idx T (fun _ => true)
  rw [countTo_true] at this
  rw [this]; apply countTo_congr; intro t _; simp

theorem foundTo_mem (arr : Nat → Nat → Rat) (i : Nat) (eps : Rat) (dim : Nat) (idx : Nat → Nat)
    (T j : Nat) (hj : j < (foundTo arr i eps dim idx T).2) :
    (foundTo arr i eps dim idx T).1 j < T ∧
      inCube arr i ((foundTo arr i eps dim idx T).1 j) eps dim = true := by
  induction T with
  | zero => simp [foundTo] at hj
  | succ T ih =>
    rw [foundTo_succ] at hj ⊢
    by_cases h : inCube arr i T eps dim = true
    · rw [if_pos h] at hj ⊢
      simp only at hj ⊢
      by_cases e : j = (foundTo arr i eps dim idx T).2
      · simp only [upd, if_pos e]; exact ⟨by omega, h⟩
      · simp only [upd, if_neg e]
        have := ih (by omega); exact ⟨by omega, this.2⟩
    · rw [if_neg h] at hj ⊢
      have := ih hj; exact ⟨by omega, this.2⟩

/-! ### bounded insertion sort -/

theorem wr_length (A : List Rat) (m : Nat) (v : Rat) : (wr A m v).length = A.length := by
  unfold wr; exact List.length_set

theorem rd_wr (A : List Rat) (m q : Nat) (v : Rat) (h : m < A.length) :
    rd (wr A m v) q = if q = m then v else rd A q := by
  unfold rd wr
  simp only [List.getD_eq_getElem?_getD, List.getElem?_set]
  by_cases e : q = m
  · subst e; simp [h]
  · rw [if_neg (fun e' => e e'.symm), if_neg e]

theorem shiftLoop_spec (k : Nat) (x : Rat) (m : Nat) (A : List Rat) (hm : m ≤ k + 1)
    (hlen : A.length = k + 1) :
    (shiftLoop k x m A).1.length = k + 1 ∧
    (shiftLoop k x m A).2 ≤ m ∧
    (∀ q, q < (shiftLoop k x m A).2 → rd (shiftLoop k x m A).1 q = rd A q) ∧
    (0 < (shiftLoop k x m A).2 → rd A ((shiftLoop k x m A).2 - 1) ≤ x) ∧
    (∀ q, (shiftLoop k x m A).2 ≤ q → q < m → x < rd A q) ∧
    (∀ p, (shiftLoop k x m A).2 < p → p ≤ min m k → rd (shiftLoop k x m A).1 p = rd A (p - 1)) ∧
    (∀ p, m < p → rd (shiftLoop k x m A).1 p = rd A p) := by
  induction m generalizing A with
  | zero =>
    simp only [shiftLoop]
    exact ⟨hlen, Nat.le_refl _, fun q h => by omega, fun h => by omega, fun q _ h => by omega,
      fun p h1 h2 => by omega, fun _ _ => trivial⟩
  | succ m ih =>
    simp only [shiftLoop]
    by_cases hx : x < rd A m
    · rw [if_pos hx]
      have hlen' : (if m = k then A else wr A (m + 1) (rd A m)).length = k + 1 := by
        split
        · exact hlen
        · rw [wr_length]; exact hlen
      obtain ⟨l, a, b, c, d, e, f⟩ := ih (if m = k then A else wr A (m + 1) (rd A m)) (by omega) hlen'
      have hA' : ∀ q, q ≠ m + 1 → rd (if m = k then A else wr A (m + 1) (rd A m)) q = rd A q := by
        intro q hq; split
        · rfl
        · rw [rd_wr A (m + 1) q _ (by omega), if_neg hq]
      refine ⟨l, by omega, ?_, ?_, ?_, ?_, ?_⟩
      · intro q hq; rw [b q hq, hA' q (by omega)]
      · intro h0; have := c h0; rwa [hA' _ (by omega)] at this
      · intro q h1 h2
        by_cases e' : q = m
        · subst e'; exact hx
        · have := d q h1 (by omega); rwa [hA' q (by omega)] at this
      · intro p h1 h2
        by_cases hp : p ≤ min m k
        · rw [e p h1 hp, hA' _ (by omega)]
        · have hpm : p = m + 1 := by omega
          have hmk : m ≠ k := by omega
          rw [f p (by omega), hpm, if_neg hmk, rd_wr A (m + 1) (m + 1) _ (by omega), if_pos rfl]
          simp
      · intro p hp; rw [f p (by omega), hA' p (by omega)]
    · rw [if_neg hx]
      refine ⟨hlen, Nat.le_refl _, fun q _ => rfl, fun _ => ?_, fun q h1 h2 => by omega,
        fun p h1 h2 => by omega, fun p _ => rfl⟩
      simp only [Nat.add_sub_cancel]; exact not_lt.mp hx

/-- the `for j` loop on an arbitrary sequence of values -/
def sortSeq (k : Nat) (x : Nat → Rat) : Nat → List Rat → List Rat
  | 0, A => A
  | j+1, A => insertStep k j (x j) (sortSeq k x j A)

theorem sortLoop_eq_sortSeq (arr : Nat → Nat → Rat) (i dim k : Nat) (idx : Nat → Nat) (n : Nat)
    (A : List Rat) :
    sortLoop arr i dim k idx n A = sortSeq k (fun j => jointD arr i dim (idx j)) n A := by
  induction n with
  | zero => rfl
  | succ n ih => simp only [sortLoop, sortSeq, ih, jointD]

/-- invariant of the insertion loop after `j` values: the array keeps its `k+1` slots, slot `p` of
the filled prefix holds the `p`-th order statistic, and the prefix is ascending -/
def SortInv (k : Nat) (x : Nat → Rat) (j : Nat) (A : List Rat) : Prop :=
  A.length = k + 1 ∧ (∀ p, p < min j (k + 1) → IsKth x j p (rd A p)) ∧
    (∀ p, p + 1 < min j (k + 1) → rd A p ≤ rd A (p + 1))

theorem sorted_chain (A : Nat → Rat) (L : Nat) (h : ∀ p, p + 1 < L → A p ≤ A (p + 1)) (q q' : Nat)
    (h1 : q ≤ q') (h2 : q' < L) : A q ≤ A q' := by
  induction q' with
  | zero => have : q = 0 := by omega
            subst this; exact le_refl _
  | succ q' ih =>
    by_cases e : q = q' + 1
    · subst e; exact le_refl _
    · exact le_trans (ih (by omega) (by omega)) (h q' h2)

theorem insertStep_inv (k : Nat) (x : Nat → Rat) (j : Nat) (A : List Rat) (h : SortInv k x j A) :
    SortInv k x (j + 1) (insertStep k j (x j) A) := by
  obtain ⟨hlen, hK, hS⟩ := h
  by_cases hj : j = 0
  · subst hj
    unfold insertStep
    rw [if_pos rfl]
    refine ⟨by rw [wr_length]; exact hlen, ?_, fun p hp => by omega⟩
    intro p hp
    have hp0 : p = 0 := by omega
    subst hp0
    rw [rd_wr A 0 0 _ (by omega), if_pos rfl]
    refine ⟨⟨0, by omega, rfl⟩, ?_, ?_⟩
    · rw [cLt_succ]; simp [cLt, countTo]
    · rw [cLe_succ]; simp [cLe, countTo]
  · unfold insertStep
    rw [if_neg hj]
    have hL : min k (j - 1) + 1 = min j (k + 1) := by omega
    rw [hL]
    generalize hLdef : min j (k + 1) = L at *
    have hLk : L ≤ k + 1 := by omega
    obtain ⟨hl, ha, hb, hc, hd, he, hf⟩ := shiftLoop_spec k (x j) L A hLk hlen
    generalize hr : shiftLoop k (x j) L A = r at *
    -- facts about the old prefix
    have hlow : ∀ q, q < r.2 → rd A q ≤ x j := by
      intro q hq
      have h1 := hc (by omega)
      exact le_trans (sorted_chain (rd A) L hS q (r.2 - 1) (by omega) (by omega)) h1
    have hL' : min (j + 1) (k + 1) ≤ L + 1 := by omega
    -- the new array
    have hB : ∀ p, p < min (j + 1) (k + 1) →
        rd (if r.2 = k + 1 then r.1 else wr r.1 r.2 (x j)) p =
          if p < r.2 then rd A p else if p = r.2 then x j else rd A (p - 1) := by
      intro p hp
      by_cases h1 : p < r.2
      · rw [if_pos h1]
        split
        · exact hb p h1
        · rw [rd_wr r.1 r.2 p _ (by omega), if_neg (Nat.ne_of_lt h1)]; exact hb p h1
      · rw [if_neg h1]
        by_cases h2 : p = r.2
        · rw [if_pos h2]
          have : r.2 ≠ k + 1 := by omega
          rw [if_neg this, rd_wr r.1 r.2 p _ (by omega), if_pos h2]
        · rw [if_neg h2]
          have h3 : rd r.1 p = rd A (p - 1) := he p (by omega) (by omega)
          split
          · exact h3
          · rw [rd_wr r.1 r.2 p _ (by omega), if_neg h2]; exact h3
    refine ⟨?_, ?_, ?_⟩
    · show (if r.2 = k + 1 then r.1 else wr r.1 r.2 (x j)).length = k + 1
      split
      · exact hl
      · rw [wr_length]; exact hl
    · intro p hp
      rw [hB p hp]
      by_cases h1 : p < r.2
      · rw [if_pos h1]
        obtain ⟨⟨t, ht, hte⟩, k1, k2⟩ := hK p (by omega)
        have hle := hlow p h1
        refine ⟨⟨t, by omega, hte⟩, ?_, ?_⟩
        · rw [cLt_succ, if_neg (not_lt.mpr hle)]; omega
        · rw [cLe_succ]; omega
      · rw [if_neg h1]
        by_cases h2 : p = r.2
        · rw [if_pos h2]
          refine ⟨⟨j, by omega, rfl⟩, ?_, ?_⟩
          · rw [cLt_succ, if_neg (lt_irrefl _), Nat.add_zero]
            by_cases hcL : r.2 < L
            · have hgt := hd r.2 (Nat.le_refl _) hcL
              have := cLt_mono x j (le_of_lt hgt)
              have := (hK r.2 hcL).2.1
              omega
            · have : L = j := by omega
              have := cLt_le_n x j (x j)
              omega
          · rw [cLe_succ, if_pos (le_refl _)]
            by_cases hc0 : r.2 = 0
            · omega
            · have h1' := hc (by omega)
              have := cLe_mono x j h1'
              have := (hK (r.2 - 1) (by omega)).2.2
              omega
        · rw [if_neg h2]
          have hp1 : p - 1 < L := by omega
          have hgt := hd (p - 1) (by omega) hp1
          obtain ⟨⟨t, ht, hte⟩, k1, k2⟩ := hK (p - 1) hp1
          refine ⟨⟨t, by omega, hte⟩, ?_, ?_⟩
          · rw [cLt_succ, if_pos hgt]; omega
          · rw [cLe_succ, if_pos (le_of_lt hgt)]; omega
    · intro p hp
      rw [hB p (by omega), hB (p + 1) hp]
      by_cases h1 : p + 1 < r.2
      · rw [if_pos (by omega), if_pos h1]; exact hS p (by omega)
      · by_cases h2 : p + 1 = r.2
        · rw [if_pos (by omega), if_neg h1, if_pos h2]; exact hlow p (by omega)
        · by_cases h3 : p = r.2
          · rw [if_neg (by omega), if_pos h3, if_neg h1, if_neg h2]
            simp only [Nat.add_sub_cancel]
            rw [h3]
            exact le_of_lt (hd r.2 (Nat.le_refl _) (by omega))
          · rw [if_neg (by omega), if_neg h3, if_neg h1, if_neg h2]
            simp only [Nat.add_sub_cancel]
            have := hS (p - 1) (by omega)
            have e : p - 1 + 1 = p := by omega
            rwa [e] at this

theorem sortSeq_inv (k : Nat) (x : Nat → Rat) (n : Nat) (A0 : List Rat) (h0 : A0.length = k + 1) :
    SortInv k x n (sortSeq k x n A0) := by
  induction n with
  | zero => exact ⟨h0, fun p hp => by omega, fun p hp => by omega⟩
  | succ n ih => exact insertStep_inv k x n _ ih

/-- **bounded insertion sort**: whatever the stale content `A0` of the `k+1` slots, after `n` values
slot `p < min n (k+1)` holds the `p`-th order statistic of `x 0 … x (n-1)` -/
theorem sortSeq_kth (k : Nat) (x : Nat → Rat) (n : Nat) (A0 : List Rat) (h0 : A0.length = k + 1)
    (p : Nat) (hp : p < min n (k + 1)) : IsKth x n p (rd (sortSeq k x n A0) p) :=
  (sortSeq_inv k x n A0 h0).2.1 p hp

theorem sortSeq_length (k : Nat) (x : Nat → Rat) (n : Nat) (A0 : List Rat) (h0 : A0.length = k + 1) :
    (sortSeq k x n A0).length = k + 1 := (sortSeq_inv k x n A0 h0).1

/-! ### growing cube -/

theorem growLoop_never (arr : Nat → Nat → Rat) (i T dim k fuel : Nat) (eps0 : Rat)
    (idx0 : Nat → Nat) (hk : T ≤ k) : growLoop arr i T dim k fuel eps0 idx0 = none := by
  induction fuel generalizing eps0 idx0 with
  | zero => rfl
  | succ fuel ih =>
    simp only [growLoop]
    have : (foundTo arr i (2 * eps0) dim idx0 T).2 ≤ k := by
      rw [foundTo_n]; exact le_trans (countTo_le _ _) hk
    rw [if_pos this]; exact ih _ _

/-- at exit: the width is positive, more than `k` samples were found, they are exactly the
samples inside the cube -/
theorem growLoop_exit (arr : Nat → Nat → Rat) (i T dim k fuel : Nat) (eps0 eps : Rat)
    (idx0 idx : Nat → Nat) (n : Nat) (h0 : 0 < eps0)
    (h : growLoop arr i T dim k fuel eps0 idx0 = some (eps, idx, n)) :
    0 < eps ∧ k < n ∧ ∃ idx', idx = (foundTo arr i eps dim idx' T).1 ∧
      n = (foundTo arr i eps dim idx' T).2 := by
  induction fuel generalizing eps0 idx0 with
  | zero => simp [growLoop] at h
  | succ fuel ih =>
    simp only [growLoop] at h
    by_cases hle : (foundTo arr i (2 * eps0) dim idx0 T).2 ≤ k
    · rw [if_pos hle] at h
      exact ih (2 * eps0) _ (by linarith) h
    · rw [if_neg hle] at h
      simp only [Option.some.injEq, Prod.mk.injEq] at h
      obtain ⟨e1, e2, e3⟩ := h
      subst e1
      exact ⟨by linarith, by omega, idx0, e2.symm, e3.symm⟩

/-- transfer of an order statistic from the samples found to all samples -/
theorem kth_transfer (arr : Nat → Nat → Rat) (i T dim k : Nat) (eps : Rat) (idx' : Nat → Nat)
    (he : 0 < eps) (v : Rat)
    (hv : IsKth (fun j => jointD arr i dim ((foundTo arr i eps dim idx' T).1 j))
      (foundTo arr i eps dim idx' T).2 k v) : IsKth (jointD arr i dim) T k v := by
  obtain ⟨⟨j, hj, hje⟩, h1, h2⟩ := hv
  have hm := foundTo_mem arr i eps dim idx' T j hj
  have hveps : v < eps := by
    rw [← hje]; exact (inCube_iff_jointD arr i _ eps dim he).mp hm.2
  refine ⟨⟨_, hm.1, hje⟩, ?_, ?_⟩
  · unfold cLt at h1 ⊢
    rw [foundTo_count arr i eps dim idx' T (fun t => decide (jointD arr i dim t < v))] at h1
    have : countTo T (fun t => decide (jointD arr i dim t < v)) =
        countTo T (fun t => inCube arr i t eps dim && decide (jointD arr i dim t < v)) := by
      apply countTo_congr
      intro t _
      by_cases ht : jointD arr i dim t < v
      · have : inCube arr i t eps dim = true :=
          (inCube_iff_jointD arr i t eps dim he).mpr (lt_trans ht hveps)
        simp [ht, this]
      · simp [ht]
    rw [this]; exact h1
  · unfold cLe at h2 ⊢
    rw [foundTo_count arr i eps dim idx' T (fun t => decide (jointD arr i dim t ≤ v))] at h2
    have : countTo T (fun t => decide (jointD arr i dim t ≤ v)) =
        countTo T (fun t => inCube arr i t eps dim && decide (jointD arr i dim t ≤ v)) := by
      apply countTo_congr
      intro t _
      by_cases ht : jointD arr i dim t ≤ v
      · have : inCube arr i t eps dim = true :=
          (inCube_iff_jointD arr i t eps dim he).mpr (lt_of_le_of_lt ht hveps)
        simp [ht, this]
      · simp [ht]
    rw [this]; exact h2

/-- **growing cube + sort**: whatever `eps0 > 0`, the fuel and the stale contents of both work
arrays: if the loop exits, more than `k` samples were found and slot `k` of the sorted array is
the `k`-th nearest-neighbour distance among **all** `T` samples -/
theorem knn_epsmax_kth (arr : Nat → Nat → Rat) (i T dim k fuel : Nat) (eps0 eps : Rat)
    (idx0 idx : Nat → Nat) (n : Nat) (A0 : List Rat) (hA0 : A0.length = k + 1) (h0 : 0 < eps0)
    (h : growLoop arr i T dim k fuel eps0 idx0 = some (eps, idx, n)) :
    k < n ∧ IsKth (jointD arr i dim) T k (rd (sortLoop arr i dim k idx n A0) k) := by
  obtain ⟨he, hkn, idx', e1, e2⟩ := growLoop_exit arr i T dim k fuel eps0 eps idx0 idx n h0 h
  refine ⟨hkn, ?_⟩
  rw [sortLoop_eq_sortSeq]
  have := sortSeq_kth k (fun j => jointD arr i dim (idx j)) n A0 hA0 k (by omega)
  subst e1 e2
  exact kth_transfer arr i T dim k eps idx' he _ this

/-! ### termination -/

theorem jointD_bound (arr : Nat → Nat → Rat) (i dim T : Nat) :
    ∃ B : Rat, ∀ t, t < T → jointD arr i dim t < B := by
  induction T with
  | zero => exact ⟨0, fun t h => by omega⟩
  | succ T ih =>
    obtain ⟨B, hB⟩ := ih
    refine ⟨rmax B (jointD arr i dim T + 1), fun t ht => ?_⟩
    unfold rmax
    by_cases e : t = T
    · subst e; split <;> linarith
    · have := hB t (by omega); split <;> linarith

theorem growLoop_big (arr : Nat → Nat → Rat) (i T dim k fuel : Nat) (eps0 : Rat)
    (idx0 : Nat → Nat) (B : Rat) (hB : ∀ t, t < T → jointD arr i dim t < B) (h0 : 0 < eps0)
    (hbig : B ≤ 2 * eps0) (hk : k < T) :
    (growLoop arr i T dim k (fuel + 1) eps0 idx0).isSome = true := by
  simp only [growLoop]
  have : (foundTo arr i (2 * eps0) dim idx0 T).2 = T := by
    rw [foundTo_n]
    have : countTo T (fun t => inCube arr i t (2 * eps0) dim) = countTo T (fun _ => true) := by
      apply countTo_congr
      intro t ht
      exact (inCube_iff_jointD arr i t (2 * eps0) dim (by linarith)).mpr
        (lt_of_lt_of_le (hB t ht) hbig)
    rw [this, countTo_true]
  rw [if_neg (by omega)]; rfl

theorem growLoop_terminates_aux (arr : Nat → Nat → Rat) (i T dim k : Nat) (B : Rat)
    (hB : ∀ t, t < T → jointD arr i dim t < B) (hk : k < T) (m : Nat) :
    ∀ (eps0 : Rat) (idx0 : Nat → Nat), 0 < eps0 → B ≤ 2 ^ (m + 1) * eps0 →
      (growLoop arr i T dim k (m + 1) eps0 idx0).isSome = true := by
  induction m with
  | zero =>
    intro eps0 idx0 h0 hb
    exact growLoop_big arr i T dim k 0 eps0 idx0 B hB h0 (by simpa using hb) hk
  | succ m ih =>
    intro eps0 idx0 h0 hb
    show (growLoop arr i T dim k (m + 1 + 1) eps0 idx0).isSome = true
    rw [growLoop]
    split
    · apply ih (2 * eps0) _ (by linarith)
      have : (2 : Rat) ^ (m + 1 + 1) * eps0 = 2 ^ (m + 1) * (2 * eps0) := by ring
      rw [← this]; exact hb
    · rfl

/-- the loop exits for some fuel whenever `k < T` … -/
theorem growLoop_terminates (arr : Nat → Nat → Rat) (i T dim k : Nat) (eps0 : Rat)
    (idx0 : Nat → Nat) (h0 : 0 < eps0) (hk : k < T) :
    ∃ fuel, (growLoop arr i T dim k fuel eps0 idx0).isSome = true := by
  obtain ⟨B, hB⟩ := jointD_bound arr i dim T
  obtain ⟨m, hm⟩ := pow_unbounded_of_one_lt (B / eps0) (by norm_num : (1 : Rat) < 2)
  refine ⟨m + 1 + 1, growLoop_terminates_aux arr i T dim k B hB hk (m + 1) eps0 idx0 h0 ?_⟩
  have h1 : B < 2 ^ m * eps0 := by
    have := (div_lt_iff₀ h0).mp hm; exact this
  have h2 : (2 : Rat) ^ m * eps0 ≤ 2 ^ (m + 1 + 1) * eps0 := by
    apply mul_le_mul_of_nonneg_right _ (le_of_lt h0)
    exact pow_le_pow_right₀ (by norm_num) (by omega)
  linarith

/-! ### the counting loop -/

def dxOf (arr : Nat → Nat → Rat) (i dimx j : Nat) : Rat :=
  maxDist arr i j 1 (dimx - 1) (rabs (arr 0 i - arr 0 j))
def dyOf (arr : Nat → Nat → Rat) (i dimx dimy j : Nat) : Rat :=
  maxDist arr i j dimx dimy (rabs (arr dimx i - arr dimx j))
def dzOf (arr : Nat → Nat → Rat) (i dimx dimy dim j : Nat) : Rat :=
  maxDist arr i j (dimx + dimy) (dim - (dimx + dimy)) 0

theorem countLoop_eq (arr : Nat → Nat → Rat) (i dimx dimy dim : Nat) (e : Rat) (T : Nat) :
    countLoop arr i dimx dimy dim e T =
      (countTo T (fun j => decide (dzOf arr i dimx dimy dim j < e) && decide (dxOf arr i dimx j < e)),
       countTo T (fun j => decide (dzOf arr i dimx dimy dim j < e) && decide (dyOf arr i dimx dimy j < e)),
       countTo T (fun j => decide (dzOf arr i dimx dimy dim j < e))) := by
  induction T with
  | zero => rfl
  | succ T ih =>
    simp only [countLoop, countTo, ih]
    unfold dzOf dxOf dyOf
    by_cases hz : maxDist arr i T (dimx + dimy) (dim - (dimx + dimy)) 0 < e
    · by_cases hx : maxDist arr i T 1 (dimx - 1) (rabs (arr 0 i - arr 0 T)) < e <;>
      by_cases hy : maxDist arr i T dimx dimy (rabs (arr dimx i - arr dimx T)) < e <;>
      simp [hz, hx, hy]
    · simp [hz]

/-! ### the whole kernel -/

theorem knnAll_spec (arr : Nat → Nat → Rat) (T dim dimx dimy k fuel : Nat) (eps0 : Rat)
    (h0 : 0 < eps0) (m : Nat) (st : KnnState)
    (h : knnAll arr T dim dimx dimy k fuel eps0 m = some st) :
    st.A.length = k + 1 ∧ st.out.length = m ∧ ∀ i, i < m → ∃ v, IsKth (jointD arr i dim) T k v ∧
      st.out[i]? = some (countLoop arr i dimx dimy dim v T) := by
  induction m generalizing st with
  | zero =>
    simp only [knnAll, Option.some.injEq] at h
    subst h
    exact ⟨by simp, rfl, fun i hi => by omega⟩
  | succ m ih =>
    rw [knnAll] at h
    cases hprev : knnAll arr T dim dimx dimy k fuel eps0 m with
    | none => rw [hprev] at h; simp at h
    | some st0 =>
      rw [hprev] at h
      replace h : knnPoint arr T dim dimx dimy k fuel eps0 m st0 = some st := h
      obtain ⟨hA, hlen, hall⟩ := ih st0 hprev
      unfold knnPoint at h
      cases hg : growLoop arr m T dim k fuel eps0 st0.idx with
      | none => rw [hg] at h; simp at h
      | some r =>
        obtain ⟨eps, idx, n⟩ := r
        rw [hg] at h
        simp only [Option.some.injEq] at h
        subst h
        have hk := (knn_epsmax_kth arr m T dim k fuel eps0 eps st0.idx idx n st0.A hA h0 hg).2
        refine ⟨?_, by simp [hlen], fun i hi => ?_⟩
        · simp only; rw [sortLoop_eq_sortSeq]; exact sortSeq_length k _ n st0.A hA
        by_cases e : i = m
        · subst e
          refine ⟨_, hk, ?_⟩
          simp [← hlen]
        · obtain ⟨v, hv1, hv2⟩ := hall i (by omega)
          refine ⟨v, hv1, ?_⟩
          simp only
          rw [List.getElem?_append_left (by omega)]
          exact hv2

end Pyunicorn.Coupling
