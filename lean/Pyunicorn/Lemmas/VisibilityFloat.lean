import Pyunicorn.Model.VisibilityBetw
import Pyunicorn.Lemmas.VisibilityExt
/-!
Round 3, lemmas for `Properties/C14.lean`, float part.

* the natural kernel in rounded arithmetic (`kernelNR rnd`) under a *monotone* rounding
  that is exact on the differences `x[k] - x[i]`, `t[k] - t[i]` (`ExactDiffs`): every link
  it writes is a link of the exact kernel (`kernelNR_subgraph`);
* the horizontal kernel only compares samples: it is invariant under every map that
  preserves the order of the sample values (`kernelH_orderPreserving`), e.g. the float64 →
  float32 conversion `to_cy(time_series, FIELD)` as long as it keeps distinct samples apart.
-/
namespace Pyunicorn.Visibility

/-! ### natural kernel, monotone rounding -/

/-- weakly monotone rounding (every IEEE rounding mode is) -/
def MonoRnd (rnd : Rat → Rat) : Prop := ∀ a b, a ≤ b → rnd a ≤ rnd b

theorem vlt_of_rounded (rnd : Rat → Rat) (hm : MonoRnd rnd) (u v : Val)
    (h : vlt (u.map rnd) (v.map rnd) = true) : vlt u v = true := by
  cases u with
  | none => simp [vlt] at h
  | some a =>
    cases v with
    | none => simp [vlt] at h
    | some b =>
      simp only [vlt, Option.map_some, decide_eq_true_eq] at h ⊢
      by_contra hc
      have := hm b a (not_lt.mp hc)
      exact absurd h (not_lt.mpr this)

theorem slopeVal_eq_E (x : List Val) (t : List Rat) (i k : Nat) :
    slopeVal x t i k = slopeValE x t i k := by
  simp only [slopeVal, slopeValE, vdivR, tAt]

/-- with exact differences only the quotient is rounded -/
theorem slopeValR_exact (rnd : Rat → Rat) (x : List Val) (t : List Rat) (N i k : Nat)
    (hex : ExactDiffs rnd x t N) (hi : i < N) (hk : k < N) (hik : i < k) :
    slopeValR rnd x t i k = (slopeValE x t i k).map rnd ∧
      rnd (t.getD k 0 - t.getD i 0) = t.getD k 0 - t.getD i 0 := by
  have h := hex i hi k hk hik
  simp only [exactDiffAt, Bool.and_eq_true, decide_eq_true_eq] at h
  refine ⟨?_, h.1⟩
  simp only [slopeValR, slopeValE, h.1]
  cases hv : vsub (valAt x k) (valAt x i) with
  | none => rfl
  | some dx =>
    have h2 := h.2
    rw [hv] at h2
    simp only [decide_eq_true_eq] at h2
    simp only [Option.map_some, h2]

theorem slopeR_ok (rnd : Rat → Rat) (x : List Val) (t : List Rat) (mv : Option (List Bool))
    (N i k : Nat) (g : Good x t mv N) (hex : ExactDiffs rnd x t N) (hik : i < k) (hk : k < N) :
    slopeR rnd x t i k = .ok (slopeValR rnd x t i k) := by
  have hlx := g.lx
  have hlt := g.lt
  rw [slopeR_eq rnd x t i k (by omega) (by omega) (by omega) (by omega)]
  have h := (slopeValR_exact rnd x t N i k hex (by omega) hk hik).2
  have hne : t.getD k 0 - t.getD i 0 ≠ 0 := by
    have := g.inc i k hik hk
    simp only [tAt] at this
    intro h0
    have : t.getD i 0 < t.getD i 0 + (t.getD k 0 - t.getD i 0) := by
      have e : t.getD i 0 + (t.getD k 0 - t.getD i 0) = t.getD k 0 := by ring
      rw [e]; exact this
    rw [h0, add_zero] at this
    exact absurd this (lt_irrefl _)
  rw [h, if_neg hne]

theorem condNR_ok (rnd : Rat → Rat) (x : List Val) (t : List Rat) (mv : Option (List Bool))
    (N i k : Nat) (test : Val) (g : Good x t mv N) (hex : ExactDiffs rnd x t N) (hik : i < k)
    (hk : k < N) :
    condNR rnd x t mv i test k = .ok (!masked mv k && vlt (slopeValR rnd x t i k) test) := by
  have hs := slopeR_ok rnd x t mv N i k g hex hik hk
  cases mv with
  | none => simp [condNR, masked, hs]
  | some m =>
    have hm : k < m.length := by have := g.lm m rfl; omega
    simp only [condNR, rd_lt m k hm, bind_ok, masked, List.getD, List.getElem?_eq_getElem hm,
      Option.getD_some]
    cases m[k] <;> simp [hs]

/-- far pair of the rounded natural kernel -/
def FarNR (rnd : Rat → Rat) (x : List Val) (t : List Rat) (mv : Option (List Bool))
    (i j : Nat) : Prop :=
  ∀ m, i < m → m < j →
    masked mv m = false ∧ vlt (slopeValR rnd x t i m) (slopeValR rnd x t i j) = true

theorem farNR_spec (rnd : Rat → Rat) (x : List Val) (t : List Rat) (mv : Option (List Bool))
    (N i j : Nat) (g : Good x t mv N) (hex : ExactDiffs rnd x t N) (hij : i < j) (hj : j < N) :
    ∃ b, farNR rnd x t mv i j = .ok b ∧ (b = true ↔ FarNR rnd x t mv i j) := by
  have hs := slopeR_ok rnd x t mv N i j g hex hij hj
  obtain ⟨r, hr, _, _, h4⟩ := scan_spec (condNR rnd x t mv i (slopeValR rnd x t i j))
    (fun k => !masked mv k && vlt (slopeValR rnd x t i k) (slopeValR rnd x t i j)) j (j - i)
    (i + 1) (by omega) (by omega)
    (fun m h1 h2 => condNR_ok rnd x t mv N i m _ g hex (by omega) (by omega))
  refine ⟨r == j, by simp only [farNR, hs, bind_ok, hr], ?_⟩
  rw [beq_iff_eq, h4]
  constructor
  · intro h m h1 h2
    have := h m (by omega) h2
    simpa using this
  · intro h m h1 h2
    have := h m (by omega) h2
    simp [this.1, this.2]

theorem farNR_imp_farN (rnd : Rat → Rat) (hm : MonoRnd rnd) (x : List Val) (t : List Rat)
    (mv : Option (List Bool)) (N i j : Nat) (hex : ExactDiffs rnd x t N) (hij : i < j)
    (hj : j < N) (h : FarNR rnd x t mv i j) : FarN x t mv i j := by
  intro m h1 h2
  obtain ⟨hmk, hv⟩ := h m h1 h2
  refine ⟨hmk, ?_⟩
  rw [(slopeValR_exact rnd x t N i m hex (by omega) (by omega) h1).1,
    (slopeValR_exact rnd x t N i j hex (by omega) hj hij).1] at hv
  rw [slopeVal_eq_E, slopeVal_eq_E]
  exact vlt_of_rounded rnd hm _ _ hv

/-- **the float kernel is a subgraph of the exact graph** for every monotone rounding that
is exact on the differences: both kernels succeed and every pair written by the rounded
kernel is written by the exact one -/
theorem kernelNR_subgraph (rnd : Rat → Rat) (hm : MonoRnd rnd) (x : List Val) (t : List Rat)
    (mv : Option (List Bool)) (N : Nat) (g : Good x t mv N) (hex : ExactDiffs rnd x t N) :
    ∃ logR logE, kernelNR rnd x t mv N = .ok logR ∧ kernelN x t mv N = .ok logE ∧
      ∀ p, p ∈ logR → p ∈ logE := by
  obtain ⟨farR, hfarR, hfmR⟩ := filterE_spec (fun p => farNR rnd x t mv p.1 p.2)
    (fun p => FarNR rnd x t mv p.1 p.2) (farPairs N) (by
      rintro ⟨i, j⟩ hp
      rw [farPairs_mem] at hp
      exact farNR_spec rnd x t mv N i j g hex (by omega) hp.2)
  obtain ⟨farE, hfarE, hfmE⟩ := filterE_spec (fun p => farN x t mv p.1 p.2)
    (fun p => FarN x t mv p.1 p.2) (farPairs N) (by
      rintro ⟨i, j⟩ hp
      rw [farPairs_mem] at hp
      exact farN_spec x t mv N i j g (by omega) hp.2)
  obtain ⟨adj, hadj, _⟩ := filterE_spec (adjCond mv)
    (fun p => masked mv p.1 = false ∧ masked mv p.2 = false) (adjPairs N) (by
      rintro ⟨i, j⟩ hp
      rw [adjPairs_mem] at hp
      obtain ⟨rfl, h2⟩ := hp
      exact adjCond_spec mv N i g.lm h2)
  refine ⟨farR ++ adj, farE ++ adj, by simp only [kernelNR, hfarR, hadj, bind_ok],
    by simp only [kernelN, hfarE, hadj, bind_ok], ?_⟩
  rintro ⟨i, j⟩ hp
  rw [List.mem_append] at hp ⊢
  rcases hp with hp | hp
  · left
    rw [hfmR] at hp
    rw [hfmE]
    have hp1 := hp.1
    rw [farPairs_mem] at hp1
    exact ⟨hp.1, farNR_imp_farN rnd hm x t mv N i j hex (by omega) hp1.2 hp.2⟩
  · exact Or.inr hp

/-! ### horizontal kernel, order-preserving maps of the values -/

/-- `f` preserves the (IEEE) order of the samples of `x` -/
def OrdOn (f : Rat → Rat) (x : List Val) : Prop :=
  ∀ u ∈ x, ∀ v ∈ x, vlt (u.map f) (v.map f) = vlt u v

instance (f : Rat → Rat) (x : List Val) : Decidable (OrdOn f x) := by
  unfold OrdOn; infer_instance

theorem ordOn_of_strictMono (f : Rat → Rat) (hf : ∀ a b, f a < f b ↔ a < b) (x : List Val) :
    OrdOn f x := by
  intro u _ v _
  cases u <;> cases v <;> simp [vlt, hf]

theorem rd_mem {α : Type} (l : List α) (k : Nat) (v : α) (h : rd l k = .ok v) : v ∈ l := by
  simp only [rd] at h
  cases hk : l[k]? with
  | none => rw [hk] at h; cases h
  | some w =>
    rw [hk] at h
    cases h
    exact List.mem_of_getElem? hk

theorem cmin_map (f : Rat → Rat) (u v : Val) (h : vlt (v.map f) (u.map f) = vlt v u) :
    cmin (u.map f) (v.map f) = (cmin u v).map f := by
  simp only [cmin, h]
  split <;> rfl

theorem cmin_mem (x : List Val) (u v : Val) (hu : u ∈ x) (hv : v ∈ x) : cmin u v ∈ x := by
  simp only [cmin]; split <;> assumption

theorem farH_ordOn (f : Rat → Rat) (x : List Val) (h : OrdOn f x) (i j : Nat) :
    farH (x.map (Option.map f)) i j = farH x i j := by
  simp only [farH, rd_map]
  cases hi : rd x i with
  | error e => rfl
  | ok xi =>
    cases hj : rd x j with
    | error e => rfl
    | ok xj =>
      have mi := rd_mem x i xi hi
      have mj := rd_mem x j xj hj
      simp only [mapE, bind_ok, cmin_map f xi xj (h xj mj xi mi)]
      rw [scan_congr (condH (x.map (Option.map f)) ((cmin xi xj).map f)) (condH x (cmin xi xj))]
      intro k
      simp only [condH, rd_map]
      cases hk : rd x k with
      | error e => rfl
      | ok xk =>
        simp only [mapE, bind_ok, h xk (rd_mem x k xk hk) _ (cmin_mem x xi xj mi mj)]

/-- **the horizontal kernel depends only on the order of the samples** -/
theorem kernelH_ordOn (f : Rat → Rat) (x : List Val) (h : OrdOn f x) (N : Nat) :
    kernelH (x.map (Option.map f)) N = kernelH x N := by
  simp only [kernelH]
  rw [filterE_congr (fun p : Nat × Nat => farH (x.map (Option.map f)) p.1 p.2)
    (fun p => farH x p.1 p.2) (fun p => farH_ordOn f x h p.1 p.2)]

theorem nanMask_map (f : Rat → Rat) (x : List Val) : nanMask (x.map (Option.map f)) = nanMask x := by
  simp only [nanMask, List.map_map]
  apply List.map_congr_left
  intro v _
  cases v <;> rfl

theorem isMissing_map (f : Rat → Rat) (x : List Val) (k : Nat) :
    isMissing (x.map (Option.map f)) k = isMissing x k := by
  simp only [isMissing, valAt, List.getElem?_map]
  cases x[k]? with
  | none => rfl
  | some v => cases v <;> rfl

/-- the constructor with `horizontal=True` (both settings of `missing_values`) -/
theorem classLog_hvg_ordOn (f : Rat → Rat) (x : List Val) (h : OrdOn f x) (tm : Option (List Rat))
    (missing : Bool) :
    classLog (x.map (Option.map f)) tm missing true = classLog x tm missing true := by
  simp only [classLog, Bool.not_true, Bool.false_eq_true, if_false, List.length_map,
    kernelH_ordOn f x h, isMissing_map]

end Pyunicorn.Visibility
