import Pyunicorn.Model.MpiProto
import Pyunicorn.Lemmas.Mpi
/-! Lemmas about the whole-protocol model of `utils/mpi.py` (core Lean only). -/
namespace Pyunicorn.MpiProto
open Pyunicorn.Mpi (lookup lookup_append lookup_filter_ne)

variable {α β γ : Type}

/-! ### small facts -/

@[simp] theorem upd_same (g : Nat → γ) (k : Nat) (v : γ) : upd g k v k = v := by simp [upd]

theorem upd_other (g : Nat → γ) (k j : Nat) (v : γ) (h : j ≠ k) : upd g k v j = g j := by
  simp [upd, h]

theorem lookup_isSome_iff (k : Nat) (l : List (Nat × γ)) :
    (lookup k l).isSome = true ↔ k ∈ l.map (·.1) := by
  induction l with
  | nil => simp [lookup]
  | cons x t ih =>
    obtain ⟨k', v⟩ := x
    by_cases h : k' = k
    · simp [lookup, h]
    · have : ¬ k = k' := fun e => h e.symm
      simp [lookup, h, ih, this]

theorem lookup_of_mem_nodup (l : List (Nat × γ)) (h : (l.map (·.1)).Nodup) (k : Nat) (v : γ)
    (hm : (k, v) ∈ l) : lookup k l = some v := by
  induction l with
  | nil => simp at hm
  | cons x t ih =>
    obtain ⟨k', v'⟩ := x
    simp only [List.map_cons, List.nodup_cons] at h
    rcases List.mem_cons.mp hm with e | e
    · cases e; simp [lookup]
    · have hk : k ∈ t.map (·.1) := List.mem_map.mpr ⟨(k, v), e, rfl⟩
      have : ¬ k' = k := fun e' => h.1 (e' ▸ hk)
      simp [lookup, this, ih h.2 e]

theorem eraseId_eq_filter (id : Nat) (l : List (Nat × γ)) (h : (l.map (·.1)).Nodup) :
    eraseId id l = l.filter (fun x => x.1 != id) := by
  induction l with
  | nil => simp [eraseId]
  | cons x t ih =>
    simp only [List.map_cons, List.nodup_cons] at h
    by_cases hx : x.1 = id
    · have hall : ∀ y ∈ t, (y.1 != id) = true := by
        intro y hy
        have : y.1 ∈ t.map (·.1) := List.mem_map.mpr ⟨y, hy, rfl⟩
        have : ¬ y.1 = id := fun e => h.1 (hx ▸ e ▸ this)
        simpa using this
      simp [eraseId, hx, List.filter_eq_self.mpr hall]
    · simp [eraseId, hx, ih h.2]

theorem eraseId_sublist (id : Nat) (l : List (Nat × γ)) : (eraseId id l).Sublist l := by
  induction l with
  | nil => simp [eraseId]
  | cons x t ih =>
    by_cases hx : x.1 = id
    · simp [eraseId, hx]
    · simp [eraseId, hx, ih]

/-- payloads of the calls in a channel -/
def calls : List (Msg α) → List α
  | [] => []
  | .call p _ :: t => p :: calls t
  | .terminate :: t => calls t

/-- no terminate tuple in the channel -/
def noTerm : List (Msg α) → Bool
  | [] => true
  | .call _ _ :: t => noTerm t
  | .terminate :: _ => false

theorem calls_append (l m : List (Msg α)) : calls (l ++ m) = calls l ++ calls m := by
  induction l with
  | nil => rfl
  | cons x t ih => cases x <;> simp [calls, ih]

theorem noTerm_append (l m : List (Msg α)) : noTerm (l ++ m) = (noTerm l && noTerm m) := by
  induction l with
  | nil => simp [noTerm]
  | cons x t ih => cases x <;> simp [noTerm, ih]

theorem argmin_range (est : Nat → Int) (size : Nat) (h : 2 ≤ size) :
    1 ≤ argmin est size ∧ argmin est size < size := by
  unfold argmin
  suffices H : ∀ (l : List Nat) (b : Nat), (∀ k ∈ l, k + 1 < size) → 1 ≤ b ∧ b < size →
      1 ≤ l.foldl (fun b k => if est (k + 1) < est b then k + 1 else b) b ∧
      l.foldl (fun b k => if est (k + 1) < est b then k + 1 else b) b < size by
    exact H _ 1 (by intro k hk; have := List.mem_range.mp hk; omega) (by omega)
  intro l
  induction l with
  | nil => intro b _ hb; simpa using hb
  | cons k t ih =>
    intro b hl hb
    simp only [List.foldl_cons]
    apply ih
    · intro k' hk'; exact hl k' (by simp [hk'])
    · have := hl k (by simp)
      split <;> omega

theorem chooseSlave_range (st : State α β) (sl : Option Nat) (h : 2 ≤ st.size) :
    1 ≤ chooseSlave st sl ∧ chooseSlave st sl < st.size := by
  unfold chooseSlave
  cases sl with
  | none => exact argmin_range _ _ h
  | some s =>
    simp only
    split
    · exact argmin_range _ _ h
    · omega

/-- payloads handed to / executed by rank `s`, in order -/
def sentTo (st : State α β) (s : Nat) : List α := (st.sentLog.filter (fun x => x.1 == s)).map (·.2)
def execBy (st : State α β) (s : Nat) : List α := (st.execLog.filter (fun x => x.1 == s)).map (·.2)

/-! ### the invariant of a world with slaves -/

structure Inv (f : α → β) (prog0 : List (Op α)) (st : State α β) : Prop where
  size2 : 2 ≤ st.size
  avail : st.available = !st.finished
  finProg : st.finished = true → st.prog = []
  /-- pending calls of a slave, in order = results waiting in its channel to the master,
  then the calls waiting in the channel from the master -/
  A : ∀ s, (st.squeue s).map (fun x => f x.2) =
        (st.outbox s).map (·.1) ++ (calls (st.inbox s)).map f
  /-- handed out = executed, then still in the channel -/
  E : ∀ s, sentTo st s = execBy st s ++ calls (st.inbox s)
  Q : (st.queue.map (·.1)).Nodup
  K : ∀ id, (lookup id st.assigned).isSome = (lookup id st.queue).isSome
  G : ∀ s, st.squeue s = st.queue.filter (fun x => lookup x.1 st.assigned == some s)
  R : ∀ id s, lookup id st.assigned = some s → 1 ≤ s ∧ s < st.size
  L : st.finished = false → ∀ s, st.alive s = true ∧ noTerm (st.inbox s) = true
  S : st.err = none → specRun f (st.queue, st.got) st.prog = specRun f ([], []) prog0

theorem inv_init (f : α → β) (size : Nat) (prog : List (Op α)) (h : 2 ≤ size) :
    Inv f prog (init (β := β) size prog) := by
  constructor <;> simp [init, h, sentTo, execBy, calls, lookup, noTerm]

theorem inv_fail (f : α → β) (prog0 : List (Op α)) (st : State α β) (e : Err)
    (h : Inv f prog0 st) : Inv f prog0 (doFail st e) := by
  obtain ⟨h1, h2, h3, h4, h5, h6, h7, h8, h9, h10, _⟩ := h
  exact ⟨h1, h2, h3, h4, h5, h6, h7, h8, h9, h10, by simp [doFail]⟩

theorem isSome_or (a b : Option γ) : (a.or b).isSome = (a.isSome || b.isSome) := by
  cases a <;> simp

theorem inv_submit (f : α → β) (prog0 : List (Op α)) (st : State α β) (id : Nat) (p : α)
    (e : Int) (sl : Option Nat) (s : Nat) (rest : List (Op α)) (h : Inv f prog0 st)
    (hfin : st.finished = false) (hprog : st.prog = .submit id p e sl :: rest)
    (hnew : (lookup id st.assigned).isSome = false) (hs : 1 ≤ s ∧ s < st.size) :
    Inv f prog0 (doSubmit st id p e s rest) := by
  have hnewq : (lookup id st.queue).isSome = false := by rw [← h.K]; exact hnew
  have hnone : lookup id st.assigned = none := by simpa using hnew
  constructor
  · exact h.size2
  · exact h.avail
  · intro hf; simp [doSubmit, hfin] at hf
  · intro s'
    by_cases hs' : s' = s
    · subst hs'
      simp [doSubmit, calls_append, calls, h.A s']
    · simp [doSubmit, upd_other _ _ _ _ hs', h.A s']
  · intro s'
    have hE := h.E s'
    by_cases hs' : s' = s
    · subst hs'
      simp only [sentTo, execBy, doSubmit, upd_same, calls_append, calls] at *
      simp [List.filter_append, hE]
    · have : ¬ s = s' := fun e => hs' e.symm
      simp only [sentTo, execBy, doSubmit, upd_other _ _ _ _ hs'] at *
      simp [List.filter_append, this, hE]
  · have hnot : id ∉ st.queue.map (·.1) := by
      intro hm
      have := (lookup_isSome_iff id st.queue).mpr hm
      simp [hnewq] at this
    simp only [doSubmit, List.map_append, List.map_cons, List.map_nil]
    refine List.nodup_append.mpr ⟨h.Q, by simp, ?_⟩
    intro a ha b hb
    simp at hb
    subst hb
    intro e; exact hnot (e ▸ ha)
  · intro id'
    simp only [doSubmit, lookup_append, isSome_or, h.K id']
    by_cases hid : id = id' <;> simp [lookup, hid]
  · intro s'
    simp only [doSubmit, List.filter_append]
    have hq : st.queue.filter (fun x => lookup x.1 (st.assigned ++ [(id, s)]) == some s') =
        st.queue.filter (fun x => lookup x.1 st.assigned == some s') := by
      apply List.filter_congr
      intro x hx
      have hin : (lookup x.1 st.assigned).isSome = true := by
        rw [h.K]; exact (lookup_isSome_iff _ _).mpr (List.mem_map.mpr ⟨x, hx, rfl⟩)
      rw [lookup_append]
      cases hl : lookup x.1 st.assigned with
      | none => simp [hl] at hin
      | some v => simp
    rw [hq, ← h.G s']
    by_cases hs' : s' = s
    · subst hs'
      simp [lookup_append, hnone, lookup]
    · have : ¬ s = s' := fun e => hs' e.symm
      simp [upd_other _ _ _ _ hs', lookup_append, hnone, lookup, this]
  · intro id' s'' hl
    simp only [doSubmit, lookup_append] at hl
    cases hl' : lookup id' st.assigned with
    | some v => rw [hl'] at hl; simp at hl; subst hl; exact h.R id' v hl'
    | none =>
      rw [hl'] at hl
      by_cases hid : id = id'
      · simp [lookup, hid] at hl; subst hl; exact hs
      · simp [lookup, hid] at hl
  · intro _ s'
    have := h.L hfin s'
    by_cases hs' : s' = s
    · subst hs'
      simp [doSubmit, noTerm_append, noTerm, this]
    · simp [doSubmit, upd_other _ _ _ _ hs', this]
  · intro herr
    have := h.S (by simpa [doSubmit] using herr)
    rw [← this, hprog]
    simp only [doSubmit, specRun, specStep, hnewq]
    simp

/-- the head of a slave's queue carries the payload submitted under its id -/
theorem head_payload (f : α → β) (prog0 : List (Op α)) (st : State α β) (h : Inv f prog0 st)
    (src : Nat) (x : Nat × α) (t : List (Nat × α)) (hsq : st.squeue src = x :: t) :
    lookup x.1 st.queue = some x.2 ∧ lookup x.1 st.assigned = some src := by
  have hm : x ∈ st.squeue src := by rw [hsq]; simp
  rw [h.G src, List.mem_filter] at hm
  exact ⟨lookup_of_mem_nodup _ h.Q x.1 x.2 hm.1, by simpa using hm.2⟩

theorem inv_get (f : α → β) (prog0 : List (Op α)) (st : State α β) (id src : Nat)
    (x : Nat × α) (t : List (Nat × α)) (v : β × Nat) (vs : List (β × Nat)) (rest : List (Op α))
    (h : Inv f prog0 st) (hfin : st.finished = false)
    (hsrc : lookup id st.assigned = some src) (hsq : st.squeue src = x :: t) (hx : x.1 = id)
    (hout : st.outbox src = v :: vs)
    (hspec : specRun f (st.queue, st.got) st.prog =
      specRun f (eraseId id st.queue, st.got ++ [(id, f x.2)]) rest) :
    Inv f prog0 (doGet st id src v vs rest) ∧ v.1 = f x.2 := by
  have hA := h.A src
  rw [hsq, hout] at hA
  simp only [List.map_cons, List.cons_append, List.cons.injEq] at hA
  have hQsq : ((st.squeue src).map (·.1)).Nodup := by
    rw [h.G src]
    exact List.Nodup.sublist (List.Sublist.map _ List.filter_sublist) h.Q
  refine ⟨?_, hA.1.symm⟩
  constructor
  · exact h.size2
  · exact h.avail
  · intro hf; simp [doGet, hfin] at hf
  · intro s'
    by_cases hs' : s' = src
    · subst hs'
      simp [doGet, hsq, eraseId, hx, hA.2]
    · simp [doGet, upd_other _ _ _ _ hs', h.A s']
  · intro s'
    have := h.E s'
    simpa [sentTo, execBy, doGet] using this
  · simp only [doGet]
    exact List.Nodup.sublist (List.Sublist.map _ (eraseId_sublist id st.queue)) h.Q
  · intro id'
    simp only [doGet, eraseId_eq_filter id st.queue h.Q, lookup_filter_ne]
    by_cases hid : id' = id <;> simp [hid, h.K id']
  · intro s'
    simp only [doGet, eraseId_eq_filter id st.queue h.Q, List.filter_filter]
    by_cases hs' : s' = src
    · subst hs'
      rw [upd_same, eraseId_eq_filter id _ hQsq, h.G s', List.filter_filter]
      apply List.filter_congr
      intro a _
      by_cases ha : a.1 = id <;> simp [ha, lookup_filter_ne, Bool.and_comm]
    · rw [upd_other _ _ _ _ hs', h.G s']
      apply List.filter_congr
      intro a _
      by_cases ha : a.1 = id
      · have : ¬ src = s' := fun e => hs' e.symm
        simp [ha, hsrc, this, lookup_filter_ne]
      · simp [ha, lookup_filter_ne]
  · intro id' s'' hl
    simp only [doGet, lookup_filter_ne] at hl
    split at hl
    · simp at hl
    · exact h.R id' s'' hl
  · intro _ s'
    simpa [doGet] using h.L hfin s'
  · intro herr
    have := h.S (by simpa [doGet] using herr)
    rw [← this, hspec]
    simp [doGet, hA.1]

theorem inv_terminate (f : α → β) (prog0 : List (Op α)) (st : State α β)
    (h : Inv f prog0 st) (hprog : st.prog = []) : Inv f prog0 (doTerminate st) := by
  constructor
  · exact h.size2
  · simp [doTerminate]
  · intro _; simpa [doTerminate] using hprog
  · intro s'
    have := h.A s'
    simp only [doTerminate]
    split
    · show _ = _ ++ List.map f (calls (if 1 ≤ s' ∧ s' < st.size then _ else _))
      split
      · simpa [calls_append, calls] using this
      · exact this
    · exact this
  · intro s'
    have := h.E s'
    simp only [sentTo, execBy, doTerminate] at *
    split
    · show _ = _ ++ calls (if 1 ≤ s' ∧ s' < st.size then _ else _)
      split
      · simpa [calls_append, calls] using this
      · exact this
    · exact this
  · exact h.Q
  · exact h.K
  · exact h.G
  · exact h.R
  · intro hf; simp [doTerminate] at hf
  · intro herr; exact h.S herr

theorem inv_skip (f : α → β) (prog0 : List (Op α)) (st : State α β) (rest : List (Op α))
    (h : Inv f prog0 st) (hfin : st.finished = false) (hprog : st.prog = .getNext :: rest)
    (hq : st.queue = []) : Inv f prog0 { st with prog := rest } := by
  constructor
  · exact h.size2
  · exact h.avail
  · intro hf; simp [hfin] at hf
  · exact h.A
  · exact h.E
  · exact h.Q
  · exact h.K
  · exact h.G
  · exact h.R
  · exact h.L
  · intro herr
    have := h.S herr
    rw [← this, hprog, hq]
    simp [specRun, specStep]

theorem inv_call (f : α → β) (prog0 : List (Op α)) (st : State α β) (s : Nat) (p : α) (e : Int)
    (ms : List (Msg α)) (h : Inv f prog0 st) (hin : st.inbox s = .call p e :: ms) :
    Inv f prog0 (doCall f st s p ms) := by
  constructor
  · exact h.size2
  · exact h.avail
  · exact h.finProg
  · intro s'
    have := h.A s'
    by_cases hs' : s' = s
    · subst hs'
      rw [hin] at this
      simp [doCall, this, calls]
    · simpa [doCall, upd_other _ _ _ _ hs'] using this
  · intro s'
    have := h.E s'
    by_cases hs' : s' = s
    · subst hs'
      rw [hin] at this
      simp only [sentTo, execBy, doCall, upd_same, calls] at *
      simp [List.filter_append, this]
    · have hne : ¬ s = s' := fun e => hs' e.symm
      simp only [sentTo, execBy, doCall, upd_other _ _ _ _ hs'] at *
      simp [List.filter_append, hne, this]
  · exact h.Q
  · exact h.K
  · exact h.G
  · exact h.R
  · intro hf s'
    have := h.L hf s'
    by_cases hs' : s' = s
    · subst hs'
      rw [hin] at this
      simpa [doCall, noTerm] using this
    · simpa [doCall, upd_other _ _ _ _ hs'] using this
  · intro herr; exact h.S herr

theorem inv_stop (f : α → β) (prog0 : List (Op α)) (st : State α β) (s : Nat)
    (ms : List (Msg α)) (h : Inv f prog0 st) (hin : st.inbox s = .terminate :: ms) :
    Inv f prog0 (doStop st s ms) := by
  have hfin : st.finished = true := by
    cases hf : st.finished with
    | true => rfl
    | false =>
      have := (h.L hf s).2
      rw [hin] at this
      simp [noTerm] at this
  constructor
  · exact h.size2
  · exact h.avail
  · exact h.finProg
  · intro s'
    have := h.A s'
    by_cases hs' : s' = s
    · subst hs'
      rw [hin] at this
      simpa [doStop, calls] using this
    · simpa [doStop, upd_other _ _ _ _ hs'] using this
  · intro s'
    have := h.E s'
    by_cases hs' : s' = s
    · subst hs'
      rw [hin] at this
      simpa [sentTo, execBy, doStop, calls] using this
    · simpa [sentTo, execBy, doStop, upd_other _ _ _ _ hs'] using this
  · exact h.Q
  · exact h.K
  · exact h.G
  · exact h.R
  · intro hf; simp [doStop, hfin] at hf
  · intro herr; exact h.S herr

theorem inv_getStep (f : α → β) (prog0 : List (Op α)) (st st' : State α β) (id : Nat)
    (rest : List (Op α)) (h : Inv f prog0 st) (hfin : st.finished = false)
    (hstep : getStep st id rest = some st')
    (hspec : ∀ p, lookup id st.queue = some p → specRun f (st.queue, st.got) st.prog =
      specRun f (eraseId id st.queue, st.got ++ [(id, f p)]) rest) :
    Inv f prog0 st' := by
  have hav : st.available = true := by rw [h.avail, hfin]; rfl
  unfold getStep at hstep
  split at hstep
  · cases hstep; exact inv_fail f prog0 st _ h
  · rename_i src hsrc
    rw [if_pos hav] at hstep
    split at hstep
    · cases hstep; exact inv_fail f prog0 st _ h
    · rename_i x t hsq
      split at hstep
      · cases hstep; exact inv_fail f prog0 st _ h
      · rename_i hx
        have hx : x.1 = id := by simpa using hx
        split at hstep
        · cases hstep
        · rename_i v vs hout
          cases hstep
          have hp := (head_payload f prog0 st h src x t hsq).1
          rw [hx] at hp
          exact (inv_get f prog0 st id src x t v vs rest h hfin hsrc hsq hx hout (hspec _ hp)).1

theorem inv_step (f : α → β) (prog0 : List (Op α)) (st st' : State α β) (c : Nat)
    (h : Inv f prog0 st) (hstep : step f st c = some st') : Inv f prog0 st' := by
  unfold step at hstep
  split at hstep
  · -- the master
    unfold masterStep at hstep
    split at hstep
    · cases hstep
    · rename_i hguard
      have hfin : st.finished = false := by
        cases hf : st.finished with
        | false => rfl
        | true => exact absurd (Or.inl hf) hguard
      have hav : st.available = true := by rw [h.avail, hfin]; rfl
      split at hstep
      · rename_i hprog
        cases hstep; exact inv_terminate f prog0 st h hprog
      · rename_i id p e sl rest hprog
        split at hstep
        · cases hstep; exact inv_fail f prog0 st _ h
        · rename_i hnew
          first
            | rw [if_pos hav] at hstep
            | skip
          cases hstep
          exact inv_submit f prog0 st id p e sl _ rest h hfin hprog (by simpa using hnew)
            (chooseSlave_range st sl h.size2)
      · rename_i id rest hprog
        apply inv_getStep f prog0 st st' id rest h hfin hstep
        intro p hp
        rw [hprog]
        simp [specRun, specStep, hp]
      · rename_i rest hprog
        split at hstep
        · rename_i hq
          cases hstep; exact inv_skip f prog0 st rest h hfin hprog hq
        · rename_i x t hq
          apply inv_getStep f prog0 st st' x.1 rest h hfin hstep
          intro p hp
          rw [hprog, hq]
          rw [hq] at hp
          simp [lookup] at hp
          simp [specRun, specStep, eraseId, hp]
  · -- a slave
    unfold slaveStep at hstep
    split at hstep
    · cases hstep
    · split at hstep
      · cases hstep
      · rename_i ms hin
        cases hstep; exact inv_stop f prog0 st c ms h hin
      · rename_i p e ms hin
        cases hstep; exact inv_call f prog0 st c p e ms h hin

theorem inv_runSched (f : α → β) (prog0 : List (Op α)) (cs : List Nat) (st : State α β)
    (h : Inv f prog0 st) : Inv f prog0 (run f st cs) := by
  unfold run
  induction cs generalizing st with
  | nil => simpa [runSched] using h
  | cons c t ih =>
    simp only [runSched]
    split
    · exact ih st h
    · rename_i st' hst
      exact ih st' (inv_step f prog0 st st' c h hst)

/-! ### progress -/

theorem calls_ne_nil_head (l : List (Msg α)) (hn : noTerm l = true) (hc : calls l ≠ []) :
    ∃ p e ms, l = .call p e :: ms := by
  cases l with
  | nil => simp [calls] at hc
  | cons x t =>
    cases x with
    | call p e => exact ⟨p, e, t, rfl⟩
    | terminate => simp [noTerm] at hn

/-- if `get_result(id)` is blocked in `comm.recv`, the slave it waits for can move -/
theorem blocked_get_slave_enabled (f : α → β) (prog0 : List (Op α)) (st : State α β) (id : Nat)
    (rest : List (Op α)) (h : Inv f prog0 st) (hfin : st.finished = false)
    (hb : getStep st id rest = none) : ∃ s, (slaveStep f st s).isSome = true := by
  unfold getStep at hb
  split at hb
  · cases hb
  · rename_i src hsrc
    split at hb
    · split at hb
      · cases hb
      · rename_i x t hsq
        split at hb
        · cases hb
        · split at hb
          · rename_i hout
            have hA := h.A src
            rw [hsq, hout] at hA
            have hc : calls (st.inbox src) ≠ [] := by
              intro e; rw [e] at hA; simp at hA
            obtain ⟨p, e, ms, hin⟩ := calls_ne_nil_head _ (h.L hfin src).2 hc
            have hr := h.R id src hsrc
            refine ⟨src, ?_⟩
            unfold slaveStep
            have hal := (h.L hfin src).1
            have hg : ¬ (src < 1 ∨ st.size ≤ src ∨ st.alive src = false) := by
              rw [hal]; simp; omega
            rw [if_neg hg, hin]
            rfl
          · cases hb
    · split at hb <;> cases hb

theorem progress (f : α → β) (prog0 : List (Op α)) (st : State α β) (h : Inv f prog0 st)
    (hfin : st.finished = false) (herr : st.err = none) : ∃ c, (step f st c).isSome = true := by
  by_cases hm : (masterStep f st).isSome = true
  · exact ⟨0, by simpa [step] using hm⟩
  · have hnone : masterStep f st = none := by
      cases hms : masterStep f st with
      | none => rfl
      | some v => simp [hms] at hm
    unfold masterStep at hnone
    have hg : ¬ (st.finished = true ∨ st.err.isSome = true) := by simp [hfin, herr]
    rw [if_neg hg] at hnone
    have key : ∃ id rest, getStep st id rest = none := by
      split at hnone
      · cases hnone
      · split at hnone
        · cases hnone
        · split at hnone <;> cases hnone
      · exact ⟨_, _, hnone⟩
      · split at hnone
        · cases hnone
        · exact ⟨_, _, hnone⟩
    obtain ⟨id, rest, hb⟩ := key
    obtain ⟨s, hs⟩ := blocked_get_slave_enabled f prog0 st id rest h hfin hb
    have hs0 : s ≠ 0 := by
      intro e; subst e
      simp [slaveStep] at hs
    exact ⟨s, by simpa [step, hs0] using hs⟩

/-! ### collection in submission order never raises -/

/-- static check of a master program against the list of pending ids: ids submitted are
not pending, every `get_result(id)` asks for the oldest pending id -/
def inOrder : List Nat → List (Op α) → Bool
  | _, [] => true
  | pend, .submit id _ _ _ :: r => !pend.contains id && inOrder (pend ++ [id]) r
  | pend, .get id :: r =>
    (match pend with
     | h :: t => h == id && inOrder t r
     | [] => false)
  | pend, .getNext :: r =>
    (match pend with
     | _ :: t => inOrder t r
     | [] => inOrder [] r)

theorem getStep_oldest (f : α → β) (prog0 : List (Op α)) (st st' : State α β) (x : Nat × α)
    (q' : List (Nat × α)) (rest : List (Op α)) (h : Inv f prog0 st) (hfin : st.finished = false)
    (hq : st.queue = x :: q') (hstep : getStep st x.1 rest = some st') :
    st'.err = st.err ∧ st'.queue = q' ∧ st'.prog = rest := by
  have hav : st.available = true := by rw [h.avail, hfin]; rfl
  have hsome : (lookup x.1 st.assigned).isSome = true := by
    rw [h.K, hq]; simp [lookup]
  obtain ⟨src, hsrc⟩ := Option.isSome_iff_exists.mp hsome
  have hG := h.G src
  rw [hq] at hG
  simp only [List.filter_cons, hsrc, beq_self_eq_true, if_true] at hG
  unfold getStep at hstep
  rw [hsrc] at hstep
  simp only [hav, if_true, hG] at hstep
  split at hstep
  · rename_i hne; exact absurd rfl hne
  · split at hstep
    · cases hstep
    · cases hstep
      simp [doGet, hq, eraseId]

theorem inOrder_step (f : α → β) (prog0 : List (Op α)) (st st' : State α β) (c : Nat)
    (h : Inv f prog0 st) (herr : st.err = none)
    (hio : inOrder (st.queue.map (·.1)) st.prog = true) (hstep : step f st c = some st') :
    st'.err = none ∧ inOrder (st'.queue.map (·.1)) st'.prog = true := by
  unfold step at hstep
  split at hstep
  · unfold masterStep at hstep
    split at hstep
    · cases hstep
    · rename_i hguard
      have hfin : st.finished = false := by
        cases hf : st.finished with
        | false => rfl
        | true => exact absurd (Or.inl hf) hguard
      have hav : st.available = true := by rw [h.avail, hfin]; rfl
      split at hstep
      · rename_i hprog
        cases hstep
        simp [doTerminate, herr, hprog, inOrder]
      · rename_i id p e sl rest hprog
        rw [hprog] at hio
        simp only [inOrder, Bool.and_eq_true, Bool.not_eq_true'] at hio
        have hnew : (lookup id st.assigned).isSome = false := by
          rw [h.K]
          cases hl : (lookup id st.queue).isSome with
          | false => rfl
          | true =>
            have := (lookup_isSome_iff id st.queue).mp hl
            have hc : (st.queue.map (·.1)).contains id = true := by simpa using this
            rw [hc] at hio; simp at hio
        simp only [hnew, hav, if_true] at hstep
        simp only [Bool.false_eq_true, if_false] at hstep
        cases hstep
        simp [doSubmit, herr, hio.2]
      · rename_i id rest hprog
        rw [hprog] at hio
        cases hq : st.queue with
        | nil => rw [hq] at hio; simp [inOrder] at hio
        | cons x q' =>
          rw [hq] at hio
          simp only [List.map_cons, inOrder, Bool.and_eq_true, beq_iff_eq] at hio
          rw [← hio.1] at hstep
          obtain ⟨h1, h2, h3⟩ := getStep_oldest f prog0 st st' x q' rest h hfin hq hstep
          rw [h1, h2, h3]
          exact ⟨herr, hio.2⟩
      · rename_i rest hprog
        rw [hprog] at hio
        split at hstep
        · rename_i hq
          cases hstep
          rw [hq] at hio
          simpa [inOrder, herr, hq] using hio
        · rename_i x q' hq
          rw [hq] at hio
          simp only [List.map_cons, inOrder] at hio
          obtain ⟨h1, h2, h3⟩ := getStep_oldest f prog0 st st' x q' rest h hfin hq hstep
          rw [h1, h2, h3]
          exact ⟨herr, hio⟩
  · unfold slaveStep at hstep
    split at hstep
    · cases hstep
    · split at hstep
      · cases hstep
      · cases hstep; simpa [doStop, herr] using hio
      · cases hstep; simpa [doCall, herr] using hio

theorem inOrder_run (f : α → β) (prog0 : List (Op α)) (cs : List Nat) (st : State α β)
    (h : Inv f prog0 st) (herr : st.err = none)
    (hio : inOrder (st.queue.map (·.1)) st.prog = true) : (run f st cs).err = none := by
  unfold run
  induction cs generalizing st with
  | nil => simpa [runSched] using herr
  | cons c t ih =>
    simp only [runSched]
    split
    · exact ih st h herr hio
    · rename_i st' hst
      obtain ⟨e', io'⟩ := inOrder_step f prog0 st st' c h herr hio hst
      exact ih st' (inv_step f prog0 st st' c h hst) e' io'

/-! ### the single-process mode (`mpi.available == False`) -/

structure SInv (f : α → β) (prog0 : List (Op α)) (st : State α β) : Prop where
  size1 : st.size < 2
  avail : st.available = false
  finProg : st.finished = true → st.prog = []
  Q : (st.queue.map (·.1)).Nodup
  K : ∀ id, (lookup id st.assigned).isSome = (lookup id st.queue).isSome
  Rs : ∀ id p, lookup id st.queue = some p → lookup id st.results = some (f p)
  S : st.err = none → specRun f (st.queue, st.got) st.prog = specRun f ([], []) prog0

theorem sinv_init (f : α → β) (size : Nat) (prog : List (Op α)) (h : size < 2) :
    SInv f prog (init (β := β) size prog) := by
  constructor <;> simp [init, lookup] <;> omega

theorem sinv_step (f : α → β) (prog0 : List (Op α)) (st st' : State α β) (c : Nat)
    (h : SInv f prog0 st) (hstep : step f st c = some st') : SInv f prog0 st' := by
  unfold step at hstep
  split at hstep
  · unfold masterStep at hstep
    split at hstep
    · cases hstep
    · rename_i hguard
      have hfin : st.finished = false := by
        cases hf : st.finished with
        | false => rfl
        | true => exact absurd (Or.inl hf) hguard
      have hav := h.avail
      split at hstep
      · rename_i hprog
        cases hstep
        exact ⟨h.size1, rfl, fun _ => hprog, h.Q, h.K, h.Rs, h.S⟩
      · rename_i id p e sl rest hprog
        split at hstep
        · cases hstep
          exact ⟨h.size1, h.avail, h.finProg, h.Q, h.K, h.Rs, by simp [doFail]⟩
        · rename_i hnew
          simp only [hav] at hstep
          cases hstep
          have hnewq : (lookup id st.queue).isSome = false := by rw [← h.K]; simpa using hnew
          have hnot : id ∉ st.queue.map (·.1) := by
            intro hm
            have := (lookup_isSome_iff id st.queue).mpr hm
            simp [hnewq] at this
          refine ⟨h.size1, h.avail, ?_, ?_, ?_, ?_, ?_⟩
          · intro hf; simp [doSubmitLocal, hfin] at hf
          · simp only [doSubmitLocal, List.map_append, List.map_cons, List.map_nil]
            refine List.nodup_append.mpr ⟨h.Q, by simp, ?_⟩
            intro a ha b hb
            simp at hb
            subst hb
            intro e; exact hnot (e ▸ ha)
          · intro id'
            simp only [doSubmitLocal, lookup_append, isSome_or, h.K id']
            by_cases hid : id = id' <;> simp [lookup, hid]
          · intro id' p' hl
            simp only [doSubmitLocal, lookup_append] at hl
            simp only [doSubmitLocal, lookup]
            cases hq : lookup id' st.queue with
            | some v =>
              rw [hq] at hl; simp at hl; subst hl
              have : ¬ id = id' := by
                intro e; subst e; simp [hq] at hnewq
              simp [this, h.Rs id' v hq]
            | none =>
              rw [hq] at hl
              by_cases hid : id = id'
              · simp [lookup, hid] at hl; subst hl; simp [hid]
              · simp [lookup, hid] at hl
          · intro herr
            have := h.S (by simpa [doSubmitLocal] using herr)
            rw [← this, hprog]
            simp only [doSubmitLocal, specRun, specStep, hnewq]
            simp
      all_goals
        -- `get id` and `get_next_result`
        have hget : ∀ id rest, getStep st id rest = some st' →
            (∀ p, lookup id st.queue = some p → specRun f (st.queue, st.got) st.prog =
              specRun f (eraseId id st.queue, st.got ++ [(id, f p)]) rest) →
            SInv f prog0 st' := by
          intro id rest hs hspec
          unfold getStep at hs
          split at hs
          · cases hs
            exact ⟨h.size1, h.avail, h.finProg, h.Q, h.K, h.Rs, by simp [doFail]⟩
          · rename_i src hsrc
            rw [if_neg (by simp [hav])] at hs
            split at hs
            · cases hs
              exact ⟨h.size1, h.avail, h.finProg, h.Q, h.K, h.Rs, by simp [doFail]⟩
            · rename_i v hv
              cases hs
              have hsome : (lookup id st.queue).isSome = true := by rw [← h.K, hsrc]; rfl
              obtain ⟨p, hp⟩ := Option.isSome_iff_exists.mp hsome
              have hvp : v = f p := by
                have := h.Rs id p hp; rw [hv] at this; exact Option.some.inj this
              refine ⟨h.size1, h.avail, ?_, ?_, ?_, ?_, ?_⟩
              · intro hf; simp [doGetLocal, hfin] at hf
              · simp only [doGetLocal]
                exact List.Nodup.sublist (List.Sublist.map _ (eraseId_sublist id st.queue)) h.Q
              · intro id'
                simp only [doGetLocal, eraseId_eq_filter id st.queue h.Q, lookup_filter_ne]
                by_cases hid : id' = id <;> simp [hid, h.K id']
              · intro id' p' hl
                simp only [doGetLocal, eraseId_eq_filter id st.queue h.Q, lookup_filter_ne] at hl
                simp only [doGetLocal]
                split at hl
                · simp at hl
                · exact h.Rs id' p' hl
              · intro herr
                have := h.S (by simpa [doGetLocal] using herr)
                rw [← this, hspec p hp]
                simp [doGetLocal, hvp]
      · rename_i id rest hprog
        apply hget id rest hstep
        intro p hp
        rw [hprog]
        simp [specRun, specStep, hp]
      · rename_i rest hprog
        split at hstep
        · rename_i hq
          cases hstep
          refine ⟨h.size1, h.avail, ?_, h.Q, h.K, h.Rs, ?_⟩
          · intro hf; simp [hfin] at hf
          · intro herr
            have := h.S herr
            rw [← this, hprog, hq]
            simp [specRun, specStep]
        · rename_i x t hq
          apply hget x.1 rest hstep
          intro p hp
          rw [hprog, hq]
          rw [hq] at hp
          simp [lookup] at hp
          simp [specRun, specStep, eraseId, hp]
  · unfold slaveStep at hstep
    have := h.size1
    have hg : c < 1 ∨ st.size ≤ c ∨ st.alive c = false := by omega
    rw [if_pos hg] at hstep
    cases hstep

theorem sinv_runSched (f : α → β) (prog0 : List (Op α)) (cs : List Nat) (st : State α β)
    (h : SInv f prog0 st) : SInv f prog0 (run f st cs) := by
  unfold run
  induction cs generalizing st with
  | nil => simpa [runSched] using h
  | cons c t ih =>
    simp only [runSched]
    split
    · exact ih st h
    · rename_i st' hst
      exact ih st' (sinv_step f prog0 st st' c h hst)

end Pyunicorn.MpiProto
