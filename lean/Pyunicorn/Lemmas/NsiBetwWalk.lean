import Pyunicorn.Lemmas.NsiBfs
import Pyunicorn.Lemmas.NetDist
/-!
Bridge between the two walk predicates (`Nsi.Walk`, cons-based with all nodes in range, and
`Net.Walk`, snoc-based) and, through it, between C03's breadth-first distance `Net.dist` and the
`IsDist` specification of the n.s.i. model.
-/
namespace Pyunicorn.Nsi
open Pyunicorn

/-- append a link at the end of an `Nsi.Walk` -/
theorem Walk.snoc {G : Gr} {a b c k : Nat} (w : Walk G a b k) (hbc : G.adj b c = true)
    (hc : c < G.n) : Walk G a c (k + 1) := by
  induction w with
  | nil a ha => exact Walk.cons a c c 0 ha hbc (Walk.nil c hc)
  | cons a b d k ha hab _ ih => exact Walk.cons a b c (k + 1) ha hab (ih hbc)

/-- prepend a link at the start of a `Net.Walk` -/
theorem netWalk_cons {n : Nat} {adj : Net.Adj} {a b c k : Nat} (ha : a < n)
    (hab : adj a b = true) (w : Net.Walk n adj b c k) : Net.Walk n adj a c (k + 1) := by
  induction w with
  | nil => exact Net.Walk.snoc (Net.Walk.nil a) ha hab
  | snoc _ hw hwv ih => exact Net.Walk.snoc ih hw hwv

theorem netWalk_of_walk {G : Gr} {a b k : Nat} (w : Walk G a b k) :
    Net.Walk G.n G.adj a b k := by
  induction w with
  | nil a _ => exact Net.Walk.nil a
  | cons a b c k ha hab _ ih => exact netWalk_cons ha hab ih

theorem walk_of_netWalk {G : Gr} {a b k : Nat} (w : Net.Walk G.n G.adj a b k) (hb : b < G.n) :
    Walk G a b k := by
  induction w with
  | nil => exact Walk.nil _ hb
  | snoc _ hw hwv ih => exact Walk.snoc (ih hw) hwv hb

/-- the two walk predicates agree inside the node range -/
theorem walk_iff_netWalk (G : Gr) (a b k : Nat) (ha : a < G.n) (hb : b < G.n) :
    Walk G a b k ↔ Net.Walk G.n G.adj a b k := by
  have _ := ha
  exact ⟨netWalk_of_walk, fun w => walk_of_netWalk w hb⟩

/-- `Net.dist` satisfies the `IsDist` specification of the graph it is computed from -/
theorem netDist_isDist (G : Gr) (a b : Nat) (ha : a < G.n) (hb : b < G.n) :
    IsDist G a b (Net.dist G.n G.adj a b) := by
  cases h : Net.dist G.n G.adj a b with
  | none =>
    intro k w
    exact (Net.DistL.dist_none_iff G.n G.adj a b ha hb).mp h k (netWalk_of_walk w)
  | some d =>
    obtain ⟨w, hmin⟩ := (Net.DistL.dist_some_iff G.n G.adj a b d ha hb).mp h
    refine ⟨walk_of_netWalk w hb, fun k wk => ?_⟩
    apply Classical.byContradiction
    intro hlt
    exact hmin k (by omega) (netWalk_of_walk wk)

/-- the graph with C03's breadth-first distance matrix `Net.dist` installed -/
def withNetDist (G : Gr) : Gr := { G with dist := Net.dist G.n G.adj }

theorem withNetDist_n (G : Gr) : (withNetDist G).n = G.n := rfl
theorem withNetDist_adj (G : Gr) : (withNetDist G).adj = G.adj := rfl
theorem withNetDist_w (G : Gr) : (withNetDist G).w = G.w := rfl
theorem withNetDist_dist (G : Gr) : (withNetDist G).dist = Net.dist G.n G.adj := rfl

theorem withNetDist_isDist (G : Gr) (a b : Nat) (ha : a < G.n) (hb : b < G.n) :
    IsDist (withNetDist G) a b ((withNetDist G).dist a b) :=
  isDist_congr (G := G) (H := withNetDist G) rfl rfl (netDist_isDist G a b ha hb)

/-- `Net.dist` agrees with any distance function that is `IsDist` -/
theorem netDist_eq_of_isDist (G : Gr) (a b : Nat) (ha : a < G.n) (hb : b < G.n)
    (x : Option Nat) (hx : IsDist G a b x) : Net.dist G.n G.adj a b = x :=
  isDist_unique (netDist_isDist G a b ha hb) hx

end Pyunicorn.Nsi
