import Pyunicorn.Model.Coupling4
import Pyunicorn.Lemmas.Coupling3
import Mathlib.Tactic.LinearCombination
/-!
# C10 round 4: the Schur-complement identity over ℚ

`P = C⁻¹` (one-sided: `C · P = I` on the indices `< N`).  Eliminating the confounds one after the
other (`pcovG`) keeps the invariant "`P`, restricted to the indices not yet eliminated, is a right
inverse of the current Schur complement" (`schur_inv`).  When only `i` and `j` are left this is a
`2 × 2` system, solved in `schur2`.  For a Gram matrix all pivots are non-zero *because* an inverse
exists (`gram_pivots`), so no regularity hypothesis is left.
-/
namespace Pyunicorn.Coupling

/-- sum over the indices `k < N` that are not in `zs` -/
def msum (N : Nat) (zs : List Nat) (f : Nat → Rat) : Rat :=
  sumTo N (fun k => if k ∈ zs then 0 else f k)

theorem sumTo_single' (N w : Nat) (c : Rat) :
    sumTo N (fun k => if k = w then c else 0) = if w < N then c else 0 := by
  induction N with
  | zero => simp [sumTo]
  | succ N ih =>
    rw [sumTo, ih]
    by_cases h : w < N
    · have h1 : N ≠ w := by omega
      have h2 : w < N + 1 := by omega
      simp [h, h1, h2]
    · by_cases e : N = w
      · subst e; simp
      · have h2 : ¬ w < N + 1 := by omega
        simp [h, e, h2]

theorem sumTo_single (N w : Nat) (c : Rat) (hw : w < N) :
    sumTo N (fun k => if k = w then c else 0) = c := by
  rw [sumTo_single', if_pos hw]

theorem msum_nil (N : Nat) (f : Nat → Rat) : msum N [] f = sumTo N f := by
  unfold msum; simp

theorem msum_cons (N w : Nat) (zs : List Nat) (f : Nat → Rat) (hw : w < N) (hz : w ∉ zs) :
    msum N (w :: zs) f = msum N zs f - f w := by
  unfold msum
  have e : (fun k => if k ∈ zs then (0 : Rat) else f k) =
      fun k => (if k ∈ w :: zs then 0 else f k) + (if k = w then f w else 0) := by
    funext k
    by_cases hk : k = w
    · subst hk; simp [hz]
    · simp [hk]
  rw [e, sumTo_add, sumTo_single N w (f w) hw]; ring

theorem msum_lin (N : Nat) (zs : List Nat) (f g : Nat → Rat) (c : Rat) :
    msum N zs (fun k => f k - c * g k) = msum N zs f - c * msum N zs g := by
  unfold msum
  have e : (fun k => if k ∈ zs then (0 : Rat) else f k - c * g k) =
      fun k => (if k ∈ zs then 0 else f k) + (-c) * (if k ∈ zs then 0 else g k) := by
    funext k; split <;> ring
  rw [e, sumTo_add, sumTo_mul_left]; ring

theorem msum_zero (N : Nat) (zs : List Nat) (f : Nat → Rat) (h : ∀ k, f k = 0) : msum N zs f = 0 := by
  unfold msum
  have e : (fun k => if k ∈ zs then (0 : Rat) else f k) = fun _ => 0 := by
    funext k; simp [h k]
  rw [e, sumTo_const]; ring

/-- only `i` and `j` are left -/
theorem msum_two (N i j : Nat) (zs : List Nat) (f : Nat → Rat) (hi : i < N) (hj : j < N) (hij : i ≠ j)
    (hz : ∀ k, k < N → (k ∈ zs ↔ (k ≠ i ∧ k ≠ j))) : msum N zs f = f i + f j := by
  unfold msum
  have e : ∀ k, k < N → (if k ∈ zs then (0 : Rat) else f k) =
      (if k = i then f i else 0) + (if k = j then f j else 0) := by
    intro k hk
    by_cases h1 : k = i
    · subst h1
      have : k ∉ zs := fun h => ((hz k hk).mp h).1 rfl
      simp [this, hij]
    · by_cases h2 : k = j
      · subst h2
        have : k ∉ zs := fun h => ((hz k hk).mp h).2 rfl
        simp [this, h1]
      · have : k ∈ zs := (hz k hk).mpr ⟨h1, h2⟩
        simp [this, h1, h2]
  rw [sumTo_congr e, sumTo_add, sumTo_single N i (f i) hi, sumTo_single N j (f j) hj]

/-- `P`, restricted to the indices `< N` outside `zs`, is a right inverse of `G` there -/
def InvOn (N : Nat) (P G : Nat → Nat → Rat) (zs : List Nat) : Prop :=
  ∀ a b, a < N → b < N → a ∉ zs → b ∉ zs →
    msum N zs (fun k => G a k * P k b) = if a = b then 1 else 0

/-- **one elimination step**: the block of the inverse outside `w` is the inverse of the Schur
complement with respect to `w` -/
theorem schur_step (N : Nat) (P G : Nat → Nat → Rat) (hG : ∀ a b, G a b = G b a) (zs : List Nat)
    (h : InvOn N P G zs) (w : Nat) (hw : w < N) (hz : w ∉ zs) (hd : G w w ≠ 0) :
    InvOn N P (fun a b => G a b - G a w * G b w / G w w) (w :: zs) := by
  intro a b ha hb haz hbz
  have haz' : a ∉ zs := fun e => haz (List.mem_cons_of_mem _ e)
  have hbz' : b ∉ zs := fun e => hbz (List.mem_cons_of_mem _ e)
  have hbw : w ≠ b := fun e => hbz (by rw [← e]; exact List.mem_cons_self)
  rw [msum_cons N w zs _ hw hz]
  have e : (fun k => (G a k - G a w * G k w / G w w) * P k b) =
      fun k => G a k * P k b - (G a w / G w w) * (G w k * P k b) := by
    funext k; rw [hG k w]; ring
  rw [e, msum_lin, h a b ha hb haz' hbz', h w b hw hb hz hbz', if_neg hbw]
  have : G a w - G a w * G w w / G w w = 0 := by field_simp; ring
  simp only [mul_zero, sub_zero]
  rw [this]; ring

/-- **the block of the inverse is the inverse of the Schur complement** (any symmetric `C`,
regular pivots, distinct confounds `< N`) -/
theorem schur_inv (N : Nat) (P C : Nat → Nat → Rat) (hC : ∀ a b, C a b = C b a)
    (hinv : InvOn N P C []) (zs : List Nat) (hnd : zs.Nodup) (hlt : ∀ z ∈ zs, z < N)
    (hp : Pivots C zs) : InvOn N P (pcovG C zs) zs := by
  induction zs with
  | nil => exact hinv
  | cons w zs ih =>
    obtain ⟨hw, hrest⟩ := hp
    have hnd' := List.nodup_cons.mp hnd
    have ih' := ih hnd'.2 (fun z hz => hlt z (List.mem_cons_of_mem _ hz)) hrest
    have hstep := schur_step N P (pcovG C zs) (pcovG_symm C hC zs) zs ih' w
      (hlt w List.mem_cons_self) hnd'.1 hw
    intro a b ha hb haz hbz
    have := hstep a b ha hb haz hbz
    simp only [pcovG, if_neg hw]
    exact this

/-- a Gram matrix that has an inverse has no vanishing pivot -/
theorem gram_pivots (n N : Nat) (r : Nat → Nat → Rat) (P : Nat → Nat → Rat)
    (hinv : InvOn N P (fun a b => dotTo n (r a) (r b)) []) (zs : List Nat) (hnd : zs.Nodup)
    (hlt : ∀ z ∈ zs, z < N) : Pivots (fun a b => dotTo n (r a) (r b)) zs := by
  induction zs with
  | nil => trivial
  | cons w zs ih =>
    have hnd' := List.nodup_cons.mp hnd
    have hlt' : ∀ z ∈ zs, z < N := fun z hz => hlt z (List.mem_cons_of_mem _ hz)
    have hp := ih hnd'.2 hlt'
    refine ⟨?_, hp⟩
    intro h0
    have hS := schur_inv N P _ (fun a b => dotTo_comm n (r a) (r b)) hinv zs hnd'.2 hlt' hp
    have hw := hlt w List.mem_cons_self
    have h1 := hS w w hw hw hnd'.1 hnd'.1
    rw [if_pos rfl] at h1
    have hz : ∀ k, pcovG (fun a b => dotTo n (r a) (r b)) zs w k * P k w = 0 := by
      intro k
      have hcs := sumTo_cauchy_schwarz n (resid n r zs w) (resid n r zs k)
      rw [pcovG_eq_resid] at h0 ⊢
      have h0' : sumTo n (fun t => resid n r zs w t * resid n r zs w t) = 0 := h0
      rw [h0', zero_mul] at hcs
      have : dotTo n (resid n r zs w) (resid n r zs k) = 0 := by
        have hsq := mul_self_nonneg (dotTo n (resid n r zs w) (resid n r zs k))
        have : dotTo n (resid n r zs w) (resid n r zs k) * dotTo n (resid n r zs w) (resid n r zs k) = 0 :=
          le_antisymm hcs hsq
        exact mul_self_eq_zero.mp this
      rw [this, zero_mul]
    rw [msum_zero N zs _ hz] at h1
    exact absurd h1 (by norm_num)

/-- the `2 × 2` system left at the end -/
theorem schur2 (u v s pii pij pji pjj : Rat) (hu : 0 ≤ u) (hv : 0 ≤ v) (hcs : s * s ≤ u * v)
    (e1 : u * pii + s * pji = 1) (e2 : u * pij + s * pjj = 0)
    (e3 : s * pii + v * pji = 0) (e4 : s * pij + v * pjj = 1) :
    (if rabs (pii * pjj) = 0 then 0 else sgn (-pij) * (pij * pij) / rabs (pii * pjj)) =
      if u = 0 ∨ v = 0 then 0 else sgn s * (s * s) / (u * v) := by
  have hD1 : (u * v - s * s) * pii = v := by linear_combination v * e1 - s * e3
  have hD2 : (u * v - s * s) * pjj = u := by linear_combination u * e4 - s * e2
  have hD3 : (u * v - s * s) * pij = -s := by linear_combination v * e2 - s * e4
  have hDne : u * v - s * s ≠ 0 := by
    intro h0
    rw [h0, zero_mul] at hD1 hD2 hD3
    have hs : s = 0 := by linarith
    rw [← hD2, hs] at e1
    simp at e1
  have hD : 0 < u * v - s * s := lt_of_le_of_ne (by linarith) (Ne.symm hDne)
  have huv : 0 < u * v := by nlinarith [mul_self_nonneg s]
  have hu' : 0 < u := by
    rcases eq_or_lt_of_le hu with h | h
    · rw [← h] at huv; simp at huv
    · exact h
  have hv' : 0 < v := by
    rcases eq_or_lt_of_le hv with h | h
    · rw [← h] at huv; simp at huv
    · exact h
  have p1 : pii = v / (u * v - s * s) := by rw [eq_div_iff hDne]; linarith
  have p2 : pjj = u / (u * v - s * s) := by rw [eq_div_iff hDne]; linarith
  have p3 : pij = -s / (u * v - s * s) := by rw [eq_div_iff hDne]; linarith
  have hpos : 0 < pii * pjj := by rw [p1, p2]; positivity
  have hr : rabs (pii * pjj) = pii * pjj := by
    unfold rabs; rw [if_neg (not_lt.mpr (le_of_lt hpos))]
  have hsg : sgn (-pij) = sgn s := by
    have : -pij = s / (u * v - s * s) := by rw [p3]; ring
    rw [this]
    unfold sgn
    by_cases hn : s < 0
    · rw [if_pos hn, if_pos (div_neg_of_neg_of_pos hn hD)]
    · rw [if_neg hn, if_neg (not_lt.mpr (div_nonneg (not_lt.mp hn) (le_of_lt hD)))]
  rw [hr, hsg, if_neg (ne_of_gt hpos), if_neg (by
    intro h; rcases h with h | h
    · exact (ne_of_gt hu') h
    · exact (ne_of_gt hv') h)]
  have hDne' : u * v - s ^ 2 ≠ 0 := by rw [pow_two]; exact hDne
  rw [p1, p2, p3]
  field_simp

theorem othersOf_nodup (N i j : Nat) : (othersOf N i j).Nodup :=
  List.Nodup.filter _ List.nodup_range

theorem mem_othersOf (N i j k : Nat) : k ∈ othersOf N i j ↔ (k < N ∧ k ≠ i ∧ k ≠ j) := by
  unfold othersOf
  simp [List.mem_filter]

theorem isInverse_iff (C P : Nat → Nat → Rat) (N : Nat) :
    isInverse C P N = true ↔ InvOn N P C [] := by
  unfold isInverse InvOn
  simp only [List.all_eq_true, List.mem_range, decide_eq_true_eq, msum_nil]
  constructor
  · intro h a b ha hb _ _; exact h a ha b hb
  · intro h a ha b hb; exact h a b ha hb (by simp) (by simp)

/-- **Schur-complement identity** on the Gram matrix of any rows: if `P` is a (right) inverse of
the Gram matrix then `-P_ij / sqrt(|P_ii P_jj|)` is the partial correlation of rows `i`, `j` given
all other rows (both as signed squares) -/
theorem normInv_eq_parCorr_gram (n N : Nat) (r : Nat → Nat → Rat) (P : Nat → Nat → Rat)
    (hinv : isInverse (fun a b => dotTo n (r a) (r b)) P N = true) (i j : Nat) (hi : i < N)
    (hj : j < N) (hij : i ≠ j) :
    normInvSq P i j = parCorrSqG (fun a b => dotTo n (r a) (r b)) (othersOf N i j) i j := by
  have hI := (isInverse_iff _ P N).mp hinv
  have hlt : ∀ z ∈ othersOf N i j, z < N := fun z hz => ((mem_othersOf N i j z).mp hz).1
  have hnd := othersOf_nodup N i j
  have hp := gram_pivots n N r P hI _ hnd hlt
  have hsym : ∀ a b, (fun a b => dotTo n (r a) (r b)) a b = (fun a b => dotTo n (r a) (r b)) b a :=
    fun a b => dotTo_comm n (r a) (r b)
  have hS := schur_inv N P _ hsym hI _ hnd hlt hp
  have hio : i ∉ othersOf N i j := fun h => ((mem_othersOf N i j i).mp h).2.1 rfl
  have hjo : j ∉ othersOf N i j := fun h => ((mem_othersOf N i j j).mp h).2.2 rfl
  have hz : ∀ k, k < N → (k ∈ othersOf N i j ↔ (k ≠ i ∧ k ≠ j)) := by
    intro k hk; rw [mem_othersOf]; exact ⟨fun h => h.2, fun h => ⟨hk, h⟩⟩
  have e1 := hS i i hi hi hio hio
  have e2 := hS i j hi hj hio hjo
  have e3 := hS j i hj hi hjo hio
  have e4 := hS j j hj hj hjo hjo
  rw [msum_two N i j _ _ hi hj hij hz] at e1 e2 e3 e4
  rw [if_pos rfl] at e1 e4
  rw [if_neg hij] at e2
  rw [if_neg (Ne.symm hij)] at e3
  have hji := pcovG_symm _ hsym (othersOf N i j) j i
  rw [hji] at e3 e4
  unfold normInvSq parCorrSqG
  generalize hS' : pcovG (fun a b => dotTo n (r a) (r b)) (othersOf N i j) = S at *
  have hu : 0 ≤ S i i := by rw [← hS', pcovG_eq_resid]; exact dotTo_self_nonneg _ _
  have hv : 0 ≤ S j j := by rw [← hS', pcovG_eq_resid]; exact dotTo_self_nonneg _ _
  have hcs : S i j * S i j ≤ S i i * S j j := by
    rw [← hS', pcovG_eq_resid, pcovG_eq_resid, pcovG_eq_resid]
    exact sumTo_cauchy_schwarz n _ _
  exact schur2 (S i i) (S j j) (S i j) (P i i) (P i j) (P j i) (P j j) hu hv hcs e1 e2 e3 e4


/-! ### the Gram table of `itSq` -/

theorem tabFn_itGramTab (x : Nat → Nat → Rat) (T tauMax past : Nat) (nodes : List (Nat × Nat))
    (a b : Nat) (ha : a < nodes.length) (hb : b < nodes.length) :
    tabFn (itGramTab x T tauMax past nodes) a b = itGramFn x T tauMax past nodes a b := by
  unfold tabFn itGramTab itGramFn
  simp [Array.getD, ha, hb]

theorem pcovG_congr (G G' : Nat → Nat → Rat) (m : Nat) (h : ∀ p q, p < m → q < m → G p q = G' p q)
    (zs : List Nat) (hz : ∀ z ∈ zs, z < m) (a b : Nat) (ha : a < m) (hb : b < m) :
    pcovG G zs a b = pcovG G' zs a b := by
  induction zs generalizing a b with
  | nil => exact h a b ha hb
  | cons w zs ih =>
    have hw : w < m := hz w List.mem_cons_self
    have hz' : ∀ z ∈ zs, z < m := fun z hz1 => hz z (List.mem_cons_of_mem _ hz1)
    simp only [pcovG, ih hz' w w hw hw, ih hz' a b ha hb, ih hz' a w ha hw, ih hz' b w hb hw]

theorem itConf_lt (m : Nat) : ∀ z ∈ itConf m, z < m := by
  intro z hz
  unfold itConf at hz
  simp only [List.mem_map, List.mem_range] at hz
  obtain ⟨p, hp, rfl⟩ := hz
  omega

theorem itSq_eq_fn (x : Nat → Nat → Rat) (T tauMax past : Nat) (mit : Bool) (i j tau : Nat) :
    itSq x T tauMax past mit i j tau = itSqFn x T tauMax past mit i j tau := by
  unfold itSq itSqFn parCorrSqG
  have hl : 2 ≤ (itNodes mit i j tau past).length := by rw [itNodes_length]; omega
  have hc := pcovG_congr (tabFn (itGramTab x T tauMax past (itNodes mit i j tau past)))
    (itGramFn x T tauMax past (itNodes mit i j tau past)) (itNodes mit i j tau past).length
    (fun p q hp hq => tabFn_itGramTab x T tauMax past _ p q hp hq) (itConf _) (itConf_lt _)
  simp only [itConf] at hc
  simp only [itConf, hc 0 1 (by omega) (by omega), hc 0 0 (by omega) (by omega), hc 1 1 (by omega) (by omega)]
  rfl

/-- the entry read through the table is bounded -/
theorem itSq_bounded' (x : Nat → Nat → Rat) (T tauMax past : Nat) (mit : Bool) (i j tau : Nat) :
    -1 ≤ itSq x T tauMax past mit i j tau ∧ itSq x T tauMax past mit i j tau ≤ 1 := by
  rw [itSq_eq_fn]
  exact parCorrSqG_bounded (T - (tauMax + past))
    (fun a k => itRow x (tauMax + past) ((itNodes mit i j tau past).getD a (0, 0)) k -
      meanTo (T - (tauMax + past)) (itRow x (tauMax + past) ((itNodes mit i j tau past).getD a (0, 0))))
    (itConf (itNodes mit i j tau past).length) 0 1

end Pyunicorn.Coupling
