import Pyunicorn.Model.Events
import Mathlib.Data.List.Forall2
/-! C16 (round 3): histories of `event_series_analysis(method='ES')` calls on one object whose
directed matrix is memoised and handed around by reference (`ObjState`, `analysisStep`,
`runHistory` of `Model/Events.lean`).  -/
namespace Pyunicorn.Events

/-- the memoised array, if any, holds the directed matrix -/
def CacheOk {α} (compute : α) (st : ObjState α) : Prop :=
  ∀ a, st.cache = some a → st.heap[a]? = some compute

/-- arrays that exist keep their address and content -/
def HeapExtends {α} (h h' : List α) : Prop := ∀ (i : Nat) (v : α), h[i]? = some v → h'[i]? = some v

theorem heapExtends_refl {α} (h : List α) : HeapExtends h h := fun _ _ hv => hv

theorem heapExtends_trans {α} {a b c : List α} (h1 : HeapExtends a b) (h2 : HeapExtends b c) :
    HeapExtends a c := fun i v hv => h2 i v (h1 i v hv)

theorem heapExtends_append {α} (h t : List α) : HeapExtends h (h ++ t) := by
  intro i v hv
  have hi : i < h.length := by
    rcases Nat.lt_or_ge i h.length with hlt | hge
    · exact hlt
    · rw [List.getElem?_eq_none hge] at hv; cases hv
  rw [List.getElem?_append_left hi]
  exact hv

/-- **one call.**  If no helper stores into its argument and a helper that does not allocate
returns its argument unchanged, a call leaves the memoised matrix intact, returns an array
holding `apply s compute`, and changes no existing array. -/
theorem analysisStep_ok {α} (compute : α) (apply : Symm → α → α) (hp : Symm → SymHelper)
    (hpure : ∀ s, (hp s).writesArg = false)
    (hid : ∀ s, (hp s).fresh = false → ∀ m, apply s m = m)
    (st : ObjState α) (hinv : CacheOk compute st) (s : Symm) :
    CacheOk compute (analysisStep compute apply hp st s).1 ∧
    (analysisStep compute apply hp st s).1.heap[(analysisStep compute apply hp st s).2]?
      = some (apply s compute) ∧
    HeapExtends st.heap (analysisStep compute apply hp st s).1.heap := by
  unfold analysisStep
  cases hc : st.cache with
  | none =>
    simp only [hpure s]
    have h1 : (st.heap ++ [compute])[st.heap.length]? = some compute := by simp
    rw [h1]
    simp only [Bool.false_eq_true, if_false]
    cases hf : (hp s).fresh with
    | true =>
      simp only [if_true]
      refine ⟨?_, by simp, ?_⟩
      · intro a ha
        simp only [Option.some.injEq] at ha
        subst ha
        simp
      · exact heapExtends_trans (heapExtends_append _ _) (heapExtends_append _ _)
    | false =>
      simp only [Bool.false_eq_true, if_false]
      refine ⟨?_, ?_, heapExtends_append _ _⟩
      · intro a ha
        simp only [Option.some.injEq] at ha
        subst ha
        exact h1
      · rw [h1, hid s hf]
  | some a0 =>
    have h1 : st.heap[a0]? = some compute := hinv a0 hc
    simp only [hpure s, h1]
    simp only [Bool.false_eq_true, if_false]
    cases hf : (hp s).fresh with
    | true =>
      simp only [if_true]
      refine ⟨?_, by simp, heapExtends_append _ _⟩
      intro a ha
      simp only [Option.some.injEq] at ha
      subst ha
      exact heapExtends_append _ _ _ _ h1
    | false =>
      simp only [Bool.false_eq_true, if_false]
      refine ⟨?_, ?_, heapExtends_refl _⟩
      · intro a ha
        simp only [Option.some.injEq] at ha
        subst ha
        exact h1
      · rw [h1, hid s hf]

/-- **every history.**  After any sequence of calls on one object, *every* array that was
returned — also those returned earlier, also the memoised one returned by reference — holds
the symmetrisation of the directed matrix that a fresh object would return for that call. -/
theorem runHistory_ok {α} (compute : α) (apply : Symm → α → α) (hp : Symm → SymHelper)
    (hpure : ∀ s, (hp s).writesArg = false)
    (hid : ∀ s, (hp s).fresh = false → ∀ m, apply s m = m)
    (hist : List Symm) (st : ObjState α) (hinv : CacheOk compute st) :
    CacheOk compute (runHistory compute apply hp st hist).1 ∧
    List.Forall₂ (fun s a => (runHistory compute apply hp st hist).1.heap[a]?
        = some (apply s compute)) hist (runHistory compute apply hp st hist).2 ∧
    HeapExtends st.heap (runHistory compute apply hp st hist).1.heap := by
  induction hist generalizing st with
  | nil => exact ⟨hinv, List.Forall₂.nil, heapExtends_refl _⟩
  | cons s t ih =>
    obtain ⟨i1, r1, e1⟩ := analysisStep_ok compute apply hp hpure hid st hinv s
    obtain ⟨i2, r2, e2⟩ := ih (analysisStep compute apply hp st s).1 i1
    simp only [runHistory]
    exact ⟨i2, List.Forall₂.cons (e2 _ _ r1) r2, heapExtends_trans e1 e2⟩

/-- a fresh object: nothing allocated, nothing memoised -/
def freshObj {α} : ObjState α := ⟨[], none⟩

theorem freshObj_ok {α} (compute : α) : CacheOk compute (freshObj : ObjState α) := by
  intro a ha; cases ha

end Pyunicorn.Events
