import Pyunicorn.Model.Random
/-!
C17: closed forms of what `Model/Random.lean` executes through the *generated* definitions
(`Generated/StructC17.lean`, regenerated from `numerics.pyx` / `interacting_networks.py` on every
run), each proved equal to the executed definition.  All other lemmas and the property theorems
work with the closed forms; an edit of a condition, of a subscript, of a written value or of the
order of the writes in the source makes one of the equalities below (or a theorem that relies on
the changed content) fail.
-/
namespace Pyunicorn.Random
open Pyunicorn.Generated.StructC17

/-- `abs(D[a,b] - D[c,d]) < eps` -/
def near (D : Nat → Nat → Int) (eps : Int) (a b c d : Nat) : Bool :=
  decide (D a b - D c d < eps) && decide (D c d - D a b < eps)

/-- condition C1 (`cond_len_c1`) -/
def condC1 (D : Nat → Nat → Int) (eps : Int) (s t k l : Nat) : Bool :=
  (near D eps s t k t && near D eps k l s l) || (near D eps s t s l && near D eps k l k t)

/-- condition C2 (`cond_len_c2`) -/
def condC2 (D : Nat → Nat → Int) (eps : Int) (s t k l : Nat) : Bool :=
  near D eps s t s l && near D eps t s t k && near D eps k l k t && near D eps l k l s

def condLen (c : GeoCfg) (s t k l : Nat) : Bool :=
  match c.mode with
  | .I => condC1 c.D c.eps s t k l
  | _ => condC2 c.D c.eps s t k l

/-- `cond_deg is NULL or cond_deg(degree, s, t, k, l)` -/
def condDeg (c : GeoCfg) (s t k l : Nat) : Bool :=
  match c.mode with
  | .III => c.degree s == c.degree k && c.degree t == c.degree l
  | _ => true

/-- the `if` of the loop body, closed form -/
def geoAccept (c : GeoCfg) (A : Adj) (s t k l : Nat) : Bool :=
  (s != k && s != l && t != k && t != l) && (!A s l && !A t k) &&
    condDeg c s t k l && condLen c s t k l

/-- the adjacency after the array writes of an accepted rewiring (the generated list, executed
in program order); its entries are characterised by `rewire_apply` (Lemmas/Random.lean) under
the conditions the `if` guarantees, so a reordering of the writes that is harmless under these
conditions does not disturb the proofs -/
def rewire (A : Adj) (s t k l : Nat) : Adj := applyWrites A (geoWrites s t k l)

/-- the cross adjacency after the writes of an accepted swap (generated list, program order) -/
def swapped (C : Adj) (a b c e : Nat) : Adj := applyWrites C (rewWrites a b c e)

theorem natAbs_lt_iff (x eps : Int) : ((x.natAbs : Int) < eps) ↔ (x < eps ∧ -x < eps) := by omega

theorem near_eq (D : Nat → Nat → Int) (eps : Int) (a b c d : Nat) :
    decide ((((D a b) - (D c d)).natAbs : Int) < eps) = near D eps a b c d := by
  rw [Bool.eq_iff_iff]
  simp only [near, Bool.and_eq_true, decide_eq_true_eq, natAbs_lt_iff] <;> omega

/-- **`cond_len_c1` of the source is condition C1** -/
theorem condLenC1_eq (D : Nat → Nat → Int) (eps : Int) (s t k l : Nat) :
    condLenC1 D eps s t k l = condC1 D eps s t k l := by
  rw [Bool.eq_iff_iff]
  simp only [condLenC1, condC1, near, Bool.and_eq_true, Bool.or_eq_true, decide_eq_true_eq,
    natAbs_lt_iff] <;> omega

/-- **`cond_len_c2` of the source is condition C2** (each node's old and new link in that node's row) -/
theorem condLenC2_eq (D : Nat → Nat → Int) (eps : Int) (s t k l : Nat) :
    condLenC2 D eps s t k l = condC2 D eps s t k l := by
  rw [Bool.eq_iff_iff]
  simp only [condLenC2, condC2, near, Bool.and_eq_true, decide_eq_true_eq, natAbs_lt_iff] <;> omega

/-- **`cond_deg_corr` compares the degrees of the exchanged partners** -/
theorem condDegCorr_eq (degree : Nat → Int) (s t k l : Nat) :
    condDegCorr degree s t k l = (degree s == degree k && degree t == degree l) := by
  rw [Bool.eq_iff_iff]
  simp only [condDegCorr, Bool.and_eq_true, decide_eq_true_eq, beq_iff_eq] <;> omega

/-- **the wrappers hand over C1 / C2 / C2 and no / no / the degree condition** -/
theorem wrappers_eq : wrapperI = (.cond_len_c1, .null) ∧ wrapperII = (.cond_len_c2, .null) ∧
    wrapperIII = (.cond_len_c2, .cond_deg_corr) := ⟨rfl, rfl, rfl⟩

theorem condLenM_eq (c : GeoCfg) (s t k l : Nat) : condLenM c s t k l = condLen c s t k l := by
  cases hm : c.mode <;> simp [condLenM, condLen, wrapperOf, hm, wrappers_eq, condLenC1_eq, condLenC2_eq]

/-- **the executed `if` equals the closed form** -/
theorem geoAcceptM_eq (c : GeoCfg) (A : Adj) (s t k l : Nat) :
    geoAcceptM c A s t k l = geoAccept c A s t k l := by
  have hl := condLenM_eq c s t k l
  rw [Bool.eq_iff_iff]
  cases hm : c.mode <;>
    simp [geoAcceptM, geoAccept, geoIf, degNullM, wrapperOf, hm, wrappers_eq, condDeg, hl,
      condDegCorr_eq] <;> grind

/-- **the executed list of writes is the closed form** -/
theorem rewireM_eq (A : Adj) (s t k l : Nat) : rewireM A s t k l = rewire A s t k l := rfl

theorem geoEdges_eq (s t k l : Nat) : geoEdge1 s t k l = (s, l) ∧ geoEdge2 s t k l = (k, t) :=
  ⟨rfl, rfl⟩

theorem geoWhile_iff (i n : Nat) : geoWhile i n = true ↔ i < n := by simp [geoWhile]

/-! ### cross links -/

theorem setBreak_eq (C : Adj) (i j : Nat) : setBreak C i j = !C i j := by
  rw [Bool.eq_iff_iff]; simp [setBreak]

theorem setWrites_eq (C : Adj) (i j : Nat) : applyWrites C (setWrites i j) = C.set i j true := rfl

/-- the placement loop in the form the lemmas use -/
theorem crossSetRun_cons (k : Nat) (i j : Nat) (ds : List (Nat × Nat)) (C : Adj) (done : Nat) :
    crossSetRun k ((i, j) :: ds) C done =
      if done < k then
        if C i j then crossSetRun k ds C done
        else crossSetRun k ds (C.set i j true) (done + 1)
      else (C, done) := by
  simp only [crossSetRun, setBreak_eq, setWrites_eq]
  cases C i j <;> simp

theorem rewBreak_eq (C : Adj) (a b c d : Nat) : rewBreak C a b c d = !(C a d || C c b) := by
  rw [Bool.eq_iff_iff]; simp [rewBreak]

theorem rewWrites_eq (C : Adj) (a b c d : Nat) : applyWrites C (rewWrites a b c d) = swapped C a b c d :=
  rfl

/-- **the three-statement exchange of the link ends** writes `(a, e)` at `e1` and `(c, b)` at `e2` -/
theorem runMoves_eq (L : List (Nat × Nat)) (p q a b c e : Nat) (hp : p < L.length) (hq : q < L.length)
    (e1 : L[p] = (a, b)) (e2 : L[q] = (c, e)) :
    (runMoves p q rewMoves (b, L)).2 = (L.set p (a, e)).set q (c, b) := by
  simp only [runMoves, rewMoves, List.foldl_cons, List.foldl_nil, locGet, locSet]
  by_cases hpq : p = q
  · subst hpq
    have : (a, b) = (c, e) := by rw [← e1, ← e2]
    simp only [Prod.mk.injEq] at this
    obtain ⟨rfl, rfl⟩ := this
    simp [List.getD_eq_getElem?_getD, hp, e1]
  · simp [List.getD_eq_getElem?_getD, hp, hq, e1, e2, hpq]

theorem overwrite_reads_eq (i j : Nat) : owRead i j = (i, j) ∧ owCell i j = (i, j) := ⟨rfl, rfl⟩
theorem mem_owWrites (n1 n2 : Nat) (v : Bool) (w : Nat × Nat × Bool) :
    w ∈ owWrites n1 n2 v ↔ (w = (n1, n2, v) ∨ w = (n2, n1, v)) := by
  simp only [owWrites, List.mem_cons, List.not_mem_nil, or_false] <;> grind

/-- **`RandomlySetCrossLinks_sparse` carries a Python copy of the kernel and of
`overwriteAdjacency`: same test, same writes, same subscripts** — one model serves both. -/
theorem sparse_copy_eq : sparseBreak = setBreak ∧ sparseWrites = setWrites ∧
    sparseOwRead = owRead ∧ sparseOwCell = owCell ∧
    (∀ a b v w, w ∈ sparseOwWrites a b v ↔ w ∈ owWrites a b v) ∧
    sparseDraw = geoDraw := by
  refine ⟨rfl, rfl, rfl, rfl, ?_, rfl⟩
  intro a b v w
  simp only [sparseOwWrites, owWrites, List.mem_cons, List.not_mem_nil, or_false] <;> grind

end Pyunicorn.Random
