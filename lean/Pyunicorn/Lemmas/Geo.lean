import Mathlib.Geometry.Euclidean.Angle.Unoriented.TriangleInequality
import Mathlib.Analysis.InnerProductSpace.PiL2
import Mathlib.Analysis.SpecialFunctions.Trigonometric.Inverse
import Pyunicorn.Model.Geo
/-! Helper lemmas for C12 (grid geometry): the symmetric fill, `argmin`,
mixed-radix decoding, list-fold sums as `Finset` sums. -/
namespace Pyunicorn.Geo

/-! ### symmetric triangular fill -/

theorem mem_pairs (N a b : Nat) : (a, b) ∈ pairs N ↔ b ≤ a ∧ a < N := by
  simp only [pairs, List.mem_flatMap, List.mem_range, List.mem_map, Prod.mk.injEq]
  constructor
  · rintro ⟨i, hi, j, hj, rfl, rfl⟩; omega
  · rintro ⟨h1, h2⟩; exact ⟨a, h2, b, by omega, rfl, rfl⟩

theorem foldl_symWrites {α : Type} (f : Nat → Nat → α) (ps : List (Nat × Nat))
    (hps : ∀ p ∈ ps, p.2 ≤ p.1) (M : Nat → Nat → α) (a b : Nat) :
    (ps.foldl (fun M p => let e := f p.1 p.2; upd (upd M p.1 p.2 e) p.2 p.1 e) M) a b
      = if (a, b) ∈ ps ∨ (b, a) ∈ ps then f (max a b) (min a b) else M a b := by
  induction ps generalizing M with
  | nil => simp
  | cons p ps ih =>
    rw [List.foldl_cons, ih (fun q hq => hps q (List.mem_cons_of_mem _ hq))]
    have hp := hps p List.mem_cons_self
    obtain ⟨p1, p2⟩ := p
    simp only at hp
    by_cases h : (a, b) ∈ ps ∨ (b, a) ∈ ps
    · have h' : (a, b) ∈ (p1, p2) :: ps ∨ (b, a) ∈ (p1, p2) :: ps := by
        rcases h with h | h
        · exact Or.inl (List.mem_cons_of_mem _ h)
        · exact Or.inr (List.mem_cons_of_mem _ h)
      rw [if_pos h, if_pos h']
    · rw [if_neg h]
      simp only [upd, List.mem_cons, Prod.mk.injEq]
      have h1 : ¬ (a, b) ∈ ps := fun x => h (Or.inl x)
      have h2 : ¬ (b, a) ∈ ps := fun x => h (Or.inr x)
      simp only [h1, h2, or_false]
      by_cases c1 : a = p2 ∧ b = p1
      · obtain ⟨rfl, rfl⟩ := c1
        simp [Nat.max_eq_right hp, Nat.min_eq_left hp]
      · by_cases c2 : a = p1 ∧ b = p2
        · obtain ⟨rfl, rfl⟩ := c2
          simp [Nat.max_eq_left hp, Nat.min_eq_right hp]
        · have c1' : ¬ (b = p1 ∧ a = p2) := fun x => c1 ⟨x.2, x.1⟩
          simp [c1, c2, c1']

/-- the matrix produced by the triangular loop: every cell of the `N × N` block
holds `f (max a b) (min a b)`, everything else is untouched -/
theorem fillSym_apply {α : Type} (N : Nat) (f : Nat → Nat → α) (M : Nat → Nat → α) (a b : Nat) :
    fillSym N f M a b = if a < N ∧ b < N then f (max a b) (min a b) else M a b := by
  unfold fillSym
  rw [foldl_symWrites f (pairs N) (fun p hp => ((mem_pairs N p.1 p.2).1 hp).1)]
  simp only [mem_pairs]
  by_cases h : a < N ∧ b < N
  · rw [if_pos h, if_pos (by omega)]
  · rw [if_neg h, if_neg (by omega)]

/-! ### argmin -/

section Argmin
variable {α : Type} [LinearOrder α]

theorem argminAux_spec (xs pre : List α) (best : α) (bi : Nat)
    (hb : pre[bi]? = some best) (hmin : ∀ y ∈ pre, best ≤ y)
    (hfirst : ∀ m < bi, ∀ y, pre[m]? = some y → best < y) :
    ∃ v, (pre ++ xs)[argminAux best bi pre.length xs]? = some v ∧ (∀ y ∈ pre ++ xs, v ≤ y) ∧
      (∀ m < argminAux best bi pre.length xs, ∀ y, (pre ++ xs)[m]? = some y → v < y) := by
  induction xs generalizing pre best bi with
  | nil =>
    refine ⟨best, ?_, ?_, ?_⟩
    · simpa [argminAux] using hb
    · simpa using hmin
    · simpa [argminAux] using hfirst
  | cons x xs ih =>
    have hbi : bi < pre.length := by
      rcases Nat.lt_or_ge bi pre.length with h | h
      · exact h
      · rw [List.getElem?_eq_none h] at hb; cases hb
    have hlen : (pre ++ [x]).length = pre.length + 1 := by simp
    have happ : pre ++ x :: xs = (pre ++ [x]) ++ xs := by simp
    unfold argminAux
    by_cases hx : x < best
    · rw [if_pos hx, happ, ← hlen]
      apply ih (pre ++ [x]) x pre.length
      · simp
      · intro y hy
        rcases List.mem_append.1 hy with h | h
        · exact le_of_lt (lt_of_lt_of_le hx (hmin y h))
        · simp only [List.mem_singleton] at h; exact le_of_eq h.symm
      · intro m hm y hy
        rw [List.getElem?_append_left hm] at hy
        exact lt_of_lt_of_le hx (hmin y (List.mem_of_getElem? hy))
    · rw [if_neg hx, happ, ← hlen]
      apply ih (pre ++ [x]) best bi
      · rw [List.getElem?_append_left hbi]; exact hb
      · intro y hy
        rcases List.mem_append.1 hy with h | h
        · exact hmin y h
        · simp only [List.mem_singleton] at h; rw [h]; exact le_of_not_gt hx
      · intro m hm y hy
        rw [List.getElem?_append_left (by omega)] at hy
        exact hfirst m hm y hy

theorem argminAux_map (g : α → α) (P : α → Prop)
    (hg : ∀ a b, P a → P b → (g a < g b ↔ a < b)) (xs : List α) (best : α) (bi k : Nat)
    (hbest : P best) (hxs : ∀ y ∈ xs, P y) :
    argminAux (g best) bi k (xs.map g) = argminAux best bi k xs := by
  induction xs generalizing best bi k with
  | nil => rfl
  | cons x xs ih =>
    have hx : P x := hxs x List.mem_cons_self
    have hxs' : ∀ y ∈ xs, P y := fun y hy => hxs y (List.mem_cons_of_mem _ hy)
    simp only [List.map_cons, argminAux]
    by_cases h : x < best
    · rw [if_pos h, if_pos ((hg x best hx hbest).2 h)]; exact ih x k (k + 1) hx hxs'
    · rw [if_neg h, if_neg (fun c => h ((hg x best hx hbest).1 c))]
      exact ih best bi (k + 1) hbest hxs'

end Argmin

/-! ### mixed-radix (Fortran-order) decoding -/

theorem prod_pos_of_lt {ss : List Nat} {n : Nat} (h : n < prod ss) : ∀ s ∈ ss, 0 < s := by
  induction ss generalizing n with
  | nil => simp
  | cons s ss ih =>
    intro t ht
    simp only [prod] at h
    have hs : 0 < s := Nat.pos_of_ne_zero (by rintro rfl; simp at h)
    have hp : 0 < prod ss := Nat.pos_of_ne_zero (by intro h0; rw [h0] at h; simp at h)
    rcases List.mem_cons.1 ht with rfl | ht
    · exact hs
    · exact ih hp t ht

theorem decodeF_valid (ss : List Nat) (n : Nat) (h : ∀ s ∈ ss, 0 < s) :
    List.Forall₂ (· < ·) (decodeF ss n) ss := by
  induction ss generalizing n with
  | nil => exact List.Forall₂.nil
  | cons s ss ih =>
    exact List.Forall₂.cons (Nat.mod_lt _ (h s List.mem_cons_self))
      (ih (n / s) fun t ht => h t (List.mem_cons_of_mem _ ht))

theorem encode_decode (ss : List Nat) (n : Nat) (h : n < prod ss) :
    encodeF ss (decodeF ss n) = n := by
  induction ss generalizing n with
  | nil => simp [prod] at h; simp [encodeF, h]
  | cons s ss ih =>
    simp only [prod] at h
    have : n / s < prod ss := Nat.div_lt_of_lt_mul h
    simp only [decodeF, encodeF, ih _ this]
    exact Nat.mod_add_div n s

theorem decode_encode (ss idx : List Nat) (h : List.Forall₂ (· < ·) idx ss) :
    decodeF ss (encodeF ss idx) = idx := by
  induction h with
  | nil => rfl
  | @cons i s is ss his _ ih =>
    simp only [encodeF, decodeF]
    rw [Nat.add_mul_mod_self_left, Nat.mod_eq_of_lt his, Nat.add_mul_div_left _ _ (by omega),
      Nat.div_eq_of_lt his, Nat.zero_add, ih]

theorem encode_lt (ss idx : List Nat) (h : List.Forall₂ (· < ·) idx ss) :
    encodeF ss idx < prod ss := by
  induction h with
  | nil => simp [encodeF, prod]
  | @cons i s is ss his _ ih =>
    simp only [encodeF, prod]
    calc i + s * encodeF ss is < s + s * encodeF ss is := by omega
      _ = s * (encodeF ss is + 1) := by ring
      _ ≤ s * prod ss := Nat.mul_le_mul_left _ ih

theorem swap01_swap01 {γ : Type} (l : List γ) : swap01 (swap01 l) = l := by
  match l with
  | [] => rfl
  | [_] => rfl
  | _ :: _ :: _ => rfl

theorem prod_swap01 (ss : List Nat) : prod (swap01 ss) = prod ss := by
  match ss with
  | [] => rfl
  | [_] => rfl
  | a :: b :: r => simp only [swap01, prod]; ring

theorem forall₂_swap01 {γ δ : Type} (R : γ → δ → Prop) (a : List γ) (b : List δ)
    (h : List.Forall₂ R a b) : List.Forall₂ R (swap01 a) (swap01 b) := by
  match h with
  | .nil => exact .nil
  | .cons h1 .nil => exact .cons h1 .nil
  | .cons h1 (.cons h2 h3) => exact .cons h2 (.cons h1 h3)

theorem mem_swap01 {γ : Type} (l : List γ) (x : γ) : x ∈ swap01 l ↔ x ∈ l := by
  match l with
  | [] => exact Iff.rfl
  | [_] => exact Iff.rfl
  | a :: b :: r => simp only [swap01, List.mem_cons]; tauto

/-! ### `max` of a row -/

theorem foldl_max_spec {α : Type} [LinearOrder α] (xs : List α) (x : α) :
    (xs.foldl (fun m y => if m < y then y else m) x ∈ x :: xs) ∧
      ∀ y ∈ x :: xs, y ≤ xs.foldl (fun m y => if m < y then y else m) x := by
  induction xs generalizing x with
  | nil => simp
  | cons z zs ih =>
    simp only [List.foldl_cons]
    obtain ⟨h1, h2⟩ := ih (if x < z then z else x)
    constructor
    · rcases List.mem_cons.1 h1 with h | h
      · rw [h]; split_ifs <;> simp
      · exact List.mem_cons_of_mem _ (List.mem_cons_of_mem _ h)
    · intro y hy
      have hx : (if x < z then z else x) ≤
          zs.foldl (fun m y => if m < y then y else m) (if x < z then z else x) :=
        h2 _ List.mem_cons_self
      rcases List.mem_cons.1 hy with rfl | hy
      · refine le_trans ?_ hx
        split_ifs with h
        · exact h.le
        · exact le_refl _
      · rcases List.mem_cons.1 hy with rfl | hy
        · refine le_trans ?_ hx
          split_ifs with h
          · exact le_refl _
          · exact not_lt.1 h
        · exact h2 y (List.mem_cons_of_mem _ hy)

/-! ### list-fold sums as `Finset` sums -/

theorem foldl_add_eq_sum {β : Type} [AddCommMonoid β] (h : Nat → β) (d : Nat) :
    (List.range d).foldl (fun acc k => acc + h k) 0 = ∑ k ∈ Finset.range d, h k := by
  induction d with
  | zero => simp
  | succ d ih => rw [List.range_succ, List.foldl_append, ih, Finset.sum_range_succ]; rfl

end Pyunicorn.Geo
