import Pyunicorn.Model.Surrogates
import Batteries.Data.List.Basic
/-! Lemmas for C15: the twin test, the double loop building the twin lists, the twin walk. -/
namespace Pyunicorn.Surrogates

/-! ### the twin test -/

theorem sameRow_iff (a b : List Bool) : sameRow a b = true ↔ a = b := by
  induction a generalizing b with
  | nil => cases b <;> simp [sameRow]
  | cons x xs ih => cases b <;> simp [sameRow, ih]

theorem isTwin_iff (R : List (List Bool)) (nR : List Nat) (j k : Nat) :
    isTwin R nR j k = true ↔
      ∃ rj rk a b, R[j]? = some rj ∧ R[k]? = some rk ∧ nR[j]? = some a ∧ nR[k]? = some b ∧
        a = b ∧ a ≠ 1 ∧ rj = rk := by
  unfold isTwin
  split
  · next rj rk a b h1 h2 h3 h4 =>
    simp [h1, h2, h3, h4, sameRow_iff, and_assoc]
  · next hno =>
    constructor
    · intro h; cases h
    · rintro ⟨rj, rk, a, b, h1, h2, h3, h4, -⟩
      exact absurd h4 (hno rj rk a b h1 h2 h3)

/-- with the neighbour counts the kernel computes itself the test is: identical rows with
more than one neighbour -/
theorem isTwin_rowCounts_iff (R : List (List Bool)) (j k : Nat) :
    isTwin R (rowCounts R) j k = true ↔
      ∃ r, R[j]? = some r ∧ R[k]? = some r ∧ r.count true ≠ 1 := by
  rw [isTwin_iff]
  constructor
  · rintro ⟨rj, rk, a, b, h1, h2, h3, h4, hab, ha, hr⟩
    subst hr
    refine ⟨rj, h1, h2, ?_⟩
    simp [rowCounts, h1] at h3
    omega
  · rintro ⟨r, h1, h2, h3⟩
    exact ⟨r, r, r.count true, r.count true, h1, h2, by simp [rowCounts, h1],
      by simp [rowCounts, h2], rfl, h3, rfl⟩

theorem isTwin_rowCounts_symm (R : List (List Bool)) (j k : Nat) :
    isTwin R (rowCounts R) j k = isTwin R (rowCounts R) k j := by
  rw [Bool.eq_iff_iff, isTwin_rowCounts_iff, isTwin_rowCounts_iff]
  constructor <;> rintro ⟨r, h1, h2, h3⟩ <;> exact ⟨r, h2, h1, h3⟩

/-! ### the double loop -/

/-- `x` is in the `j`-th list of the table `t` -/
def memAt (t : List (List Nat)) (j x : Nat) : Prop := ∃ l, t[j]? = some l ∧ x ∈ l

theorem addPair_length (t : List (List Nat)) (p : Nat × Nat) : (addPair t p).length = t.length := by
  simp [addPair]

theorem foldl_addPair_length (ps : List (Nat × Nat)) (t : List (List Nat)) :
    (ps.foldl addPair t).length = t.length := by
  induction ps generalizing t with
  | nil => rfl
  | cons p ps ih => rw [List.foldl_cons, ih, addPair_length]

theorem twinLists_length (n md : Nat) (tw : Nat → Nat → Bool) : (twinLists n md tw).length = n := by
  simp [twinLists, foldl_addPair_length]

theorem memAt_modify (t : List (List Nat)) (i y j x : Nat) :
    memAt (t.modify i (· ++ [y])) j x ↔ memAt t j x ∨ (j < t.length ∧ i = j ∧ x = y) := by
  unfold memAt
  rw [List.getElem?_modify]
  by_cases hj : j < t.length
  · rw [List.getElem?_eq_getElem hj]
    by_cases hi : i = j
    · subst hi
      simp [hj]
    · simp [hi]
  · simp [hj]

theorem memAt_addPair (t : List (List Nat)) (a b j x : Nat) :
    memAt (addPair t (a, b)) j x ↔
      memAt t j x ∨ (j < t.length ∧ ((a = j ∧ x = b) ∨ (b = j ∧ x = a))) := by
  simp only [addPair, memAt_modify, List.length_modify]
  constructor
  · rintro ((h | h) | h)
    · exact Or.inl h
    · exact Or.inr ⟨h.1, Or.inl h.2⟩
    · exact Or.inr ⟨h.1, Or.inr h.2⟩
  · rintro (h | ⟨h, h' | h'⟩)
    · exact Or.inl (Or.inl h)
    · exact Or.inl (Or.inr ⟨h, h'⟩)
    · exact Or.inr ⟨h, h'⟩

theorem memAt_foldl_addPair (ps : List (Nat × Nat)) (t : List (List Nat)) (j x : Nat) :
    memAt (ps.foldl addPair t) j x ↔
      memAt t j x ∨ (j < t.length ∧ ((j, x) ∈ ps ∨ (x, j) ∈ ps)) := by
  induction ps generalizing t with
  | nil => simp
  | cons p ps ih =>
    obtain ⟨a, b⟩ := p
    rw [List.foldl_cons, ih, memAt_addPair, addPair_length]
    simp only [List.mem_cons, Prod.mk.injEq]
    constructor
    · rintro ((h | ⟨h, h' | h'⟩) | ⟨h, h' | h'⟩)
      · exact Or.inl h
      · exact Or.inr ⟨h, Or.inl (Or.inl ⟨h'.1.symm, h'.2⟩)⟩
      · exact Or.inr ⟨h, Or.inr (Or.inl ⟨h'.2, h'.1.symm⟩)⟩
      · exact Or.inr ⟨h, Or.inl (Or.inr h')⟩
      · exact Or.inr ⟨h, Or.inr (Or.inr h')⟩
    · rintro (h | ⟨h, (h' | h') | (h' | h')⟩)
      · exact Or.inl (Or.inl h)
      · exact Or.inl (Or.inr ⟨h, Or.inl ⟨h'.1.symm, h'.2⟩⟩)
      · exact Or.inr ⟨h, Or.inl h'⟩
      · exact Or.inl (Or.inr ⟨h, Or.inr ⟨h'.2.symm, h'.1⟩⟩)
      · exact Or.inr ⟨h, Or.inr h'⟩

theorem mem_allPairs_iff (n md : Nat) (tw : Nat → Nat → Bool) (j k : Nat) :
    (j, k) ∈ allPairs n md tw ↔ j < n ∧ k + md < j ∧ tw j k = true := by
  simp only [allPairs, pairsFor, List.mem_flatMap, List.mem_map, List.mem_filter, List.mem_range,
    Prod.mk.injEq]
  constructor
  · rintro ⟨a, ha, b, ⟨hb, htw⟩, rfl, rfl⟩
    exact ⟨ha, by omega, htw⟩
  · rintro ⟨h1, h2, h3⟩
    exact ⟨j, h1, k, ⟨by omega, h3⟩, rfl, rfl⟩

theorem not_memAt_replicate (n j x : Nat) : ¬ memAt (List.replicate n []) j x := by
  rintro ⟨l, hl, hx⟩
  rw [List.getElem?_replicate] at hl
  split at hl
  · cases hl; cases hx
  · cases hl

/-- the central statement about the double loop -/
theorem mem_twinLists_iff (n md : Nat) (tw : Nat → Nat → Bool) (j k : Nat) :
    (∃ l, (twinLists n md tw)[j]? = some l ∧ k ∈ l) ↔
      j < n ∧ k < n ∧ ((k + md < j ∧ tw j k = true) ∨ (j + md < k ∧ tw k j = true)) := by
  change memAt (twinLists n md tw) j k ↔ _
  rw [twinLists, memAt_foldl_addPair, mem_allPairs_iff, mem_allPairs_iff, List.length_replicate]
  have := not_memAt_replicate n j k
  constructor
  · rintro (h | ⟨h, h' | h'⟩)
    · exact absurd h this
    · exact ⟨h, by omega, Or.inl h'.2⟩
    · exact ⟨h, h'.1, Or.inr h'.2⟩
  · rintro ⟨h1, h2, h | h⟩
    · exact Or.inr ⟨h1, Or.inl ⟨h1, h⟩⟩
    · exact Or.inr ⟨h1, Or.inr ⟨h2, h⟩⟩

def GoodPick (pick : Nat → Nat → Nat) : Prop := ∀ c m, 0 < m → pick c m < m

def WfTwins (N : Nat) (tw : List (List Nat)) : Prop := tw.length = N ∧ ∀ l ∈ tw, ∀ t ∈ l, t < N

theorem twinLists_wf (n md : Nat) (tw : Nat → Nat → Bool) : WfTwins n (twinLists n md tw) := by
  refine ⟨twinLists_length n md tw, ?_⟩
  intro l hl t ht
  obtain ⟨j, hj, rfl⟩ := List.getElem_of_mem hl
  have := (mem_twinLists_iff n md tw j t).1 ⟨_, List.getElem?_eq_getElem hj, ht⟩
  exact this.2.1

/-! ### the twin walk -/

/-- allowed transition `a → b` of a twin surrogate: own successor, successor of a twin,
or a restart at an arbitrary original state, the latter only if one of these successors
does not exist (lies beyond the end of the series) -/
def Succ (N : Nat) (tw : List (List Nat)) (a b : Nat) : Prop :=
  b = a + 1 ∨ (∃ l, tw[a]? = some l ∧ ∃ t ∈ l, b = t + 1) ∨
  ((a + 1 = N ∨ ∃ l, tw[a]? = some l ∧ ∃ t ∈ l, t + 1 = N) ∧ b < N)

/-- one step of the walk from a valid state: never an IndexError, the cursor does not go
back, the new state is valid and an allowed transition -/
theorem next_spec {N : Nat} {tw : List (List Nat)} {pick : Nat → Nat → Nat}
    (hp : GoodPick pick) (hw : WfTwins N tw) (k c : Nat) (hk : k < N) :
    ∃ k' c', next N tw pick k c = some (k', c') ∧ c ≤ c' ∧ k' < N ∧ Succ N tw k k' := by
  obtain ⟨hlen, hmem⟩ := hw
  have hN : 0 < N := by omega
  have hkl : k < tw.length := by omega
  have htk : tw[k]? = some tw[k] := List.getElem?_eq_getElem hkl
  have hin : ∀ t ∈ tw[k], t < N := hmem _ (List.getElem_mem hkl)
  -- the state after the twin jump, before the end-of-series test
  have key : ∀ k₁ c₁, c ≤ c₁ →
      (k₁ = k + 1 ∨ ∃ t ∈ tw[k], k₁ = t + 1) →
      ∃ k' c', (if k₁ ≥ N then
          (if pick c₁ N ≠ k₁ then some (pick c₁ N, c₁ + 1) else none)
        else some (k₁, c₁)) = some (k', c') ∧ c ≤ c' ∧ k' < N ∧ Succ N tw k k' := by
    intro k₁ c₁ hc h
    have hle : k₁ ≤ N := by
      rcases h with h | ⟨t, ht, h⟩
      · omega
      · have := hin t ht; omega
    by_cases hge : k₁ ≥ N
    · have hpk : pick c₁ N < N := hp c₁ N hN
      have hne : pick c₁ N ≠ k₁ := by omega
      refine ⟨pick c₁ N, c₁ + 1, by simp [hge, hne], by omega, hpk, ?_⟩
      refine Or.inr (Or.inr ⟨?_, hpk⟩)
      rcases h with h | ⟨t, ht, h⟩
      · exact Or.inl (by omega)
      · exact Or.inr ⟨_, htk, t, ht, by omega⟩
    · refine ⟨k₁, c₁, by simp [hge], hc, by omega, ?_⟩
      rcases h with h | ⟨t, ht, h⟩
      · exact Or.inl h
      · exact Or.inr (Or.inl ⟨_, htk, t, ht, h⟩)
  unfold next
  simp only [htk]
  by_cases hnt : tw[k].length = 0
  · simp only [hnt, if_true]
    exact key (k + 1) c (Nat.le_refl _) (Or.inl rfl)
  · simp only [hnt, if_false]
    by_cases hr : pick c (tw[k].length + 1) = tw[k].length
    · simp only [hr, if_true]
      exact key (k + 1) (c + 1) (by omega) (Or.inl rfl)
    · have hlt : pick c (tw[k].length + 1) < tw[k].length := by
        have := hp c (tw[k].length + 1) (by omega); omega
      simp only [hr, if_false, List.getElem?_eq_getElem hlt]
      exact key _ (c + 1) (by omega) (Or.inr ⟨_, List.getElem_mem hlt, rfl⟩)

theorem walkFrom_spec {N : Nat} {tw : List (List Nat)} {pick : Nat → Nat → Nat}
    (hp : GoodPick pick) (hw : WfTwins N tw) (f k c : Nat) (hk : k < N) :
    ∃ l c', walkFrom N tw pick f k c = some (l, c') ∧ l.length = f ∧ c ≤ c' ∧
      (∀ i ∈ l, i < N) ∧ (0 < f → l.head? = some k) ∧
      (∀ i a b, l[i]? = some a → l[i+1]? = some b → Succ N tw a b) := by
  induction f generalizing k c with
  | zero => exact ⟨[], c, rfl, rfl, Nat.le_refl _, by simp, by simp, by simp⟩
  | succ f ih =>
    obtain ⟨k', c', hn, hc, hk', hs⟩ := next_spec hp hw k c hk
    obtain ⟨l, c'', hwf, hl, hc', hb, hh, hsucc⟩ := ih k' c' hk'
    refine ⟨k :: l, c'', by simp [walkFrom, hk, hn, hwf], by simp [hl], by omega, ?_, by simp, ?_⟩
    · intro i hi
      rcases List.mem_cons.1 hi with rfl | hi
      · exact hk
      · exact hb i hi
    · intro i a b ha hb'
      cases i with
      | zero =>
        simp only [List.getElem?_cons_zero, Option.some.injEq] at ha
        simp only [Nat.zero_add, List.getElem?_cons_succ] at hb'
        subst ha
        cases f with
        | zero =>
          have : l = [] := List.length_eq_zero_iff.1 hl
          simp [this] at hb'
        | succ f =>
          have h0 := hh (Nat.succ_pos _)
          rw [List.head?_eq_getElem?, hb'] at h0
          cases h0
          exact hs
      | succ i =>
        simp only [List.getElem?_cons_succ] at ha hb'
        exact hsucc i a b ha hb'

theorem walkRow_spec {N : Nat} {tw : List (List Nat)} {pick : Nat → Nat → Nat}
    (hp : GoodPick pick) (hw : WfTwins N tw) (c : Nat) :
    ∃ l c', walkRow N tw pick c = some (l, c') ∧ l.length = N ∧
      (∀ i ∈ l, i < N) ∧
      (∀ i a b, l[i]? = some a → l[i+1]? = some b → Succ N tw a b) := by
  cases N with
  | zero => exact ⟨[], c + 1, by simp [walkRow, walkFrom], rfl, by simp, by simp⟩
  | succ N =>
    obtain ⟨l, c', h, hl, -, hb, -, hs⟩ :=
      walkFrom_spec hp hw (N + 1) (pick c (N + 1)) (c + 1) (hp c (N + 1) (Nat.succ_pos _))
    exact ⟨l, c', h, hl, hb, hs⟩

theorem walkRows_spec {N : Nat} {pick : Nat → Nat → Nat} (hp : GoodPick pick)
    (tws : List (List (List Nat))) (hw : ∀ tw ∈ tws, WfTwins N tw) (c : Nat) :
    ∃ ls c', walkRows N pick tws c = some (ls, c') ∧
      List.Forall₂ (fun l tw => l.length = N ∧ (∀ i ∈ l, i < N) ∧
        (∀ i a b, l[i]? = some a → l[i+1]? = some b → Succ N tw a b)) ls tws := by
  induction tws generalizing c with
  | nil => exact ⟨[], c, rfl, List.Forall₂.nil⟩
  | cons tw rest ih =>
    obtain ⟨l, c', h, hl, hb, hs⟩ := walkRow_spec hp (hw tw (List.mem_cons_self ..)) c
    obtain ⟨ls, c'', h', hall⟩ := ih (fun t ht => hw t (List.mem_cons_of_mem _ ht)) c'
    exact ⟨l :: ls, c'', by simp [walkRows, h, h'], List.Forall₂.cons ⟨hl, hb, hs⟩ hall⟩

theorem forall₂_replicate {α β : Type} {P : α → β → Prop} {b : β} (n : Nat) (ls : List α)
    (h : List.Forall₂ P ls (List.replicate n b)) : ls.length = n ∧ ∀ l ∈ ls, P l b := by
  induction n generalizing ls with
  | zero => cases h; simp
  | succ n ih =>
    rw [List.replicate_succ] at h
    cases h with
    | cons h1 h2 =>
      obtain ⟨hl, hall⟩ := ih _ h2
      refine ⟨by simp [hl], ?_⟩
      intro l hl'
      rcases List.mem_cons.1 hl' with rfl | hl'
      · exact h1
      · exact hall l hl'

/-- `_twin_surrogates_r`: the same for `ns` trajectories on one table -/
theorem walkRep_spec {N : Nat} {tw : List (List Nat)} {pick : Nat → Nat → Nat}
    (hp : GoodPick pick) (hw : WfTwins N tw) (ns c : Nat) :
    ∃ ls c', walkRep N tw pick ns c = some (ls, c') ∧ ls.length = ns ∧
      ∀ l ∈ ls, l.length = N ∧ (∀ i ∈ l, i < N) ∧
        (∀ i a b, l[i]? = some a → l[i+1]? = some b → Succ N tw a b) := by
  obtain ⟨ls, c', h, hall⟩ :=
    walkRows_spec hp (List.replicate ns tw) (fun t ht => (List.eq_of_mem_replicate ht) ▸ hw) c
  obtain ⟨h1, h2⟩ := forall₂_replicate ns ls hall
  exact ⟨ls, c', h, h1, h2⟩

/-! ### the pick -/

/-- `int(floor(random.random() * m))` of a value in [0,1) is a valid index below m -/
theorem floorPick_good (u : Nat → Rat) (h : ∀ c, 0 ≤ u c ∧ u c < 1) : GoodPick (floorPick u) := by
  intro c m hm
  obtain ⟨h0, h1⟩ := h c
  unfold floorPick
  have hmR : (0 : Rat) < (m : Rat) := by exact_mod_cast hm
  have hlt : u c * (m : Rat) < (m : Rat) := by
    calc u c * (m : Rat) < 1 * (m : Rat) := Rat.mul_lt_mul_of_pos_right h1 hmR
      _ = m := Rat.one_mul _
  have hfl : ((u c * (m : Rat)).floor : Rat) < ((m : Int) : Rat) :=
    Std.lt_of_le_of_lt (Rat.floor_le _) (by rw [Rat.intCast_natCast]; exact hlt)
  have hfi : (u c * (m : Rat)).floor < (m : Int) := by exact_mod_cast hfl
  omega

end Pyunicorn.Surrogates
