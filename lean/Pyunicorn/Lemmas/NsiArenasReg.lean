import Pyunicorn.Lemmas.NsiEig
import Pyunicorn.Model.NsiMeasures
/-!
Round 5: the absorbing-walk systems of `nsi_arenas_betweenness` are regular on connected networks.

`1 − sp_Pi` has a trivial kernel whenever the network is connected, the node weights are positive,
and the stopping rule satisfies `0 ≤ σ(i, r) ≤ 1` on `N⁺(i)` and `σ(i, i) = 1` (the walk is
absorbed at the target).  Maximum principle: a solution `u` of `u = P_i u` that is positive
somewhere attains its maximum `M > 0` at a node whose row is a full average (`stop = 1`) of values
`≤ M`, so all its neighbours carry `M` too; along a walk to the target `i` the maximum reaches
`i`, whose row is multiplied by `1 − σ(i, i) = 0`.

This removes the hypothesis `ArenasRegular` from the split theorems of round 4
(`stopping_mode="neighbors"`: `σ = 1`; `"twinness"`: `σ = nsi_twinness` on undirected networks).
-/
namespace Pyunicorn.Nsi
open Finset

/-- the row `s` of `DkI * Ap * Dw` -/
def qRow (G : Gr) (s m : Nat) : Rat := nsiQ G s m * G.w m

theorem qRow_nonneg (G : Gr) (hw : ∀ k, k < G.n → 0 < G.w k) (s m : Nat) (hs : s < G.n)
    (hm : m < G.n) : 0 ≤ qRow G s m := by
  unfold qRow nsiQ
  have hk := kstar_pos G hw s hs
  have ha : 0 ≤ aplus G s m := by unfold aplus; split <;> simp
  have := hw m hm
  positivity

theorem qRow_pos (G : Gr) (hw : ∀ k, k < G.n → 0 < G.w k) (s m : Nat) (hs : s < G.n)
    (hm : m < G.n) (hadj : G.adj s m = true) : 0 < qRow G s m := by
  unfold qRow nsiQ
  have hk := kstar_pos G hw s hs
  have ha : aplus G s m = 1 := by unfold aplus; simp [hadj]
  have := hw m hm
  rw [ha]
  positivity

theorem qRow_sum (G : Gr) (hw : ∀ k, k < G.n → 0 < G.w k) (s : Nat) (hs : s < G.n) :
    ∑ m ∈ range G.n, qRow G s m = 1 := by
  have := nsiQ_row_sum G hw s hs
  rw [sumR_eq_finset] at this
  exact this

theorem arenas_row (G : Gr) (sigma : Nat → Nat → Rat) (i s : Nat) (u : Nat → Rat) :
    sumR G.n (fun m => arenasP G sigma i s m * u m)
      = arenasStop G sigma i s * ∑ m ∈ range G.n, qRow G s m * u m := by
  rw [sumR_eq_finset, Finset.mul_sum]
  apply Finset.sum_congr rfl
  intro m _
  unfold arenasP qRow
  ring

/-- one step of the maximum principle: a node carrying the positive maximum has a full-average
row and hands the maximum to all its neighbours -/
theorem arenas_max_step (G : Gr) (hw : ∀ k, k < G.n → 0 < G.w k) (sigma : Nat → Nat → Rat)
    (i : Nat) (u : Nat → Rat) (M : Rat) (hM : 0 < M) (hle : ∀ s, s < G.n → u s ≤ M)
    (a : Nat) (ha : a < G.n) (hf0 : 0 ≤ arenasStop G sigma i a) (hf1 : arenasStop G sigma i a ≤ 1)
    (hu : u a - sumR G.n (fun m => arenasP G sigma i a m * u m) = 0) (hua : u a = M) :
    arenasStop G sigma i a = 1 ∧ ∀ b, b < G.n → G.adj a b = true → u b = M := by
  rw [arenas_row] at hu
  set f := arenasStop G sigma i a with hf
  set avg := ∑ m ∈ range G.n, qRow G a m * u m with havg
  have hsum := qRow_sum G hw a ha
  -- `M − avg = Σ q (M − u) ≥ 0`
  have hdiff : M - avg = ∑ m ∈ range G.n, qRow G a m * (M - u m) := by
    have : ∑ m ∈ range G.n, qRow G a m * (M - u m)
        = M * ∑ m ∈ range G.n, qRow G a m - avg := by
      rw [havg, Finset.mul_sum, ← Finset.sum_sub_distrib]
      exact Finset.sum_congr rfl fun m _ => by ring
    rw [this, hsum]; ring
  have hterm : ∀ m ∈ range G.n, 0 ≤ qRow G a m * (M - u m) := fun m hm =>
    mul_nonneg (qRow_nonneg G hw a m ha (Finset.mem_range.mp hm))
      (by linarith [hle m (Finset.mem_range.mp hm)])
  have havgle : avg ≤ M := by
    have := Finset.sum_nonneg hterm
    linarith
  have hMf : M = f * avg := by linarith
  have hf1' : f = 1 := by
    have h1 : f * avg ≤ f * M := mul_le_mul_of_nonneg_left havgle hf0
    have h2 : M * (1 - f) ≤ 0 := by nlinarith
    have h3 : 1 - f ≤ 0 := by
      by_contra hcon
      have : 0 < M * (1 - f) := mul_pos hM (by linarith)
      linarith
    linarith
  refine ⟨hf1', fun b hb hab => ?_⟩
  have havgM : avg = M := by rw [hf1', one_mul] at hMf; linarith
  have hzero : ∑ m ∈ range G.n, qRow G a m * (M - u m) = 0 := by rw [← hdiff, havgM, sub_self]
  have := (Finset.sum_eq_zero_iff_of_nonneg hterm).mp hzero b (Finset.mem_range.mpr hb)
  rcases mul_eq_zero.mp this with h | h
  · exact absurd h (ne_of_gt (qRow_pos G hw a b ha hb hab))
  · linarith

theorem arenasStop_bounds (G : Gr) (sigma : Nat → Nat → Rat) (i : Nat)
    (hσ : ∀ r, r < G.n → aplus G i r = 1 → 0 ≤ sigma i r ∧ sigma i r ≤ 1) (a : Nat) (ha : a < G.n) :
    0 ≤ arenasStop G sigma i a ∧ arenasStop G sigma i a ≤ 1 := by
  unfold arenasStop
  split
  · rename_i h
    obtain ⟨h0, h1⟩ := hσ a ha h
    constructor <;> linarith
  · constructor <;> norm_num

/-- along a walk the positive maximum propagates -/
theorem arenas_max_walk (G : Gr) (hw : ∀ k, k < G.n → 0 < G.w k) (sigma : Nat → Nat → Rat)
    (i : Nat) (hσ : ∀ r, r < G.n → aplus G i r = 1 → 0 ≤ sigma i r ∧ sigma i r ≤ 1)
    (u : Nat → Rat) (M : Rat) (hM : 0 < M) (hle : ∀ s, s < G.n → u s ≤ M)
    (hu : ∀ s, s < G.n → u s - sumR G.n (fun m => arenasP G sigma i s m * u m) = 0)
    {a b k : Nat} (wk : Walk G a b k) (hua : u a = M) : u b = M := by
  induction wk with
  | nil a ha => exact hua
  | cons a b c k ha hab w ih =>
    obtain ⟨h0, h1⟩ := arenasStop_bounds G sigma i hσ a ha
    exact ih ((arenas_max_step G hw sigma i u M hM hle a ha h0 h1 (hu a ha) hua).2 b
      w.start_lt hab)

/-- a solution of the homogeneous system is nowhere positive -/
theorem arenas_nonpos (G : Gr) (hw : ∀ k, k < G.n → 0 < G.w k) (hconn : Connected G)
    (sigma : Nat → Nat → Rat) (i : Nat) (hi : i < G.n) (hσi : sigma i i = 1)
    (hσ : ∀ r, r < G.n → aplus G i r = 1 → 0 ≤ sigma i r ∧ sigma i r ≤ 1)
    (u : Nat → Rat)
    (hu : ∀ s, s < G.n → u s - sumR G.n (fun m => arenasP G sigma i s m * u m) = 0) :
    ∀ s, s < G.n → u s ≤ 0 := by
  intro s0 hs0
  by_contra hcon
  have hpos : 0 < u s0 := not_le.mp hcon
  obtain ⟨s, hs, hmax⟩ := Finset.exists_max_image (range G.n) u ⟨s0, Finset.mem_range.mpr hs0⟩
  have hs' := Finset.mem_range.mp hs
  have hM : 0 < u s := lt_of_lt_of_le hpos (hmax s0 (Finset.mem_range.mpr hs0))
  have hle : ∀ t, t < G.n → u t ≤ u s := fun t ht => hmax t (Finset.mem_range.mpr ht)
  obtain ⟨k, wk⟩ := hconn s i hs' hi
  have hui := arenas_max_walk G hw sigma i hσ u (u s) hM hle hu wk rfl
  obtain ⟨h0, h1⟩ := arenasStop_bounds G sigma i hσ i hi
  have hstop := (arenas_max_step G hw sigma i u (u s) hM hle i hi h0 h1 (hu i hi) hui).1
  have : arenasStop G sigma i i = 0 := by
    unfold arenasStop
    have : aplus G i i = 1 := by simp [aplus]
    rw [if_pos this, hσi, sub_self]
  rw [this] at hstop
  exact absurd hstop (by norm_num)

/-- **the absorbing-walk system of target `i` is regular** on a connected network with positive
node weights, for every stopping rule with `σ(i, i) = 1` and `0 ≤ σ(i, ·) ≤ 1` on `N⁺(i)` -/
theorem arenas_regular (G : Gr) (hw : ∀ k, k < G.n → 0 < G.w k) (hconn : Connected G)
    (sigma : Nat → Nat → Rat) (i : Nat) (hi : i < G.n) (hσi : sigma i i = 1)
    (hσ : ∀ r, r < G.n → aplus G i r = 1 → 0 ≤ sigma i r ∧ sigma i r ≤ 1) :
    ArenasRegular G sigma i := by
  intro u hu s hs
  have h1 := arenas_nonpos G hw hconn sigma i hi hσi hσ u hu s hs
  have hneg : ∀ s, s < G.n →
      (fun k => - u k) s - sumR G.n (fun m => arenasP G sigma i s m * (fun k => - u k) m) = 0 := by
    intro s hs
    have := hu s hs
    have e : sumR G.n (fun m => arenasP G sigma i s m * (fun k => - u k) m)
        = - sumR G.n (fun m => arenasP G sigma i s m * u m) := by
      rw [sumR_eq_finset, sumR_eq_finset, ← Finset.sum_neg_distrib]
      exact Finset.sum_congr rfl fun m _ => by ring
    rw [e]; simp only; linarith
  have h2 := arenas_nonpos G hw hconn sigma i hi hσi hσ (fun k => - u k) hneg s hs
  linarith

/-! ### the twinness stopping rule -/

theorem twinness_eq (G : Gr) (a b : Nat) :
    eval G [a, b] M.nsiTwinness
      = aplus G a b * sumR G.n (fun k => G.w k * (aplus G a k * aplus G k b))
          / max (kstar G a) (kstar G b) := by
  simp only [M.nsiTwinness, M.kstar, eval, var, sumR, kstar]
  rfl

theorem aplus_01 (G : Gr) (a b : Nat) : aplus G a b = 0 ∨ aplus G a b = 1 := by
  unfold aplus; split <;> simp

/-- `nsi_twinness` lies in `[0, 1]` (positive node weights) -/
theorem twinness_bounds (G : Gr) (hw : ∀ k, k < G.n → 0 < G.w k) (a b : Nat) (ha : a < G.n) :
    0 ≤ eval G [a, b] M.nsiTwinness ∧ eval G [a, b] M.nsiTwinness ≤ 1 := by
  rw [twinness_eq]
  have hka := kstar_pos G hw a ha
  have hmax : 0 < max (kstar G a) (kstar G b) := lt_of_lt_of_le hka (le_max_left _ _)
  have hnum0 : 0 ≤ sumR G.n (fun k => G.w k * (aplus G a k * aplus G k b)) := by
    rw [sumR_eq_finset]
    apply Finset.sum_nonneg
    intro k hk
    have := hw k (Finset.mem_range.mp hk)
    rcases aplus_01 G a k with h1 | h1 <;> rcases aplus_01 G k b with h2 | h2 <;>
      rw [h1, h2] <;> nlinarith
  have hnumle : sumR G.n (fun k => G.w k * (aplus G a k * aplus G k b)) ≤ kstar G a := by
    unfold kstar
    rw [sumR_eq_finset, sumR_eq_finset]
    apply Finset.sum_le_sum
    intro k hk
    have := hw k (Finset.mem_range.mp hk)
    rcases aplus_01 G a k with h1 | h1 <;> rcases aplus_01 G k b with h2 | h2 <;>
      rw [h1, h2] <;> nlinarith
  rcases aplus_01 G a b with h | h
  · rw [h]; simp
  · rw [h, one_mul]
    constructor
    · exact div_nonneg hnum0 hmax.le
    · rw [div_le_one hmax]
      exact le_trans hnumle (le_max_left _ _)

/-- `nsi_twinness(i, i) = 1` on undirected networks -/
theorem twinness_diag (G : Gr) (hw : ∀ k, k < G.n → 0 < G.w k)
    (hsym : ∀ i j, aplus G i j = aplus G j i) (a : Nat) (ha : a < G.n) :
    eval G [a, a] M.nsiTwinness = 1 := by
  rw [twinness_eq]
  have hka := kstar_pos G hw a ha
  have h1 : aplus G a a = 1 := by simp [aplus]
  have hnum : sumR G.n (fun k => G.w k * (aplus G a k * aplus G k a)) = kstar G a := by
    unfold kstar
    apply sumR_congr
    intro k _
    rw [hsym k a]
    rcases aplus_01 G a k with h | h <;> rw [h] <;> ring
  rw [h1, hnum, max_self, one_mul]
  exact div_self (ne_of_gt hka)

end Pyunicorn.Nsi
