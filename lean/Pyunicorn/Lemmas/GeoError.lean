import Mathlib.Analysis.SpecialFunctions.Trigonometric.Inverse
import Mathlib.Analysis.SpecialFunctions.Trigonometric.Bounds
import Pyunicorn.Model.Geo
/-! Error propagation for C12 (grid geometry): how a perturbation of the *cosine*
of the angular distance (the value the compiled kernel stores) shows up in the
angle `arccos` returns.

* `arccos_sub_le` — modulus of continuity of `arccos` on `[-1, 1]`: a change of the
  argument by at most `η` changes the angle by at most `arccos (1 - η)` (attained at
  the end points, i.e. for coincident / antipodal pairs);
* `arccos_one_sub_lt` — `arccos (1 - η) < 2⁻¹⁰` for `η ≤ 2⁻²¹ - 2⁻³⁹`;
* `arccos_sub_le_mid` — away from the end points (`m ≤ angle ≤ π - m`) the change of
  the angle is at most `π / (2 sin m) · η` (linear in `η`);
* `clamp_close` — the clamp to `[-1, 1]` never increases the distance to a value
  that lies in `[-1, 1]`. -/
namespace Pyunicorn.Geo

open Real

/-- for `y ≤ x` in `[-1, 1]`:  `1 - (x - y) ≤ cos (arccos y - arccos x)` -/
theorem one_sub_le_cos_arccos_sub (x y : ℝ) (hx1 : x ≤ 1) (hy1 : -1 ≤ y) (hyx : y ≤ x) :
    1 - (x - y) ≤ cos (arccos y - arccos x) := by
  have hx0 : -1 ≤ x := le_trans hy1 hyx
  have hy2 : y ≤ 1 := le_trans hyx hx1
  rw [cos_sub, cos_arccos hy1 hy2, cos_arccos hx0 hx1, sin_arccos, sin_arccos]
  have hp : 0 ≤ (1 - x) * (1 + y) := mul_nonneg (by linarith) (by linarith)
  have key : (1 - x) * (1 + y) ≤ √(1 - y ^ 2) * √(1 - x ^ 2) := by
    rw [← Real.sqrt_mul (by nlinarith)]
    apply Real.le_sqrt_of_sq_le
    have h1 : 0 ≤ (1 - x) * (1 + y) := hp
    have h2 : (1 - x) * (1 + y) ≤ (1 + x) * (1 - y) := by nlinarith
    have h3 : (1 - y ^ 2) * (1 - x ^ 2) = ((1 - x) * (1 + y)) * ((1 + x) * (1 - y)) := by ring
    rw [h3, sq]
    exact mul_le_mul_of_nonneg_left h2 h1
  nlinarith

/-- **modulus of continuity of `arccos`**: for `x y ∈ [-1, 1]` with `|x - y| ≤ η` the
angles differ by at most `arccos (1 - η)`. -/
theorem arccos_sub_le (x y η : ℝ) (hx0 : -1 ≤ x) (hx1 : x ≤ 1) (hy0 : -1 ≤ y) (hy1 : y ≤ 1)
    (h : |x - y| ≤ η) : |arccos x - arccos y| ≤ arccos (1 - η) := by
  have hη := abs_le.1 h
  rcases le_total y x with hyx | hxy
  · -- arccos x ≤ arccos y
    have hle : arccos x ≤ arccos y := antitone_arccos hyx
    rw [abs_sub_comm, abs_of_nonneg (by linarith)]
    have hc := one_sub_le_cos_arccos_sub x y hx1 hy0 hyx
    have hd0 : 0 ≤ arccos y - arccos x := by linarith
    have hdπ : arccos y - arccos x ≤ π := by linarith [arccos_le_pi y, arccos_nonneg x]
    rw [← arccos_cos hd0 hdπ]
    apply antitone_arccos
    linarith [hη.2]
  · have hle : arccos y ≤ arccos x := antitone_arccos hxy
    rw [abs_of_nonneg (by linarith)]
    have hc := one_sub_le_cos_arccos_sub y x hy1 hx0 hxy
    have hd0 : 0 ≤ arccos x - arccos y := by linarith
    have hdπ : arccos x - arccos y ≤ π := by linarith [arccos_le_pi x, arccos_nonneg y]
    rw [← arccos_cos hd0 hdπ]
    apply antitone_arccos
    linarith [hη.1]

/-- `arccos (1 - η) ≤ t` as soon as `cos t ≤ 1 - η` (for `t ∈ [0, π]`) -/
theorem arccos_one_sub_le (η t : ℝ) (ht0 : 0 ≤ t) (htπ : t ≤ π) (h : cos t ≤ 1 - η) :
    arccos (1 - η) ≤ t := by
  rw [← arccos_cos ht0 htπ]
  exact antitone_arccos h

/-- the constant of the property statement: a cosine perturbation of at most
`2⁻²¹ - 2⁻³⁹` moves the angle by less than `2⁻¹⁰` rad — anywhere, also at coincident
and antipodal pairs where `arccos` is not Lipschitz. -/
theorem arccos_one_sub_lt (η : ℝ) (h : η ≤ 2⁻¹ ^ 21 - 2⁻¹ ^ 39) :
    arccos (1 - η) < 2⁻¹ ^ 10 := by
  obtain ⟨t, ht⟩ : ∃ t : ℝ, t = 2⁻¹ ^ 10 - 2⁻¹ ^ 30 := ⟨_, rfl⟩
  have ht0 : 0 ≤ t := by rw [ht]; norm_num
  have ht1 : |t| ≤ 1 := by rw [abs_of_nonneg ht0, ht]; norm_num
  have htπ : t ≤ π := by
    have h2 := Real.two_le_pi
    have : t ≤ 1 := by rw [ht]; norm_num
    linarith
  have hb := (abs_le.1 (Real.cos_bound ht1)).2
  rw [abs_of_nonneg ht0] at hb
  have hcos : cos t ≤ 1 - η := by
    have : 1 - t ^ 2 / 2 + t ^ 4 * (5 / 96) ≤ 1 - (2⁻¹ ^ 21 - 2⁻¹ ^ 39 : ℝ) := by
      rw [ht]; norm_num
    linarith
  have := arccos_one_sub_le η t ht0 htπ hcos
  have : t < 2⁻¹ ^ 10 := by rw [ht]; norm_num
  linarith

/-- **away from the end points the dependence is linear**: if both angles lie in
`[m, π - m]` (`0 < m`), then `|arccos x - arccos y| ≤ π / (2 sin m) · |x - y|`. -/
theorem arccos_sub_le_mid (x y m : ℝ) (hx0 : -1 ≤ x) (hx1 : x ≤ 1) (hy0 : -1 ≤ y) (hy1 : y ≤ 1)
    (hm : 0 < m) (hxa : m ≤ arccos x) (hxb : arccos x ≤ π - m)
    (hya : m ≤ arccos y) (hyb : arccos y ≤ π - m) :
    |arccos x - arccos y| ≤ π / (2 * sin m) * |x - y| := by
  have hmπ : m ≤ π / 2 := by linarith
  have hsm : 0 < sin m := sin_pos_of_pos_of_lt_pi hm (by linarith [Real.pi_pos])
  -- wlog arccos x ≤ arccos y
  have main : ∀ a b : ℝ, m ≤ a → a ≤ b → b ≤ π - m →
      b - a ≤ π / (2 * sin m) * (cos a - cos b) := by
    intro a b ha hab hb
    have hcs : cos a - cos b = 2 * sin ((a + b) / 2) * sin ((b - a) / 2) := by
      rw [cos_sub_cos]
      have : (a - b) / 2 = -((b - a) / 2) := by ring
      rw [this, sin_neg]; ring
    have hs1 : sin m ≤ sin ((a + b) / 2) := by
      rcases le_total ((a + b) / 2) (π / 2) with h | h
      · exact sin_le_sin_of_le_of_le_pi_div_two (by linarith) h (by linarith)
      · rw [← sin_pi_sub ((a + b) / 2)]
        exact sin_le_sin_of_le_of_le_pi_div_two (by linarith) (by linarith) (by linarith)
    have hd0 : 0 ≤ (b - a) / 2 := by linarith
    have hd1 : (b - a) / 2 ≤ π / 2 := by linarith
    have hs2 := mul_le_sin hd0 hd1
    have hs2' : (b - a) / π ≤ sin ((b - a) / 2) := by
      have : 2 / π * ((b - a) / 2) = (b - a) / π := by field_simp
      linarith
    have hq0 : 0 ≤ (b - a) / π := div_nonneg (by linarith) Real.pi_pos.le
    have hprod : sin m * ((b - a) / π) ≤ sin ((a + b) / 2) * sin ((b - a) / 2) :=
      mul_le_mul hs1 hs2' hq0 (le_trans hsm.le hs1)
    rw [hcs]
    have : π / (2 * sin m) * (2 * sin ((a + b) / 2) * sin ((b - a) / 2))
        = π / sin m * (sin ((a + b) / 2) * sin ((b - a) / 2)) := by
      field_simp
    rw [this]
    have h2 : π / sin m * (sin m * ((b - a) / π)) = b - a := by
      field_simp
    calc b - a = π / sin m * (sin m * ((b - a) / π)) := h2.symm
      _ ≤ π / sin m * (sin ((a + b) / 2) * sin ((b - a) / 2)) :=
          mul_le_mul_of_nonneg_left hprod (div_nonneg Real.pi_pos.le hsm.le)
  rcases le_total (arccos x) (arccos y) with h | h
  · have := main (arccos x) (arccos y) hxa h hyb
    rw [cos_arccos hx0 hx1, cos_arccos hy0 hy1] at this
    rw [abs_sub_comm, abs_of_nonneg (by linarith)]
    refine le_trans this ?_
    apply mul_le_mul_of_nonneg_left _ (div_nonneg Real.pi_pos.le (by linarith))
    exact le_abs_self _
  · have := main (arccos y) (arccos x) hya h hxb
    rw [cos_arccos hx0 hx1, cos_arccos hy0 hy1] at this
    rw [abs_of_nonneg (by linarith)]
    refine le_trans this ?_
    apply mul_le_mul_of_nonneg_left _ (div_nonneg Real.pi_pos.le (by linarith))
    rw [abs_sub_comm]; exact le_abs_self _

/-- the clamp to `[-1, 1]` is the metric projection: it never moves a value away
from a point of `[-1, 1]` -/
theorem clamp_close (c' c : ℝ) (h0 : -1 ≤ c) (h1 : c ≤ 1) : |clamp c' - c| ≤ |c' - c| := by
  unfold clamp
  split_ifs with ha hb
  · rw [abs_of_nonneg (by linarith), abs_of_nonneg (by linarith)]; linarith
  · rw [abs_sub_comm, abs_of_nonneg (by linarith), abs_sub_comm c', abs_of_nonneg (by linarith)]
    linarith
  · exact le_refl _

end Pyunicorn.Geo
