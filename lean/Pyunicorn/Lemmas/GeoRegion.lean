import Pyunicorn.Lemmas.Geo
import Pyunicorn.Model.GeoRegion
/-! Helper lemmas for the round-5e part of C12 (`GeoGrid.region_indices`): the crossing test of
matplotlib's `point_in_path_impl` on the edges of an axis-parallel box. -/
namespace Pyunicorn.Geo
set_option linter.unusedSectionVars false
set_option linter.unusedSimpArgs false
set_option linter.unusedVariables false

section RegionLemmas
variable {α : Type} [Field α] [LinearOrder α] [IsStrictOrderedRing α]

/-- a horizontal edge never toggles (both end points on the same side of the ray) -/
theorem edgeToggle_horizontal (a b y : α) (t : α × α) : edgeToggle (a, y) (b, y) t = false := by
  simp [edgeToggle]

/-- the upward vertical edge at longitude `x` toggles exactly for the points at or left of it
whose latitude lies in `(y0, y1]` -/
theorem edgeToggle_up (x y0 y1 : α) (t : α × α) (h : y0 ≤ y1) :
    edgeToggle (x, y0) (x, y1) t
      = (decide (y0 < t.2) && decide (t.2 ≤ y1) && decide (t.1 ≤ x)) := by
  unfold edgeToggle
  by_cases a : t.2 ≤ y0 <;> by_cases b : t.2 ≤ y1
  · have : ¬ y0 < t.2 := not_lt.mpr a
    simp [a, b, this]
  · exact absurd (le_trans a h) b
  · have a' : y0 < t.2 := not_le.mp a
    have hneg : y0 - y1 < 0 := by linarith
    by_cases c : t.1 ≤ x
    · have : (x - t.1) * (y0 - y1) ≤ 0 := mul_nonpos_of_nonneg_of_nonpos (by linarith) hneg.le
      simp [a, b, a', c, this]
    · have c' : x - t.1 < 0 := by linarith [not_le.mp c]
      have : 0 < (x - t.1) * (y0 - y1) := mul_pos_of_neg_of_neg c' hneg
      simp [a, b, a', c, this]
  · have a' : y0 < t.2 := not_le.mp a
    simp [a, b, a']

/-- the downward vertical edge at longitude `x` toggles exactly for the points strictly left
of it whose latitude lies in `(y0, y1]` -/
theorem edgeToggle_down (x y0 y1 : α) (t : α × α) (h : y0 ≤ y1) :
    edgeToggle (x, y1) (x, y0) t
      = (decide (y0 < t.2) && decide (t.2 ≤ y1) && decide (t.1 < x)) := by
  unfold edgeToggle
  by_cases a : t.2 ≤ y0 <;> by_cases b : t.2 ≤ y1
  · have : ¬ y0 < t.2 := not_lt.mpr a
    simp [a, b, this]
  · exact absurd (le_trans a h) b
  · have a' : y0 < t.2 := not_le.mp a
    have hpos : 0 < y1 - y0 := by linarith
    by_cases c : t.1 < x
    · have c' : 0 < x - t.1 := by linarith
      have : 0 < (x - t.1) * (y1 - y0) := mul_pos c' hpos
      simp [a, b, a', c, this]
    · have c' : x - t.1 ≤ 0 := by linarith [not_lt.mp c]
      have : (x - t.1) * (y1 - y0) ≤ 0 := mul_nonpos_of_nonpos_of_nonneg c' hpos.le
      simp [a, b, a', c, this]
  · have a' : y0 < t.2 := not_le.mp a
    simp [a, b, a']

/-- **the box.**  matplotlib's crossing test on `boxRegion x0 y0 x1 y1` (already paired) is
`inBox`: closed in longitude, `(y0, y1]` in latitude -/
theorem containsPoint_box (x0 y0 x1 y1 : α) (t : α × α) (hx : x0 ≤ x1) (hy : y0 ≤ y1) :
    containsPoint (pairUp (boxRegion x0 y0 x1 y1)) t = inBox x0 y0 x1 y1 t := by
  simp only [boxRegion, pairUp, containsPoint, closedEdges, List.length_cons, List.length_nil,
    List.cons_append, List.nil_append, List.zip_cons_cons, List.zip_nil_right, List.foldl_cons,
    List.foldl_nil]
  rw [edgeToggle_horizontal, edgeToggle_up x1 y0 y1 t hy, edgeToggle_horizontal,
    edgeToggle_down x0 y0 y1 t hy]
  unfold inBox
  by_cases a : y0 < t.2 <;> by_cases b : t.2 ≤ y1 <;> by_cases c : x0 ≤ t.1 <;>
    by_cases d : t.1 ≤ x1 <;> simp [a, b, c, d, not_lt.mpr, not_le.mp]
  all_goals exact absurd (le_trans (le_of_lt (not_le.mp c)) hx) d

theorem inBox_iff (x0 y0 x1 y1 : α) (t : α × α) :
    inBox x0 y0 x1 y1 t = true ↔ (x0 ≤ t.1 ∧ t.1 ≤ x1) ∧ (y0 < t.2 ∧ t.2 ≤ y1) := by
  simp [inBox, and_assoc]

/-- a larger box contains every point of a smaller one -/
theorem inBox_mono {x0 y0 x1 y1 x0' y0' x1' y1' : α} (t : α × α)
    (h0 : x0' ≤ x0) (h1 : x1 ≤ x1') (h2 : y0' ≤ y0) (h3 : y1 ≤ y1')
    (h : inBox x0 y0 x1 y1 t = true) : inBox x0' y0' x1' y1' t = true := by
  rw [inBox_iff] at h ⊢
  exact ⟨⟨le_trans h0 h.1.1, le_trans h.1.2 h1⟩, ⟨lt_of_le_of_lt h2 h.2.1, le_trans h.2.2 h3⟩⟩

theorem pairUp_box_map (f : α → α) (x0 y0 x1 y1 : α) :
    (pairUp (boxRegion x0 y0 x1 y1)).map (fun p => (f p.1, p.2))
      = pairUp (boxRegion (f x0) y0 (f x1) y1) := by
  simp [boxRegion, pairUp]

end RegionLemmas

end Pyunicorn.Geo
