import Pyunicorn.Lemmas.Circuit
import Mathlib.Algebra.BigOperators.Intervals
import Mathlib.Tactic.LinearCombination
/-! C18, round 2: series law for chains of any length, parallel law for bundles of any width
(explicit node potentials). -/
namespace Pyunicorn.Circuit
open Finset

/-! ### series: the chain `0 — 1 — … — (n-1)` -/

/-- resistance of the first `m` links of the chain -/
def prefixRes (res : Mat) (m : Nat) : Rat := ∑ k ∈ range m, res k (k + 1)

/-- potentials of the unit current `a → b` (`a ≤ b`) on the chain: the resistance between
node `i` (clamped into `[a, b]`) and `b` -/
def chainPot (res : Mat) (a b : Nat) : Vec :=
  fun i => prefixRes res b - prefixRes res (min (max i a) b)

theorem chainPot_step (res : Mat) (a b i : Nat) :
    chainPot res a b i - chainPot res a b (i + 1)
      = if a ≤ i ∧ i < b then res i (i + 1) else 0 := by
  unfold chainPot
  split
  · next h =>
    have e1 : min (max i a) b = i := by omega
    have e2 : min (max (i + 1) a) b = i + 1 := by omega
    rw [e1, e2]; unfold prefixRes; rw [Finset.sum_range_succ]; ring
  · next h =>
    have e : min (max (i + 1) a) b = min (max i a) b := by omega
    rw [e]; ring

/-- Kirchhoff's law at node `i` of a chain: only the two chain neighbours contribute -/
theorem chain_row (n : Nat) (res : Mat) (v : Vec) (i : Nat) (hi : i < n) :
    ∑ j ∈ range n, admittance chainAdj res i j * (v i - v j)
      = (if i + 1 < n then 1 / res i (i + 1) * (v i - v (i + 1)) else 0)
        + (if 1 ≤ i then 1 / res i (i - 1) * (v i - v (i - 1)) else 0) := by
  have hterm : ∀ j ∈ range n, admittance chainAdj res i j * (v i - v j)
      = (if j = i + 1 then 1 / res i (i + 1) * (v i - v (i + 1)) else 0)
        + (if 1 ≤ i then (if j = i - 1 then 1 / res i (i - 1) * (v i - v (i - 1)) else 0) else 0) := by
    intro j _
    unfold admittance chainAdj
    by_cases h1 : j = i + 1
    · subst h1
      have : ¬ (i + 1 = i - 1) := by omega
      simp [this]
    · by_cases h2 : j + 1 = i
      · subst h2
        have : ¬ j = j + 1 + 1 := by omega
        simp [this]
      · have h1' : ¬ (i + 1 = j) := fun e => h1 e.symm
        have h3 : ¬ (1 ≤ i ∧ j = i - 1) := by omega
        by_cases h4 : 1 ≤ i
        · have : ¬ j = i - 1 := fun e => h3 ⟨h4, e⟩
          simp [h1, h1', h2, this]
        · simp [h1, h1', h2, h4]
  rw [Finset.sum_congr rfl hterm, Finset.sum_add_distrib]
  congr 1
  · rw [Finset.sum_ite_eq']; simp
  · split
    · next h1 =>
      rw [Finset.sum_ite_eq']
      have : i - 1 ∈ range n := Finset.mem_range.mpr (by omega)
      simp [this]
    · simp

theorem chain_isPot (n : Nat) (res : Mat) (a b : Nat) (hab : a ≤ b) (hb : b < n)
    (hN : IsNetwork n chainAdj res) :
    IsPot n (laplacian n (admittance chainAdj res)) (chainPot res a b) a b := by
  intro i hi
  rw [lap_mulVec n _ _ i hi (adm_symm hN), chain_row n res _ i hi]
  have hne : ∀ k, k + 1 < n → res k (k + 1) ≠ 0 := fun k hk =>
    ne_of_gt (hN.res_pos k (k + 1) (by omega) hk (by simp [chainAdj]))
  have hA : (if i + 1 < n then 1 / res i (i + 1) * (chainPot res a b i - chainPot res a b (i + 1)) else 0)
      = if a ≤ i ∧ i < b then (1 : Rat) else 0 := by
    rw [chainPot_step]
    by_cases h : a ≤ i ∧ i < b
    · have h1 : i + 1 < n := by omega
      simp only [h, h1, and_self, if_true]
      field_simp [hne i h1]
    · have : ¬ (a ≤ i ∧ i < b) := h
      simp [this]
  have hB : (if 1 ≤ i then 1 / res i (i - 1) * (chainPot res a b i - chainPot res a b (i - 1)) else 0)
      = if a + 1 ≤ i ∧ i < b + 1 then (-1 : Rat) else 0 := by
    by_cases h1 : 1 ≤ i
    · obtain ⟨k, rfl⟩ : ∃ k, i = k + 1 := ⟨i - 1, by omega⟩
      have hk : k + 1 < n := hi
      have hs : res (k + 1) k = res k (k + 1) := hN.res_symm (k + 1) k hi (by omega)
      have hstep := chainPot_step res a b k
      simp only [Nat.add_sub_cancel, h1, if_true, hs]
      have : chainPot res a b (k + 1) - chainPot res a b k
          = -(if a ≤ k ∧ k < b then res k (k + 1) else 0) := by rw [← hstep]; ring
      rw [this]
      by_cases h : a ≤ k ∧ k < b
      · have h' : a + 1 ≤ k + 1 ∧ k + 1 < b + 1 := by omega
        simp only [h, h', and_self, if_true]
        field_simp [hne k hk]
      · have h' : ¬ (a + 1 ≤ k + 1 ∧ k + 1 < b + 1) := by omega
        rw [if_neg h, if_neg h']; simp
    · have h' : ¬ (a + 1 ≤ i ∧ i < b + 1) := by omega
      rw [if_neg h1, if_neg h']
  rw [hA, hB]
  by_cases e1 : i = a <;> by_cases e2 : i = b
  · have h : ¬ (a ≤ i ∧ i < b) := by omega
    have h' : ¬ (a + 1 ≤ i ∧ i < b + 1) := by omega
    rw [if_neg h, if_neg h', if_pos e1, if_pos e2]; norm_num
  · have h : (a ≤ i ∧ i < b) := by omega
    have h' : ¬ (a + 1 ≤ i ∧ i < b + 1) := by omega
    rw [if_pos h, if_neg h', if_pos e1, if_neg e2]; norm_num
  · have h : ¬ (a ≤ i ∧ i < b) := by omega
    have h' : (a + 1 ≤ i ∧ i < b + 1) := by omega
    rw [if_neg h, if_pos h', if_neg e1, if_pos e2]; norm_num
  · by_cases h : a ≤ i ∧ i < b
    · have h' : (a + 1 ≤ i ∧ i < b + 1) := by omega
      rw [if_pos h, if_pos h', if_neg e1, if_neg e2]; norm_num
    · have h' : ¬ (a + 1 ≤ i ∧ i < b + 1) := by omega
      rw [if_neg h, if_neg h', if_neg e1, if_neg e2]; norm_num

theorem chainPot_drop (res : Mat) (a b : Nat) (hab : a ≤ b) :
    chainPot res a b a - chainPot res a b b = ∑ k ∈ Finset.Ico a b, res k (k + 1) := by
  unfold chainPot
  have e1 : min (max a a) b = a := by omega
  have e2 : min (max b a) b = b := by omega
  rw [e1, e2, Finset.sum_Ico_eq_sub _ hab]
  unfold prefixRes
  ring

/-! ### parallel: `n − 2` two-link branches `0 — m — 1` (`m ≥ 2`), optionally a direct link -/

/-- links of the bundle: terminals `0`, `1`; every node `m ≥ 2` is linked to both terminals;
`direct` adds the link `0 — 1` -/
def bundleAdj (direct : Bool) : Adj := fun i j =>
  (i ≤ 1 && 2 ≤ j) || (j ≤ 1 && 2 ≤ i) || (direct && ((i == 0 && j == 1) || (i == 1 && j == 0)))

/-- total conductance between the terminals according to the series and parallel laws -/
def bundleG (n : Nat) (direct : Bool) (res : Mat) : Rat :=
  (if direct then 1 / res 0 1 else 0) + ∑ m ∈ Finset.Ico 2 n, 1 / (res 0 m + res m 1)

/-- potentials of the unit current `0 → 1` -/
def bundlePot (n : Nat) (direct : Bool) (res : Mat) : Vec := fun i =>
  if i = 0 then 1 / bundleG n direct res
  else if i = 1 then 0
  else 1 / bundleG n direct res * (res i 1 / (res 0 i + res i 1))

theorem sum_range_split2 (n : Nat) (hn : 2 ≤ n) (f : Nat → Rat) :
    ∑ j ∈ range n, f j = f 0 + f 1 + ∑ j ∈ Finset.Ico 2 n, f j := by
  rw [Finset.range_eq_Ico, Finset.sum_eq_sum_Ico_succ_bot (by omega),
    Finset.sum_eq_sum_Ico_succ_bot (by omega)]
  ring

theorem bundle_isPot (n : Nat) (hn : 2 ≤ n) (direct : Bool) (res : Mat)
    (hN : IsNetwork n (bundleAdj direct) res) (hG : bundleG n direct res ≠ 0) :
    IsPot n (laplacian n (admittance (bundleAdj direct) res)) (bundlePot n direct res) 0 1 := by
  intro i hi
  rw [lap_mulVec n _ _ i hi (adm_symm hN)]
  set E := 1 / bundleG n direct res with hE
  have hpos0 : ∀ m, 2 ≤ m → m < n → 0 < res 0 m := fun m h2 hm =>
    hN.res_pos 0 m (by omega) hm (by simp [bundleAdj, h2])
  have hpos1 : ∀ m, 2 ≤ m → m < n → 0 < res m 1 := fun m h2 hm =>
    hN.res_pos m 1 hm (by omega) (by simp [bundleAdj, h2])
  have hsym0 : ∀ m, m < n → res m 0 = res 0 m := fun m hm => hN.res_symm m 0 hm (by omega)
  have hsym1 : ∀ m, m < n → res 1 m = res m 1 := fun m hm => hN.res_symm 1 m (by omega) hm
  have hv0 : bundlePot n direct res 0 = E := by simp [bundlePot, hE]
  have hv1 : bundlePot n direct res 1 = 0 := by simp [bundlePot]
  have hvm : ∀ m, 2 ≤ m → bundlePot n direct res m = E * (res m 1 / (res 0 m + res m 1)) := by
    intro m hm
    have h0 : m ≠ 0 := by omega
    have h1 : m ≠ 1 := by omega
    simp [bundlePot, h0, h1, hE]
  have hEG : E * bundleG n direct res = 1 := by rw [hE]; field_simp
  by_cases e0 : i = 0
  · subst e0
    rw [sum_range_split2 n hn]
    have hmid : ∀ m ∈ Finset.Ico 2 n, admittance (bundleAdj direct) res 0 m
        * (bundlePot n direct res 0 - bundlePot n direct res m) = E * (1 / (res 0 m + res m 1)) := by
      intro m hm
      obtain ⟨h2, hmn⟩ := Finset.mem_Ico.mp hm
      have p0 := hpos0 m h2 hmn
      have p1 := hpos1 m h2 hmn
      have c : admittance (bundleAdj direct) res 0 m = 1 / res 0 m := by
        simp [admittance, bundleAdj, h2]
      rw [hv0, hvm m h2, c]
      field_simp
      ring
    rw [Finset.sum_congr rfl hmid, ← Finset.mul_sum, hv0, hv1]
    have hdir : admittance (bundleAdj direct) res 0 1 = if direct then 1 / res 0 1 else 0 := by
      cases direct <;> simp [admittance, bundleAdj]
    rw [hdir]
    have : admittance (bundleAdj direct) res 0 0 * (E - E) = 0 := by ring
    rw [this]
    have hg : E * ((if direct then 1 / res 0 1 else 0) + ∑ m ∈ Finset.Ico 2 n, 1 / (res 0 m + res m 1)) = 1 := hEG
    have r : ((if (0 : Nat) = 0 then (1 : Rat) else 0) - (if (0 : Nat) = 1 then 1 else 0)) = 1 := by
      norm_num
    rw [r]
    linear_combination hg
  · by_cases e1 : i = 1
    · subst e1
      rw [sum_range_split2 n hn]
      have hmid : ∀ m ∈ Finset.Ico 2 n, admittance (bundleAdj direct) res 1 m
          * (bundlePot n direct res 1 - bundlePot n direct res m) = -(E * (1 / (res 0 m + res m 1))) := by
        intro m hm
        obtain ⟨h2, hmn⟩ := Finset.mem_Ico.mp hm
        have p0 := hpos0 m h2 hmn
        have p1 := hpos1 m h2 hmn
        have c : admittance (bundleAdj direct) res 1 m = 1 / res m 1 := by
          simp [admittance, bundleAdj, h2, hsym1 m hmn]
        rw [hv1, hvm m h2, c]
        field_simp
        ring
      rw [Finset.sum_congr rfl hmid, Finset.sum_neg_distrib, ← Finset.mul_sum, hv0, hv1]
      have hdir : admittance (bundleAdj direct) res 1 0 = if direct then 1 / res 0 1 else 0 := by
        cases direct <;> simp [admittance, bundleAdj, hsym0 1 (by omega)]
      rw [hdir]
      have hg : E * ((if direct then 1 / res 0 1 else 0) + ∑ m ∈ Finset.Ico 2 n, 1 / (res 0 m + res m 1)) = 1 := hEG
      have : admittance (bundleAdj direct) res 1 1 * (0 - 0) = 0 := by ring
      rw [this]
      have r : ((if (1 : Nat) = 0 then (1 : Rat) else 0) - (if (1 : Nat) = 1 then 1 else 0)) = -1 := by
        norm_num
      rw [r]
      linear_combination -hg
    · have h2 : 2 ≤ i := by omega
      rw [sum_range_split2 n hn]
      have hmid : ∀ m ∈ Finset.Ico 2 n, admittance (bundleAdj direct) res i m
          * (bundlePot n direct res i - bundlePot n direct res m) = 0 := by
        intro m hm
        obtain ⟨hm2, _⟩ := Finset.mem_Ico.mp hm
        have a1 : ¬ i ≤ 1 := by omega
        have a2 : ¬ m ≤ 1 := by omega
        have a3 : ¬ i = 0 := by omega
        have a4 : ¬ i = 1 := by omega
        simp [admittance, bundleAdj, a1, a2, a3, a4]
      rw [Finset.sum_eq_zero hmid, hv0, hv1, hvm i h2]
      have p0 := hpos0 i h2 hi
      have p1 := hpos1 i h2 hi
      have c0 : admittance (bundleAdj direct) res i 0 = 1 / res 0 i := by
        simp [admittance, bundleAdj, h2, hsym0 i hi]
      have c1 : admittance (bundleAdj direct) res i 1 = 1 / res i 1 := by
        simp [admittance, bundleAdj, h2]
      rw [c0, c1, if_neg e0, if_neg e1]
      field_simp
      ring

theorem bundlePot_drop (n : Nat) (direct : Bool) (res : Mat) :
    bundlePot n direct res 0 - bundlePot n direct res 1 = 1 / bundleG n direct res := by
  simp [bundlePot]

theorem bundleG_pos (n : Nat) (direct : Bool) (res : Mat)
    (hN : IsNetwork n (bundleAdj direct) res) (hne : (direct = true ∧ 2 ≤ n) ∨ 3 ≤ n) :
    0 < bundleG n direct res := by
  unfold bundleG
  have hterm : ∀ m ∈ Finset.Ico 2 n, 0 < 1 / (res 0 m + res m 1) := by
    intro m hm
    obtain ⟨h2, hmn⟩ := Finset.mem_Ico.mp hm
    have p0 := hN.res_pos 0 m (by omega) hmn (by simp [bundleAdj, h2])
    have p1 := hN.res_pos m 1 hmn (by omega) (by simp [bundleAdj, h2])
    exact one_div_pos.mpr (by linarith)
  have hsum : 0 ≤ ∑ m ∈ Finset.Ico 2 n, 1 / (res 0 m + res m 1) :=
    Finset.sum_nonneg fun m hm => le_of_lt (hterm m hm)
  cases hd : direct with
  | true =>
    rcases hne with ⟨_, h2⟩ | h3
    · have p := hN.res_pos 0 1 (by omega) (by omega) (by simp [bundleAdj, hd])
      have : 0 < 1 / res 0 1 := one_div_pos.mpr p
      simp only [if_true]
      linarith
    · have p := hN.res_pos 0 1 (by omega) (by omega) (by simp [bundleAdj, hd])
      have : 0 < 1 / res 0 1 := one_div_pos.mpr p
      simp only [if_true]
      linarith
  | false =>
    have h3 : 3 ≤ n := by
      rcases hne with ⟨hd', _⟩ | h3
      · rw [hd] at hd'; exact absurd hd' (by simp)
      · exact h3
    have : 0 < ∑ m ∈ Finset.Ico 2 n, 1 / (res 0 m + res m 1) :=
      Finset.sum_pos hterm ⟨2, Finset.mem_Ico.mpr ⟨le_refl _, by omega⟩⟩
    simp only [Bool.false_eq_true, if_false]
    linarith

/-! ### ordered vs unordered pair sums -/

theorem sum_ordered_eq_two_lower (f : Nat → Nat → Rat) (n : Nat)
    (hsym : ∀ i j, i < n → j < n → f i j = f j i) (hdiag : ∀ i, i < n → f i i = 0) :
    ∑ i ∈ range n, ∑ j ∈ range n, f i j = 2 * ∑ i ∈ range n, ∑ j ∈ range i, f i j := by
  induction n with
  | zero => simp
  | succ n ih =>
    have ih' := ih (fun i j hi hj => hsym i j (by omega) (by omega)) (fun i hi => hdiag i (by omega))
    rw [Finset.sum_range_succ, Finset.sum_range_succ (fun i => ∑ j ∈ range i, f i j)]
    have h1 : ∑ i ∈ range n, ∑ j ∈ range (n + 1), f i j
        = ∑ i ∈ range n, ∑ j ∈ range n, f i j + ∑ i ∈ range n, f i n := by
      rw [← Finset.sum_add_distrib]
      exact Finset.sum_congr rfl fun i _ => Finset.sum_range_succ _ _
    have h2 : ∑ i ∈ range n, f i n = ∑ j ∈ range n, f n j :=
      Finset.sum_congr rfl fun i hi => hsym i n (by have := Finset.mem_range.mp hi; omega) (by omega)
    rw [h1, ih', h2, Finset.sum_range_succ (fun j => f n j), hdiag n (by omega)]
    ring

end Pyunicorn.Circuit
