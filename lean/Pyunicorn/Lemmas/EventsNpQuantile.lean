import Pyunicorn.Lemmas.EventsQuantile
import Mathlib.Algebra.Order.Field.Rat
import Mathlib.Algebra.Order.Floor.Ring
import Mathlib.Tactic.Linarith
import Mathlib.Tactic.Ring
/-! C16 (round 4): `np.quantile` / `np.median` as NumPy computes them (`npQuantile`, `npMedian`:
virtual index, `_get_indexes` with its two clippings, `_get_gamma`, the two-branch `_lerp`)
are the order-statistic interpolation `quantile` / `median` of the model, and the
thresholding routed through them and through a float64 threshold array is `makeEventMatrix`. -/
namespace Pyunicorn.Events

/-- **both branches of NumPy's `_lerp` are the same interpolation** `a + (b - a)·t` -/
theorem npLerp_eq (a b t : ℚ) : npLerp a b t = a + (b - a) * t := by
  unfold npLerp
  split <;> ring

/-- … which is the convex combination `(1 - t)·a + t·b` -/
theorem npLerp_convex (a b t : ℚ) : npLerp a b t = (1 - t) * a + t * b := by
  rw [npLerp_eq]; ring

theorem npLerp_same (a t : ℚ) : npLerp a a t = a := by
  rw [npLerp_eq]; ring

theorem pyIdx_nonneg (s : List ℚ) (i : Int) (h : 0 ≤ i) : pyIdx s i = s.getD i.toNat 0 := by
  unfold pyIdx
  rw [if_neg (by omega)]

theorem pyIdx_last (s : List ℚ) : pyIdx s (-1) = s.getD (s.length - 1) 0 := by
  unfold pyIdx
  simp

theorem natCast_sub_one (n : ℕ) (hn : 1 ≤ n) : ((n - 1 : ℕ) : ℚ) = (n : ℚ) - 1 := by
  rw [Nat.cast_sub hn]; simp

theorem npIndexes_last (v : ℚ) (n : ℕ) (h0 : 0 ≤ v) (hv : v ≥ (n : ℚ) - 1) :
    npIndexes v n = (-1, -1) := by
  unfold npIndexes
  simp only [if_pos hv, if_neg (not_lt.2 h0)]

theorem npIndexes_mid (v : ℚ) (n : ℕ) (h0 : 0 ≤ v) (hv : ¬ v ≥ (n : ℚ) - 1) :
    npIndexes v n = (v.floor, v.floor + 1) := by
  unfold npIndexes
  simp only [if_neg hv, if_neg (not_lt.2 h0)]

theorem npIndexes_below (v : ℚ) (n : ℕ) (h0 : v < 0) : npIndexes v n = (0, 0) := by
  unfold npIndexes
  simp only [if_pos h0]

theorem npQuantile_eq (a : List ℚ) (q : ℚ) :
    npQuantile a q =
      npLerp (pyIdx (sortedOf a) (npIndexes (((a.length : ℚ) - 1) * q) a.length).1)
        (pyIdx (sortedOf a) (npIndexes (((a.length : ℚ) - 1) * q) a.length).2)
        (((a.length : ℚ) - 1) * q - ((npIndexes (((a.length : ℚ) - 1) * q) a.length).1 : ℚ)) := by
  simp only [npQuantile, sortedOf, List.length_mergeSort]

/-- **NumPy's quantile algorithm computes the model's `quantile`** (method `'linear'`, any
array, `0 ≤ q ≤ 1`): the clipping of `_get_indexes` at the upper end (`-1, -1`, weight
`gamma = n`) and the `min` of the model agree, and so do the two `_lerp` branches -/
theorem npQuantile_eq_quantile (a : List ℚ) (q : ℚ) (h0 : 0 ≤ q) (h1 : q ≤ 1) :
    npQuantile a q = quantile a q := by
  by_cases hne : a = []
  · subst hne
    simp [npQuantile, quantile, pyIdx, npLerp_eq]
  have hn : 1 ≤ a.length := by
    cases a with
    | nil => exact absurd rfl hne
    | cons _ _ => simp
  obtain ⟨f1, f2, f3⟩ := qLo_facts a.length q hn h0 h1
  have hv0 : (0 : ℚ) ≤ ((a.length : ℚ) - 1) * q := by
    have : (0 : ℚ) ≤ (qLo a.length q : ℚ) := Nat.cast_nonneg _
    linarith
  have hfl0 : (0 : Int) ≤ (((a.length : ℚ) - 1) * q).floor := Rat.le_floor_iff.2 (by simpa using hv0)
  have hlo : ((qLo a.length q : ℕ) : Int) = (((a.length : ℚ) - 1) * q).floor := by
    unfold qLo; exact Int.toNat_of_nonneg hfl0
  have hloR : (qLo a.length q : ℚ) = (((((a.length : ℚ) - 1) * q).floor : Int) : ℚ) := by
    rw [← hlo]; simp
  rw [quantile_eq, npQuantile_eq]
  by_cases hab : ((a.length : ℚ) - 1) * q ≥ (a.length : ℚ) - 1
  · -- the virtual index is the last index
    rw [npIndexes_last _ _ hv0 hab]
    simp only
    rw [pyIdx_last, npLerp_same, sortedOf_length]
    have hlast : qLo a.length q = a.length - 1 := by
      have h2 : ((a.length - 1 : ℕ) : ℚ) < (qLo a.length q : ℚ) + 1 := by
        rw [natCast_sub_one _ hn]; linarith
      have h3 : a.length - 1 < qLo a.length q + 1 := by exact_mod_cast h2
      omega
    have hhi : qHi a.length q = a.length - 1 := by
      unfold qHi; rw [hlast]; simp
    rw [hhi, hlast]; ring
  · rw [npIndexes_mid _ _ hv0 hab]
    simp only
    have hlt : qLo a.length q + 1 ≤ a.length - 1 := by
      have h2 : (qLo a.length q : ℚ) < ((a.length - 1 : ℕ) : ℚ) := by
        rw [natCast_sub_one _ hn]; linarith
      have h3 : qLo a.length q < a.length - 1 := by exact_mod_cast h2
      omega
    have hhi : qHi a.length q = qLo a.length q + 1 := by
      unfold qHi; simp [Nat.min_def]; omega
    rw [pyIdx_nonneg _ _ hfl0, pyIdx_nonneg _ _ (by omega), npLerp_eq, hhi]
    have e1 : (((a.length : ℚ) - 1) * q).floor.toNat = qLo a.length q := rfl
    have e2 : ((((a.length : ℚ) - 1) * q).floor + 1).toNat = qLo a.length q + 1 := by
      rw [← hlo]; simp
    rw [e1, e2, hloR]

theorem floor_eq_of_bounds (x : ℚ) (z : Int) (h1 : (z : ℚ) ≤ x) (h2 : x < (z : ℚ) + 1) :
    x.floor = z := by
  have a1 : z ≤ x.floor := Rat.le_floor_iff.2 h1
  have a2 : (x.floor : ℚ) ≤ x := Rat.floor_le x
  have a3 : (x.floor : ℚ) < ((z + 1 : Int) : ℚ) := by push_cast; linarith
  have a4 : x.floor < z + 1 := by exact_mod_cast a3
  omega

/-- **`np.median` (middle element / mean of the two middle elements) is the `0.5`-quantile**
of the model -/
theorem median_eq_npMedian (a : List ℚ) : median a = npMedian a := by
  unfold median
  have hnp : npMedian a = if a.length % 2 = 1 then (sortedOf a).getD (a.length / 2) 0
      else ((sortedOf a).getD (a.length / 2 - 1) 0 + (sortedOf a).getD (a.length / 2) 0) / 2 := by
    simp only [npMedian, sortedOf, List.length_mergeSort]
  rw [hnp]
  by_cases hodd : a.length % 2 = 1
  · rw [if_pos hodd]
    apply quantile_at_order_statistic
    have hn : a.length = 2 * (a.length / 2) + 1 := by omega
    have : (a.length : ℚ) = 2 * ((a.length / 2 : ℕ) : ℚ) + 1 := by exact_mod_cast hn
    rw [this]; ring
  · rw [if_neg hodd]
    by_cases h0 : a.length = 0
    · have : a = [] := List.length_eq_zero_iff.1 h0
      subst this
      simp [quantile, sortedOf]
    have hn : a.length = 2 * (a.length / 2) := by omega
    have hm : 1 ≤ a.length / 2 := by omega
    have hnq : (a.length : ℚ) = 2 * ((a.length / 2 : ℕ) : ℚ) := by exact_mod_cast hn
    have hm1 : ((a.length / 2 - 1 : ℕ) : ℚ) = ((a.length / 2 : ℕ) : ℚ) - 1 := natCast_sub_one _ hm
    have hfl : (((a.length : ℚ) - 1) * (1 / 2)).floor = ((a.length / 2 - 1 : ℕ) : Int) := by
      apply floor_eq_of_bounds
      · push_cast; rw [hm1, hnq]; linarith
      · push_cast; rw [hm1, hnq]; linarith
    have hlo : qLo a.length (1 / 2) = a.length / 2 - 1 := by
      unfold qLo; rw [hfl]; simp
    have hhi : qHi a.length (1 / 2) = a.length / 2 := by
      unfold qHi; rw [hlo]; simp only [Nat.min_def]; split <;> omega
    rw [quantile_eq, hlo, hhi, hm1, hnq]
    ring

/-- the thresholding loop body through NumPy's algorithms and a float64 threshold array is
the model's `resolveThreshold` -/
theorem resolveThresholdD_float64 (col : List ℚ) (m : TMethod) (v : Option ℚ) (t : Option TType) :
    resolveThresholdD .float64 col m v t = resolveThreshold col m v t := by
  unfold resolveThresholdD resolveThreshold storeThr
  cases m with
  | quantile =>
    cases v with
    | none =>
      simp only
      rw [npQuantile_eq_quantile _ _ (by norm_num) (by norm_num)]
    | some q =>
      simp only
      split
      · rfl
      · rename_i hq
        have hq' : 0 ≤ q ∧ q ≤ 1 := by
          constructor
          · by_contra hc; exact hq (Or.inr (lt_of_not_ge hc))
          · by_contra hc; exact hq (Or.inl (lt_of_not_ge hc))
        rw [npQuantile_eq_quantile _ _ hq'.1 hq'.2]
  | value =>
    cases v with
    | none => simp only [median_eq_npMedian]
    | some x => simp only [median_eq_npMedian]

/-- **`make_event_matrix` with NumPy's quantile / median algorithms and the float64 array
`thresholds` is the model's `makeEventMatrix`** -/
theorem makeEventMatrixD_float64 (data : Mat ℚ) (nvar : ℕ) (ms : List TMethod)
    (vs : List (Option ℚ)) (tys : List (Option TType)) :
    makeEventMatrixD .float64 data nvar ms vs tys = makeEventMatrix data nvar ms vs tys := by
  unfold makeEventMatrixD makeEventMatrix
  simp only [resolveThresholdD_float64]

end Pyunicorn.Events
