import Pyunicorn.Lemmas.ReprEdges
import Pyunicorn.Model.ReprSplit
import Mathlib.Tactic.Ring
import Mathlib.Algebra.Order.Field.Rat
/-!
Helper lemmas for C05, part 5 (round 5): `Network.splitted_copy`.  The relation, the weights
and the attribute matrices the method is specified to produce (`splitRel`, `splitW`,
`splitAttr`), the constructor call on an object of the normal form, and the attribute loop.
-/
namespace Pyunicorn.Repr

/-- the relation of the network with node `k` split: the new node `N` is linked to `k` and to
everything `k` is linked to (in both directions) -/
def splitRel (a : Nat → Nat → Bool) (N k : Nat) (i j : Nat) : Bool :=
  if (i = k ∧ j = N) ∨ (i = N ∧ j = k) then true
  else if i < N then (if j < N then a i j else if j = N then a i k else false)
  else if i = N then (if j < N then a k j else false)
  else false

theorem splitMat_ind (a : Nat → Nat → Bool) (A : Nat → Nat → Int) (N k : Nat)
    (hA : ∀ i j, i < N → j < N → A i j = ind a i j) (hk : k < N) (i j : Nat) :
    splitMat A N k i j = ind (splitRel a N k) i j := by
  unfold splitMat splitRel ind
  by_cases h1 : (i = k ∧ j = N) ∨ (i = N ∧ j = k)
  · simp [h1]
  · simp only [h1, if_false]
    by_cases hi : i < N
    · simp only [hi, if_true]
      by_cases hj : j < N
      · simp only [hj, if_true]; exact hA i j hi hj
      · simp only [hj, if_false]
        by_cases hjN : j = N
        · simp only [hjN, if_true]; exact hA i k hi hk
        · simp [hjN]
    · simp only [hi, if_false]
      by_cases hiN : i = N
      · simp only [hiN, if_true]
        by_cases hj : j < N
        · simp only [hj, if_true]; exact hA k j hk hj
        · simp [hj]
      · simp [hiN]

theorem splitRel_simple (d : Bool) (a : Nat → Nat → Bool) (N k : Nat) (hs : Simple d N a)
    (hk : k < N) : Simple d (N + 1) (splitRel a N k) := by
  constructor
  · intro i _
    unfold splitRel
    have h1 : ¬ ((i = k ∧ i = N) ∨ (i = N ∧ i = k)) := by omega
    simp only [h1, if_false]
    by_cases hi : i < N
    · simp only [hi, if_true]; exact hs.irr i hi
    · simp only [hi, if_false]; simp
  · intro hd i j _ _
    unfold splitRel
    have hc : ((i = k ∧ j = N) ∨ (i = N ∧ j = k)) ↔ ((j = k ∧ i = N) ∨ (j = N ∧ i = k)) := by
      omega
    by_cases h1 : (i = k ∧ j = N) ∨ (i = N ∧ j = k)
    · rw [if_pos h1, if_pos (hc.1 h1)]
    · rw [if_neg h1, if_neg (fun h => h1 (hc.2 h))]
      by_cases hi : i < N <;> by_cases hj : j < N
      · simp only [hi, hj, if_true]; exact hs.sym hd i j hi hj
      · simp only [hi, hj, if_true, if_false]
        by_cases hjN : j = N
        · simp only [hjN, if_true]; exact hs.sym hd i k hi hk
        · simp [hjN]
      · simp only [hi, hj, if_true, if_false]
        by_cases hiN : i = N
        · simp only [hiN, if_true]; exact hs.sym hd k j hk hj
        · simp [hiN]
      · simp only [hi, hj, if_false]
        by_cases hiN : i = N <;> by_cases hjN : j = N <;> simp [hiN, hjN]

theorem splitW_length (w : List Rat) (k : Nat) (p : Rat) : (splitW w k p).length = w.length + 1 := by
  simp [splitW]

/-- the constructor call of `splitted_copy` on an object of the normal form -/
theorem splitInit_form {d N g ea vw w} (h : Good d N g ea vw w) (k : Nat) (hk : k < N) (p : Rat) :
    splitInit (form d N g ea vw w) k p
      = .ok (form d (N + 1) (graphEdges d (N + 1) (cells (N + 1) (splitRel (rel d g) N k)))
          none none (splitW w k p)) := by
  have hs := splitRel_simple d (rel d g) N k (simple_rel d N g h.noloop) hk
  unfold splitInit
  have e1 : (form d N g ea vw w).directed = d := rfl
  have e2 : (form d N g ea vw w).w = w := rfl
  have e3 : (form d N g ea vw w).N = N := rfl
  rw [e1, e2, e3]
  have : ofDenseMat (N + 1) (N + 1) (splitMat (form d N g ea vw w).at N k)
      = ofDenseMat (N + 1) (N + 1) (ind (splitRel (rel d g) N k)) := by
    apply ofDenseMat_congr
    intro i j _ _
    apply splitMat_ind _ _ _ _ _ hk
    intro i j hi hj
    rw [form_at]; simp [hi, hj]
  rw [this, init_dense d (N + 1) (by omega) _ _ (by rw [splitW_length, h.wlen]),
    ofGraph_eq_form d (N + 1) _ hs _ none]

/-! ### the attribute matrices -/

theorem splitAttr_congr {W W' : Nat → Nat → Rat} {N k : Nat}
    (h : ∀ i j, i < N → j < N → W i j = W' i j) (hk : k < N) (i j : Nat) :
    splitAttr W N k i j = splitAttr W' N k i j := by
  unfold splitAttr
  by_cases h1 : (i = k ∧ j = N) ∨ (i = N ∧ j = k) ∨ (i = N ∧ j = N)
  · rw [if_pos h1, if_pos h1]; exact h k k hk hk
  · rw [if_neg h1, if_neg h1]
    by_cases hi : i < N
    · simp only [hi, if_true]
      by_cases hj : j < N
      · simp only [hj, if_true]; exact h i j hi hj
      · simp only [hj, if_false]
        by_cases hjN : j = N
        · simp only [hjN, if_true]; exact h i k hi hk
        · simp [hjN]
    · simp only [hi, if_false]
      by_cases hiN : i = N
      · simp only [hiN, if_true]
        by_cases hj : j < N
        · simp only [hj, if_true]; exact h k j hk hj
        · simp [hj]
      · simp [hiN]

theorem splitAttr_symm {W : Nat → Nat → Rat} {N k : Nat} (h : ∀ i j, W j i = W i j) (i j : Nat) :
    splitAttr W N k j i = splitAttr W N k i j := by
  unfold splitAttr
  have hc : ((j = k ∧ i = N) ∨ (j = N ∧ i = k) ∨ (j = N ∧ i = N))
      ↔ ((i = k ∧ j = N) ∨ (i = N ∧ j = k) ∨ (i = N ∧ j = N)) := by omega
  by_cases h1 : (i = k ∧ j = N) ∨ (i = N ∧ j = k) ∨ (i = N ∧ j = N)
  · rw [if_pos h1, if_pos (hc.2 h1)]
  · rw [if_neg h1, if_neg (fun hh => h1 (hc.1 hh))]
    by_cases hi : i < N <;> by_cases hj : j < N
    · simp only [hi, hj, if_true]; exact h i j
    · simp only [hi, hj, if_true, if_false]
      by_cases hjN : j = N
      · simp only [hjN, if_true]; exact h i k
      · simp [hjN]
    · simp only [hi, hj, if_true, if_false]
      by_cases hiN : i = N
      · simp only [hiN, if_true]; exact h k j
      · simp [hiN]
    · simp only [hi, hj, if_false]
      by_cases hiN : i = N <;> by_cases hjN : j = N <;> simp [hiN, hjN]

/-! ### the attribute loop of `splitted_copy` (cf. `copyAttrs_*`) -/

theorem splitStep_core (x : NetA) (k : Nat) (c : NetA) (p) : (splitStep x k c p).core = c.core := by
  unfold splitStep
  split
  · exact setLinkAttrA_core _ _ _
  · rfl

theorem splitLoop_core (x : NetA) (k : Nat) (l : Attrs) :
    ∀ c : NetA, (l.foldl (splitStep x k) c).core = c.core := by
  induction l with
  | nil => intro c; rfl
  | cons p l ih => intro c; rw [List.foldl_cons, ih, splitStep_core]

/-- what the split copy's dictionary holds after the loop: every attribute of the original,
under its name, filled from the transformed `link_attribute` matrix -/
theorem splitLoop_get (x : NetA) (k : Nat) (l : Attrs)
    (hl : ∀ p ∈ l, ∃ f, linkAttrA x p.1 = some f) (a : String) :
    ∀ c : NetA, c.core.graph.isEmpty = false →
      (l.foldl (splitStep x k) c).attrs.get a
        = if a ∈ l.map (·.1) then
            (linkAttrA x a).map fun f => c.core.graph.map fun e => splitAttr f x.core.N k e.1 e.2
          else c.attrs.get a := by
  induction l with
  | nil => intro c _; simp
  | cons p l ih =>
    intro c hc
    obtain ⟨f, hf⟩ := hl p (by simp)
    have hstep : (p :: l).foldl (splitStep x k) c
        = l.foldl (splitStep x k) (setLinkAttrA c p.1 (splitAttr f x.core.N k)) := by
      rw [List.foldl_cons]
      unfold splitStep
      rw [hf]
    rw [hstep, ih (fun q hq => hl q (List.mem_cons_of_mem _ hq)) _
      (by rw [setLinkAttrA_core]; exact hc)]
    rw [setLinkAttrA_core]
    have hattrs : (setLinkAttrA c p.1 (splitAttr f x.core.N k)).attrs
        = c.attrs.put p.1 (c.core.graph.map fun e => splitAttr f x.core.N k e.1 e.2) := by
      unfold setLinkAttrA; rw [hc]; rfl
    rw [hattrs, get_put]
    by_cases h1 : a ∈ l.map (·.1)
    · have : a ∈ (p :: l).map (·.1) := by simp only [List.map_cons, List.mem_cons]; exact Or.inr h1
      rw [if_pos h1, if_pos this]
    · by_cases h2 : a = p.1
      · subst h2
        have : p.1 ∈ (p :: l).map (·.1) := by simp
        rw [if_neg h1, if_pos rfl, if_pos this, hf]
        rfl
      · have : a ∉ (p :: l).map (·.1) := by
          simp only [List.map_cons, List.mem_cons, not_or]; exact ⟨h2, h1⟩
        rw [if_neg h1, if_neg h2, if_neg this]

/-- the specified attribute matrix of the split copy: the *masked* matrix of the original
(`link_attribute` is 0 off the links, in particular on the diagonal — so the new link between
the two halves carries `W[node, node] = 0`), transformed like the adjacency matrix -/
def splitV (a : Nat → Nat → Bool) (N k : Nat) (V : Nat → Nat → Rat) : Nat → Nat → Rat :=
  splitAttr (fun i j => if a i j then V i j else 0) N k

/-- the new graph object always has a link: the one between the two halves -/
theorem splitGraph_ne_nil (d : Bool) (a : Nat → Nat → Bool) (N k : Nat) (hk : k < N) :
    graphEdges d (N + 1) (cells (N + 1) (splitRel a N k)) ≠ [] := by
  intro h0
  have hmem : (k, N) ∈ graphEdges d (N + 1) (cells (N + 1) (splitRel a N k)) := by
    rw [mem_graphEdges_cells]
    refine ⟨by omega, by omega, ?_⟩
    have hr : splitRel a N k k N = true := by simp [splitRel]
    cases d
    · simp only [Bool.false_eq_true, if_false]; exact ⟨hk, Or.inl hr⟩
    · simp only [if_true]; exact ⟨by omega, hr⟩
  rw [h0] at hmem
  cases hmem

/-- the attributes of the split copy -/
theorem split_attrs_ok {d N g vw w} {as : Attrs} (k : Nat) (hk : k < N)
    (w' : List Rat) (a0 : Nat → Nat → Bool)
    (hadj : ∀ i j, i < N → j < N → rel d g i j = a0 i j)
    (V : String → Option (Nat → Nat → Rat)) (hattr : ∀ a, AttrOK d g as a (V a))
    (hex : ∀ a W, V a = some W → ∃ vs, as.get a = some vs) :
    ∃ as', as.foldl (splitStep ⟨form d N g none vw w, as⟩ k)
        (NetA.fresh (form d (N + 1) (graphEdges d (N + 1) (cells (N + 1) (splitRel (rel d g) N k)))
          none none w'))
          = ⟨form d (N + 1) (graphEdges d (N + 1) (cells (N + 1) (splitRel (rel d g) N k)))
              none none w', as'⟩
      ∧ ∀ a, AttrOK d (graphEdges d (N + 1) (cells (N + 1) (splitRel (rel d g) N k))) as' a
          ((V a).map (splitV a0 N k)) := by
  let x : NetA := ⟨form d N g none vw w, as⟩
  let g' := graphEdges d (N + 1) (cells (N + 1) (splitRel (rel d g) N k))
  let c0 : NetA := NetA.fresh (form d (N + 1) g' none none w')
  refine ⟨(as.foldl (splitStep x k) c0).attrs, ?_, ?_⟩
  · have := NetA.eta (as.foldl (splitStep x k) c0)
    rw [splitLoop_core] at this
    exact this
  · intro a
    have hE' : c0.core.graph.isEmpty = false := by
      show g'.isEmpty = false
      have := splitGraph_ne_nil d (rel d g) N k hk
      cases hgg : g' with
      | nil => exact absurd hgg this
      | cons _ _ => rfl
    have hl : ∀ p ∈ as, ∃ f, linkAttrA x p.1 = some f := by
      intro p hp
      obtain ⟨vs, hvs⟩ := get_of_mem as p hp
      exact linkAttr_exists (x.view p.1) vs hvs
    have hget := splitLoop_get x k as hl a c0 hE'
    show AttrOK d g' (as.foldl (splitStep x k) c0).attrs a ((V a).map (splitV a0 N k))
    have ha := hattr a
    cases hV : V a with
    | none =>
      rw [hV] at ha
      have hn : a ∉ as.map (·.1) := (get_none_iff as a).1 ha
      rw [if_neg hn] at hget
      exact hget
    | some W =>
      rw [hV] at ha
      obtain ⟨_, f, hf, hW⟩ := ha
      obtain ⟨vs, hvs⟩ := hex a W hV
      have hin : a ∈ as.map (·.1) := by
        by_contra hn
        rw [← get_none_iff, hvs] at hn
        cases hn
      have hfa : linkAttrA x a = some f := by rw [linkAttrA_eq]; exact hf
      rw [if_pos hin, hfa] at hget
      have hget' : (as.foldl (splitStep x k) c0).attrs.get a
          = some (g'.map fun e => splitAttr f N k e.1 e.2) := hget
      have hsym : d = false → ∀ i j, f j i = f i j := fun hd i j =>
        linkAttr_symm (netOf d g (as.get a)) hd f hf i j
      obtain ⟨f', h1', h2'⟩ := linkAttr_setLinkAttr_gen (netOf d g' none) (splitAttr f N k)
        (fun hd i j _ => splitAttr_symm (hsym hd) i j)
      refine ⟨fun _ => ⟨_, hget'⟩, f', ?_, ?_⟩
      · rw [hget']; exact h1'
      · intro i j
        rw [h2' i j]
        show (if rel d g' i j = true then splitAttr f N k i j else 0)
          = if rel d g' i j = true then splitV a0 N k W i j else 0
        split
        · unfold splitV
          apply splitAttr_congr _ hk
          intro i j hi hj
          rw [hW i j, hadj i j hi hj]
        · rfl

theorem splitRel_congr {a b : Nat → Nat → Bool} {N k : Nat}
    (h : ∀ i j, i < N → j < N → a i j = b i j) (hk : k < N) (i j : Nat) :
    splitRel a N k i j = splitRel b N k i j := by
  unfold splitRel
  by_cases h1 : (i = k ∧ j = N) ∨ (i = N ∧ j = k)
  · rw [if_pos h1, if_pos h1]
  · rw [if_neg h1, if_neg h1]
    by_cases hi : i < N
    · simp only [hi, if_true]
      by_cases hj : j < N
      · simp only [hj, if_true]; exact h i j hi hj
      · simp only [hj, if_false]
        by_cases hjN : j = N
        · simp only [hjN, if_true]; exact h i k hi hk
        · simp [hjN]
    · simp only [hi, if_false]
      by_cases hiN : i = N
      · simp only [hiN, if_true]
        by_cases hj : j < N
        · simp only [hj, if_true]; exact h k j hk hj
        · simp [hj]
      · simp [hiN]

/-- `if node < 0: node += N` names the node `k` -/
theorem splitNode_some {N : Nat} {node : Int} {k : Nat} (h : splitNode N node = some k) :
    k < N ∧ ((0 ≤ node ∧ (k : Int) = node) ∨ (node < 0 ∧ (k : Int) = node + N)) := by
  unfold splitNode at h
  by_cases hn : node < 0
  · simp only [hn, if_true] at h
    by_cases hr : 0 ≤ node + (N : Int) ∧ node + (N : Int) < N
    · rw [if_pos hr] at h
      have hk : (node + (N : Int)).toNat = k := Option.some.inj h
      omega
    · rw [if_neg hr] at h; cases h
  · simp only [hn, if_false] at h
    by_cases hr : 0 ≤ node ∧ node < N
    · rw [if_pos hr] at h
      have hk : node.toNat = k := Option.some.inj h
      omega
    · rw [if_neg hr] at h; cases h

theorem splitNode_none {N : Nat} {node : Int} : splitNode N node = none ↔ (N : Int) ≤ node ∨ node < -N := by
  unfold splitNode
  simp only
  by_cases hn : node < 0
  · simp only [hn, if_true]
    split
    · rename_i hr; constructor
      · intro h; cases h
      · intro h; omega
    · rename_i hr; constructor
      · intro _; omega
      · intro _; rfl
  · simp only [hn, if_false]
    split
    · rename_i hr; constructor
      · intro h; cases h
      · intro h; omega
    · rename_i hr; constructor
      · intro _; omega
      · intro _; rfl

/-- specification of `splitted_copy(node = k, proportion = p)` on the abstract state: node `N`
is new, linked to `k` and to `k`'s neighbours; the weight of `k` is divided `(1-p) : p`; every
named attribute is transformed like the adjacency matrix; the copy's graph object is fresh -/
def splitAbs (N k : Nat) (p : Rat) (σ : AbsA) : AbsA :=
  { d := σ.d, a := splitRel σ.a N k, w := splitW σ.w k p,
    V := fun c => (σ.V c).map (splitV σ.a N k), gvw := none }

/-! ### the weights: the total is preserved -/

theorem sum_set_getD (w : List Rat) (k : Nat) (hk : k < w.length) (v : Rat) :
    (w.set k v).sum + w.getD k 0 = w.sum + v := by
  induction w generalizing k with
  | nil => simp at hk
  | cons x w ih =>
    cases k with
    | zero =>
      simp only [List.set_cons_zero, List.sum_cons, List.getD_cons_zero]
      ring
    | succ k =>
      simp only [List.set_cons_succ, List.sum_cons, List.getD_cons_succ]
      have := ih k (by simpa using hk)
      rw [add_assoc, this, add_assoc]

/-! ### counting the links of the split network -/

theorem length_filter_or_disjoint {α : Type} (l : List α) (p q : α → Bool)
    (h : ∀ x ∈ l, ¬ (p x = true ∧ q x = true)) :
    (l.filter fun x => p x || q x).length = (l.filter p).length + (l.filter q).length := by
  induction l with
  | nil => rfl
  | cons x l ih =>
    have ih' := ih (fun y hy => h y (List.mem_cons_of_mem _ hy))
    have hx := h x (by simp)
    simp only [List.filter_cons]
    cases hp : p x <;> cases hq : q x <;> simp_all <;> omega

theorem length_filter_eq_range (N k : Nat) (hk : k < N) :
    ((List.range N).filter fun i => decide (i = k)).length = 1 := by
  induction N with
  | zero => omega
  | succ N ih =>
    rw [List.range_succ, List.filter_append, List.length_append]
    by_cases h : k < N
    · rw [ih h]
      have : ¬ N = k := by omega
      simp [this]
    · have hk' : k = N := by omega
      subst hk'
      have : (List.range k).filter (fun i => decide (i = k)) = [] := by
        rw [List.filter_eq_nil_iff]
        intro i hi
        rw [List.mem_range] at hi
        simp; omega
      rw [this]; simp

/-- the index square of size `N + 1`: the old square, the new column, the new row, the corner -/
theorem pairs_succ_perm (N : Nat) :
    (pairs (N + 1) (N + 1)).Perm
      (pairs N N ++ ((List.range N).map fun i => (i, N)) ++ ((List.range N).map fun j => (N, j))
        ++ [(N, N)]) := by
  rw [List.perm_ext_iff_of_nodup (nodup_pairs _ _)]
  · intro p
    obtain ⟨i, j⟩ := p
    simp only [mem_pairs, List.mem_append, List.mem_map, List.mem_range, Prod.mk.injEq,
      List.mem_singleton]
    constructor
    · intro ⟨hi, hj⟩
      by_cases hi' : i < N <;> by_cases hj' : j < N
      · exact Or.inl (Or.inl (Or.inl ⟨hi', hj'⟩))
      · exact Or.inl (Or.inl (Or.inr ⟨i, hi', rfl, by omega⟩))
      · exact Or.inl (Or.inr ⟨j, hj', by omega, rfl⟩)
      · exact Or.inr ⟨by omega, by omega⟩
    · rintro (((⟨hi, hj⟩ | ⟨_, h1, h2, h3⟩) | ⟨_, h1, h2, h3⟩) | ⟨h1, h2⟩) <;> constructor <;> omega
  · refine List.Nodup.append (List.Nodup.append (List.Nodup.append (nodup_pairs _ _) ?_ ?_) ?_ ?_)
      (List.nodup_singleton _) ?_
    · exact List.Nodup.map (fun _ _ h => (Prod.mk.inj h).1) List.nodup_range
    · intro p hp hq
      rw [mem_pairs] at hp
      simp only [List.mem_map, List.mem_range] at hq
      obtain ⟨_, _, rfl⟩ := hq
      exact absurd hp.2 (by simp)
    · exact List.Nodup.map (fun _ _ h => (Prod.mk.inj h).2) List.nodup_range
    · intro p hp hq
      simp only [List.mem_map, List.mem_range] at hq
      obtain ⟨_, _, rfl⟩ := hq
      simp only [List.mem_append, mem_pairs, List.mem_map, List.mem_range, Prod.mk.injEq] at hp
      rcases hp with ⟨h, _⟩ | ⟨_, h1, h2, _⟩ <;> omega
    · intro p hp hq
      simp only [List.mem_singleton] at hq
      subst hq
      simp only [List.mem_append, mem_pairs, List.mem_map, List.mem_range, Prod.mk.injEq] at hp
      rcases hp with (⟨h, _⟩ | ⟨_, h1, h2, _⟩) | ⟨_, h1, _, h2⟩ <;> omega

/-- **cells of the split relation**: the old cells, one per in-neighbour and one per
out-neighbour of `k`, and the two cells of the link between the halves -/
theorem cells_split_length (a : Nat → Nat → Bool) (N k : Nat) (hk : k < N) (hkk : a k k = false) :
    (cells (N + 1) (splitRel a N k)).length
      = (cells N a).length + ((List.range N).filter fun i => a i k).length
        + ((List.range N).filter fun j => a k j).length + 2 := by
  unfold cells
  rw [((pairs_succ_perm N).filter _).length_eq]
  simp only [List.filter_append, List.length_append, List.filter_map, List.length_map]
  have h1 : (pairs N N).filter (fun p => splitRel a N k p.1 p.2)
      = (pairs N N).filter fun p => a p.1 p.2 := by
    apply List.filter_congr
    intro p hp
    rw [mem_pairs] at hp
    unfold splitRel
    have : ¬ ((p.1 = k ∧ p.2 = N) ∨ (p.1 = N ∧ p.2 = k)) := by omega
    simp [this, hp.1, hp.2]
  have h2 : (List.range N).filter ((fun p : Nat × Nat => splitRel a N k p.1 p.2) ∘ fun i => (i, N))
      = (List.range N).filter fun i => decide (i = k) || a i k := by
    apply List.filter_congr
    intro i hi
    rw [List.mem_range] at hi
    show splitRel a N k i N = _
    unfold splitRel
    by_cases hik : i = k
    · simp [hik]
    · have : ¬ ((i = k ∧ N = N) ∨ (i = N ∧ N = k)) := by omega
      rw [if_neg this]; simp [hi, hik]
  have h3 : (List.range N).filter ((fun p : Nat × Nat => splitRel a N k p.1 p.2) ∘ fun j => (N, j))
      = (List.range N).filter fun j => decide (j = k) || a k j := by
    apply List.filter_congr
    intro j hj
    rw [List.mem_range] at hj
    show splitRel a N k N j = _
    unfold splitRel
    by_cases hjk : j = k
    · simp [hjk]
    · have : ¬ ((N = k ∧ j = N) ∨ (N = N ∧ j = k)) := by omega
      rw [if_neg this]; simp [hj, hjk]
  have h4 : [(N, N)].filter (fun p : Nat × Nat => splitRel a N k p.1 p.2) = [] := by
    have : splitRel a N k N N = false := by
      unfold splitRel
      have : ¬ ((N = k ∧ N = N) ∨ (N = N ∧ N = k)) := by omega
      rw [if_neg this]; simp
    simp [this]
  rw [h1, h2, h3, h4]
  rw [length_filter_or_disjoint _ (fun i => decide (i = k)) (fun i => a i k)
      (fun i _ h => by
        have := of_decide_eq_true h.1
        subst this; rw [hkk] at h; exact Bool.false_ne_true h.2),
    length_filter_or_disjoint _ (fun j => decide (j = k)) (fun j => a k j)
      (fun j _ h => by
        have := of_decide_eq_true h.1
        subst this; rw [hkk] at h; exact Bool.false_ne_true h.2),
    length_filter_eq_range N k hk]
  simp only [List.length_nil]
  omega

theorem splitV_zero (a : Nat → Nat → Bool) (N k : Nat) :
    splitV a N k (fun _ _ => 0) = fun _ _ => 0 := by
  funext i j
  unfold splitV splitAttr
  simp

end Pyunicorn.Repr
