import Pyunicorn.Model.LineDistSeq
import Mathlib.Tactic.SplitIfs
/-!
C08, round 5: **the two outer loops of `_supremum_distance_matrix_rp` compute the closed form**.
`Generated/StructC08.lean` holds both the loops as written (`supremum_rp_loops`: bounds
`range(T)`, `range(j)` and the targets of the chained store translated from the source) and the
closed form `distance[a, b]` used by the model of `set_fixed_threshold`; here the former is proved
equal to the latter for every size, dimension, embedding and structure of float operations.
-/
namespace Pyunicorn.LineDist
open Pyunicorn.Generated

/-- the middle loop `for k in range(m)` (`m ≤ j`) on top of any array `d` -/
theorem rp_inner_loop {α : Type} (O : FOps α) (E : Int → Int → α) (D : Int) (j m : Nat)
    (hm : m ≤ j) (d : Int → Int → α) (x y : Int) :
    ((List.range m).foldl (fun (distance : Int → Int → α) (k : Nat) =>
        store2 (store2 distance (j : Int) (k : Int) (StructC08.supremum_rp_entry O j k D E))
          (k : Int) (j : Int) (StructC08.supremum_rp_entry O j k D E)) d) x y
      = if x = j ∧ 0 ≤ y ∧ y < m then StructC08.supremum_rp_entry O j y D E
        else if y = j ∧ 0 ≤ x ∧ x < m then StructC08.supremum_rp_entry O j x D E
        else d x y := by
  induction m with
  | zero =>
    simp only [List.range_zero, List.foldl_nil]
    rw [if_neg (by omega), if_neg (by omega)]
  | succ m ih =>
    rw [List.range_succ, List.foldl_append, List.foldl_cons, List.foldl_nil]
    simp only [store2]
    rw [ih (by omega)]
    split_ifs <;> first | rfl | (exfalso; omega) | (congr 1 <;> omega)

/-- the outer loop `for j in range(J)` started on `np.zeros` -/
theorem rp_outer_loop {α : Type} (O : FOps α) (E : Int → Int → α) (D : Int) (J : Nat)
    (x y : Int) :
    ((List.range J).foldl (fun (distance : Int → Int → α) (j : Nat) =>
        (List.range j).foldl (fun (distance : Int → Int → α) (k : Nat) =>
          store2 (store2 distance (j : Int) (k : Int) (StructC08.supremum_rp_entry O j k D E))
            (k : Int) (j : Int) (StructC08.supremum_rp_entry O j k D E)) distance)
        (fun _ _ => O.zero)) x y
      = if 0 ≤ y ∧ y < x ∧ x < J then StructC08.supremum_rp_entry O x y D E
        else if 0 ≤ x ∧ x < y ∧ y < J then StructC08.supremum_rp_entry O y x D E
        else O.zero := by
  induction J generalizing x y with
  | zero =>
    simp only [List.range_zero, List.foldl_nil]
    rw [if_neg (by omega), if_neg (by omega)]
  | succ J ih =>
    rw [List.range_succ, List.foldl_append, List.foldl_cons, List.foldl_nil]
    rw [rp_inner_loop O E D J J (Nat.le_refl J)]
    simp only [ih]
    split_ifs <;> first | rfl | (exfalso; omega) | (congr 1 <;> omega)

/-- **the loops as written return the closed form** `distance[a, b]`, every entry, every size -/
theorem rp_loops_eq_closed {α : Type} (O : FOps α) (n_time dim : Int) (E : Int → Int → α)
    (a b : Int) :
    StructC08.supremum_rp_loops O n_time dim E a b
      = StructC08._supremum_distance_matrix_rp O n_time dim E a b := by
  unfold StructC08.supremum_rp_loops StructC08._supremum_distance_matrix_rp
  simp only [Int.toNat_natCast]
  rw [rp_outer_loop O E dim n_time.toNat a b]
  split_ifs <;> first | rfl | (exfalso; omega)

end Pyunicorn.LineDist
