import Pyunicorn.Lemmas.NsiWrapped
import Pyunicorn.Lemmas.CouplingGJ2
/-!
Round 5e (C02): **the Gauss–Jordan elimination of C18's model (`Circuit.inverse`, the executable
inverse behind `groundedInv` / `newmanT`) is correct** — whenever it returns a matrix, that matrix
is a two-sided inverse of the leading block.

C10's model has its own Gauss–Jordan (`Coupling.gjInverse`, written with `filter` / `map` over
`List.range`) and a correctness proof (`Lemmas/CouplingGJ.lean`: `gjInv_step`, `augOf_inv`;
`Lemmas/CouplingGJ2.lean`: `left_inverse_is_right`).  C18's is written with `find?` / `set` /
`mapIdx` / `zipWith` / `foldlM`.  Here:

* `Circuit.gjStep_spec` reads one column step of **C18's list code** off as the same statement
  about entries as C10's `gjStep_spec` (pivot row `r ≥ col` with a non-zero entry, swap, scaling,
  elimination), so that C10's invariant step `Coupling.gjInv_step` ("`B · C = A` on `[A | B]`, one
  more unit column") applies verbatim;
* `foldlM_spec` iterates it along `List.foldlM` over `List.range n`;
* `inverse_left` / `inverse_right` / `inverse_two_sided` — the result of `Circuit.inverse n A` is a
  left inverse, hence (square matrices over a field, C10's `left_inverse_is_right`) a right inverse;
* `groundedInv_isGroundedInv` / `newmanTof_grounded` — what `groundedInv` / `newmanT` return is
  `IsGroundedInv` (zero last row / column, leading block a two-sided inverse of `sp_M[:-1,:-1]`);
* `perNode_newman_isSome` — where the component loop returns a value, the elimination on the
  component's sub-network found all pivots (used by `nsi_newman_wrapped_split_unconditional`,
  `Properties/C02.lean`).
-/
namespace Pyunicorn.Nsi

open Pyunicorn.Coupling (matFn Shape GJInv)

/-- C02's sum is C10's sum -/
theorem sumR_eq_sumTo (n : Nat) (f : Nat → Rat) : sumR n f = Coupling.sumTo n f := by
  induction n with
  | zero => simp [sumR, Coupling.sumTo]
  | succ n ih => rw [sumR_succ, ih, Coupling.sumTo]

theorem getD_set_list {α : Type} (l : List α) (i k : Nat) (a d : α) :
    (l.set i a).getD k d = if i = k ∧ k < l.length then a else l.getD k d := by
  simp only [List.getD_eq_getElem?_getD, List.getElem?_set]
  by_cases h : i = k
  · subst h
    by_cases h2 : i < l.length
    · simp [h2]
    · simp [h2]
  · simp [h]

theorem getD_zipWith_sub (r p : List Rat) (c : Rat) (j : Nat) (hr : j < r.length)
    (hp : j < p.length) : (Circuit.subRow r p c).getD j 0 = r.getD j 0 - c * p.getD j 0 := by
  simp [Circuit.subRow, List.getD_eq_getElem?_getD, hr, hp]

theorem getD_mapIdx_list {α : Type} (l : List α) (f : Nat → α → α) (k : Nat) (d : α)
    (hk : k < l.length) : (l.mapIdx f).getD k d = f k (l.getD k d) := by
  simp [List.getD_eq_getElem?_getD, hk]

/-- **one column step of C18's Gauss–Jordan, read off the list code**: the same statement about
the entries as C10's `Coupling.gjStep_spec` -/
theorem gjStep_spec (M M' : List (List Rat)) (N W col : Nat) (hS : Shape M N W) (hc : col < N)
    (h : Circuit.gjStep M col = some M') :
    ∃ r, col ≤ r ∧ r < N ∧ matFn M r col ≠ 0 ∧ Shape M' N W ∧
      ∀ k c, k < N → c < W → matFn M' k c =
        if k = col then matFn M r c / matFn M r col
        else matFn M (if k = r then col else k) c -
          matFn M (if k = r then col else k) col * (matFn M r c / matFn M r col) := by
  obtain ⟨hN, hW⟩ := hS
  unfold Circuit.gjStep at h
  split at h
  · cases h
  · rename_i r hfind
    have hr := List.find?_some hfind
    have hmem := List.mem_of_find?_eq_some hfind
    rw [List.mem_range, hN] at hmem
    simp only [Bool.and_eq_true, decide_eq_true_eq, bne_iff_ne, ne_eq] at hr
    obtain ⟨hcr, hp⟩ := hr
    have hp' : matFn M r col ≠ 0 := hp
    simp only [Option.some.injEq] at h
    subst h
    -- the rows after the swap
    have hrows1 : ∀ k, k < N →
        (((M.set r (M.getD col [])).set col ((M.getD r []).map (· / (M.getD r []).getD col 0))).getD k [])
          = if k = col then (M.getD r []).map (· / (M.getD r []).getD col 0)
            else if k = r then M.getD col [] else M.getD k [] := by
      intro k hk
      rw [getD_set_list, List.length_set, getD_set_list]
      by_cases h1 : k = col
      · subst h1; simp [hN, hk]
      · have h1' : ¬ col = k := fun e => h1 e.symm
        simp only [h1, h1', false_and, if_false]
        by_cases h2 : k = r
        · subst h2; simp [hN, hk]
        · have h2' : ¬ r = k := fun e => h2 e.symm
          simp [h2, h2']
    have hlen1 : ((M.set r (M.getD col [])).set col
        ((M.getD r []).map (· / (M.getD r []).getD col 0))).length = N := by
      rw [List.length_set, List.length_set, hN]
    have hrowlen : ∀ k, k < N →
        (if k = col then (M.getD r []).map (· / (M.getD r []).getD col 0)
            else if k = r then M.getD col [] else M.getD k []).length = W := by
      intro k hk
      split
      · rw [List.length_map, hW r hmem]
      · split
        · exact hW col hc
        · exact hW k hk
    refine ⟨r, hcr, hmem, hp', ⟨?_, ?_⟩, ?_⟩
    · rw [List.length_mapIdx, hlen1]
    · intro k hk
      rw [getD_mapIdx_list _ _ _ _ (by rw [hlen1]; exact hk), hrows1 k hk]
      by_cases h1 : k = col
      · simp only [h1, beq_self_eq_true, if_true]
        rw [List.length_map, hW r hmem]
      · have hb : (k == col) = false := by simp [h1]
        simp only [hb, Bool.false_eq_true, if_false]
        unfold Circuit.subRow
        rw [List.length_zipWith, hrowlen k hk, List.length_map, hW r hmem, Nat.min_self]
    · intro k c hk hcW
      unfold matFn
      rw [getD_mapIdx_list _ _ _ _ (by rw [hlen1]; exact hk), hrows1 k hk]
      by_cases h1 : k = col
      · simp only [h1, beq_self_eq_true, if_true]
        exact Coupling.getD_map_div _ _ _
      · have hb : (k == col) = false := by simp [h1]
        simp only [hb, Bool.false_eq_true, if_false, if_neg h1]
        have hl := hrowlen k hk
        simp only [if_neg h1] at hl
        rw [getD_zipWith_sub _ _ _ _ (by rw [hl]; exact hcW)
          (by rw [List.length_map, hW r hmem]; exact hcW), Coupling.getD_map_div]
        by_cases h2 : k = r
        · simp only [if_pos h2]
        · simp only [if_neg h2]

/-- the elimination along `List.foldlM` over the columns `0 … c-1` keeps C10's invariant -/
theorem foldlM_spec (C : Nat → Nat → Rat) (N : Nat) (M : List (List Rat))
    (hS : Shape M N (2 * N)) (h0 : GJInv C N 0 (matFn M)) :
    ∀ c, c ≤ N → ∀ M', (List.range c).foldlM Circuit.gjStep M = some M' →
      Shape M' N (2 * N) ∧ GJInv C N c (matFn M') := by
  intro c
  induction c with
  | zero =>
    intro _ M' h
    simp only [List.range_zero, List.foldlM_nil] at h
    cases h
    exact ⟨hS, h0⟩
  | succ c ih =>
    intro hc M' h
    rw [List.range_succ, List.foldlM_append] at h
    cases h1 : (List.range c).foldlM Circuit.gjStep M with
    | none => rw [h1] at h; cases h
    | some M1 =>
      rw [h1] at h
      simp only [Option.bind_eq_bind, Option.bind_some, List.foldlM_cons, List.foldlM_nil,
        Option.pure_def, Option.bind_some] at h
      have h' : Circuit.gjStep M1 c = some M' := by
        cases hg : Circuit.gjStep M1 c with
        | none => rw [hg] at h; cases h
        | some M2 => rw [hg] at h; simpa using h
      obtain ⟨hS1, hI1⟩ := ih (by omega) M1 h1
      obtain ⟨r, hcr, hr, hp, hS', hF⟩ := gjStep_spec M1 M' N (2 * N) c hS1 (by omega) h'
      exact ⟨hS', Coupling.gjInv_step C N c r (matFn M1) (matFn M') hI1 (by omega) hcr hr hp hF⟩

theorem getD_drop_list (l : List Rat) (n j : Nat) : (l.drop n).getD j 0 = l.getD (n + j) 0 := by
  simp [List.getD_eq_getElem?_getD, List.getElem?_drop]

/-- the right half of the final augmented matrix is what `Circuit.inverse` returns -/
theorem toFun_drop (M : List (List Rat)) (n i j : Nat) :
    Circuit.toFun (M.map fun r => r.drop n) i j = matFn M i (n + j) := by
  unfold Circuit.toFun Circuit.LMat.at matFn
  by_cases hi : i < M.length
  · simp [List.getD_eq_getElem?_getD, hi, List.getElem?_drop]
  · simp [List.getD_eq_getElem?_getD, hi]

/-- **C18's Gauss–Jordan elimination is correct** (left): whenever `Circuit.inverse n A` returns a
matrix, it is a left inverse of `A` on the indices `< n` -/
theorem inverse_left (n : Nat) (A P : Nat → Nat → Rat) (h : Circuit.inverse n A = some P)
    (i j : Nat) (hi : i < n) (hj : j < n) :
    sumR n (fun l => P i l * A l j) = if i = j then 1 else 0 := by
  unfold Circuit.inverse at h
  simp only at h
  change (match (List.range n).foldlM Circuit.gjStep (Coupling.augOf A n) with
    | none => none
    | some rows' => some (Circuit.toFun (rows'.map fun r => r.drop n))) = some P at h
  cases hg : (List.range n).foldlM Circuit.gjStep (Coupling.augOf A n) with
  | none => rw [hg] at h; cases h
  | some M' =>
    rw [hg] at h
    simp only [Option.some.injEq] at h
    obtain ⟨_, hA, hB⟩ := foldlM_spec A n (Coupling.augOf A n) (Coupling.augOf_shape A n)
      (Coupling.augOf_inv A n) n (Nat.le_refl _) M' hg
    rw [sumR_eq_sumTo]
    rw [Coupling.sumTo_congr (g := fun l => matFn M' i (n + l) * A l j)
      (fun l _ => by rw [← h, toFun_drop])]
    rw [hA i j hi hj, hB i j hi hj]

/-- … and a right inverse (square matrices over a field: C10's `left_inverse_is_right`) -/
theorem inverse_right (n : Nat) (A P : Nat → Nat → Rat) (h : Circuit.inverse n A = some P)
    (i j : Nat) (hi : i < n) (hj : j < n) :
    sumR n (fun l => A i l * P l j) = if i = j then 1 else 0 := by
  rw [sumR_eq_sumTo]
  exact Coupling.left_inverse_is_right A P n
    (fun i j hi hj => by rw [← sumR_eq_sumTo]; exact inverse_left n A P h i j hi hj) i j hi hj

/-- **two-sided**: `P A = 1` and `A P = 1` on the leading `n × n` block -/
theorem inverse_two_sided (n : Nat) (A P : Nat → Nat → Rat) (h : Circuit.inverse n A = some P) :
    (∀ i j, i < n → j < n → sumR n (fun l => P i l * A l j) = if i = j then 1 else 0) ∧
    (∀ i j, i < n → j < n → sumR n (fun l => A i l * P l j) = if i = j then 1 else 0) :=
  ⟨inverse_left n A P h, inverse_right n A P h⟩

/-- **what `groundedInv` returns is a grounded inverse**: zero last row / column, the leading
block a two-sided inverse of the leading block of `M` -/
theorem groundedInv_isGroundedInv (n : Nat) (M T : Nat → Nat → Rat)
    (h : groundedInv n M = some T) : IsGroundedInv n M T := by
  unfold groundedInv at h
  cases hR : Circuit.inverse (n - 1) M with
  | none => rw [hR] at h; cases h
  | some R =>
    rw [hR] at h
    simp only [Option.some.injEq] at h
    have hT : ∀ i j, i < n - 1 → j < n - 1 → T i j = R i j := by
      intro i j hi hj
      rw [← h]
      simp only [hi, hj, and_self, if_true]
      exact toFun_ofFun (n - 1) R i j hi hj
    refine ⟨fun j => ?_, fun i => ?_, fun i j hi hj => ?_, fun i j hi hj => ?_⟩
    · rw [← h]; simp
    · rw [← h]; simp
    · rw [sumR_congr _ _ (fun c => R i c * M c j) (fun c hc => by rw [hT i c hi hc])]
      exact inverse_left (n - 1) M R hR i j hi hj
    · rw [sumR_congr _ _ (fun c => M i c * R c j) (fun c hc => by rw [hT c j hc hj])]
      exact inverse_right (n - 1) M R hR i j hi hj

/-- the model's `sp_M_inv` of a network, whenever the elimination finds all pivots -/
theorem newmanT_grounded (H : Gr) (T : Nat → Nat → Rat) (h : newmanT H = some T) :
    IsGroundedInv H.n (newmanM H) T := by
  rw [newmanT_eq] at h
  exact groundedInv_isGroundedInv H.n (newmanM H) T h

theorem newmanTof_grounded (H : Gr) (h : (newmanT H).isSome = true) :
    IsGroundedInv H.n (newmanM H) (newmanTof H) := by
  unfold newmanTof
  cases hT : newmanT H with
  | none => rw [hT] at h; cases h
  | some T => exact newmanT_grounded H T hT

/-- where the component loop returns a value for a node of a component with at least two nodes, the
elimination on that component's sub-network found all pivots -/
theorem perNode_newman_isSome (G : Gr) (ends : Bool) (a : Nat) (x : Rat)
    (h : perNode G (newmanSingle G ends) (newmanCompF ends) a = some x)
    (h2 : 2 ≤ (compNodes G a).length) : (newmanT (subGr G (compNodes G a))).isSome = true := by
  unfold perNode at h
  simp only at h
  rw [if_neg (by omega)] at h
  unfold newmanCompF at h
  rw [newmanAll_eq] at h
  cases hT : newmanT (subGr G (compNodes G a)) with
  | none => rw [hT] at h; simp at h
  | some T => rfl

end Pyunicorn.Nsi
