import Pyunicorn.Lemmas.RelabelCircuit
import Pyunicorn.Lemmas.RelabelCross
import Pyunicorn.Lemmas.ReprHist
/-! C04, round 4: link attributes set after construction on graph objects whose links are listed
in any order (C05's model of `set_link_attribute` / `link_attribute`), the `_sparse` twins of the
cross clustering measures (C11's model), and the current-flow betweenness kernels for *whatever*
Moore–Penrose inverses were stored for the two numberings (C18's model). -/
namespace Pyunicorn.Relabel
open Finset

variable {n : Nat} {idx : Nat → Nat}

/-! ### `set_link_attribute` followed by `link_attribute` (C05's model `Pyunicorn.Repr`) -/

/-- The twin object `net'` carries the renumbered links — listed in its embedded graph object in
*any* order and (undirected) orientation, which is all `hrel` says — and is given the renumbered
attribute matrix.  Then `link_attribute` of the twin is the renumbered matrix of the original. -/
theorem linkAttr_relabel (net net' : Repr.Net) (V : Nat → Nat → Rat)
    (hd : net'.directed = net.directed)
    (hrel : ∀ i j, i < n → j < n →
      Repr.rel net'.directed net'.graph i j = Repr.rel net.directed net.graph (idx i) (idx j))
    (hV : net.directed = false → ∀ i j, V j i = V i j) :
    ∃ f f', Repr.linkAttr (Repr.setLinkAttr net V) = some f ∧
      Repr.linkAttr (Repr.setLinkAttr net' (mat V idx)) = some f' ∧
      ∀ i j, i < n → j < n → f' i j = f (idx i) (idx j) := by
  obtain ⟨f, hf, hfs⟩ := Repr.linkAttr_setLinkAttr_gen net V (fun hd' i j _ => hV hd' i j)
  obtain ⟨f', hf', hfs'⟩ := Repr.linkAttr_setLinkAttr_gen net' (mat V idx)
    (fun hd' i j _ => hV (hd ▸ hd') (idx i) (idx j))
  refine ⟨f, f', hf, hf', ?_⟩
  intro i j hi hj
  rw [hfs', hfs, hrel i j hi hj]
  rfl

/-! ### the `_sparse` twins of the cross clustering measures (C11's model) -/
section sparse
open Pyunicorn.Cross
variable {g : Nat → Nat}

theorem catAdj_nat (A : Cross.Adj) (L1 L2 : List Nat) (p q : Nat)
    (hp : p < L1.length + L2.length) (hq : q < L1.length + L2.length) :
    catAdj (mat A g) L1 L2 p q = catAdj A (L1.map g) (L2.map g) p q := by
  have e : ∀ p, p < (L1 ++ L2).length →
      (L1.map g ++ L2.map g).getD p 0 = g ((L1 ++ L2).getD p 0) := by
    intro p hp
    rw [← List.map_append, List.getD_eq_getElem?_getD, List.getD_eq_getElem?_getD,
      List.getElem?_map, List.getElem?_eq_getElem hp]
    rfl
  unfold catAdj mat
  rw [e p (by simpa using hp), e q (by simpa using hq)]

/-- the triple loop of `cross_transitivity_sparse` over positions of `node_list1 + node_list2` -/
theorem ctSparseCounts_nat (deg : List Nat) (A : Cross.Adj) (L1 L2 : List Nat) :
    ctSparseCounts deg (mat A g) L1 L2 = ctSparseCounts deg A (L1.map g) (L2.map g) := by
  unfold ctSparseCounts
  simp only [List.length_map]
  apply List.foldl_ext
  intro acc i hi
  have hi' := List.mem_range.mp hi
  split
  · apply List.foldl_ext
    intro acc j hj
    have hj' := List.mem_range'_1.mp hj
    apply List.foldl_ext
    intro acc k hk
    have hk' := List.mem_range'_1.mp hk
    rw [catAdj_nat A L1 L2 i j (by omega) (by omega), catAdj_nat A L1 L2 i k (by omega) (by omega),
      catAdj_nat A L1 L2 j k (by omega) (by omega)]
  · rfl

theorem crossTransitivitySparse_nat (directed : Bool) (A : Cross.Adj) (L1 L2 : List Nat) :
    crossTransitivitySparse directed (mat A g) L1 L2
      = crossTransitivitySparse directed A (L1.map g) (L2.map g) := by
  simp only [crossTransitivitySparse, crossDegree_nat, ctSparseCounts_nat]

/-- `cross_local_clustering_sparse` -/
theorem clcSparse_nat (directed : Bool) (A : Cross.Adj) (L1 L2 : List Nat) :
    clcSparse directed (mat A g) L1 L2 = clcSparse directed A (L1.map g) (L2.map g) := by
  unfold clcSparse
  simp only [List.length_map, crossDegree_nat]
  apply List.map_congr_left
  intro i hi
  have hi' := List.mem_range.mp hi
  split
  · congr 2
    apply List.foldl_ext
    intro acc j hj
    have hj' := List.mem_range'_1.mp hj
    apply List.foldl_ext
    intro acc k hk
    have hk' := List.mem_range'_1.mp hk
    rw [catAdj_nat A L1 L2 i j (by omega) (by omega), catAdj_nat A L1 L2 j k (by omega) (by omega),
      catAdj_nat A L1 L2 k i (by omega) (by omega)]
  · rfl

theorem crossGlobalClusteringSparse_nat (directed : Bool) (A : Cross.Adj) (L1 L2 : List Nat) :
    crossGlobalClusteringSparse directed (mat A g) L1 L2
      = crossGlobalClusteringSparse directed A (L1.map g) (L2.map g) := by
  simp only [crossGlobalClusteringSparse, clcSparse_nat]

end sparse

/-! ### current-flow betweenness for whatever Moore–Penrose inverses are stored -/
section currentflow
open Pyunicorn.Circuit

/-- the kernels read the stored inverse only through differences *within a column* -/
theorem vcfb_congr_coldiff (adm R R' : Mat)
    (hd : ∀ i j s, i < n → j < n → s < n → R' i s - R' j s = R i s - R j s) (i : Nat)
    (hi : i < n) : vcfbKernel n 1 1 adm R' i = vcfbKernel n 1 1 adm R i := by
  rw [vcfb_sum, vcfb_sum]
  refine Finset.sum_congr rfl fun t ht => Finset.sum_congr rfl fun s hs => ?_
  have ht' := Finset.mem_range.mp ht
  have hs' : s < n := lt_trans (Finset.mem_range.mp hs) ht'
  split
  · rfl
  · congr 2
    unfold nodeCur
    refine Finset.sum_congr rfl fun j hj => ?_
    have hj' := Finset.mem_range.mp hj
    have e1 := hd i j s hi hj' hs'
    have e2 := hd i j t hi hj' ht'
    rw [show (R' i s - R' j s) + (R' j t - R' i t) = (R i s - R j s) + (R j t - R i t) by linarith]

theorem ecfb_congr_coldiff (adm R R' : Mat)
    (hd : ∀ i j s, i < n → j < n → s < n → R' i s - R' j s = R i s - R j s) (i j : Nat)
    (hi : i < n) (hj : j < n) : ecfbKernel n 1 1 adm R' i j = ecfbKernel n 1 1 adm R i j := by
  rw [ecfb_sum, ecfb_sum]
  congr 2
  refine Finset.sum_congr rfl fun t ht => Finset.sum_congr rfl fun s hs => ?_
  have ht' := Finset.mem_range.mp ht
  have hs' : s < n := lt_trans (Finset.mem_range.mp hs) ht'
  have e1 := hd i j s hi hj hs'
  have e2 := hd i j t hi hj ht'
  rw [show (R' i s - R' j s) + (R' j t - R' i t) = (R i s - R j s) + (R j t - R i t) by linarith]

/-- two matrices with `L R = I − J/n` for the Laplacian of a connected network differ by a
constant within every column (their difference lies in the kernel of `L`) -/
theorem proj_coldiff (c R R' : Mat) (hs : SymmOn n c) (hc : ∀ i j, i < n → j < n → 0 ≤ c i j)
    (hconn : CutConnected n c) (hp : IsProj n (Circuit.laplacian n c) R)
    (hp' : IsProj n (Circuit.laplacian n c) R') :
    ∀ i j s, i < n → j < n → s < n → R' i s - R' j s = R i s - R j s := by
  intro i j s hi hj hs'
  have hk := lap_ker_const n c (fun k => R' k s - R k s) hs hc hconn (by
    intro a ha
    have h1 := hp a s ha hs'
    have h2 := hp' a s ha hs'
    rw [Circuit.sumTo_eq] at h1 h2 ⊢
    simp only [mul_sub, Finset.sum_sub_distrib, h1, h2, sub_self]) i j hi hj
  linarith

/-- **current-flow betweenness is equivariant for whatever Moore–Penrose inverses are stored**
(equations 1 and 3, what C18's theorems use of `np.linalg.pinv`) for the two numberings -/
theorem currentflow_relabel_pinv (h : IsPerm n idx) (adj : Circuit.Adj) (res R R' : Mat)
    (hN : IsNetwork n adj res) (hconn : CutConnected n (admittance adj res))
    (hR : IsPinv13 n (Circuit.laplacian n (admittance adj res)) R)
    (hR' : IsPinv13 n (Circuit.laplacian n (admittance (mat adj idx) (mat res idx))) R')
    (i j : Nat) (hi : i < n) (hj : j < n) :
    vcfbKernel n 1 1 (admittance (mat adj idx) (mat res idx)) R' i
      = vcfbKernel n 1 1 (admittance adj res) R (idx i) ∧
    ecfbKernel n 1 1 (admittance (mat adj idx) (mat res idx)) R' i j
      = ecfbKernel n 1 1 (admittance adj res) R (idx i) (idx j) := by
  have hN' := isNetwork_relabel h hN
  have hconn' : CutConnected n (admittance (mat adj idx) (mat res idx)) :=
    cutConnected_relabel h hconn
  have hR'' : IsPinv13 n (Circuit.laplacian n (admittance (mat adj idx) (mat res idx)))
      (mat R idx) := isPinv13_relabel h (admittance adj res) R hR
  have hp' := proj_of_pinv13 n _ R' (adm_symm hN') (adm_nonneg hN') hconn' hR'
  have hp'' := proj_of_pinv13 n _ (mat R idx) (adm_symm hN') (adm_nonneg hN') hconn' hR''
  have hd := proj_coldiff _ (mat R idx) R' (adm_symm hN') (adm_nonneg hN') hconn' hp'' hp'
  constructor
  · rw [vcfb_congr_coldiff _ (mat R idx) R' hd i hi]
    exact vcfb_relabel h (admittance adj res) R (mat R idx) (fun _ _ _ _ => rfl) i hi
  · rw [ecfb_congr_coldiff _ (mat R idx) R' hd i j hi hj]
    exact ecfb_relabel h (admittance adj res) R (mat R idx) (fun _ _ _ _ => rfl) i j hi hj

end currentflow

/-! ### `diameter_effective_resistance`: maximum of the triangular store -/
section diameter
open Pyunicorn.Circuit

theorem foldl_max_spec (xs : List Rat) (x : Rat) :
    xs.foldl max x ∈ x :: xs ∧ ∀ y ∈ x :: xs, y ≤ xs.foldl max x := by
  induction xs generalizing x with
  | nil => simp
  | cons a t ih =>
    simp only [List.foldl_cons]
    obtain ⟨h1, h2⟩ := ih (max x a)
    constructor
    · rcases List.mem_cons.mp h1 with e | e
      · rw [e]
        rcases max_choice x a with c | c <;> rw [c] <;> simp
      · simp [e]
    · intro y hy
      have hx : max x a ≤ t.foldl max (max x a) := h2 _ (by simp)
      rcases List.mem_cons.mp hy with rfl | hy
      · exact le_trans (le_max_left _ _) hx
      · rcases List.mem_cons.mp hy with rfl | hy
        · exact le_trans (le_max_right _ _) hx
        · exact h2 y (by simp [hy])

/-- `np.max` of a store depends only on which values it holds -/
theorem maxOf_congr_mem (l l' : List Rat) (h : ∀ x, x ∈ l ↔ x ∈ l') : maxOf l = maxOf l' := by
  cases l with
  | nil =>
    cases l' with
    | nil => rfl
    | cons b t' => exact absurd ((h b).mpr (by simp)) (by simp)
  | cons a t =>
    cases l' with
    | nil => exact absurd ((h a).mp (by simp)) (by simp)
    | cons b t' =>
      simp only [maxOf, Option.some.injEq]
      obtain ⟨m1, u1⟩ := foldl_max_spec t a
      obtain ⟨m2, u2⟩ := foldl_max_spec t' b
      exact le_antisymm (u2 _ ((h _).mp m1)) (u1 _ ((h _).mpr m2))

theorem mem_allPairs (R : Mat) (m : Nat) (x : Rat) :
    x ∈ allPairs m R ↔ ∃ i j, i < m ∧ j < i ∧ x = effRes R i j := by
  unfold allPairs
  have inner : ∀ (i k : Nat) (acc : List Rat),
      x ∈ (List.range k).foldl (fun acc j => acc ++ [effRes R i j]) acc
        ↔ x ∈ acc ∨ ∃ j, j < k ∧ x = effRes R i j := by
    intro i k
    induction k with
    | zero => simp
    | succ k ih =>
      intro acc
      rw [List.range_succ, List.foldl_append]
      simp only [List.foldl_cons, List.foldl_nil, List.mem_append, List.mem_singleton, ih]
      constructor
      · rintro ((h | ⟨j, hj, e⟩) | e)
        · exact Or.inl h
        · exact Or.inr ⟨j, by omega, e⟩
        · exact Or.inr ⟨k, by omega, e⟩
      · rintro (h | ⟨j, hj, e⟩)
        · exact Or.inl (Or.inl h)
        · rcases Nat.lt_succ_iff_lt_or_eq.mp hj with hj | rfl
          · exact Or.inl (Or.inr ⟨j, hj, e⟩)
          · exact Or.inr e
  have outer : ∀ (k : Nat) (acc : List Rat),
      x ∈ (List.range k).foldl (fun acc i =>
          (List.range i).foldl (fun acc j => acc ++ [effRes R i j]) acc) acc
        ↔ x ∈ acc ∨ ∃ i j, i < k ∧ j < i ∧ x = effRes R i j := by
    intro k
    induction k with
    | zero => simp
    | succ k ih =>
      intro acc
      rw [List.range_succ, List.foldl_append]
      simp only [List.foldl_cons, List.foldl_nil, inner, ih]
      constructor
      · rintro ((h | ⟨i, j, hi, hj, e⟩) | ⟨j, hj, e⟩)
        · exact Or.inl h
        · exact Or.inr ⟨i, j, by omega, hj, e⟩
        · exact Or.inr ⟨k, j, by omega, hj, e⟩
      · rintro (h | ⟨i, j, hi, hj, e⟩)
        · exact Or.inl (Or.inl h)
        · rcases Nat.lt_succ_iff_lt_or_eq.mp hi with hi | rfl
          · exact Or.inl (Or.inr ⟨i, j, hi, hj, e⟩)
          · exact Or.inr ⟨j, hj, e⟩
  exact (outer m []).trans (by simp)

theorem effRes_comm (R : Mat) (a b : Nat) : effRes R a b = effRes R b a := by
  simp only [effRes]; split <;> split <;> first | rfl | omega | ring

/-- `diameter_effective_resistance()`: `np.max` of the hand-rolled triangular store -/
theorem diameterER_relabel (h : IsPerm n idx) (R R' : Mat)
    (he : ∀ i j, i < n → j < n → effRes R' i j = effRes R (idx i) (idx j)) :
    maxOf (allPairs n R') = maxOf (allPairs n R) := by
  apply maxOf_congr_mem
  intro x
  rw [mem_allPairs, mem_allPairs]
  constructor
  · rintro ⟨i, j, hi, hj, e⟩
    have hj' : j < n := by omega
    have hne : idx i ≠ idx j := fun c => by have := h.inj hi hj' c; omega
    rw [he i j hi hj'] at e
    rcases Nat.lt_or_gt_of_ne hne with c | c
    · exact ⟨idx j, idx i, h.lt hj', c, by rw [e, effRes_comm]⟩
    · exact ⟨idx i, idx j, h.lt hi, c, e⟩
  · rintro ⟨i, j, hi, hj, e⟩
    have hj' : j < n := by omega
    obtain ⟨a, ha, rfl⟩ := h.surj hi
    obtain ⟨b, hb, rfl⟩ := h.surj hj'
    have hne : a ≠ b := fun c => by subst c; omega
    rw [← he a b ha hb] at e
    rcases Nat.lt_or_gt_of_ne hne with c | c
    · exact ⟨b, a, hb, c, by rw [e, effRes_comm]⟩
    · exact ⟨a, b, ha, c, e⟩

end diameter

end Pyunicorn.Relabel
