import Pyunicorn.Lemmas.LineDistSeq
/-! C08, round 4: the sequential predicate and the stored matrix in double arithmetic
(`xOps rnd`: both infinities, NaN, a rounding of every finite difference).  Core Lean only. -/
namespace Pyunicorn.LineDist
open Pyunicorn.Generated
open Pyunicorn.Recurrence (V absdiff gtV ltV tab)

/-- `metric_supremum` and the `l` loop of `_supremum_distance_matrix_rp` are the same text -/
theorem metric_eq_rp_entry {α : Type} (O : FOps α) (I j dim : Int) (E : Int → Int → α) :
    StructC08.metric_supremum O I j dim E = StructC08.supremum_rp_entry O I j dim E := rfl

theorem X.absdiff_comm (rnd : Rat → Rat) (a b : X) : X.absdiff rnd a b = X.absdiff rnd b a := by
  cases a <;> cases b <;> simp [X.absdiff]
  rename_i x y
  by_cases h1 : x ≤ y <;> by_cases h2 : y ≤ x <;> simp [h1, h2] <;> grind

/-- the order of the two samples does not matter (`|a - b| = |b - a|` also after rounding) -/
theorem rp_entry_comm' {α : Type} (O : FOps α) (hc : ∀ a b, O.absdiff a b = O.absdiff b a)
    (I j dim : Int) (E : Int → Int → α) :
    StructC08.supremum_rp_entry O I j dim E = StructC08.supremum_rp_entry O j I dim E := by
  unfold StructC08.supremum_rp_entry
  congr 1
  funext diff l
  simp only [hc (E I l) (E j l)]

theorem rp_entry_comm (rnd : Rat → Rat) (I j dim : Int) (E : Int → Int → X) :
    StructC08.supremum_rp_entry (xOps rnd) I j dim E
      = StructC08.supremum_rp_entry (xOps rnd) j I dim E :=
  rp_entry_comm' (xOps rnd) (X.absdiff_comm rnd) I j dim E

theorem X.absdiff_self (rnd : Rat → Rat) (h0 : rnd 0 = 0) (x : X) :
    X.absdiff rnd x x = .nan ∨ X.absdiff rnd x x = .fin 0 := by
  cases x <;> simp [X.absdiff, h0, Rat.sub_self]

theorem supFoldX_zero {β : Type} (l : List β) (f : β → X)
    (h : ∀ t ∈ l, f t = .nan ∨ f t = .fin 0) :
    l.foldl (fun acc t => if X.gt (f t) acc then f t else acc) (.fin 0) = .fin 0 := by
  induction l with
  | nil => rfl
  | cons t ts ih =>
    simp only [List.foldl_cons]
    have ht : (if X.gt (f t) (.fin 0) then f t else .fin 0) = X.fin 0 := by
      rcases h t (by simp) with h' | h' <;> simp [h', X.gt, X.lt]
    rw [ht]
    exact ih (fun t' ht' => h t' (by simp [ht']))

/-- the distance of a state vector to itself is `0` whatever it holds (NaN and `inf - inf` are
skipped by `tmp_diff > diff`): the on-the-fly main diagonal is the `np.zeros` diagonal -/
theorem rp_entry_self (rnd : Rat → Rat) (h0 : rnd 0 = 0) (I dim : Int) (E : Int → Int → X) :
    StructC08.supremum_rp_entry (xOps rnd) I I dim E = .fin 0 := by
  unfold StructC08.supremum_rp_entry
  simp only [xOps]
  exact supFoldX_zero _ (fun l : Nat => X.absdiff rnd (E I l) (E I l))
    (fun t _ => X.absdiff_self rnd h0 _)

/-- **the predicate agrees in double arithmetic**: for every rounding with `rnd 0 = 0`, every
embedding (finite, infinite, NaN samples), every threshold (finite, infinite, NaN) and size, what
the sequential kernels compute on the fly at `(I, j)` is the entry that `set_fixed_threshold`
stores — everywhere in plain mode, on every cell with two complete samples otherwise. -/
theorem nearX_eq_matrix (rnd : Rat → Rat) (h0 : rnd 0 = 0) (emb : List (List X)) (eps : X)
    (dim : Nat) (mv : Bool) (I j : Nat) (hI : I < emb.length) (hj : j < emb.length)
    (hm : mv = true → (missingMaskX emb).getD I false = false ∧
        (missingMaskX emb).getD j false = false) :
    (xOps rnd).lt (StructC08.metric_supremum (xOps rnd) I j dim (accX emb)) eps
      = Mat.at (fixedThresholdX rnd emb eps dim mv) I j := by
  unfold fixedThresholdX
  simp only []
  rw [at_tab _ _ _ _ _ hI hj]
  have hmask : (mv && ((missingMaskX emb).getD I false || (missingMaskX emb).getD j false))
      = false := by
    cases mv with
    | false => rfl
    | true => have := hm rfl; rw [this.1, this.2]; rfl
  rw [hmask, Bool.not_false, Bool.and_true, metric_eq_rp_entry]
  congr 1
  unfold StructC08._supremum_distance_matrix_rp
  simp only []
  by_cases h1 : j < I
  · rw [if_pos (by omega)]
  · by_cases h2 : I < j
    · rw [if_neg (by omega), if_pos (by omega), rp_entry_comm]
    · have : I = j := by omega
      subst this
      rw [if_neg (by omega), if_neg (by omega), rp_entry_self rnd h0]
      rfl

/-! ### the exact model of rounds 1–3 is the instance `rnd = id` on NaN-or-finite data -/

theorem toX_absdiff (a b : V) : X.absdiff id (toX a) (toX b) = toX (absdiff a b) := by
  cases a <;> cases b <;> simp [toX, X.absdiff, absdiff]

theorem toX_gt (a b : V) : X.gt (toX a) (toX b) = gtV a b := by
  cases a <;> cases b <;> simp [toX, X.gt, X.lt, gtV]

theorem toX_lt (a b : V) : X.lt (toX a) (toX b) = ltV a b := by
  cases a <;> cases b <;> simp [toX, X.lt, ltV]

theorem supFold_toX (l : List Nat) (g : Nat → V) (d0 : V) :
    l.foldl (fun (diff : X) (l : Nat) => if X.gt (toX (g l)) diff then toX (g l) else diff) (toX d0)
      = toX (l.foldl (fun (diff : V) (l : Nat) => if gtV (g l) diff then g l else diff) d0) := by
  induction l generalizing d0 with
  | nil => rfl
  | cons a t ih =>
    simp only [List.foldl_cons]
    rw [← ih, toX_gt]
    congr 1
    split <;> rfl

theorem metric_toX (I j dim : Int) (E : Int → Int → V) :
    StructC08.metric_supremum (xOps id) I j dim (fun a b => toX (E a b))
      = toX (StructC08.metric_supremum vOps I j dim E) := by
  unfold StructC08.metric_supremum
  simp only [xOps, vOps, toX_absdiff]
  exact supFold_toX _ (fun l : Nat => absdiff (E I l) (E j l)) (some 0)

/-! ### infinite samples -/

theorem X.gt_nan_left (d : X) : X.gt .nan d = false := by cases d <;> rfl
theorem X.gt_pinf_right (t : X) : X.gt t .pinf = false := by cases t <;> rfl
theorem X.lt_pinf_left (e : X) : X.lt .pinf e = false := by cases e <;> rfl

/-- once a coordinate difference is `+inf` the running maximum is `+inf` and stays there -/
theorem supFoldX_pinf (L : List Nat) (g : Nat → X) (a0 : X) (hna : a0 ≠ .nan)
    (h : a0 = .pinf ∨ ∃ l ∈ L, g l = .pinf) :
    L.foldl (fun (diff : X) (l : Nat) => if X.gt (g l) diff then g l else diff) a0 = .pinf := by
  induction L generalizing a0 with
  | nil =>
    rcases h with h | ⟨l, hl, _⟩
    · exact h
    · simp at hl
  | cons a t ih =>
    simp only [List.foldl_cons]
    apply ih
    · by_cases hg : X.gt (g a) a0 = true
      · rw [if_pos hg]
        intro hn
        rw [hn, X.gt_nan_left] at hg
        exact Bool.noConfusion hg
      · rw [if_neg hg]; exact hna
    · rcases h with h | ⟨l, hl, hgl⟩
      · left; subst h; simp [X.gt_pinf_right]
      · rcases List.mem_cons.mp hl with rfl | hl
        · left
          rw [hgl]
          cases a0 <;> simp_all [X.gt, X.lt]
        · right; exact ⟨l, hl, hgl⟩

end Pyunicorn.LineDist
