import Pyunicorn.Model.Repr
import Mathlib.Data.List.Nodup
import Mathlib.Data.List.ProdSigma
/-! Helper lemmas for C05 (sparse-matrix model, index pairs, graph edges). -/
namespace Pyunicorn.Repr

/-! ### index pairs -/

theorem mem_pairs {m n : Nat} {p : Nat × Nat} : p ∈ pairs m n ↔ p.1 < m ∧ p.2 < n := by
  obtain ⟨i, j⟩ := p
  simp only [pairs, List.mem_flatMap, List.mem_map, List.mem_range, Prod.mk.injEq]
  constructor
  · rintro ⟨a, ha, b, hb, rfl, rfl⟩; exact ⟨ha, hb⟩
  · rintro ⟨h1, h2⟩; exact ⟨i, h1, j, h2, rfl, rfl⟩

theorem nodup_pairs (m n : Nat) : (pairs m n).Nodup := by
  have : pairs m n = List.product (List.range m) (List.range n) := rfl
  rw [this]
  exact List.Nodup.product List.nodup_range List.nodup_range

/-! ### entries built by `filterMap` over a duplicate-free list of coordinates -/

/-- the entry list `[(p, v p) | p ∈ l, c p]` -/
def entsOf (l : List (Nat × Nat)) (c : Nat → Nat → Bool) (v : Nat → Nat → Int) : List Entry :=
  l.filterMap fun p => if c p.1 p.2 then some (p.1, p.2, v p.1 p.2) else none

theorem entsOf_nil (c v) : entsOf [] c v = [] := rfl

theorem entsOf_cons (p : Nat × Nat) (l c v) :
    entsOf (p :: l) c v
      = if c p.1 p.2 = true then (p.1, p.2, v p.1 p.2) :: entsOf l c v else entsOf l c v := by
  unfold entsOf
  by_cases hc : c p.1 p.2 = true <;> simp [List.filterMap_cons, hc]

theorem valAt_nil (i j : Nat) : valAt [] i j = 0 := rfl

theorem valAt_cons (e : Entry) (es : List Entry) (i j : Nat) :
    valAt (e :: es) i j = (if e.1 = i ∧ e.2.1 = j then e.2.2 else 0) + valAt es i j := by
  unfold valAt
  by_cases h : e.1 = i ∧ e.2.1 = j
  · simp [h]
  · have : (e.1 == i && e.2.1 == j) = false := by
      simp only [Bool.and_eq_false_iff, beq_eq_false_iff_ne, ne_eq]
      by_cases h1 : e.1 = i
      · right; exact fun h2 => h ⟨h1, h2⟩
      · left; exact h1
    simp [List.filter_cons, this, h]

theorem hasAt_nil (i j : Nat) : hasAt [] i j = false := rfl

theorem hasAt_cons (e : Entry) (es : List Entry) (i j : Nat) :
    hasAt (e :: es) i j = (decide (e.1 = i ∧ e.2.1 = j) || hasAt es i j) := by
  unfold hasAt
  simp [List.any_cons, Bool.decide_and, beq_eq_decide]

theorem valAt_entsOf_not_mem (l : List (Nat × Nat)) (c v) (i j : Nat) (h : (i, j) ∉ l) :
    valAt (entsOf l c v) i j = 0 := by
  induction l with
  | nil => rfl
  | cons p l ih =>
    have hl : (i, j) ∉ l := fun e => h (by simp [e])
    have hp' : ¬ (p.1 = i ∧ p.2 = j) := fun ⟨a, b⟩ => h (by
      have : p = (i, j) := Prod.ext a b
      simp [this])
    rw [entsOf_cons]
    split
    · rw [valAt_cons]; simp [hp', ih hl]
    · exact ih hl

theorem valAt_entsOf (l : List (Nat × Nat)) (hl : l.Nodup) (c v) (i j : Nat) :
    valAt (entsOf l c v) i j = if (i, j) ∈ l ∧ c i j = true then v i j else 0 := by
  induction l with
  | nil => simp [entsOf, valAt]
  | cons p l ih =>
    rw [List.nodup_cons] at hl
    rw [entsOf_cons]
    by_cases hp : p = (i, j)
    · subst hp
      have := valAt_entsOf_not_mem l c v i j hl.1
      split
      · rename_i hc; rw [valAt_cons]; simp at hc; simp [this, hc]
      · rename_i hc; simp at hc; simp [this, hc]
    · have hp' : ¬ (p.1 = i ∧ p.2 = j) := fun ⟨a, b⟩ => hp (Prod.ext a b)
      have hne : ¬ (i, j) = p := fun e => hp e.symm
      split
      · rw [valAt_cons, ih hl.2]; simp [hp', hne]
      · rw [ih hl.2]; simp [hne]

theorem hasAt_entsOf (l : List (Nat × Nat)) (c v) (i j : Nat) :
    hasAt (entsOf l c v) i j = decide ((i, j) ∈ l ∧ c i j = true) := by
  induction l with
  | nil => simp [entsOf, hasAt]
  | cons p l ih =>
    rw [entsOf_cons]
    by_cases hp : p = (i, j)
    · subst hp
      split
      · rename_i hc; simp at hc; rw [hasAt_cons]; simp [hc]
      · rename_i hc; simp at hc; rw [ih]; simp [hc]
    · have hp' : ¬ (p.1 = i ∧ p.2 = j) := fun ⟨a, b⟩ => hp (Prod.ext a b)
      have hne : ¬ (i, j) = p := fun e => hp e.symm
      split
      · rw [hasAt_cons, ih]; simp [hp', hne]
      · rw [ih]; simp [hne]

theorem nzCoords_nil (m n : Nat) : nzCoords ⟨m, n, []⟩ = [] := rfl

theorem nzCoords_cons (m n : Nat) (e : Entry) (es : List Entry) :
    nzCoords ⟨m, n, e :: es⟩
      = if e.2.2 ≠ 0 then (e.1, e.2.1) :: nzCoords ⟨m, n, es⟩ else nzCoords ⟨m, n, es⟩ := by
  unfold nzCoords
  by_cases h : e.2.2 = 0 <;> simp [List.filter_cons, h]

theorem nzCoords_entsOf (m n : Nat) (l : List (Nat × Nat)) (c v) :
    nzCoords ⟨m, n, entsOf l c v⟩ = l.filter fun p => c p.1 p.2 && v p.1 p.2 != 0 := by
  induction l with
  | nil => rfl
  | cons p l ih =>
    rw [entsOf_cons]
    split
    · rename_i hc
      rw [nzCoords_cons, ih, List.filter_cons]
      by_cases hv : v p.1 p.2 = 0 <;> simp [hc, hv]
    · rename_i hc
      rw [ih, List.filter_cons]; simp [hc]

end Pyunicorn.Repr
